#!/bin/sh
# offline build of the checker (normal and race builds) to warm the Go build cache
cd /verif || exit 1
export GOFLAGS=-mod=mod GOPROXY=off GOSUMDB=off GOTOOLCHAIN=local
mkdir -p bin .work evidence replay
go build -tags verif -o bin/vcheck ./cmd/vcheck || exit 1
go build -race -tags verif -o bin/vcheck-race ./cmd/vcheck || exit 1
echo setup ok

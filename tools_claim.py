#!/usr/bin/env python3
"""tools_claim.py Cxx <text> <note> <technique> [category]  — add/replace a claimed entry, regenerate MANIFEST.json"""
import json, sys, subprocess
t=json.load(open('/verif/manifest_table.json'))
e={"text":sys.argv[2],"note":sys.argv[3],"technique":sys.argv[4]}
if len(sys.argv)>5: e["category"]=sys.argv[5]
t['claimed'][sys.argv[1]]=e
hc=subprocess.check_output("git -C /repo log --format=%h --grep='^verif hook'",shell=True).decode().split()
t['hook_commits']=list(reversed(hc))
json.dump(t,open('/verif/manifest_table.json','w'),indent=1)
subprocess.check_call(['python3','/verif/gen_manifest.py'])

#!/usr/bin/env python3
"""Seeded-change helper.

  tools_seeded.py confirm <src_dir> <seed_id>
      <src_dir> holds patch.diff, meta.json and the demo (as delivered by a break-agent).
      Confirms in a scratch worktree (/tmp/sdv-<seed_id>): patch applies, repo builds, demo passes
      without and fails with the patch, tests of the touched packages still pass with the patch.
      On success copies everything to /verif/seeded/<seed_id>/ and records what was run in meta.json.

  tools_seeded.py run <seed_id> [Cxx ...]
      Applies /verif/seeded/<seed_id>/patch.diff to /repo, runs the quick check(s) (default: the property
      named in meta.json), undoes the patch, and records detected / missed in /verif/seeded/<seed_id>/result.json.
"""
import json, os, subprocess, sys, shutil, re, time

ENV = dict(os.environ, GOFLAGS="-mod=mod", GOPROXY="off", GOSUMDB="off", GOTOOLCHAIN="local")

def sh(cmd, cwd=None, timeout=3000):
    p = subprocess.run(cmd, shell=True, cwd=cwd, env=ENV, stdout=subprocess.PIPE, stderr=subprocess.STDOUT, timeout=timeout)
    return p.returncode, p.stdout.decode(errors="replace")

def touched_pkgs(patch):
    pk = set()
    for l in open(patch):
        m = re.match(r"\+\+\+ b/(.+)", l)
        if m and m.group(1).endswith(".go"):
            pk.add("./" + os.path.dirname(m.group(1)) + "/...")
    return sorted(pk)

def confirm(src, sid):
    meta = json.load(open(os.path.join(src, "meta.json")))
    wt = f"/tmp/sdv-{sid}"
    sh(f"git -C /repo worktree remove --force {wt}/repo; rm -rf {wt}; git -C /repo worktree prune")
    os.makedirs(wt)
    rc, out = sh(f"git -C /repo worktree add --detach {wt}/repo HEAD")
    assert rc == 0, out
    repo = f"{wt}/repo"
    log = {}
    try:
        demo = meta["demo"]
        copy_to = demo.get("copy_to")
        # locate demo file(s) in src
        demo_files = [f for f in os.listdir(src) if f not in ("patch.diff", "meta.json") and not f.endswith(".log")]
        def place():
            if copy_to:
                tgt = os.path.join(repo, copy_to)
                if len(demo_files) == 1 and os.path.isfile(os.path.join(src, demo_files[0])) and not copy_to.endswith("/"):
                    os.makedirs(os.path.dirname(tgt), exist_ok=True)
                    shutil.copy(os.path.join(src, demo_files[0]), tgt)
                else:
                    os.makedirs(tgt, exist_ok=True)
                    for f in demo_files:
                        p = os.path.join(src, f)
                        if os.path.isdir(p):
                            shutil.copytree(p, os.path.join(tgt, f), dirs_exist_ok=True)
                        else:
                            shutil.copy(p, os.path.join(tgt, f))
        place()
        run = re.split(r"\s{2,}\(", demo["run"])[0].strip()  # some deliveries append a remark in parentheses
        rc0, out0 = sh(run, cwd=repo)
        log["demo_without_patch"] = {"rc": rc0, "tail": out0[-600:]}
        rc, out = sh(f"git apply {os.path.abspath(src)}/patch.diff", cwd=repo)
        log["apply"] = {"rc": rc, "out": out[-300:]}
        if rc != 0:
            return False, log
        rcb, outb = sh("go build ./...", cwd=repo)
        log["build"] = {"rc": rcb, "tail": outb[-400:]}
        rc1, out1 = sh(run, cwd=repo)
        log["demo_with_patch"] = {"rc": rc1, "tail": out1[-600:]}
        # existing tests of touched packages (demo file removed first)
        if copy_to:
            tgt = os.path.join(repo, copy_to)
            if os.path.isfile(tgt):
                os.remove(tgt)
            elif os.path.isdir(tgt) and copy_to.rstrip("/").split("/")[-1].startswith("zz"):
                shutil.rmtree(tgt)
        pk = touched_pkgs(os.path.join(src, "patch.diff"))
        # touched packages: up to 2 attempts; ./test/unit separately, up to 8 attempts: it fails on the
        # UNCHANGED tree in roughly every second run (an async goroutine of an unrelated test panics with a
        # nil TxPool), and blockchain's TestCheckTimeOfReword is a wall-clock assertion.
        def attempt(cmd, n):
            for a in range(n):
                rc, out = sh(cmd, cwd=repo, timeout=3000)
                if rc == 0:
                    return rc, out, a + 1
            return rc, out, n
        # packages whose tests fail on the UNCHANGED tree (p2p/peer's TestPeerConnection panics at the pinned
        # commit and is not in the baseline's stable_pass list) are not held against the patch
        def failing_pkgs(out):
            return set(l.split()[1] for l in out.splitlines() if l.startswith("FAIL\t") and len(l.split()) > 1)
        sh(f"git apply -R {os.path.abspath(src)}/patch.diff", cwd=repo)
        rcb0, outb0 = sh("go test -vet=off -count=1 -skip TestCheckTimeOfReword " + " ".join(sorted(set(pk))), cwd=repo, timeout=3000)
        rc_re, out_re = sh(f"git apply {os.path.abspath(src)}/patch.diff", cwd=repo)
        assert rc_re == 0, out_re
        base_fail = failing_pkgs(outb0)
        def attempt_pk(cmd, n):
            for a in range(n):
                rc, out = sh(cmd, cwd=repo, timeout=3000)
                if rc == 0 or failing_pkgs(out) <= base_fail:
                    return 0, out, a + 1
            return rc, out, n
        rct, outt, at1 = attempt_pk("go test -vet=off -count=1 -skip TestCheckTimeOfReword " + " ".join(sorted(set(pk))), 2)
        rcu, outu, at2 = attempt("go test -vet=off -count=1 ./test/unit/...", 8)
        fails = [l for l in (outt + outu).splitlines() if l.startswith("--- FAIL") or l.startswith("FAIL")]
        log["existing_tests"] = {"rc": rct or rcu, "attempts_pkgs": at1, "attempts_test_unit": at2, "pkgs": pk + ["./test/unit/..."], "fail_lines": fails[:20],
                                 "packages_failing_on_unchanged_tree": sorted(base_fail)}
        rct = rct or rcu
        ok = rc0 == 0 and rcb == 0 and rc1 != 0 and rct == 0
        return ok, log
    finally:
        sh(f"git -C /repo worktree remove --force {repo}; rm -rf {wt}; git -C /repo worktree prune")

def run_isolated(sid, props):
    """Like `run`, but on scratch worktrees of /repo HEAD and /verif HEAD (so the working trees stay usable)."""
    d = f"/verif/seeded/{sid}"
    meta = json.load(open(os.path.join(d, "meta.json")))
    props = props or [meta["property"]]
    base = f"/tmp/sdr-{sid}"
    sh(f"git -C /repo worktree remove --force {base}/repo; git -C /verif worktree remove --force {base}/verif; rm -rf {base}; git -C /repo worktree prune; git -C /verif worktree prune")
    os.makedirs(base)
    rc, out = sh(f"git -C /repo worktree add --detach {base}/repo HEAD"); assert rc == 0, out
    rc, out = sh(f"git -C /verif worktree add --detach {base}/verif HEAD"); assert rc == 0, out
    sh(f"sed -i 's#=> /repo#=> {base}/repo#' {base}/verif/go.mod")
    res = {}
    try:
        rc, out = sh(f"git -C {base}/repo apply {d}/patch.diff"); assert rc == 0, out
        for p in props:
            t0 = time.time()
            rc, out = sh(f"VERIF_DIR={base}/verif ./check {p} quick", cwd=f"{base}/verif", timeout=3000)
            viol = [l for l in out.splitlines() if l.startswith("VIOLATION")]
            sigs = [l.strip() for l in out.splitlines() if l.strip().startswith("signature:")]
            res[p] = {"exit": rc, "detected": rc == 1 and len(viol) > 0, "violations": [v.replace(base, "") for v in viol[:5]], "signatures": sigs[:5],
                      "wall_s": round(time.time() - t0, 1), "tail": out[-500:], "ran_on": "scratch worktrees of /repo HEAD and /verif HEAD"}
            print(p, "exit", rc, "detected" if res[p]["detected"] else "MISSED", sigs[:3])
    finally:
        sh(f"git -C /repo worktree remove --force {base}/repo; git -C /verif worktree remove --force {base}/verif; rm -rf {base}; git -C /repo worktree prune; git -C /verif worktree prune")
    rj = os.path.join(d, "result.json")
    old = json.load(open(rj)) if os.path.exists(rj) else {}
    old.update(res)
    json.dump(old, open(rj, "w"), indent=1)

def main():
    if sys.argv[1] == "confirm":
        src, sid = sys.argv[2], sys.argv[3]
        ok, log = confirm(src, sid)
        print(json.dumps(log, indent=1)[:3000])
        if not ok:
            print("NOT CONFIRMED")
            sys.exit(1)
        dst = f"/verif/seeded/{sid}"
        shutil.rmtree(dst, ignore_errors=True)
        shutil.copytree(src, dst)
        meta = json.load(open(os.path.join(dst, "meta.json")))
        meta["confirmed_by_harness_owner"] = log
        json.dump(meta, open(os.path.join(dst, "meta.json"), "w"), indent=1)
        print("CONFIRMED ->", dst)
    elif sys.argv[1] == "irun":
        run_isolated(sys.argv[2], sys.argv[3:])
    elif sys.argv[1] == "run":
        sid = sys.argv[2]
        d = f"/verif/seeded/{sid}"
        meta = json.load(open(os.path.join(d, "meta.json")))
        props = sys.argv[3:] or [meta["property"]]
        rc, out = sh("git -C /repo status --porcelain")
        assert out.strip() == "", "repo not clean: " + out
        rc, out = sh(f"git -C /repo apply {d}/patch.diff")
        assert rc == 0, out
        res = {}
        try:
            for p in props:
                t0 = time.time()
                rc, out = sh(f"./check {p} quick", cwd="/verif", timeout=3000)
                viol = [l for l in out.splitlines() if l.startswith("VIOLATION")]
                sigs = [l.strip() for l in out.splitlines() if l.strip().startswith("signature:")]
                res[p] = {"exit": rc, "detected": rc == 1 and len(viol) > 0, "violations": viol[:5], "signatures": sigs[:5], "wall_s": round(time.time() - t0, 1), "tail": out[-500:]}
                print(p, "exit", rc, "detected" if res[p]["detected"] else "MISSED", sigs[:3])
        finally:
            sh("git -C /repo checkout -- . ")
            rc, out = sh("git -C /repo status --porcelain")
            if out.strip():
                print("WARNING repo not clean after undo:", out)
        rj = os.path.join(d, "result.json")
        old = json.load(open(rj)) if os.path.exists(rj) else {}
        old.update(res)
        json.dump(old, open(rj, "w"), indent=1)
        # evidence files were rewritten by the run on the patched tree: restore committed ones
        sh("git checkout -- evidence", cwd="/verif")

if __name__ == "__main__":
    main()

#!/bin/sh
# usage: mk_seed_sandbox.sh <Cxx>  -> /tmp/sd-<Cxx>/repo (git worktree), /tmp/sd-<Cxx>/property.json
set -e
id=$1; d=/tmp/sd-$id
rm -rf $d; mkdir -p $d
git -C /repo worktree prune
git -C /repo worktree add --detach $d/repo HEAD >/dev/null 2>&1
jq -c "select(.id==\"$id\")" /verif/properties.jsonl | jq . > $d/property.json
echo $d
sed "s/@ID@/$id/g" /verif/SEED_PROMPT.txt > $d/TASK.md

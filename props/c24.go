package props

import (
	"bytes"
	"crypto/sha256"
	"encoding/binary"
	"encoding/hex"
	"errors"
	"fmt"
	"math/rand"
	"runtime"
	"sort"
	"strings"
	"sync"
	"sync/atomic"
	"time"

	"github.com/elastos/Elastos.ELA/auxpow"
	"github.com/elastos/Elastos.ELA/common"
	"github.com/elastos/Elastos.ELA/common/config"
	"github.com/elastos/Elastos.ELA/core/types"
	common2 "github.com/elastos/Elastos.ELA/core/types/common"
	"github.com/elastos/Elastos.ELA/core/types/payload"
	"github.com/elastos/Elastos.ELA/dpos/state"
	"github.com/elastos/Elastos.ELA/utils"
	"github.com/elastos/Elastos.ELA/utils/verifhook"

	"verif/kit"
)

// C24 — consensus decisions do not depend on scheduling or process-local
// randomness.
//
// Workloads in this file (hook level):
//   c24Calibrate    the toolchain fact every oracle below relies on
//   c24Canary       global-source canary around each random-choice / ordering helper
//   c24SortedOrder  producer ordering is independent of map iteration order
//   c24Interleaving random-choice helpers called while other goroutines use the
//                   process-global math/rand source the way p2p / addrmgr / treap do
// Room is left in runC24 for node-level workloads (twin-node determinism over
// long DPoS histories).

const c24SigCandidate = "nondeterminism:getCandidateIndexAtRandom-global-rand"

func init() {
	kit.Register(&kit.Spec{
		ID:     "C24",
		Rule:   "case = (block hash at height-1, NormalArbitratorsCount, CandidatesCount, unclaimed, voted-producer count | producer set) x (1..15 noise goroutines, noise profile heavy/light x draws-only/with-Seed, yield mode none/Gosched/sleep at the hook between seeding and drawing); every case is first evaluated quiescently (no other goroutine) and against a private-source model, then N times under noise. distinct = distinct tuple; non-trivial = the draw has >= 2 possible outcomes and noise goroutines executed global math/rand operations during the case",
		Shards: func(tier string) int { return 4 },
		Run:    runC24,
		Require: []string{"calibration_seed_stream_equal", "quiescent_equals_private_source_model",
			"interleaving_calls", "interleaving_calls_highlevel", "hook_hits", "noise_ops",
			"canary_checks", "canary_selftest_detects", "canary_unmoved",
			"control_v2_calls", "control_v2_agree", "sorted_order_checks", "errorpath_calls", "crossprocess_cases",
			"twin_scenarios", "twin_scenarios_dposv2_active", "twin_heights_compared", "twin_heights_equal", "twin_heights_compared_dposv2_active", "twin_changes_of_next", "twin_changes_of_cand", "twin_changes_of_rnd",
			"twin_canary_brackets", "twin_canary_unmoved", "twin_gomaxprocs_1_vs_16",
			"readfault_cases", "readfault_cases:getCandidateIndexAtRandom", "readfault_cases:getSortedProducersWithRandom", "readfault_cases:getRandomDposV2Producers",
			"readfault_prev_unreadable_tip_readable", "readfault_outcome_error", "readfault_outcome_selection", "readfault_tip_independent",
			"onduty_answers_checked", "onduty_recover_steps", "onduty_recover_roundchange_steps", "onduty_recover_rollback_steps", "onduty_recover_calls_overlapping_a_step",
			"onduty_recover_episodes:crc-branch", "onduty_recover_episodes:all-arbiters-branch",
			"onduty_blocks_episodes", "onduty_blocks_roundchange_episodes", "onduty_blocks_steps", "onduty_blocks_calls_overlapping_a_step"},
		Assumptions: []string{
			"go1.23.5 with go.mod 'go 1.20': rand.Seed(s);rand.Intn(n) on the global source equals rand.New(rand.NewSource(s)).Intn(n) when nothing interleaves (calibrated in every run; the run is inconclusive otherwise)",
			"the exported wrappers in dpos/state/verif_rand_export.go call the unexported helpers unchanged; the only inserted line is verifhook.At(\"arbiters.afterSeed\")",
			"interleavings are sampled (scheduler + yield point), not enumerated",
		},
		TimeoutS: func(tier string) int { return 900 },
		Post:     c24Post,
	})
}

// c24Post: every shard (a separate process: other pid, start time, global
// seed, GOMAXPROCS) evaluated the same seed-determined case list; the digests
// of the results must agree.
func c24Post(a *kit.Agg) {
	n, sum, mx := a.Counters["crossprocess_shards"], a.Counters["crossprocess_digest_sum"], a.Counters["max:crossprocess_digest"]
	if n < 2 {
		a.Inconclusive("cross-process comparison needs >= 2 shards, got %d", n)
		return
	}
	if sum != mx*n {
		a.Violate("nondeterminism:cross-process-result",
			fmt.Sprintf("%d worker processes evaluated getCandidateIndexAtRandom / getSortedProducersWithRandom / getRandomDposV2Producers on the same %d (chain data) cases and did not all obtain the same results (digest max %d, sum %d): the result depends on process-local state", n, a.Counters["crossprocess_cases"]/n, mx, sum), nil)
	}
}

func runC24(c *kit.Ctx) {
	if !c24Calibrate(c) {
		return
	}
	c24CrossProcess(c)
	c24Interleaving(c)
	c24Canary(c)
	c24SortedOrder(c)
	// Node-level workload (c24_twin.go): the same recorded block sequence synced by
	// two full-node processes with different global seeds / GOMAXPROCS / start
	// times; per-height arbiters, candidates, on-duty order and random candidate
	// must be identical; consensus-state steps bracketed with the canary.
	c24Twin(c)
	// Fault / concurrency families (second round):
	//   c24_readfault.go  selection entry points over one chain for several tips with a
	//                     block getter that fails for chosen heights
	//   c24_onduty.go     on-duty getters read while a writer changes / rolls back rounds
	c24ReadFault(c)
	c24OnDutyRecover(c)
	c24OnDutyBlocks(c)
}

// ---------------------------------------------------------------- calibration

// c24Calibrate verifies, on this toolchain, that the global source after
// rand.Seed(s) yields the same stream as a private rand.NewSource(s). All C24
// oracles (and the proposed fix) rely on it. Single-threaded.
func c24Calibrate(c *kit.Ctx) bool {
	r := c.Rand("c24/calib")
	seeds := []int64{0, 1, -1, 2147483646, 2147483647, 2147483648, -2147483647, 1<<63 - 1, -1 << 63, 89482311}
	for i := 0; i < c.N(3000, 30000); i++ {
		seeds = append(seeds, int64(r.Uint64()))
	}
	for _, s := range seeds {
		n := 1 + r.Intn(100)
		rand.Seed(s)
		g1, g2, g3 := rand.Intn(n), rand.Int63(), rand.Intn(73)
		p := rand.New(rand.NewSource(s))
		p1, p2, p3 := p.Intn(n), p.Int63(), p.Intn(73)
		if g1 != p1 || g2 != p2 || g3 != p3 {
			c.Inconclusive("calibration failed: global Seed(%d) stream differs from private source (Intn(%d): %d vs %d)", s, n, g1, p1)
			return false
		}
		c.Inc("calibration_seed_stream_equal")
	}
	return true
}

// ---------------------------------------------------------------- fixture

type c24Fixture struct {
	cfg      *config.Configuration
	arb      *state.Arbiters
	blocks   map[uint32]*types.Block
	normal   int
	cand     int
	nCRC     int
	prodKeys []c24Prod // model copy of the producer set
}

type c24Prod struct {
	owner, node []byte
	votes       common.Fixed64
	v2rights    float64
}

func c24RandKey(r *rand.Rand) []byte {
	k := make([]byte, 33)
	r.Read(k)
	k[0] = 2 + k[0]&1
	return k
}

// newC24Fixture builds an *Arbiters from exported fields only and fills
// State.ActivityProducers through the exported Producer setters.
func newC24Fixture(r *rand.Rand, normal, cand, nProducers int, ties bool) *c24Fixture {
	cfg := config.GetDefaultParams()
	cfg.DPoSConfiguration.NormalArbitratorsCount = normal
	cfg.DPoSConfiguration.CandidatesCount = cand
	cfg.DPoSConfiguration.NoCRCDPOSNodeHeight = 0
	cfg.DPoSV2EffectiveVotes = 1000
	f := &c24Fixture{cfg: cfg, blocks: map[uint32]*types.Block{}, normal: normal, cand: cand,
		nCRC: len(cfg.DPoSConfiguration.CRCArbiters)}
	st := &state.State{StateKeyFrame: state.NewStateKeyFrame(), ChainParams: cfg}
	f.arb = &state.Arbiters{State: st, ChainParams: cfg, History: utils.NewHistory(720)}
	f.arb.RegisterFunction(
		func() uint32 { return 0 },
		func() *common.Uint256 { return &common.Uint256{} },
		func(h uint32) (*types.Block, error) {
			if b, ok := f.blocks[h]; ok {
				return b, nil
			}
			return nil, errors.New("not found")
		}, nil)
	for i := 0; i < nProducers; i++ {
		owner, node := c24RandKey(r), c24RandKey(r)
		var votes common.Fixed64
		if ties {
			votes = common.Fixed64(1+r.Intn(4)) * 100000000
		} else {
			votes = common.Fixed64(1 + r.Int63n(5000000*100000000))
		}
		p := &state.Producer{}
		p.SetInfo(payload.ProducerInfo{OwnerKey: owner, NodePublicKey: node, NickName: fmt.Sprintf("p%d", i)})
		p.SetState(state.Active)
		p.SetVotes(votes)
		// DPoS v2 votes: lock of 72000 blocks => weight log10(100) = 2
		var stake common.Uint168
		var txh common.Uint256
		r.Read(stake[:])
		r.Read(txh[:])
		v2 := votes
		p.VerifSetDetailedDPoSV2Votes(map[common.Uint168]map[common.Uint256]payload.DetailedVoteInfo{
			stake: {txh: payload.DetailedVoteInfo{StakeProgramHash: stake, TransactionHash: txh, BlockHeight: 1000,
				Info: []payload.VotesWithLockTime{{Candidate: node, Votes: v2, LockTime: 1000 + 72000}}}},
		})
		st.ActivityProducers[hex.EncodeToString(owner)] = p
		f.prodKeys = append(f.prodKeys, c24Prod{owner: owner, node: node, votes: votes, v2rights: p.GetTotalDPoSV2VoteRights()})
	}
	return f
}

func (f *c24Fixture) addBlock(r *rand.Rand, height uint32) *types.Block {
	var h common.Uint256
	r.Read(h[:])
	ap := auxpow.GenerateAuxPow(h)
	ap.ParBlockHeader.Timestamp = r.Uint32() // GenerateAuxPow stamps wall-clock time; keep the case a function of the seed
	hdr := common2.Header{Version: r.Uint32() % 3, Timestamp: r.Uint32(), Bits: r.Uint32(), Nonce: r.Uint32(), Height: height,
		AuxPow: *ap}
	r.Read(hdr.Previous[:])
	r.Read(hdr.MerkleRoot[:])
	b := &types.Block{Header: hdr}
	f.blocks[height] = b
	return b
}

// seed derivation as the code under test does it: bytes 24..31 of the hash,
// little endian, as int64 (re-implemented, not imported).
func c24Seed(h common.Uint256) int64 { return int64(binary.LittleEndian.Uint64(h[24:32])) }

// model of getCandidateIndexAtRandom on a private source.
func (f *c24Fixture) modelIndex(height uint32, unclaimed, voted int) (idx, n int, seed int64, ok bool) {
	b := f.blocks[height-1]
	if b == nil {
		return 0, 0, 0, false
	}
	seed = c24Seed(b.Hash())
	count := voted - unclaimed - (f.normal - 1)
	if count < 1 {
		return 0, 0, seed, false
	}
	n = count
	if f.cand+1 < n {
		n = f.cand + 1
	}
	return rand.New(rand.NewSource(seed)).Intn(n), n, seed, true
}

// model of getSortedProducers: votes descending, node public key ascending.
func (f *c24Fixture) modelSorted() []c24Prod {
	ps := append([]c24Prod(nil), f.prodKeys...)
	sort.SliceStable(ps, func(i, j int) bool {
		if ps[i].votes == ps[j].votes {
			return bytes.Compare(ps[i].node, ps[j].node) < 0
		}
		return ps[i].votes > ps[j].votes
	})
	return ps
}

// model of getRandomDposV2Producers with no CR arbiters in the choosing map.
func (f *c24Fixture) modelV2(height uint32, unclaimed int) ([]string, bool) {
	b := f.blocks[height-1]
	if b == nil {
		return nil, false
	}
	r := rand.New(rand.NewSource(c24Seed(b.HashWithAux())))
	ps := append([]c24Prod(nil), f.prodKeys...)
	sort.SliceStable(ps, func(i, j int) bool {
		if ps[i].v2rights == ps[j].v2rights {
			return bytes.Compare(ps[i].node, ps[j].node) < 0
		}
		return ps[i].v2rights > ps[j].v2rights
	})
	var keys []string
	for _, p := range ps[unclaimed:] {
		keys = append(keys, hex.EncodeToString(p.owner))
	}
	count := f.normal + f.nCRC
	var out []string
	if len(keys) > count {
		for i := 0; i < count; i++ {
			s := r.Intn(len(keys))
			out = append(out, keys[s])
			keys = append(append([]string(nil), keys[:s]...), keys[s+1:]...)
		}
	}
	return append(out, keys...), true
}

func c24Owners(ps []*state.Producer) string {
	var sb strings.Builder
	for _, p := range ps {
		sb.WriteString(hex.EncodeToString(p.OwnerPublicKey()[:4]))
		sb.WriteByte(',')
	}
	return sb.String()
}

// ---------------------------------------------------------------- cross-process

// c24CrossProcess evaluates a case list that depends on VERIF_SEED only (not
// on the shard) in every shard, after perturbing process-local state
// differently per shard, and publishes a digest for c24Post to compare.
func c24CrossProcess(c *kit.Ctx) {
	r := rand.New(rand.NewSource(c.Seed*7919 + 24)) // deliberately shard-independent
	rand.Seed(int64(c.Shard)*1000003 + 17)          // process-local state differs per shard
	for i := 0; i < c.Shard*3; i++ {
		rand.Int63()
	}
	old := runtime.GOMAXPROCS(1 + (c.Shard*5)%16)
	defer runtime.GOMAXPROCS(old)
	h := sha256.New()
	n := c.N(150, 1500)
	for i := 0; i < n; i++ {
		normal := []int{24, 12, 4}[r.Intn(3)]
		cand := []int{72, 24, 8}[r.Intn(3)]
		unclaimed := r.Intn(3)
		f := newC24Fixture(r, normal, cand, unclaimed+normal+f0CRC()+1+r.Intn(60), i%3 == 0)
		height := uint32(2 + r.Intn(1<<22))
		f.addBlock(r, height-1)
		idx, err := f.arb.VerifGetCandidateIndexAtRandom(height, unclaimed, len(f.prodKeys))
		fmt.Fprintf(h, "%d:%d,%v;", i, idx, err == nil)
		if i%3 != 0 { // with vote ties only the index is compared here (ordering: c24SortedOrder)
			f.arb.LastRandomCandidateHeight = 0
			ps, err := f.arb.VerifGetSortedProducersWithRandom(height, unclaimed)
			fmt.Fprintf(h, "%s,%v;", c24Owners(ps), err == nil)
			v2, err := f.arb.VerifGetRandomDposV2Producers(height, unclaimed, nil)
			fmt.Fprintf(h, "%s,%v;", strings.Join(v2, ","), err == nil)
		}
		c.Inc("crossprocess_cases")
	}
	d := h.Sum(nil)
	v := int64(binary.BigEndian.Uint64(d[:8]) >> 16) // 48 bits
	c.Max("max:crossprocess_digest", v)
	c.Count("crossprocess_digest_sum", v)
	c.Inc("crossprocess_shards")
}

// ---------------------------------------------------------------- canary

// c24Canary: rand.Seed(K); run one helper single-threaded; the next global
// draw must be the (K, position 0) value.
func c24Canary(c *kit.Ctx) {
	r := c.Rand("c24/canary")
	// self-test: the canary must notice a draw and a reseed, and must stay
	// quiet around code that does not touch the source.
	cn := armRandCanary(r.Int63())
	_ = rand.Intn(5)
	if cn.moved() {
		c.Inc("canary_selftest_detects")
	}
	cn = armRandCanary(r.Int63())
	rand.Seed(cn.K + 1)
	if cn.moved() {
		c.Inc("canary_selftest_detects")
	}
	cn = armRandCanary(r.Int63())
	_ = sha256.Sum256([]byte("no rand here"))
	if cn.moved() {
		c.Inconclusive("canary self-test: moved without any draw")
		return
	}

	type fn struct {
		name string
		sig  string
		run  func(f *c24Fixture, height uint32, unclaimed int) (reached bool)
	}
	fns := []fn{
		{"getCandidateIndexAtRandom", c24SigCandidate, func(f *c24Fixture, h uint32, u int) bool {
			_, err := f.arb.VerifGetCandidateIndexAtRandom(h, u, len(f.prodKeys))
			return err == nil
		}},
		{"getCandidateIndexAtRandom(not enough producers)", c24SigCandidate, func(f *c24Fixture, h uint32, u int) bool {
			_, err := f.arb.VerifGetCandidateIndexAtRandom(h, u, u)
			return err != nil
		}},
		{"getSortedProducersWithRandom", c24SigCandidate, func(f *c24Fixture, h uint32, u int) bool {
			f.arb.LastRandomCandidateHeight = 0
			ps, err := f.arb.VerifGetSortedProducersWithRandom(h, u)
			return err == nil && len(ps) == len(f.prodKeys)
		}},
		{"getSortedProducersWithRandom(candidate still valid)", "global-rand-use:getSortedProducersWithRandom", func(f *c24Fixture, h uint32, u int) bool {
			// select once (moves the source — bracketed separately), then a
			// call inside the RandomCandidatePeriod must not draw at all
			f.arb.LastRandomCandidateHeight = 0
			if _, err := f.arb.VerifGetSortedProducersWithRandom(h, u); err != nil {
				return false
			}
			cn := armRandCanary(int64(h) + 77)
			_, err := f.arb.VerifGetSortedProducersWithRandom(h, u)
			if cn.moved() {
				return false // reported by the outer bracket too
			}
			return err == nil
		}},
		{"getRandomDposV2Producers", "global-rand-use:getRandomDposV2Producers", func(f *c24Fixture, h uint32, u int) bool {
			out, err := f.arb.VerifGetRandomDposV2Producers(h, u, nil)
			return err == nil && len(out) == len(f.prodKeys)-u
		}},
		{"getSortedProducers", "global-rand-use:getSortedProducers", func(f *c24Fixture, h uint32, u int) bool {
			return len(f.arb.VerifGetSortedProducers()) == len(f.prodKeys)
		}},
		{"getSortedProducersDposV2", "global-rand-use:getSortedProducersDposV2", func(f *c24Fixture, h uint32, u int) bool {
			return len(f.arb.VerifGetSortedProducersDposV2()) == len(f.prodKeys)
		}},
	}
	rounds := c.N(20, 200)
	for i := 0; i < rounds; i++ {
		normal := []int{24, 12, 4, 2}[r.Intn(4)]
		f := newC24Fixture(r, normal, []int{72, 24, 8, 1}[r.Intn(4)], normal+len(config.GetDefaultParams().DPoSConfiguration.CRCArbiters)+5+r.Intn(60), false)
		h := uint32(2 + r.Intn(1<<20))
		f.addBlock(r, h-1)
		u := r.Intn(3)
		for _, fx := range fns {
			if fx.name == "getSortedProducersWithRandom(candidate still valid)" {
				// inner bracket of its own (see above); outer bracket would
				// see the first, selecting call
				reached := fx.run(f, h, u)
				c.Inc("canary_checks")
				if reached {
					c.Inc("canary_unmoved")
					c.Inc("canary_reached:" + fx.name)
				} else {
					c.Violate(fx.sig, "global math/rand source moved by a getSortedProducersWithRandom call that must reuse the last random candidate", map[string]interface{}{"function": fx.name})
				}
				continue
			}
			k := r.Int63()
			cn := armRandCanary(k)
			reached := fx.run(f, h, u)
			moved := cn.moved()
			c.Inc("canary_checks")
			if reached {
				c.Inc("canary_reached:" + fx.name)
			}
			if !moved {
				c.Inc("canary_unmoved")
				continue
			}
			c.Inc("canary_moved:" + fx.name)
			c.Violate(fx.sig,
				fmt.Sprintf("global-source canary: rand.Seed(%d); %s(height=%d, unclaimed=%d, producers=%d); the next global draw is not the (K, position 0) value %d — the function drew from or reseeded the process-global math/rand source (it reseeds it with the block-hash seed %d, so every later global draw in the process is a function of public chain data until the next reseed)",
					k, fx.name, h, u, len(f.prodKeys), cn.want, c24Seed(f.blocks[h-1].Hash())),
				map[string]interface{}{"function": fx.name, "monitor": "canary"})
		}
	}
}

// ---------------------------------------------------------------- ordering

// c24SortedOrder: getSortedProducers / getSortedProducersDposV2 read a map;
// every call sees a different iteration order. The result must be the same
// each time and equal the (votes desc, node key asc) model — with many ties.
func c24SortedOrder(c *kit.Ctx) {
	r := c.Rand("c24/sorted")
	for i := 0; i < c.N(30, 300); i++ {
		f := newC24Fixture(r, 24, 72, 20+r.Intn(150), i%2 == 0)
		model := f.modelSorted()
		var want strings.Builder
		for _, p := range model {
			want.WriteString(hex.EncodeToString(p.owner[:4]))
			want.WriteByte(',')
		}
		for k := 0; k < 20; k++ {
			got := c24Owners(f.arb.VerifGetSortedProducers())
			c.Inc("sorted_order_checks")
			if got != want.String() {
				c.Violate("nondeterminism:getSortedProducers-order", fmt.Sprintf("call %d over %d producers (ties=%v) returned an order different from (votes desc, node key asc)", k, len(model), i%2 == 0), nil)
				break
			}
		}
		first := c24Owners(f.arb.VerifGetSortedProducersDposV2())
		for k := 0; k < 20; k++ {
			c.Inc("sorted_order_checks")
			if got := c24Owners(f.arb.VerifGetSortedProducersDposV2()); got != first {
				c.Violate("nondeterminism:getSortedProducersDposV2-order", fmt.Sprintf("two calls over the same %d producers returned different orders", len(model)), nil)
				break
			}
		}
		c.Case(fmt.Sprintf("sorted:%d:%s", len(model), kit.HashID([]byte(want.String()))), len(model) > 1)
	}
}

// ---------------------------------------------------------------- noise

type c24Noise struct {
	stop atomic.Bool
	wg   sync.WaitGroup
	ops  atomic.Int64
}

// profiles: bit0 = light (sleeps between operations, like a mostly idle p2p
// server), bit1 = also calls rand.Seed (p2p/server, dpos/p2p, treap do so in
// init; getCandidateIndexAtRandom itself does so at run time).
func c24StartNoise(k, profile int, seedBase int64) *c24Noise {
	nz := &c24Noise{}
	light, withSeed := profile&1 != 0, profile&2 != 0
	for g := 0; g < k; g++ {
		nz.wg.Add(1)
		go func(g int) {
			defer nz.wg.Done()
			r := rand.New(rand.NewSource(seedBase + int64(g)*7919))
			var buf [8]byte
			arr := make([]int, 8)
			for i := 0; !nz.stop.Load(); i++ {
				switch r.Intn(8) {
				case 0:
					_ = rand.Int63() // p2p/server version / ping nonce
				case 1:
					_ = rand.Intn(1 + r.Intn(1000)) // addrmgr / peer address shuffle
				case 2:
					_ = rand.Int() // treap node priority
				case 3:
					_ = rand.Uint64() // pow coinbase nonce
				case 4:
					rand.Read(buf[:]) // p2p/peer version nonce
				case 5:
					rand.Shuffle(len(arr), func(a, b int) { arr[a], arr[b] = arr[b], arr[a] })
				case 6:
					_ = rand.Perm(4)
				default:
					if withSeed {
						rand.Seed(r.Int63())
					} else {
						_ = rand.Int31n(1 + int32(r.Intn(1<<20)))
					}
				}
				nz.ops.Add(1)
				if light {
					time.Sleep(time.Duration(20+r.Intn(200)) * time.Microsecond)
				} else if i%32 == 31 {
					runtime.Gosched()
				}
			}
		}(g)
	}
	// make sure the goroutines are really running before the case starts
	for nz.ops.Load() < int64(k) {
		runtime.Gosched()
	}
	return nz
}

func (nz *c24Noise) halt() int64 {
	nz.stop.Store(true)
	nz.wg.Wait()
	return nz.ops.Load()
}

// ---------------------------------------------------------------- interleaving

var c24ProfileName = []string{"heavy-draws", "light-draws", "heavy-draws+seed", "light-draws+seed"}
var c24YieldName = []string{"no-yield", "gosched", "sleep"}

func c24Interleaving(c *kit.Ctx) {
	r := c.Rand("c24/interleave")
	hr := c.Rand("c24/hook")
	var yieldMode atomic.Int32
	var hookHits atomic.Int64
	verifhook.Set(func(name string) {
		if name != "arbiters.afterSeed" {
			return
		}
		hookHits.Add(1)
		switch yieldMode.Load() {
		case 1:
			for i := 1 + hr.Intn(3); i > 0; i-- {
				runtime.Gosched()
			}
		case 2:
			if hr.Intn(8) == 0 {
				time.Sleep(time.Duration(1+hr.Intn(50)) * time.Microsecond)
			} else {
				runtime.Gosched()
			}
		}
	})
	defer verifhook.Set(nil)

	digest := sha256.New()
	nCases := c.N(20, 60)
	perCase := c.N(500, 2500) // x4 shards: 40k / 600k calls
	for ci := 0; ci < nCases; ci++ {
		normal := []int{24, 24, 12, 4, 2}[r.Intn(5)]
		cand := []int{72, 72, 24, 8, 1}[r.Intn(5)]
		unclaimed := r.Intn(4)
		extra := 1 + r.Intn(150)
		errorPath := ci%8 == 7
		if errorPath {
			extra = -r.Intn(3)
		}
		voted := unclaimed + normal - 1 + extra
		f := newC24Fixture(r, normal, cand, 0, false)
		height := uint32(2 + r.Intn(1<<22))
		blk := f.addBlock(r, height-1)
		if errorPath && ci%16 == 15 {
			delete(f.blocks, height-1) // "block is not found"
			voted = unclaimed + normal + 5
		}
		k := 1 + r.Intn(15)
		profile := ci % 4
		ymode := (ci / 4) % 3
		hash := blk.Hash()
		id := fmt.Sprintf("idx:%x:n%d:c%d:u%d:v%d:k%d:%s:%s", hash[:8], normal, cand, unclaimed, voted, k, c24ProfileName[profile], c24YieldName[ymode])

		// quiescent evaluation (nothing else touches the global source)
		yieldMode.Store(0)
		mIdx, mN, seed, mOK := f.modelIndex(height, unclaimed, voted)
		q1, e1 := f.arb.VerifGetCandidateIndexAtRandom(height, unclaimed, voted)
		q2, e2 := f.arb.VerifGetCandidateIndexAtRandom(height, unclaimed, voted)
		if (e1 == nil) != (e2 == nil) || q1 != q2 {
			c.Violate("nondeterminism:getCandidateIndexAtRandom-quiescent", fmt.Sprintf("%s: two single-threaded calls differ: (%d,%v) (%d,%v)", id, q1, e1, q2, e2), nil)
			continue
		}
		fmt.Fprintf(digest, "%s=%d,%v\n", id, q1, e1 == nil)
		if (e1 == nil) == mOK && (!mOK || q1 == mIdx) {
			c.Inc("quiescent_equals_private_source_model")
		} else {
			// the private-source model is what the proposed fix computes; a
			// difference here is not a C24 violation by itself (the result is
			// still a function of chain data) but invalidates the fix claim
			c.Inc("quiescent_differs_from_private_source_model")
			c.Note("quiescent result differs from private-source model: %s impl=(%d,%v) model=(%d,%v)", id, q1, e1, mIdx, mOK)
		}

		yieldMode.Store(int32(ymode))
		nz := c24StartNoise(k, profile, r.Int63())
		mism, firstGot, firstAt := 0, 0, -1
		var firstErr error
		for i := 0; i < perCase; i++ {
			got, err := f.arb.VerifGetCandidateIndexAtRandom(height, unclaimed, voted)
			if (err == nil) != (e1 == nil) || got != q1 {
				if mism == 0 {
					firstGot, firstAt, firstErr = got, i, err
				}
				mism++
			}
		}
		ops := nz.halt()
		yieldMode.Store(0)
		c.Count("noise_ops", ops)
		if e1 != nil {
			c.Count("errorpath_calls", int64(perCase))
		} else {
			c.Count("interleaving_calls", int64(perCase))
			c.Count("interleaving_calls:"+c24ProfileName[profile]+"/"+c24YieldName[ymode], int64(perCase))
		}
		c.Max("max:noise_goroutines", int64(k))
		c.Case(id, mOK && mN >= 2 && ops > int64(k))
		if mism > 0 {
			c.Count("mismatch_calls", int64(mism))
			c.Count("mismatch_calls:"+c24ProfileName[profile]+"/"+c24YieldName[ymode], int64(mism))
			c.Inc("cases_with_mismatch")
			cas := map[string]interface{}{"monitor": "interleaving", "function": "getCandidateIndexAtRandom", "height": height, "prev_block_hash": hex.EncodeToString(hash[:]), "seed": seed,
				"NormalArbitratorsCount": normal, "CandidatesCount": cand, "unclaimed": unclaimed, "votedProducers": voted, "outcomes": mN,
				"noise_goroutines": k, "noise_profile": c24ProfileName[profile], "yield": c24YieldName[ymode], "calls": perCase, "mismatching_calls": mism}
			c.Sample(cas)
			c.Violate(c24SigCandidate,
				fmt.Sprintf("getCandidateIndexAtRandom(height=%d, unclaimed=%d, voted=%d) with prev block hash %x (seed %d, %d outcomes): single-threaded result %d (= rand.New(rand.NewSource(seed)).Intn(%d)); while %d goroutines used top-level math/rand (%s, %s) call #%d returned (%d,%v); %d of %d calls differed. rand.Seed(seed) and rand.Intn(n) act on the process-global source, so any draw or Seed by another goroutine in between changes the chosen candidate",
					height, unclaimed, voted, hash[:], seed, mN, q1, mN, k, c24ProfileName[profile], c24YieldName[ymode], firstAt, firstGot, firstErr, mism, perCase),
				cas)
		} else if e1 == nil {
			c.Inc("cases_without_mismatch")
		}
	}
	c.Count("hook_hits", hookHits.Load())
	hookHits.Store(0)

	// ---- next-arbiter-set level: getSortedProducersWithRandom ----
	nHL := c.N(8, 40)
	perHL := c.N(250, 1250)
	for ci := 0; ci < nHL; ci++ {
		normal := []int{24, 12, 4}[r.Intn(3)]
		cand := []int{72, 24, 8}[r.Intn(3)]
		unclaimed := r.Intn(3)
		f := newC24Fixture(r, normal, cand, unclaimed+normal+5+r.Intn(100), ci%2 == 0)
		height := uint32(2 + r.Intn(1<<22))
		blk := f.addBlock(r, height-1)
		hash := blk.Hash()
		k := 1 + r.Intn(15)
		profile, ymode := ci%4, (ci/4)%3
		id := fmt.Sprintf("hl:%x:n%d:c%d:u%d:p%d:k%d:%s:%s", hash[:8], normal, cand, unclaimed, len(f.prodKeys), k, c24ProfileName[profile], c24YieldName[ymode])
		call := func() (string, string, error) {
			f.arb.LastRandomCandidateHeight = 0
			ps, err := f.arb.VerifGetSortedProducersWithRandom(height, unclaimed)
			if err != nil {
				return "", "", err
			}
			return c24Owners(ps), hex.EncodeToString(ps[unclaimed+normal-1].OwnerPublicKey()), nil
		}
		yieldMode.Store(0)
		qOrder, qCand, qe := call()
		if qe != nil {
			c.Inconclusive("high-level fixture did not reach the random choice: %v", qe)
			continue
		}
		// the result must be stable with nothing else running before any
		// difference under noise can be attributed to interleaving
		stable := true
		for i := 0; i < 6 && stable; i++ {
			o, cd, err := call()
			stable = err == nil && o == qOrder && cd == qCand
		}
		if !stable {
			c.Violate("nondeterminism:getSortedProducersWithRandom-quiescent",
				fmt.Sprintf("%s: repeated single-threaded calls over the same %d producers (ties=%v) return different orders / candidates", id, len(f.prodKeys), ci%2 == 0), nil)
			c.Case(id, false)
			continue
		}
		// model: sorted producers, candidate = sorted[unclaimed+normal-1+idx]
		mIdx, mN, seed, _ := f.modelIndex(height, unclaimed, len(f.prodKeys))
		ms := f.modelSorted()
		fmt.Fprintf(digest, "%s=%s\n", id, qCand)
		if hex.EncodeToString(ms[unclaimed+normal-1+mIdx].owner) == qCand {
			c.Inc("quiescent_equals_private_source_model")
		} else {
			c.Inc("quiescent_differs_from_private_source_model")
			c.Note("high-level quiescent candidate differs from model: %s", id)
		}
		yieldMode.Store(int32(ymode))
		nz := c24StartNoise(k, profile, r.Int63())
		mism, firstCand := 0, ""
		for i := 0; i < perHL; i++ {
			o, cd, err := call()
			if err != nil || o != qOrder || cd != qCand {
				if mism == 0 {
					firstCand = cd
				}
				mism++
			}
		}
		ops := nz.halt()
		yieldMode.Store(0)
		c.Count("noise_ops", ops)
		c.Count("interleaving_calls_highlevel", int64(perHL))
		c.Case(id, mN >= 2 && ops > int64(k))
		if mism > 0 {
			c.Count("mismatch_calls_highlevel", int64(mism))
			c.Violate(c24SigCandidate,
				fmt.Sprintf("getSortedProducersWithRandom(height=%d, unclaimed=%d) over %d producers, prev block hash %x (seed %d): single-threaded run selects owner %s as the random candidate (position %d of the next arbiter list); with %d goroutines using top-level math/rand (%s, %s) %d of %d calls selected a different producer (first: %s)",
					height, unclaimed, len(f.prodKeys), hash[:], seed, qCand, unclaimed+normal-1, k, c24ProfileName[profile], c24YieldName[ymode], mism, perHL, firstCand),
				map[string]interface{}{"monitor": "interleaving", "function": "getSortedProducersWithRandom", "height": height, "seed": seed, "noise_goroutines": k, "mismatching_calls": mism, "calls": perHL})
		}
	}
	c.Count("hook_hits", hookHits.Load())

	// ---- control: getRandomDposV2Producers (private source) under the same noise ----
	nV2 := c.N(8, 40)
	perV2 := c.N(250, 1250)
	for ci := 0; ci < nV2; ci++ {
		normal := []int{24, 12, 4}[r.Intn(3)]
		unclaimed := r.Intn(3)
		f := newC24Fixture(r, normal, 72, unclaimed+normal+f0CRC()+1+r.Intn(80), ci%2 == 0)
		height := uint32(2 + r.Intn(1<<22))
		blk := f.addBlock(r, height-1)
		hash := blk.HashWithAux()
		k := 1 + r.Intn(15)
		profile := ci % 4
		id := fmt.Sprintf("v2:%x:n%d:u%d:p%d:k%d:%s", hash[:8], normal, unclaimed, len(f.prodKeys), k, c24ProfileName[profile])
		q, qe := f.arb.VerifGetRandomDposV2Producers(height, unclaimed, nil)
		if qe != nil {
			c.Inconclusive("v2 fixture: %v", qe)
			continue
		}
		qs := strings.Join(q, ",")
		fmt.Fprintf(digest, "%s=%s\n", id, kit.HashID([]byte(qs)))
		if m, ok := f.modelV2(height, unclaimed); ok && strings.Join(m, ",") == qs {
			c.Inc("quiescent_equals_private_source_model")
			c.Inc("control_v2_model_agree")
		} else {
			c.Inc("quiescent_differs_from_private_source_model")
			c.Note("v2 quiescent order differs from model: %s", id)
		}
		nz := c24StartNoise(k, profile, r.Int63())
		mism := 0
		for i := 0; i < perV2; i++ {
			o, err := f.arb.VerifGetRandomDposV2Producers(height, unclaimed, nil)
			if err != nil || strings.Join(o, ",") != qs {
				mism++
			}
		}
		ops := nz.halt()
		c.Count("noise_ops", ops)
		c.Count("control_v2_calls", int64(perV2))
		c.Count("control_v2_agree", int64(perV2-mism))
		c.Case(id, len(f.prodKeys)-unclaimed > normal+f.nCRC && ops > int64(k))
		if mism > 0 {
			c.Violate("nondeterminism:getRandomDposV2Producers",
				fmt.Sprintf("getRandomDposV2Producers(height=%d, unclaimed=%d) over %d producers: %d of %d calls under %d noise goroutines returned an order different from the single-threaded one", height, unclaimed, len(f.prodKeys), mism, perV2, k), nil)
		}
	}
	c.Note("quiescent_digest shard=%d sha256=%x", c.Shard, digest.Sum(nil))
}

func f0CRC() int { return len(config.GetDefaultParams().DPoSConfiguration.CRCArbiters) }

package props

import (
	"fmt"
	"regexp"
	"runtime"
	"strings"
	"sync"
	"sync/atomic"
	"time"

	"github.com/elastos/Elastos.ELA/common"
	"github.com/elastos/Elastos.ELA/common/config"
	common2 "github.com/elastos/Elastos.ELA/core/types/common"
	"github.com/elastos/Elastos.ELA/core/types/interfaces"
	"github.com/elastos/Elastos.ELA/servers"

	"verif/kit"
	"verif/kit/node"
)

// C40 — validation and state queries are safe under concurrency.
// Race build. Storm on a live node: block producer (incl. small reorgs) ∥
// mempool admission ∥ RPC-style queries through the servers handlers ∥ direct
// store/pool reads ∥ checkpoint saves (NeedSave, crossing the 720-block save
// height). Oracles: race detector reports with a /repo frame, panics/fatals,
// and ledger/mempool consistency at the final quiescent point.

var c40Extra []func(c *kit.Ctx, nd *node.Node, stop *int32, wg *sync.WaitGroup, guard func(role string, f func())) // later workloads (DPoS-era roles) register here

// DPoS / CR era storms (c40_dpos.go): the chain a shard runs on, the config
// tweak of that era, single-threaded preparation before the storm, and the
// helpers extra roles use to join it.
var c40EraOf func(c *kit.Ctx) (era string, cross720 bool) // nil = every shard pow-era, crossing the 720-block checkpoint save
var c40EraTweak func(era string) func(cfg *config.Configuration)
var c40Prepare []func(c *kit.Ctx, nd *node.Node)
var c40AfterStorm []func(c *kit.Ctx, nd *node.Node) // single threaded, after every role has stopped
var c40Boot *node.Boot
var c40Start func(role string, body func())
var c40Op func(role, kind string)
var c40WriterStep func(begin bool, reorg bool) // called by the producer role around every block / branch switch

func init() {
	kit.Register(&kit.Spec{
		ID:      "C40",
		Race:    true,
		RaceSig: c40RaceFamily,
		Rule:    "one storm per shard (seeded): a live node under the -race build with 1 block producer (honest blocks containing pool txs, periodic depth-1/2 reorgs), 4 submitters (signed transfers to AppendToTxPool, incl. deliberate double spends), 6 RPC-handler queriers and 3 direct store/pool readers running concurrently while the chain crosses checkpoint save heights; distinct = (shard, role, operation kind); non-trivial = the operation executed against the live node while at least one other role was running",
		Shards: func(tier string) int {
			if tier == "thorough" {
				return 12
			}
			return 4
		},
		Parallel:         4,
		Run:              runC40,
		FatalIsViolation: true,
		FatalSig: func(last, stderr string) string {
			l := firstFatal(stderr)
			return "fatal:" + l
		},
		TimeoutS: func(tier string) int {
			if tier == "thorough" {
				return 1500
			}
			return 600
		},
		Require: []string{"blocks_processed", "pool_admitted", "rpc_queries", "direct_reads", "reorgs", "storm_overlap_ops", "locked_getter_calls", "locked_getter_calls_in_a_stable_state", "locked_getter_calls_overlapping_a_membership_change", "locked_getter_calls_overlapping_a_membership_change:State.GetProducers", "membership_changing_steps", "pending_to_active_steps", "special_payload_calls", "special_payload_calls_overlapping_reader_calls", "special_payloads_accepted"},
		Assumptions: []string{"the race detector only sees races on executed interleavings: a clean run is 'no race on K storms covering these operations', not race freedom",
			"RPC handlers are called directly (servers.* functions) with the globals wired as main.go does; servers.Server is nil so peer-listing handlers are excluded"},
	})
}

var fatalRe = regexp.MustCompile(`(?m)^(fatal error: .*|panic: .*)$`)

func firstFatal(stderr string) string {
	m := fatalRe.FindString(stderr)
	if m == "" {
		return "unknown"
	}
	if len(m) > 100 {
		m = m[:100]
	}
	return m
}

func topRepoFrame(stack string) string {
	for _, l := range strings.Split(stack, "\n") {
		l = strings.TrimSpace(l)
		if strings.HasPrefix(l, "github.com/elastos/Elastos.ELA/") && !strings.Contains(l, "verifhook") {
			fn := strings.SplitN(l, "(", 2)[0]
			return strings.TrimPrefix(fn, "github.com/elastos/Elastos.ELA/")
		}
	}
	return "unknown"
}

func runC40(c *kit.Ctx) {
	r := c.Rand("c40")
	t0 := time.Now() // (cost figures for the evidence only; no verdict depends on them)
	era, cross720 := "", true
	if c40EraOf != nil {
		era, cross720 = c40EraOf(c)
	}
	c.Inc("storms_era:" + era)
	nd, err := node.Start(node.Options{Dir: c.WorkDir, CoinbaseMaturity: 2, NeedSave: true, Tweak: func(cfg *config.Configuration) {
		cfg.TxCacheVolume = 50
		if era != "" {
			c40EraTweak(era)(cfg)
		}
	}})
	if err != nil {
		c.Inconclusive("node start: %v", err)
		return
	}
	defer nd.Close()
	servers.ChainParams = nd.Cfg
	servers.Chain = nd.Chain
	servers.Store = nd.Store
	servers.TxMemPool = nd.TxPool
	servers.Arbiters = nd.Arbiters
	servers.Pow = nd.Pow

	// ---- setup (single threaded): fund accounts with many UTXOs ----
	accts := []int{2, 3, 4, 5}
	perAcct := c.N(120, 400)
	val := common.Fixed64(10 * 1e8)
	var utx [][]node.UTXORef
	mineOne := func() error { return nd.MineN(1) }
	if era == "" {
		if err := nd.MineN(3); err != nil {
			c.Inconclusive("mine: %v", err)
			return
		}
		g := nd.GenesisUTXO()
		cur := g
		for ai, a := range accts {
			var outs []node.Out
			for k := 0; k < perAcct; k++ {
				outs = append(outs, node.Out{To: node.Key(a).ProgramHash, Value: val})
			}
			rest := cur.Value - val*common.Fixed64(perAcct) - 10000
			outs = append(outs, node.Out{To: nd.Found.ProgramHash, Value: rest})
			tx := node.Transfer([]node.UTXORef{cur}, outs, common2.TxVersion09)
			if _, err := nd.MineTip(tx); err != nil {
				c.Inconclusive("funding %d: %v", ai, err)
				return
			}
			var us []node.UTXORef
			for k := 0; k < perAcct; k++ {
				us = append(us, node.UTXORef{TxID: tx.Hash(), Index: uint16(k), Value: val, Owner: node.Key(a)})
			}
			utx = append(utx, us)
			cur = node.UTXORef{TxID: tx.Hash(), Index: uint16(perAcct), Value: rest, Owner: nd.Found}
		}
	} else {
		// DPoS / CR era: elected producers, committee in office, claimed nodes (dposv2: DPoS v2 active)
		defer nd.UnhookEvents()
		mineOne = func() error { return nd.MineNDPoS(1) }
		boot, err := nd.Bootstrap(era, node.BootOpts{UTXOsPerAccount: 40})
		if err != nil {
			c.Inconclusive("bootstrap %s: %v", era, err)
			return
		}
		c40Boot = boot
		c.Max("max:bootstrap_height:"+era, int64(nd.Height()))
		for ai, a := range accts {
			refs, err := nd.Fund([]int{a}, perAcct, val)
			if err != nil {
				c.Inconclusive("funding %d (%s): %v", ai, era, err)
				return
			}
			utx = append(utx, refs[0])
		}
	}
	// get close to the checkpoint save height so that the storm crosses it
	target := uint32(700)
	if !cross720 {
		target = nd.Height() + 3
		c.Inc("storms_below_checkpoint_save_height")
	} else {
		c.Inc("storms_crossing_checkpoint_save_height:" + era)
	}
	for nd.Height() < target {
		if err := mineOne(); err != nil {
			c.Inconclusive("mine to %d: %v", target, err)
			return
		}
	}
	for _, p := range c40Prepare {
		p(c, nd)
	}
	c.Max(fmt.Sprintf("max:setup_seconds:%s:cross720=%v", era, cross720), int64(time.Since(t0).Seconds()))
	t1 := time.Now()

	var stop int32
	var running int32
	var wg sync.WaitGroup
	guard := func(role string, f func()) {
		p, v, st := kit.Guard(f)
		if p {
			c.Violate("panic:"+role+":"+topRepoFrame(st), fmt.Sprintf("panic in role %s: %v\n%s", role, v, kit.Hex(nil)+st[:min(len(st), 1500)]), nil)
		}
	}
	op := func(role, kind string) {
		if atomic.LoadInt32(&running) > 1 {
			c.Inc("storm_overlap_ops")
		}
		c.Case(fmt.Sprintf("%d:%s:%s", c.Shard, role, kind), atomic.LoadInt32(&running) > 1)
	}
	start := func(role string, body func()) {
		wg.Add(1)
		go func() {
			defer wg.Done()
			atomic.AddInt32(&running, 1)
			defer atomic.AddInt32(&running, -1)
			body()
		}()
	}

	c40Start, c40Op = start, op
	blocksGoal := c.N(60, 220)
	if era != "" {
		blocksGoal = c.N(60, 120) // a confirmed DPoS block costs ~1.4 s under -race with 20 goroutines hammering the node
	}
	// ---- producer ----
	start("producer", func() {
		defer atomic.StoreInt32(&stop, 1)
		pr := c.Rand("producer")
		failed := 0
		for i := 0; i < blocksGoal && failed < 6; i++ {
			c.Begin("producer block %d height %d", i, nd.Height())
			isReorg := i%9 == 8 && (era == "" || i%27 == 26)
			if c40WriterStep != nil {
				c40WriterStep(true, isReorg) // logical clock of the only writer of consensus state (see c40_dpos.go)
			}
			guard("producer", func() {
				if isReorg {
					// reorg: build a heavier empty branch from the tip's parent (depth 1) or grandparent (depth 2)
					tip := nd.TipBlock()
					depth := 1 + pr.Intn(2)
					base := tip
					for d := 0; d < depth; d++ {
						pb, err := nd.Chain.GetBlockByHash(base.Previous)
						if err != nil {
							return
						}
						base = pb
					}
					parent := base
					ok := true
					for d := 0; d <= depth; d++ {
						asm := nd.Assemble
						if era != "" {
							asm = nd.AssembleOn // connected without a confirm (chain.ProcessBlock(b, nil)): the DPoS state is rolled back under the queriers
						}
						b, err := asm(node.BlockSpec{Parent: parent, Nonce: uint64(pr.Int63()) | 1})
						if err != nil {
							ok = false
							break
						}
						if _, _, err := nd.Process(b); err != nil {
							c.Note("reorg block rejected: %v", err)
							ok = false
							break
						}
						nd.PostBlock(b)
						parent = b
					}
					if ok && era != "" && !nd.Tip().IsEqual(parent.Hash()) {
						ok = false
					}
					if ok {
						c.Inc("reorgs")
						c.Inc("reorgs:" + era)
						op("producer", "reorg")
					} else if era != "" {
						c.Inc("reorg_refused:" + era)
						nd.PostBlock(nd.TipBlock())
					}
					return
				}
				txs := nd.TxPool.GetTxsInPool()
				if len(txs) > 20 {
					txs = txs[:20]
				}
				// keep only txs that pass context check now (as pow.GenerateBlock does)
				var sel []interfaces.Transaction
				for _, tx := range txs {
					if era != "" && c40NodeGenerated(tx) {
						continue // MineTipDPoS packs the node-generated txs itself
					}
					if _, e := nd.Chain.CheckTransactionContext(nd.Height()+1, tx, 0, 0); e == nil {
						sel = append(sel, tx)
					}
				}
				mine := nd.MineTip
				if era != "" {
					mine = nd.MineTipDPoS
				}
				if _, err := mine(sel...); err != nil {
					// a selected tx may have been invalidated concurrently: mine an empty block instead
					if era != "" {
						nd.TxPool.CheckAndCleanAllTransactions() // (stale node-generated txs would be packed again)
					}
					if _, err2 := mine(); err2 != nil {
						c.Inc("producer_empty_block_rejected")
						if failed++; failed <= 3 {
							c.Note("producer: empty block rejected: %v", err2)
						}
						return
					}
				}
				failed = 0
				for _, tx := range sel {
					c.Inc("mined:" + tx.TxType().Name())
				}
				c.Inc("blocks_processed")
				op("producer", "block")
			})
			if c40WriterStep != nil {
				c40WriterStep(false, isReorg)
			}
			runtime.Gosched()
		}
	})
	// ---- submitters ----
	for si := range accts {
		si := si
		start("submitter", func() {
			sr := c.Rand(fmt.Sprintf("sub%d", si))
			us := utx[si]
			for k := 0; k < len(us) && atomic.LoadInt32(&stop) == 0; k++ {
				guard("submitter", func() {
					u := us[k]
					to := node.Key(accts[sr.Intn(len(accts))]).ProgramHash
					tx := node.Transfer([]node.UTXORef{u}, []node.Out{{To: to, Value: u.Value - 1000 - common.Fixed64(sr.Intn(500))}}, common2.TxVersion09)
					if e := nd.TxPool.AppendToTxPool(tx); e == nil {
						c.Inc("pool_admitted")
					} else {
						c.Inc("pool_rejected")
					}
					op("submitter", "append")
					if sr.Intn(6) == 0 { // deliberate double spend of the same outpoint
						tx2 := node.Transfer([]node.UTXORef{u}, []node.Out{{To: to, Value: u.Value - 5000}}, common2.TxVersion09)
						if e := nd.TxPool.AppendToTxPool(tx2); e == nil {
							c.Inc("pool_double_spend_admitted")
						}
						op("submitter", "double-spend")
					}
					if sr.Intn(10) == 0 {
						nd.TxPool.MaybeAcceptTransaction(tx)
						op("submitter", "maybe-accept")
					}
				})
				runtime.Gosched()
			}
		})
	}
	// ---- RPC queriers ----
	type q struct {
		name string
		f    func(qr interface{ Intn(int) int }) map[string]interface{}
	}
	addr := func(i int) string { return node.Key(accts[i%len(accts)]).Address }
	queries := []q{
		{"getrawmempool", func(qr interface{ Intn(int) int }) map[string]interface{} {
			return servers.GetTransactionPool(servers.Params{})
		}},
		{"getrawmempool-all", func(qr interface{ Intn(int) int }) map[string]interface{} {
			return servers.GetTransactionPool(servers.Params{"state": "all"})
		}},
		{"listproducers", func(qr interface{ Intn(int) int }) map[string]interface{} {
			return servers.ListProducers(servers.Params{"state": "all"})
		}},
		{"getarbitersinfo", func(qr interface{ Intn(int) int }) map[string]interface{} {
			return servers.GetArbitersInfo(servers.Params{})
		}},
		{"listcrcandidates", func(qr interface{ Intn(int) int }) map[string]interface{} {
			return servers.ListCRCandidates(servers.Params{"state": "all"})
		}},
		{"listcurrentcrs", func(qr interface{ Intn(int) int }) map[string]interface{} {
			return servers.ListCurrentCRs(servers.Params{})
		}},
		{"getcrrelatedstage", func(qr interface{ Intn(int) int }) map[string]interface{} {
			return servers.GetCRRelatedStage(servers.Params{})
		}},
		{"getblockbyheight", func(qr interface{ Intn(int) int }) map[string]interface{} {
			return servers.GetBlockByHeight(servers.Params{"height": float64(qr.Intn(int(nd.Height()) + 1))})
		}},
		{"getbestblockhash", func(qr interface{ Intn(int) int }) map[string]interface{} {
			return servers.GetBestBlockHash(servers.Params{})
		}},
		{"getbalancebyaddr", func(qr interface{ Intn(int) int }) map[string]interface{} {
			return servers.GetBalanceByAddr(servers.Params{"addr": addr(qr.Intn(8))})
		}},
		{"listunspent", func(qr interface{ Intn(int) int }) map[string]interface{} {
			return servers.ListUnspent(servers.Params{"addresses": []interface{}{addr(qr.Intn(8))}})
		}},
		{"getutxosbyamount", func(qr interface{ Intn(int) int }) map[string]interface{} {
			return servers.GetUTXOsByAmount(servers.Params{"address": addr(qr.Intn(8)), "amount": "15"})
		}},
		{"getreceivedbyaddress", func(qr interface{ Intn(int) int }) map[string]interface{} {
			return servers.GetReceivedByAddress(servers.Params{"address": addr(qr.Intn(8))})
		}},
		{"getvoterights", func(qr interface{ Intn(int) int }) map[string]interface{} {
			return servers.GetVoteRights(servers.Params{"stakeaddresses": []interface{}{addr(qr.Intn(8))}})
		}},
		{"getalldetaileddposv2votes", func(qr interface{ Intn(int) int }) map[string]interface{} {
			return servers.GetAllDetailedDPoSV2Votes(servers.Params{})
		}},
		{"dposv2rewardinfo", func(qr interface{ Intn(int) int }) map[string]interface{} {
			return servers.DposV2RewardInfo(servers.Params{"address": addr(qr.Intn(8))})
		}},
		{"getdepositcoin", func(qr interface{ Intn(int) int }) map[string]interface{} {
			return servers.GetDepositCoin(servers.Params{"ownerpublickey": pubHex(2)})
		}},
		{"votestatus", func(qr interface{ Intn(int) int }) map[string]interface{} {
			return servers.VoteStatus(servers.Params{"address": addr(qr.Intn(8))})
		}},
		{"getmininginfo", func(qr interface{ Intn(int) int }) map[string]interface{} {
			return servers.GetMiningInfo(servers.Params{})
		}},
		{"estimatesmartfee", func(qr interface{ Intn(int) int }) map[string]interface{} {
			return servers.EstimateSmartFee(servers.Params{"confirmations": float64(1 + qr.Intn(10))})
		}},
		{"getarbitratorgroupbyheight", func(qr interface{ Intn(int) int }) map[string]interface{} {
			return servers.GetArbitratorGroupByHeight(servers.Params{"height": float64(qr.Intn(int(nd.Height()) + 1))})
		}},
		{"getdposv2info", func(qr interface{ Intn(int) int }) map[string]interface{} {
			return servers.GetDPosV2Info(servers.Params{})
		}},
		{"getcommitteecanuseamount", func(qr interface{ Intn(int) int }) map[string]interface{} {
			return servers.GetCommitteeCanUseAmount(servers.Params{})
		}},
		{"listcrproposalbasestate", func(qr interface{ Intn(int) int }) map[string]interface{} {
			return servers.ListCRProposalBaseState(servers.Params{"state": "all"})
		}},
	}
	for qi := 0; qi < 6; qi++ {
		qi := qi
		start("rpc", func() {
			qr := c.Rand(fmt.Sprintf("rpc%d", qi))
			for atomic.LoadInt32(&stop) == 0 {
				qq := queries[qr.Intn(len(queries))]
				guard("rpc:"+qq.name, func() {
					res := qq.f(qr)
					_ = res
					c.Inc("rpc_queries")
					c.Inc("rpc:" + qq.name)
					op("rpc", qq.name)
				})
				runtime.Gosched()
			}
		})
	}
	// ---- direct readers ----
	for di := 0; di < 3; di++ {
		di := di
		start("reader", func() {
			dr := c.Rand(fmt.Sprintf("rd%d", di))
			for atomic.LoadInt32(&stop) == 0 {
				guard("reader", func() {
					switch dr.Intn(6) {
					case 0:
						txs := nd.TxPool.GetTxsInPool()
						seen := map[string]bool{}
						for _, tx := range txs {
							for _, in := range tx.Inputs() {
								k := in.ReferKey()
								if seen[k] {
									c.Violate("pool-snapshot-double-spend", "GetTxsInPool returned two txs spending the same outpoint", nil)
								}
								seen[k] = true
							}
						}
						op("reader", "GetTxsInPool")
					case 1:
						h := nd.Tip()
						nd.Chain.GetBlockByHash(h)
						op("reader", "GetBlockByHash")
					case 2:
						ph := node.Key(accts[dr.Intn(len(accts))]).ProgramHash
						nd.Store.GetFFLDB().GetUTXO(&ph)
						op("reader", "GetUTXO")
					case 3:
						nd.Arbiters.GetArbitrators()
						nd.Arbiters.GetNextArbitrators()
						nd.Chain.GetState().GetAllProducers()
						op("reader", "arbiters")
					case 4:
						nd.Committee.GetAllCandidates()
						nd.Committee.GetAllMembersCopy()
						nd.Committee.IsInVotingPeriod(nd.Height())
						op("reader", "committee")
					default:
						nd.Chain.GetHeight()
						nd.Chain.BlockLocatorFromHash(func() *common.Uint256 { h := nd.Tip(); return &h }())
						nd.Arbiters.GetLastBlockTimestamp()
						op("reader", "chain-misc")
					}
					c.Inc("direct_reads")
				})
				runtime.Gosched()
			}
		})
	}
	for _, ex := range c40Extra {
		ex(c, nd, &stop, &wg, guard)
	}
	wg.Wait()
	_ = r
	c.Max(fmt.Sprintf("max:storm_seconds:%s", era), int64(time.Since(t1).Seconds()))

	// ---- quiescent consistency ----
	for _, f := range c40AfterStorm {
		f(c, nd)
	}
	l := nd.Replay()
	for _, is := range l.Issues {
		c.Violate("ledger:"+is.Kind, fmt.Sprintf("after storm: height %d tx %s: %s", is.Height, is.TxID, is.Detail), nil)
	}
	nd.TxPool.CheckAndCleanAllTransactions()
	seen := map[string]bool{}
	for _, tx := range nd.TxPool.GetTxsInPool() {
		for _, in := range tx.Inputs() {
			k := in.ReferKey()
			if seen[k] {
				c.Violate("pool-double-spend-at-quiescence", "two pool txs spend the same outpoint after the storm", nil)
			}
			seen[k] = true
			if _, spent := l.SpentAt[node.OutKey{TxID: in.Previous.TxID, Index: in.Previous.Index}]; spent {
				c.Violate("pool-spends-spent-output", "pool tx spends an outpoint already spent on the active chain after cleanup", nil)
			}
		}
	}
	c.Max("max:final_height", int64(nd.Height()))
	c.Sample(map[string]interface{}{"shard": c.Shard, "final_height": nd.Height(), "pool_left": len(seen), "blocks_goal": blocksGoal})
}

func c40NodeGenerated(tx interfaces.Transaction) bool {
	switch tx.TxType() {
	case common2.NextTurnDPOSInfo, common2.CRCAppropriation, common2.CRAssetsRectify, common2.ProposalResult,
		common2.CRCProposalRealWithdraw, common2.DposV2ClaimRewardRealWithdraw, common2.VotesRealWithdraw,
		common2.RevertToPOW, common2.RevertToDPOS, common2.InactiveArbitrators, common2.IllegalBlockEvidence,
		common2.IllegalProposalEvidence, common2.IllegalVoteEvidence, common2.IllegalSidechainEvidence, common2.UpdateVersion:
		return true
	}
	return false
}

func pubHex(i int) string {
	b, _ := node.Key(i).PublicKey.EncodePoint(true)
	return common.BytesToHexString(b)
}

func min(a, b int) int {
	if a < b {
		return a
	}
	return b
}

// c40RaceFamily folds the function-pair signature of a race report onto its
// root-cause family when both accesses lie in the DPoS/CR consensus state code
// paths whose unsynchronised access is a recorded known finding; the set of
// function pairs that fire varies from run to run, the families do not. Every
// other pair (mempool, blockchain, p2p, database, ...) keeps its exact signature.
// c40TwoMutexPair: the recorded dpos/state finding is about data reachable under two different mutexes —
// one access inside an *Arbiters method (Arbiters.mtx) and the other inside a *State method (State.mtx), or
// a getter on a live *Producer pointer (no lock at all) against a *State change closure. Two accesses that
// are both inside *State methods are NOT that finding (State.mtx should serialise them).
func c40TwoMutexPair(x, y string) bool {
	kind := func(fn string) string {
		switch {
		case strings.HasPrefix(fn, "dpos/state.(*Arbiters)."):
			return "arbiters"
		case strings.HasPrefix(fn, "dpos/state.(*State)."):
			return "state"
		case strings.HasPrefix(fn, "dpos/state.(*Producer)."):
			return "producer"
		}
		return "other"
	}
	kx, ky := kind(x), kind(y)
	if kx == "state" && ky == "state" {
		return false
	}
	return kx != "other" && ky != "other"
}

func c40RaceFamily(raw string) string {
	parts := strings.SplitN(raw, "|", 2)
	if len(parts) != 2 {
		return "race:" + raw
	}
	pkg := func(fn string) string {
		// "dpos/state.(*State).foo.func1" -> "dpos/state": the package path ends at the first dot after the last slash
		i := strings.LastIndex(fn, "/")
		if j := strings.Index(fn[i+1:], "."); j >= 0 {
			return fn[:i+1+j]
		}
		return fn
	}
	a, b := pkg(parts[0]), pkg(parts[1])
	state := func(p string) bool { return p == "dpos/state" || p == "cr/state" }
	// One stack could not be restored by the detector (its per-goroutine history overflowed; the children run
	// with history_size=7 to keep this rare): the report is still a definite race, but only one side is known.
	if (a == "" && state(b)) || (b == "" && state(a)) {
		return "race:family:consensus-state-access-with-lost-peer-stack"
	}
	// payload objects (CRCProposal.Hash) cache their hash lazily like BaseTransaction.Hash does
	if parts[0] == "core/types/payload.(*CRCProposal).Hash" && parts[1] == parts[0] {
		return "race:family:lazy-payload-hash-cache"
	}
	valid := func(p string) bool { return p == "core/transaction" || p == "core/types/payload" }
	switch {
	case (a == "servers" && state(b)) || (b == "servers" && state(a)):
		return "race:family:rpc-handlers-read-consensus-state-unlocked"
	case (valid(a) && state(b)) || (valid(b) && state(a)):
		return "race:family:tx-validators-read-consensus-state-unlocked"
	case a == "dpos/state" && b == "dpos/state" && c40TwoMutexPair(parts[0], parts[1]):
		return "race:family:dpos-state-two-mutexes"
	case state(a) && state(b):
		return "race:family:cr-member-fields-written-without-committee-lock"
	case a == "core/transaction" && b == "core/transaction" && strings.HasSuffix(parts[0], ").Hash") && strings.HasSuffix(parts[1], ").Hash"):
		return "race:family:lazy-tx-hash-cache"
	}
	return "race:" + raw
}

package props

import (
	"bufio"
	"crypto/sha256"
	"encoding/hex"
	"encoding/json"
	"fmt"
	"math/rand"
	"os"
	"os/exec"
	"path/filepath"
	"regexp"
	"runtime"
	"runtime/metrics"
	"runtime/pprof"
	"sort"
	"strconv"
	"strings"
	"sync/atomic"
	"syscall"
	"time"

	"verif/kit"
	"verif/kit/node"
)

// C02 — decoding untrusted bytes never crashes the node or allocates without
// bound.
//
// Workload: every decoder entry point of the node (payload types x version
// byte, whole transactions of every type, block containers, aux-pow, DPoS
// confirm/proposal/vote, every P2P and DPoS message body, on-disk decoders)
// is run on (a) honest serialisations produced by the node's own encoders from
// generated values, (b) structure-aware mutations of them — every integer
// field of the encoder's write log replaced by boundary values, truncation at
// every field boundary, bit flips, byte sweeps, splices, version sweeps — (c)
// short random strings and (d) grown byte fields (a length-prefixed field that
// really carries one or more 32 KiB read chunks, claims megabytes and ends
// early).
//
// Oracle: (1) a panic (or the death of the process) is a violation; (2) the
// heap bytes allocated during one decode call (runtime.MemStats.TotalAlloc
// delta, sequential worker, GC untouched) must be <= 64 KiB + 256*len(input).
//
// Process structure: the kit child of a shard is only a supervisor. Each
// decoder runs in a worker sub-process of its own (this binary re-executed
// with VERIF_C02_WORKER set, see init below) under RLIMIT_DATA, so that a decode
// call that kills the process (a make() of gigabytes) is observed, attributed
// to its case through the worker's case log and stack dump, and the worker is
// restarted behind that case: one amplifier never hides another one.

const (
	c02AllocBase    = 64 << 10
	c02AllocPerByte = 256
	c02RepoPrefix   = "github.com/elastos/Elastos.ELA/"

	c02WorkerEnv     = "VERIF_C02_WORKER"
	c02WorkerMemMB   = 1024             // RLIMIT_DATA of a worker
	c02RlimitData    = 2                // RLIMIT_DATA (not exported by package syscall)
	c02HeapGuardB    = 8 << 20          // a single case that allocates more than max(this, 4*bound) is aborted: it already violated the allocation clause
	c02CaseTimeout   = 15 * time.Second // CPU time of the worker process spent in one case
	c02CkptEvery     = 200
	c02MaxRestarts   = 1500
	c02WorkerTimeout = 1800 * time.Second
)

func c02Bound(n int) uint64 { return c02AllocBase + c02AllocPerByte*uint64(n) }

func init() {
	if spec := os.Getenv(c02WorkerEnv); spec != "" {
		// worker mode: never returns
		c02WorkerMain(spec)
		os.Exit(0)
	}
	kit.Register(&kit.Spec{
		ID:     "C02",
		Rule:   "per decoder entry point (payload type x version byte, transaction type, block/header/aux-pow/confirm containers, every P2P and DPoS message body, on-disk decoders): honest serialisations of reflect-generated values written by the node's own encoders; each integer field of the encoder's write log replaced by boundary values 0,1,2,0xfc,0xfd,10000,50000,0xffff,2^16,2^18,2^20 and, where those did not already amplify, 2^31,2^32-1,2^32,2^63,2^64-1; truncation at every field boundary; bit flips; byte sweeps; splices; payload version sweep 0..255; short random strings; grown byte fields: up to 3 (6) length-prefixed byte fields per template filled with 32 KiB-1 .. 100 KiB of data while the prefix claims 1, 8, 12 or 16 MiB (or the real length minus nothing / plus the rest of the template as an honest grown value) and the input ends there. distinct = distinct (decoder, version, input bytes); non-trivial = the honest input, or a mutation that leaves at least the first field of an honest input intact (so the decoder gets past its first read)",
		Shards: func(tier string) int { return 16 },
		// workers are single-threaded sub-processes; keep the machine share small
		Parallel: 4,
		Run:      runC02,
		TimeoutS: func(tier string) int {
			// generous: the machine may be heavily shared; CPU need is ~3 min (quick)
			if tier == "thorough" {
				return 7200
			}
			return 2400
		},
		Require: []string{"decoders", "honest_decoded", "mut_count_cases", "mut_truncate_cases",
			"mut_bitflip_cases", "mut_random_cases", "mut_version_sweep_cases", "mut_huge_cases", "mut_grown_field_cases", "grown_honest_decoded", "result_err", "result_ok",
			"families:payload", "families:tx", "families:container", "families:p2pmsg", "families:dposmsg", "families:disk"},
		Assumptions: []string{
			"allocation is measured as the runtime.MemStats.TotalAlloc delta around one decode call in a worker process that runs cases sequentially; the bound 64 KiB + 256*len(input) is checked to sit at least 8x above the largest allocation observed for honest inputs (calibration gauges in the counters)",
			"the corpus uses inputs of at most a few tens of KiB; the per-message size limits are far above that",
			"a decode call that allocates more than max(8 MiB, 4*bound), or that makes the runtime fail an allocation under RLIMIT_DATA=1024 MiB, is stopped by killing its worker; both are violations of the allocation clause, not of a wall-clock limit",
			"CPU time is not part of the property: a decode call that uses more than 15 s of CPU without tripping the allocation monitor is counted (cases_timed_out) and skipped, not judged",
		},
		Post: c02Post,
	})
}

// ---------------------------------------------------------------------------
// accumulator shared by worker (writes) and supervisor (replays into kit.Ctx)
// ---------------------------------------------------------------------------

type c02Acc struct {
	Counters   map[string]int64 `json:"counters"`
	Distinct   map[string]bool  `json:"distinct"`
	Samples    []interface{}    `json:"samples"`
	Violations []kit.Violation  `json:"violations"`
	Notes      []string         `json:"notes"`
	NextIdx    int              `json:"next_idx"` // cases with index < NextIdx are accounted
	sigs       map[string]int
}

func c02NewAcc() *c02Acc {
	return &c02Acc{Counters: map[string]int64{}, Distinct: map[string]bool{}}
}

func (a *c02Acc) inc(k string) { a.Counters[k]++ }
func (a *c02Acc) max(k string, v int64) {
	if cur, ok := a.Counters[k]; !ok || v > cur {
		a.Counters[k] = v
	}
}
func (a *c02Acc) note(f string, x ...interface{}) {
	if len(a.Notes) < 12 {
		a.Notes = append(a.Notes, fmt.Sprintf(f, x...))
	}
}
func (a *c02Acc) violate(sig, detail string, cas interface{}) {
	a.Counters["site:"+sig]++
	if a.sigs == nil {
		a.sigs = map[string]int{}
		for _, v := range a.Violations {
			a.sigs[v.Sig]++
		}
	}
	a.sigs[sig]++
	if a.sigs[sig] > 2 {
		return
	}
	a.Violations = append(a.Violations, kit.Violation{Sig: sig, Detail: detail, Case: cas})
}
func (a *c02Acc) caseID(id string, nontrivial bool) {
	h := sha256.Sum256([]byte(id))
	k := hex.EncodeToString(h[:8])
	if nontrivial {
		a.Distinct[k] = true
	} else if _, ok := a.Distinct[k]; !ok {
		a.Distinct[k] = false
	}
}

// ---------------------------------------------------------------------------
// measurement
// ---------------------------------------------------------------------------

type c02Outcome struct {
	err      error
	panicked bool
	pval     string
	stack    string
	alloc    uint64
}

// cumulative-allocation level (runtime/metrics /gc/heap/allocs:bytes, cheap and
// slightly lagging) at which the running case is aborted by the guard
var c02CaseAllocLimit atomic.Uint64

func c02CPUTime() time.Duration {
	var ru syscall.Rusage
	syscall.Getrusage(syscall.RUSAGE_SELF, &ru)
	return time.Duration(ru.Utime.Nano() + ru.Stime.Nano())
}

func c02AllocsMetric() uint64 {
	s := []metrics.Sample{{Name: "/gc/heap/allocs:bytes"}}
	metrics.Read(s)
	return s[0].Value.Uint64()
}

var c02CaseStart atomic.Int64 // process CPU time at case start (+1); 0 = no case running

// c02Measure runs one decode call under the allocation monitor.
func c02Measure(d *c02Decoder, in []byte, ver byte) c02Outcome {
	var o c02Outcome
	var m0, m1 runtime.MemStats
	runtime.ReadMemStats(&m0)
	guard := uint64(c02HeapGuardB)
	if b := 4 * c02Bound(len(in)); b > guard {
		guard = b
	}
	c02CaseAllocLimit.Store(c02AllocsMetric() + guard)
	c02CaseStart.Store(int64(c02CPUTime()) + 1)
	p, v, st := kit.Guard(func() { o.err = d.decode(in, ver) })
	c02CaseStart.Store(0)
	runtime.ReadMemStats(&m1)
	o.alloc = m1.TotalAlloc - m0.TotalAlloc
	if p {
		o.panicked = true
		o.pval = fmt.Sprint(v)
		o.stack = st
	}
	return o
}

var (
	c02ReNum = regexp.MustCompile(`[0-9]+`)
	c02ReHex = regexp.MustCompile(`0x[0-9a-f]+`)
)

func c02ShortFunc(fn string) string { return strings.TrimPrefix(fn, c02RepoPrefix) }

// c02TopRepoFrameOfStack extracts the innermost repository function from a
// goroutine stack dump.
func c02TopRepoFrameOfStack(stack string) string {
	for _, l := range strings.Split(stack, "\n") {
		l = strings.TrimSpace(l)
		if strings.HasPrefix(l, c02RepoPrefix) {
			fn := l
			if i := strings.LastIndex(fn, "("); i > 0 {
				fn = fn[:i]
			}
			return c02ShortFunc(fn)
		}
	}
	return "unknown"
}

func c02PanicKind(pval string) string {
	s := strings.TrimPrefix(pval, "runtime error: ")
	s = c02ReHex.ReplaceAllString(s, "N")
	s = c02ReNum.ReplaceAllString(s, "N")
	if i := strings.Index(s, " ["); i > 0 { // "index out of range [N] with length N"
		s = s[:i]
	}
	if len(s) > 60 {
		s = s[:60]
	}
	return strings.ReplaceAll(s, " ", "-")
}

// c02AfterPanicFrames cuts a debug.Stack() dump to the frames below the panic
// machinery.
func c02AfterPanicFrames(stack string) string {
	if i := strings.LastIndex(stack, "\npanic("); i >= 0 {
		return stack[i+1:]
	}
	return stack
}

// allocation profile helpers ---------------------------------------------------

func c02ProfSnapshot(gc bool) map[[32]uintptr]int64 {
	if gc {
		runtime.GC()
		runtime.GC()
	}
	n, _ := runtime.MemProfile(nil, true)
	for {
		recs := make([]runtime.MemProfileRecord, n+64)
		var ok bool
		n, ok = runtime.MemProfile(recs, true)
		if ok {
			m := make(map[[32]uintptr]int64, n)
			for _, r := range recs[:n] {
				m[r.Stack0] += r.AllocBytes
			}
			return m
		}
	}
}

func c02ProfTopSite(before, after map[[32]uintptr]int64) (string, int64) {
	var best [32]uintptr
	var bestB int64
	for k, v := range after {
		if dlt := v - before[k]; dlt > bestB && c02RepoFrame(k) != "" {
			best, bestB = k, dlt
		}
	}
	if bestB == 0 {
		return "unknown", 0
	}
	return c02RepoFrame(best), bestB
}

// c02AllocSite re-runs the offending input with every allocation sampled by
// the runtime's allocation profiler and returns the innermost repository
// function of the call stack that allocated the most bytes.
func c02AllocSite(d *c02Decoder, in []byte, ver byte) (site string, bytes int64) {
	old := runtime.MemProfileRate
	runtime.MemProfileRate = 1
	defer func() { runtime.MemProfileRate = old }()
	before := c02ProfSnapshot(true)
	c02CaseStart.Store(int64(c02CPUTime()) + 1)
	kit.Guard(func() { d.decode(in, ver) })
	c02CaseStart.Store(0)
	after := c02ProfSnapshot(true)
	return c02ProfTopSite(before, after)
}

// c02RepoFrame returns the innermost repository function of an allocation
// stack, but only for stacks that lie under a monitored decode call (so that
// allocations of the harness, of a node started for templates, or of
// background goroutines are never taken for the site).
func c02RepoFrame(st [32]uintptr) string {
	n := 0
	for n < len(st) && st[n] != 0 {
		n++
	}
	if n == 0 {
		return ""
	}
	frames := runtime.CallersFrames(st[:n])
	site, under := "", n == len(st) // a truncated (very deep) stack cannot show its root
	for {
		f, more := frames.Next()
		if site == "" && strings.HasPrefix(f.Function, c02RepoPrefix) {
			site = c02ShortFunc(f.Function)
		}
		if strings.HasPrefix(f.Function, "verif/props.c02Measure") || strings.HasPrefix(f.Function, "verif/props.c02AllocSite") ||
			strings.HasPrefix(f.Function, "verif/props.c35") {
			under = true
		}
		if !more {
			break
		}
	}
	if !under {
		return ""
	}
	return site
}

// ---------------------------------------------------------------------------
// worker process
// ---------------------------------------------------------------------------

type c02WorkerSpec struct {
	Decoder string `json:"decoder"`
	Tier    string `json:"tier"`
	Seed    int64  `json:"seed"`
	Dir     string `json:"dir"`
	Dead    []int  `json:"dead"` // case indices that killed a previous incarnation: skipped
	LogDir  string `json:"log_dir"`
	MemMB   int    `json:"mem_mb"`
}

type c02Worker struct {
	spec     c02WorkerSpec
	acc      *c02Acc
	d        *c02Decoder
	idx      int
	startIdx int
	dead     map[int]bool
	counting bool
	curF     *os.File
	baseProf atomic.Value // map[[32]uintptr]int64
}

func (w *c02Worker) n(quick, thorough int) int {
	if w.spec.Tier == "thorough" {
		return thorough
	}
	return quick
}

func c02WorkerMain(specPath string) {
	var spec c02WorkerSpec
	b, err := os.ReadFile(specPath)
	if err != nil || json.Unmarshal(b, &spec) != nil {
		fmt.Fprintln(os.Stderr, "c02 worker: bad spec", specPath, err)
		os.Exit(2)
	}
	if spec.MemMB > 0 {
		lim := uint64(spec.MemMB) << 20
		// RLIMIT_DATA (private writable mappings = the Go heap) rather than
		// RLIMIT_AS: a fresh Go process already reserves ~1.5 GiB of address
		// space (PROT_NONE arena and page-summary reservations).
		syscall.Setrlimit(c02RlimitData, &syscall.Rlimit{Cur: lim, Max: lim})
	}
	os.Setenv("VERIF_C02_NODE_DIR", spec.Dir)
	node.InitGlobals(spec.LogDir)
	var d *c02Decoder
	for _, x := range c02AllDecoders() {
		if x.name == spec.Decoder {
			d = x
		}
	}
	if d == nil {
		fmt.Fprintln(os.Stderr, "c02 worker: unknown decoder", spec.Decoder)
		os.Exit(2)
	}
	w := &c02Worker{spec: spec, d: d, dead: map[int]bool{}}
	for _, k := range spec.Dead {
		w.dead[k] = true
	}
	w.acc = c02NewAcc()
	if b, err := os.ReadFile(filepath.Join(spec.Dir, "ckpt.json")); err == nil {
		a := c02NewAcc()
		if json.Unmarshal(b, a) == nil {
			w.acc = a
		}
	}
	w.startIdx = w.acc.NextIdx
	w.curF, _ = os.OpenFile(filepath.Join(spec.Dir, "cur.log"), os.O_CREATE|os.O_WRONLY|os.O_APPEND, 0644)
	go w.guard()
	if pf := os.Getenv("VERIF_C02_PROF"); pf != "" {
		f, _ := os.Create(pf)
		pprof.StartCPUProfile(f)
		defer pprof.StopCPUProfile()
	}
	w.run()
	w.acc.NextIdx = w.idx + 1
	w.save("done.json")
	if os.Getenv("VERIF_C02_DEBUG") != "" {
		b, _ := os.ReadFile("/proc/self/status")
		for _, l := range strings.Split(string(b), "\n") {
			if strings.HasPrefix(l, "Vm") || strings.HasPrefix(l, "Threads") {
				fmt.Fprintln(os.Stderr, l)
			}
		}
	}
}

func (w *c02Worker) save(name string) {
	b, _ := json.Marshal(w.acc)
	tmp := filepath.Join(w.spec.Dir, name+".tmp")
	os.WriteFile(tmp, b, 0644)
	os.Rename(tmp, filepath.Join(w.spec.Dir, name))
}

// guard aborts the process when the running case grows the heap beyond the
// guard or runs for too long. The abort is reported through abort.json.
func (w *c02Worker) guard() {
	for {
		time.Sleep(5 * time.Millisecond)
		st := c02CaseStart.Load()
		if st == 0 {
			continue
		}
		heap := c02AllocsMetric()
		limit := c02CaseAllocLimit.Load()
		if heap > limit && c02CaseStart.Load() == st {
			// publish the allocation profile (two GC cycles) and name the site;
			// the decode call keeps running meanwhile
			site := "unknown"
			if bp, ok := w.baseProf.Load().(map[[32]uintptr]int64); ok {
				site, _ = c02ProfTopSite(bp, c02ProfSnapshot(true))
			}
			if c02CaseStart.Load() != st {
				// the call returned on its own: the worker's in-line oracle
				// judges it (and attributes it) without losing the process
				continue
			}
			if site == "unknown" {
				buf := make([]byte, 1<<16)
				buf = buf[:runtime.Stack(buf, true)]
				site = c02TopRepoFrameOfStack(c02MainGoroutine(string(buf)))
			}
			w.abort("heap-guard", site, heap)
		}
		// the case clock is process CPU time, so that a loaded machine does not
		// turn slow scheduling into skipped cases
		if cpu := c02CPUTime(); cpu-time.Duration(st) > c02CaseTimeout && c02CaseStart.Load() == st {
			w.abort("case-timeout", "", 0)
		}
	}
}

// c02MainGoroutine returns the dump of goroutine 1 from an all-goroutine dump.
func c02MainGoroutine(dump string) string {
	for _, g := range strings.Split(dump, "\n\n") {
		if strings.HasPrefix(g, "goroutine 1 ") {
			return g
		}
	}
	return dump
}

func (w *c02Worker) abort(kind, site string, grown uint64) {
	// the main goroutine is inside the decode call: the accumulator is
	// consistent up to the previous case
	w.acc.NextIdx = w.idx
	w.save("ckpt.json")
	b, _ := json.Marshal(map[string]interface{}{"kind": kind, "site": site, "heap_growth": grown})
	os.WriteFile(filepath.Join(w.spec.Dir, "abort.json"), b, 0644)
	os.Exit(3)
}

func (w *c02Worker) begin(ver byte, what string, in []byte) {
	if w.curF == nil {
		return
	}
	if w.idx%2000 == 0 {
		w.curF.Truncate(0)
	}
	h := in
	if len(h) > 8192 {
		h = h[:8192]
	}
	fmt.Fprintf(w.curF, "%d\t%d\t%s\t%d\t%s\n", w.idx, ver, what, len(in), hex.EncodeToString(h))
}

func c02Witness(d *c02Decoder, in []byte, ver byte, what string, o *c02Outcome) map[string]interface{} {
	h := in
	trunc := false
	if len(h) > 4096 {
		h, trunc = h[:4096], true
	}
	m := map[string]interface{}{"decoder": d.name, "payload_version": ver, "mutation": what, "len": len(in),
		"input_hex": hex.EncodeToString(h), "input_truncated": trunc, "bound_bytes": c02Bound(len(in))}
	if o != nil {
		m["alloc_bytes"] = o.alloc
	}
	return m
}

// c02DumpIdx (VERIF_C02_DUMP=<case index>): print that case of the worker's
// deterministic case stream instead of running anything (replay aid).
var c02DumpIdx, _ = strconv.Atoi(os.Getenv("VERIF_C02_DUMP"))

// skip advances the case numbering without evaluating (used when a position
// already amplified), so that numbering does not depend on outcomes of later
// incarnations.
func (w *c02Worker) skip(counter string) {
	w.idx++
	if w.idx >= w.startIdx {
		w.acc.inc(counter)
		w.acc.NextIdx = w.idx + 1
	}
}

// eval runs one case and applies both oracle clauses. It returns whether the
// allocation clause was violated (used to stop escalating at that position).
// counter is incremented when the case is accounted by this incarnation.
func (w *c02Worker) eval(counter string, in []byte, ver byte, what string, nontrivial bool) (amplified bool) {
	d, a := w.d, w.acc
	w.idx++
	if c02DumpIdx > 0 && w.idx == c02DumpIdx {
		fmt.Printf("%d\t%d\t%s\t%s\n", w.idx, ver, what, hex.EncodeToString(in))
		os.Exit(0)
	}
	if w.idx < w.startIdx {
		return false
	}
	if w.dead[w.idx] {
		a.inc("cases_skipped_killed_worker")
		a.NextIdx = w.idx + 1
		return true
	}
	w.begin(ver, what, in)
	o := c02Measure(d, in, ver)
	defer func() {
		a.NextIdx = w.idx + 1
		if w.idx%c02CkptEvery == 0 {
			w.save("ckpt.json")
			w.baseProf.Store(c02ProfSnapshot(false))
		}
	}()
	if o.alloc > 32<<20 {
		// between cases only: do not let the garbage of one amplified case
		// push the next ones against the memory limit
		runtime.GC()
	}
	a.inc(counter)
	a.caseID(fmt.Sprintf("%s/%d/%s", d.name, ver, in), nontrivial)
	switch {
	case o.panicked:
		a.inc("result_panic")
		site := c02TopRepoFrameOfStack(c02AfterPanicFrames(o.stack))
		if strings.Contains(o.pval, "makeslice") {
			// make() with a wire-supplied size beyond the address space: same defect as the amplification
			a.inc("alloc_makeslice_panics")
			a.violate("alloc:"+site, fmt.Sprintf("decoder %s: make() sized by a wire integer panics (%s) on a %d-byte input [%s]", d.name, o.pval, len(in), what),
				c02Witness(d, in, ver, what, &o))
			return true
		}
		wt := c02Witness(d, in, ver, what, &o)
		wt["panic"] = o.pval
		wt["stack"] = c02Tail(c02AfterPanicFrames(o.stack), 1500)
		a.violate("panic:"+site+":"+c02PanicKind(o.pval), fmt.Sprintf("decoder %s panics: %s [%s]", d.name, o.pval, what), wt)
		return false
	case o.err != nil:
		a.inc("result_err")
	default:
		a.inc("result_ok")
	}
	if o.alloc > c02Bound(len(in)) {
		a.inc("alloc_bound_exceeded")
		site, _ := c02AllocSite(d, in, ver)
		wt := c02Witness(d, in, ver, what, &o)
		wt["alloc_site"] = site
		a.violate("alloc:"+site, fmt.Sprintf("decoder %s allocated %d bytes for a %d-byte input (bound %d) at %s [%s]; result: %v",
			d.name, o.alloc, len(in), c02Bound(len(in)), site, what, c02ErrStr(o.err)), wt)
		a.max("max:alloc_amplification_bytes", int64(o.alloc))
		return true
	}
	return false
}

func c02ErrStr(err error) string {
	if err == nil {
		return "decoded without error"
	}
	s := err.Error()
	if len(s) > 160 {
		s = s[:160]
	}
	return "error: " + s
}

func c02Tail(s string, n int) string {
	if len(s) > n {
		return s[:n]
	}
	return s
}

func c02TailB(b []byte, n int) []byte {
	if len(b) > n {
		return b[:n]
	}
	return b
}

func c02Rand(seed int64, stream string) *rand.Rand {
	h := sha256.Sum256([]byte(fmt.Sprintf("%d/C02/%s", seed, stream)))
	var s int64
	for i := 0; i < 8; i++ {
		s = s<<8 | int64(h[i])
	}
	return rand.New(rand.NewSource(s))
}

func (w *c02Worker) run() {
	d, a := w.d, w.acc
	r := c02Rand(w.spec.Seed, d.name)
	f := c02NewFiller(r)
	nTemplates := w.n(5, 24)
	maxFields := w.n(48, 80)
	fresh := w.startIdx == 0

	// ---- honest corpus + positive control + calibration (re-run by every
	// incarnation of the worker to rebuild the templates; only the first one
	// accounts for it) ----
	var tmpls []*c02Template
	attempts := 0
	for len(tmpls) < nTemplates && attempts < nTemplates*40 {
		attempts++
		f.maxSlice = 3
		if attempts%6 == 0 {
			f.maxSlice = 40 // some larger honest values for the calibration of the per-byte factor
		}
		rw := &c02RecWriter{}
		var ver byte
		var gerr error
		if p, v, _ := kit.Guard(func() { ver, gerr = d.gen(f, rw) }); p {
			if fresh {
				a.inc("gen_encoder_panicked")
				a.note("encoder of %s panicked on a generated value: %v", d.name, v)
			}
			continue
		}
		if gerr != nil {
			if fresh {
				a.inc("gen_not_encodable")
			}
			continue
		}
		t := &c02Template{bytes: rw.buf, segs: rw.segs, ver: ver, label: d.name}
		o := c02Measure(d, t.bytes, ver)
		if o.panicked {
			if fresh {
				a.violate("panic:"+c02TopRepoFrameOfStack(c02AfterPanicFrames(o.stack))+":"+c02PanicKind(o.pval),
					fmt.Sprintf("decoder %s panics on an honest input: %s", d.name, o.pval), c02Witness(d, t.bytes, ver, "honest", &o))
			}
			continue
		}
		if o.err != nil {
			// the node's own encoding of a generated value is not accepted by
			// its decoder: not a C02 matter (C04 territory)
			if fresh {
				a.inc("honest_rejected")
				a.note("honest value of %s (ver %d) rejected by its decoder: %v", d.name, ver, o.err)
			}
			continue
		}
		tmpls = append(tmpls, t)
		if !fresh {
			continue
		}
		a.caseID(fmt.Sprintf("%s/%d/%s", d.name, ver, t.bytes), true)
		a.inc("result_ok")
		a.inc("honest_decoded")
		a.inc("honest_decoded:" + d.family)
		if o.alloc > c02Bound(len(t.bytes)) {
			site, _ := c02AllocSite(d, t.bytes, ver)
			a.violate("alloc:"+site, fmt.Sprintf("decoder %s allocated %d bytes for an honest %d-byte input", d.name, o.alloc, len(t.bytes)),
				c02Witness(d, t.bytes, ver, "honest", &o))
		}
		// calibration: 8 * alloc must stay below the bound for honest inputs
		a.max("max:calib_8x_honest_alloc_over_bound_permille", int64(8*o.alloc*1000/c02Bound(len(t.bytes))))
		if len(t.bytes) >= 64 {
			a.max("max:calib_honest_alloc_per_input_byte_x100", int64(o.alloc*100/uint64(len(t.bytes))))
		}
		a.max("max:honest_input_len", int64(len(t.bytes)))
		if len(tmpls) == 1 {
			a.Samples = append(a.Samples, map[string]interface{}{"decoder": d.name, "payload_version": ver,
				"honest_input_hex": hex.EncodeToString(c02TailB(t.bytes, 200)), "len": len(t.bytes),
				"fields_in_write_log": len(t.segs), "alloc_bytes": o.alloc})
		}
	}
	if len(tmpls) == 0 && fresh {
		a.inc("decoders_without_honest_template")
		a.note("no honest template for %s after %d attempts", d.name, attempts)
	}
	w.baseProf.Store(c02ProfSnapshot(true))

	// ---- structure-aware: integer fields ----
	for ti, t := range tmpls {
		fs := c02IntFields(t)
		if len(fs) > maxFields {
			r.Shuffle(len(fs), func(i, j int) { fs[i], fs[j] = fs[j], fs[i] })
			fs = fs[:maxFields]
		}
		for _, fl := range fs {
			amplified := false
			try := func(vals []uint64, counter string) {
				for _, v := range vals {
					in, ok := c02WithField(t, fl, v)
					if !ok {
						continue
					}
					if amplified {
						w.skip("mut_count_skipped_after_amplifier")
						continue
					}
					if w.eval(counter, in, t.ver, fmt.Sprintf("t%d:%s", ti, c02DescribeField(fl, v)), fl.off > 0) {
						amplified = true
					}
				}
			}
			try(c02TierSmall, "mut_count_cases")
			try(c02TierModerate, "mut_count_cases")
			try(c02HugeFor(fl), "mut_huge_cases")
		}
		// truncation at every field boundary (sampled when there are many)
		step := 1
		if len(t.segs) > maxFields {
			step = len(t.segs)/maxFields + 1
		}
		for si := 0; si < len(t.segs); si += step {
			cut := t.segs[si].off
			w.eval("mut_truncate_cases", t.bytes[:cut], t.ver, fmt.Sprintf("t%d:truncate@%d", ti, cut), cut > 0)
		}
		if n := len(t.bytes); n > 1 {
			w.eval("mut_truncate_cases", t.bytes[:n-1], t.ver, fmt.Sprintf("t%d:truncate@%d", ti, n-1), true)
		}
		// bit flips
		for k := w.n(24, 60); k > 0; k-- {
			w.eval("mut_bitflip_cases", c02FlipBits(r, t.bytes), t.ver, fmt.Sprintf("t%d:bitflip", ti), true)
		}
		// byte sweep on a few single-byte fields (type / version / flag bytes)
		swept := 0
		for _, fl := range fs {
			if fl.n != 1 || swept >= 2 {
				continue
			}
			swept++
			for v := 0; v < 256; v += 1 + r.Intn(w.n(30, 10)) {
				w.eval("mut_bytesweep_cases", c02SetByte(t.bytes, fl.off, byte(v)), t.ver, fmt.Sprintf("t%d:byte@%d=%#x", ti, fl.off, v), fl.off > 0)
			}
		}
		// splice with another template
		if len(tmpls) > 1 {
			for k := 0; k < 4; k++ {
				w.eval("mut_splice_cases", c02Splice(r, t, tmpls[r.Intn(len(tmpls))]), t.ver, fmt.Sprintf("t%d:splice", ti), true)
			}
		}
		// payload version sweep: same bytes under every version byte
		if d.versioned && ti < 2 {
			for v := 0; v < 256; v++ {
				w.eval("mut_version_sweep_cases", t.bytes, byte(v), fmt.Sprintf("t%d:version=%d", ti, v), true)
			}
		}
	}
	// ---- short random strings ----
	for k := w.n(150, 800); k > 0; k-- {
		ver := byte(0)
		if d.versioned {
			ver = byte(r.Intn(6))
			if r.Intn(4) == 0 {
				ver = byte(r.Intn(256))
			}
		}
		w.eval("mut_random_cases", c02RandomBytes(r), ver, "random", false)
	}
	// ---- grown byte fields: an honest value whose length-prefixed byte field
	// really carries one or more read chunks (32 KiB .. 100 KiB), announces up
	// to the largest field limit (16 MiB) and ends early. Own random stream, so
	// the cases above are the same with and without this family. ----
	rg := c02Rand(w.spec.Seed, d.name+"/grown")
	filler := make([]byte, 100<<10)
	rg.Read(filler)
	perTemplate := w.n(3, 6)
	for ti, t := range tmpls {
		if ti >= w.n(5, 10) {
			break
		}
		vfs := c02VarFields(t)
		// real byte fields first, then zero prefixes; a random choice among each
		rg.Shuffle(len(vfs), func(i, j int) { vfs[i], vfs[j] = vfs[j], vfs[i] })
		sort.SliceStable(vfs, func(i, j int) bool { return vfs[i].matched && !vfs[j].matched })
		if len(vfs) > perTemplate {
			vfs = vfs[:perTemplate]
		}
		for _, vf := range vfs {
			amplified := false
			for _, g := range c02GrownCases {
				if amplified && !g.withTail {
					w.skip("mut_count_skipped_after_amplifier")
					continue
				}
				in := c02Grow(t, vf, g, filler)
				before := a.Counters["result_ok"]
				if w.eval("mut_grown_field_cases", in, t.ver, fmt.Sprintf("t%d:grown@%d:%s", ti, vf.off, g.name), vf.off > 0) {
					amplified = true
				}
				if g.withTail && a.Counters["result_ok"] > before {
					a.inc("grown_honest_decoded")
				}
			}
		}
	}
}

// ---------------------------------------------------------------------------
// supervisor (runs in the kit child of a shard)
// ---------------------------------------------------------------------------

func runC02(c *kit.Ctx) {
	all := c02AllDecoders()
	self, err := os.Executable()
	if err != nil {
		c.Inconclusive("os.Executable: %v", err)
		return
	}
	only := os.Getenv("VERIF_C02_ONLY") // development aid: restrict to decoders whose name contains this
	for di, d := range all {
		if di%c.Shards != c.Shard {
			continue
		}
		if only != "" && !strings.Contains(d.name, only) {
			continue
		}
		c.Inc("decoders")
		c.Inc("families:" + d.family)
		t0 := time.Now()
		c02Supervise(c, self, d)
		if os.Getenv("VERIF_C02_DEBUG") != "" {
			fmt.Fprintf(os.Stderr, "decoder %s took %v\n", d.name, time.Since(t0))
		}
	}
}

func c02LastLine(path string) string {
	f, err := os.Open(path)
	if err != nil {
		return ""
	}
	defer f.Close()
	sc := bufio.NewScanner(f)
	sc.Buffer(make([]byte, 1<<20), 64<<20)
	last := ""
	for sc.Scan() {
		if t := sc.Text(); t != "" {
			last = t
		}
	}
	return last
}

// c02DeathSig names a worker death by the innermost repository frame of the
// goroutine the runtime reports with the fatal error.
func c02DeathSig(stderr string) (sig, first string) {
	// the decode call runs on the main goroutine (goroutine 1); the runtime
	// prints it either first or right after its own "runtime stack:" section
	site := "unknown"
	for _, g := range strings.Split(stderr, "\n\n") {
		if strings.HasPrefix(g, "goroutine 1 ") || strings.HasPrefix(g, "goroutine 1\n") {
			site = c02TopRepoFrameOfStack(g)
			break
		}
	}
	for _, l := range strings.Split(stderr, "\n") {
		if strings.HasPrefix(l, "fatal error:") || strings.HasPrefix(l, "panic:") || strings.HasPrefix(l, "runtime:") {
			first = strings.TrimSpace(l)
			break
		}
	}
	if strings.Contains(stderr, "out of memory") || strings.Contains(stderr, "cannot allocate") {
		return "alloc:" + site, first
	}
	kind := first
	if i := strings.Index(kind, ":"); i >= 0 {
		kind = kind[i+1:]
	}
	return "fatal:" + site + ":" + c02PanicKind(strings.TrimSpace(kind)), first
}

func c02Supervise(c *kit.Ctx, self string, d *c02Decoder) {
	dir := filepath.Join(c.WorkDir, "w-"+kit.HashID([]byte(d.name)))
	os.MkdirAll(dir, 0755)
	spec := c02WorkerSpec{Decoder: d.name, Tier: c.Tier, Seed: c.Seed, Dir: dir, LogDir: dir, MemMB: c02WorkerMemMB}
	specPath := filepath.Join(dir, "spec.json")
	outsideDeaths := 0
	for restart := 0; ; restart++ {
		if restart > c02MaxRestarts {
			c.Inconclusive("decoder %s: more than %d worker restarts", d.name, c02MaxRestarts)
			return
		}
		b, _ := json.Marshal(&spec)
		os.WriteFile(specPath, b, 0644)
		os.Remove(filepath.Join(dir, "abort.json"))
		errF, _ := os.Create(filepath.Join(dir, "stderr.txt"))
		cmd := exec.Command(self)
		cmd.Env = append(os.Environ(), c02WorkerEnv+"="+specPath, "GOMAXPROCS=1")
		cmd.Stderr = errF
		cmd.SysProcAttr = &syscall.SysProcAttr{Setpgid: true, Pdeathsig: syscall.SIGKILL}
		c.Begin("supervising decoder=%s incarnation=%d", d.name, restart)
		tInc := time.Now()
		timedOut := false
		if err := cmd.Start(); err != nil {
			errF.Close()
			c.Inconclusive("cannot start worker for %s: %v", d.name, err)
			return
		}
		done := make(chan error, 1)
		go func() { done <- cmd.Wait() }()
		select {
		case <-done:
		case <-time.After(c02WorkerTimeout):
			timedOut = true
			syscall.Kill(-cmd.Process.Pid, syscall.SIGKILL)
			<-done
		}
		errF.Close()
		c.Inc("worker_incarnations")
		if os.Getenv("VERIF_C02_DEBUG") != "" {
			fmt.Fprintf(os.Stderr, "  %s incarnation %d: %v, last=%s\n", d.name, restart, time.Since(tInc), c02Tail(c02LastLine(filepath.Join(dir, "cur.log")), 60))
		}

		if b, err := os.ReadFile(filepath.Join(dir, "done.json")); err == nil {
			acc := c02NewAcc()
			if json.Unmarshal(b, acc) != nil {
				c.Inconclusive("decoder %s: unreadable worker result", d.name)
				return
			}
			c02Merge(c, acc)
			if os.Getenv("VERIF_KEEP") == "" {
				os.RemoveAll(dir)
			}
			return
		}
		// the worker died: attribute the death to its current case
		cur := strings.SplitN(c02LastLine(filepath.Join(dir, "cur.log")), "\t", 5)
		stderrB, _ := os.ReadFile(filepath.Join(dir, "stderr.txt"))
		stderr := string(stderrB)
		if timedOut {
			c.Inconclusive("decoder %s: worker exceeded %v (last case %v)", d.name, c02WorkerTimeout, c02Tail(strings.Join(cur, " "), 300))
			return
		}
		idx := -1
		if len(cur) == 5 {
			idx, _ = strconv.Atoi(cur[0])
		}
		already := false
		for _, k := range spec.Dead {
			already = already || k == idx
		}
		if idx < 0 || already {
			// died outside a case (start-up, checkpointing) or before reaching a new one
			outsideDeaths++
			if outsideDeaths >= 3 {
				c.Inconclusive("decoder %s: worker died outside a case: %s", d.name, c02Tail(stderr, 600))
				return
			}
			continue
		}
		ver, _ := strconv.Atoi(cur[1])
		what, hexIn := cur[2], cur[4]
		ln, _ := strconv.Atoi(cur[3])
		spec.Dead = append(spec.Dead, idx)
		wt := map[string]interface{}{"decoder": d.name, "payload_version": ver, "mutation": what, "len": ln,
			"input_hex": c02Tail(hexIn, 8192), "bound_bytes": c02Bound(ln), "case_index": idx}
		var ab struct {
			Kind   string `json:"kind"`
			Site   string `json:"site"`
			Growth uint64 `json:"heap_growth"`
		}
		if b, err := os.ReadFile(filepath.Join(dir, "abort.json")); err == nil && json.Unmarshal(b, &ab) == nil && ab.Kind != "" {
			if ab.Kind == "case-timeout" {
				c.Inc("cases_timed_out")
				c.Note("decoder %s: case %d [%s] used more than %v of CPU without tripping the allocation monitor; skipped (input %s)", d.name, idx, what, c02CaseTimeout, c02Tail(hexIn, 400))
				continue
			}
			c.Inc("worker_aborts_heap_guard")
			c.Inc("site:alloc:" + ab.Site)
			wt["alloc_counter_at_abort"] = ab.Growth
			c.Violate("alloc:"+ab.Site, fmt.Sprintf("decoder %s allocated more than max(%d MiB, 4*bound) on a %d-byte input (bound %d bytes) at %s [%s]; worker stopped by the heap guard",
				d.name, c02HeapGuardB>>20, ln, c02Bound(ln), ab.Site, what), wt)
			continue
		}
		sig, first := c02DeathSig(stderr)
		c.Inc("worker_deaths")
		c.Inc("site:" + sig)
		wt["stderr_head"] = c02Tail(stderr, 1200)
		c.Violate(sig, fmt.Sprintf("decoder %s killed its process on a %d-byte input [%s]: %s", d.name, ln, what, first), wt)
	}
}

func c02Merge(c *kit.Ctx, a *c02Acc) {
	keys := make([]string, 0, len(a.Counters))
	for k := range a.Counters {
		keys = append(keys, k)
	}
	sort.Strings(keys)
	for _, k := range keys {
		if strings.HasPrefix(k, "max:") {
			c.Max(k, a.Counters[k])
		} else {
			c.Count(k, a.Counters[k])
		}
	}
	dk := make([]string, 0, len(a.Distinct))
	for k := range a.Distinct {
		dk = append(dk, k)
	}
	sort.Strings(dk)
	for _, k := range dk {
		c.Case(k, a.Distinct[k])
	}
	for _, s := range a.Samples {
		c.Sample(s)
	}
	for _, n := range a.Notes {
		c.Note("%s", n)
	}
	for _, v := range a.Violations {
		c.Violate(v.Sig, v.Detail, v.Case)
	}
}

func c02Post(a *kit.Agg) {
	if v := a.Counters["max:calib_8x_honest_alloc_over_bound_permille"]; v > 1000 {
		a.Inconclusive("calibration: an honest input allocated more than 1/8 of the bound (8*alloc/bound = %d permille); the bound is too tight to be trusted", v)
	}
	if n := a.Counters["decoders_without_honest_template"]; n > 0 {
		a.Inconclusive("%d decoder(s) had no honest template (see notes)", n)
	}
	if t, n := a.Counters["cases_timed_out"], a.Counters["evaluations"]; t*1000 > n {
		a.Inconclusive("%d of %d cases timed out (more than 0.1%%)", t, n)
	}
}

package props

import (
	"bytes"
	"fmt"
	"math"
	"reflect"
	"strings"

	"github.com/elastos/Elastos.ELA/auxpow"
	"github.com/elastos/Elastos.ELA/common"
	"github.com/elastos/Elastos.ELA/common/config"
	"github.com/elastos/Elastos.ELA/core"
	"github.com/elastos/Elastos.ELA/core/contract"
	pg "github.com/elastos/Elastos.ELA/core/contract/program"
	"github.com/elastos/Elastos.ELA/core/types"
	common2 "github.com/elastos/Elastos.ELA/core/types/common"
	"github.com/elastos/Elastos.ELA/core/types/interfaces"
	"github.com/elastos/Elastos.ELA/core/types/outputpayload"
	"github.com/elastos/Elastos.ELA/core/types/payload"
	"github.com/elastos/Elastos.ELA/crypto"
	elaerr "github.com/elastos/Elastos.ELA/errors"

	"verif/kit/node"
)

// ---------------------------------------------------------------------------
// Part B: live node
// ---------------------------------------------------------------------------

// c03UTXO is an output the workload may reference (it is never really spent by
// a hostile transaction unless the node accepts it; liveness is re-checked).
type c03UTXO struct {
	Kind  string // std | schnorr | xaddr | multisig | crafted
	Ref   common2.OutPoint
	Value common.Fixed64
	Owner int    // harness key index (std)
	Code  []byte // redeem script that hashes to the address (schnorr / multisig / crafted)
}

type c03Node struct {
	fundHash common.Uint256
	nd       *node.Node
	utxos    map[string][]*c03UTXO
	regime   int
}

var c03Regimes = []string{"R0-regnet-default", "R1-dpos-era-heights", "R2-all-finite-heights", "R3-all-heights-incl-crosschain-restriction"}

// setRegime lowers activation heights of the running node's parameters.
func c03SetRegime(cfg *config.Configuration, regime int, tip uint32) []string {
	var changed []string
	if regime == 0 {
		return changed
	}
	skip := map[string]bool{"MemoryPoolTxMaximumStayHeight": true, "HistoryStartHeight": true, "CheckRewardHeight": true,
		"HalvingRewardHeight": true, "NewELAIssuanceHeight": true, "CheckAddressHeight": true, "VoteStatisticsHeight": true}
	var walk func(v reflect.Value)
	walk = func(v reflect.Value) {
		for i := 0; i < v.NumField(); i++ {
			f := v.Field(i)
			name := v.Type().Field(i).Name
			switch f.Kind() {
			case reflect.Struct:
				walk(f)
			case reflect.Ptr:
				if !f.IsNil() && f.Elem().Kind() == reflect.Struct && strings.HasSuffix(f.Type().Elem().Name(), "Configuration") {
					walk(f.Elem())
				}
			case reflect.Uint32:
				if !strings.HasSuffix(name, "Height") || skip[name] || !f.CanSet() {
					continue
				}
				cur := uint32(f.Uint())
				if cur <= tip {
					continue
				}
				cross := strings.HasPrefix(name, "CrossChainUTXO")
				set := false
				switch regime {
				case 1:
					set = cur < 870000 && !cross
				case 2:
					set = cur != math.MaxUint32 && !cross
				case 3:
					set = true
				}
				if set {
					f.SetUint(1)
					changed = append(changed, name)
				}
			}
		}
	}
	walk(reflect.ValueOf(cfg).Elem())
	return changed
}

func (x *c03Run) partB() {
	c, g := x.c, x.g
	nd, err := node.Start(node.Options{Dir: c.WorkDir, CoinbaseMaturity: 2})
	if err != nil {
		c.Inconclusive("node start: %v", err)
		return
	}
	defer nd.Close()
	n := &c03Node{nd: nd, utxos: map[string][]*c03UTXO{}, regime: c.Shard % len(c03Regimes)}
	if err := nd.MineN(int(nd.Cfg.PowConfiguration.CoinbaseMaturity) + 1); err != nil {
		c.Inconclusive("mining: %v", err)
		return
	}

	// ---- funding: real UTXOs at every kind of address ----
	gu := nd.GenesisUTXO()
	per := common.Fixed64(100 * 1e8)
	var outs []node.Out
	type plan struct {
		kind  string
		owner int
		code  []byte
		ph    common.Uint168
	}
	var plans []plan
	for k := 0; k < 36; k++ {
		o := 2 + k%6
		plans = append(plans, plan{"std", o, node.Key(o).RedeemScript, node.Key(o).ProgramHash})
	}
	pk8, _ := node.Key(8).PublicKey.EncodePoint(true)
	schCode := append([]byte{0x51, 33}, pk8...)
	for k := 0; k < 3; k++ {
		plans = append(plans, plan{"schnorr", 8, schCode, c03ProgramHash(byte(contract.PrefixStandard), schCode)})
	}
	// Schnorr-script addresses whose key is a non-canonical x >= P that decompresses (and a few other hostile classes)
	for k := 0; k < 4; k++ {
		hc := c03SchnorrCode(c03Key33(byte(2+k%2), g.nonCanonical(true)))
		plans = append(plans, plan{"schnorrbad", -1, hc, c03ProgramHash(byte(contract.PrefixStandard), hc)})
	}
	for _, hk := range [][]byte{c03Key33(2, c03P), c03Key33(3, g.offCurve()), c03Key33(2, g.nonCanonical(false))} {
		hc := c03SchnorrCode(hk)
		plans = append(plans, plan{"schnorrbad", -1, hc, c03ProgramHash(byte(contract.PrefixStandard), hc)})
	}
	xCode := contract.CreateCrossChainRedeemScript(nd.Cfg.GenesisBlock.Hash())
	for k := 0; k < 3; k++ {
		plans = append(plans, plan{"xaddr", -1, xCode, c03ProgramHash(byte(contract.PrefixCrossChain), xCode)})
	}
	mcode, _ := contract.CreateMultiSigRedeemScript(2, []*crypto.PublicKey{node.Key(4).PublicKey, node.Key(5).PublicKey, node.Key(6).PublicKey})
	for k := 0; k < 3; k++ {
		plans = append(plans, plan{"multisig", -1, mcode, c03ProgramHash(byte(contract.PrefixMultiSig), mcode)})
	}
	// crafted scripts (>= MinProgramCodeSize so they pass the generic program sanity) at standard and multisig prefixes
	var crafted [][]byte
	crafted = append(crafted, append(append([]byte{1, 1, 33}, pk8...), 0x51)) // 37 bytes: 1-byte-form m, one key, n as last byte
	for tries := 0; len(crafted) < 10 && tries < 4000; tries++ {
		cd := g.code()
		if len(cd) >= pg.MinProgramCodeSize && (len(crafted) < 6 || safeIsMultiSig(cd) == "panic") {
			crafted = append(crafted, cd)
		}
	}
	for i, cd := range crafted {
		pf := byte(contract.PrefixStandard)
		if i%3 == 2 {
			pf = byte(contract.PrefixMultiSig)
		}
		plans = append(plans, plan{"crafted", -1, cd, c03ProgramHash(pf, cd)})
	}
	for _, p := range plans {
		outs = append(outs, node.Out{To: p.ph, Value: per})
	}
	outs = append(outs, node.Out{To: nd.Found.ProgramHash, Value: gu.Value - per*common.Fixed64(len(outs)) - 10000})
	fund := node.Transfer([]node.UTXORef{gu}, outs, common2.TxVersion09)
	if err := nd.TxPool.AppendToTxPool(fund); err != nil {
		c.Inconclusive("funding tx rejected: %v", err)
		return
	}
	if _, err := nd.MineTip(fund); err != nil {
		c.Inconclusive("funding block rejected: %v", err)
		return
	}
	nd.MineN(3)
	for i, p := range plans {
		n.utxos[p.kind] = append(n.utxos[p.kind], &c03UTXO{Kind: p.kind, Ref: common2.OutPoint{TxID: fund.Hash(), Index: uint16(i)}, Value: per, Owner: p.owner, Code: p.code})
		x.f.phs = append(x.f.phs, p.ph)
	}
	x.f.hashes = append(x.f.hashes, fund.Hash(), nd.Tip(), nd.Cfg.GenesisBlock.Hash())
	x.f.phs = append(x.f.phs, nd.Found.ProgramHash)
	n.fundHash = fund.Hash()
	c.Count("B_funded_utxos", int64(len(plans)))

	// ---- positive controls: an honest transfer through the pool and a block through ProcessBlock ----
	{
		u := n.utxos["std"][0]
		tx := node.Transfer([]node.UTXORef{{TxID: u.Ref.TxID, Index: u.Ref.Index, Value: u.Value, Owner: node.Key(u.Owner)}},
			[]node.Out{{To: node.Key(3).ProgramHash, Value: u.Value - 10000}}, common2.TxVersion09)
		raw := c03TxBytes(tx)
		dtx, ok := c03DecodeTx(raw)
		var perr elaerr.ELAError
		if ok {
			x.call("TxPool.AppendToTxPool", "honest", nil, func() { perr = nd.TxPool.AppendToTxPool(dtx) })
		}
		if ok && perr == nil {
			c.Inc("B_honest_pool_accept")
		} else {
			c.Violate("control:honest-transfer-rejected", fmt.Sprint(perr), nil)
		}
		b, err := nd.Assemble(node.BlockSpec{Txs: []interfaces.Transaction{dtx}, Fees: 10000})
		if err == nil {
			db, _, ok := c03BlockRoundTrip(b)
			h0 := nd.Height()
			if ok {
				x.call("BlockChain.ProcessBlock", "honest", nil, func() { nd.Chain.ProcessBlock(db, nil) })
			}
			if nd.Height() == h0+1 {
				c.Inc("B_honest_block_accept")
				nd.PostBlock(db)
			} else {
				c.Violate("control:honest-block-rejected", "honest block with one transfer not accepted", nil)
			}
		}
		n.utxos["std"] = n.utxos["std"][1:]
	}

	// ---- B1: hostile blocks (regnet default parameters) ----
	x.blocks(n, c.N(150, 2500))

	// ---- regime switch, then B2: transactions ----
	changed := c03SetRegime(nd.Cfg, n.regime, nd.Height())
	c.Inc("B_regime_" + c03Regimes[n.regime])
	c.Count("B_regime_heights_lowered", int64(len(changed)))
	x.txs(n, c.N(1400, 28000))

	// ---- B3: block sanity with hostile transactions under the regime's heights ----
	x.blockSanity(n, c.N(80, 1500))
}

func c03TxBytes(tx interfaces.Transaction) []byte {
	buf := new(bytes.Buffer)
	tx.Serialize(buf)
	return buf.Bytes()
}

func c03BlockRoundTrip(b *types.Block) (*types.Block, []byte, bool) {
	buf := new(bytes.Buffer)
	if err := b.Serialize(buf); err != nil {
		return nil, nil, false
	}
	raw := append([]byte{}, buf.Bytes()...)
	out := &types.Block{}
	if err := out.Deserialize(bytes.NewReader(raw)); err != nil {
		return nil, raw, false
	}
	return out, raw, true
}

// ---------------------------------------------------------------------------
// transactions
// ---------------------------------------------------------------------------

var c03EarlyCodes = map[elaerr.ErrCode]bool{elaerr.ErrTxHeightVersion: true, elaerr.ErrTxDuplicate: true,
	elaerr.ErrTxUnknownReferredTx: true, elaerr.ErrTxDoubleSpend: true, elaerr.ErrTxUTXOLocked: true}

func (n *c03Node) pick(r interface{ Intn(int) int }, kind string) *c03UTXO {
	l := n.utxos[kind]
	if len(l) == 0 {
		return nil
	}
	return l[r.Intn(len(l))]
}

// genTx generates one decodable transaction.
func (x *c03Run) genTx(n *c03Node, i int) (raw []byte, desc map[string]interface{}, ok bool) {
	g, r, f := x.g, x.g.r, x.f
	desc = map[string]interface{}{}
	t := allTxTypes[(i+x.c.Shard*7)%len(allTxTypes)]
	directed := ""
	if i%5 == 4 {
		directed = []string{"withdraw-v2-signers", "schnorr-short-param", "crafted-script", "mapping-output", "xaddr-hostile-code", "multisig-params", "return-deposit-address", "register-producer-multicode", "schnorr-hostile-key", "xaddr-schnorr-hostile-key"}[(i/5)%10]
	}
	pver := byte(r.Intn(6))
	if r.Intn(12) == 0 {
		pver = []byte{0xff, 0x7f, 6, 0x80}[r.Intn(4)]
	}
	ver := common2.TxVersion09
	if t <= 0x08 && r.Intn(3) == 0 {
		ver = common2.TxVersionDefault
	}
	// inputs
	kind := "std"
	switch r.Intn(12) {
	case 0:
		kind = "schnorr"
	case 1:
		kind = "xaddr"
	case 2:
		kind = "multisig"
	case 3:
		kind = "crafted"
	case 4:
		kind = "none"
	case 5:
		kind = "unknown"
	}
	switch directed {
	case "withdraw-v2-signers":
		t, pver, kind = common2.WithdrawFromSideChain, payload.WithdrawFromSideChainVersionV2, "xaddr"
	case "schnorr-short-param":
		t, pver, kind, ver = common2.TransferAsset, 0, "schnorr", common2.TxVersion09
	case "schnorr-hostile-key":
		t, pver, kind, ver = common2.TransferAsset, 0, "schnorrbad", common2.TxVersion09
	case "xaddr-schnorr-hostile-key":
		t, pver, kind, ver = common2.TransferAsset, 0, "xaddr", common2.TxVersion09
	case "crafted-script":
		t, pver, kind = common2.TransferAsset, 0, "crafted"
	case "mapping-output":
		t, pver, kind, ver = common2.TransferAsset, 0, "std", common2.TxVersion09
	case "xaddr-hostile-code":
		kind = "xaddr"
		if r.Intn(2) == 0 {
			t, pver = common2.TransferAsset, 0
		}
	case "multisig-params":
		t, pver, kind = common2.TransferAsset, 0, "multisig"
	case "register-producer-multicode":
		t, pver, ver, kind = common2.RegisterProducer, payload.ProducerInfoMultiVersion, common2.TxVersion09, "std"
	case "return-deposit-address":
		t, pver, ver = common2.ReturnSideChainDepositCoin, 0, common2.TxVersion09
		kind = []string{"std", "xaddr"}[r.Intn(2)]
	}
	desc["type"], desc["payload_version"], desc["input_kind"], desc["directed"] = t.Name(), pver, kind, directed
	var inputs []*common2.Input
	var us []*c03UTXO
	var inVal common.Fixed64
	switch kind {
	case "none":
	case "unknown":
		in := &common2.Input{}
		r.Read(in.Previous.TxID[:])
		in.Previous.Index = uint16(r.Intn(3))
		inputs = append(inputs, in)
	default:
		u := n.pick(r, kind)
		if u == nil {
			u = n.pick(r, "std")
		}
		us = append(us, u)
		if r.Intn(6) == 0 { // second input of another kind
			if u2 := n.pick(r, []string{"std", "schnorr", "xaddr", "multisig", "crafted", "schnorrbad"}[r.Intn(6)]); u2 != nil && u2 != u {
				us = append(us, u2)
			}
		}
		for _, u := range us {
			seq := uint32(0)
			if r.Intn(6) == 0 {
				seq = []uint32{math.MaxUint32, math.MaxUint32 - 1, math.MaxUint16}[r.Intn(3)]
			}
			inputs = append(inputs, &common2.Input{Previous: u.Ref, Sequence: seq})
			inVal += u.Value
		}
		if r.Intn(25) == 0 {
			inputs = append(inputs, inputs[0]) // duplicate input
		}
		if r.Intn(30) == 0 {
			inputs = append(inputs, &common2.Input{Previous: common2.OutPoint{Index: math.MaxUint16}, Sequence: math.MaxUint32}) // coinbase style input
		}
	}
	bare := directed == "" && r.Intn(6) == 0 // the shape of the node-generated "special" transactions
	if bare {
		inputs, us, inVal = nil, nil, 0
	}
	desc["bare"] = bare
	if t == common2.CoinBase {
		inputs = []*common2.Input{{Previous: common2.OutPoint{Index: math.MaxUint16}, Sequence: math.MaxUint32}}
	}
	// outputs
	var outputs []*common2.Output
	no := 1 + r.Intn(2)
	switch r.Intn(12) {
	case 0:
		no = 0
	case 1:
		no = 3 + r.Intn(3)
	}
	if bare && r.Intn(4) > 0 {
		no = 0
	}
	fee := common.Fixed64(10000 + r.Intn(1000))
	if t == common2.ActivateProducer || r.Intn(10) == 0 {
		fee = 0
	}
	rest := inVal - fee
	if rest < 0 {
		rest = common.Fixed64(r.Intn(1000)) * 100
	}
	for k := 0; k < no; k++ {
		v := rest
		if k < no-1 {
			v = common.Fixed64(r.Int63n(int64(rest)+1)) / 100 * 100
		}
		rest -= v
		plain := ver == common2.TxVersionDefault || r.Intn(5) > 0
		o := f.output(plain, v)
		if ver == common2.TxVersionDefault {
			o.Type, o.Payload = common2.OTNone, new(outputpayload.DefaultOutput)
		}
		outputs = append(outputs, o)
	}
	if directed == "mapping-output" {
		m := new(outputpayload.Mapping)
		f.fill(reflect.ValueOf(m).Elem(), "output", 0)
		switch r.Intn(4) {
		case 0:
			m.OwnerKey = g.rbytes(r.Intn(3))
		case 1:
			m.OwnerKey = g.code()
		}
		outputs = append(outputs, &common2.Output{AssetID: core.ELAAssetID, Value: 0, ProgramHash: node.Key(3).ProgramHash, Type: common2.OTMapping, Payload: m})
	}
	if directed == "return-deposit-address" {
		// refund output to the first-input owner of an existing transaction (the funding tx, paid by the foundation key)
		rp := &outputpayload.ReturnSideChainDeposit{Version: 0, GenesisBlockAddress: f.addressLike(), DepositTransactionHash: n.fundHash}
		if r.Intn(4) == 0 {
			rp.DepositTransactionHash = f.hash()
		}
		desc["genesis_block_address"] = rp.GenesisBlockAddress
		outputs = append(outputs, &common2.Output{AssetID: core.ELAAssetID, Value: 100, ProgramHash: n.nd.Found.ProgramHash, Type: common2.OTReturnSideChainDepositCoin, Payload: rp})
	}
	spec := c03TxSpec{Type: t, PVer: pver, Version: ver, Inputs: inputs, Outputs: outputs, Attrs: f.attrs(), LockTime: 0}
	if bare && r.Intn(4) > 0 {
		spec.Attrs = nil
	}
	if r.Intn(10) == 0 {
		spec.LockTime = uint32(f.uintFor("lock", 32))
	}
	tx1, _, ok1, why := f.buildTx(spec)
	if !ok1 {
		x.c.Inc("B_tx_gen_" + why)
		return nil, desc, false
	}
	if directed == "register-producer-multicode" {
		if pl, ok := tx1.Payload().(*payload.ProducerInfo); ok {
			pl.NickName, pl.Url = "nick"+fmt.Sprint(r.Intn(1000)), "http://a.b"
			switch r.Intn(4) {
			case 0:
				pl.OwnerKey = []byte{}
			case 1:
				pl.OwnerKey = g.rbytes(1 + r.Intn(3))
			case 2:
				pl.OwnerKey = g.code()
			}
			if r.Intn(2) == 0 {
				pl.NodePublicKey = g.key()
			}
			desc["owner_key"] = hx(pl.OwnerKey)
		}
	}
	if directed == "withdraw-v2-signers" {
		if pl, ok := tx1.Payload().(*payload.WithdrawFromSideChain); ok {
			ns := 9 + r.Intn(4)
			pl.Signers = make([]uint8, ns)
			arb := 5
			for k := range pl.Signers {
				switch r.Intn(4) {
				case 0:
					pl.Signers[k] = uint8(r.Intn(256))
				case 1:
					pl.Signers[k] = uint8(arb - 1 + r.Intn(3))
				default:
					pl.Signers[k] = uint8(r.Intn(arb))
				}
			}
			desc["signers"] = fmt.Sprint(pl.Signers)
		}
	}
	// programs, computed over the decoded transaction
	var progs []*pg.Program
	mode := r.Intn(10)
	for _, u := range us {
		switch u.Kind {
		case "std":
			if mode < 6 {
				progs = append(progs, c03SignStd(tx1, u.Owner)...)
			} else if mode < 8 {
				progs = append(progs, &pg.Program{Code: node.Key(u.Owner).RedeemScript, Parameter: g.param()})
			} else {
				progs = append(progs, &pg.Program{Code: g.code(), Parameter: g.param()})
			}
		case "schnorr":
			p := g.param()
			if directed != "" || r.Intn(2) == 0 {
				p = g.rbytes([]int{0, 1, 32, 63, 64, 65}[r.Intn(6)])
			}
			progs = append(progs, &pg.Program{Code: u.Code, Parameter: p})
		case "schnorrbad":
			p := g.sig64()
			if r.Intn(6) == 0 {
				p = append([]byte{0x40}, p...)
			}
			progs = append(progs, &pg.Program{Code: u.Code, Parameter: p})
		case "xaddr":
			if directed == "xaddr-schnorr-hostile-key" { // cross-chain prefix: no code-hash match needed
				progs = append(progs, &pg.Program{Code: c03SchnorrCode(g.hostileKey()), Parameter: g.sig64()})
				continue
			}
			cd := g.code()
			if r.Intn(3) == 0 {
				cd = u.Code
			}
			if t == common2.WithdrawFromSideChain && r.Intn(2) == 0 {
				cd = append([]byte{0x51, 33}, g.key()...)
			}
			progs = append(progs, &pg.Program{Code: cd, Parameter: g.param()})
		case "multisig":
			var p []byte
			buf := new(bytes.Buffer)
			tx1.SerializeUnsigned(buf)
			for _, k := range []int{4, 5, 6}[:1+r.Intn(3)] {
				s, _ := crypto.Sign(node.Key(k).PrivKey(), buf.Bytes())
				p = append(p, byte(len(s)))
				p = append(p, s...)
			}
			if r.Intn(3) == 0 {
				p = g.param()
			}
			progs = append(progs, &pg.Program{Code: u.Code, Parameter: p})
		case "crafted":
			progs = append(progs, &pg.Program{Code: u.Code, Parameter: g.param()})
		}
	}
	switch r.Intn(14) {
	case 0:
		progs = nil
	case 1:
		progs = append(progs, &pg.Program{Code: g.code(), Parameter: g.param()})
	}
	if len(us) == 0 && r.Intn(2) == 0 && !(bare && r.Intn(4) > 0) {
		progs = append(progs, &pg.Program{Code: g.code(), Parameter: g.param()})
	}
	tx1.SetPrograms(progs)
	raw = append([]byte{}, c03TxBytes(tx1)...)
	if _, ok := c03DecodeTx(raw); !ok {
		x.c.Inc("B_tx_gen_not-decodable-after-programs")
		return raw, desc, false
	}
	return raw, desc, true
}

func (x *c03Run) txs(n *c03Node, count int) {
	c, r, nd := x.c, x.g.r, n.nd
	sanityPass := map[common2.TxType]bool{}
	specialReached := map[common2.TxType]bool{}
	decodedTypes := map[string]bool{}
	cfg := nd.Cfg
	otherHeights := []uint32{0, 1, 2, 1000, cfg.VoteStartHeight, cfg.CRCOnlyDPOSHeight, cfg.PublicDPOSHeight, cfg.CRConfiguration.CRVotingStartHeight,
		cfg.CRConfiguration.CRCommitteeStartHeight, cfg.CRConfiguration.CRClaimDPOSNodeStartHeight, cfg.DPoSV2StartHeight, cfg.DPoSV2StartHeight + 10000,
		cfg.SchnorrStartHeight + 1, cfg.NewCrossChainStartHeight + 1, 2000000, math.MaxUint32 - 1, math.MaxUint32}
	regime := c03Regimes[n.regime]
	for i := 0; i < count; i++ {
		raw, desc, ok := x.genTx(n, i)
		if !ok {
			continue
		}
		c.Inc("B_tx_decoded")
		desc["regime"] = regime
		desc["tx_hex"] = ""
		obj := func() map[string]interface{} {
			desc["tx_hex"] = hx(raw)
			return desc
		}
		tip := nd.Height()
		id := hx(raw)
		// (1) sanity then context at the mempool height, like the node
		tx, _ := c03DecodeTx(raw)
		decodedTypes[fmt.Sprintf("%d/%d", tx.TxType(), tx.PayloadVersion())] = true
		var serr elaerr.ELAError
		sp := x.call("BlockChain.CheckTransactionSanity", id, obj, func() { serr = nd.Chain.CheckTransactionSanity(tip+1, tx) })
		reached := false
		if !sp && serr == nil {
			c.Inc("B_tx_sanity_pass")
			if d, _ := desc["directed"].(string); d == "schnorr-hostile-key" || d == "xaddr-schnorr-hostile-key" {
				c.Inc("B_hostile_key_txs_sanity_pass") // only where NormalSchnorrStartHeight has passed (R2, R3)
			}
			sanityPass[tx.TxType()] = true
			if !tx.IsCoinBaseTx() { // the node never runs the context check on a coinbase through this path
				var cerr elaerr.ELAError
				c.Inc("B_tx_context_calls")
				cp := x.call("BlockChain.CheckTransactionContext", id, obj, func() { _, cerr = nd.Chain.CheckTransactionContext(tip+1, tx, 0, 0) })
				if cp || cerr == nil || !c03EarlyCodes[cerr.Code()] {
					reached = true
					c.Inc("B_tx_context_past_generic_gates")
					specialReached[tx.TxType()] = true
				}
				if !cp && cerr == nil {
					c.Inc("B_tx_context_pass")
				}
			}
		} else if !sp {
			c.Inc(fmt.Sprintf("B_tx_sanity_reject_code_%d", serr.Code()))
		}
		c.Case("B2:"+regime+":"+id, reached || (serr == nil && !sp))
		// (2) sanity at another height (reachable through a block header's height field)
		oh := otherHeights[r.Intn(len(otherHeights))]
		tx2, _ := c03DecodeTx(raw)
		desc2 := func() map[string]interface{} { o := obj(); o["sanity_height"] = oh; return o }
		x.call("BlockChain.CheckTransactionSanity", id, desc2, func() { nd.Chain.CheckTransactionSanity(oh, tx2) })
		// (3) the mempool entry point
		tx3, _ := c03DecodeTx(raw)
		var perr elaerr.ELAError
		c.Inc("B_pool_calls")
		pp := x.call("TxPool.AppendToTxPool", id, obj, func() { perr = nd.TxPool.AppendToTxPool(tx3) })
		if !pp && perr == nil {
			c.Inc("B_pool_accepted_generated")
			nd.TxPool.CleanSubmittedTransactions(&types.Block{Transactions: []interfaces.Transaction{tx3}})
		}
		if i < 3 {
			c.Sample(map[string]interface{}{"kind": "B2", "regime": regime, "desc": desc, "tx_len": len(raw), "sanity_ok": serr == nil, "pool_ok": perr == nil})
		}
	}
	c.Count("B_tx_types_sanity_pass", int64(len(sanityPass)))
	c.Count("B_special_context_reached", int64(len(specialReached)))
	c.Max("max:B_tx_type_versions_decoded_per_shard", int64(len(decodedTypes)))
	for t := range sanityPass {
		c.Inc("B_sanity_pass_type_" + t.Name())
	}
	for t := range specialReached {
		c.Inc("B_context_reached_type_" + t.Name())
	}
}

// ---------------------------------------------------------------------------
// blocks
// ---------------------------------------------------------------------------

func (x *c03Run) coinbaseWithOutputs(n *c03Node, height uint32, k int, total common.Fixed64) interfaces.Transaction {
	r := x.g.r
	cb := n.nd.CoinbaseTx(n.nd.Miner.Address, height, r.Uint64()|1)
	var outs []*common2.Output
	left := total
	for i := 0; i < k; i++ {
		v := left
		if i == 0 {
			v = common.Fixed64(math.Ceil(float64(total) * 0.3))
			if k == 1 {
				v = total
			}
		} else if i < k-1 {
			v = common.Fixed64(r.Int63n(int64(left) + 1))
		}
		left -= v
		ph := *n.nd.Cfg.FoundationProgramHash
		if i > 0 {
			ph = n.nd.Miner.ProgramHash
		}
		if r.Intn(8) == 0 {
			ph = x.f.programHash()
		}
		outs = append(outs, &common2.Output{AssetID: core.ELAAssetID, Value: v, ProgramHash: ph, Type: common2.OTNone, Payload: &outputpayload.DefaultOutput{}})
	}
	cb.SetOutputs(outs)
	return cb
}

// hostileBlock assembles one hostile block on the tip.
func (x *c03Run) hostileBlock(n *c03Node, i int) (*types.Block, map[string]interface{}) {
	g, r, nd := x.g, x.g.r, n.nd
	info := map[string]interface{}{}
	parent := nd.TipBlock()
	h := parent.Height + 1
	kind := []string{"auxpow", "auxpow", "coinbase-outputs", "header-height", "tx-shape", "hostile-txs", "orphan", "header-fields", "hostile-txs", "hostile-txs"}[i%10]
	info["kind"] = kind
	reward := nd.Cfg.GetBlockReward(h)
	var txs []interfaces.Transaction
	cbOuts := 2
	if kind == "coinbase-outputs" {
		cbOuts = r.Intn(5)
	}
	info["coinbase_outputs"] = cbOuts
	txs = append(txs, x.coinbaseWithOutputs(n, h, cbOuts, reward))
	switch kind {
	case "tx-shape":
		switch r.Intn(4) {
		case 0:
			txs = nil
		case 1:
			txs = append(txs, x.coinbaseWithOutputs(n, h, 2, reward))
		case 2: // first tx not a coinbase
			if raw, _, ok := x.genTx(n, r.Intn(1000)); ok {
				t, _ := c03DecodeTx(raw)
				txs = []interfaces.Transaction{t}
			}
		case 3: // duplicate tx
			if raw, _, ok := x.genTx(n, r.Intn(1000)); ok {
				t1, _ := c03DecodeTx(raw)
				t2, _ := c03DecodeTx(raw)
				txs = append(txs, t1, t2)
			}
		}
	case "hostile-txs":
		for k := 1 + r.Intn(2)*r.Intn(3); k > 0; k-- {
			// mostly directed transactions, so that every (block entry point x transaction defect) pair shows up in every run
			ti := r.Intn(100000)
			if r.Intn(4) > 0 {
				ti = 5*r.Intn(20000) + 4
			}
			if raw, _, ok := x.genTx(n, ti); ok {
				t, _ := c03DecodeTx(raw)
				txs = append(txs, t)
			}
		}
	}
	info["tx_count"] = len(txs)
	blk := &types.Block{Header: common2.Header{Version: 0, Previous: parent.Hash(), Timestamp: parent.Timestamp + 1,
		Bits: nd.Cfg.PowConfiguration.PowLimitBits, Height: h}, Transactions: txs}
	switch kind {
	case "header-height":
		hs := []uint32{0, 1, h - 1, h + 1, nd.Cfg.PublicDPOSHeight, nd.Cfg.CRConfiguration.CRCommitteeStartHeight, nd.Cfg.DPoSV2StartHeight + 5000, nd.Cfg.SchnorrStartHeight + 1, math.MaxUint32}
		blk.Header.Height = hs[r.Intn(len(hs))]
		info["header_height"] = blk.Header.Height
	case "orphan":
		r.Read(blk.Header.Previous[:])
	case "header-fields":
		switch r.Intn(4) {
		case 0:
			blk.Header.Timestamp = []uint32{0, 1, math.MaxUint32, parent.Timestamp}[r.Intn(4)]
		case 1:
			blk.Header.Bits = []uint32{0, 0x00800000, 0xffffffff, 0x1d00ffff, 0x2100ffff}[r.Intn(5)]
		case 2:
			blk.Header.Version = r.Uint32()
		case 3:
			blk.Header.Nonce = r.Uint32()
		}
	}
	if len(txs) > 0 {
		node.Seal(blk, false)
	}
	if r.Intn(15) == 0 {
		r.Read(blk.Header.MerkleRoot[:])
	}
	if kind == "auxpow" || r.Intn(8) == 0 {
		ap, ai := g.auxPow(blk.Hash())
		blk.Header.AuxPow = *ap
		info["auxpow"] = ai
	} else if blk.Header.Bits == nd.Cfg.PowConfiguration.PowLimitBits {
		node.Solve(blk)
	} else { // impractical / invalid target: attach an unsolved but well-formed proof
		ap := auxpow.GenerateAuxPow(blk.Hash())
		ap.ParBlockHeader.Timestamp = 1600000000
		blk.Header.AuxPow = *ap
	}
	return blk, info
}

func (x *c03Run) blocks(n *c03Node, count int) {
	c, r, nd := x.c, x.g.r, n.nd
	for i := 0; i < count; i++ {
		blk, info := x.hostileBlock(n, i)
		db, raw, ok := c03BlockRoundTrip(blk)
		if !ok {
			c.Inc("B_block_not_decodable")
			continue
		}
		c.Inc("B_block_decoded")
		id := hx(raw)
		obj := func() map[string]interface{} { info["block_hex"] = hx(raw); return info }
		c.Inc("B_block_sanity_calls")
		var serr error
		sp := x.call("BlockChain.CheckBlockSanity", id, obj, func() { serr = nd.Chain.CheckBlockSanity(db) })
		if !sp && serr == nil {
			c.Inc("B_block_sanity_pass")
		}
		c.Case("B1:"+id, len(db.Transactions) > 0)
		db2, _, _ := c03BlockRoundTrip(blk)
		var confirm *payload.Confirm
		if r.Intn(6) == 0 {
			cf := &payload.Confirm{}
			x.f.fill(reflect.ValueOf(cf).Elem(), "", 0)
			if r.Intn(2) == 0 {
				cf.Proposal.BlockHash = db2.Hash()
			}
			buf := new(bytes.Buffer)
			if cf.Serialize(buf) == nil {
				cf2 := &payload.Confirm{}
				if cf2.Deserialize(bytes.NewReader(buf.Bytes())) == nil {
					confirm = cf2
					info["with_confirm"] = true
					c.Inc("B_processblock_with_confirm")
				}
			}
		}
		h0 := nd.Height()
		c.Inc("B_processblock_calls")
		var perr error
		pp := x.call("BlockChain.ProcessBlock", id, obj, func() { _, _, perr = nd.Chain.ProcessBlock(db2, confirm) })
		if !pp && perr == nil {
			c.Inc("B_processblock_noerror")
		}
		if nd.Height() != h0 {
			c.Inc("B_hostile_block_extended_chain")
			nd.PostBlock(db2)
		}
		x.addDposBlock(n, blk, confirm, id, obj)
		if i < 2 {
			c.Sample(map[string]interface{}{"kind": "B1", "info": info, "block_len": len(raw), "sanity_ok": serr == nil, "process_err": fmt.Sprint(perr)})
		}
	}
}

// addDposBlock feeds the block to the p2p entry point (netsync hands every
// received block to BlockPool.AddDposBlock), re-decoded as a DposBlock.
func (x *c03Run) addDposBlock(n *c03Node, blk *types.Block, confirm *payload.Confirm, id string, obj func() map[string]interface{}) {
	c, nd := x.c, n.nd
	d := &types.DposBlock{Block: blk, HaveConfirm: confirm != nil, Confirm: confirm}
	buf := new(bytes.Buffer)
	if d.Serialize(buf) != nil {
		return
	}
	d2 := &types.DposBlock{}
	if d2.Deserialize(bytes.NewReader(buf.Bytes())) != nil {
		c.Inc("B_dposblock_not_decodable")
		return
	}
	h0 := nd.Height()
	c.Inc("B_adddposblock_calls")
	x.call("BlockPool.AddDposBlock", id, obj, func() { nd.BlockPool.AddDposBlock(d2) })
	if nd.Height() != h0 {
		c.Inc("B_hostile_block_extended_chain")
		nd.PostBlock(d2.Block)
	}
}

// blockSanity: CheckBlockSanity only (state independent apart from the
// parameters), under the regime's activation heights, with hostile txs.
func (x *c03Run) blockSanity(n *c03Node, count int) {
	c, nd := x.c, n.nd
	for i := 0; i < count; i++ {
		blk, info := x.hostileBlock(n, i*10+[]int{2, 3, 4, 5, 8}[i%5])
		info["regime"] = c03Regimes[n.regime]
		db, raw, ok := c03BlockRoundTrip(blk)
		if !ok {
			c.Inc("B_block_not_decodable")
			continue
		}
		id := hx(raw)
		obj := func() map[string]interface{} { info["block_hex"] = hx(raw); return info }
		c.Inc("B_block_sanity_calls")
		c.Case("B3:"+c03Regimes[n.regime]+":"+id, len(db.Transactions) > 0)
		var serr error
		sp := x.call("BlockChain.CheckBlockSanity", id, obj, func() { serr = nd.Chain.CheckBlockSanity(db) })
		if !sp && serr == nil {
			c.Inc("B_block_sanity_pass")
		}
		x.addDposBlock(n, blk, nil, id, obj)
	}
}

package props

import (
	"fmt"
	"math/rand"
	"os"
	"path/filepath"
	"runtime"
	"runtime/debug"
	"sort"
	"strings"

	"github.com/elastos/Elastos.ELA/core/types/interfaces"
	"github.com/elastos/Elastos.ELA/dpos/state"

	"verif/kit"
)

// C21 - DPoS state after a rollback equals the state built directly.
//
// Level 1 (this file + c21_inst.go, c21_gen.go, c21_diff.go): state-level
// driver. Level 2 (full-node reorganisations against a linear twin) is meant
// to be added as a second workload of the same Spec: see runC21.

func init() {
	kit.Register(&kit.Spec{
		ID: "C21",
		Rule: "a case = one (history, tip height H, rollback target h) comparison. Histories: seeded block sequences over 10 producer owners (4 alternative node keys each), 4 voter and 3 stake addresses, 2-3 CR members, " +
			"compressed era schedule (5 profiles: all eras / long pre-DPoS / long public DPoS / long new-CR / long DPoS v2; plus one 720+ block history per shard with checkpoint saving), transactions drawn so that the preconditions of real validation hold against the live state. " +
			"distinct = distinct (history seed, H, h); non-trivial = the blocks being rolled back contain at least one DPoS-relevant transaction or change the arbiter sets",
		Shards: func(tier string) int { return 8 },
		Run:    runC21,
		Require: []string{"histories", "blocks_processed", "rollback_compares", "rollback_compares_equal", "reorg_rollbacks", "reorg_same_blocks", "reorg_new_blocks",
			"forward_checks", "forward_checks_equal", "descent_steps", "replay_determinism_checks", "pow_cycle_completed", "pow_cycle_descents_across_rebase", "inactive_producer_cancelled_then_rolled_back", "special_payload_on_producer_changed_by_tip_then_rolled_back",
			"tx_register_v1", "tx_register_v2", "tx_update", "tx_cancel", "tx_activate", "tx_vote_v1", "tx_cancel_vote_v1", "tx_deposit_topup", "tx_return_deposit",
			"tx_exchange_votes", "tx_voting", "tx_voting_renewal", "tx_return_votes", "tx_illegal", "tx_revert_to_pow", "tx_revert_to_dpos", "tx_next_turn_dpos_info",
			"blocks_with_confirm", "blocks_without_confirm", "blocks_in_pow_mode", "era_public_dpos", "era_new_cr", "era_dposv2_start", "histories_dposv2_active",
			// level 2 (full node)
			"l2_scenarios_ok", "l2_control_equal", "l2_prefix_equal", "l2_rollback_compares", "l2_rollforward_compares", "l2_reorgs_done", "l2_losing_blocks_mined", "l2_losing_txs_mined",
			"l2_canonical_committee_elected", "l2_canonical_dposv2_active", "l2_canonical_producer_became_inactive", "l2_canonical_blocks_with_confirm", "l2_save_boundary_scenarios"},
		Assumptions: []string{
			"the CR committee seen by the DPoS state is emulated by the driver as a pure function of the chain prefix (election status, members, claimed node keys); member fields written by the DPoS state itself are left to the code under test and compared",
			"transactions are generated so that the state preconditions of their SpecialContextCheck hold (read from the live state); signatures, fees and UTXO scripts are not produced because state-level processing never looks at them",
			"rollback depth is restricted to what State.IsIrreversible permits at the tip (what reorganizeChain can perform); deeper rollbacks are exercised too but their divergences are only counted (deepdiff:*), not reported as violations - EXCEPT for the irreversibility / consensus-mode bookkeeping (LastIrreversibleHeight, DPOSStartHeight, DPOSWorkHeight, RevertToPOWBlockHeight, ConsensusAlgorithm), which IsIrreversible is computed from and which is therefore judged at every depth within the history capacity",
			"rollbacks never cross VoteStartHeight (reorganizeChain does not call OnRollbackTo below it)",
		},
		TimeoutS: func(tier string) int {
			if tier == "thorough" {
				return 3000
			}
			return 600
		},
	})
}

// c21Bookkeeping: classes of the irreversibility / consensus-mode bookkeeping
// (named explicitly by the property statement).
var c21Bookkeeping = map[string]bool{
	"StateKeyFrame.LastIrreversibleHeight": true, "Getter.LastIrreversibleHeight": true,
	"StateKeyFrame.DPOSStartHeight": true, "StateKeyFrame.DPOSWorkHeight": true,
	"StateKeyFrame.RevertToPOWBlockHeight": true,
	"StateKeyFrame.ConsensusAlgorithm":     true, "Getter.ConsensusAlgorithm": true,
}

// the kit keeps at most 40 violations per shard: report every signature once
// per shard and count the repetitions.
var c21Seen = map[string]bool{}

// c21Violate records a violation once per signature. Level-2 (full node)
// signatures are folded onto the level-1 names so that one defect has one
// signature whichever workload observed it:
//   - "l2:rollback-diff:X" (state right after CkpManager.OnRollbackTo differs
//     from the state the node had at that height) is the property's literal
//     statement and is reported as "rollback-diff:X";
//   - divergences seen only later, at canonical heights after the reorganisation
//     ("l2:rollforward-diff:X") and the node refusing the winning chain
//     ("l2:node-stuck-after-reorg:...") are CONSEQUENCES of a rollback divergence
//     in the same scenario; they are counted ("l2_consequence|...") and written to
//     the notes, not reported a second time under a different name.
func c21Violate(c *kit.Ctx, sig, detail string, cas interface{}) {
	switch {
	case strings.HasPrefix(sig, "l2:rollback-diff:"):
		c.Inc("l2_reproduced|" + strings.TrimPrefix(sig, "l2:"))
		sig = strings.TrimPrefix(sig, "l2:")
	case sig == "l2:rollforward-diff:blocks-at-or-below-saved-checkpoint-height-skipped",
		sig == "l2:node-stuck-after-reorg-across-saved-checkpoint-height":
		c.Inc("l2_reproduced|rollforward-diff:blocks-at-or-below-saved-checkpoint-height-skipped")
		sig = "rollforward-diff:blocks-at-or-below-saved-checkpoint-height-skipped"
	case strings.HasPrefix(sig, "l2:rollforward-diff:"), strings.HasPrefix(sig, "l2:node-stuck-after-reorg"):
		c.Inc("l2_consequence|" + sig)
		if !c21Seen[sig] {
			c21Seen[sig] = true
			c.Note("level-2 consequence (not judged separately): %s: %s", sig, c21Trunc(detail, 300))
		}
		return
	}
	c.Inc("seen|" + sig)
	if c21Seen[sig] {
		return
	}
	c21Seen[sig] = true
	c.Violate(sig, detail, cas)
}

func c21Trunc(s string, n int) string {
	if len(s) > n {
		return s[:n]
	}
	return s
}

func runC21(c *kit.Ctx) {
	// the workload is single-threaded; several shards run side by side
	runtime.GOMAXPROCS(2)
	debug.SetGCPercent(300)
	c21StateLevel(c)
	c21ZeroEntryMu.Lock()
	for k, v := range c21ZeroEntry {
		c.Count("zero_entry_residue_not_judged:"+k, v)
	}
	c21ZeroEntryMu.Unlock()
	// level 2: full node reorganisation vs linear twin (c21_l2.go)
	c21NodeLevel(c)
}

func c21StateLevel(c *kit.Ctx) {
	r := c.Rand("c21-l1")
	n := c.N(5, 60)
	// checkpoint save boundary: one long history per shard (shards 0..3 quick)
	if c.Shard < c.N(3, 8) {
		seed := r.Int63()
		h := &c21Hist{c: c, seed: seed, profile: 0, idx: 1000, saveBoundary: true}
		c.Begin("save-boundary history shard=%d seed=%d", c.Shard, seed)
		if p, v, st := kit.Guard(h.run); p {
			h.panicked(v, st)
		}
		h.cleanup()
	}
	// evidence script: one scripted history per shard (own PRNG stream)
	{
		re := c.Rand("c21-l1-evidence")
		for k := 0; k < c.N(1, 4); k++ {
			seed := re.Int63()
			h := &c21Hist{c: c, seed: seed, profile: 3, idx: 3000 + k, evidence: true}
			c.Begin("evidence-script history shard=%d seed=%d", c.Shard, seed)
			if p, v, st := kit.Guard(h.run); p {
				h.panicked(v, st)
			}
			h.cleanup()
		}
	}
	// consensus-mode cycle: one scripted history per shard (its own PRNG stream,
	// so that the other histories are unchanged)
	{
		rc := c.Rand("c21-l1-powcycle")
		for k := 0; k < c.N(1, 4); k++ {
			seed := rc.Int63()
			h := &c21Hist{c: c, seed: seed, profile: 3, idx: 2000 + k, powCycle: true}
			c.Begin("pow-cycle history shard=%d seed=%d", c.Shard, seed)
			if p, v, st := kit.Guard(h.run); p {
				h.panicked(v, st)
			}
			h.cleanup()
		}
	}
	for i := 0; i < n; i++ {
		seed := r.Int63()
		profile := i % 5
		h := &c21Hist{c: c, seed: seed, profile: profile, idx: i}
		c.Begin("history shard=%d idx=%d seed=%d profile=%d", c.Shard, i, seed, profile)
		if p, v, st := kit.Guard(h.run); p {
			h.panicked(v, st)
		}
		h.cleanup()
	}
}

// panicked classifies a panic raised while a history ran. If a fresh instance
// that processes the same blocks linearly panics as well, the panic has
// nothing to do with rollback (it is recorded as a note and a counter); if the
// linear replay is fine, only the rolled-back instance panicked: violation.
func (h *c21Hist) panicked(v interface{}, st string) {
	c := h.c
	site := c21PanicSite(st)
	if site == "unknown" {
		c.Inconclusive("harness panic in history seed=%d: %v %v", h.seed, v, c21TrimStack(st))
		return
	}
	blocks := append([]*C21Block(nil), h.specs...)
	if h.pending != nil {
		blocks = append(blocks, h.pending)
	}
	linearPanics, _, st2 := kit.Guard(func() {
		in := h.newInst()
		for k := 1; k < len(blocks); k++ {
			if err := in.process(blocks[k]); err != nil {
				return
			}
		}
	})
	info := map[string]interface{}{"history_seed": fmt.Sprint(h.seed), "profile": h.profile, "stack": c21TrimStack(st), "sched": h.schedString(), "last_ops": h.lastOps(6)}
	if linearPanics && c21PanicSite(st2) == site {
		c.Inc("forward_panic:" + site)
		c.Note("panic while processing a generated history LINEARLY (not a rollback matter) seed=%d profile=%d at %s: %v; last blocks %v", h.seed, h.profile, site, v, h.lastOps(4))
		return
	}
	c21Violate(c, "rollback-panic:"+site, fmt.Sprintf("history seed=%d profile=%d: the rolled-back instance panics (%v) while a linear instance processes the same blocks", h.seed, h.profile, v), info)
}

type c21Hist struct {
	pending *C21Block // block being connected to R
	c       *kit.Ctx
	seed    int64
	profile int
	idx     int
	r       *rand.Rand
	w       *C21World
	s       *C21Sched
	g       *C21Gen
	dir     string
	R       *c21Inst
	specs   []*C21Block // specs[h]
	M       []*C21Model // M[h] = model after block h
	live    []*c21Inst
	rolled  bool // R has been rolled back at least once since it was last known pristine
	verbose bool
	// saveBoundary: long history with CheckPointConfiguration.NeedSave, one
	// reorganisation across the first saved checkpoint height (720)
	saveBoundary bool
	// powCycle: the history runs a scripted RevertToPOW -> POW blocks ->
	// RevertToDPOS -> DPOS cycle in the new-CR era and ends 8..11 blocks after
	// DPOS work resumed, so that the final stepwise descent crosses the block
	// on which the irreversible height is re-based and advances again
	// evidence: scripted history (new-CR era, nurtured) that (C) starves an
	// arbiter until it is Inactive, lets it cancel while Inactive and rolls
	// that block back; (D) registers a producer, and on the block that gives it
	// the 6th confirmation (Pending -> Active) hands an InactiveArbitrators
	// payload naming it to ProcessSpecialTxPayload on top of that tip, then
	// rolls the tip back - compared with the direct state AND with a control
	// twin that rolled the same block back without having seen the payload
	evidence  bool
	ev        c21EvScript
	powCycle  bool
	cycleDone bool
	// a block preceded by a special payload has been rolled back since R was
	// last pristine (its payload is remembered as "seen" by the instance)
	rolledSpecial bool
}

func (h *c21Hist) logf(format string, a ...interface{}) {
	if h.verbose {
		fmt.Printf(format+"\n", a...)
	}
}

func (h *c21Hist) schedString() string {
	if h.s == nil {
		return ""
	}
	return h.s.String()
}

func (h *c21Hist) lastOps(n int) []string {
	var out []string
	for i := len(h.specs) - n; i < len(h.specs); i++ {
		if i >= 1 && h.specs[i] != nil {
			out = append(out, fmt.Sprintf("h=%d confirm=%v %v", i, h.specs[i].Confirm != nil, h.specs[i].Ops))
		}
	}
	return out
}

func (h *c21Hist) cleanup() {
	for _, in := range h.live {
		in.close()
	}
	h.live = nil
	if h.dir != "" {
		os.RemoveAll(h.dir)
	}
}

func (h *c21Hist) newInst() *c21Inst {
	in, err := newC21Inst(h.w, h.s, h.dir)
	if err != nil {
		panic(err)
	}
	h.live = append(h.live, in)
	return in
}

func (h *c21Hist) drop(in *c21Inst) {
	in.close()
	for i, x := range h.live {
		if x == in {
			h.live = append(h.live[:i], h.live[i+1:]...)
			break
		}
	}
}

// replay builds a fresh instance that processes only blocks 1..upTo.
func (h *c21Hist) replay(upTo uint32, every func(in *c21Inst, height uint32)) *c21Inst {
	in := h.newInst()
	for k := uint32(1); k <= upTo; k++ {
		if err := in.process(h.specs[k]); err != nil {
			panic(fmt.Sprintf("replay: block %d rejected: %v", k, err))
		}
		h.c.Inc("blocks_processed")
		if every != nil {
			every(in, k)
		}
	}
	return in
}

func (h *c21Hist) opsBetween(lo, hi uint32) []string {
	var out []string
	for k := lo; k <= hi && int(k) < len(h.specs); k++ {
		if k >= 1 {
			b := h.specs[k]
			out = append(out, fmt.Sprintf("h=%d confirm=%v pre=%d %v", k, b.Confirm != nil, len(b.Pre), b.Ops))
		}
	}
	return out
}

// era names the rule set in force at height k (which inactivity counter and
// which election code run). Mainnet today is in "dposv2-active".
func (h *c21Hist) era(k uint32, in *c21Inst) string {
	s := h.s
	switch {
	case k < s.CRCOnly:
		return "pre-dpos"
	case k < s.PublicDPOS:
		return "crc-only"
	case k < s.CRClaim:
		return "public-dpos"
	case k < s.NewCR:
		return "cr-claim"
	case in != nil && k > in.arb.DPoSV2ActiveHeight:
		return "dposv2-active"
	case k < s.DPoSV2Start:
		return "new-cr"
	default:
		return "dposv2-start"
	}
}

func (h *c21Hist) prodLine(in *c21Inst) string {
	var sb strings.Builder
	for i := 0; i < c21Owners; i++ {
		k := h.w.OwnerKey(i)
		p := in.arb.GetProducerByOwnerPublicKey(k)
		if p == nil {
			continue
		}
		hk := fmt.Sprintf("%x", k)
		maps := ""
		for n, m := range map[string]map[string]*state.Producer{"P": in.arb.PendingProducers, "A": in.arb.ActivityProducers, "I": in.arb.InactiveProducers,
			"C": in.arb.CanceledProducers, "L": in.arb.IllegalProducers, "pc": in.arb.PendingCanceledProducers, "E": in.arb.DposV2EffectedProducers} {
			if _, ok := m[hk]; ok {
				maps += n
			}
		}
		fmt.Fprintf(&sb, "%s:%s/%v/%s ", hk[:6], p.State().String()[:3], p.Identity(), maps)
	}
	return sb.String()
}

func (h *c21Hist) specialAt(k uint32) bool {
	if int(k) >= len(h.specs) || k < 1 {
		return false
	}
	for _, p := range h.specs[k].Pre {
		if p.Kind == "special" {
			return true
		}
	}
	return false
}

func (h *c21Hist) nontrivial(lo, hi uint32) bool {
	for k := lo; k <= hi && int(k) < len(h.specs); k++ {
		if k >= 1 && len(h.specs[k].Ops) > 0 {
			return true
		}
	}
	return false
}

// report turns a diff list into violations / counters.
func (h *c21Hist) report(prefix string, ds []c21Diff, tip, target uint32, reachable bool, mode string, era string) {
	names, first := classesOf(ds)
	if h.verbose {
		h.logf("## %s%v tip=%d target=%d reachable=%v mode=%s", prefix, names, tip, target, reachable, mode)
		for i, x := range ds {
			if i < 30 {
				h.logf("     %s: %s | %s", x.Path, x.A, x.B)
			}
		}
		for _, l := range h.opsBetween(target+1, tip) {
			h.logf("     RB %s", l)
		}
	}
	// A payload handed to ProcessSpecialTxPayload before block target+1 was
	// connected (emergency inactive arbiters / illegal block evidence seen by
	// the DPoS manager) is recorded at height `target`: disconnecting block
	// target+1 keeps it, a node that never saw block target+1 does not have it.
	// That is off-chain input, not block-derived state: one signature for it.
	if special := h.specialAt(target+1) || (strings.HasPrefix(prefix, "rollforward") && h.rolledSpecial); special && reachable {
		sig := prefix + "offchain-special-payload"
		h.c.Inc("diffs_attributed_to_offchain_special_payload")
		c21Violate(h.c, sig, fmt.Sprintf("%s: tip H=%d target h=%d: block %d was preceded by ProcessSpecialTxPayload (forced arbiter change recorded at height %d); %d classes differ, e.g. %s",
			mode, tip, target, target+1, target, len(names), names[0]),
			map[string]interface{}{"history_seed": fmt.Sprint(h.seed), "profile": h.profile, "tip": tip, "target": target, "all_classes": names,
				"blocks_rolled_back": h.opsBetween(target+1, tip)})
		return
	}
	for _, cl := range names {
		permitted := "permitted by IsIrreversible"
		if !reachable {
			h.c.Inc("deepdiff:" + cl)
			// The irreversibility bookkeeping and the consensus mode are what
			// IsIrreversible itself is computed from: whether a depth is
			// "permitted" cannot be used to excuse a divergence in them (a too
			// high LastIrreversibleHeight makes the node refuse reorganisations a
			// correct node accepts). They are judged at every depth within the
			// history capacity, as the property states.
			if !c21Bookkeeping[cl] {
				continue
			}
			permitted = "deeper than IsIrreversible permits at this tip; bookkeeping fields are judged at every depth"
		}
		ex := first[cl]
		var sample []c21Diff
		for _, x := range ds {
			if x.Class == cl && len(sample) < 4 {
				sample = append(sample, x)
			}
		}
		lo := target + 1
		ctxLo := uint32(1)
		if target > 6 {
			ctxLo = target - 5
		}
		h.c.Inc("sigera|" + prefix + cl + "|" + era)
		c21Violate(h.c, prefix+cl,
			fmt.Sprintf("%s: era=%s tip H=%d rolled back to h=%d (depth %d, %s): %s rolled-back=%s direct=%s",
				mode, era, tip, target, tip-target, permitted, ex.Path, ex.A, ex.B),
			map[string]interface{}{"history_seed": fmt.Sprint(h.seed), "shard": h.c.Shard, "history_index": h.idx, "profile": h.profile, "sched": h.s.String(),
				"tip": tip, "target": target, "mode": mode, "era": era, "diffs_of_class": sample, "all_classes": names,
				"blocks_rolled_back": h.opsBetween(lo, tip), "blocks_before": h.opsBetween(ctxLo, target)})
	}
}

func (h *c21Hist) compare(a, b *c21Inst) []c21Diff {
	sa, err := a.snapshot()
	if err != nil {
		panic(err)
	}
	sb, err := b.snapshot()
	if err != nil {
		panic(err)
	}
	return c21Compare(sa, sb)
}

func (h *c21Hist) floor() uint32 { return h.s.VoteStart }

func (h *c21Hist) run() {
	c := h.c
	h.r = rand.New(rand.NewSource(h.seed))
	r := h.r
	h.w = NewC21World()
	h.s = C21RandomSched(r, h.profile)
	if h.saveBoundary {
		h.s.NeedSave = true
		h.s.End = 720 + 6 + uint32(r.Intn(5))
	}
	h.dir = filepath.Join(c.WorkDir, fmt.Sprintf("h%d", h.idx))
	os.MkdirAll(h.dir, 0755)
	h.g = &C21Gen{W: h.w, S: h.s, R: r, Count: func(k string) {
		c.Inc(k)
		for _, p := range []string{"tx_update", "tx_cancel_from", "tx_activate", "tx_vote_v1", "tx_deposit_topup", "tx_return_deposit", "tx_voting", "tx_illegal", "tx_revert_to_pow"} {
			if strings.HasPrefix(k, p+"_") {
				c.Inc(p)
			}
		}
		if strings.HasPrefix(k, "tx_cancel_from") {
			c.Inc("tx_cancel")
		}
	}}
	if h.saveBoundary {
		h.g.Quiet = h.s.RecordSponsor + 10
	}
	if h.evidence {
		h.g.Nurture = true
		h.g.NoSpontaneousPOW = true
		h.ev.y = c21Owners - 1
		h.g.Script.Hands = map[int]bool{h.ev.y: true}
		if h.s.End < h.s.NewCR+90 {
			h.s.End = h.s.NewCR + 90
		}
		c.Inc("evidence_script_histories")
	}
	if h.powCycle {
		h.g.Nurture = true
		h.g.CycleAt = h.s.NewCR + 3 + uint32(r.Intn(6))
		if h.s.End < h.g.CycleAt+70 {
			h.s.End = h.g.CycleAt + 70
		}
		c.Inc("pow_cycle_histories")
	}
	cycleExtra := uint32(8 + r.Intn(4))
	h.R = h.newInst()
	h.specs = []*C21Block{nil}
	h.M = []*C21Model{NewC21Model(h.w, h.s)}
	c.Inc("histories")
	c.Count("profile_"+fmt.Sprint(h.profile), 1)

	var pendingFwd uint32 // height at which a forward check is due (0 = none)
	saveDone := false
	sawV2Active := false
	stalled := false
	for h.R != nil && h.R.tip < h.s.End {
		ht := h.R.tip + 1
		blk, m2 := h.g.NextBlock(h.R.arb, h.M[h.R.tip], ht)
		if blk == nil {
			c.Inc("histories_stalled_no_arbiters")
			c.Inc("histories_stalled_in_" + h.era(ht, h.R))
			h.logf("STALLED at h=%d era=%s arbiters=%d noProducers=%v noClaim=%v", ht, h.era(ht, h.R), len(h.R.arb.CurrentArbitrators), h.R.arb.NoProducers, h.R.arb.NoClaimDPOSNode)
			stalled = true
			break
		}
		h.pending = blk
		err := h.R.process(blk)
		h.pending = nil
		if err != nil {
			// force change failed: the node rejects this block. The instance now
			// holds dangling history entries (see report); end the history here.
			c.Inc("histories_ended_by_rejected_special_payload")
			h.drop(h.R)
			h.R = nil
			pendingFwd = 0
			break
		}
		h.specs = append(h.specs[:ht], blk)
		h.M = append(h.M[:ht], m2)
		c.Inc("blocks_processed")
		h.logf("h=%d confirm=%v pre=%d algo=%v arbiters=%d duty=%d %v", ht, blk.Confirm != nil, len(blk.Pre), h.R.arb.ConsensusAlgorithm, len(h.R.arb.CurrentArbitrators), h.R.arb.DutyIndex, blk.Ops)
		if h.verbose {
			h.logf("      %s", h.prodLine(h.R))
		}
		h.eraCounters(ht)
		if !sawV2Active && h.R.arb.DPoSV2ActiveHeight != ^uint32(0) {
			sawV2Active = true
			c.Inc("histories_dposv2_active")
		}

		if pendingFwd != 0 && h.R.tip >= pendingFwd {
			h.forwardCheck("new blocks after rollback")
			pendingFwd = 0
		}
		if h.saveBoundary {
			// one reorganisation across the height at which the DPoS checkpoint
			// was saved (SetHeight): depth 2..5 from a tip 1..3 above it
			if !saveDone && h.R.checkpointHeight() != 0 && ht >= h.R.checkpointHeight()+1+uint32(r.Intn(3)) {
				saveDone = true
				c.Inc("save_boundary_reorgs")
				d := ht - h.R.checkpointHeight() + 1 + uint32(r.Intn(2))
				h.logf("SAVE-BOUNDARY reorg at tip=%d checkpointHeight=%d depth=%d", ht, h.R.checkpointHeight(), d)
				pendingFwd = h.reorg(d)
				if pendingFwd != 0 {
					c.Inc("save_boundary_reorgs_done")
					pendingFwd = ht + 1
				}
			}
			continue
		}
		if h.evidence && ht >= h.s.NewCR {
			if h.evidenceStep(ht, blk) {
				break
			}
			continue
		}
		if h.powCycle && ht+10 >= h.g.CycleAt {
			// no reorganisations around the scripted cycle; stop once DPOS has
			// been working again for cycleExtra blocks
			a := h.R.arb
			if pendingFwd == 0 && h.g.CycleDPOSSent && a.ConsensusAlgorithm == state.DPOS && a.DPOSWorkHeight != 0 && ht >= a.DPOSWorkHeight+cycleExtra {
				h.cycleDone = true
				c.Inc("pow_cycle_completed")
				h.logf("POW-CYCLE complete: revertToPOW=%d DPOSWorkHeight=%d tip=%d LIH=%d DPOSStart=%d", a.RevertToPOWBlockHeight, a.DPOSWorkHeight, ht, a.LastIrreversibleHeight, a.DPOSStartHeight)
				break
			}
			continue
		}
		if pendingFwd == 0 && ht > h.floor()+1 && r.Intn(100) < 9 {
			pendingFwd = h.reorg(0)
		}
	}
	if h.powCycle && !h.cycleDone {
		c.Inc("pow_cycle_failed")
	}
	_ = stalled
	if pendingFwd != 0 && h.R != nil {
		h.forwardCheck("new blocks after rollback")
	}
	if h.saveBoundary {
		return
	}
	h.finalDescent()
}

type c21EvScript struct {
	phase int
	x, y  int
	start uint32
	regAt uint32
	end   uint32
}

func hasOp(b *C21Block, op string) bool {
	for _, o := range b.Ops {
		if o == op {
			return true
		}
	}
	return false
}

// focusState describes where one producer lives: its state and the producer
// maps that contain it ("<none>" if GetProducer would not find it).
func (h *c21Hist) focusState(in *c21Inst, idx int) string {
	k := fmt.Sprintf("%x", h.w.OwnerKey(idx))
	a := in.arb
	st := "<none>"
	if p := a.GetProducerByOwnerPublicKey(h.w.OwnerKey(idx)); p != nil {
		st = p.State().String()
	}
	maps := ""
	for _, e := range []struct {
		n string
		m map[string]*state.Producer
	}{{"Pending", a.PendingProducers}, {"Activity", a.ActivityProducers}, {"Inactive", a.InactiveProducers},
		{"Canceled", a.CanceledProducers}, {"Illegal", a.IllegalProducers}, {"PendingCanceled", a.PendingCanceledProducers}} {
		if p, ok := e.m[k]; ok {
			maps += e.n + "(" + p.State().String() + ") "
		}
	}
	return "found-as=" + st + " maps=[" + strings.TrimSpace(maps) + "]"
}

// focusRollback rolls the tip block back (depth 1) and judges the focus
// producer idx: (a) against a fresh instance that processed only blocks < tip,
// (b) if a payload is given (handed to ProcessSpecialTxPayload on top of the tip
// before the rollback), also against a control twin that rolled the same block
// back without the payload - any difference to the control is caused by the
// out-of-band payload alone and gets its own signature family
// "rollback-diff:special-payload-on-tip:<class>". Returns false if the scenario
// had to be abandoned (R is unusable then).
func (h *c21Hist) focusRollback(label string, idx int, pl interfaces.Payload) bool {
	c := h.c
	tip := h.R.tip
	if h.R.arb.IsIrreversible(tip, 1) {
		c.Inc("focus_refused_by_IsIrreversible")
		return true
	}
	var ctl *c21Inst
	if pl != nil {
		ctl = h.replay(tip, nil)
		var perr error
		if p, v, _ := kit.Guard(func() { perr = h.R.arb.ProcessSpecialTxPayload(pl, tip) }); p || perr != nil {
			c.Inc("focus_payload_rejected")
			h.logf("focus %s: payload rejected: %v %v", label, v, perr)
			h.drop(ctl)
			return false
		}
		h.logf("focus %s: payload applied on tip %d: %s", label, tip, h.focusState(h.R, idx))
	}
	before := h.focusState(h.R, idx)
	if err := h.R.rollbackTo(tip - 1); err != nil {
		panic(err)
	}
	F := h.replay(tip-1, nil)
	got, want := h.focusState(h.R, idx), h.focusState(F, idx)
	h.logf("focus %s: tip %d before=%s after-rollback=%s direct=%s", label, tip, before, got, want)
	c.Inc("focus_checks")
	info := func(extra map[string]interface{}) map[string]interface{} {
		m := map[string]interface{}{"history_seed": fmt.Sprint(h.seed), "script": "evidence", "tip": tip, "owner": idx,
			"sched": h.s.String(), "blocks_rolled_back": h.opsBetween(tip, tip), "blocks_before": h.opsBetween(tip-6, tip-1)}
		for k, v := range extra {
			m[k] = v
		}
		return m
	}
	if got != want {
		c21Violate(c, "rollback-diff:focus:"+label, fmt.Sprintf("block %d rolled back: producer of owner %d is %s, direct state has %s (before the rollback: %s)", tip, idx, got, want, before),
			info(map[string]interface{}{"rolled_back": got, "direct": want}))
	} else {
		c.Inc("focus_checks_equal")
	}
	if ctl != nil {
		if err := ctl.rollbackTo(tip - 1); err != nil {
			panic(err)
		}
		cgot := h.focusState(ctl, idx)
		if got != cgot {
			c21Violate(c, "rollback-diff:focus:"+label+"-vs-control", fmt.Sprintf("block %d rolled back after an out-of-band payload naming owner %d: producer is %s; the control twin (same rollback, no payload) has %s", tip, idx, got, cgot),
				info(map[string]interface{}{"rolled_back": got, "control": cgot}))
		}
		names, first := classesOf(h.compare(h.R, ctl))
		for _, cl := range names {
			sig := "rollback-diff:special-payload-on-tip:" + cl
			if cl == "degradation.InactiveTxs" {
				// the "payload already seen" set is never rolled back: known finding
				sig = "rollback-diff:degradation.InactiveTxs"
			}
			ex := first[cl]
			c21Violate(c, sig, fmt.Sprintf("payload handed to ProcessSpecialTxPayload on tip %d, tip rolled back: %s differs from the control twin that rolled back without the payload: %s | %s", tip, ex.Path, ex.A, ex.B),
				info(map[string]interface{}{"all_classes": names}))
		}
		h.drop(ctl)
	}
	// the usual full comparison against the direct state
	if ds := h.compare(h.R, F); len(ds) != 0 {
		h.report("rollback-diff:", ds, tip, tip-1, true, "evidence script: "+label, h.era(tip, F))
	}
	h.drop(h.R)
	h.R = F
	h.rolled, h.rolledSpecial = false, false
	if err := h.R.process(h.specs[tip]); err != nil {
		panic(fmt.Sprintf("re-processing block %d rejected: %v", tip, err))
	}
	c.Inc("blocks_processed")
	return true
}

// evidenceStep advances the evidence script after block ht has been connected.
// It returns true when the history should end.
func (h *c21Hist) evidenceStep(ht uint32, blk *C21Block) bool {
	c, a, ev := h.c, h.R.arb, &h.ev
	switch ev.phase {
	case 0: // pick an Active DPoS-v1 producer that is a normal arbiter and starve it
		if ht < h.s.NewCR+4 || a.ConsensusAlgorithm != state.DPOS || blk.Confirm == nil {
			if ht > h.s.NewCR+40 {
				c.Inc("evidence_script_no_arbiter_to_starve")
				ev.phase = 3
			}
			return false
		}
		for _, ar := range a.GetArbitrators() {
			if !ar.IsNormal {
				continue
			}
			p := a.GetProducer(ar.NodePublicKey)
			if p == nil || p.State() != state.Active || p.Identity() != state.DPoSV1 {
				continue
			}
			for i := 0; i < c21Owners; i++ {
				if string(h.w.OwnerKey(i)) == string(p.OwnerPublicKey()) {
					ev.x, ev.start, ev.phase = i, ht, 1
					h.g.Script.Starve = ar.NodePublicKey
					h.g.Script.Hands[i] = true
					h.logf("EVIDENCE: starving arbiter of owner %d from h=%d", i, ht)
					return false
				}
			}
		}
		if ht > h.s.NewCR+40 {
			c.Inc("evidence_script_no_arbiter_to_starve")
			ev.phase = 3
		}
	case 1:
		p := a.GetProducerByOwnerPublicKey(h.w.OwnerKey(ev.x))
		if p != nil && p.State() == state.Inactive {
			c.Inc("evidence_script_producer_inactive")
			h.g.Script.Starve = nil
			h.g.Script.ForceCancel = ev.x + 1
			ev.phase = 2
		} else if ht > ev.start+40 || p == nil || p.State() != state.Active {
			c.Inc("evidence_script_starve_failed")
			h.g.Script.Starve = nil
			ev.phase = 3
		}
	case 2:
		if hasOp(blk, "cancel_from_Inactive") {
			if !h.focusRollback("inactive-producer-cancel", ev.x, nil) {
				return true
			}
			c.Inc("inactive_producer_cancelled_then_rolled_back")
			ev.phase = 3
		} else if ht > ev.start+60 {
			c.Inc("evidence_script_cancel_failed")
			h.g.Script.ForceCancel = 0
			ev.phase = 3
		}
	case 3: // register the reserved owner
		h.g.Script.ForceRegister = ev.y + 1
		ev.start = ht
		ev.phase = 4
	case 4:
		if p := a.GetProducerByOwnerPublicKey(h.w.OwnerKey(ev.y)); p != nil {
			ev.regAt = p.RegisterHeight()
			ev.phase = 5
		} else if ht > ev.start+10 {
			c.Inc("evidence_script_register_failed")
			ev.phase, ev.end = 6, ht+2
		}
	case 5:
		if ht < ev.regAt+state.ActivateDuration-1 {
			return false
		}
		p := a.GetProducerByOwnerPublicKey(h.w.OwnerKey(ev.y))
		crc := a.GetCRCArbiters()
		if ht == ev.regAt+state.ActivateDuration-1 && p != nil && p.State() == state.Active && len(crc) > 0 {
			sponsor := crc[0].NodePublicKey
			for _, x := range crc { // deterministic choice: smallest key
				if string(x.NodePublicKey) < string(sponsor) {
					sponsor = x.NodePublicKey
				}
			}
			pl := h.w.InactiveArbitratorsPayload(ht, sponsor, [][]byte{p.NodePublicKey()})
			if !h.focusRollback("special-payload-on-producer-changed-by-tip", ev.y, pl) {
				return true
			}
			c.Inc("special_payload_on_producer_changed_by_tip_then_rolled_back")
		} else {
			c.Inc("evidence_script_activation_not_seen")
		}
		ev.phase, ev.end = 6, ht+3
	case 6:
		return ht >= ev.end
	}
	return false
}

func (h *c21Hist) eraCounters(ht uint32) {
	c, s := h.c, h.s
	switch ht {
	case s.CRCOnly:
		c.Inc("era_crc_only")
	case s.PublicDPOS:
		c.Inc("era_public_dpos")
	case s.CRCommitteeStart:
		c.Inc("era_cr_committee")
	case s.CRClaim:
		c.Inc("era_cr_claim")
	case s.NewCR:
		c.Inc("era_new_cr")
	case s.DPoSV2Start:
		c.Inc("era_dposv2_start")
	case s.RecordSponsor:
		c.Inc("era_record_sponsor")
	}
}

// reorg rolls R back by a depth the node could perform, compares with a fresh
// instance, then either re-processes the same blocks (and checks roll-forward
// consistency immediately) or lets the history continue with new blocks (the
// forward check then happens a few blocks later). Returns the height at which
// a forward check is due (0 = none).
func (h *c21Hist) reorg(forceDepth uint32) uint32 {
	c, r := h.c, h.r
	tip := h.R.tip
	maxD := tip - h.floor()
	d := uint32([]int{1, 1, 1, 1, 2, 2, 2, 3, 3, 4, 4, 5, 5, 6, 6}[r.Intn(15)])
	if r.Intn(12) == 0 {
		d = 7 + uint32(r.Intn(30))
	}
	if forceDepth != 0 {
		d = forceDepth
	}
	if d > maxD {
		d = maxD
	}
	if d == 0 {
		return 0
	}
	if h.R.arb.IsIrreversible(tip, int(d)) {
		c.Inc("reorg_refused_by_IsIrreversible")
		return 0
	}
	target := tip - d
	era := h.era(tip, h.R)
	c.Inc("reorg_rollbacks")
	c.Inc("reorg_in_era_" + era)
	c.Inc(fmt.Sprintf("reorg_depth_%02d", minU(d, 7)))
	if h.R.arb.ConsensusAlgorithm == state.POW {
		c.Inc("reorg_in_pow_mode")
	}
	for k := target + 1; k <= tip; k++ {
		if h.specialAt(k) {
			h.rolledSpecial = true
		}
	}
	savedSpecs := append([]*C21Block(nil), h.specs[target+1:tip+1]...)
	savedM := append([]*C21Model(nil), h.M[target+1:tip+1]...)
	nontriv := h.nontrivial(target+1, tip)

	if err := h.R.rollbackTo(target); err != nil {
		c21Violate(c, "rollback-error", fmt.Sprintf("OnRollbackTo failed: %v", err), map[string]interface{}{"history_seed": fmt.Sprint(h.seed), "tip": tip, "target": target})
	}
	h.rolled = true
	F := h.replay(target, nil)
	ds := h.compare(h.R, F)
	c.Inc("rollback_compares")
	c.Case(fmt.Sprintf("%d/%d/%d", h.seed, tip, target), nontriv)
	if len(ds) == 0 {
		c.Inc("rollback_compares_equal")
		h.drop(F)
	} else {
		c.Inc("rollback_compares_diff")
		h.report("rollback-diff:", ds, tip, target, true, "reorg", era)
		h.drop(h.R)
		h.R = F
		h.rolled = false
		h.rolledSpecial = false
	}
	if r.Intn(2) == 0 && forceDepth == 0 {
		// same blocks again
		c.Inc("reorg_same_blocks")
		for _, b := range savedSpecs {
			if err := h.R.process(b); err != nil {
				panic(fmt.Sprintf("re-processing block %d after rollback rejected: %v", b.Block.Height, err))
			}
			c.Inc("blocks_processed")
		}
		h.specs = append(h.specs[:target+1], savedSpecs...)
		h.M = append(h.M[:target+1], savedM...)
		if h.rolled {
			h.forwardCheck("same blocks re-processed")
		}
		return 0
	}
	c.Inc("reorg_new_blocks")
	h.specs = h.specs[:target+1]
	h.M = h.M[:target+1]
	if !h.rolled {
		return 0
	}
	return tip + uint32(r.Intn(4))
}

// forwardCheck: R (which has been rolled back and has processed blocks since)
// must equal a fresh instance that processed the current chain linearly.
func (h *c21Hist) forwardCheck(mode string) {
	c := h.c
	h.logf("forwardCheck %s tip=%d rolled=%v", mode, h.R.tip, h.rolled)
	if !h.rolled {
		return
	}
	F := h.replay(h.R.tip, nil)
	ds := h.compare(h.R, F)
	c.Inc("forward_checks")
	if len(ds) == 0 {
		c.Inc("forward_checks_equal")
		h.drop(F)
		return
	}
	c.Inc("forward_checks_diff")
	if h.saveBoundary {
		names, first := classesOf(ds)
		ah, sh := h.R.arb.VerifHistoryHeights()
		h.logf("## save-boundary forward diff: %v", names)
		c21Violate(c, "rollforward-diff:blocks-at-or-below-saved-checkpoint-height-skipped",
			fmt.Sprintf("after a reorganisation below the saved DPoS checkpoint height %d the state at tip %d differs from the direct state in %d classes, e.g. %s: %s | %s (history heights arbiters=%d state=%d)",
				h.R.checkpointHeight(), h.R.tip, len(names), names[0], first[names[0]].A, first[names[0]].B, ah, sh),
			map[string]interface{}{"history_seed": fmt.Sprint(h.seed), "profile": h.profile, "tip": h.R.tip, "all_classes": names, "sched": h.s.String(), "last_blocks": h.lastOps(10)})
	} else {
		h.report("rollforward-diff:", ds, h.R.tip, h.R.tip, true, mode, h.era(h.R.tip, F))
	}
	h.drop(h.R)
	h.R = F
	h.rolled = false
	h.rolledSpecial = false
}

// finalDescent: linear instance L records the direct state S[h] at every
// height; then L is rolled back block by block from H to the floor and compared
// with S[h] at every step (every h in [H-capacity, H)). Divergences at depths
// the node could not perform are only counted.
func (h *c21Hist) finalDescent() {
	c := h.c
	H := uint32(len(h.specs) - 1)
	if H <= h.floor()+1 {
		return
	}
	S := make([]*c21Snap, H+1)
	eraAt := make([]string, H+2)
	L := h.replay(H, func(in *c21Inst, k uint32) {
		eraAt[k] = h.era(k, in)
		if k >= h.floor() {
			s, err := in.snapshot()
			if err != nil {
				panic(err)
			}
			S[k] = s
		}
	})
	// positive control / soundness of the twin oracle: a second linear replay
	// must give the same state.
	L2 := h.replay(H, nil)
	c.Inc("replay_determinism_checks")
	if ds := h.compare(L2, L); len(ds) != 0 {
		names, first := classesOf(ds)
		c.Inc("replay_nondeterministic")
		c.Note("two linear replays of the same blocks differ (seed %d): %v e.g. %+v", h.seed, names, first[names[0]])
		h.drop(L2)
		h.drop(L)
		return
	}
	h.drop(L2)
	// R itself, if never rolled back (or replaced by a pristine twin), must equal L.
	reach := make([]bool, H+1)
	for d := uint32(1); d <= H-h.floor(); d++ {
		reach[d] = !L.arb.IsIrreversible(H, int(d))
	}
	seen := map[string]bool{}
	clean := true
	lo := h.floor()
	if H > 719 && H-719 > lo {
		lo = H - 719 // history capacity (maxHistoryCapacity = 720)
	}
	if h.saveBoundary {
		// stepping below the saved checkpoint height is the scenario above
		if ck := L.checkpointHeight(); ck != 0 && ck+1 > lo {
			lo = ck + 1
		}
	}
	rebaseAt := uint32(0) // block on which DPOSStartHeight is re-based after a POW period
	if h.cycleDone && L.arb.DPOSWorkHeight != 0 {
		rebaseAt = L.arb.DPOSWorkHeight + 1
	}
	for t := H - 1; t >= lo; t-- {
		if rebaseAt != 0 && t+1 == rebaseAt {
			c.Inc("pow_cycle_descents_across_rebase")
		}
		if err := L.rollbackTo(t); err != nil {
			c21Violate(c, "rollback-error", fmt.Sprintf("OnRollbackTo failed: %v", err), map[string]interface{}{"history_seed": fmt.Sprint(h.seed), "tip": H, "target": t})
			break
		}
		s, err := L.snapshot()
		if err != nil {
			panic(err)
		}
		ds := c21Compare(s, S[t])
		c.Inc("descent_steps")
		c.Inc("rollback_compares")
		c.Case(fmt.Sprintf("%d/%d/%d", h.seed, H, t), h.nontrivial(t+1, H))
		if len(ds) == 0 {
			c.Inc("rollback_compares_equal")
			continue
		}
		clean = false
		c.Inc("rollback_compares_diff")
		// only classes that are new at this depth: deeper ones inherit them
		var fresh []c21Diff
		for _, x := range ds {
			if !seen[x.Class] {
				fresh = append(fresh, x)
			}
		}
		for _, x := range fresh {
			seen[x.Class] = true
		}
		if h.specialAt(t + 1) {
			// everything differing here is attributed to the off-chain payload
			for _, x := range ds {
				seen[x.Class] = true
			}
		}
		if len(fresh) > 0 {
			if reach[H-t] {
				c.Inc("descent_reachable_diffs")
			}
			h.report("rollback-diff:", fresh, H, t, reach[H-t], "stepwise descent", eraAt[t+1])
		}
	}
	if clean {
		// roll forward over the very same blocks
		for k := lo + 1; k <= H; k++ {
			if err := L.process(h.specs[k]); err != nil {
				panic(fmt.Sprintf("re-processing block %d after descent rejected: %v", k, err))
			}
			c.Inc("blocks_processed")
		}
		s, err := L.snapshot()
		if err != nil {
			panic(err)
		}
		c.Inc("forward_checks")
		if ds := c21Compare(s, S[H]); len(ds) == 0 {
			c.Inc("forward_checks_equal")
		} else {
			c.Inc("forward_checks_diff")
			h.report("rollforward-diff:", ds, H, lo, true, "full descent then same blocks", "all")
		}
	} else {
		c.Inc("descent_forward_skipped_after_diff")
	}
	h.drop(L)
}

func minU(a, b uint32) uint32 {
	if a < b {
		return a
	}
	return b
}

// c21PanicSite extracts the first repository frame below the panic.
func c21PanicSite(stack string) string {
	lines := strings.Split(stack, "\n")
	for _, l := range lines {
		l = strings.TrimSpace(l)
		if strings.HasPrefix(l, "github.com/elastos/Elastos.ELA/") {
			if i := strings.LastIndex(l, "("); i > 0 {
				l = l[:i]
			}
			return strings.TrimPrefix(l, "github.com/elastos/Elastos.ELA/")
		}
	}
	return "unknown"
}

func c21TrimStack(st string) []string {
	var out []string
	for _, l := range strings.Split(st, "\n") {
		if strings.Contains(l, "Elastos.ELA") || strings.Contains(l, "verif/props") {
			out = append(out, strings.TrimSpace(l))
		}
		if len(out) > 24 {
			break
		}
	}
	return out
}

var _ = sort.Strings

package props

import (
	"bytes"
	"crypto/sha256"
	"fmt"
	"reflect"
	"sort"
	"strings"

	"github.com/elastos/Elastos.ELA/common"
	"github.com/elastos/Elastos.ELA/core/contract/program"
	"github.com/elastos/Elastos.ELA/core/types"
	common2 "github.com/elastos/Elastos.ELA/core/types/common"
	"github.com/elastos/Elastos.ELA/core/types/interfaces"
	"github.com/elastos/Elastos.ELA/core/types/payload"

	"verif/kit"
	"verif/kit/filler"
	"verif/kit/node"
)

// C04 — wire encoding round-trips; transaction identity ignores signatures.
//
// Workload: kit/filler populates every field of every transaction type x every
// declared payload version x every expressible tx version x every output payload
// type; headers with/without aux-pow; blocks of 1..40 txs; DposBlock and
// DPOSHeader with/without confirm; p2p messages.
// Oracles (all on the real Serialize/Deserialize/Hash):
//   decode(encode(v)) deep-equals v (fields the codec does not carry in this
//   version — measured by single-leaf perturbation — are exempt), nothing left
//   unread, re-encoding byte-identical, hash equal and == sha256d(unsigned bytes);
//   hash invariant under program replacement/reorder/removal; every byte flip of
//   the unsigned serialisation that still decodes changes the hash (or decodes
//   to the very same value); decode-closure on every flipped input that decodes.

func init() {
	kit.Register(&kit.Spec{
		ID: "C04",
		Rule: "reflect-filler instances: every tx type x every payload version constant x tx version {0 only for type<=0x08, 9} x random output payload types; " +
			"blocks of n=1..40 small txs of random kinds; headers +-auxpow; DposBlock/DPOSHeader +-confirm; p2p messages; " +
			"boundary pass: each var-length site of each type at lengths {252..256, 65535, 65536} within the decoder cap, var-int valued fields at {0xfc,0xfd,0xfe,0xffff,0x10000,0xffffffff,0x100000000}. " +
			"distinct = distinct serialised bytes; non-trivial = value encoded, decoded and had >=1 populated leaf",
		Shards: func(tier string) int { return 8 },
		Run:    runC04,
		TimeoutS: func(tier string) int {
			if tier == "thorough" {
				return 2700
			}
			return 900
		},
		// safety net only: byte flips may steer a decoder into a count-sized allocation (C02's subject)
		MemLimitMB: 8192,
		Require: []string{"tx_roundtrips", "tx_hash_checks", "program_variants_checked", "unsigned_flips_decoded", "unsigned_flips_hash_changed", "closure_checks", "leaf_mutations_hash_changed", "leaf_mutations_outside_unsigned", "block_roundtrips", "dposblock_roundtrips", "header_roundtrips", "p2p_roundtrips", "sensitivity_probes", "leaf_keys_carried", "txloc_checks",
			"boundary_lengths_covered", "boundary_sites_covered", "boundary_len:252", "boundary_len:253", "boundary_len:254", "boundary_len:255", "boundary_len:256", "boundary_len:65535", "boundary_len:65536", "boundary_varuint_values", "boundary_blocks"},
		Assumptions: []string{
			"well-formedness is defined by the wire format: type byte > 0x08 only with tx version >= 0x09; outputs of a version-0 tx have no type/payload; platform-int fields hold values in [0,2^31)",
			"fields that a given payload version does not carry (measured: perturbing the leaf leaves the bytes unchanged) need not survive that version's round trip, but every field must be carried by at least one generated (type, version)",
			"crypto/sha256 is correct",
		},
		Post: postC04,
	})
}

func sha256d(b []byte) common.Uint256 {
	a := sha256.Sum256(b)
	return common.Uint256(sha256.Sum256(a[:]))
}

// rtJudge runs one round trip and applies the generic oracles. name is the
// stable class name used in signatures.
type rtJudge struct {
	c     *kit.Ctx
	cfg   *filler.Config
	cov   *filler.Coverage
	sens  bool           // run full per-leaf sensitivity
	gated map[string]int // key -> number of tolerated (not carried in that instance) differences
	// tolerate: difference paths already classified as "not carried" on the base
	// instance of the same seed (boundary pass: only one site differs from it).
	tolerate  map[string]bool
	lastGated []string // paths classified as not carried by the last run
	what      string   // extra context for violation details (boundary pass: type and field)
}

func (j *rtJudge) run(name string, seed uint64, codec filler.Codec) *filler.Outcome {
	c := j.c
	o := filler.RoundTrip(j.cfg, seed, codec)
	cas := map[string]interface{}{"class": name, "filler_seed": fmt.Sprint(seed)}
	if j.what != "" {
		cas["what"] = j.what
	}
	if o.EncErr != nil {
		c.Inconclusive("generator produced an unencodable %s (seed %d): %v", name, seed, o.EncErr)
		return nil
	}
	j.cov.AddLeaves(o.Leaves)
	nz := 0
	for _, l := range o.Leaves {
		if l.NonZero {
			nz++
		}
	}
	if o.DecErr != nil {
		cas["bytes"] = kit.Hex(clip(o.Bytes, 600))
		c.Violate("decode-rejects:"+name, fmt.Sprintf("Deserialize rejected the bytes Serialize produced for a well-formed %s %s: %v", name, j.what, o.DecErr), cas)
		c.Case(string(o.Bytes), false)
		return nil
	}
	c.Case(string(o.Bytes), nz > 0)
	if o.Rest != 0 {
		cas["bytes"] = kit.Hex(clip(o.Bytes, 600))
		c.Violate("decode-leaves-bytes:"+name, fmt.Sprintf("%d bytes left unread after decoding %s", o.Rest, name), cas)
	}
	if o.ReEncErr != nil {
		c.Violate("reencode-fails:"+name, fmt.Sprintf("decoded %s cannot be serialised: %v", name, o.ReEncErr), cas)
	}
	lost := false
	// classify differences: a difference under a leaf that this very
	// instance carries on the wire is a loss; otherwise it is version-gated.
	carriedCache := map[int]int{} // leaf idx -> 0 unknown, 1 carried, 2 not, 3 n/a
	probe := func(k int) int {
		if v := carriedCache[k]; v != 0 {
			return v
		}
		car, ok, info := filler.LeafCarried(j.cfg, seed, codec, o.Bytes, k)
		r := 3
		if ok {
			c.Inc("sensitivity_probes")
			j.cov.AddSensitivity(info.Key, car)
			if car {
				r = 1
			} else {
				r = 2
			}
		}
		carriedCache[k] = r
		return r
	}
	j.lastGated = j.lastGated[:0]
	if !o.Unordered {
		for _, d := range o.Diffs {
			if j.tolerate[d.Path] {
				c.Inc("gated_diffs")
				continue
			}
			carried, under := false, 0
			for k, l := range o.Leaves {
				if filler.PathUnder(l.Path, d.Path) {
					under++
					if under > 12 {
						break
					}
					if probe(k) == 1 {
						carried = true
						break
					}
				}
			}
			if carried || under == 0 {
				cas["path"], cas["want"], cas["got"] = d.Path, d.A, d.B
				c.Violate("roundtrip:"+d.Key, fmt.Sprintf("%s: field %s (%s) is on the wire but decode(encode(v)) differs: %s -> %s", name, d.Key, d.Path, d.A, d.B), cas)
				lost = true
			} else {
				c.Inc("gated_diffs")
				j.lastGated = append(j.lastGated, d.Path)
				if j.gated != nil {
					j.gated[d.Key]++
				}
			}
		}
		if j.sens {
			for k := range o.Leaves {
				probe(k)
			}
		}
	}
	if o.ReEncDiffers && !lost { // not merely the echo of a reported loss
		cas["bytes"] = kit.Hex(clip(o.Bytes, 600))
		c.Violate("reencode-differs:"+name, fmt.Sprintf("encode(decode(encode(v))) != encode(v) for %s", name), cas)
	}
	return o
}

func clip(b []byte, n int) []byte {
	if len(b) > n {
		return b[:n]
	}
	return b
}

var txCodec = func(gen func(f *filler.Filler) interface{}) filler.Codec {
	return filler.Codec{
		Gen: gen,
		Enc: func(v interface{}) ([]byte, error) { return filler.EncTx(v.(interfaces.Transaction)) },
		Dec: func(b []byte) (interface{}, int, error) {
			tx, rest, err := filler.DecTx(b)
			if err != nil {
				return nil, rest, err
			}
			return tx, rest, nil
		},
	}
}

func serCodec(gen func(f *filler.Filler) interface{}, fresh func() common.Serializable) filler.Codec {
	return filler.Codec{
		Gen: gen,
		Enc: func(v interface{}) ([]byte, error) {
			buf := new(bytes.Buffer)
			err := v.(common.Serializable).Serialize(buf)
			return buf.Bytes(), err
		},
		Dec: func(b []byte) (interface{}, int, error) {
			r := bytes.NewReader(b)
			v := fresh()
			err := v.Deserialize(r)
			return v, r.Len(), err
		},
	}
}

func pairKey(name string, pv byte, txv common2.TransactionVersion) string {
	return fmt.Sprintf("gen:%s/pv%d/v%d", name, pv, byte(txv))
}

func runC04(c *kit.Ctx) {
	node.InitGlobals(c.WorkDir)
	cfg := filler.ELA()
	cov := filler.NewCoverage()
	r := c.Rand("c04")
	seeds := func() uint64 { return r.Uint64() }
	j := &rtJudge{c: c, cfg: cfg, cov: cov, sens: true, gated: map[string]int{}}
	hashes := map[common.Uint256]string{} // tx hash -> unsigned bytes (distinct values must have distinct hashes)
	sampled := 0

	// ---------------- (1) transactions ----------------
	total := c.N(30, 400)
	per := (total + c.Shards - 1) / c.Shards
	outTypes := map[common2.OutputType]int{}
	for _, k := range filler.TxTable {
		for _, pv := range k.Versions {
			for _, txv := range filler.TxVersions(k.Type) {
				k, pv, txv := k, pv, txv
				name := "tx." + k.Name
				n := per
				if k.Type == common2.CRCProposal && n < len(filler.ProposalTypes) {
					n = len(filler.ProposalTypes) // the layout discriminator is enumerated, not sampled
				}
				for i := 0; i < n; i++ {
					seed := seeds()
					j.sens = i < 6 || i%8 == 0 || k.Type == common2.CRCProposal
					ptype := filler.ProposalTypes[(i+c.Shard)%len(filler.ProposalTypes)]
					codec := txCodec(func(f *filler.Filler) interface{} {
						f.Ctx[filler.CtxOutputTypes] = outTypes
						if k.Type == common2.CRCProposal {
							f.Ctx[filler.ForceKey("payload.CRCProposal.ProposalType")] = ptype
						}
						return filler.GenTx(f, k.Type, pv, txv)
					})
					c.Begin("tx %s pv=%d v=%d seed=%d", k.Name, pv, txv, seed)
					// output type statistics must count the base instance only
					for t := range outTypes {
						delete(outTypes, t)
					}
					o := j.run(name, seed, codec)
					if o == nil {
						continue
					}
					c.Inc(pairKey(k.Name, pv, txv))
					if k.Type == common2.CRCProposal {
						c.Inc(fmt.Sprintf("gen:CRCProposal/ptype%04x/pv%d", ptype, pv))
					}
					c.Inc("tx_roundtrips")
					tx := o.Value.(interfaces.Transaction)
					tx1 := o.Decoded.(interfaces.Transaction)
					if sampled < 2 && i == 0 && len(o.Bytes) < 400 {
						sampled++
						c.Sample(map[string]interface{}{"kind": "tx", "type": k.Name, "payload_version": pv, "tx_version": byte(txv), "bytes": kit.Hex(o.Bytes), "leaves": len(o.Leaves), "hash": tx1.Hash().String()})
					}
					c04TxIdentity(c, cfg, codec, len(o.Leaves), name, k, pv, txv, seed, tx, tx1, o.Bytes, r.Uint64())
					if ub, err := filler.UnsignedBytes(tx1); err == nil {
						h := tx1.Hash()
						if prev, ok := hashes[h]; ok && prev != string(ub) {
							c.Violate("hash-collision:tx", "two transactions with different unsigned serialisations share a hash", nil)
						}
						hashes[h] = string(ub)
						c.Inc("distinct_hash_checks")
					}
					// independent cross-check of the differ (canonicalises both values in place: last use)
					if eq := filler.DeepEqualCanon(cfg, o.Value, o.Decoded); eq != (len(o.Diffs) == 0) {
						c.Inconclusive("%s: filler.Diff (%d diffs) and reflect.DeepEqual (%v) disagree", name, len(o.Diffs), eq)
					} else {
						c.Inc("differ_crosschecks")
					}
				}
			}
		}
	}
	// output payload types: counted over all generations incl. perturbed ones is
	// fine for a coverage gauge, but count base instances separately
	_ = outTypes

	// output type coverage: regenerate cheaply and count types of decoded outputs
	c04OutputTypeCoverage(c, cfg, r.Uint64())

	// ---------------- (2) headers, blocks, dpos blocks ----------------
	c04Blocks(c, j, r.Uint64())

	// ---------------- (3) p2p messages ----------------
	c04P2P(c, j, r.Uint64())

	// ---------------- (4) var-int boundary lengths / counts / values ----------------
	c04Boundary(c, j, r.Uint64())

	// which fields were exempted because the version at hand does not carry them
	if c.Shard == 0 {
		var gk []string
		for k, n := range j.gated {
			gk = append(gk, fmt.Sprintf("%s(%d)", k, n))
		}
		sort.Strings(gk)
		c.Note("fields exempted as not carried by the instance's version/layout (shard 0): %s", strings.Join(gk, " "))
	}
	// ---------------- coverage verdicts (per shard; merged in Post) ----------------
	carried, total2 := 0, 0
	for k, s := range cov.Keys {
		if strings.HasSuffix(k, "#key") {
			continue
		}
		total2++
		if s.Carried > 0 {
			carried++
		}
	}
	c.Max("max:leaf_keys_total", int64(total2))
	c.Count("leaf_keys_carried", int64(carried))
	c.Inc("shards_done")
	for _, k := range cov.NeverNonZero() {
		c.Inc("cov_zero_only:" + k)
	}
	for _, k := range cov.NeverCarried() {
		c.Inc("cov_uncarried_only:" + k)
	}
	for _, k := range cov.NeverPerturbed() {
		c.Inc("cov_unperturbed_only:" + k)
	}
}

// c04TxIdentity: hash equality, independence from programs, sensitivity to
// every unsigned byte, decode closure.
func c04TxIdentity(c *kit.Ctx, cfg *filler.Config, codec filler.Codec, nleaves int, name string, k filler.TxKind, pv byte, txv common2.TransactionVersion, seed uint64, tx, tx1 interfaces.Transaction, b []byte, rs uint64) {
	rr := filler.NewRng(rs)
	cas := map[string]interface{}{"class": name, "payload_version": pv, "tx_version": byte(txv), "filler_seed": fmt.Sprint(seed)}
	ub, err := filler.UnsignedBytes(tx)
	if err != nil {
		c.Inconclusive("SerializeUnsigned failed for generated %s: %v", name, err)
		return
	}
	if len(ub) > len(b) || !bytes.Equal(b[:len(ub)], ub) {
		c.Violate("unsigned-not-prefix:tx", "SerializeUnsigned is not a prefix of Serialize", cas)
		return
	}
	want := sha256d(ub)
	h0, h1 := tx.Hash(), tx1.Hash()
	c.Inc("tx_hash_checks")
	if h0 != want || h1 != want {
		cas["want"], cas["orig"], cas["decoded"] = want.String(), h0.String(), h1.String()
		c.Violate("hash-mismatch:tx", fmt.Sprintf("%s: Hash() of original/decoded differs from sha256d(unsigned bytes)", name), cas)
	}
	if tx1.Version() != txv || tx1.TxType() != k.Type || tx1.PayloadVersion() != pv {
		c.Violate("discriminator-lost:tx", fmt.Sprintf("decoded version/type/payloadVersion = %d/%#x/%d want %d/%#x/%d", tx1.Version(), byte(tx1.TxType()), tx1.PayloadVersion(), txv, byte(k.Type), pv), cas)
	}

	// --- programs do not take part in the identity
	progs := tx1.Programs()
	variants := [][]*program.Program{
		nil,
		{{Code: rr.Bytes(1 + rr.Intn(60)), Parameter: rr.Bytes(rr.Intn(100))}},
		append(append([]*program.Program{}, progs...), &program.Program{Code: rr.Bytes(34), Parameter: rr.Bytes(65)}),
	}
	if len(progs) >= 2 {
		rev := make([]*program.Program, len(progs))
		for i := range progs {
			rev[len(progs)-1-i] = progs[i]
		}
		variants = append(variants, rev, progs[1:])
	}
	for vi, pg := range variants {
		t2, _, err := filler.DecTx(b)
		if err != nil {
			continue
		}
		t2.SetPrograms(pg)
		b2, err := filler.EncTx(t2)
		if err != nil {
			c.Inconclusive("encode with program variant failed: %v", err)
			continue
		}
		t3, rest, err := filler.DecTx(b2)
		if err != nil || rest != 0 {
			c.Violate("decode-rejects:"+name, fmt.Sprintf("program variant %d does not decode: %v rest=%d", vi, err, rest), cas)
			continue
		}
		c.Inc("program_variants_checked")
		if t3.Hash() != want {
			cas["variant"] = vi
			c.Violate("hash-depends-on-programs:tx", fmt.Sprintf("%s: hash changed after changing programs (variant %d)", name, vi), cas)
		}
		if len(t3.Programs()) != len(pg) {
			c.Violate("roundtrip:transaction.BaseTransaction.programs", fmt.Sprintf("%s: %d programs encoded, %d decoded", name, len(pg), len(t3.Programs())), cas)
		}
	}

	// --- every unsigned byte matters; closure on whatever decodes
	// Byte positions that lie inside the data of one leaf are found by
	// perturbing that leaf (same-length encodings differ exactly there).
	// Structure bytes (counts, lengths, layout discriminators) are never
	// flipped on their own: several decoders loop or allocate on a corrupted
	// count (C02/C03's subject) — they are varied through the generator.
	type flip struct {
		pos  int
		mask byte
	}
	var flips []flip
	budget := 8
	if rr.Intn(6) == 0 {
		budget = nleaves // every leaf of this instance
	}
	for try := 0; try < budget && nleaves > 0; try++ {
		k := rr.Intn(nleaves)
		if budget == nleaves {
			k = try
		}
		pb, info, ok := filler.PerturbedBytes(cfg, seed, codec, k)
		if !ok {
			continue
		}
		// (a) the perturbed value itself: differs in one field only
		if pt, rest, err := filler.DecTx(pb); err == nil && rest == 0 {
			pub, _ := filler.UnsignedBytes(pt)
			c.Inc("leaf_mutations_checked")
			if bytes.Equal(pub, ub) {
				// the field is outside the unsigned part (a program) or not carried
				if pt.Hash() != want {
					c.Violate("hash-depends-on-programs:tx", fmt.Sprintf("%s: unsigned bytes equal, hash differs after changing %s", name, info.Key), cas)
				}
				c.Inc("leaf_mutations_outside_unsigned")
			} else if pt.Hash() == want {
				cas["leaf"] = info.Key
				c.Violate("hash-ignores-field:"+info.Key, fmt.Sprintf("%s: changing %s changes the unsigned bytes but not the hash", name, info.Key), cas)
			} else {
				c.Inc("leaf_mutations_hash_changed")
			}
		}
		if len(pb) != len(b) || c04LayoutLeaf[info.Key] {
			continue
		}
		var ds []int
		for i := 0; i < len(ub); i++ {
			if pb[i] != b[i] {
				ds = append(ds, i)
			}
		}
		for n := 0; n < 2 && len(ds) > 0; n++ {
			m := byte(1) << uint(rr.Intn(8))
			if rr.Intn(3) == 0 {
				m = byte(1 + rr.Intn(255))
			}
			flips = append(flips, flip{ds[rr.Intn(len(ds))], m})
		}
	}
	for _, fl := range flips {
		pos, mask := fl.pos, fl.mask
		fb := append([]byte{}, b...)
		fb[pos] ^= mask
		c.Inc("unsigned_flips")
		var ft interfaces.Transaction
		var rest int
		var derr error
		if p, pv, _ := kit.Guard(func() { ft, rest, derr = filler.DecTx(fb) }); p {
			// a panic on malformed input belongs to C03; here it only means "did not decode"
			_ = pv
			c.Inc("unsigned_flips_panicked")
			continue
		}
		if derr != nil {
			c.Inc("unsigned_flips_rejected")
			continue
		}
		c.Inc("unsigned_flips_decoded")
		_ = rest // trailing bytes after a flip (e.g. a count got smaller) are legitimate
		fcas := map[string]interface{}{"class": name, "payload_version": pv, "tx_version": byte(txv), "filler_seed": fmt.Sprint(seed), "flip_pos": pos, "flip_mask": mask}
		// closure: v' = decode(b'); decode(encode(v')) == v' with equal hash
		eb, err := filler.EncTx(ft)
		if err != nil {
			// decodable but not re-encodable: the statement requires re-encoding to work
			c.Violate("closure-reencode-fails:"+name, fmt.Sprintf("%s: decoded value cannot be re-encoded: %v", name, err), fcas)
			continue
		}
		ft2, rest2, err := filler.DecTx(eb)
		c.Inc("closure_checks")
		if err != nil || rest2 != 0 {
			c.Violate("closure-decode-fails:"+name, fmt.Sprintf("%s: encode(decode(b)) does not decode: %v rest=%d", name, err, rest2), fcas)
			continue
		}
		if ds := filler.Diff(cfg, ft, ft2); len(ds) > 0 {
			fcas["path"], fcas["want"], fcas["got"] = ds[0].Path, ds[0].A, ds[0].B
			c.Violate("closure:"+ds[0].Key, fmt.Sprintf("%s: decode(encode(v)) != v for v obtained by decoding (%s: %s -> %s)", name, ds[0].Path, ds[0].A, ds[0].B), fcas)
		}
		fh := ft.Hash()
		if ft2.Hash() != fh {
			c.Violate("closure-hash:tx", "hash changed across re-encoding of a decoded value", fcas)
		}
		fub, _ := filler.UnsignedBytes(ft)
		if fh != sha256d(fub) {
			c.Violate("hash-mismatch:tx", "Hash() of a decoded value differs from sha256d(SerializeUnsigned)", fcas)
		}
		if bytes.Equal(fub, ub) {
			// the flipped bytes decode to the very same unsigned value (non-canonical
			// encoding accepted); identity is value based, so nothing to demand
			c.Inc("unsigned_flips_same_value")
			continue
		}
		if fh == want {
			c.Violate("hash-ignores-unsigned-byte:tx", fmt.Sprintf("%s: unsigned byte %d flipped, value differs, hash equal", name, pos), fcas)
		} else {
			c.Inc("unsigned_flips_hash_changed")
		}
	}
}

// leaves whose value selects the wire layout of what follows; their bytes are
// not flipped individually (the generator enumerates their values instead).
var c04LayoutLeaf = map[string]bool{
	"payload.CRCProposal.ProposalType": true, "outputpayload.VoteOutput.Version": true,
	"outputpayload.CrossChainOutput.Version": false,
}

// c04OutputTypeCoverage counts output payload types actually round-tripped.
func c04OutputTypeCoverage(c *kit.Ctx, cfg *filler.Config, rs uint64) {
	rr := filler.NewRng(rs)
	n := c.N(60, 600)
	for i := 0; i < n; i++ {
		f := filler.New(cfg, rr.Uint64())
		tx := filler.GenTx(f, common2.TransferAsset, 0, common2.TxVersion09)
		b, err := filler.EncTx(tx)
		if err != nil {
			c.Inconclusive("encode: %v", err)
			return
		}
		t1, _, err := filler.DecTx(b)
		if err != nil {
			c.Violate("decode-rejects:tx.TransferAsset", err.Error(), nil)
			continue
		}
		for oi, o := range t1.Outputs() {
			want := tx.Outputs()[oi]
			if o.Type != want.Type || reflect.TypeOf(o.Payload) != reflect.TypeOf(want.Payload) {
				c.Violate("roundtrip:common.Output.Type", fmt.Sprintf("output type %d/%T decoded as %d/%T", want.Type, want.Payload, o.Type, o.Payload), nil)
			}
			c.Inc(fmt.Sprintf("output_type:%d", o.Type))
		}
	}
}

func prefixLeaves(f *filler.Filler, from int, prefix string) {
	for i := from; i < len(f.Leaves); i++ {
		f.Leaves[i].Path = prefix + f.Leaves[i].Path
	}
}

func c04Blocks(c *kit.Ctx, j *rtJudge, rs uint64) {
	rr := filler.NewRng(rs)
	j.sens = false
	// headers
	nh := c.N(40, 600)
	for i := 0; i < nh; i++ {
		withAux := i%2 == 0
		j.sens = i < 8
		codec := serCodec(func(f *filler.Filler) interface{} {
			h := &common2.Header{}
			filler.GenHeader(f, h, withAux)
			// GenHeader uses ".Header" as path root; the value root is the header itself
			for k := range f.Leaves {
				f.Leaves[k].Path = strings.TrimPrefix(f.Leaves[k].Path, ".Header")
			}
			return h
		}, func() common.Serializable { return &common2.Header{} })
		c.Begin("header %d", i)
		o := j.run("Header", rr.Uint64(), codec)
		if o == nil {
			continue
		}
		c.Inc("header_roundtrips")
		if withAux {
			c.Inc("header_with_auxpow")
		} else {
			c.Inc("header_without_auxpow")
		}
		h0, h1 := o.Value.(*common2.Header), o.Decoded.(*common2.Header)
		nb := new(bytes.Buffer)
		h0.SerializeNoAux(nb)
		if h0.Hash() != h1.Hash() || h1.Hash() != sha256d(nb.Bytes()) {
			c.Violate("hash-mismatch:Header", "header hash differs after round trip / from sha256d(SerializeNoAux)", nil)
		}
		if h0.HashWithAux() != h1.HashWithAux() {
			c.Violate("hash-mismatch:Header", "HashWithAux differs after round trip", nil)
		}
	}
	// DPOS headers
	for i := 0; i < nh/2; i++ {
		have := i%2 == 0
		j.sens = i < 6
		codec := serCodec(func(f *filler.Filler) interface{} {
			h := &types.DPOSHeader{}
			filler.GenHeader(f, &h.Header, i%4 < 2)
			h.HaveConfirm = have
			if have {
				f.Value(reflect.ValueOf(&h.Confirm).Elem(), "payload.Confirm", ".Confirm")
			}
			return h
		}, func() common.Serializable { return &types.DPOSHeader{} })
		if o := j.run("DPOSHeader", rr.Uint64(), codec); o != nil {
			c.Inc("dposheader_roundtrips")
			if have {
				c.Inc("dposheader_with_confirm")
			}
		}
	}
	// blocks of 1..40 txs
	nb := c.N(10, 80)
	for i := 0; i < nb; i++ {
		n := 1 + (i*c.Shards+c.Shard)%40
		j.sens = i == 0
		withAux := i%3 != 0
		codec := serCodec(func(f *filler.Filler) interface{} { return filler.GenBlock(f, n, withAux) },
			func() common.Serializable { return &types.Block{} })
		c.Begin("block %d n=%d", i, n)
		o := j.run("Block", rr.Uint64(), codec)
		if o == nil {
			continue
		}
		c.Inc("block_roundtrips")
		c.Inc(fmt.Sprintf("block_txs:%02d", n))
		c.Count("block_txs_total", int64(n))
		b0, b1 := o.Value.(*types.Block), o.Decoded.(*types.Block)
		if b0.Hash() != b1.Hash() {
			c.Violate("hash-mismatch:Block", "block hash differs after round trip", nil)
		}
		if len(b1.Transactions) != n {
			c.Violate("roundtrip:types.Block.Transactions", fmt.Sprintf("%d txs encoded, %d decoded", n, len(b1.Transactions)), nil)
			continue
		}
		for ti := range b0.Transactions {
			if b0.Transactions[ti].Hash() != b1.Transactions[ti].Hash() {
				c.Violate("hash-mismatch:Block.tx", fmt.Sprintf("tx %d hash differs after block round trip", ti), nil)
			}
		}
		// DeserializeTxLoc must agree with the tx codec
		var b2 types.Block
		locs, err := b2.DeserializeTxLoc(bytes.NewBuffer(append([]byte{}, o.Bytes...)))
		if err != nil || len(locs) != n {
			c.Violate("txloc:Block", fmt.Sprintf("DeserializeTxLoc failed on a block that Deserialize accepts: %v", err), nil)
		} else {
			for ti, l := range locs {
				tb, _ := filler.EncTx(b0.Transactions[ti])
				c.Inc("txloc_checks")
				if l.TxStart < 0 || l.TxStart+l.TxLen > len(o.Bytes) || !bytes.Equal(o.Bytes[l.TxStart:l.TxStart+l.TxLen], tb) {
					c.Violate("txloc:Block", fmt.Sprintf("TxLoc %d does not delimit the serialised tx", ti), nil)
					break
				}
			}
		}
	}
	// DposBlock +- confirm
	nd := c.N(8, 60)
	for i := 0; i < nd; i++ {
		have := i%2 == 0
		n := 1 + rr.Intn(6)
		j.sens = i < 2
		codec := serCodec(func(f *filler.Filler) interface{} {
			db := &types.DposBlock{}
			db.Block = filler.GenBlock(f, n, true)
			prefixLeaves(f, 0, ".Block")
			db.HaveConfirm = have
			if have {
				db.Confirm = filler.GenConfirm(f)
			}
			return db
		}, func() common.Serializable { return &types.DposBlock{} })
		c.Begin("dposblock %d", i)
		o := j.run("DposBlock", rr.Uint64(), codec)
		if o == nil {
			continue
		}
		c.Inc("dposblock_roundtrips")
		if have {
			c.Inc("dposblock_with_confirm")
			cf := o.Decoded.(*types.DposBlock).Confirm
			if cf == nil || cf.Proposal.Hash() != o.Value.(*types.DposBlock).Confirm.Proposal.Hash() {
				c.Violate("hash-mismatch:Confirm", "proposal hash differs after round trip", nil)
			}
		} else {
			c.Inc("dposblock_without_confirm")
		}
	}
	// stand-alone confirm (payload.Confirm is also stored on its own)
	for i := 0; i < nd; i++ {
		j.sens = i < 4
		codec := serCodec(func(f *filler.Filler) interface{} {
			cf := filler.GenConfirm(f)
			for k := range f.Leaves {
				f.Leaves[k].Path = strings.TrimPrefix(f.Leaves[k].Path, ".Confirm")
			}
			return cf
		}, func() common.Serializable { return &payload.Confirm{} })
		if o := j.run("Confirm", rr.Uint64(), codec); o != nil {
			c.Inc("confirm_roundtrips")
		}
	}
}

// postC04: parent-side checks over merged counters.
func postC04(a *kit.Agg) {
	// every (type, payload version, tx version) must have been generated
	for _, k := range filler.TxTable {
		for _, pv := range k.Versions {
			for _, txv := range filler.TxVersions(k.Type) {
				if a.Counters[pairKey(k.Name, pv, txv)] == 0 {
					a.Inconclusive("no instance of %s payload version %d tx version %d was generated and round-tripped", k.Name, pv, byte(txv))
				}
			}
		}
	}
	for _, pt := range filler.ProposalTypes {
		for _, pv := range []byte{payload.CRCProposalVersion, payload.CRCProposalVersion01} {
			if a.Counters[fmt.Sprintf("gen:CRCProposal/ptype%04x/pv%d", pt, pv)] == 0 {
				a.Inconclusive("no CRCProposal with proposal type %#04x payload version %d", pt, pv)
			}
		}
	}
	for _, t := range filler.OutputTypes {
		if a.Counters[fmt.Sprintf("output_type:%d", t)] == 0 {
			a.Inconclusive("output payload type %d never round-tripped", t)
		}
	}
	for n := 1; n <= 40; n++ {
		if a.Counters[fmt.Sprintf("block_txs:%02d", n)] == 0 && a.Tier == "thorough" {
			a.Inconclusive("no block with %d transactions", n)
		}
	}
	for _, k := range []string{"header_with_auxpow", "header_without_auxpow", "dposblock_with_confirm", "dposblock_without_confirm"} {
		if a.Counters[k] == 0 {
			a.Inconclusive("%s == 0", k)
		}
	}
	shards := a.Counters["shards_done"]
	if shards == 0 {
		return
	}
	var keys []string
	for k := range a.Counters {
		keys = append(keys, k)
	}
	sort.Strings(keys)
	for _, k := range keys {
		v := a.Counters[k]
		switch {
		case strings.HasPrefix(k, "cov_zero_only:") && v == shards:
			a.Inconclusive("field coverage: leaf %s was zero in every generated instance", strings.TrimPrefix(k, "cov_zero_only:"))
		case strings.HasPrefix(k, "cov_unperturbed_only:") && v == shards:
			a.Inconclusive("field sensitivity: leaf %s was never probed", strings.TrimPrefix(k, "cov_unperturbed_only:"))
		case strings.HasPrefix(k, "cov_uncarried_only:") && v == shards:
			key := strings.TrimPrefix(k, "cov_uncarried_only:")
			a.Violate("not-serialized:"+key, fmt.Sprintf("field sensitivity: changing %s never changed the serialised bytes in any (type, version) — the field is missing from Serialize", key), nil)
		}
	}
}

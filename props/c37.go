package props

import (
	"fmt"
	"math"
	"math/big"
	"math/rand"
	"os"
	"path/filepath"
	"strings"

	"github.com/elastos/Elastos.ELA/account"
	"github.com/elastos/Elastos.ELA/blockchain"
	"github.com/elastos/Elastos.ELA/common"
	pg "github.com/elastos/Elastos.ELA/core/contract/program"
	"github.com/elastos/Elastos.ELA/core/types/interfaces"
	"github.com/elastos/Elastos.ELA/crypto"

	"verif/kit"
	"verif/kit/node"
)

// C37 — wallet signatures verify, and only for the signed data; address and
// amount strings parse back.
//
// S: transactions signed through every wallet path (account.SignStandard-
//    Transaction, SignMultiSignTransaction one signer after the other in a
//    permuted order, SignMultiSignTransactionByM, account.Client.Sign /
//    MultiSign on keystore files incl. a re-opened keystore, Schnorr
//    aggregate) must pass blockchain.RunPrograms AND the independent model;
//    after changing one byte of the unsigned serialisation both must fail.
//    Witness parameters that carry no authorisation (empty, zero, random,
//    short, one signature short, repeated, other keys, other content) must fail.
// G: the same two oracles over the account-shape grid: every script class under
//    every address prefix RunPrograms verifies it for (incl. deposit- and
//    standard-prefixed m-of-n with m==n and m<n) - c37_grid.go.
// K: wallets written through the real keystore, re-opened, then used for
//    signing; private keys of 32, 31 and 30 significant bytes - c37_grid.go.
// C: Uint168.ToAddress / Uint168FromAddress and Fixed64.String /
//    StringToFixed64 against the independent codecs of c05_model.go.

func init() {
	kit.Register(&kit.Spec{
		ID:     "C37",
		Rule:   "S: key sets of 1..8 fresh P-256 keys; standard, every (m,n) with 2<=n<=8, Schnorr aggregates of 1..8 keys; random TransferAsset transactions (v0/v9, 1..4 inputs, 1..4 outputs, attributes, lock time); each signed through one wallet path with the signer order permuted; then one byte of the unsigned bytes changed at every position (<=400) for standard and Schnorr witnesses and at a seeded sample of max(24, 800/(m*n)) positions incl. first and last for m-of-n witnesses; then 6..10 witness parameters without authorisation (empty, zero, random, short by one byte, one signature short, one signature repeated, signed by keys outside the script, signed over other content). G: a fixed grid of 116 account shapes = (m-of-n script for every 1<=m<=n<=8) x (address prefix 0x1F deposit, 0x12 multisig, 0x21 standard) + standard and 1/3/8-key Schnorr scripts x (0x21, 0x1F); quick deals the cells out over the shards (the schedule does not depend on the seed), thorough runs every cell 3 times per shard; fresh keys order, transaction and wallet path (function / ByM / single-key keystores one after the other / keystore MultiSign / re-opened keystore) per cell; 24 (thorough 96; fewer for large m*n, at least 4) byte changes + truncation + extension of the signed content + the forged parameters; 1-of-1 scripts: forged parameters only. K: per round 7 keystore files written by account.Create/CreateAccount/SaveAccount/CreateFromAccount/Add and by the import flow (Open + SaveAccount), private-key scalars of 32, 31 and 30 significant bytes and a 32-byte key with a leading zero byte constructed from the seed plus wallet-generated keys; every file re-opened with account.Open BEFORE any signing; each stored account signs a standard transaction (Client.Sign), n-of-n and m-of-n scripts containing a short-scalar key are signed by Client.MultiSign and by single-key re-opened wallets one after the other (short-scalar co-signers first); judged against the address computed before the save. C: every issued address prefix x random 20-byte hashes, mutated address strings (one character replaced / transposed / dropped / inserted / non-alphabet / leading ones); Fixed64 edge values and random values of every magnitude. distinct = distinct (part, path, m, n, prefix, unsigned bytes) resp. codec input; non-trivial = the wallet produced a witness and the node's check was executed on it resp. the codec returned a string",
		Shards: func(tier string) int { return 8 },
		Run:    runC37,
		Require: []string{"S_signed:standard-func", "S_signed:standard-client", "S_signed:multisig-sequential", "S_signed:multisig-byM", "S_signed:multisig-client-sequential", "S_signed:multisig-client-multisign", "S_signed:schnorr", "S_signed:reopened-keystore",
			"S_accepted", "S_mutations_rejected", "S_forged_rejected",
			"G_judged:multisig", "G_judged:deposit-multisig-n-of-n", "G_judged:deposit-multisig-m-of-n", "G_judged:std-prefix-multisig-n-of-n", "G_judged:std-prefix-multisig-m-of-n",
			"G_judged:standard", "G_judged:deposit-standard", "G_judged:schnorr", "G_judged:deposit-schnorr",
			"G_nn:1-of-1:prefix-0x1f", "G_nn:2-of-2:prefix-0x1f", "G_nn:3-of-3:prefix-0x1f", "G_nn:8-of-8:prefix-0x1f", "G_nn:2-of-2:prefix-0x21", "G_nn:8-of-8:prefix-0x12", "G_m<n_cells:prefix-0x1f", "G_m<n_cells:prefix-0x21", "G_m<n_cells:prefix-0x12",
			"G_forged:deposit-multisig-n-of-n", "G_forged:deposit-multisig-m-of-n", "G_forged:std-prefix-multisig-n-of-n", "G_forged:std-prefix-multisig-m-of-n", "G_forged:multisig", "G_forged:deposit-standard", "G_forged:deposit-schnorr",
			"G_negative_only_1of1:deposit-multisig-n-of-n", "G_negative_only_1of1:multisig", "G_negative_only_1of1:std-prefix-multisig-n-of-n",
			"G_signed:multisig-sequential", "G_signed:multisig-byM", "G_signed:multisig-client-sequential", "G_signed:multisig-client-multisign", "G_signed:multisig-reopened-multisign",
			"G_accepted", "G_mutations_rejected", "G_forged_rejected",
			"K_keystores_reopened", "K_imported_into_reopened_wallet",
			"K_signed:keystore-reopen-standard", "K_signed:keystore-reopen-multisign", "K_signed:keystore-reopen-cosigners",
			"K_judged:scalar-32", "K_judged:scalar-31", "K_judged:scalar-30", "K_judged:scalar-32-leading-zero-byte", "K_judged:wallet-generated",
			"K_judged:multisig-script-with-short-scalar-key", "K_judged:multisig-with-short-scalar-cosigner", "K_judged:deposit-multisig-n-of-n",
			"K_accepted", "K_mutations_rejected", "K_forged_rejected",
			"max:S_mn_combinations_in_one_shard", "S_mn:1-of-2", "S_mn:8-of-8", "S_mn:5-of-7", "C_addr_roundtrips", "C_addr_mutants_rejected", "C_fixed64_roundtrips", "C_fixed64_edges"},
		Assumptions: []string{"Go standard library crypto (ecdsa, elliptic, sha256), math/big and x/crypto/ripemd160 are correct",
			"a wallet that cannot produce a witness at all (1-of-1 multisig scripts are refused by the signer) is reported as a note, not as a failing signature",
			"part K: the keystore's IV/master key, the keys made by Client.CreateAccount and ECDSA nonces come from crypto/rand inside the wallet (not replayable); every chosen key, script, transaction and mutation comes from the seed, and the private-key length classes the verdicts depend on are constructed, not awaited"},
	})
}

func c37RandKey(r *rand.Rand) c05Key { return c05RandKey(r) }

// single-account wallet map as the account package expects it
func c37Wallet(ks ...c05Key) map[common.Uint160]*account.Account {
	m := map[common.Uint160]*account.Account{}
	for _, k := range ks {
		m[k.acc.ProgramHash.ToCodeHash()] = k.acc
	}
	return m
}

type c37Client struct {
	cl   *account.Client
	keys []c05Key
	path string
}

func c37NewClient(c *kit.Ctx, name string, ks ...c05Key) (*c37Client, error) {
	path := filepath.Join(c.WorkDir, name+".dat")
	cl, err := account.CreateFromAccount(path, []byte("verif-pw-"+name), ks[0].acc)
	if err != nil {
		return nil, err
	}
	for _, k := range ks[1:] {
		if err := cl.SaveAccount(k.acc); err != nil {
			return nil, err
		}
	}
	return &c37Client{cl: cl, keys: ks, path: path}, nil
}

func c37Positions(r *rand.Rand, n, budget int) []int {
	if n <= budget {
		ps := make([]int, n)
		for i := range ps {
			ps[i] = i
		}
		return ps
	}
	seen := map[int]bool{0: true, n - 1: true}
	ps := []int{0, n - 1}
	for len(ps) < budget {
		p := r.Intn(n)
		if !seen[p] {
			seen[p] = true
			ps = append(ps, p)
		}
	}
	return ps
}

func runC37(c *kit.Ctx) {
	if dn, err := os.OpenFile(os.DevNull, os.O_WRONLY, 0); err == nil {
		os.Stdout = dn
	}
	node.InitGlobals(c.WorkDir)
	r := c.Rand("c37")
	g := &c05Gen{c: c, r: r}

	// ---- key material & keystores ----
	var pool []c05Key
	for i := 0; i < 16; i++ {
		pool = append(pool, c37RandKey(r))
	}
	g.pool = pool
	j := newC37J(c, c.Rand("c37-neg"))
	var single []*c37Client // client i owns pool[i]
	for i := 0; i < 8; i++ {
		cl, err := c37NewClient(c, fmt.Sprintf("single%d", i), pool[i])
		if err != nil {
			c.Inconclusive("keystore create: %v", err)
			return
		}
		single = append(single, cl)
	}
	big8, err := c37NewClient(c, "all8", pool[:8]...)
	if err != nil {
		c.Inconclusive("keystore create: %v", err)
		return
	}
	// a keystore written by the wallet and read back
	reopened, err := account.Open(big8.path, []byte("verif-pw-all8"))
	if err != nil {
		c.Inconclusive("keystore reopen: %v", err)
		return
	}
	// wallet refuses 1-of-1 multisig scripts although it creates such accounts
	if a, err := account.NewMultiSigAccount(1, []*crypto.PublicKey{pool[0].acc.PublicKey}); err == nil && a != nil {
		tx, _ := c05RandTx(r, []*c05Addr{{hash: a.ProgramHash}}, -1)
		_, serr := account.SignMultiSignTransaction(tx, &pg.Program{Code: a.RedeemScript}, c37Wallet(pool[0]))
		if serr != nil {
			c.Inc("note_wallet_creates_1of1_multisig_account_it_cannot_sign_for")
			if c.Shard == 0 {
				c.Note("account.NewMultiSigAccount(1,[1 key]) yields address %s but SignMultiSignTransaction refuses its script (%v) and the node's ParseMultisigScript needs >= 2 keys: funds sent there cannot be spent", a.Address, serr)
			}
		}
	}

	// ---------- S ----------
	type combo struct{ m, n int }
	var combos []combo
	for n := 2; n <= 8; n++ {
		for m := 1; m <= n; m++ {
			combos = append(combos, combo{m, n})
		}
	}
	paths := []string{"standard-func", "standard-client", "multisig-sequential", "multisig-byM", "multisig-client-sequential", "multisig-client-multisign", "schnorr", "reopened-keystore"}
	nS := c.N(64, 1500)
	mnSeen := map[combo]bool{}
	sampled := 0
	for i := 0; i < nS; i++ {
		path := paths[i%len(paths)]
		cb := combos[(i/len(paths)+c.Shard*5)%len(combos)]
		// keys: for client paths the script keys come from the keystore-backed part of the pool
		fromStores := strings.Contains(path, "client") || path == "reopened-keystore"
		var ks []c05Key
		src := pool
		if fromStores {
			src = pool[:8]
		}
		for _, j := range r.Perm(len(src)) {
			ks = append(ks, src[j])
		}
		var hash common.Uint168
		var code []byte
		var tx interfaces.Transaction
		var prog *pg.Program
		var serr error
		var skeys []c05Key    // the script's keys (forged-witness oracle)
		var sprivs []*big.Int // Schnorr
		desc := path
		mkTx := func(h common.Uint168) {
			tx, _ = c05RandTx(r, []*c05Addr{{hash: h}}, -1)
		}
		switch path {
		case "standard-func", "standard-client":
			k := ks[0]
			skeys = []c05Key{k}
			hash, code = k.acc.ProgramHash, k.acc.RedeemScript
			mkTx(hash)
			if path == "standard-func" {
				prog, serr = account.SignStandardTransaction(tx, &pg.Program{Code: code}, c37Wallet(k))
			} else {
				var owner *c37Client
				for _, s := range single {
					if s.keys[0].acc == k.acc {
						owner = s
					}
				}
				tx.SetPrograms([]*pg.Program{{Code: code}})
				if _, serr = owner.cl.Sign(tx); serr == nil {
					prog = tx.Programs()[0]
				}
			}
		case "reopened-keystore":
			// standard or multisig through the re-opened 8-key keystore
			if i%2 == 0 {
				k := ks[0]
				skeys = []c05Key{k}
				hash, code = k.acc.ProgramHash, k.acc.RedeemScript
				mkTx(hash)
				tx.SetPrograms([]*pg.Program{{Code: code}})
				if _, serr = reopened.Sign(tx); serr == nil {
					prog = tx.Programs()[0]
				}
				desc += "/standard"
			} else {
				var pubs []*crypto.PublicKey
				for _, k := range ks[:cb.n] {
					pubs = append(pubs, k.acc.PublicKey)
				}
				ma, err := account.NewMultiSigAccount(cb.m, pubs)
				if err != nil || ma == nil {
					c.Violate("wallet-cannot-create-multisig-account", fmt.Sprintf("NewMultiSigAccount(%d of %d): %v", cb.m, cb.n, err), nil)
					continue
				}
				hash, code = ma.ProgramHash, ma.RedeemScript
				skeys = ks[:cb.n]
				mkTx(hash)
				tx.SetPrograms([]*pg.Program{{Code: code}})
				if _, serr = reopened.MultiSign(cb.m, tx); serr == nil {
					prog = tx.Programs()[0]
				}
				mnSeen[cb] = true
				desc += fmt.Sprintf("/multisign-%d-of-%d", cb.m, cb.n)
			}
		case "schnorr":
			n := 1 + (i/len(paths))%8
			var accs []*account.Account
			for _, k := range ks[:n] {
				accs = append(accs, k.acc)
			}
			sa := account.NewSchnorrAggregateAccount(accs)
			hash, code = *sa.ProgramHash, sa.RedeemScript
			sprivs = sa.PrivateKeys
			mkTx(hash)
			sig, err := crypto.AggregateSignatures(sa.PrivateKeys, common.Sha256D(c05Serialize(tx)))
			serr = err
			prog = &pg.Program{Code: code, Parameter: append([]byte{}, sig[:]...)}
			desc += fmt.Sprintf("/%d-keys", n)
		default: // multisig paths
			var pubs []*crypto.PublicKey
			for _, k := range ks[:cb.n] {
				pubs = append(pubs, k.acc.PublicKey)
			}
			ma, err := account.NewMultiSigAccount(cb.m, pubs)
			if err != nil || ma == nil {
				c.Violate("wallet-cannot-create-multisig-account", fmt.Sprintf("NewMultiSigAccount(%d of %d): %v", cb.m, cb.n, err), nil)
				continue
			}
			hash, code = ma.ProgramHash, ma.RedeemScript
			skeys = ks[:cb.n]
			mkTx(hash)
			mnSeen[cb] = true
			desc += fmt.Sprintf("/%d-of-%d", cb.m, cb.n)
			signers := ks[:cb.n]
			order := r.Perm(cb.n)[:cb.m] // which co-signers sign, in which order
			switch path {
			case "multisig-sequential":
				prog = &pg.Program{Code: code}
				for _, j := range order {
					if prog, serr = account.SignMultiSignTransaction(tx, prog, c37Wallet(signers[j])); serr != nil {
						break
					}
				}
			case "multisig-byM":
				// one wallet that holds cnt >= m of the co-signer keys
				cnt := cb.m + r.Intn(cb.n-cb.m+1)
				var have []c05Key
				for _, j := range r.Perm(cb.n)[:cnt] {
					have = append(have, signers[j])
				}
				prog, serr = account.SignMultiSignTransactionByM(cb.m, tx, &pg.Program{Code: code}, c37Wallet(have...))
				if serr == nil && len(prog.Parameter)/crypto.SignatureScriptLength > cb.m {
					c.Inc("note_byM_produced_more_than_m_signatures")
				}
			case "multisig-client-sequential":
				tx.SetPrograms([]*pg.Program{{Code: code}})
				for _, j := range order {
					var owner *c37Client
					for _, s := range single {
						if s.keys[0].acc == signers[j].acc {
							owner = s
						}
					}
					if _, serr = owner.cl.Sign(tx); serr != nil {
						break
					}
				}
				if serr == nil {
					prog = tx.Programs()[0]
				}
			case "multisig-client-multisign":
				tx.SetPrograms([]*pg.Program{{Code: code}})
				if _, serr = big8.cl.MultiSign(cb.m, tx); serr == nil {
					prog = tx.Programs()[0]
				}
			}
		}
		c.Begin("S case %d %s", i, desc)
		data := c05Serialize(tx)
		c.Case(fmt.Sprintf("S:%s:%x", desc, data), serr == nil && prog != nil)
		if serr != nil || prog == nil {
			c.Violate("wallet-signing-failed:"+path, fmt.Sprintf("%s: %v", desc, serr), nil)
			continue
		}
		c.Inc("S_signed:" + path)
		hashes := []common.Uint168{hash}
		run := func(d []byte) (ok bool, panicked bool) {
			var err error
			p, _, _ := kit.Guard(func() { err = blockchain.RunPrograms(d, hashes, []*pg.Program{prog}) })
			return !p && err == nil, p
		}
		mp := mProg{Code: prog.Code, Param: prog.Parameter}
		implOK, _ := run(data)
		modelOK := mPair([21]byte(hash), mp, data).OK
		if sampled < 3 && i%5 == 0 {
			sampled++
			c.Sample(map[string]interface{}{"part": "S", "path": desc, "unsigned_len": len(data), "code": c05Hex(prog.Code), "signatures": len(prog.Parameter) / 64,
				"node_accepts": implOK, "model_accepts": modelOK})
		}
		if !implOK {
			c.Violate("wallet-signed-rejected:"+path, fmt.Sprintf("%s: RunPrograms rejects the wallet's witness", desc),
				map[string]interface{}{"path": desc, "code": c05Hex(prog.Code), "parameter": c05Hex(prog.Parameter), "data": c05Hex(data)})
			continue
		}
		if !modelOK {
			c.Violate("wallet-signed-fails-model:"+path, fmt.Sprintf("%s: the independent verifier rejects the wallet's witness that the node accepts", desc),
				map[string]interface{}{"path": desc, "code": c05Hex(prog.Code), "parameter": c05Hex(prog.Parameter), "data": c05Hex(data)})
			continue
		}
		c.Inc("S_accepted")
		// ---- every single-byte change of the signed content must invalidate ----
		wkind := mPair([21]byte(hash), mp, data).Kind // standard | multisig | schnorr: the verification path
		budget := 400
		if strings.HasPrefix(path, "multisig") || strings.Contains(desc, "multisign") {
			// a rejected m-of-n check costs up to (signatures x n) verifications
			budget = 800 / (cb.m * cb.n)
			if budget < 24 {
				budget = 24
			}
			if budget > 400 {
				budget = 400
			}
		}
		for _, pos := range c37Positions(r, len(data), budget) {
			d := append([]byte{}, data...)
			d[pos] ^= byte(1 << uint(r.Intn(8)))
			ok, _ := run(d)
			c.Inc("S_mutations")
			if ok {
				c.Violate("mutated-data-accepted:"+wkind, fmt.Sprintf("%s: RunPrograms still accepts after byte %d of %d changed", desc, pos, len(data)),
					map[string]interface{}{"path": desc, "pos": pos, "data": c05Hex(d)})
				break
			}
			c.Inc("S_mutations_rejected")
		}
		// a few model-side mutations (cheap cross check of the oracle's own sensitivity)
		for k := 0; k < 3; k++ {
			d := append([]byte{}, data...)
			d[r.Intn(len(d))] ^= byte(1 << uint(r.Intn(8)))
			if mPair([21]byte(hash), mp, d).OK {
				c.Inconclusive("model accepts a witness over modified data (%s)", desc)
			}
		}
		// witness parameters without authorisation (every m-of-n shape gets them in part G)
		if wkind != "multisig" {
			j.forged(&c37Wit{fam: "S", desc: desc, shape: wkind, kind: wkind, hash: hash, code: prog.Code, prog: prog, m: 1, keys: skeys, privs: sprivs}, data)
		}
		// field-level change through the transaction object
		tx.SetLockTime(tx.LockTime() ^ (1 << uint(r.Intn(32))))
		if ok, _ := run(c05Serialize(tx)); ok {
			c.Violate("signature-does-not-cover:lock-time", fmt.Sprintf("%s: RunPrograms accepts after the lock time changed", desc), nil)
		} else {
			c.Inc("S_field_mutations_rejected")
		}
	}
	c.Max("max:S_mn_combinations_in_one_shard", int64(len(mnSeen)))
	for cb := range mnSeen {
		c.Inc(fmt.Sprintf("S_mn:%d-of-%d", cb.m, cb.n))
	}

	// ---------- G: account-shape grid ----------
	j.grid(pool[:8], single, big8.cl, reopened)

	// ---------- K: keystores written, re-opened, then used ----------
	for round := 0; round < c.N(1, 12); round++ {
		j.keystores(round)
	}

	// ---------- C: address codec ----------
	prefixes := []byte{0x21, 0x12, 0x4B, 0x1F, 0x67, 0x3f}
	nAddr := c.N(3000, 150000)
	for i := 0; i < nAddr; i++ {
		var ph common.Uint168
		ph[0] = prefixes[i%len(prefixes)]
		switch (i / len(prefixes)) % 5 {
		case 0:
			// all zero / all ones / sparse hashes
			if i%2 == 0 {
				for j := 1; j < 21; j++ {
					ph[j] = 0xff
				}
			}
			ph[1+r.Intn(20)] ^= byte(r.Intn(256))
		default:
			r.Read(ph[1:])
		}
		s, err := ph.ToAddress()
		c.Case("addr:"+ph.String(), err == nil)
		if err != nil {
			c.Violate("address-encode-error", fmt.Sprintf("ToAddress(%s): %v", ph, err), nil)
			continue
		}
		if want := mAddress([21]byte(ph)); want != s {
			c.Violate("address-encode-differs", fmt.Sprintf("ToAddress(%s)=%q, reference base58check=%q", ph, s, want), nil)
			continue
		}
		var back *common.Uint168
		p, pv, _ := kit.Guard(func() { back, err = common.Uint168FromAddress(s) })
		if p || err != nil || back == nil || *back != ph {
			c.Violate("address-roundtrip", fmt.Sprintf("Uint168FromAddress(ToAddress(%s)=%q) -> %v err=%v panic=%v", ph, s, back, err, pv), map[string]interface{}{"program_hash": ph.String(), "address": s})
			continue
		}
		c.Inc("C_addr_roundtrips")
		if i < 2 && c.Shard == 0 {
			c.Sample(map[string]interface{}{"part": "C", "program_hash": ph.String(), "address": s})
		}
		// mutated strings
		for k := 0; k < 6; k++ {
			b := []byte(s)
			kind := ""
			switch k {
			case 0:
				kind = "replace"
				p := r.Intn(len(b))
				ch := mB58[r.Intn(58)]
				for ch == b[p] {
					ch = mB58[r.Intn(58)]
				}
				b[p] = ch
			case 1:
				kind = "transpose"
				p := r.Intn(len(b) - 1)
				if b[p] == b[p+1] {
					continue
				}
				b[p], b[p+1] = b[p+1], b[p]
			case 2:
				kind = "non-alphabet"
				bad := "0OIl+/ \x00\xff"
				b[r.Intn(len(b))] = bad[r.Intn(len(bad))]
			case 3:
				kind = "length"
				if r.Intn(2) == 0 {
					p := r.Intn(len(b))
					b = append(b[:p], b[p+1:]...)
				} else {
					b = append(b, mB58[r.Intn(58)])
				}
			case 4:
				kind = "leading-ones"
				for j := 0; j < 1+r.Intn(len(b)); j++ {
					b[j] = '1'
				}
			default:
				kind = "case-flip"
				p := r.Intn(len(b))
				nb := b[p] ^ 0x20
				if !strings.ContainsRune(mB58, rune(nb)) || nb == b[p] {
					continue
				}
				b[p] = nb
			}
			mut := string(b)
			if mut == s {
				continue
			}
			var h2 *common.Uint168
			var e2 error
			p, pv, _ := kit.Guard(func() { h2, e2 = common.Uint168FromAddress(mut) })
			c.Inc("C_addr_mutants")
			switch {
			case p:
				// not an acceptance; panic freedom on untrusted strings is C03's subject
				c.Inc("C_addr_mutant_panics")
				c.Inc("C_addr_mutant_panics:" + kind)
				if c.Shard == 0 {
					c.Note("Uint168FromAddress(%q) panics: %v", mut, pv)
				}
			case e2 != nil || h2 == nil:
				c.Inc("C_addr_mutants_rejected")
			default:
				// accepted: only legitimate if the string is the canonical address of the returned hash (a 2^-32 checksum collision)
				if mAddress([21]byte(*h2)) != mut {
					c.Violate("address-decode-accepts-noncanonical", fmt.Sprintf("Uint168FromAddress(%q) (mutation %s of %q) = %s whose address is %q", mut, kind, s, h2, mAddress([21]byte(*h2))), nil)
				} else if *h2 == ph {
					c.Violate("address-decode-not-injective", fmt.Sprintf("%q and %q decode to the same hash", mut, s), nil)
				} else {
					c.Inc("C_addr_mutant_checksum_collisions")
				}
			}
		}
	}

	// ---------- C: Fixed64 ----------
	e8 := int64(100000000)
	edges := []int64{0, 1, -1, e8 - 1, -(e8 - 1), e8, -e8, e8 + 1, -(e8 + 1), 10 * e8, 99999999 * e8, 99999999*e8 + 99999999, 100000000 * e8, -9999999 * e8, -10000000 * e8, -10000000*e8 - 1,
		33000000 * e8, 12345678 * e8, 123456789 * e8, 123456789*e8 + 1, math.MaxInt64, math.MinInt64, math.MaxInt64 - 1, math.MinInt64 + 1, 92233720368 * e8, -92233720368 * e8}
	checkF := func(v int64, edge bool) {
		f := common.Fixed64(v)
		s := f.String()
		c.Case("fixed64:"+fmt.Sprint(v), true)
		// the rendered string denotes exactly v * 10^-8
		rat, ok := new(big.Rat).SetString(s)
		want := new(big.Rat).SetFrac(big.NewInt(v), big.NewInt(e8))
		if !ok || rat.Cmp(want) != 0 {
			c.Violate("fixed64-string-wrong-value", fmt.Sprintf("Fixed64(%d).String()=%q does not denote %s", v, s, want.FloatString(8)), map[string]interface{}{"value": v})
			return
		}
		if s != mFixed64String(v) {
			c.Inc("note_fixed64_string_format_differs_from_reference")
		}
		var back *common.Fixed64
		var err error
		p, pv, _ := kit.Guard(func() { back, err = common.StringToFixed64(s) })
		class := "fraction"
		if !strings.Contains(s, ".") {
			class = "whole-number"
			if len(s) >= 9 {
				class = "whole-number-of-9-or-more-characters"
			}
		}
		switch {
		case p:
			c.Violate("fixed64-parse-panic:"+class, fmt.Sprintf("StringToFixed64(%q) panics: %v", s, pv), map[string]interface{}{"value": v, "string": s})
		case err != nil:
			c.Violate("fixed64-roundtrip-error:"+class, fmt.Sprintf("StringToFixed64(Fixed64(%d).String()=%q) fails: %v", v, s, err), map[string]interface{}{"value": v, "string": s})
		case int64(*back) != v:
			c.Violate("fixed64-roundtrip-wrong-value:"+class, fmt.Sprintf("StringToFixed64(%q)=%d, want %d", s, int64(*back), v), map[string]interface{}{"value": v, "string": s})
		default:
			c.Inc("C_fixed64_roundtrips")
			c.Inc("C_fixed64_roundtrips:" + class)
			if edge {
				c.Inc("C_fixed64_edges")
			}
		}
	}
	if c.Shard == 0 {
		for _, v := range edges {
			checkF(v, true)
		}
		c.Sample(map[string]interface{}{"part": "C", "fixed64": int64(123456789), "string": common.Fixed64(123456789).String()})
	} else {
		checkF(edges[c.Shard%len(edges)], true)
	}
	nF := c.N(20000, 500000)
	for i := 0; i < nF; i++ {
		var v int64
		switch i % 6 {
		case 0:
			v = int64(r.Uint64())
		case 1:
			v = r.Int63() >> uint(r.Intn(63))
		case 2:
			v = -(r.Int63() >> uint(r.Intn(63)))
		case 3:
			v = (r.Int63n(92233720368) - 46116860184) * e8 // whole amounts of every size
		case 4:
			v = r.Int63n(40000000) * e8 // whole amounts within the coin supply
		default:
			k := int64(math.Pow10(r.Intn(9)))
			v = r.Int63n(40000000*e8) / k * k // trailing zeros
		}
		checkF(v, false)
	}
}

package props

import (
	"bufio"
	"bytes"
	"encoding/binary"
	"encoding/hex"
	"encoding/json"
	"fmt"
	"io"
	"math"
	"math/rand"
	"os"
	"os/exec"
	"path/filepath"
	"runtime"
	"runtime/debug"
	"sort"
	"strings"
	"time"

	"github.com/elastos/Elastos.ELA/common"
	"github.com/elastos/Elastos.ELA/common/config"
	"github.com/elastos/Elastos.ELA/core/checkpoint"
	"github.com/elastos/Elastos.ELA/core/types"
	crstate "github.com/elastos/Elastos.ELA/cr/state"
	"github.com/elastos/Elastos.ELA/dpos/state"

	"verif/kit/node"
)

// ---------------------------------------------------------------------------
// Level-2 twin workload, node side (shared by C21 / C22 / C24).
//
// Every node of a scenario lives in its OWN process: the check's shard process
// is only the orchestrator/comparator. A sub-process is this binary re-executed
// with VERIF_L2_ROLE set (handled in init() below, like props/c17_sub.go):
//
//	role "build"   the scenario builder: a linear node that runs the seeded
//	               script (l2_scenario.go) through the real mempool and real
//	               confirmed blocks and RECORDS every block + confirm;
//	role "replay"  a node that syncs the recorded chain through
//	               BlockPool.AddDposBlock. With Reorgs == nil it is the linear
//	               twin B. With Reorgs it is node A: at each listed fork point
//	               it first mines its own (losing) branch with different,
//	               state-affecting transactions and then receives the recorded
//	               blocks, the last of which makes the node reorganise.
//
// Observation is passive: two extra checkpoint.ICheckPoint objects are
// registered with the node's checkpoint.Manager (public API), one sorted before
// and one after the CR / DPoS / tx-pool checkpoints. The manager calls them on
// every OnBlockSaved / OnRollbackTo, i.e. exactly where blockchain.go updates
// and rolls back the consensus state; the late probe snapshots the state, the
// pair brackets the step with the global-source canary (C24).
// ---------------------------------------------------------------------------

const (
	l2EnvRole   = "VERIF_L2_ROLE"
	l2EnvParams = "VERIF_L2_PARAMS"
)

type l2Reorg struct {
	At      uint32 `json:"at"`      // canonical height of the fork point
	Depth   int    `json:"depth"`   // losing blocks to mine (1..6)
	Seed    int64  `json:"seed"`    // stream of the losing branch
	Offline int    `json:"offline"` // elected arbiters abstaining on the losing branch
}

type l2Params struct {
	Role       string    `json:"role"`
	Name       string    `json:"name"`
	Dir        string    `json:"dir"`
	Record     string    `json:"record"`
	Out        string    `json:"out"`
	Snap       string    `json:"snap"`
	Era        string    `json:"era"`
	DutyPeriod uint32    `json:"duty_period"`
	NeedSave   bool      `json:"need_save"`
	Long       uint32    `json:"long"` // build: quiet chain up to this height (save-boundary scenario)
	Seed       int64     `json:"seed"`
	Profile    int       `json:"profile"`
	Reorgs     []l2Reorg `json:"reorgs"`
	Evidence   bool      `json:"evidence"` // route ETIllegalBlockEvidence into the mempool as netsync does
	RandSeed   int64     `json:"rand_seed"`
	MaxProcs   int       `json:"max_procs"`
	DelayMs    int       `json:"delay_ms"`
	Canary     bool      `json:"canary"`
	SnapDPoS   bool      `json:"snap_dpos"`
	SnapCR     bool      `json:"snap_cr"`
	Decisions  bool      `json:"decisions"`
	SnapFrom   uint32    `json:"snap_from"`
	Trace      string    `json:"trace"`
}

type l2ReorgDone struct {
	At          uint32   `json:"at"`
	Want        int      `json:"want"`
	Mined       int      `json:"mined"`
	Reorganized bool     `json:"reorganized"`
	Offline     []string `json:"offline,omitempty"`
	Ops         []string `json:"ops,omitempty"`
	Stop        string   `json:"stop,omitempty"`
	Era         string   `json:"era"`
}

type l2CanaryHit struct {
	Height uint32 `json:"height"`
	Step   string `json:"step"`
	Kind   string `json:"kind"` // "drew" (n draws, stream not reseeded) | "reseeded"
}

type l2Result struct {
	Done        bool                `json:"done"`
	Err         string              `json:"err,omitempty"`
	Counters    map[string]int64    `json:"counters"`
	Notes       []string            `json:"notes,omitempty"`
	Height      uint32              `json:"height"`
	Tip         string              `json:"tip"`
	Reorgs      []l2ReorgDone       `json:"reorgs,omitempty"`
	Canary      []l2CanaryHit       `json:"canary,omitempty"`
	CanaryArmed int64               `json:"canary_armed"`
	Ops         map[uint32][]string `json:"ops,omitempty"`
	StartNano   int64               `json:"start_nano"`
	MaxProcs    int                 `json:"max_procs"`
	V2Active    uint32              `json:"v2_active"`
}

func init() {
	role := os.Getenv(l2EnvRole)
	if role == "" {
		return
	}
	var p l2Params
	if err := json.Unmarshal([]byte(os.Getenv(l2EnvParams)), &p); err != nil {
		fmt.Fprintln(os.Stderr, "l2 sub: bad params:", err)
		os.Exit(3)
	}
	os.Unsetenv(l2EnvRole)
	if p.DelayMs > 0 {
		time.Sleep(time.Duration(p.DelayMs) * time.Millisecond)
	}
	if p.MaxProcs > 0 {
		runtime.GOMAXPROCS(p.MaxProcs)
	}
	debug.SetGCPercent(200)
	res := &l2Result{Counters: map[string]int64{}, StartNano: time.Now().UnixNano(), MaxProcs: runtime.GOMAXPROCS(0), Ops: map[uint32][]string{}}
	if p.RandSeed != 0 {
		rand.Seed(p.RandSeed)
	}
	func() {
		defer func() {
			if r := recover(); r != nil {
				res.Err = fmt.Sprintf("panic: %v\n%s", r, debug.Stack())
			}
		}()
		switch role {
		case "build":
			l2RunBuild(&p, res)
		case "replay":
			l2RunReplay(&p, res)
		default:
			res.Err = "unknown role " + role
		}
	}()
	b, _ := json.Marshal(res)
	tmp := p.Out + ".tmp"
	os.WriteFile(tmp, b, 0644)
	os.Rename(tmp, p.Out)
	os.Exit(0)
}

// l2Spawn re-executes this binary as an L2 node process and returns a wait func.
func l2Spawn(p *l2Params, timeout time.Duration) func() (*l2Result, error) {
	self, err := os.Executable()
	if err != nil {
		return func() (*l2Result, error) { return nil, err }
	}
	pj, _ := json.Marshal(p)
	cmd := exec.Command(self)
	cmd.Env = append(os.Environ(), l2EnvRole+"="+p.Role, l2EnvParams+"="+string(pj))
	var stderr bytes.Buffer
	cmd.Stderr = &stderr
	cmd.Stdout = io.Discard
	if err := cmd.Start(); err != nil {
		return func() (*l2Result, error) { return nil, err }
	}
	done := make(chan error, 1)
	go func() { done <- cmd.Wait() }()
	return func() (*l2Result, error) {
		select {
		case err := <-done:
			b, rerr := os.ReadFile(p.Out)
			if rerr != nil {
				tail := stderr.String()
				if len(tail) > 1500 {
					tail = tail[len(tail)-1500:]
				}
				return nil, fmt.Errorf("%s %s: no result (%v): %s", p.Role, p.Name, err, tail)
			}
			var r l2Result
			if jerr := json.Unmarshal(b, &r); jerr != nil {
				return nil, jerr
			}
			return &r, nil
		case <-time.After(timeout):
			cmd.Process.Kill()
			<-done
			return nil, fmt.Errorf("%s %s: watchdog after %v", p.Role, p.Name, timeout)
		}
	}
}

// ---------- recorded chain ----------

type l2Recorder struct {
	f *os.File
	w *bufio.Writer
}

func l2NewRecorder(path string) (*l2Recorder, error) {
	f, err := os.Create(path)
	if err != nil {
		return nil, err
	}
	return &l2Recorder{f: f, w: bufio.NewWriterSize(f, 1<<20)}, nil
}

func (r *l2Recorder) add(db *types.DposBlock) error {
	buf := new(bytes.Buffer)
	if err := db.Serialize(buf); err != nil {
		return err
	}
	var l [4]byte
	binary.LittleEndian.PutUint32(l[:], uint32(buf.Len()))
	r.w.Write(l[:])
	_, err := r.w.Write(buf.Bytes())
	return err
}

func (r *l2Recorder) close() { r.w.Flush(); r.f.Close() }

func l2ReadRecord(path string) ([]*types.DposBlock, error) {
	b, err := os.ReadFile(path)
	if err != nil {
		return nil, err
	}
	var out []*types.DposBlock
	for len(b) >= 4 {
		n := int(binary.LittleEndian.Uint32(b))
		b = b[4:]
		if n > len(b) {
			return nil, fmt.Errorf("truncated record")
		}
		db := &types.DposBlock{}
		if err := db.Deserialize(bytes.NewReader(b[:n])); err != nil {
			return nil, fmt.Errorf("record %d: %v", len(out), err)
		}
		out = append(out, db)
		b = b[n:]
	}
	return out, nil
}

// ---------- snapshot stream ----------

// l2Snap is one observation of the consensus state.
//
//	Event 'S': after the checkpoint manager handed block (Height, Hash) to all checkpoints;
//	Event 'R': after all checkpoints were rolled back to Height (Hash = the block at Height on that chain).
type l2Snap struct {
	Event  byte
	Height uint32
	Hash   common.Uint256
	Seq    uint32
	DPoS   []byte // state.CheckPoint.Serialize
	Extra  []byte // JSON l2Extra
	CR     []byte // cr/state Checkpoint.Serialize
	Dec    []byte // decisions line (C24)
}

type l2Extra struct {
	LastIrreversibleHeight uint32
	ConsensusAlgorithm     string
	Degradation            c21Degradation
	HistoryHeight          c21HistHeights
	CRMember               map[string]c21CRMember
}

func (s *l2Snap) write(w io.Writer) {
	var h [1 + 4 + 32 + 4]byte
	h[0] = s.Event
	binary.LittleEndian.PutUint32(h[1:], s.Height)
	copy(h[5:], s.Hash[:])
	binary.LittleEndian.PutUint32(h[37:], s.Seq)
	w.Write(h[:])
	for _, b := range [][]byte{s.DPoS, s.Extra, s.CR, s.Dec} {
		var l [4]byte
		binary.LittleEndian.PutUint32(l[:], uint32(len(b)))
		w.Write(l[:])
		w.Write(b)
	}
}

func l2ReadSnaps(path string) ([]*l2Snap, error) {
	b, err := os.ReadFile(path)
	if err != nil {
		return nil, err
	}
	var out []*l2Snap
	for len(b) > 0 {
		if len(b) < 41 {
			return nil, fmt.Errorf("truncated snapshot stream")
		}
		s := &l2Snap{Event: b[0], Height: binary.LittleEndian.Uint32(b[1:]), Seq: binary.LittleEndian.Uint32(b[37:])}
		copy(s.Hash[:], b[5:37])
		b = b[41:]
		for i := 0; i < 4; i++ {
			if len(b) < 4 {
				return nil, fmt.Errorf("truncated snapshot stream")
			}
			n := int(binary.LittleEndian.Uint32(b))
			b = b[4:]
			if n > len(b) {
				return nil, fmt.Errorf("truncated snapshot stream")
			}
			v := b[:n:n]
			b = b[n:]
			switch i {
			case 0:
				s.DPoS = v
			case 1:
				s.Extra = v
			case 2:
				s.CR = v
			case 3:
				s.Dec = v
			}
		}
		out = append(out, s)
	}
	return out, nil
}

// ---------- probes ----------

// l2Probe is a do-nothing checkpoint whose only purpose is to be called by the
// checkpoint manager in priority order.
type l2Probe struct {
	key      string
	prio     checkpoint.Priority
	saved    func(b *types.DposBlock)
	rollback func(h uint32)
}

func (p *l2Probe) Serialize(w io.Writer) error   { return nil }
func (p *l2Probe) Deserialize(r io.Reader) error { return nil }
func (p *l2Probe) OnBlockSaved(b *types.DposBlock) {
	if p.saved != nil {
		p.saved(b)
	}
}
func (p *l2Probe) OnRollbackTo(h uint32) error {
	if p.rollback != nil {
		p.rollback(h)
	}
	return nil
}
func (p *l2Probe) OnRollbackSeekTo(uint32)          {}
func (p *l2Probe) Key() string                      { return p.key }
func (p *l2Probe) Snapshot() checkpoint.ICheckPoint { return p }
func (p *l2Probe) GetHeight() uint32                { return 0 }
func (p *l2Probe) SetHeight(uint32)                 {}
func (p *l2Probe) SavePeriod() uint32               { return math.MaxUint32 }
func (p *l2Probe) SaveStartHeight() uint32          { return math.MaxUint32 }
func (p *l2Probe) EffectivePeriod() uint32          { return math.MaxUint32 }
func (p *l2Probe) DataExtension() string            { return ".l2probe" }
func (p *l2Probe) Generator() func(buf []byte) checkpoint.ICheckPoint {
	return func([]byte) checkpoint.ICheckPoint { return p }
}
func (p *l2Probe) LogError(error)                {}
func (p *l2Probe) Priority() checkpoint.Priority { return p.prio }
func (p *l2Probe) OnInit()                       {}
func (p *l2Probe) StartHeight() uint32           { return 0 }
func (p *l2Probe) OnReset() error                { return nil }

// l2Observer owns the probes of one node.
type l2Observer struct {
	p      *l2Params
	nd     *node.Node
	res    *l2Result
	out    *bufio.Writer
	f      *os.File
	seq    uint32
	hashAt map[uint32]common.Uint256 // last block saved at a height
	canary randCanary
	armed  bool
	step   string
	crcp   *crstate.Checkpoint
}

func l2Attach(nd *node.Node, p *l2Params, res *l2Result) (*l2Observer, error) {
	o := &l2Observer{p: p, nd: nd, res: res, hashAt: map[uint32]common.Uint256{}}
	if p.Snap != "" {
		f, err := os.Create(p.Snap)
		if err != nil {
			return nil, err
		}
		o.f = f
		o.out = bufio.NewWriterSize(f, 1<<20)
	}
	if cp, ok := nd.Ckp.GetCheckpoint("cp_cr", math.MaxUint32); ok {
		o.crcp, _ = cp.(*crstate.Checkpoint)
	}
	g := nd.Cfg.GenesisBlock.Hash()
	o.hashAt[0] = g
	nd.Ckp.Register(&l2Probe{key: "l2_pre", prio: checkpoint.VeryHigh,
		saved:    func(b *types.DposBlock) { o.arm(b.Height, "OnBlockSaved(cr,dpos,txpool checkpoints)") },
		rollback: func(h uint32) { o.arm(h, "OnRollbackTo(cr,dpos,txpool checkpoints)") }})
	nd.Ckp.Register(&l2Probe{key: "l2_post", prio: checkpoint.Priority(0xfe),
		saved: func(b *types.DposBlock) {
			o.disarm(b.Height)
			o.hashAt[b.Height] = b.Hash()
			o.snap('S', b.Height, b.Hash())
		},
		rollback: func(h uint32) {
			o.disarm(h)
			o.snap('R', h, o.hashAt[h])
		}})
	return o, nil
}

func (o *l2Observer) close() {
	if o.out != nil {
		o.out.Flush()
		o.f.Close()
	}
}

// arm / disarm: the global-source canary around one consensus-state step.
// K depends on the run's own seed, so two twin runs have different global
// streams at every step.
func (o *l2Observer) arm(h uint32, step string) {
	if !o.p.Canary {
		return
	}
	o.canary = armRandCanary(o.p.RandSeed ^ int64(h)*7919 ^ 0x5eed)
	o.armed, o.step = true, step
	o.res.CanaryArmed++
}

func (o *l2Observer) disarm(h uint32) {
	if !o.armed {
		return
	}
	o.armed = false
	// randCanary.moved() inlined so that a moved canary can be classified:
	// the next global draw is either a later position of the stream of seed K
	// (somebody DREW from the global source: n draws) or not in that stream at
	// all (somebody RESEEDED the global source).
	v := rand.Int63()
	if v == o.canary.want {
		o.res.Counters["canary_unmoved"]++
		return
	}
	src := rand.New(rand.NewSource(o.canary.K))
	src.Int63()
	kind := "reseeded"
	for n := 1; n <= 50000; n++ {
		if src.Int63() == v {
			kind = "drew"
			o.res.Counters["canary_global_draws"] += int64(n)
			break
		}
	}
	o.res.Counters["canary_moved_"+kind]++
	if len(o.res.Canary) < 200 {
		o.res.Canary = append(o.res.Canary, l2CanaryHit{Height: h, Step: o.step, Kind: kind})
	}
}

// bracket runs f (validation only: no database commit) under the canary.
func (o *l2Observer) bracket(h uint32, step string, f func()) {
	if !o.p.Canary {
		f()
		return
	}
	o.arm(h, step)
	f()
	o.disarm(h)
}

func (o *l2Observer) snap(ev byte, h uint32, hash common.Uint256) {
	if o.out == nil || h < o.p.SnapFrom {
		return
	}
	s := &l2Snap{Event: ev, Height: h, Hash: hash, Seq: o.seq}
	o.seq++
	arb := o.nd.Arbiters
	if o.p.SnapDPoS {
		cp := state.NewCheckpoint(arb)
		buf := new(bytes.Buffer)
		if err := cp.Serialize(buf); err != nil {
			o.res.Notes = append(o.res.Notes, fmt.Sprintf("dpos checkpoint serialize at %d: %v", h, err))
		}
		s.DPoS = buf.Bytes()
		ex := l2Extra{LastIrreversibleHeight: arb.GetLastIrreversibleHeight(), ConsensusAlgorithm: arb.GetConsensusAlgorithm().String(),
			CRMember: map[string]c21CRMember{}}
		ex.Degradation.State, ex.Degradation.UnderstaffedSince, ex.Degradation.InactivateHeight, ex.Degradation.InactiveTxs = arb.VerifDegradation()
		ex.HistoryHeight.Arbiters, ex.HistoryHeight.State = arb.VerifHistoryHeights()
		for _, m := range o.nd.Committee.GetAllMembersCopy() {
			ms := m.MemberState
			ex.CRMember[hex.EncodeToString(m.Info.DID[:8])] = c21CRMember{MemberState: (&ms).String(), InactiveCount: m.InactiveCount,
				InactiveCountingHeight: m.InactiveCountingHeight, InactiveCountV2: m.InactiveCountV2, WorkedInRound: m.WorkedInRound,
				DPOSPublicKey: m.DPOSPublicKey, InCommittee: true}
		}
		s.Extra, _ = json.Marshal(ex)
	}
	if o.p.SnapCR && o.crcp != nil {
		if cp, ok := o.crcp.Snapshot().(*crstate.Checkpoint); ok && cp != nil {
			buf := new(bytes.Buffer)
			cp.Height = 0
			if err := cp.Serialize(buf); err == nil {
				s.CR = buf.Bytes()
			}
		} else {
			o.res.Notes = append(o.res.Notes, fmt.Sprintf("cr checkpoint snapshot failed at %d", h))
		}
	}
	if o.p.Decisions && ev == 'S' {
		s.Dec = []byte(l2Decisions(o.nd))
	}
	s.write(o.out)
	o.res.Counters["snapshots_"+string(ev)]++
}

// l2Decisions renders every consensus decision visible after a block: current
// and next arbiters (order = on-duty order), candidates, duty index, the
// on-duty arbiter, the random candidate bookkeeping and the consensus mode.
func l2Decisions(nd *node.Node) string {
	a := nd.Arbiters
	var sb strings.Builder
	ai := func(l []*state.ArbiterInfo) {
		for _, x := range l {
			fmt.Fprintf(&sb, "%x/%v%v%v,", x.NodePublicKey[:6], b2i(x.IsNormal), b2i(x.IsCRMember), b2i(x.ClaimedDPOSNode))
		}
	}
	ks := func(l [][]byte) {
		for _, x := range l {
			if len(x) >= 6 {
				fmt.Fprintf(&sb, "%x,", x[:6])
			} else {
				fmt.Fprintf(&sb, "%x,", x)
			}
		}
	}
	sb.WriteString("cur=")
	ai(a.GetArbitrators())
	sb.WriteString(" next=")
	ai(a.GetNextArbitrators())
	sb.WriteString(" cand=")
	ks(a.GetCandidates())
	sb.WriteString(" nextcand=")
	ks(a.GetNextCandidates())
	fmt.Fprintf(&sb, " duty=%d onduty=%x", a.GetDutyIndex(), a.GetOnDutyArbitrator())
	fmt.Fprintf(&sb, " rnd=%d/%s", a.LastRandomCandidateHeight, a.LastRandomCandidateOwner)
	fmt.Fprintf(&sb, " algo=%s v2active=%d irr=%d", a.GetConsensusAlgorithm().String(), a.GetDPoSV2ActiveHeight(), a.GetLastIrreversibleHeight())
	return sb.String()
}

func b2i(b bool) int {
	if b {
		return 1
	}
	return 0
}

// ---------- node start ----------

func l2Tweak(p *l2Params) func(cfg *config.Configuration) {
	return func(cfg *config.Configuration) {
		node.EraTweak(p.Era)(cfg)
		if p.DutyPeriod != 0 {
			cfg.CRConfiguration.DutyPeriod = p.DutyPeriod
		}
	}
}

func l2StartNode(p *l2Params) (*node.Node, error) {
	os.MkdirAll(p.Dir, 0755)
	return node.Start(node.Options{Dir: p.Dir, CoinbaseMaturity: 2, NeedSave: p.NeedSave, Tweak: l2Tweak(p)})
}

// ---------- parent side helpers ----------

type l2Files struct{ dir string }

func (f l2Files) path(n string) string { return filepath.Join(f.dir, n) }

func l2SortedKeys(m map[string]int64) []string {
	var k []string
	for x := range m {
		k = append(k, x)
	}
	sort.Strings(k)
	return k
}

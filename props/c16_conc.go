package props

import (
	"encoding/binary"
	"fmt"
	"os"
	"path/filepath"
	"runtime"
	"sort"
	"strings"
	"sync"
	"sync/atomic"
	"time"

	"github.com/anishathalye/porcupine"

	"github.com/elastos/Elastos.ELA/database"
	"github.com/elastos/Elastos.ELA/database/ffldb"
	"github.com/elastos/Elastos.ELA/utils/verifhook"

	"verif/kit"
)

// ---------------------------------------------------------------------------
// C16 concurrent variant: 1 writer + 4 readers on one ffldb instance. Every
// client-boundary operation is recorded {client, op, call, return, result}
// with a logical clock (one shared atomic counter). Writes are multi-key
// transactions with globally unique values; reads are snapshot reads of all
// keys inside one View / read-only transaction (atomic multi-key reads).
// Rolled-back write transactions are not part of the history: a read that
// observes one of their values cannot be linearized. Checked with porcupine
// against a register-per-key model.
// ---------------------------------------------------------------------------

const concKeys = 3

type concIn struct {
	Write bool
	Vals  [concKeys]int64 // write: new value (0 = delete), -1 = key untouched
}
type concOut struct {
	Vals [concKeys]int64 // read: observed value (0 = absent)
}

var concModel = porcupine.Model{
	Init: func() interface{} { return [concKeys]int64{} },
	Step: func(state, input, output interface{}) (bool, interface{}) {
		st := state.([concKeys]int64)
		in := input.(concIn)
		if in.Write {
			for i, v := range in.Vals {
				if v >= 0 {
					st[i] = v
				}
			}
			return true, st
		}
		return output.(concOut).Vals == st, st
	},
	Equal: func(a, b interface{}) bool { return a.([concKeys]int64) == b.([concKeys]int64) },
	DescribeOperation: func(input, output interface{}) string {
		in := input.(concIn)
		if in.Write {
			return fmt.Sprintf("write%v", in.Vals)
		}
		return fmt.Sprintf("read->%v", output.(concOut).Vals)
	},
}

// the three keys live in two buckets so that a write transaction spans buckets
var concLoc = [concKeys]struct{ bucket, key string }{{"", "k0"}, {"CB", "k1"}, {"CB", "k2"}}

func concEnc(v int64) []byte {
	b := make([]byte, 8)
	binary.BigEndian.PutUint64(b, uint64(v))
	return b
}
func concDec(b []byte) int64 {
	if b == nil {
		return 0
	}
	if len(b) != 8 {
		return -2
	}
	return int64(binary.BigEndian.Uint64(b))
}

func concBucket(tx database.Tx, name string) database.Bucket {
	if name == "" {
		return tx.Metadata()
	}
	return tx.Metadata().Bucket([]byte(name))
}

// concRead reads all keys inside tx using one of several read paths.
func concRead(tx database.Tx, mode int, order []int, yield func()) (out concOut) {
	for _, i := range order {
		loc := concLoc[i]
		b := concBucket(tx, loc.bucket)
		if b == nil {
			out.Vals[i] = -3
			continue
		}
		switch mode {
		case 0:
			out.Vals[i] = concDec(b.Get([]byte(loc.key)))
		case 1: // through ForEach
			out.Vals[i] = 0
			b.ForEach(func(k, v []byte) error {
				if string(k) == loc.key {
					out.Vals[i] = concDec(v)
				}
				return nil
			})
		default: // through a cursor Seek
			c := b.Cursor()
			out.Vals[i] = 0
			if c.Seek([]byte(loc.key)) && string(c.Key()) == loc.key {
				out.Vals[i] = concDec(c.Value())
			}
		}
		yield()
	}
	return
}

type concEvent struct {
	clock  int64
	client int
	ret    bool
}

func runC16Concurrent(c *kit.Ctx) {
	r := c.Rand("c16-conc")
	nh := c.N(25, 250) // histories per shard: 200 / 4000 in total
	sigs := map[string]bool{}
	for h := 0; h < nh; h++ {
		dir := filepath.Join(c.WorkDir, "c16-conc")
		os.RemoveAll(dir)
		cfgKind := r.Intn(3)
		var cache uint64 = c16Huge
		var flush uint32 = c16NeverSec
		if cfgKind == 0 {
			cache, flush = 0, 0
		}
		db, err := ffldb.VerifOpen(dir, c18Magic, true, 0, cache, flush)
		if err != nil {
			c.Inconclusive("C16 concurrent: cannot create database: %v", err)
			return
		}
		if err := db.Update(func(tx database.Tx) error {
			_, err := tx.Metadata().CreateBucket([]byte("CB"))
			return err
		}); err != nil {
			c.Inconclusive("C16 concurrent: setup: %v", err)
			db.Close()
			return
		}
		c.Begin("C16 concurrent history %d", h)

		// Widen the window inside dbCache.Snapshot (between obtaining the leveldb snapshot and reading
		// the cache roots) for every delayEvery-th snapshot of this history, so that a write transaction's
		// flush can complete inside it. The sleep only shapes the interleaving; no verdict depends on it.
		delayEvery := int64(0)
		if r.Intn(3) != 0 {
			delayEvery = int64(1 + r.Intn(4))
		}
		delayDur := time.Duration(200+r.Intn(1800)) * time.Microsecond
		var snapHits, snapDelays int64
		verifhook.Set(func(name string) {
			if name != "ffldb.snapshot.afterLdbSnapshot" || delayEvery == 0 {
				return
			}
			if atomic.AddInt64(&snapHits, 1)%delayEvery == 0 {
				atomic.AddInt64(&snapDelays, 1)
				time.Sleep(delayDur)
			}
		})

		// pre-drawn plans (all randomness from the seeded stream)
		type wplan struct {
			vals     [concKeys]int64
			rollback bool
			explicit bool
			forceFl  bool
			yields   int
		}
		type rplan struct {
			mode     int
			order    []int
			explicit bool
			yields   int
			pause    int
		}
		nw := 5 + r.Intn(6)
		var wplans []wplan
		next := int64(h+1) * 1000
		for i := 0; i < nw; i++ {
			p := wplan{rollback: r.Intn(4) == 0, explicit: r.Intn(3) == 0, forceFl: cfgKind == 2 && r.Intn(3) == 0, yields: r.Intn(3)}
			touched := false
			for k := 0; k < concKeys; k++ {
				p.vals[k] = -1
				switch r.Intn(5) {
				case 0:
				case 1:
					p.vals[k] = 0
					touched = true
				default:
					next++
					p.vals[k] = next
					touched = true
				}
			}
			if !touched {
				next++
				p.vals[0] = next
			}
			wplans = append(wplans, p)
		}
		const readers = 4
		var rplans [readers][]rplan
		for ri := 0; ri < readers; ri++ {
			for i := 0; i < 4+r.Intn(5); i++ {
				rplans[ri] = append(rplans[ri], rplan{mode: r.Intn(3), order: r.Perm(concKeys), explicit: r.Intn(3) == 0, yields: r.Intn(3), pause: r.Intn(3)})
			}
		}

		var clock int64
		tick := func() int64 { return atomic.AddInt64(&clock, 1) }
		var mu sync.Mutex
		var ops []porcupine.Operation
		var events []concEvent
		record := func(op porcupine.Operation) {
			mu.Lock()
			ops = append(ops, op)
			events = append(events, concEvent{op.Call, op.ClientId, false}, concEvent{op.Return, op.ClientId, true})
			mu.Unlock()
		}
		var rolledBack, committed int64
		var opErr atomic.Value
		start := make(chan struct{})
		var wg sync.WaitGroup
		// writer = client 0
		wg.Add(1)
		go func() {
			defer wg.Done()
			<-start
			for _, p := range wplans {
				p := p
				body := func(tx database.Tx) error {
					for k := 0; k < concKeys; k++ {
						if p.vals[k] < 0 {
							continue
						}
						b := concBucket(tx, concLoc[k].bucket)
						var err error
						if p.vals[k] == 0 {
							err = b.Delete([]byte(concLoc[k].key))
						} else {
							err = b.Put([]byte(concLoc[k].key), concEnc(p.vals[k]))
						}
						if err != nil {
							return err
						}
						for y := 0; y < p.yields; y++ {
							runtime.Gosched()
						}
					}
					if p.rollback {
						return errC16Sentinel
					}
					return nil
				}
				if p.forceFl {
					ffldb.VerifSetFlush(db, c16Huge, 0)
				}
				call := tick()
				var err error
				if p.explicit {
					var tx database.Tx
					tx, err = db.Begin(true)
					if err == nil {
						err = body(tx)
						if err != nil {
							tx.Rollback()
						} else {
							err = tx.Commit()
						}
					}
				} else {
					err = db.Update(body)
				}
				ret := tick()
				if p.forceFl {
					ffldb.VerifSetFlush(db, cache, flush)
				}
				if p.rollback {
					if err != errC16Sentinel {
						opErr.Store(fmt.Sprintf("rolled-back write returned %v", err))
					}
					atomic.AddInt64(&rolledBack, 1)
					continue
				}
				if err != nil {
					opErr.Store(fmt.Sprintf("write transaction failed: %v", err))
					continue
				}
				atomic.AddInt64(&committed, 1)
				record(porcupine.Operation{ClientId: 0, Input: concIn{Write: true, Vals: p.vals}, Call: call, Output: concOut{}, Return: ret})
			}
		}()
		for ri := 0; ri < readers; ri++ {
			ri := ri
			wg.Add(1)
			go func() {
				defer wg.Done()
				<-start
				for _, p := range rplans[ri] {
					for y := 0; y < p.pause; y++ {
						runtime.Gosched()
					}
					yield := func() {
						for y := 0; y < p.yields; y++ {
							runtime.Gosched()
						}
					}
					var out concOut
					call := tick()
					var err error
					if p.explicit {
						var tx database.Tx
						tx, err = db.Begin(false)
						if err == nil {
							out = concRead(tx, p.mode, p.order, yield)
							err = tx.Rollback()
						}
					} else {
						err = db.View(func(tx database.Tx) error {
							out = concRead(tx, p.mode, p.order, yield)
							return nil
						})
					}
					ret := tick()
					if err != nil {
						opErr.Store(fmt.Sprintf("read transaction failed: %v", err))
						continue
					}
					record(porcupine.Operation{ClientId: 1 + ri, Input: concIn{}, Call: call, Output: out, Return: ret})
				}
			}()
		}
		close(start)
		wg.Wait()
		verifhook.Set(nil)
		c.Count("conc_snapshot_delays", atomic.LoadInt64(&snapDelays))
		db.Close()
		os.RemoveAll(dir)

		c.Inc("conc_histories")
		c.Count("conc_ops", int64(len(ops)))
		c.Count("conc_rolled_back_writes", rolledBack)
		c.Count("conc_committed_writes", committed)
		c.Inc(fmt.Sprintf("conc_histories_cfg_%d", cfgKind))
		if v := opErr.Load(); v != nil {
			c.Violate("conc:operation-error", v.(string), nil)
		}
		// interleaving signature + overlap
		sort.Slice(events, func(i, j int) bool { return events[i].clock < events[j].clock })
		var sb strings.Builder
		depth, overlapping := 0, false
		for _, e := range events {
			if e.ret {
				depth--
				fmt.Fprintf(&sb, "r%d ", e.client)
			} else {
				depth++
				if depth > 1 {
					overlapping = true
				}
				fmt.Fprintf(&sb, "c%d ", e.client)
			}
		}
		if overlapping {
			c.Inc("conc_overlapping_histories")
		}
		sig := kit.HashID([]byte(sb.String()))
		if !sigs[sig] {
			sigs[sig] = true
			c.Inc("conc_distinct_interleavings")
		}
		c.Case("conc:"+sig, overlapping && committed >= 1)

		res := porcupine.CheckOperationsTimeout(concModel, ops, 60*time.Second)
		switch res {
		case porcupine.Ok:
			c.Inc("conc_histories_linearizable")
		case porcupine.Unknown:
			c.Inc("conc_histories_unknown")
		default:
			sort.Slice(ops, func(i, j int) bool { return ops[i].Call < ops[j].Call })
			var lines []string
			for _, o := range ops {
				lines = append(lines, fmt.Sprintf("client%d [%d,%d] %s", o.ClientId, o.Call, o.Return, concModel.DescribeOperation(o.Input, o.Output)))
			}
			c.Violate("conc:history-not-linearizable", fmt.Sprintf("history %d (cache config %d) of %d ops has no linearization against the register-per-key model with atomic snapshot reads", h, cfgKind, len(ops)),
				map[string]interface{}{"history": lines, "rolled_back_writes": rolledBack})
		}
		if h == 0 && c.Shard == 0 {
			var lines []string
			for i, o := range ops {
				if i >= 12 {
					break
				}
				lines = append(lines, fmt.Sprintf("client%d [%d,%d] %s", o.ClientId, o.Call, o.Return, concModel.DescribeOperation(o.Input, o.Output)))
			}
			c.Sample(map[string]interface{}{"kind": "concurrent-history", "ops": len(ops), "first_ops": lines, "porcupine": string(res)})
		}
	}
}

package props

import (
	"encoding/hex"
	"sort"

	"github.com/elastos/Elastos.ELA/common"
	"github.com/elastos/Elastos.ELA/core/contract"
	"github.com/elastos/Elastos.ELA/core/types"
	common2 "github.com/elastos/Elastos.ELA/core/types/common"
	"github.com/elastos/Elastos.ELA/core/types/interfaces"
	"github.com/elastos/Elastos.ELA/core/types/outputpayload"
	"github.com/elastos/Elastos.ELA/core/types/payload"

	"verif/kit/node"
)

// c28_model.go — independent exact-integer model of the balances of C28.
//
// The model is fed ONLY with the blocks the node accepted (plus three facts that
// are not under test and are read from the node: the DPoS v2 activation height,
// the outcome of a CR election, and the moment a producer is punished). It does
// not call any repo code for the arithmetic it models; repo packages are used as
// data types (payload structs) and for one identifier hash (DetailedVoteInfo.ReferKey).
//
//	deposit total  = sum of the unspent outputs at the deposit address (own UTXO tracking)
//	required lock  = 5000 ELA (v1 / CR tranche) or 2000 ELA (v2), released ONCE:
//	                 DepositLockupBlocks after an explicit cancel, at DPoS v2 activation
//	                 (v1: all, v1v2: down to 2000), or when StakeUntil has passed
//	penalty        = sum of the configured penalty amounts over the observed punishments
//	vote rights    = sum staked (ExchangeVotes) - sum returned (ReturnVotes)
//	used votes     = sum of the DPoS v2 votes whose lock time has not passed

const (
	c28MinDeposit   = int64(5000 * 100000000)
	c28MinDepositV2 = int64(2000 * 100000000)
)

type c28Dep struct {
	kind       string // "producer" | "cr"
	id         string // owner public key hex | cid hex
	addr       common.Uint168
	ident      int // producers: 1 = v1, 2 = v2, 12 = v1 upgraded to v1v2
	stakeUntil uint32
	regH       uint32
	cancelH    uint32 // height of the explicit cancel / unregister tx (0 = none)
	canceled   bool
	lock       int64
	penalty    int64
	deposited  int64 // everything ever paid to the deposit address since registration
	returned   int64 // net amount that left the deposit address through return txs
	// CR only
	tranches []*c28Tranche
	// per block scratch
	blkReturnNet int64
	blkReturnTxs int
	blkPenalty0  int64
	// last observed node state (producers), for punishment detection
	lastState string
}

// c28Tranche is one 5000 ELA lock of a CR deposit (one registration).
type c28Tranche struct {
	member   bool
	canceled bool
	cancelH  uint32
	released bool
}

type c28Vote struct {
	cand    string
	amount  int64
	lock    uint32
	created uint32
	renewed uint32
}

type c28Stake struct {
	rights   int64
	used     int64
	staked   int64
	returned int64
	votes    map[common.Uint256]*c28Vote
}

type c28UTXO struct {
	addr  common.Uint168
	value int64
}

type c28Model struct {
	lockup    uint32
	utxo      map[node.OutKey]c28UTXO
	bal       map[common.Uint168]int64
	prods     map[string]*c28Dep         // by owner pub hex
	crs       map[string]*c28Dep         // by cid hex
	byAddr    map[common.Uint168]*c28Dep // producers and CRs by deposit address (first registered wins)
	crByAddr  map[common.Uint168]*c28Dep
	stakes    map[common.Uint168]*c28Stake
	height    uint32
	expiries  int
	retByKind map[string]int
}

func newC28Model(lockup uint32) *c28Model {
	return &c28Model{lockup: lockup, utxo: map[node.OutKey]c28UTXO{}, bal: map[common.Uint168]int64{},
		prods: map[string]*c28Dep{}, crs: map[string]*c28Dep{}, byAddr: map[common.Uint168]*c28Dep{}, crByAddr: map[common.Uint168]*c28Dep{},
		stakes: map[common.Uint168]*c28Stake{}, retByKind: map[string]int{}}
}

func (m *c28Model) stake(a common.Uint168) *c28Stake {
	s := m.stakes[a]
	if s == nil {
		s = &c28Stake{votes: map[common.Uint256]*c28Vote{}}
		m.stakes[a] = s
	}
	return s
}

func (d *c28Dep) total(m *c28Model) int64 { return m.bal[d.addr] }

// avail is what may leave the deposit address: total - lock - penalty.
func (d *c28Dep) avail(m *c28Model) int64 { return m.bal[d.addr] - d.lock - d.penalty }

func (d *c28Dep) crLock() int64 {
	var l int64
	for _, t := range d.tranches {
		if !t.released {
			l += c28MinDeposit
		}
	}
	return l
}

func c28DepositAddrOfPub(pub []byte) (common.Uint168, bool) {
	if len(pub) != 33 {
		return common.Uint168{}, false
	}
	ph, err := contract.PublicKeyToDepositProgramHash(pub)
	if err != nil {
		return common.Uint168{}, false
	}
	return *ph, true
}

func c28StakeAddrOfCode(code []byte) (common.Uint168, bool) {
	ct, err := contract.CreateStakeContractByCode(code)
	if err != nil {
		return common.Uint168{}, false
	}
	return *ct.ToProgramHash(), true
}

// c28BlockFacts are the inputs of a block application that are NOT under test.
type c28BlockFacts struct {
	v2Active uint32 // DPoSV2ActiveHeight as known before the block (MaxUint32 = not set)
}

// apply feeds one accepted block to the model.
func (m *c28Model) apply(b *types.Block, f c28BlockFacts) {
	h := b.Height
	m.height = h
	// pre-block snapshots (the node evaluates its automatic rules on the pre-block state)
	type pre struct {
		canceled   bool
		ident      int
		stakeUntil uint32
	}
	prePro := map[string]pre{}
	for id, p := range m.prods {
		prePro[id] = pre{p.canceled, p.ident, p.stakeUntil}
		p.blkReturnNet, p.blkReturnTxs, p.blkPenalty0 = 0, 0, p.penalty
	}
	preCR := map[*c28Tranche]bool{}
	for _, c := range m.crs {
		c.blkReturnNet, c.blkReturnTxs, c.blkPenalty0 = 0, 0, c.penalty
		for _, t := range c.tranches {
			preCR[t] = t.canceled
		}
	}
	type preVote struct{ exists bool }
	preVotes := map[common.Uint256]bool{}
	for _, s := range m.stakes {
		for k := range s.votes {
			preVotes[k] = true
		}
	}

	for ti, tx := range b.Transactions {
		txid := tx.Hash()
		// ---- deposit address UTXO tracking ----
		inFrom := map[common.Uint168]int64{}
		if !(ti == 0 && tx.IsCoinBaseTx()) {
			for _, in := range tx.Inputs() {
				k := node.OutKey{TxID: in.Previous.TxID, Index: in.Previous.Index}
				if u, ok := m.utxo[k]; ok {
					inFrom[u.addr] += u.value
					m.bal[u.addr] -= u.value
					delete(m.utxo, k)
				}
			}
		}
		outTo := map[common.Uint168]int64{}
		for i, o := range tx.Outputs() {
			if contract.GetPrefixType(o.ProgramHash) == contract.PrefixDeposit {
				m.utxo[node.OutKey{TxID: txid, Index: uint16(i)}] = c28UTXO{o.ProgramHash, int64(o.Value)}
				m.bal[o.ProgramHash] += int64(o.Value)
				outTo[o.ProgramHash] += int64(o.Value)
			}
		}
		switch tx.TxType() {
		case common2.RegisterProducer:
			info := tx.Payload().(*payload.ProducerInfo)
			id := hex.EncodeToString(info.OwnerKey)
			addr, ok := c28DepositAddrOfPub(info.OwnerKey)
			if !ok {
				break
			}
			p := &c28Dep{kind: "producer", id: id, addr: addr, ident: 1, lock: c28MinDeposit, regH: h, stakeUntil: info.StakeUntil, lastState: "Pending"}
			if info.StakeUntil != 0 {
				p.ident, p.lock = 2, c28MinDepositV2
			}
			p.deposited = outTo[addr]
			m.prods[id] = p
			if m.byAddr[addr] == nil {
				m.byAddr[addr] = p
			}
		case common2.UpdateProducer:
			info := tx.Payload().(*payload.ProducerInfo)
			if p := m.prods[hex.EncodeToString(info.OwnerKey)]; p != nil {
				if info.StakeUntil != 0 && p.ident == 1 {
					p.ident = 12
				}
				p.stakeUntil = info.StakeUntil
			}
		case common2.CancelProducer:
			pl := tx.Payload().(*payload.ProcessProducer)
			if p := m.prods[hex.EncodeToString(pl.OwnerKey)]; p != nil {
				p.canceled, p.cancelH = true, h
			}
		case common2.ReturnDepositCoin:
			for a, v := range inFrom {
				if p := m.byAddr[a]; p != nil {
					net := v - outTo[a]
					p.returned += net
					p.blkReturnNet += net
					p.blkReturnTxs++
					m.retByKind["producer"]++
				}
			}
		case common2.RegisterCR:
			info := tx.Payload().(*payload.CRInfo)
			id := hex.EncodeToString(info.CID.Bytes())
			ct, err := contract.CreateDepositContractByCode(info.Code)
			if err != nil {
				break
			}
			addr := *ct.ToProgramHash()
			c := m.crs[id]
			if c == nil {
				c = &c28Dep{kind: "cr", id: id, addr: addr, regH: h}
				m.crs[id] = c
				m.crByAddr[addr] = c
			}
			c.tranches = append(c.tranches, &c28Tranche{})
			c.lock = c.crLock()
			c.deposited += outTo[addr]
		case common2.UnregisterCR:
			pl := tx.Payload().(*payload.UnregisterCR)
			if c := m.crs[hex.EncodeToString(pl.CID.Bytes())]; c != nil {
				for _, t := range c.tranches {
					if !t.member && !t.canceled && !t.released {
						t.canceled, t.cancelH = true, h
						c.cancelH = h
					}
				}
			}
		case common2.ReturnCRDepositCoin:
			for a, v := range inFrom {
				if c := m.crByAddr[a]; c != nil {
					net := v - outTo[a]
					c.returned += net
					c.blkReturnNet += net
					c.blkReturnTxs++
					m.retByKind["cr"]++
				}
			}
		case common2.ExchangeVotes:
			if len(tx.Outputs()) > 0 {
				if pl, ok := tx.Outputs()[0].Payload.(*outputpayload.ExchangeVotesOutput); ok {
					s := m.stake(pl.StakeAddress)
					s.rights += int64(tx.Outputs()[0].Value)
					s.staked += int64(tx.Outputs()[0].Value)
				}
			}
		case common2.Voting:
			m.applyVoting(tx, h)
		case common2.ReturnVotes:
			pl := tx.Payload().(*payload.ReturnVotes)
			code := pl.Code
			if tx.PayloadVersion() != payload.ReturnVotesVersionV0 && len(tx.Programs()) > 0 {
				code = tx.Programs()[0].Code
			}
			if a, ok := c28StakeAddrOfCode(code); ok {
				s := m.stake(a)
				s.rights -= int64(pl.Value)
				s.returned += int64(pl.Value)
			}
		}
		// plain top-ups (any tx type) of a registered deposit address
		if tx.TxType() != common2.RegisterProducer && tx.TxType() != common2.RegisterCR {
			for a, v := range outTo {
				if p := m.byAddr[a]; p != nil {
					p.deposited += v
				}
				if c := m.crByAddr[a]; c != nil {
					c.deposited += v
				}
			}
		}
	}

	// ---- automatic rules, producers ----
	for id, p := range m.prods {
		pr, known := prePro[id]
		if !known {
			continue // registered in this block
		}
		if pr.stakeUntil != 0 && pr.stakeUntil < h && !pr.canceled &&
			(pr.ident == 2 || (pr.ident == 12 && f.v2Active != 0 && h > f.v2Active)) {
			p.canceled, p.lock = true, 0
		}
		if pr.canceled && p.cancelH != 0 && h-p.cancelH == m.lockup {
			p.lock = 0
		}
		if h == f.v2Active && !pr.canceled {
			switch pr.ident {
			case 1:
				p.canceled, p.lock = true, 0
			case 12:
				if p.lock > c28MinDepositV2 {
					p.lock = c28MinDepositV2
				}
			}
		}
	}
	// ---- automatic rules, CR candidates: lock-up after unregister ----
	for _, c := range m.crs {
		for _, t := range c.tranches {
			if preCR[t] && !t.released && !t.member && h-t.cancelH == m.lockup {
				t.released = true
			}
		}
		c.lock = c.crLock()
	}
	// ---- vote expiry ----
	for _, s := range m.stakes {
		for k, v := range s.votes {
			if preVotes[k] || v.created < h {
				if v.lock < h && v.renewed != h {
					s.used -= v.amount
					delete(s.votes, k)
					m.expiries++
				}
			}
		}
	}
}

func (m *c28Model) applyVoting(tx interfaces.Transaction, h uint32) {
	if len(tx.Programs()) == 0 {
		return
	}
	a, ok := c28StakeAddrOfCode(tx.Programs()[0].Code)
	if !ok {
		return
	}
	s := m.stake(a)
	pl := tx.Payload().(*payload.Voting)
	switch tx.PayloadVersion() {
	case payload.VoteVersion:
		for _, ct := range pl.Contents {
			if ct.VoteType != outputpayload.DposV2 {
				continue
			}
			for _, vi := range ct.VotesInfo {
				s.used += int64(vi.Votes)
				d := payload.DetailedVoteInfo{StakeProgramHash: a, TransactionHash: tx.Hash(), BlockHeight: h,
					PayloadVersion: tx.PayloadVersion(), VoteType: ct.VoteType, Info: []payload.VotesWithLockTime{vi}}
				s.votes[d.ReferKey()] = &c28Vote{cand: hex.EncodeToString(vi.Candidate), amount: int64(vi.Votes), lock: vi.LockTime, created: h}
			}
		}
	case payload.RenewalVoteVersion:
		for _, rc := range pl.RenewalContents {
			v := s.votes[rc.ReferKey]
			if v == nil {
				continue
			}
			d := payload.DetailedVoteInfo{StakeProgramHash: a, TransactionHash: tx.Hash(), BlockHeight: v.created,
				PayloadVersion: payload.VoteVersion, VoteType: outputpayload.DposV2, Info: []payload.VotesWithLockTime{rc.VotesInfo}}
			delete(s.votes, rc.ReferKey)
			v.lock, v.renewed = rc.VotesInfo.LockTime, h
			s.votes[d.ReferKey()] = v
		}
	}
}

// election applies the outcome of a committee change at height h (input:
// which CIDs are members afterwards).
func (m *c28Model) election(h uint32, isMember func(cidHex string) bool) {
	for id, c := range m.crs {
		elected := isMember(id)
		for _, t := range c.tranches {
			if t.released {
				continue
			}
			if t.member {
				// a member tranche of the previous committee is released at the end of the term
				t.released = true
				continue
			}
			if elected && !t.canceled {
				t.member = true
				elected = false // one tranche per membership
				continue
			}
			if t.canceled && h-t.cancelH >= m.lockup {
				continue
			}
			t.released = true
		}
		c.lock = c.crLock()
	}
}

func (m *c28Model) sortedProds() []*c28Dep {
	var l []*c28Dep
	for _, p := range m.prods {
		l = append(l, p)
	}
	sort.Slice(l, func(i, j int) bool { return l[i].id < l[j].id })
	return l
}

func (m *c28Model) sortedCRs() []*c28Dep {
	var l []*c28Dep
	for _, p := range m.crs {
		l = append(l, p)
	}
	sort.Slice(l, func(i, j int) bool { return l[i].id < l[j].id })
	return l
}

func (m *c28Model) sortedStakes() []common.Uint168 {
	var l []common.Uint168
	for a := range m.stakes {
		l = append(l, a)
	}
	sort.Slice(l, func(i, j int) bool { return l[i].Compare(l[j]) < 0 })
	return l
}

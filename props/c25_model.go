package props

import (
	"crypto/ecdsa"
	"crypto/elliptic"
	"crypto/sha256"
	"encoding/binary"
	"encoding/hex"
	"math/big"
	"math/rand"
	"sort"
)

// Independent quorum model for C25. Nothing here imports repository code: key
// derivation, point encodings, the signed byte strings, the proposal hash,
// signing and verification are re-derived from the wire format with the Go
// standard library only.

var c25Curve = elliptic.P256()

type mKey struct {
	d    *big.Int
	x, y *big.Int
	comp []byte
}

func newMKeyD(d *big.Int) *mKey {
	k := &mKey{d: new(big.Int).Set(d)}
	k.x, k.y = c25Curve.ScalarBaseMult(pad32(d))
	k.comp = append([]byte{byte(2 + k.y.Bit(0))}, pad32(k.x)...)
	return k
}

func newMKey(priv []byte) *mKey { return newMKeyD(new(big.Int).SetBytes(priv)) }

// negated returns the key N-d whose public point is (x, -y): same X
// coordinate, the other compressed prefix.
func (k *mKey) negated() *mKey {
	return newMKeyD(new(big.Int).Sub(c25Curve.Params().N, k.d))
}

func (k *mKey) uncompressed(prefix byte) []byte {
	b := append([]byte{prefix}, pad32(k.x)...)
	return append(b, pad32(k.y)...)
}

func pad32(v *big.Int) []byte {
	b := v.Bytes()
	if len(b) >= 32 {
		return b[len(b)-32:]
	}
	return append(make([]byte, 32-len(b)), b...)
}

// sign produces r||s (32+32 bytes big endian) over sha256(data); the nonce
// comes from the seeded stream so runs are reproducible.
func (k *mKey) sign(rnd *rand.Rand, data []byte) []byte {
	N := c25Curve.Params().N
	dg := sha256.Sum256(data)
	e := new(big.Int).SetBytes(dg[:])
	for {
		nb := make([]byte, 32)
		rnd.Read(nb)
		kk := new(big.Int).SetBytes(nb)
		kk.Mod(kk, N)
		if kk.Sign() == 0 {
			continue
		}
		x, _ := c25Curve.ScalarBaseMult(pad32(kk))
		rr := new(big.Int).Mod(x, N)
		if rr.Sign() == 0 {
			continue
		}
		s := new(big.Int).Mul(rr, k.d)
		s.Add(s, e)
		s.Mul(s, new(big.Int).ModInverse(kk, N))
		s.Mod(s, N)
		if s.Sign() == 0 {
			continue
		}
		return append(pad32(rr), pad32(s)...)
	}
}

// malleate returns (r, N-s): another valid signature of the same signer over
// the same data.
func malleate(sig []byte) []byte {
	N := c25Curve.Params().N
	s := new(big.Int).SetBytes(sig[32:])
	s.Sub(N, s)
	return append(append([]byte{}, sig[:32]...), pad32(s)...)
}

// mDecodePoint maps key bytes to a curve point under any SEC1 encoding.
func mDecodePoint(b []byte) (x, y *big.Int, ok bool) {
	if len(b) == 0 {
		return nil, nil, false
	}
	switch b[0] {
	case 2, 3:
		if len(b) != 33 {
			return nil, nil, false
		}
		x, y = elliptic.UnmarshalCompressed(c25Curve, b)
		return x, y, x != nil
	case 4:
		if len(b) != 65 {
			return nil, nil, false
		}
		x, y = elliptic.Unmarshal(c25Curve, b)
		return x, y, x != nil
	case 6, 7:
		if len(b) != 65 {
			return nil, nil, false
		}
		u := append([]byte{4}, b[1:]...)
		x, y = elliptic.Unmarshal(c25Curve, u)
		return x, y, x != nil
	}
	return nil, nil, false
}

func mVerify(x, y *big.Int, data, sig []byte) bool {
	if len(sig) != 64 {
		return false
	}
	dg := sha256.Sum256(data)
	return ecdsa.Verify(&ecdsa.PublicKey{Curve: c25Curve, X: x, Y: y}, dg[:], new(big.Int).SetBytes(sig[:32]), new(big.Int).SetBytes(sig[32:]))
}

func mVarBytes(b []byte) []byte {
	var out []byte
	l := len(b)
	switch {
	case l < 0xfd:
		out = []byte{byte(l)}
	case l <= 0xffff:
		out = []byte{0xfd, byte(l), byte(l >> 8)}
	default:
		out = []byte{0xfe, byte(l), byte(l >> 8), byte(l >> 16), byte(l >> 24)}
	}
	return append(out, b...)
}

type mVote struct {
	hash   [32]byte
	signer []byte
	accept bool
	sig    []byte
}

// data = ProposalHash || varbytes(Signer) || accept byte
func (v *mVote) data() []byte {
	b := append([]byte{}, v.hash[:]...)
	b = append(b, mVarBytes(v.signer)...)
	if v.accept {
		return append(b, 1)
	}
	return append(b, 0)
}

type mConfirm struct {
	sponsor    []byte
	blockHash  [32]byte
	viewOffset uint32
	sig        []byte
	votes      []mVote
}

// propData = varbytes(Sponsor) || BlockHash || ViewOffset (LE)
func (c *mConfirm) propData() []byte {
	b := mVarBytes(c.sponsor)
	b = append(b, c.blockHash[:]...)
	var o [4]byte
	binary.LittleEndian.PutUint32(o[:], c.viewOffset)
	return append(b, o[:]...)
}

func (c *mConfirm) propHash() [32]byte {
	a := sha256.Sum256(c.propData())
	return sha256.Sum256(a[:])
}

func (c *mConfirm) hex() string {
	b := c.propData()
	b = append(b, mVarBytes(c.sig)...)
	var cnt [8]byte
	binary.LittleEndian.PutUint64(cnt[:], uint64(len(c.votes)))
	b = append(b, cnt[:]...)
	for i := range c.votes {
		b = append(b, c.votes[i].data()...)
		b = append(b, mVarBytes(c.votes[i].sig)...)
	}
	return hex.EncodeToString(b)
}

// mSet is the model's view of the current arbiter set.
type mSet struct {
	n       int
	keys    []*mKey
	normal  []bool
	byPoint map[string]int // point -> canonical member id (first index with that key)
	normalP map[int]bool   // canonical id -> some member with that key is normal
}

func ptKey(x, y *big.Int) string { return x.Text(16) + ":" + y.Text(16) }

func newMSet(keys []*mKey, normal []bool) *mSet {
	s := &mSet{n: len(keys), keys: keys, normal: normal, byPoint: map[string]int{}, normalP: map[int]bool{}}
	for i, k := range keys {
		pk := ptKey(k.x, k.y)
		id, ok := s.byPoint[pk]
		if !ok {
			id = i
			s.byPoint[pk] = i
		}
		if normal[i] {
			s.normalP[id] = true
		}
	}
	return s
}

func (s *mSet) inactiveCount() int {
	c := 0
	for _, b := range s.normal {
		if !b {
			c++
		}
	}
	return c
}

// normalDistinct: canonical ids of distinct keys that belong to a normal member.
func (s *mSet) normalDistinct() []int {
	var out []int
	for id := range s.normalP {
		out = append(out, id)
	}
	sort.Ints(out)
	return out
}

type mEval struct {
	sponsorDecodes  bool
	sponsorArbiter  bool // sponsor key is the key of a current arbiter
	sponsorNormal   bool // ... of a normal (active) one
	sponsorSigValid bool
	distinctAny     []int // canonical ids of current arbiters with >=1 valid accept vote for exactly this proposal
	distinctNormal  []int // same, normal members only
	validVotes      int
	invalidVotes    int
}

// eval applies the property's definition: which distinct current arbiters
// cast a validly signed ACCEPT vote for exactly the carried proposal.
func (s *mSet) eval(c *mConfirm) *mEval {
	ev := &mEval{}
	if x, y, ok := mDecodePoint(c.sponsor); ok {
		ev.sponsorDecodes = true
		if id, in := s.byPoint[ptKey(x, y)]; in {
			ev.sponsorArbiter = true
			ev.sponsorNormal = s.normalP[id]
		}
		ev.sponsorSigValid = mVerify(x, y, c.propData(), c.sig)
	}
	ph := c.propHash()
	any := map[int]bool{}
	memo := map[string]bool{} // (signer, sig) -> verified; hash and accept are fixed on this path (== ph, true)
	for i := range c.votes {
		v := &c.votes[i]
		ok := v.accept && v.hash == ph
		var id int
		if ok {
			x, y, dec := mDecodePoint(v.signer)
			ok = dec
			if ok {
				id, ok = s.byPoint[ptKey(x, y)]
			}
			if ok {
				mk := string(v.signer) + "|" + string(v.sig)
				if res, seen := memo[mk]; seen {
					ok = res
				} else {
					ok = mVerify(x, y, v.data(), v.sig)
					memo[mk] = ok
				}
			}
		}
		if ok {
			ev.validVotes++
			any[id] = true
		} else {
			ev.invalidVotes++
		}
	}
	for id := range any {
		ev.distinctAny = append(ev.distinctAny, id)
		if s.normalP[id] {
			ev.distinctNormal = append(ev.distinctNormal, id)
		}
	}
	sort.Ints(ev.distinctAny)
	sort.Ints(ev.distinctNormal)
	return ev
}

package props

import (
	"bytes"
	"errors"
	"fmt"
	"io"
	"reflect"
	"sort"

	"github.com/elastos/Elastos.ELA/auxpow"
	"github.com/elastos/Elastos.ELA/common"
	pg "github.com/elastos/Elastos.ELA/core/contract/program"
	"github.com/elastos/Elastos.ELA/core/types"
	common2 "github.com/elastos/Elastos.ELA/core/types/common"
	"github.com/elastos/Elastos.ELA/core/types/functions"
	"github.com/elastos/Elastos.ELA/core/types/interfaces"
	"github.com/elastos/Elastos.ELA/core/types/outputpayload"
	"github.com/elastos/Elastos.ELA/core/types/payload"
	dmsg "github.com/elastos/Elastos.ELA/dpos/p2p/msg"
	"github.com/elastos/Elastos.ELA/elanet/bloom"
	"github.com/elastos/Elastos.ELA/p2p"
	"github.com/elastos/Elastos.ELA/p2p/msg"
)

// decoder is one entry point that turns untrusted bytes into a value.
type c02Decoder struct {
	name   string // stable name, part of counters
	family string // shard grouping
	// decode runs the REAL decoder over b; ver is the payload version byte for
	// payload-level decoders (ignored by the others).
	decode func(b []byte, ver byte) error
	// gen builds one honest value and writes its real serialisation to w. It
	// returns the payload version used. An error means "this random value is
	// not encodable" and the generator is simply asked again.
	gen func(f *c02Filler, w io.Writer) (byte, error)
	// versioned: the version byte is an input of the decoder (payload level).
	versioned bool
}

var c02ErrSkip = errors.New("skip")

// ---- transactions -----------------------------------------------------------

func c02AllTxTypes() []common2.TxType {
	var out []common2.TxType
	for t := 0; t < 256; t++ {
		if _, err := interfaces.GetPayload(common2.TxType(t), 0); err == nil {
			out = append(out, common2.TxType(t))
		}
	}
	return out
}

func c02TypeName(v interface{}) string {
	t := reflect.TypeOf(v)
	for t.Kind() == reflect.Ptr {
		t = t.Elem()
	}
	return t.Name()
}

// payload versions worth generating honest values for (the encoders switch on
// small constants only).
var c02GenVersions = []byte{0, 1, 2, 3, 4}

func c02GenOutputPayload(f *c02Filler, t common2.OutputType) common2.OutputPayload {
	var op common2.OutputPayload
	switch t {
	case common2.OTNone:
		op = new(outputpayload.DefaultOutput)
	case common2.OTVote, common2.OTDposV2Vote:
		op = new(outputpayload.VoteOutput)
	case common2.OTMapping:
		op = new(outputpayload.Mapping)
	case common2.OTCrossChain:
		op = new(outputpayload.CrossChainOutput)
	case common2.OTWithdrawFromSideChain:
		op = new(outputpayload.Withdraw)
	case common2.OTReturnSideChainDepositCoin:
		op = new(outputpayload.ReturnSideChainDeposit)
	case common2.OTStake:
		op = new(outputpayload.ExchangeVotesOutput)
	}
	f.Fill(reflect.ValueOf(op), "")
	return op
}

var c02AttrUsages = []common2.AttributeUsage{common2.Nonce, common2.Script, common2.Memo, common2.Description,
	common2.DescriptionUrl, common2.Confirmations}

// c02GenTx builds an honest transaction of the given type through the node's own
// factory.
func c02GenTx(f *c02Filler, tt common2.TxType, pver byte) (interfaces.Transaction, error) {
	p, err := interfaces.GetPayload(tt, pver)
	if err != nil {
		return nil, err
	}
	f.Fill(reflect.ValueOf(p), "")
	c02FixPayload(f, p, pver)
	// the legacy (version 0) envelope has no version byte: its first byte is the
	// type, which only works for types below TxVersion09
	txv := common2.TxVersion09
	if byte(tt) < byte(common2.TxVersion09) && f.r.Intn(2) == 0 {
		txv = common2.TxVersionDefault
	}
	var attrs []*common2.Attribute
	for i := f.r.Intn(3); i > 0; i-- {
		a := &common2.Attribute{Usage: c02AttrUsages[f.r.Intn(len(c02AttrUsages))], Data: f.bytesFor("data")}
		attrs = append(attrs, a)
	}
	var ins []*common2.Input
	for i := f.r.Intn(3); i > 0; i-- {
		in := &common2.Input{}
		f.Fill(reflect.ValueOf(in), "")
		ins = append(ins, in)
	}
	// typed output payloads are exercised by the output.* decoders and by a
	// quarter of the generated transactions
	rich := f.r.Intn(4) == 0
	var outs []*common2.Output
	for i := f.r.Intn(4); i > 0; i-- {
		o := &common2.Output{}
		f.Fill(reflect.ValueOf(o), "")
		o.Type = common2.OTNone
		if rich {
			o.Type = common2.OutputType(f.r.Intn(int(common2.OTStake) + 1))
		}
		o.Payload = c02GenOutputPayload(f, o.Type)
		outs = append(outs, o)
	}
	var progs []*pg.Program
	for i := f.r.Intn(3); i > 0; i-- {
		progs = append(progs, &pg.Program{Code: f.bytesFor("code"), Parameter: f.bytesFor("sign")})
	}
	tx := functions.CreateTransaction(txv, tt, pver, p, attrs, ins, outs, f.r.Uint32()>>uint(f.r.Intn(32)), progs)
	return tx, nil
}

// c02FixPayload repairs the few generated fields whose encoders need more than a
// random value (nil pointers inside optional parts are filled by Fill already).
func c02FixPayload(f *c02Filler, p interfaces.Payload, pver byte) {
	switch v := p.(type) {
	case *payload.CRCProposal:
		types := []payload.CRCProposalType{payload.Normal, payload.ELIP, payload.FLOWELIP, payload.INFOELIP,
			payload.MainChainUpgradeCode, payload.DIDUpgradeCode, payload.ETHUpgradeCode, payload.SecretaryGeneral,
			payload.ChangeProposalOwner, payload.CloseProposal, payload.RegisterSideChain, payload.ReserveCustomID,
			payload.ReceiveCustomID, payload.ChangeCustomIDFee}
		v.ProposalType = types[f.r.Intn(len(types))]
	}
}

func c02DecodeTx(b []byte, _ byte) error {
	r := bytes.NewReader(b)
	tx, err := functions.GetTransactionByBytes(r)
	if err != nil {
		return err
	}
	return tx.Deserialize(r)
}

// ---- generic Serializable decoders -----------------------------------------

type c02Serializable interface {
	Serialize(w io.Writer) error
	Deserialize(r io.Reader) error
}

// c02SerDec builds a decoder for a type implementing Serialize/Deserialize.
// mk returns a fresh zero value; fix (optional) sets what the reflect filler
// cannot (interface-typed fields) after filling.
func c02SerDec(family, name string, mk func() c02Serializable, fix func(f *c02Filler, v c02Serializable) error) *c02Decoder {
	return &c02Decoder{
		name: name, family: family,
		decode: func(b []byte, _ byte) error { return mk().Deserialize(bytes.NewReader(b)) },
		gen: func(f *c02Filler, w io.Writer) (byte, error) {
			v := mk()
			f.Fill(reflect.ValueOf(v), "")
			if fix != nil {
				if err := fix(f, v); err != nil {
					return 0, err
				}
			}
			return 0, v.Serialize(w)
		},
	}
}

func c02GenBlock(f *c02Filler) (*types.Block, error) {
	b := &types.Block{}
	f.Fill(reflect.ValueOf(&b.Header), "")
	tts := c02AllTxTypes()
	n := f.r.Intn(4)
	for i := 0; i < n; i++ {
		tt := tts[f.r.Intn(len(tts))]
		if i == 0 {
			tt = common2.CoinBase
		}
		tx, err := c02GenTx(f, tt, c02GenVersions[f.r.Intn(len(c02GenVersions))])
		if err != nil {
			return nil, err
		}
		b.Transactions = append(b.Transactions, tx)
	}
	return b, nil
}

func c02GenDposBlock(f *c02Filler) (*types.DposBlock, error) {
	b, err := c02GenBlock(f)
	if err != nil {
		return nil, err
	}
	d := &types.DposBlock{Block: b, HaveConfirm: f.r.Intn(3) != 0}
	if d.HaveConfirm {
		d.Confirm = &payload.Confirm{}
		f.Fill(reflect.ValueOf(d.Confirm), "")
	}
	return d, nil
}

// p2pMessages lists every command of the three message factories
// (p2p/peer + elanet/server.go createMessage, dpos/p2p/peer + dpos/network.go
// createMessage) with a constructor of the empty message, as those factories
// build it.
type c02MsgSpec struct {
	family string
	cmd    string
	mk     func() p2p.Message
	fix    func(f *c02Filler, m p2p.Message) error
}

func c02FixBlockMsg(f *c02Filler, m p2p.Message) error {
	d, err := c02GenDposBlock(f)
	if err != nil {
		return err
	}
	m.(*msg.Block).Serializable = d
	return nil
}

func c02MessageSpecs() []c02MsgSpec {
	el := "p2pmsg"
	dp := "dposmsg"
	return []c02MsgSpec{
		// p2p/peer.createMessage
		{el, p2p.CmdVersion, func() p2p.Message { return &msg.Version{} }, func(f *c02Filler, m p2p.Message) error {
			if f.r.Intn(2) == 0 {
				m.(*msg.Version).Version = 80000 + uint32(f.r.Intn(3))
			}
			return nil
		}},
		{el, p2p.CmdVerAck, func() p2p.Message { return &msg.VerAck{} }, nil},
		{el, p2p.CmdGetAddr, func() p2p.Message { return &msg.GetAddr{} }, nil},
		{el, p2p.CmdAddr, func() p2p.Message { return &msg.Addr{} }, func(f *c02Filler, m p2p.Message) error {
			for _, a := range m.(*msg.Addr).AddrList {
				a.IP = a.IP[:0]
				ip := make([]byte, 16)
				f.r.Read(ip)
				a.IP = ip
			}
			return nil
		}},
		{el, p2p.CmdPing, func() p2p.Message { return &msg.Ping{} }, nil},
		{el, p2p.CmdPong, func() p2p.Message { return &msg.Pong{} }, nil},
		// elanet/server.go createMessage
		{el, p2p.CmdMemPool, func() p2p.Message { return &msg.MemPool{} }, nil},
		{el, p2p.CmdBlock, func() p2p.Message { return msg.NewBlock(&types.DposBlock{}) }, c02FixBlockMsg},
		{el, p2p.CmdInv, func() p2p.Message { return &msg.Inv{} }, nil},
		{el, p2p.CmdNotFound, func() p2p.Message { return &msg.NotFound{} }, nil},
		{el, p2p.CmdGetData, func() p2p.Message { return &msg.GetData{} }, nil},
		{el, p2p.CmdGetBlocks, func() p2p.Message { return &msg.GetBlocks{} }, nil},
		{el, p2p.CmdFilterAdd, func() p2p.Message { return &msg.FilterAdd{} }, nil},
		{el, p2p.CmdFilterClear, func() p2p.Message { return &msg.FilterClear{} }, nil},
		{el, p2p.CmdFilterLoad, func() p2p.Message { return &msg.FilterLoad{} }, func(f *c02Filler, m p2p.Message) error {
			m.(*msg.FilterLoad).HashFuncs %= msg.MaxFilterLoadHashFuncs + 1
			return nil
		}},
		{el, p2p.CmdTxFilter, func() p2p.Message { return &msg.TxFilterLoad{} }, nil},
		{el, p2p.CmdReject, func() p2p.Message { return &msg.Reject{} }, nil},
		{el, p2p.CmdDAddr, func() p2p.Message { return &msg.DAddr{} }, nil},
		// sent only, but a wire type of the package (SPV clients decode it)
		{el, p2p.CmdMerkleBlock, func() p2p.Message { return msg.NewMerkleBlock(&common2.Header{}) }, nil},

		// dpos/p2p/peer.createMessage
		{dp, dmsg.CmdVersion, func() p2p.Message { return &dmsg.Version{} }, func(f *c02Filler, m p2p.Message) error {
			v := m.(*dmsg.Version)
			v.Timestamp = v.Timestamp.Truncate(1e6 * 1e3) // whole seconds: the c02Decoder rejects sub-millisecond precision
			return nil
		}},
		{dp, dmsg.CmdVerAck, func() p2p.Message { return &dmsg.VerAck{} }, nil},
		{dp, dmsg.CmdAddr, func() p2p.Message { return &dmsg.Addr{} }, nil},
		{dp, dmsg.CmdPing, func() p2p.Message { return &dmsg.Ping{} }, nil},
		{dp, dmsg.CmdPong, func() p2p.Message { return &dmsg.Pong{} }, nil},
		// dpos/network.go createMessage
		{dp, p2p.CmdBlock, func() p2p.Message { return msg.NewBlock(&types.Block{}) }, func(f *c02Filler, m p2p.Message) error {
			b, err := c02GenBlock(f)
			if err != nil {
				return err
			}
			m.(*msg.Block).Serializable = b
			return nil
		}},
		{dp, dmsg.CmdAcceptVote, func() p2p.Message { return &dmsg.Vote{Command: dmsg.CmdAcceptVote} }, func(f *c02Filler, m p2p.Message) error {
			m.(*dmsg.Vote).Command = dmsg.CmdAcceptVote
			return nil
		}},
		{dp, dmsg.CmdRejectVote, func() p2p.Message { return &dmsg.Vote{Command: dmsg.CmdRejectVote} }, func(f *c02Filler, m p2p.Message) error {
			m.(*dmsg.Vote).Command = dmsg.CmdRejectVote
			return nil
		}},
		{dp, dmsg.CmdReceivedProposal, func() p2p.Message { return &dmsg.Proposal{} }, nil},
		{dp, dmsg.CmdInv, func() p2p.Message { return &dmsg.Inventory{} }, nil},
		{dp, dmsg.CmdGetBlock, func() p2p.Message { return &dmsg.GetBlock{} }, nil},
		{dp, dmsg.CmdGetBlocks, func() p2p.Message { return &dmsg.GetBlocks{} }, nil},
		{dp, dmsg.CmdResponseBlocks, func() p2p.Message { return &dmsg.ResponseBlocks{} }, func(f *c02Filler, m p2p.Message) error {
			rb := m.(*dmsg.ResponseBlocks)
			rb.BlockConfirms = nil
			for i := f.r.Intn(3); i > 0; i-- {
				d, err := c02GenDposBlock(f)
				if err != nil {
					return err
				}
				rb.BlockConfirms = append(rb.BlockConfirms, d)
			}
			return nil
		}},
		{dp, dmsg.CmdRequestConsensus, func() p2p.Message { return &dmsg.RequestConsensus{} }, nil},
		{dp, dmsg.CmdResponseConsensus, func() p2p.Message { return &dmsg.ResponseConsensus{} }, nil},
		{dp, dmsg.CmdRequestProposal, func() p2p.Message { return &dmsg.RequestProposal{} }, nil},
		{dp, dmsg.CmdIllegalProposals, func() p2p.Message { return &dmsg.IllegalProposals{} }, nil},
		{dp, dmsg.CmdIllegalVotes, func() p2p.Message { return &dmsg.IllegalVotes{} }, nil},
		{dp, dmsg.CmdSidechainIllegalData, func() p2p.Message { return &dmsg.SidechainIllegalData{} }, nil},
		{dp, dmsg.CmdResponseInactiveArbitrators, func() p2p.Message { return &dmsg.ResponseInactiveArbitrators{} }, nil},
		{dp, dmsg.CmdResponseRevertToDPOS, func() p2p.Message { return &dmsg.ResponseRevertToDPOS{} }, nil},
		{dp, dmsg.CmdResetConsensusView, func() p2p.Message { return &dmsg.ResetView{} }, nil},
		// wire types of the package without a factory entry
		{dp, "dpos-reject", func() p2p.Message { return &dmsg.Reject{} }, nil},
		{dp, "dpos-daddr", func() p2p.Message { return &dmsg.Daddr{} }, nil},
	}
}

// c02AllDecoders enumerates every decoder entry point of the check.
func c02AllDecoders() []*c02Decoder {
	var ds []*c02Decoder

	// (1) payload level: every payload type, version byte is an input.
	seen := map[string]bool{}
	for _, tt := range c02AllTxTypes() {
		tt := tt
		p0, _ := interfaces.GetPayload(tt, 0)
		name := "payload." + c02TypeName(p0)
		if seen[name] {
			continue // RegisterProducer/UpdateProducer etc. share a payload type
		}
		seen[name] = true
		ds = append(ds, &c02Decoder{
			name: name, family: "payload", versioned: true,
			decode: func(b []byte, ver byte) error {
				p, err := interfaces.GetPayload(tt, ver)
				if err != nil {
					return err
				}
				return p.Deserialize(bytes.NewReader(b), ver)
			},
			gen: func(f *c02Filler, w io.Writer) (byte, error) {
				ver := c02GenVersions[f.r.Intn(len(c02GenVersions))]
				p, err := interfaces.GetPayload(tt, ver)
				if err != nil {
					return 0, err
				}
				f.Fill(reflect.ValueOf(p), "")
				c02FixPayload(f, p, ver)
				return ver, p.Serialize(w, ver)
			},
		})
	}

	// (2) whole transactions of every type through the node's factory.
	for _, tt := range c02AllTxTypes() {
		tt := tt
		ds = append(ds, &c02Decoder{
			name: "tx." + tt.Name(), family: "tx",
			decode: c02DecodeTx,
			gen: func(f *c02Filler, w io.Writer) (byte, error) {
				ver := c02GenVersions[f.r.Intn(len(c02GenVersions))]
				tx, err := c02GenTx(f, tt, ver)
				if err != nil {
					return 0, err
				}
				return ver, tx.Serialize(w)
			},
		})
	}

	// (3) consensus containers
	cont := "container"
	ds = append(ds,
		c02SerDec(cont, "types.Block", func() c02Serializable { return &types.Block{} }, func(f *c02Filler, v c02Serializable) error {
			b, err := c02GenBlock(f)
			if err != nil {
				return err
			}
			*(v.(*types.Block)) = *b
			return nil
		}),
		c02SerDec(cont, "types.DposBlock", func() c02Serializable { return &types.DposBlock{} }, func(f *c02Filler, v c02Serializable) error {
			d, err := c02GenDposBlock(f)
			if err != nil {
				return err
			}
			*(v.(*types.DposBlock)) = *d
			return nil
		}),
		c02SerDec(cont, "types.DPOSHeader", func() c02Serializable { return &types.DPOSHeader{} }, nil),
		c02SerDec(cont, "common.Header", func() c02Serializable { return &common2.Header{} }, nil),
		c02SerDec(cont, "auxpow.AuxPow", func() c02Serializable { return &auxpow.AuxPow{} }, nil),
		c02SerDec(cont, "payload.Confirm", func() c02Serializable { return &payload.Confirm{} }, nil),
		c02SerDec(cont, "payload.DPOSProposal", func() c02Serializable { return &payload.DPOSProposal{} }, nil),
		c02SerDec(cont, "payload.DPOSProposalVote", func() c02Serializable { return &payload.DPOSProposalVote{} }, nil),
		c02SerDec(cont, "bloom.MerkleProof", func() c02Serializable { return &bloom.MerkleProof{} }, nil),
		c02SerDec(cont, "program.Program", func() c02Serializable { return &pg.Program{} }, nil),
		c02SerDec(cont, "p2p.NetAddress", func() c02Serializable { return &p2p.NetAddress{} }, func(f *c02Filler, v c02Serializable) error {
			ip := make([]byte, 16)
			f.r.Read(ip)
			v.(*p2p.NetAddress).IP = ip
			return nil
		}),
	)
	// the Block decoder variant used when loading blocks from the database
	ds = append(ds, &c02Decoder{
		name: "types.Block.DeserializeTxLoc", family: cont,
		decode: func(b []byte, _ byte) error {
			var blk types.Block
			_, err := blk.DeserializeTxLoc(bytes.NewBuffer(append([]byte(nil), b...)))
			return err
		},
		gen: func(f *c02Filler, w io.Writer) (byte, error) {
			b, err := c02GenBlock(f)
			if err != nil {
				return 0, err
			}
			return 0, b.Serialize(w)
		},
	})
	// header without aux (block index on disk)
	ds = append(ds, &c02Decoder{
		name: "common.Header.NoAux", family: cont,
		decode: func(b []byte, _ byte) error { return (&common2.Header{}).DeserializeNoAux(bytes.NewReader(b)) },
		gen: func(f *c02Filler, w io.Writer) (byte, error) {
			h := &common2.Header{}
			f.Fill(reflect.ValueOf(h), "")
			return 0, h.SerializeNoAux(w)
		},
	})
	// output payloads on their own (the output type byte selects the decoder)
	for t := common2.OTNone; t <= common2.OTStake; t++ {
		t := t
		op0 := c02GenOutputPayload(c02NewFiller(c02NewZeroRand()), t)
		ds = append(ds, &c02Decoder{
			name: fmt.Sprintf("output.%s.t%d", c02TypeName(op0), t), family: cont,
			decode: func(b []byte, _ byte) error {
				// through the real Output decoder so that the type switch is included
				o := &common2.Output{}
				return o.Deserialize(bytes.NewReader(b), common2.TxVersion09)
			},
			gen: func(f *c02Filler, w io.Writer) (byte, error) {
				o := &common2.Output{}
				f.Fill(reflect.ValueOf(o), "")
				o.Type = t
				o.Payload = c02GenOutputPayload(f, t)
				return 0, o.Serialize(w, common2.TxVersion09)
			},
		})
	}

	// (4) every P2P / DPoS message body via its Deserialize
	for _, ms := range c02MessageSpecs() {
		ms := ms
		ds = append(ds, &c02Decoder{
			name: ms.family + "." + ms.cmd, family: ms.family,
			decode: func(b []byte, _ byte) error { return ms.mk().Deserialize(bytes.NewReader(b)) },
			gen: func(f *c02Filler, w io.Writer) (byte, error) {
				m := ms.mk()
				f.Fill(reflect.ValueOf(m), "")
				if ms.fix != nil {
					if err := ms.fix(f, m); err != nil {
						return 0, err
					}
				}
				return 0, m.Serialize(w)
			},
		})
	}
	// tx message body = a transaction (CheckAndCreateTxMessage)
	ds = append(ds, &c02Decoder{
		name: "p2pmsg.tx", family: "p2pmsg",
		decode: c02DecodeTx,
		gen: func(f *c02Filler, w io.Writer) (byte, error) {
			tts := c02AllTxTypes()
			tx, err := c02GenTx(f, tts[f.r.Intn(len(tts))], c02GenVersions[f.r.Intn(len(c02GenVersions))])
			if err != nil {
				return 0, err
			}
			return 0, tx.Serialize(w)
		},
	})
	ds = append(ds, c02ExtraDecoders()...)
	sort.SliceStable(ds, func(i, j int) bool { return ds[i].family < ds[j].family })
	return ds
}

var _ = common.Uint256{}

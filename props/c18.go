package props

import (
	"bytes"
	"crypto/sha256"
	"fmt"
	"math/rand"
	"os"
	"path/filepath"
	"strings"

	"github.com/btcsuite/btcd/wire"

	"github.com/elastos/Elastos.ELA/auxpow"
	"github.com/elastos/Elastos.ELA/common"
	"github.com/elastos/Elastos.ELA/core/types"
	common2 "github.com/elastos/Elastos.ELA/core/types/common"
	"github.com/elastos/Elastos.ELA/core/types/interfaces"
	"github.com/elastos/Elastos.ELA/database"
	"github.com/elastos/Elastos.ELA/database/ffldb"

	"verif/kit"
	"verif/kit/node"
)

// C18 — stored blocks read back byte-for-byte.
//
// Workload: real ffldb instances opened through the verif hook with a small
// maximum block-file size so that the flat files roll over every few blocks.
// Blocks (random bytes of 1 B .. 200 KiB and real serialized ELA blocks) are
// stored with Tx.StoreBlock and read back through every fetch API, inside the
// storing transaction (pending path), after commit, after rollover and after
// close/reopen. Oracle: the harness' own copy of the bytes.

func init() {
	kit.Register(&kit.Spec{
		ID:     "C18",
		Rule:   "family failed-commit: a commit that has already rolled over to a new block file gets an injected short write + I/O error at one of its later writeData calls (every call position, prefixes 0/1/len-1/len/2), the process continues: all earlier blocks are re-read, the blocks are stored again, more commits incl. a rollover, re-read, close/reopen, re-read. Otherwise: case = one stored block (random bytes 1 B..200 KiB or a real serialized ELA block) x the read path (pending in the storing tx / committed / after rollover / after reopen) x ~40 regions: header prefix, every tx location, random in-bounds (offset,len), len 0, offset==len(block), exact end, 1..13 bytes past the end, uint32 overflow of offset+len. distinct = block hash + path; non-trivial = the block was committed to a flat file and read back at least once after commit",
		Shards: func(tier string) int { return 8 },
		Run:    runC18,
		Require: []string{"blocks_stored", "blocks_committed", "file_rollovers", "reopens", "fetch_block_checks", "fetch_blocks_bulk_checks",
			"header_checks", "region_valid_checks", "region_invalid_checks", "region_overflow_checks", "region_bulk_checks", "txloc_region_checks",
			"pending_path_checks", "committed_path_checks", "after_reopen_checks", "rolled_back_blocks_absent", "has_block_checks",
			"dup_store_rejected", "unknown_hash_rejected", "live_node_tx_roundtrips", "positive_control_exact_end_region_ok",
			"failed_commit_after_rollover_cases", "blocks_reread_after_failed_commit", "commits_after_failed_commit",
			"failed_commit_files_deleted_by_rollback", "failed_commit_after_two_rollovers_cases", "failed_commit_with_block_in_old_file_cases",
			"rollovers_after_failed_commit", "reopens_after_failed_commit", "blocks_reread_after_failed_commit_and_reopen"},
		FatalIsViolation: true,
		MemLimitMB:       6144,
		FatalSig: func(lastBegin, stderr string) string {
			return "fatal-during:" + firstWord(lastBegin)
		},
		Assumptions: []string{
			"the harness keeps its own copy of every stored block; returned slices are compared inside the transaction that returned them",
			"the first block written into an empty database is kept smaller than the configured maximum file size (a larger one would make ffldb skip file 0, a situation the production constants (64 MiB files, 8 MB blocks) exclude)",
			"failed commits are produced by verifhook.Partial at blockStore.writeData (short write followed by an I/O error, as ENOSPC would); failures of file open/truncate/sync or of leveldb are not injected",
			"a region is valid iff offset+len <= len(block) without uint32 overflow (interface.go: ErrBlockRegionInvalid if the region exceeds the bounds of the associated block)",
		},
	})
}

func firstWord(s string) string {
	for i := 0; i < len(s); i++ {
		if s[i] == ' ' {
			return s[:i]
		}
	}
	return s
}

// dbCode renders the error class of a database error.
func dbCode(err error) string {
	if err == nil {
		return "nil"
	}
	if de, ok := err.(database.Error); ok {
		return de.ErrorCode.String()
	}
	return "non-db-error"
}

type c18blk struct {
	hash   common.Uint256
	data   []byte
	real   bool
	txlocs []types.TxLoc
	txs    [][]byte // serialized transactions (real blocks)
	commit int      // commit index, -1 while pending
	reads  int
}

type c18run struct {
	c        *kit.Ctx
	r        *rand.Rand
	db       database.DB
	dir      string
	maxFile  uint32
	cache    uint64
	flush    uint32
	blocks   []*c18blk // committed
	byHash   map[common.Uint256]*c18blk
	gone     []*c18blk // rolled back: must never be visible
	reopened bool
	lastFile uint32
	scen     string
	nviol    int
	failCtx  map[string]interface{} // set while checking after an injected failed commit (c18_fail.go)
}

const c18Magic = wire.BitcoinNet(2018201)

// realBlock builds a serialized ELA block with ntx signed transfer transactions.
func c18RealBlock(r *rand.Rand, ntx int) (*c18blk, error) {
	var prev, root common.Uint256
	r.Read(prev[:])
	r.Read(root[:])
	ap := auxpow.GenerateAuxPow(prev)
	ap.ParBlockHeader.Timestamp = r.Uint32()
	ap.ParBlockHeader.Nonce = r.Uint32()
	blk := &types.Block{Header: common2.Header{Version: r.Uint32() % 3, Previous: prev, MerkleRoot: root,
		Timestamp: r.Uint32(), Bits: r.Uint32(), Nonce: r.Uint32(), Height: r.Uint32() % 2000000, AuxPow: *ap}}
	var txs []interfaces.Transaction
	for i := 0; i < ntx; i++ {
		var ins []node.UTXORef
		for j := 0; j < 1+r.Intn(3); j++ {
			var id common.Uint256
			r.Read(id[:])
			ins = append(ins, node.UTXORef{TxID: id, Index: uint16(r.Intn(4)), Value: 1e8, Owner: node.Key(2 + r.Intn(3))})
		}
		var outs []node.Out
		for j := 0; j < 1+r.Intn(12); j++ {
			outs = append(outs, node.Out{To: node.Key(2 + r.Intn(6)).ProgramHash, Value: common.Fixed64(r.Int63n(1e8))})
		}
		v := common2.TxVersion09
		if r.Intn(3) == 0 {
			v = common2.TxVersionDefault
		}
		txs = append(txs, node.Transfer(ins, outs, v))
	}
	blk.Transactions = txs
	buf := new(bytes.Buffer)
	if err := blk.Serialize(buf); err != nil {
		return nil, err
	}
	locs, err := blk.TxLoc()
	if err != nil {
		return nil, err
	}
	b := &c18blk{hash: blk.Hash(), data: buf.Bytes(), real: true, txlocs: locs, commit: -1}
	for _, t := range txs {
		tb := new(bytes.Buffer)
		t.Serialize(tb)
		b.txs = append(b.txs, tb.Bytes())
	}
	return b, nil
}

func (x *c18run) newBlock(first bool) *c18blk {
	r := x.r
	var size int
	k := r.Intn(100)
	switch {
	case k < 20:
		edges := []int{1, 2, 71, 72, 73, 83, 84, 85, 95, 96, 97, 100}
		if r.Intn(2) == 0 {
			size = edges[r.Intn(len(edges))]
		} else {
			size = 1 + r.Intn(100)
		}
	case k < 48:
		size = 100 + r.Intn(3997)
	case k < 72:
		b, err := c18RealBlock(r, 1+r.Intn(24))
		if err == nil && (!first || uint32(len(b.data))+12 <= x.maxFile) {
			x.c.Inc("real_ela_blocks")
			return b
		}
		size = 200 + r.Intn(2000)
	case k < 90:
		size = 4096 + r.Intn(61440)
	default:
		size = 65536 + r.Intn(204800-65536+1)
	}
	if first && uint32(size)+12 > x.maxFile {
		size = 1 + r.Intn(int(x.maxFile)-13)
	}
	d := make([]byte, size)
	r.Read(d)
	b := &c18blk{data: d, commit: -1}
	b.hash = common.Uint256(sha256.Sum256(d))
	if _, dup := x.byHash[b.hash]; dup { // astronomically unlikely except for 1-byte blocks
		b.hash[0] ^= byte(len(x.byHash))
		b.hash[1] ^= byte(len(x.byHash) >> 8)
		b.hash[31] ^= 0x5a
	}
	if uint32(size)+12 > x.maxFile {
		x.c.Inc("blocks_larger_than_max_file")
	}
	return b
}

func (x *c18run) viol(sig, detail string, b *c18blk, extra map[string]interface{}) {
	m := map[string]interface{}{"scenario": x.scen, "max_file_size": x.maxFile, "cache_size": x.cache, "flush_secs": x.flush}
	if b != nil {
		m["block_len"] = len(b.data)
		m["block_hash"] = b.hash.String()
		m["real_ela_block"] = b.real
		m["commit_index"] = b.commit
	}
	for k, v := range extra {
		m[k] = v
	}
	if x.failCtx != nil {
		m["after_failed_commit"] = x.failCtx
	}
	x.nviol++
	x.c.Violate(sig, detail, m)
}

type c18region struct {
	off, ln uint32
	kind    string
}

func (x *c18run) regionsFor(b *c18blk) []c18region {
	r := x.r
	n := uint32(len(b.data))
	var rs []c18region
	rs = append(rs, c18region{0, n, "whole"}, c18region{0, 0, "len0@0"}, c18region{n, 0, "len0@end"}, c18region{n / 2, 0, "len0@mid"})
	if n > 0 {
		off := uint32(r.Intn(int(n)))
		rs = append(rs, c18region{off, n - off, "exact-end"}, c18region{n - 1, 1, "last-byte"})
	}
	for i, l := range b.txlocs {
		if i >= 10 {
			break
		}
		rs = append(rs, c18region{uint32(l.TxStart), uint32(l.TxLen), "txloc"})
	}
	for i := 0; i < 12 && n > 0; i++ {
		off := uint32(r.Intn(int(n)))
		ln := uint32(r.Intn(int(n-off) + 1))
		if i >= 2 && ln > 4096 { // keep most reads small; two per block are unconstrained
			ln = uint32(r.Intn(4096))
		}
		rs = append(rs, c18region{off, ln, "random"})
	}
	// beyond the block
	for _, d := range []uint32{1, 2, 4, 8, 11, 12, 13, 64} {
		off := n
		if n > 0 {
			back := uint32(r.Intn(256))
			if back > n || d == 1 && r.Intn(4) == 0 {
				back = uint32(r.Intn(int(n) + 1))
			}
			off = n - back
		}
		rs = append(rs, c18region{off, n - off + d, "past-end"})
	}
	rs = append(rs, c18region{n, 1, "past-end"}, c18region{n + 1, 0, "past-end"}, c18region{n + 13, 0, "past-end"}, c18region{0, n + 1, "past-end"})
	// uint32 overflow of offset+len
	rs = append(rs, c18region{0xffffffff, 1, "overflow"}, c18region{0xfffffff0, 0x20, "overflow"}, c18region{n, 0xffffffff, "overflow"},
		c18region{1, 0xffffffff, "overflow"}, c18region{0xffffffff, 0xffffffff, "overflow"}, c18region{0x80000000, 0x80000000 + n/2, "overflow"})
	return rs
}

func regionValid(n int, off, ln uint32) bool {
	end := uint64(off) + uint64(ln)
	return end <= uint64(n)
}

// checkBlock reads one block through every API of tx. path is one of
// pending | committed | committed-in-rw | after-reopen.
func (x *c18run) checkBlock(tx database.Tx, b *c18blk, path string) {
	c := x.c
	pathClass := "committed"
	if path == "pending" {
		pathClass = "pending"
		c.Inc("pending_path_checks")
	} else if strings.HasPrefix(path, "after-failed-commit") {
		// same process, same DB object, after a commit that rolled over to a
		// new block file and then failed with an injected write error
		pathClass = "after-failed-commit"
		c.Inc("after_failed_commit_path_checks")
		if x.reopened {
			c.Inc("after_reopen_checks")
		}
		b.reads++
	} else {
		c.Inc("committed_path_checks")
		if x.reopened {
			c.Inc("after_reopen_checks")
		}
		b.reads++
	}
	c.Begin("checkBlock path=%s len=%d maxfile=%d", path, len(b.data), x.maxFile)
	// HasBlock
	has, err := tx.HasBlock(b.hash)
	c.Inc("has_block_checks")
	if err != nil || !has {
		x.viol("hasblock-false-for-stored:"+pathClass, fmt.Sprintf("HasBlock=%v err=%v for a stored block (%s)", has, err, path), b, nil)
	}
	// FetchBlock
	got, err := tx.FetchBlock(&b.hash)
	c.Inc("fetch_block_checks")
	if err != nil {
		x.viol("fetchblock-error:"+pathClass, fmt.Sprintf("FetchBlock (%s): %v", path, err), b, nil)
	} else if !bytes.Equal(got, b.data) {
		x.viol("fetchblock-bytes-differ:"+pathClass, fmt.Sprintf("FetchBlock (%s) returned %d bytes, stored %d, first difference at %d", path, len(got), len(b.data), firstDiff(got, b.data)), b, nil)
	}
	// regions
	var validRegs []database.BlockRegion
	var validKinds []c18region
	for _, rg := range x.regionsFor(b) {
		reg := database.BlockRegion{Hash: &b.hash, Offset: rg.off, Len: rg.ln}
		if rg.kind == "overflow" || rg.kind == "past-end" {
			c.Begin("region path=%s kind=%s blocklen=%d off=%d len=%d", path, rg.kind, len(b.data), rg.off, rg.ln)
		}
		out, err := tx.FetchBlockRegion(&reg)
		if regionValid(len(b.data), rg.off, rg.ln) {
			c.Inc("region_valid_checks")
			if rg.kind == "txloc" {
				c.Inc("txloc_region_checks")
			}
			want := b.data[rg.off : rg.off+rg.ln]
			if err != nil {
				x.viol("region-valid-rejected:"+pathClass, fmt.Sprintf("FetchBlockRegion (%s) %s off=%d len=%d of a %d-byte block: %v", path, rg.kind, rg.off, rg.ln, len(b.data), err), b,
					map[string]interface{}{"offset": rg.off, "len": rg.ln})
			} else if !bytes.Equal(out, want) {
				x.viol("region-bytes-differ:"+pathClass, fmt.Sprintf("FetchBlockRegion (%s) %s off=%d len=%d of a %d-byte block returned %d bytes differing at %d", path, rg.kind, rg.off, rg.ln, len(b.data), len(out), firstDiff(out, want)), b,
					map[string]interface{}{"offset": rg.off, "len": rg.ln})
			} else if rg.kind == "exact-end" {
				c.Inc("positive_control_exact_end_region_ok")
			}
			validRegs = append(validRegs, reg)
			validKinds = append(validKinds, rg)
			continue
		}
		sig := "region-past-end-not-rejected:" + pathClass
		if rg.kind == "overflow" {
			c.Inc("region_overflow_checks")
			sig = "region-uint32-overflow-not-rejected:" + pathClass
		} else {
			c.Inc("region_invalid_checks")
		}
		if dbCode(err) != "ErrBlockRegionInvalid" {
			beyond := int64(rg.off) + int64(rg.ln) - int64(len(b.data))
			x.viol(sig, fmt.Sprintf("FetchBlockRegion (%s) off=%d len=%d on a %d-byte block (%d past the end): err=%v (class %s), returned %d bytes; want ErrBlockRegionInvalid",
				path, rg.off, rg.ln, len(b.data), beyond, err, dbCode(err), len(out)), b, map[string]interface{}{"offset": rg.off, "len": rg.ln, "api": "FetchBlockRegion", "bytes_past_end": beyond})
			c.Inc("invalid_region_outcome:" + dbCode(err))
		}
	}
	// header
	hdr, err := tx.FetchBlockHeader(&b.hash)
	c.Inc("header_checks")
	if len(b.data) >= ffldb.VerifBlockHdrSize {
		if err != nil {
			x.viol("header-error:"+pathClass, fmt.Sprintf("FetchBlockHeader (%s): %v", path, err), b, nil)
		} else if !bytes.Equal(hdr, b.data[:ffldb.VerifBlockHdrSize]) {
			x.viol("header-bytes-differ:"+pathClass, fmt.Sprintf("FetchBlockHeader (%s) differs from the first %d stored bytes", path, ffldb.VerifBlockHdrSize), b, nil)
		}
	} else {
		c.Inc("header_of_short_block_checks")
		if dbCode(err) != "ErrBlockRegionInvalid" {
			x.viol("region-past-end-not-rejected:"+pathClass, fmt.Sprintf("FetchBlockHeader (%s) of a %d-byte block (shorter than the %d-byte header prefix): err=%v (class %s), returned %d bytes; want ErrBlockRegionInvalid",
				path, len(b.data), ffldb.VerifBlockHdrSize, err, dbCode(err), len(hdr)), b, map[string]interface{}{"api": "FetchBlockHeader"})
		}
	}
	// tx locations hold the serialized transactions
	for i, l := range b.txlocs {
		if !bytes.Equal(b.data[l.TxStart:l.TxStart+l.TxLen], b.txs[i]) {
			x.viol("txloc-not-the-transaction", fmt.Sprintf("Block.TxLoc()[%d]=(%d,%d) does not delimit the serialized transaction", i, l.TxStart, l.TxLen), b, nil)
		}
	}
	// bulk regions of this block in shuffled order
	if len(validRegs) > 1 {
		x.r.Shuffle(len(validRegs), func(i, j int) {
			validRegs[i], validRegs[j] = validRegs[j], validRegs[i]
			validKinds[i], validKinds[j] = validKinds[j], validKinds[i]
		})
		outs, err := tx.FetchBlockRegions(validRegs)
		c.Inc("region_bulk_checks")
		if err != nil || len(outs) != len(validRegs) {
			x.viol("regions-bulk-error:"+pathClass, fmt.Sprintf("FetchBlockRegions (%s) of %d valid regions: err=%v n=%d", path, len(validRegs), err, len(outs)), b, nil)
		} else {
			for i, o := range outs {
				rg := validKinds[i]
				if !bytes.Equal(o, b.data[rg.off:rg.off+rg.ln]) {
					x.viol("regions-bulk-bytes-differ:"+pathClass, fmt.Sprintf("FetchBlockRegions (%s) item %d off=%d len=%d differs", path, i, rg.off, rg.ln), b, nil)
					break
				}
			}
		}
	}
}

func firstDiff(a, b []byte) int {
	n := len(a)
	if len(b) < n {
		n = len(b)
	}
	for i := 0; i < n; i++ {
		if a[i] != b[i] {
			return i
		}
	}
	if len(a) != len(b) {
		return n
	}
	return -1
}

// bulkAcross checks the multi-block bulk APIs over a set of blocks visible in tx.
func (x *c18run) bulkAcross(tx database.Tx, set []*c18blk, path string) {
	c := x.c
	if len(set) == 0 {
		return
	}
	c.Begin("bulk path=%s n=%d", path, len(set))
	hashes := make([]common.Uint256, len(set))
	for i, b := range set {
		hashes[i] = b.hash
	}
	blks, err := tx.FetchBlocks(hashes)
	c.Inc("fetch_blocks_bulk_checks")
	if err != nil || len(blks) != len(set) {
		x.viol("fetchblocks-error", fmt.Sprintf("FetchBlocks (%s) of %d stored blocks: err=%v", path, len(set), err), nil, nil)
	} else {
		for i := range blks {
			if !bytes.Equal(blks[i], set[i].data) {
				x.viol("fetchblocks-bytes-differ", fmt.Sprintf("FetchBlocks (%s) item %d differs at %d", path, i, firstDiff(blks[i], set[i].data)), set[i], nil)
				break
			}
		}
	}
	hs, err := tx.HasBlocks(hashes)
	if err != nil || len(hs) != len(set) {
		x.viol("hasblocks-error", fmt.Sprintf("HasBlocks (%s): err=%v", path, err), nil, nil)
	} else {
		for i := range hs {
			if !hs[i] {
				x.viol("hasblock-false-for-stored:bulk", fmt.Sprintf("HasBlocks (%s) item %d false", path, i), set[i], nil)
				break
			}
		}
	}
	// headers: all >= header size -> all returned; any shorter -> ErrBlockRegionInvalid
	short := false
	for _, b := range set {
		if len(b.data) < ffldb.VerifBlockHdrSize {
			short = true
		}
	}
	hdrs, err := tx.FetchBlockHeaders(hashes)
	c.Inc("header_checks")
	if !short {
		if err != nil || len(hdrs) != len(set) {
			x.viol("headers-bulk-error", fmt.Sprintf("FetchBlockHeaders (%s): err=%v", path, err), nil, nil)
		} else {
			for i := range hdrs {
				if !bytes.Equal(hdrs[i], set[i].data[:ffldb.VerifBlockHdrSize]) {
					x.viol("headers-bulk-bytes-differ", fmt.Sprintf("FetchBlockHeaders (%s) item %d differs", path, i), set[i], nil)
					break
				}
			}
		}
	}
	// one region per block across files, in shuffled order, then one invalid among them
	var regs []database.BlockRegion
	var want [][]byte
	for _, b := range set {
		n := len(b.data)
		off := x.r.Intn(n)
		ln := x.r.Intn(n - off + 1)
		regs = append(regs, database.BlockRegion{Hash: &b.hash, Offset: uint32(off), Len: uint32(ln)})
		want = append(want, b.data[off:off+ln])
	}
	x.r.Shuffle(len(regs), func(i, j int) { regs[i], regs[j] = regs[j], regs[i]; want[i], want[j] = want[j], want[i] })
	outs, err := tx.FetchBlockRegions(regs)
	c.Inc("region_bulk_checks")
	if err != nil || len(outs) != len(regs) {
		x.viol("regions-bulk-error:across", fmt.Sprintf("FetchBlockRegions (%s) across %d blocks: err=%v", path, len(set), err), nil, nil)
	} else {
		for i := range outs {
			if !bytes.Equal(outs[i], want[i]) {
				x.viol("regions-bulk-bytes-differ:across", fmt.Sprintf("FetchBlockRegions (%s) across blocks: item %d (off=%d len=%d) differs at %d", path, i, regs[i].Offset, regs[i].Len, firstDiff(outs[i], want[i])), nil, nil)
				break
			}
		}
	}
	// unknown hash anywhere -> ErrBlockNotFound
	var unk common.Uint256
	x.r.Read(unk[:])
	c.Inc("unknown_hash_rejected")
	if _, err := tx.FetchBlock(&unk); dbCode(err) != "ErrBlockNotFound" {
		x.viol("unknown-hash-not-rejected", fmt.Sprintf("FetchBlock(unknown) err class %s", dbCode(err)), nil, nil)
	}
	if _, err := tx.FetchBlocks(append(append([]common.Uint256{}, hashes...), unk)); dbCode(err) != "ErrBlockNotFound" {
		x.viol("unknown-hash-not-rejected", fmt.Sprintf("FetchBlocks(.., unknown) err class %s", dbCode(err)), nil, nil)
	}
	if _, err := tx.FetchBlockRegion(&database.BlockRegion{Hash: &unk, Offset: 0, Len: 1}); dbCode(err) != "ErrBlockNotFound" {
		x.viol("unknown-hash-not-rejected", fmt.Sprintf("FetchBlockRegion(unknown) err class %s", dbCode(err)), nil, nil)
	}
	if _, err := tx.FetchBlockHeader(&unk); dbCode(err) != "ErrBlockNotFound" {
		x.viol("unknown-hash-not-rejected", fmt.Sprintf("FetchBlockHeader(unknown) err class %s", dbCode(err)), nil, nil)
	}
	if h, err := tx.HasBlock(unk); err != nil || h {
		x.viol("hasblock-true-for-unknown", fmt.Sprintf("HasBlock(unknown)=%v err=%v", h, err), nil, nil)
	}
}

func (x *c18run) absent(tx database.Tx, b *c18blk, why string) {
	h, err := tx.HasBlock(b.hash)
	_, ferr := tx.FetchBlock(&b.hash)
	_, rerr := tx.FetchBlockRegion(&database.BlockRegion{Hash: &b.hash, Offset: 0, Len: 1})
	x.c.Inc("rolled_back_blocks_absent")
	if err != nil || h || dbCode(ferr) != "ErrBlockNotFound" || dbCode(rerr) != "ErrBlockNotFound" {
		x.viol("rolled-back-block-visible", fmt.Sprintf("%s: HasBlock=%v (err %v) FetchBlock err class %s FetchBlockRegion err class %s", why, h, err, dbCode(ferr), dbCode(rerr)), b, nil)
	}
}

func (x *c18run) open(create bool) bool {
	db, err := ffldb.VerifOpen(x.dir, c18Magic, create, x.maxFile, x.cache, x.flush)
	if err != nil {
		if create {
			x.c.Inconclusive("C18: cannot create database: %v", err)
		} else {
			x.viol("reopen-failed", fmt.Sprintf("reopen after clean Close failed: %v (class %s)", err, dbCode(err)), nil, nil)
		}
		return false
	}
	x.db = db
	return true
}

func (x *c18run) sample(k int) []*c18blk {
	if len(x.blocks) <= k {
		return append([]*c18blk(nil), x.blocks...)
	}
	var s []*c18blk
	for _, i := range x.r.Perm(len(x.blocks))[:k] {
		s = append(s, x.blocks[i])
	}
	return s
}

func (x *c18run) scenario(idx int, nblocks int) {
	c, r := x.c, x.r
	sizes := []uint32{4096, 6000, 8192, 16384, 65536, 131072, 524288}
	x.maxFile = sizes[r.Intn(len(sizes))]
	switch r.Intn(3) {
	case 0:
		x.cache, x.flush = 0, 0 // flush on every commit
	case 1:
		x.cache, x.flush = 1<<40, 1000000 // write-back, never before close
	default:
		x.cache, x.flush = uint64(500+r.Intn(20000)), 1000000 // flush when the cache outgrows a small threshold
	}
	ffldb.VerifLdbWriteBuffer = 256 << 10 // speed only; every 3rd scenario keeps goleveldb's default
	if idx%3 == 2 {
		ffldb.VerifLdbWriteBuffer = 0
	}
	x.scen = fmt.Sprintf("s%d/scenario%d", c.Shard, idx)
	x.dir = filepath.Join(c.WorkDir, fmt.Sprintf("c18-%d", idx))
	x.blocks, x.gone, x.byHash, x.reopened, x.lastFile = nil, nil, map[common.Uint256]*c18blk{}, false, 0
	defer os.RemoveAll(x.dir)
	if !x.open(true) {
		return
	}
	defer func() {
		if x.db != nil {
			x.db.Close()
			x.db = nil
		}
	}()
	reopenEvery := 2 + r.Intn(5)
	stored := 0
	for commit := 0; stored < nblocks; commit++ {
		c.Begin("scenario %s commit %d", x.scen, commit)
		tx, err := x.db.Begin(true)
		if err != nil {
			c.Inconclusive("C18: Begin: %v", err)
			return
		}
		var pend []*c18blk
		for i := 0; i < r.Intn(5); i++ {
			b := x.newBlock(len(x.blocks) == 0 && len(pend) == 0)
			if err := tx.StoreBlock(b.hash, b.data); err != nil {
				x.viol("storeblock-error", fmt.Sprintf("StoreBlock of a new %d-byte block: %v", len(b.data), err), b, nil)
				continue
			}
			c.Inc("blocks_stored")
			pend = append(pend, b)
			x.byHash[b.hash] = b
			stored++
		}
		// duplicate stores
		if len(pend) > 0 {
			b := pend[r.Intn(len(pend))]
			c.Inc("dup_store_rejected")
			if err := tx.StoreBlock(b.hash, b.data); dbCode(err) != "ErrBlockExists" {
				x.viol("dup-store-not-rejected:pending", fmt.Sprintf("second StoreBlock of a pending block: err class %s", dbCode(err)), b, nil)
			}
		}
		if len(x.blocks) > 0 {
			b := x.blocks[r.Intn(len(x.blocks))]
			c.Inc("dup_store_rejected")
			if err := tx.StoreBlock(b.hash, b.data); dbCode(err) != "ErrBlockExists" {
				x.viol("dup-store-not-rejected:committed", fmt.Sprintf("StoreBlock of a committed block: err class %s", dbCode(err)), b, nil)
			}
		}
		// same-transaction reads
		for _, b := range pend {
			x.checkBlock(tx, b, "pending")
			c.Case(b.hash.String()+"/pending", false)
		}
		old := x.sample(2)
		for _, b := range old {
			x.checkBlock(tx, b, "committed-in-rw")
		}
		x.bulkAcross(tx, append(append([]*c18blk{}, pend...), old...), "rw-tx pending+committed")
		for _, g := range x.gone {
			x.absent(tx, g, "rolled-back block inside a later rw tx")
		}
		if r.Intn(100) < 15 {
			if err := tx.Rollback(); err != nil {
				x.viol("rollback-error", err.Error(), nil, nil)
			}
			c.Inc("tx_rollbacks")
			for _, b := range pend {
				delete(x.byHash, b.hash)
				stored--
				c.Inc("blocks_rolled_back")
			}
			x.gone = append(x.gone, pend...)
			if len(x.gone) > 6 {
				x.gone = x.gone[len(x.gone)-6:]
			}
		} else {
			if err := tx.Commit(); err != nil {
				x.viol("commit-error", fmt.Sprintf("Commit with %d pending blocks: %v", len(pend), err), nil, nil)
				return
			}
			for _, b := range pend {
				b.commit = commit
				x.blocks = append(x.blocks, b)
				c.Inc("blocks_committed")
				c.Max("max:block_len", int64(len(b.data)))
			}
			_, _, fn, _ := ffldb.VerifCacheStats(x.db)
			if fn > x.lastFile {
				c.Count("file_rollovers", int64(fn-x.lastFile))
				x.lastFile = fn
			}
		}
		// read-only transaction after the commit
		err = x.db.View(func(tx database.Tx) error {
			for _, b := range pend {
				if b.commit >= 0 {
					x.checkBlock(tx, b, "committed")
					c.Case(b.hash.String()+"/committed", true)
				}
			}
			for _, b := range x.sample(2) {
				x.checkBlock(tx, b, "committed")
			}
			x.bulkAcross(tx, x.sample(6), "view")
			for _, g := range x.gone {
				x.absent(tx, g, "rolled-back block in a later view")
			}
			if len(x.blocks) > 0 && r.Intn(4) == 0 {
				b := x.blocks[0]
				if err := tx.StoreBlock(b.hash, b.data); dbCode(err) != "ErrTxNotWritable" {
					x.viol("storeblock-in-view-not-rejected", "StoreBlock in a read-only tx: err class "+dbCode(err), nil, nil)
				}
			}
			return nil
		})
		if err != nil {
			x.viol("view-error", err.Error(), nil, nil)
		}
		if commit%reopenEvery == reopenEvery-1 {
			if err := x.db.Close(); err != nil {
				x.viol("close-error", err.Error(), nil, nil)
			}
			x.db = nil
			if r.Intn(3) == 0 { // the file size limit is a write policy only; a different one must not affect reads
				x.maxFile = sizes[r.Intn(len(sizes))]
			}
			if !x.open(false) {
				return
			}
			c.Inc("reopens")
			x.reopened = true
			_, _, x.lastFile, _ = ffldb.VerifCacheStats(x.db)
			x.db.View(func(tx database.Tx) error {
				for _, b := range x.sample(4) {
					x.checkBlock(tx, b, "after-reopen")
					c.Case(b.hash.String()+"/after-reopen", true)
				}
				x.bulkAcross(tx, x.sample(8), "after-reopen")
				for _, g := range x.gone {
					x.absent(tx, g, "rolled-back block after reopen")
				}
				return nil
			})
		}
	}
	// final: close, reopen, everything
	x.db.Close()
	x.db = nil
	if !x.open(false) {
		return
	}
	c.Inc("reopens")
	x.reopened = true
	x.db.View(func(tx database.Tx) error {
		x.bulkAcross(tx, x.blocks, "final")
		for _, b := range x.blocks {
			got, err := tx.FetchBlock(&b.hash)
			c.Inc("fetch_block_checks")
			c.Inc("after_reopen_checks")
			if err != nil || !bytes.Equal(got, b.data) {
				x.viol("fetchblock-bytes-differ:committed", fmt.Sprintf("final pass: FetchBlock err=%v differs at %d", err, firstDiff(got, b.data)), b, nil)
			}
		}
		return nil
	})
	if len(x.blocks) > 0 && c.Shard == 0 && idx == 0 {
		c.Sample(map[string]interface{}{"scenario": x.scen, "max_file_size": x.maxFile, "blocks": len(x.blocks), "files": x.lastFile + 1,
			"first_block_len": len(x.blocks[0].data), "first_block_hash": x.blocks[0].hash.String()})
	}
}

func runC18(c *kit.Ctx) {
	node.InitGlobals(c.WorkDir)
	x := &c18run{c: c, r: c.Rand("c18")}
	total := c.N(64, 1900) // blocks per shard
	per := 16
	if !c.Quick() {
		per = 60
	}
	for i := 0; i*per < total; i++ {
		x.scenario(i, per)
	}
	// failed commit after a rollover, process continues (c18_fail.go)
	for i := 0; i < c.N(2, 10); i++ {
		x.failedCommitBase(i, c.N(8, 12))
	}
	if c.Shard == 0 {
		c18LiveNode(c)
	}
}

// c18LiveNode: transactions mined into a real node's chain must come back from
// the transaction index (block region fetch) exactly as mined.
func c18LiveNode(c *kit.Ctx) {
	nd, err := node.Start(node.Options{Dir: filepath.Join(c.WorkDir, "node"), CoinbaseMaturity: 2})
	if err != nil {
		c.Inconclusive("C18 live node: %v", err)
		return
	}
	defer nd.Close()
	r := c.Rand("c18-node")
	if err := nd.MineN(int(nd.Cfg.PowConfiguration.CoinbaseMaturity) + 1); err != nil {
		c.Inconclusive("C18 live node mining: %v", err)
		return
	}
	g := nd.GenesisUTXO()
	cur := g
	nblk := c.N(12, 60)
	type mined struct {
		tx  interfaces.Transaction
		blk *types.Block
	}
	var all []mined
	for i := 0; i < nblk; i++ {
		var outs []node.Out
		nout := 1 + r.Intn(20)
		per := common.Fixed64(1000)
		for k := 0; k < nout; k++ {
			outs = append(outs, node.Out{To: node.Key(2 + r.Intn(5)).ProgramHash, Value: per})
		}
		change := cur.Value - per*common.Fixed64(nout) - 10000
		outs = append(outs, node.Out{To: nd.Found.ProgramHash, Value: change})
		tx := node.Transfer([]node.UTXORef{cur}, outs, common2.TxVersion09)
		blk, err := nd.MineTip(tx)
		if err != nil {
			c.Note("C18 live node: block with transfer rejected: %v", err)
			break
		}
		cur = node.UTXORef{TxID: tx.Hash(), Index: uint16(nout), Value: change, Owner: nd.Found}
		for _, t := range blk.Transactions {
			all = append(all, mined{t, blk})
		}
	}
	for _, m := range all {
		want := new(bytes.Buffer)
		m.tx.Serialize(want)
		got, height, err := nd.Store.GetTransaction(m.tx.Hash())
		if err != nil {
			c.Violate("live-node:tx-index-fetch-error", fmt.Sprintf("GetTransaction(%s) of a mined transaction: %v", m.tx.Hash(), err), nil)
			continue
		}
		gb := new(bytes.Buffer)
		got.Serialize(gb)
		c.Inc("live_node_tx_roundtrips")
		if !bytes.Equal(gb.Bytes(), want.Bytes()) || height != m.blk.Height {
			c.Violate("live-node:tx-index-region-differs", fmt.Sprintf("GetTransaction(%s): %d bytes height %d, mined %d bytes height %d", m.tx.Hash(), gb.Len(), height, want.Len(), m.blk.Height), nil)
		}
	}
}

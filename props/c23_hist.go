package props

import (
	"bytes"
	"fmt"
	"math/rand"
	"os"
	"sort"
	"strings"

	"github.com/elastos/Elastos.ELA/account"
	"github.com/elastos/Elastos.ELA/blockchain"
	"github.com/elastos/Elastos.ELA/common"
	"github.com/elastos/Elastos.ELA/common/config"
	common2 "github.com/elastos/Elastos.ELA/core/types/common"
	"github.com/elastos/Elastos.ELA/core/types/interfaces"
	"github.com/elastos/Elastos.ELA/core/types/payload"
	crstate "github.com/elastos/Elastos.ELA/cr/state"
	"github.com/elastos/Elastos.ELA/dpos/state"

	"verif/kit/node"
)

// C23 workload B — the seeded history of run A ("record" role).
//
// node.Bootstrap brings the chain to a committee with claimed DPoS nodes (and,
// in the dposv2-era, to active DPoS v2); from cut c23bBootEnd on the script
// below owns the chain. It is an agenda: height -> actions run at the cut of
// that height (tip == height); an action submits transactions through the real
// mempool, either for the next block or "sitting" (never handed to the miner).
// The agenda places proposals, votes, stake changes, producer changes and
// withdraw requests before and across the two checkpoint save heights 720 and
// 1440, and holds the three node-generated real-withdraw transactions back
// from ~714 to ~1446 (a miner is free not to include them) so that the pending
// withdraw maps are non-empty in the saved checkpoint and are needed after a
// restart that restores from that file.

const (
	c23bS1 = 720
	c23bS2 = 1440
)

// c23bBootEnd is the cut from which on the script takes snapshots (the
// bootstrap mines internally). Fixed per era so that restore points can be
// chosen before the history exists.
func c23bBootEnd(era string) uint32 { return 280 }

func c23bTweak(era string) func(cfg *config.Configuration) {
	return func(cfg *config.Configuration) {
		node.EraTweak(era)(cfg)
		// one committee for the whole history (see kit/node/boot.go NOTE): the
		// scripted re-election is not what this check is about
		cfg.CRConfiguration.DutyPeriod = 100000
	}
}

type c23Hist struct {
	p    *c23bParams
	res  *c23bResult
	nd   *node.Node
	e    *node.Era
	v2   bool
	w    *node.Wallet
	r    *rand.Rand
	boot *node.Boot

	pend   []interfaces.Transaction
	hold   map[common2.TxType]bool
	subs   []c23bSub
	snapAt map[uint32]bool
	agenda map[uint32][]func()
	trf    *os.File
	failed bool

	spender *account.Account
	owner   *account.Account // proposal owner
	props   map[string]*c23Prop
	sitting []interfaces.Transaction
	stakers []*account.Account
	extraP  int
}

type c23Prop struct {
	hash common.Uint256
	tx   interfaces.Transaction
	reg  uint32
}

func (k *c23Hist) inc(name string) { k.res.Counters[name]++ }

func (k *c23Hist) trace(f string, a ...interface{}) {
	if k.trf != nil {
		fmt.Fprintf(k.trf, "[h=%d] "+f+"\n", append([]interface{}{k.nd.Height()}, a...)...)
	}
}

func (k *c23Hist) note(f string, a ...interface{}) {
	if len(k.res.Notes) < 30 {
		k.res.Notes = append(k.res.Notes, fmt.Sprintf("h=%d: ", k.nd.Height())+fmt.Sprintf(f, a...))
	}
	k.trace("NOTE "+f, a...)
}

func (k *c23Hist) fail(f string, a ...interface{}) {
	if !k.failed {
		k.failed = true
		k.res.Err = fmt.Sprintf("height %d: ", k.nd.Height()) + fmt.Sprintf(f, a...)
	}
}

// submit hands tx to the real mempool; mine=false leaves it sitting there.
func (k *c23Hist) submit(kind string, tx interfaces.Transaction, mine bool) bool {
	err := k.nd.TxPool.AppendToTxPool(tx)
	k.subs = append(k.subs, c23bSub{Cut: k.nd.Height(), Tx: c23bTxBytes(tx), Accepted: err == nil})
	if err != nil {
		k.inc("rejected:" + kind)
		k.note("mempool rejected %s: %v", kind, err)
		return false
	}
	k.inc("submitted:" + kind)
	if mine {
		k.pend = append(k.pend, tx)
	} else {
		k.sitting = append(k.sitting, tx)
		k.inc("sitting:" + kind)
	}
	k.trace("submitted %s %s mine=%v", kind, tx.Hash().String()[:12], mine)
	return true
}

func (k *c23Hist) take(a *account.Account) (node.UTXORef, bool) {
	return k.w.Take(a, node.ELA(1))
}

func (k *c23Hist) takeMin(a *account.Account, min common.Fixed64) (node.UTXORef, bool) {
	return k.w.Take(a, min+node.DefaultFee)
}

// fee returns a utxo of the spender account to pay for a tx signed by `by`:
// transactions are signed by the owner of their inputs, so `by` needs its own.
func (k *c23Hist) feeOf(by *account.Account) (node.UTXORef, bool) {
	return k.w.Take(by, node.ELA(1))
}

// cut is called with every node-generated tx settled: record the pool, take
// the snapshot if wanted.
func (k *c23Hist) cut() {
	h := k.nd.Height()
	if h < c23bBootEnd(k.p.Era) {
		return
	}
	var hs []string
	for _, tx := range k.nd.TxPool.GetTxsInPool() {
		hs = append(hs, tx.Hash().String()[:16])
	}
	sort.Strings(hs)
	k.res.PoolAt[h] = strings.Join(hs, " ")
	if len(hs) > 0 {
		k.inc("cuts_with_nonempty_pool")
	}
	if k.snapAt[h] {
		s, err := c23bTakeSnap(k.nd, k.p.Tag)
		if err == nil {
			err = c23bSaveSnap(k.p.SnapDir, s)
		}
		if err != nil {
			k.fail("snapshot: %v", err)
		}
		k.inc("snapshots")
	}
}

// mine is node.MineTipDPoS with a filter: node-generated transaction types in
// k.hold are left in the pool.
func (k *c23Hist) mine() bool {
	if k.failed {
		return false
	}
	nd := k.nd
	sys := nd.SystemTxs()
	k.cut()
	if k.failed {
		return false
	}
	pend := k.pend
	k.pend = nil
	seen := map[common.Uint256]bool{}
	for _, tx := range pend {
		seen[tx.Hash()] = true
	}
	var all []interfaces.Transaction
	for _, tx := range sys {
		if seen[tx.Hash()] {
			continue
		}
		if k.hold[tx.TxType()] {
			k.inc("held_back:" + tx.TxType().Name())
			continue
		}
		all = append(all, tx)
	}
	all = append(all, pend...)
	var fees common.Fixed64
	for _, tx := range all {
		if len(tx.Inputs()) == 0 {
			for _, o := range tx.Outputs() {
				fees -= o.Value
			}
			continue
		}
		refs, err := nd.Chain.UTXOCache.GetTxReference(tx)
		if err != nil {
			k.fail("references of %s: %v", tx.TxType().Name(), err)
			return false
		}
		for _, o := range refs {
			fees += o.Value
		}
		for _, o := range tx.Outputs() {
			fees -= o.Value
		}
	}
	b, err := nd.AssembleOn(node.BlockSpec{Txs: all, Fees: fees})
	if err != nil {
		k.fail("assemble: %v", err)
		return false
	}
	if err := nd.ProcessConfirmed(b); err != nil {
		why := err.Error()
		if prev, ok := nd.Chain.LookupNodeInIndex(&b.Header.Previous); ok {
			if e := nd.Chain.CheckBlockSanity(b); e != nil {
				why += ": sanity: " + e.Error()
			} else if e := nd.Chain.CheckBlockContext(b, prev); e != nil {
				why += ": context: " + e.Error()
			} else if cf, e := nd.ConfirmFor(b); e != nil {
				why += ": confirm: " + e.Error()
			} else if e := blockchain.ConfirmSanityCheck(cf); e != nil {
				why += ": confirm sanity: " + e.Error()
			} else if e := blockchain.ConfirmContextCheck(cf); e != nil {
				why += fmt.Sprintf(": confirm context: %v (%d votes, arbiters %v)", e, len(cf.Votes), arbInfoStrings(nd.Arbiters.GetArbitrators()))
			}
		}
		var kinds []string
		for _, tx := range all {
			kinds = append(kinds, tx.TxType().Name())
		}
		k.fail("block %d (%v) refused: %s", b.Height, kinds, why)
		return false
	}
	nd.PostBlock(b)
	nd.Chain.UTXOCache.CleanTxCache()
	nd.BlockPool.CleanFinalConfirmedBlock(b.Height)
	for _, tx := range b.Transactions[1:] {
		k.inc("mined:" + tx.TxType().Name())
	}
	if nd.NeedsConfirm(b.Height) {
		k.inc("confirmed_blocks")
	}
	if nd.InPOWMode() {
		k.inc("blocks_in_pow_mode")
	}
	if k.trf != nil {
		var kinds []string
		for _, tx := range b.Transactions[1:] {
			kinds = append(kinds, tx.TxType().Name())
		}
		st := nd.Chain.GetState()
		k.trace("mined %v arbs=%d lastIrr=%d pool=%d pow=%v pendW=%d/%d/%d", kinds, len(nd.Arbiters.GetArbitrators()), st.GetLastIrreversibleHeight(), len(nd.TxPool.GetTxsInPool()), nd.InPOWMode(),
			len(st.GetRealWithdrawTransactions()), len(st.GetVotesWithdrawableTxInfo()), len(nd.Committee.GetRealWithdrawTransactions()))
	}
	return true
}

func (k *c23Hist) at(h uint32, f func()) { k.agenda[h] = append(k.agenda[h], f) }

func (k *c23Hist) jit(n int) uint32 { return uint32(k.r.Intn(n + 1)) }

func c23bRecord(p *c23bParams) (res *c23bResult) {
	res = &c23bResult{Counters: map[string]int64{}, PoolAt: map[uint32]string{}}
	nd, err := c23bStartNode(p)
	if err != nil {
		res.Err = "node start: " + err.Error()
		return
	}
	k := &c23Hist{p: p, res: res, nd: nd, e: node.EraOf(p.Era), v2: p.Era == "dposv2-era", r: rand.New(rand.NewSource(p.Seed)),
		hold: map[common2.TxType]bool{}, snapAt: map[uint32]bool{}, agenda: map[uint32][]func(){}, props: map[string]*c23Prop{}}
	for _, x := range p.SnapAt {
		k.snapAt[x] = true
	}
	if p.Trace != "" {
		k.trf, _ = os.Create(fmt.Sprintf("%s/c23b-%s-%s-%d.log", p.Trace, p.Tag, p.Era, p.Seed))
	}
	defer func() {
		if r := recover(); r != nil {
			k.fail("script panicked: %v", r)
		}
		res.Height = nd.Height()
		tip := nd.Tip()
		res.Tip = tip.String()
		if k.trf != nil {
			k.trf.Close()
		}
		nd.UnhookEvents()
		nd.Close()
	}()
	k.run()
	if k.failed {
		return
	}
	// write the record: the chain as stored + every submission of the script
	blocks := map[uint32][]byte{}
	for x := uint32(1); x <= nd.Height(); x++ {
		hash, err := nd.Chain.GetBlockHash(x)
		if err != nil {
			k.fail("block hash %d: %v", x, err)
			return
		}
		db, err := nd.Chain.GetDposBlockByHash(hash)
		if err != nil {
			k.fail("block %d: %v", x, err)
			return
		}
		buf := new(bytes.Buffer)
		if err := db.Serialize(buf); err != nil {
			k.fail("serialize block %d: %v", x, err)
			return
		}
		blocks[x] = append([]byte{}, buf.Bytes()...)
		res.Hashes = append(res.Hashes, hash.String()[:20])
	}
	if err := c23bWriteRecord(p.Rec, blocks, k.subs, nd.Height()); err != nil {
		k.fail("write record: %v", err)
		return
	}
	res.Done = true
	return
}

func (k *c23Hist) run() {
	nd, p := k.nd, k.p
	b, err := nd.Bootstrap(p.Era, node.BootOpts{Voters: 10, UTXOsPerAccount: 12})
	if err != nil {
		k.fail("bootstrap: %v", err)
		return
	}
	k.boot, k.w = b, b.Wallet
	if nd.Height() >= c23bBootEnd(p.Era)-12 {
		k.fail("bootstrap ended at %d, too late for the fixed boot end %d", nd.Height(), c23bBootEnd(p.Era))
		return
	}
	k.spender, k.owner = b.Voters[3], b.Voters[5]
	// small change for the many transactions of the script
	{
		in, ok := k.takeMin(k.spender, node.ELA(5200))
		if !ok {
			k.fail("no funds to split")
			return
		}
		var outs []*common2.Output
		for i := 0; i < 200; i++ {
			outs = append(outs, node.StdOut(k.spender.ProgramHash, node.ELA(int64(5+i%7))))
		}
		for _, a := range append(append([]*account.Account{k.owner}, b.Members...), b.Voters[6], b.Voters[7], b.Voters[4]) {
			for i := 0; i < 30; i++ {
				outs = append(outs, node.StdOut(a.ProgramHash, node.ELA(3)))
			}
		}
		tx := node.BuildTx(node.TxSpec{Type: common2.TransferAsset, Payload: &payload.TransferAsset{}, Ins: []node.UTXORef{in}, Outs: outs})
		if !k.submit("split", tx, true) {
			k.fail("split rejected")
			return
		}
		k.mine()
	}
	for nd.Height() < c23bBootEnd(p.Era) && k.mine() {
	}
	k.res.BootEnd = nd.Height()
	k.plan()
	for nd.Height() < p.H && !k.failed {
		h := nd.Height()
		for _, f := range k.agenda[h] {
			f()
			if k.failed {
				return
			}
		}
		k.background()
		if !k.mine() {
			return
		}
	}
	// the last cut
	for _, f := range k.agenda[nd.Height()] {
		f()
	}
	nd.SystemTxs()
	k.cut()
	st := nd.Chain.GetState()
	k.res.Counters["final_producers"] = int64(len(st.GetAllProducers()))
	k.res.Counters["final_proposals"] = int64(len(nd.Committee.GetAllProposals()))
	k.res.Counters["final_pool"] = int64(len(nd.TxPool.GetTxsInPool()))
	k.res.Counters["final_last_irreversible"] = int64(st.GetLastIrreversibleHeight())
	if nd.InPOWMode() {
		k.note("chain ended in POW mode")
	}
}

// background: plain traffic at random cuts.
func (k *c23Hist) background() {
	if k.r.Intn(100) < 12 {
		k.transfer(true)
	}
	// (every pool transaction is re-validated at every block, twice: by the
	// pool's own cleanup and by the tx-pool checkpoint snapshot; keep the pool small)
	if k.r.Intn(200) < 1 {
		k.transfer(false)
	}
	// now and then mine one of the sitting transactions (removal from the pool by a block)
	if len(k.sitting) > 2 && k.r.Intn(100) < 4 {
		i := k.r.Intn(len(k.sitting))
		tx := k.sitting[i]
		if tx.TxType() == common2.TransferAsset {
			k.sitting = append(k.sitting[:i], k.sitting[i+1:]...)
			k.pend = append(k.pend, tx)
			k.inc("sitting_tx_mined_later")
		}
	}
}

func (k *c23Hist) transfer(mine bool) {
	in, ok := k.take(k.spender)
	if !ok {
		k.inc("skipped:transfer_no_funds")
		return
	}
	to := k.boot.Voters[k.r.Intn(len(k.boot.Voters))]
	tx := node.Transfer([]node.UTXORef{in}, []node.Out{{To: to.ProgramHash, Value: in.Value - node.DefaultFee - common.Fixed64(k.r.Intn(1000))}}, common2.TxVersion09)
	k.submit("TransferAsset", tx, mine)
}

var c23bBudgets = []payload.Budget{{Type: payload.Imprest, Stage: 0, Amount: node.ELA(4)}, {Type: payload.NormalPayment, Stage: 1, Amount: node.ELA(6)}, {Type: payload.FinalPayment, Stage: 2, Amount: node.ELA(2)}}

func (k *c23Hist) propose(id string) {
	in, ok := k.take(k.owner)
	if !ok {
		k.inc("skipped:propose_no_funds")
		return
	}
	m := k.boot.Members[k.r.Intn(len(k.boot.Members))]
	tx := node.CRCProposalNormal(in, k.owner, m, []byte("draft "+id+fmt.Sprint(k.p.Seed)), c23bBudgets, k.owner.ProgramHash, payload.CRCProposalVersion01)
	if k.submit("CRCProposal", tx, true) {
		k.props[id] = &c23Prop{hash: node.ProposalHash(tx), tx: tx, reg: k.nd.Height() + 1}
	}
}

// review: the first n members vote (approve unless reject); sitting=true leaves
// the LAST member's review in the pool.
func (k *c23Hist) review(id string, n int, reject bool, sittingLast bool) {
	pr := k.props[id]
	if pr == nil {
		k.inc("skipped:review_no_proposal")
		return
	}
	for i, m := range k.boot.Members {
		if i >= n {
			break
		}
		in, ok := k.take(m)
		if !ok {
			k.inc("skipped:review_no_funds")
			continue
		}
		res := payload.Approve
		if reject && i == 0 {
			res = payload.Reject
		}
		last := i == n-1 || i == len(k.boot.Members)-1
		k.submit("CRCProposalReview", node.CRCProposalReview(in, m, pr.hash, res, []byte("opinion "+id), payload.CRCProposalReviewVersion01), !(sittingLast && last))
	}
}

func (k *c23Hist) status(id string) string {
	pr := k.props[id]
	if pr == nil {
		return "none"
	}
	ps := k.nd.Committee.GetProposal(pr.hash)
	if ps == nil {
		return "unknown"
	}
	return ps.Status.String()
}

func (k *c23Hist) withdraw(id string) {
	pr := k.props[id]
	if pr == nil {
		k.inc("skipped:withdraw_no_proposal")
		return
	}
	amt := k.nd.Committee.AvailableWithdrawalAmount(pr.hash)
	if amt <= 0 {
		k.inc("skipped:withdraw_nothing_available")
		k.note("proposal %s (%s): nothing to withdraw", id, k.status(id))
		return
	}
	in, ok := k.take(k.owner)
	if !ok {
		return
	}
	k.submit("CRCProposalWithdraw", node.CRCProposalWithdraw(in, k.owner, pr.hash, k.owner.ProgramHash, amt), true)
}

func (k *c23Hist) track(id string, typ payload.CRCProposalTrackingType, stage uint8) {
	pr := k.props[id]
	if pr == nil {
		return
	}
	in, ok := k.take(k.owner)
	if !ok {
		return
	}
	k.submit("CRCProposalTracking", node.CRCProposalTracking(in, k.owner, node.Key(node.KeySecretary),
		node.TrackingSpec{Proposal: pr.hash, Type: typ, Stage: stage, Message: []byte("msg " + id), Opinion: []byte("ok " + id)}, payload.CRCProposalTrackingVersion01), true)
}

// lifecycle schedules register / review / (withdraw) of one proposal starting at cut t0.
func (k *c23Hist) lifecycle(id string, t0 uint32, approvals int, withdrawAt uint32, sittingReview bool) {
	k.at(t0, func() { k.propose(id) })
	k.at(t0+1, func() { k.review(id, approvals, k.r.Intn(3) == 0 && approvals > 3, sittingReview) })
	if withdrawAt != 0 {
		k.at(withdrawAt, func() { k.withdraw(id) })
	}
}

func (k *c23Hist) voteAgainst(id string, by *account.Account, amount common.Fixed64) {
	pr := k.props[id]
	if pr == nil {
		return
	}
	if k.v2 {
		in, ok := k.take(by)
		if !ok {
			return
		}
		k.submit("Voting-CRCProposal", node.Voting(in, node.ProposalVotes(amount, pr.hash)), true)
	} else {
		in, ok := k.takeMin(by, amount)
		if !ok {
			return
		}
		k.submit("Vote-CRCProposal", node.VoteAgainstProposals(in, amount, pr.hash), true)
	}
}

func (k *c23Hist) plan() {
	base := c23bBootEnd(k.p.Era)
	H := k.p.H
	saves := []uint32{c23bS1, c23bS2}
	for s := uint32(c23bS2 + 720); s+40 < H; s += 720 {
		saves = append(saves, s)
	}

	// ---- a complete, un-held proposal life early on (register .. withdraw .. real withdraw .. tracking) ----
	t := base + 4 + k.jit(4)
	k.lifecycle("early", t, 3, t+26, false)
	k.at(t+30, func() { k.track("early", payload.Progress, 1) })
	k.at(t+34, func() { k.withdraw("early") })
	k.lifecycle("early-rejected", t+3, 4, 0, false)
	k.at(t+14, func() { k.voteAgainst("early-rejected", k.voterFor(0), node.ELA(40)) })

	// ---- proposals in every status across each save height ----
	for i, s := range saves {
		sfx := fmt.Sprint(s)
		// VoterAgreed, withdraw requested a few blocks before s
		k.lifecycle("agreed-"+sfx, s-34-k.jit(3), 3, s-5-k.jit(2), false)
		// CRAgreed (public voting in progress) at s, with votes against
		id := "voting-" + sfx
		k.lifecycle(id, s-15-k.jit(2), 4, 0, false)
		k.at(s-2, func() { k.voteAgainst(id, k.voterFor(i), node.ELA(30)) })
		// Registered (council still reviewing) at s; one review sits in the pool
		k.lifecycle("registered-"+sfx, s-4-k.jit(2), 2, 0, true)
		// registered right after the save height
		k.lifecycle("after-"+sfx, s+2+k.jit(3), 3, 0, false)
	}

	// ---- hold the node-generated real-withdraw transactions across the saves ----
	// (the claim-reward one only around each save height: while it is pending the
	// node re-creates it at every block from ALL outputs of the reward address,
	// one more per block, which makes long holds expensive; the votes withdraw
	// goes through the same (de)serialisation code of the DPoS checkpoint)
	k.at(c23bS1-8, func() {
		k.hold[common2.CRCProposalRealWithdraw] = true
		k.hold[common2.VotesRealWithdraw] = true
	})
	release := uint32(c23bS2 + 6 + k.jit(3))
	k.at(release, func() { k.hold = map[common2.TxType]bool{} })
	for _, s := range saves {
		k.at(s-8, func() { k.hold[common2.DposV2ClaimRewardRealWithdraw] = true })
		k.at(s+3+k.jit(4), func() { delete(k.hold, common2.DposV2ClaimRewardRealWithdraw) })
	}

	// ---- sitting transfers: early ones (in every checkpoint), and fresh ones near the saves ----
	for i := uint32(0); i < 2; i++ {
		k.at(base+10+i*7, func() { k.transfer(false) })
	}
	for _, s := range saves {
		k.at(s-3, func() { k.transfer(false) })
		k.at(s-1, func() { k.transfer(false) })
		k.at(s+1+k.jit(10), func() { k.transfer(false) })
	}

	if k.v2 {
		k.planV2(saves, release)
	} else {
		k.planV1(saves, release)
	}
}

func (k *c23Hist) voterFor(i int) *account.Account {
	if k.v2 {
		return k.stakers[i%len(k.stakers)]
	}
	return k.boot.Voters[i%3]
}

// ---------- DPoS v2 agenda ----------

func (k *c23Hist) stake(by *account.Account, amount common.Fixed64) {
	in, ok := k.w.Take(by, amount+node.DefaultFee)
	if !ok {
		k.inc("skipped:stake_no_funds")
		return
	}
	k.submit("ExchangeVotes", node.ExchangeVotes(in, amount), true)
}

func (k *c23Hist) voteV2(by *account.Account, each common.Fixed64, owners []*account.Account, lockBlocks uint32, mine bool) {
	in, ok := k.take(by)
	if !ok {
		return
	}
	var vs []node.V2Vote
	lock := k.nd.Height() + 1 + lockBlocks
	for _, o := range owners {
		vs = append(vs, node.V2Vote{OwnerPub: node.Pub(o), Votes: each, LockTime: lock})
	}
	k.submit("Voting-DposV2", node.Voting(in, node.V2Votes(vs...)), mine)
}

func (k *c23Hist) renew(by *account.Account) {
	st := k.nd.Chain.GetState()
	var owners []*account.Account
	owners = append(owners, k.boot.V2Owners...)
	for _, o := range owners {
		p := st.GetProducer(node.Pub(o))
		if p == nil {
			continue
		}
		dv := p.GetAllDetailedDPoSV2Votes()[node.StakeAddr(by)]
		var keys []string
		m := map[string]common.Uint256{}
		for refer := range dv {
			keys = append(keys, refer.String())
			m[refer.String()] = refer
		}
		if len(keys) == 0 {
			continue
		}
		sort.Strings(keys)
		refer := m[keys[0]]
		nv := dv[refer].Info[0]
		nv.LockTime += 50 + k.jit(100)
		in, ok := k.take(by)
		if !ok {
			return
		}
		k.submit("Voting-renew", node.VotingRenew(in, payload.RenewalVotesContent{ReferKey: refer, VotesInfo: nv}), true)
		return
	}
	k.inc("skipped:renew_nothing_to_renew")
}

func (k *c23Hist) returnVotes(by *account.Account, amount common.Fixed64) {
	if len(k.nd.Chain.GetState().GetVotesWithdrawableTxInfo()) > 0 {
		k.inc("skipped:return_votes_one_pending_already")
		return
	}
	in, ok := k.take(by)
	if !ok {
		return
	}
	k.submit("ReturnVotes", node.ReturnVotes(in, amount), true)
}

func (k *c23Hist) claim(by *account.Account) {
	st := k.nd.Chain.GetState()
	if len(st.GetRealWithdrawTransactions()) > 0 {
		k.inc("skipped:claim_one_pending_already")
		return
	}
	amt := st.DPoSV2RewardInfo[node.StakeAddrString(by)]
	if amt <= k.nd.Cfg.CRConfiguration.RealWithdrawSingleFee*4 {
		k.inc("skipped:claim_no_reward")
		k.note("no v2 reward accumulated for the claimer (%d)", int64(amt))
		return
	}
	in, ok := k.take(by)
	if !ok {
		return
	}
	k.submit("DposV2ClaimReward", node.DposV2ClaimReward(in, amt/3), true)
}

func (k *c23Hist) registerV2Producer() {
	payer := k.boot.Voters[9]
	i := len(k.boot.Owners) + len(k.boot.V2Owners) + 4 + k.extraP
	k.extraP++
	in, ok := k.takeMin(payer, node.ELA(2000))
	if !ok {
		k.inc("skipped:register_no_funds")
		return
	}
	k.submit("RegisterProducer-v2", node.RegisterProducerV2(in, node.Key(node.KeyProducerOwner+i), node.Key(node.KeyProducerNode+i), fmt.Sprintf("c23-producer-%d", i), node.ELA(2000), k.nd.Height()+250000), true)
}

func (k *c23Hist) planV2(saves []uint32, release uint32) {
	b := k.boot
	base := c23bBootEnd(k.p.Era)
	s2, s3 := b.Voters[6], b.Voters[7]
	k.stakers = []*account.Account{b.Staker, s2, s3}
	lock := k.e.V2VoteLock
	// second staker: stake, vote for half of the v2 producers
	k.at(base+2, func() { k.stake(s2, node.ELA(3000)) })
	k.at(base+6, func() { k.voteV2(s2, node.ELA(300), b.V2Owners[:3], lock*3, true) })
	k.at(base+9, func() {
		k.submit("Voting-CRCImpeachment", node.Voting(k.mustTake(s2), node.ImpeachVotes(map[common.Uint168]common.Fixed64{node.CIDOf(b.Members[0]): node.ELA(7)})), true)
	})
	// a complete un-held round trip of both withdraw kinds before the first save
	k.at(base+40+k.jit(10), func() { k.returnVotes(b.Staker, node.ELA(int64(20+k.r.Intn(30)))) })
	k.at(base+60+k.jit(10), func() { k.claim(b.Staker) })
	k.at(base+120, func() { k.registerV2Producer() })
	k.at(base+140, func() { k.renew(b.Staker) })
	// third staker stakes late (state that the height-720 checkpoint does not hold)
	k.at(c23bS1+200+k.jit(50), func() { k.stake(s3, node.ELA(1000)) })
	k.at(c23bS1+300+k.jit(50), func() { k.voteV2(s3, node.ELA(100), b.V2Owners[3:], lock*2, true) })

	for i, s := range saves {
		s, i := s, i
		// A council member claims a NEW DPoS node key, mined in block s-6. The
		// arbiter update at the end of the round containing s-6 puts the new key
		// into the NEXT CRC arbiter set only; it becomes current one round later.
		// With 7-block rounds the save height s always lies in the round in
		// between: the checkpoint of height s is written while next != current
		// CRC arbiters. During the round after s the new key sponsors a block
		// and (DPoS v2) its reward is booked under the member's stake address
		// in DPoSV2RewardInfo — a lasting trace of which CRC set was on duty.
		k.at(s-7, func() {
			m := b.Members[(int(k.p.Seed%4)+4+i)%len(b.Members)]
			in, ok := k.take(m)
			if !ok {
				k.inc("skipped:reclaim_no_funds")
				return
			}
			k.submit("CRCouncilMemberClaimNode-new-key", node.CRCouncilMemberClaimNode(in, m, node.Key(node.KeyCRNode+20+i), payload.CurrentCRClaimDPoSNodeVersion), true)
		})
		// requests whose real-withdraw is pending at the save height
		k.at(s-7, func() { k.claim(b.Staker) })
		k.at(s-6, func() { k.returnVotes(s2, node.ELA(int64(30+k.r.Intn(50)))) })
		k.at(s-5, func() { k.renew(s2) })
		k.at(s-3, func() { k.registerV2Producer() }) // pending -> active across the save
		k.at(s-2, func() {
			k.submit("Voting-CRCImpeachment", node.Voting(k.mustTake(b.Staker), node.ImpeachVotes(map[common.Uint168]common.Fixed64{node.CIDOf(b.Members[1]): node.ELA(int64(3 + k.r.Intn(9)))})), true)
		})
		k.at(s-1, func() { k.voteV2(s2, node.ELA(int64(10+k.r.Intn(40))), b.V2Owners[2:5], lock*2+k.jit(500), true) })
		k.at(s+1, func() { k.stake(s2, node.ELA(int64(100+k.r.Intn(200)))) })
		k.at(s+3, func() { k.renew(b.Staker) })
		// a state-dependent transaction sitting in the pool: a v2 vote of the
		// late staker (valid only with the stake recorded after height 720)
		if s > c23bS1 {
			k.at(s-20, func() { k.voteV2(s3, node.ELA(int64(5+k.r.Intn(20))), b.V2Owners[:2], lock*2, false) })
		}
	}
	// after the release: another round trip
	k.at(release+12, func() { k.returnVotes(b.Staker, node.ELA(11)) })
	k.at(release+16, func() { k.claim(b.Staker) })
}

func (k *c23Hist) mustTake(a *account.Account) node.UTXORef {
	in, ok := k.take(a)
	if !ok {
		k.fail("no funds for %s", a.Address)
	}
	return in
}

// ---------- DPoS v1 agenda ----------

func (k *c23Hist) planV1(saves []uint32, release uint32) {
	b := k.boot
	base := c23bBootEnd(k.p.Era)
	nd := k.nd
	// v1 producer votes with payload v1, cancelled later by spending the vote output
	var voteTx interfaces.Transaction
	k.at(base+3, func() {
		pv := map[string]common.Fixed64{}
		for _, o := range b.Owners {
			// seeded: decides which producers are elected from now on, hence the
			// order of the arbiter set and who sponsors the blocks at the save heights
			pv[node.PubHex(o)] = node.ELA(int64(20 + k.r.Intn(80)))
		}
		in, ok := k.takeMin(b.Voters[4], node.ELA(600))
		if !ok {
			return
		}
		voteTx = node.VoteProducersV1(in, node.ELA(600), pv)
		k.submit("Vote-Delegate-v1", voteTx, true)
	})
	k.at(base+8, func() {
		in, ok := k.takeMin(b.Voters[6], node.ELA(50))
		if !ok {
			return
		}
		k.submit("Vote-CRCImpeachment", node.VoteImpeach(in, node.ELA(50), map[common.Uint168]common.Fixed64{node.CIDOf(b.Members[0]): node.ELA(50)}), true)
	})
	// one producer goes offline until Inactive, then activates again
	k.at(base+20, func() {
		for i, n := range b.Nodes {
			for _, a := range nd.Arbiters.GetArbitrators() {
				if bytes.Equal(a.NodePublicKey, node.Pub(n)) {
					nd.SetOffline(false, n)
					idx := i
					on := nd.Height() + 90
					k.at(on, func() {
						nd.SetOffline(true, b.Nodes[idx])
						if p := nd.Chain.GetState().GetProducer(node.Pub(b.Owners[idx])); p != nil && p.State() == state.Inactive {
							k.inc("producer_became_inactive")
							k.submit("ActivateProducer", node.ActivateProducer(b.Nodes[idx]), true)
						}
					})
					return
				}
			}
		}
	})
	// a producer cancels; its deposit is returned after the lock-up
	last := len(b.Owners) - 1
	k.at(base+150, func() {
		k.submit("CancelProducer", node.CancelProducer(k.mustTake(b.Owners[last]), b.Owners[last]), true)
	})
	k.at(base+150+k.e.DepositLockup+8, func() {
		if d := k.w.UTXOs(node.DepositAddr(b.Owners[last])); len(d) > 0 {
			k.submit("ReturnDepositCoin", node.ReturnDepositCoin(d, b.Owners[last], 0), true)
		}
	})
	for _, s := range saves {
		s := s
		k.at(s-6, func() {
			in, ok := k.takeMin(b.Voters[6], node.ELA(int64(20+k.r.Intn(30))))
			if !ok {
				return
			}
			pv := map[string]common.Fixed64{}
			for i, o := range b.Owners[:4] {
				pv[node.PubHex(o)] = node.ELA(int64(3 + i))
			}
			k.submit("Vote-Delegate-v1", node.VoteProducersV1(in, node.ELA(20), pv), true)
		})
		k.at(s-3, func() {
			if voteTx != nil {
				vo := node.OutRef(voteTx, 0, b.Voters[4])
				k.submit("CancelVote-by-spend", node.Transfer([]node.UTXORef{vo}, []node.Out{{To: b.Voters[4].ProgramHash, Value: vo.Value - node.DefaultFee}}, common2.TxVersion09), true)
				voteTx = nil
			}
		})
		k.at(s-2, func() {
			k.submit("UpdateProducer", node.UpdateProducer(k.mustTake(b.Owners[1]), b.Owners[1], b.Nodes[1], "producer-1", fmt.Sprintf("http://u%d", s), 0), true)
		})
		k.at(s-1, func() {
			in, ok := k.takeMin(b.Voters[6], node.ELA(20))
			if !ok {
				return
			}
			k.submit("Vote-CRCImpeachment", node.VoteImpeach(in, node.ELA(20), map[common.Uint168]common.Fixed64{node.CIDOf(b.Members[2]): node.ELA(20)}), true)
		})
	}
	_ = crstate.MemberElected
}

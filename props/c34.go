package props

import (
	"fmt"
	"math"
	"math/rand"
	"sort"

	"github.com/elastos/Elastos.ELA/common"
	common2 "github.com/elastos/Elastos.ELA/core/types/common"
	"github.com/elastos/Elastos.ELA/core/types/interfaces"
	"github.com/elastos/Elastos.ELA/core/types/payload"
	"github.com/elastos/Elastos.ELA/mempool"

	"verif/kit"
	"verif/kit/node"
)

// C34 — the mempool stays consistent and conflict-free.
// Invariants are recomputed from the held transactions themselves and compared
// with the pool's internal indexes (build-tagged snapshot) at quiescent points:
// after every API call that is documented to leave the pool consistent, and
// after the node's post-block cleanup.

// c34Source produces candidate transactions (possibly colliding on purpose).
// Later workloads (DPoS/CR eras) append to c34Sources.
type c34Source struct {
	Name string
	// Setup runs once on the node before the history (fund accounts etc.).
	Setup func(c *kit.Ctx, nd *node.Node, r *rand.Rand) error
	// Next returns a tx to submit (nil = nothing available now).
	Next func(c *kit.Ctx, nd *node.Node, r *rand.Rand) interfaces.Transaction
}

var c34Sources []func() *c34Source
var c34Tweaks []func(shard int) func(o *node.Options)

func init() {
	kit.Register(&kit.Spec{
		ID:      "C34",
		Rule:    "seeded histories on a live node: submissions (fresh, conflicting on an outpoint held by the pool, spending outputs already spent on chain), RemoveTransaction, MaybeAcceptTransaction, blocks containing pool txs and conflicting non-pool txs followed by the node's post-block cleanup, depth-1/2 reorganisations, pool size bound shrunk so admission hits the limit, checkpoint snapshots; after every step the hooked internal snapshot is compared with invariants recomputed from the held txs. distinct = (history, step kind, outcome); non-trivial = step changed or probed a non-empty pool",
		Shards:  func(tier string) int { return 8 },
		Run:     runC34,
		Require: []string{"steps", "invariant_checks", "submit_accepted", "submit_rejected_conflict", "blocks_with_pool_txs", "blocks_with_conflicting_txs", "removals", "capacity_rejections", "reorgs", "snapshots", "nonempty_pool_checks"},
		Assumptions: []string{"internal indexes are read through mempool.VerifSnapshot (build tag verif) under the pool's own lock",
			"invariants are judged only at quiescent points: after an API call returns and, for block connection, after CleanSubmittedTransactions+CheckAndCleanAllTransactions"},
	})
}

func c34CheckInvariants(c *kit.Ctx, nd *node.Node, stage string) {
	s := nd.TxPool.VerifSnapshot()
	c.Inc("invariant_checks")
	if len(s.Txs) > 0 {
		c.Inc("nonempty_pool_checks")
	}
	c.Max("max:pool_txs", int64(len(s.Txs)))
	v := func(sig, format string, a ...interface{}) {
		c.Violate(sig, stage+": "+fmt.Sprintf(format, a...), map[string]interface{}{"stage": stage})
	}
	// 1. no two held txs share an outpoint (recomputed from inputs)
	seen := map[string]common.Uint256{}
	for h, tx := range s.Txs {
		if tx.Hash() != h {
			v("txnlist-key-mismatch", "txnList key %s holds tx %s", h, tx.Hash())
		}
		for _, in := range tx.Inputs() {
			k := in.ReferKey()
			if o, ok := seen[k]; ok && o != h {
				v("two-txs-share-outpoint", "txs %s and %s both spend %s:%d", o, h, in.Previous.TxID, in.Previous.Index)
			}
			seen[k] = h
		}
	}
	// 2. fee list: same set, sorted by fee rate (descending), sizes and total agree, within bound
	inList := map[common.Uint256]int{}
	var total uint64
	for i, it := range s.FeeList {
		inList[it.Hash]++
		total += uint64(it.Size)
		tx, ok := s.Txs[it.Hash]
		if !ok {
			v("feelist-extra-entry", "fee list entry %s has no tx in the pool", it.Hash)
			continue
		}
		if uint32(tx.GetSize()) != it.Size {
			v("feelist-size-mismatch", "fee list size %d != tx size %d", it.Size, tx.GetSize())
		}
		want := float64(tx.Fee()) / float64(tx.GetSize())
		if math.Abs(want-it.FeeRate) > 1e-9*math.Max(1, math.Abs(want)) {
			v("feelist-rate-mismatch", "fee list rate %v != fee/size %v for %s", it.FeeRate, want, it.Hash)
		}
		if i > 0 && s.FeeList[i-1].FeeRate < it.FeeRate {
			v("feelist-not-sorted", "fee list not sorted by descending fee rate at index %d (%v < %v)", i, s.FeeList[i-1].FeeRate, it.FeeRate)
		}
	}
	for h := range s.Txs {
		if inList[h] == 0 {
			v("feelist-missing-entry", "pool tx %s has no fee list entry", h)
		} else if inList[h] > 1 {
			v("feelist-duplicate-entry", "pool tx %s has %d fee list entries", h, inList[h])
		}
	}
	if total != s.TotalSize {
		v("feelist-totalsize-mismatch", "totalSize %d != sum of entry sizes %d", s.TotalSize, total)
	}
	if s.TotalSize > s.MaxSize {
		v("pool-over-size-limit", "totalSize %d > maxSize %d", s.TotalSize, s.MaxSize)
	}
	// 3. slots: every key has a holder in the pool that derives this key; every held tx's keys are present and map to it
	for name, m := range s.Slots {
		for k, holder := range m {
			tx, ok := s.Txs[holder]
			if !ok {
				v("slot-key-without-holder:"+name, "slot %s key %s refers to tx %s which is not in the pool", name, k, holder)
				continue
			}
			keys, err := nd.TxPool.VerifSlotKeys(tx)
			if err != nil {
				continue
			}
			found := false
			for _, kk := range keys[name] {
				if kk == k {
					found = true
				}
			}
			if !found {
				v("slot-key-not-derived-by-holder:"+name, "slot %s key %s is held by %s which does not derive it", name, k, holder)
			}
		}
	}
	for h, tx := range s.Txs {
		keys, err := nd.TxPool.VerifSlotKeys(tx)
		if err != nil {
			continue
		}
		for name, ks := range keys {
			c.Inc("slot_exercised:" + name)
			for _, k := range ks {
				holder, ok := s.Slots[name][k]
				if !ok {
					v("held-tx-key-absent:"+name, "pool tx %s (%s) derives key %s of slot %s which is absent", h, tx.TxType().Name(), k, name)
				} else if holder != h {
					v("held-tx-key-other-holder:"+name, "pool tx %s derives key %s of slot %s held by %s", h, k, name, holder)
				}
			}
		}
	}
	// 4. pending-proposal budget total
	var want common.Fixed64
	for _, tx := range s.Txs {
		if p, ok := tx.Payload().(*payload.CRCProposal); ok && tx.IsCRCProposalTx() {
			for _, b := range p.Budgets {
				want += b.Amount
			}
		}
	}
	if want != s.ProposalsUsedAmount {
		v("proposals-used-amount-mismatch", "proposalsUsedAmount %d != sum of held proposal budgets %d", s.ProposalsUsedAmount, want)
	}
	// 5. auxiliary maps refer to held txs
	for h := range s.TxReceivingHeights {
		if _, ok := s.Txs[h]; !ok {
			v("receiving-info-for-absent-tx", "txReceivingInfo has %s which is not in the pool", h)
		}
	}
	for h := range s.CrossChainHeights {
		if _, ok := s.Txs[h]; !ok {
			v("crosschain-height-for-absent-tx", "crossChainHeightList has %s which is not in the pool", h)
		}
	}
	// 6. public view agrees
	pub := nd.TxPool.GetTxsInPool()
	if len(pub) != len(s.Txs) {
		v("public-view-differs", "GetTxsInPool has %d txs, snapshot %d", len(pub), len(s.Txs))
	}
	if nd.TxPool.GetTransactionCount() != len(s.Txs) {
		v("public-count-differs", "GetTransactionCount %d != %d", nd.TxPool.GetTransactionCount(), len(s.Txs))
	}
}

// after the post-block cleanup no pool tx may spend an outpoint spent on the active chain
func c34CheckAgainstChain(c *kit.Ctx, nd *node.Node, stage string) {
	l := nd.Replay()
	for _, tx := range nd.TxPool.GetTxsInPool() {
		for _, in := range tx.Inputs() {
			if at, ok := l.SpentAt[node.OutKey{TxID: in.Previous.TxID, Index: in.Previous.Index}]; ok {
				c.Violate("pool-tx-spends-chain-spent-output", fmt.Sprintf("%s: pool tx %s spends %s:%d which was spent on the active chain at height %d",
					stage, tx.Hash(), in.Previous.TxID, in.Previous.Index, at), nil)
			}
		}
		if _, ok := l.Txs[tx.Hash()]; ok {
			c.Violate("pool-holds-confirmed-tx", fmt.Sprintf("%s: pool still holds tx %s which is on the active chain", stage, tx.Hash()), nil)
		}
	}
}

func runC34(c *kit.Ctx) {
	r := c.Rand("c34")
	opts := node.Options{Dir: c.WorkDir, CoinbaseMaturity: 2}
	for _, tw := range c34Tweaks {
		tw(c.Shard)(&opts)
	}
	nd, err := node.Start(opts)
	if err != nil {
		c.Inconclusive("node start: %v", err)
		return
	}
	defer nd.Close()
	if err := nd.MineN(3); err != nil {
		c.Inconclusive("mine: %v", err)
		return
	}
	// fund 5 accounts x 40 utxos
	accts := []int{2, 3, 4, 5, 6}
	g := nd.GenesisUTXO()
	val := common.Fixed64(100 * 1e8)
	var outs []node.Out
	for _, a := range accts {
		for k := 0; k < 40; k++ {
			outs = append(outs, node.Out{To: node.Key(a).ProgramHash, Value: val})
		}
	}
	outs = append(outs, node.Out{To: nd.Found.ProgramHash, Value: g.Value - val*common.Fixed64(len(outs)) - 10000})
	fund := node.Transfer([]node.UTXORef{g}, outs, common2.TxVersion09)
	if _, err := nd.MineTip(fund); err != nil {
		c.Inconclusive("fund: %v", err)
		return
	}
	nd.MineN(2)
	type utxo struct {
		ref     node.UTXORef
		state   int // 0 free, 1 in pool, 2 confirmed-spent
		spender interfaces.Transaction
	}
	var us []*utxo
	for i := 0; i < len(accts)*40; i++ {
		us = append(us, &utxo{ref: node.UTXORef{TxID: fund.Hash(), Index: uint16(i), Value: val, Owner: node.Key(accts[i/40])}})
	}
	var sources []*c34Source
	for _, mk := range c34Sources {
		s := mk()
		if s.Setup != nil {
			if err := s.Setup(c, nd, r); err != nil {
				c.Note("source %s setup failed: %v", s.Name, err)
				continue
			}
		}
		sources = append(sources, s)
	}
	refresh := func() {
		// recompute utxo states from chain + pool
		l := nd.Replay()
		pool := map[string]interfaces.Transaction{}
		for _, tx := range nd.TxPool.GetTxsInPool() {
			for _, in := range tx.Inputs() {
				pool[in.ReferKey()] = tx
			}
		}
		for _, u := range us {
			k := node.OutKey{TxID: u.ref.TxID, Index: u.ref.Index}
			in := common2.Input{Previous: common2.OutPoint{TxID: u.ref.TxID, Index: u.ref.Index}}
			if _, ok := l.Unspent[k]; !ok {
				u.state, u.spender = 2, nil
			} else if tx, ok := pool[in.ReferKey()]; ok {
				u.state, u.spender = 1, tx
			} else {
				u.state, u.spender = 0, nil
			}
		}
	}
	pick := func(state int) *utxo {
		var cand []*utxo
		for _, u := range us {
			if u.state == state {
				cand = append(cand, u)
			}
		}
		if len(cand) == 0 {
			return nil
		}
		return cand[r.Intn(len(cand))]
	}
	mkTransfer := func(ins []*utxo, fee int64) interfaces.Transaction {
		var refs []node.UTXORef
		var tot common.Fixed64
		for _, u := range ins {
			refs = append(refs, u.ref)
			tot += u.ref.Value
		}
		n := 1 + r.Intn(3)
		var os []node.Out
		rem := tot - common.Fixed64(fee)
		for i := 0; i < n; i++ {
			vv := rem / common.Fixed64(n-i)
			os = append(os, node.Out{To: node.Key(accts[r.Intn(len(accts))]).ProgramHash, Value: vv})
			rem -= vv
		}
		return node.Transfer(refs, os, common2.TxVersion09)
	}
	steps := c.N(150, 1200)
	shrunk := false
	for i := 0; i < steps; i++ {
		refresh()
		k := r.Intn(100)
		kind := ""
		outcome := ""
		nonTrivial := nd.TxPool.GetTransactionCount() > 0
		switch {
		case k < 40: // fresh submission (1-2 inputs)
			kind = "submit-fresh"
			u := pick(0)
			if u == nil {
				continue
			}
			ins := []*utxo{u}
			if r.Intn(4) == 0 {
				if u2 := pick(0); u2 != nil && u2 != u && u2.ref.Owner == u.ref.Owner {
					ins = append(ins, u2)
				}
			}
			tx := mkTransfer(ins, int64(100+r.Intn(100000)))
			if e := nd.TxPool.AppendToTxPool(tx); e == nil {
				outcome = "accepted"
				c.Inc("submit_accepted")
			} else {
				outcome = "rejected"
				if shrunk {
					c.Inc("capacity_rejections")
				} else {
					c.Violate("honest-transfer-rejected", fmt.Sprintf("fresh honest transfer rejected: %v", e), nil)
				}
			}
		case k < 52: // conflicting with a pool tx
			kind = "submit-conflict"
			u := pick(1)
			if u == nil {
				continue
			}
			ins := []*utxo{u}
			if f := pick(0); f != nil && f.ref.Owner == u.ref.Owner && r.Intn(2) == 0 {
				ins = append(ins, f)
			}
			tx := mkTransfer(ins, int64(100+r.Intn(100000)))
			if e := nd.TxPool.AppendToTxPool(tx); e == nil {
				outcome = "accepted"
				c.Violate("conflicting-tx-admitted", "a tx spending an outpoint already claimed by a pool tx was admitted", nil)
			} else {
				outcome = "rejected"
				c.Inc("submit_rejected_conflict")
			}
		case k < 56: // spend of an output spent on chain
			kind = "submit-chain-spent"
			u := pick(2)
			if u == nil {
				continue
			}
			tx := mkTransfer([]*utxo{u}, 1000)
			if e := nd.TxPool.AppendToTxPool(tx); e == nil {
				c.Violate("chain-spent-output-admitted", "a tx spending an output already spent on the active chain was admitted", nil)
			} else {
				c.Inc("submit_rejected_spent")
			}
		case k < 64 && len(sources) > 0:
			s := sources[r.Intn(len(sources))]
			kind = "source:" + s.Name
			tx := s.Next(c, nd, r)
			if tx == nil {
				continue
			}
			if e := nd.TxPool.AppendToTxPool(tx); e == nil {
				outcome = "accepted"
				c.Inc("source_accepted:" + s.Name)
			} else {
				outcome = "rejected"
				c.Inc("source_rejected:" + s.Name)
			}
		case k < 66: // RemoveTransaction(parent): removes pool txs spending outputs of the given tx
			kind = "remove"
			nd.TxPool.RemoveTransaction(fund)
			c.Inc("removals")
			if nd.TxPool.GetTransactionCount() != 0 && len(sources) == 0 {
				c.Violate("remove-left-spenders", "RemoveTransaction(fund) left pool txs although every pool tx spends an output of fund", nil)
			}
		case k < 70:
			kind = "maybe-accept"
			if u := pick(0); u != nil {
				tx := mkTransfer([]*utxo{u}, 500)
				nd.TxPool.MaybeAcceptTransaction(tx)
			}
		case k < 82: // block with some pool txs and possibly conflicting non-pool txs
			kind = "block"
			txs := nd.TxPool.GetTxsInPool()
			sort.Slice(txs, func(i, j int) bool { a, b := txs[i].Hash(), txs[j].Hash(); return a.Compare(b) < 0 })
			var sel []interfaces.Transaction
			for _, tx := range txs {
				if r.Intn(2) == 0 && len(sel) < 10 {
					sel = append(sel, tx)
				}
			}
			used := map[string]bool{}
			for _, tx := range sel {
				for _, in := range tx.Inputs() {
					used[in.ReferKey()] = true
				}
			}
			conflicts := 0
			if r.Intn(2) == 0 {
				// a non-pool tx double-spending the input of a pool tx that is NOT selected
				for _, u := range us {
					if u.state != 1 {
						continue
					}
					in := common2.Input{Previous: common2.OutPoint{TxID: u.ref.TxID, Index: u.ref.Index}}
					if used[in.ReferKey()] {
						continue
					}
					// skip if the pool spender also spends an input we already use
					okc := true
					for _, pin := range u.spender.Inputs() {
						if used[pin.ReferKey()] {
							okc = false
						}
					}
					if !okc {
						continue
					}
					sel = append(sel, mkTransfer([]*utxo{u}, 2000+int64(r.Intn(1000))))
					used[in.ReferKey()] = true
					conflicts++
					if conflicts >= 2 {
						break
					}
				}
			}
			if len(sel) == 0 {
				outcome = "empty"
			}
			b, err := nd.MineTip(sel...)
			if err != nil {
				c.Note("block with %d txs rejected: %v", len(sel), err)
				outcome = "rejected"
				_ = b
			} else {
				if len(sel)-conflicts > 0 {
					c.Inc("blocks_with_pool_txs")
				}
				if conflicts > 0 {
					c.Inc("blocks_with_conflicting_txs")
				}
				c34CheckAgainstChain(c, nd, fmt.Sprintf("step %d after block", i))
			}
		case k < 90: // reorg depth 1-2 with empty blocks
			kind = "reorg"
			if nd.Height() < 8 {
				continue
			}
			depth := 1 + r.Intn(2)
			base := nd.TipBlock()
			for d := 0; d < depth; d++ {
				pb, err := nd.Chain.GetBlockByHash(base.Previous)
				if err != nil {
					break
				}
				base = pb
			}
			if base.Height <= 6 { // never detach the funding block
				continue
			}
			parent := base
			ok := true
			for d := 0; d <= depth; d++ {
				b, err := nd.Assemble(node.BlockSpec{Parent: parent, Nonce: uint64(r.Int63()) | 1})
				if err != nil {
					ok = false
					break
				}
				if _, _, err := nd.Process(b); err != nil {
					ok = false
					break
				}
				nd.PostBlock(b)
				parent = b
			}
			if ok {
				c.Inc("reorgs")
				c34CheckAgainstChain(c, nd, fmt.Sprintf("step %d after reorg", i))
			}
		case k < 93: // shrink / restore the size bound
			kind = "resize"
			if !shrunk {
				s := nd.TxPool.VerifSnapshot()
				nd.TxPool.VerifSetMaxSize(s.TotalSize + uint64(r.Intn(300)))
				shrunk = true
			} else {
				nd.TxPool.VerifSetMaxSize(20000000)
				shrunk = false
			}
		default:
			kind = "snapshot"
			cp := nd.TxPool.Snapshot()
			if cp == nil {
				c.Violate("snapshot-failed", "TxPool.Snapshot returned nil", nil)
			}
			c.Inc("snapshots")
		}
		c.Inc("steps")
		c.Inc("step:" + kind)
		c.Case(fmt.Sprintf("%d:%d:%s:%s", c.Shard, i, kind, outcome), nonTrivial)
		c34CheckInvariants(c, nd, fmt.Sprintf("step %d (%s)", i, kind))
		if i < 3 && c.Shard == 0 {
			c.Sample(map[string]interface{}{"step": i, "kind": kind, "outcome": outcome, "pool_txs": nd.TxPool.GetTransactionCount(), "height": nd.Height()})
		}
	}
	_ = mempool.TxPool{}
}

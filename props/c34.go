package props

import (
	"fmt"
	"math"
	"math/rand"
	"regexp"
	"sort"
	"strings"

	"github.com/elastos/Elastos.ELA/common"
	"github.com/elastos/Elastos.ELA/common/config"
	"github.com/elastos/Elastos.ELA/core/types"
	common2 "github.com/elastos/Elastos.ELA/core/types/common"
	"github.com/elastos/Elastos.ELA/core/types/interfaces"
	"github.com/elastos/Elastos.ELA/core/types/payload"
	"github.com/elastos/Elastos.ELA/mempool"

	"verif/kit"
	"verif/kit/node"
)

// C34 — the mempool stays consistent and conflict-free.
// Invariants are recomputed from the held transactions themselves and compared
// with the pool's internal indexes (build-tagged snapshot) at quiescent points:
// after every API call that is documented to leave the pool consistent, and
// after the node's post-block cleanup.

// c34Source produces candidate transactions (possibly colliding on purpose).
// Later workloads (DPoS/CR eras) append to c34Sources.
type c34Source struct {
	Name string
	// Envs lists the chain environments (c34Env.Kind) the source applies to; nil = every environment.
	Envs []string
	// Weight of the source among the shard's sources (0 = 1).
	Weight int
	// Setup runs once on the node before the history (fund accounts etc.).
	Setup func(c *kit.Ctx, nd *node.Node, r *rand.Rand) error
	// Next returns a tx to submit (nil = nothing available now).
	Next func(c *kit.Ctx, nd *node.Node, r *rand.Rand) interfaces.Transaction
	// BlockTxs (optional) returns transactions that are NOT in the pool to be
	// mined in the next block together with sel (the pool txs selected for it):
	// non-pool txs that collide with a pool tx on a non-outpoint resource,
	// cancel-producer / unregister-CR transactions, ...
	BlockTxs func(c *kit.Ctx, nd *node.Node, r *rand.Rand, sel []interfaces.Transaction) []interfaces.Transaction
}

// c34Env is the chain environment of a shard. The zero Kind is the original
// pow-era workload; the DPoS/CR environments are defined in c34_sources.go.
type c34Env struct {
	Kind      string                          // "" | "voting" | "committee" | "dposv2"
	Era       string                          // node.EraTweak name ("" = pow-era)
	Tweak     func(cfg *config.Configuration) // composed after the era tweak
	Boot      node.BootOpts                   // node.Bootstrap options
	SourcePct int                             // % of history steps that ask a source for a tx
}

var c34Sources []func() *c34Source
var c34Tweaks []func(shard int) func(o *node.Options)
var c34EnvOf func(shard int) *c34Env // nil = every shard runs the pow-era workload
var c34Boot *node.Boot               // what node.Bootstrap built on this shard (one node per process)
var c34RejNotes []string
var c34AfterInvariants func(c *kit.Ctx, kind, outcome string)

// c34Resources (c34_sources.go) lists the unique resources a transaction claims,
// derived from its payload by the harness's own rules ("kind=value").
var c34Resources func(tx interfaces.Transaction) []string

// Root-cause attribution (one signature per defect instead of one per slot):
// c34SeenTx remembers every tx ever seen in the pool, so that a slot key whose
// holder left the pool can be traced to the key function that failed at
// eviction time; c34Explained holds pool txs whose index entries were stripped
// by a block tx (reported once as "block-tx-strips-pool-tx-keys").
var c34SeenTx = map[common.Uint256]interfaces.Transaction{}
var c34Explained = map[common.Uint256]string{}
var c34KeyFuncRe = regexp.MustCompile(`^slot (\w+): `)
var c34NumRe = regexp.MustCompile(`[0-9a-f]{8,}|\d+`)

func c34Reason(err error) string {
	m := err.Error()
	if i := strings.LastIndex(m, "BlockPool swallowed the reason: "); i >= 0 {
		m = m[i+len("BlockPool swallowed the reason: "):]
	}
	m = c34NumRe.ReplaceAllString(m, "#")
	if len(m) > 80 {
		m = m[:80]
	}
	return m
}

// c34BlockWatch records, before a block is mined, which pool txs hold a slot
// key that a NON-pool block tx derives as well (collision on a resource).
type c34Claim struct {
	slot, key string
	holder    common.Uint256
	by        interfaces.Transaction
}

func c34BlockClaims(nd *node.Node, blockTxs []interfaces.Transaction) []c34Claim {
	s := nd.TxPool.VerifSnapshot()
	var cl []c34Claim
	for _, tx := range blockTxs {
		if _, inPool := s.Txs[tx.Hash()]; inPool {
			// a pool tx owns its keys - unless it was stripped before (then a second
			// claimant may have been admitted, and mining the first strips the second)
			if _, stripped := c34Explained[tx.Hash()]; !stripped {
				continue
			}
		}
		keys, err := nd.TxPool.VerifSlotKeys(tx)
		if err != nil {
			continue
		}
		for name, ks := range keys {
			for _, k := range ks {
				if h, ok := s.Slots[name][k]; ok && h != tx.Hash() {
					cl = append(cl, c34Claim{slot: name, key: k, holder: h, by: tx})
				}
			}
		}
	}
	sort.Slice(cl, func(i, j int) bool { return cl[i].slot+cl[i].key < cl[j].slot+cl[j].key })
	return cl
}

// c34ProposalsAfterBlock classifies the proposals that were pending before a
// block and are gone after the node's post-block clean-up: mined, evicted for
// an outpoint the block spent (both by CleanSubmittedTransactions), or dropped
// by the re-validation of CheckAndCleanAllTransactions. Right after such a
// drop - before another clean-up could repair it - the pool's pending-proposal
// budget total is compared with the budgets of the proposals it still holds.
func c34ProposalsAfterBlock(c *kit.Ctx, nd *node.Node, stage string, b *types.Block, before map[common.Uint256]interfaces.Transaction) {
	if len(before) == 0 || b == nil {
		return
	}
	mined := map[common.Uint256]bool{}
	spent := map[string]bool{}
	for _, tx := range b.Transactions {
		mined[tx.Hash()] = true
		for _, in := range tx.Inputs() {
			spent[in.ReferKey()] = true
		}
	}
	s := nd.TxPool.VerifSnapshot()
	dropped := 0
	var droppedBudget common.Fixed64
	for h, tx := range before {
		if _, still := s.Txs[h]; still {
			c.Inc("pool_proposals_kept_across_block")
			continue
		}
		if mined[h] {
			c.Inc("pool_proposals_mined")
			continue
		}
		doubleSpent := false
		for _, in := range tx.Inputs() {
			doubleSpent = doubleSpent || spent[in.ReferKey()]
		}
		if doubleSpent {
			c.Inc("pool_proposals_evicted_for_outpoint")
			continue
		}
		dropped++
		c.Inc("pool_proposals_dropped_by_recheck")
		if p, ok := tx.Payload().(*payload.CRCProposal); ok {
			for _, bd := range p.Budgets {
				droppedBudget += bd.Amount
			}
		}
	}
	if dropped == 0 {
		return
	}
	if droppedBudget > 0 {
		c.Inc("pool_budget_proposals_dropped_by_recheck")
	}
	var want common.Fixed64
	for _, tx := range s.Txs {
		if p, ok := tx.Payload().(*payload.CRCProposal); ok && tx.IsCRCProposalTx() {
			for _, bd := range p.Budgets {
				want += bd.Amount
			}
		}
	}
	c.Inc("budget_total_checked_after_recheck_drop")
	if want != s.ProposalsUsedAmount {
		c.Violate("proposals-used-amount-mismatch", fmt.Sprintf("%s: right after the post-block clean-up dropped %d pending proposal(s) (budgets %d) by re-validation: proposalsUsedAmount %d != sum of held proposal budgets %d",
			stage, dropped, int64(droppedBudget), int64(s.ProposalsUsedAmount), int64(want)), map[string]interface{}{"stage": stage})
	}
}

// c34AfterBlockClaims runs after the block was connected and the node's
// post-block cleanup ran: a pool tx that collided with a block tx must either
// have been evicted or still own its key.
func c34AfterBlockClaims(c *kit.Ctx, nd *node.Node, stage string, cl []c34Claim) {
	s := nd.TxPool.VerifSnapshot()
	for _, x := range cl {
		c.Inc("block_tx_collides_with_pool_tx:" + x.slot)
		htx, still := s.Txs[x.holder]
		if !still {
			c.Inc("colliding_pool_tx_evicted:" + x.slot)
			continue
		}
		if h, ok := s.Slots[x.slot][x.key]; ok && h == x.holder {
			c.Inc("colliding_pool_tx_kept_with_key:" + x.slot)
			continue
		}
		c.Inc("colliding_pool_tx_kept_without_key:" + x.slot)
		if _, done := c34Explained[x.holder]; !done {
			c34Explained[x.holder] = x.slot
			c.Violate("block-tx-strips-pool-tx-keys", fmt.Sprintf("%s: block tx %s (%s, not in the pool) derives key %s of slot %s which pool tx %s (%s) holds; after CleanSubmittedTransactions+CheckAndCleanAllTransactions the pool tx is still held but the slot no longer has its key (a further tx claiming the same resource is now admitted)",
				stage, x.by.Hash(), x.by.TxType().Name(), x.key, x.slot, x.holder, htx.TxType().Name()), map[string]interface{}{"stage": stage, "slot": x.slot})
		}
	}
}

func init() {
	kit.Register(&kit.Spec{
		ID:     "C34",
		Rule:   "seeded histories on a live node: submissions (fresh, conflicting on an outpoint held by the pool, spending outputs already spent on chain), RemoveTransaction, MaybeAcceptTransaction, blocks containing pool txs and conflicting non-pool txs followed by the node's post-block cleanup, depth-1/2 reorganisations, pool size bound shrunk so admission hits the limit, checkpoint snapshots; 3 of 8 shards run this on a pow-era chain, 5 on bootstrapped DPoS/CR chains (2 public DPoS with the CR voting period open, 2 with an elected committee, 1 DPoS v2) where ~46% of the steps come from sources that collide on purpose on owner/node keys, nicknames, CIDs, draft hashes, sponsoring members, target proposals, claim-node keys, stake addresses, and blocks carry non-pool txs colliding with pool txs on such a resource plus cancel-producer / unregister-CR txs; after every step the hooked internal snapshot is compared with invariants recomputed from the held txs. distinct = (history, step kind, outcome); non-trivial = step changed or probed a non-empty pool",
		Shards: func(tier string) int { return 8 },
		Run:    runC34,
		Require: []string{"steps", "invariant_checks", "submit_accepted", "submit_rejected_conflict", "blocks_with_pool_txs", "blocks_with_conflicting_txs", "removals", "capacity_rejections", "reorgs", "snapshots", "nonempty_pool_checks",
			"shards_env:voting/dpos-era", "shards_env:committee/dpos-era", "shards_env:dposv2/dposv2-era", "blocks_with_resource_conflicting_txs",
			"source_accepted:chain-spend", "source_accepted:producers", "source_accepted:cr-candidates", "source_accepted:proposals", "source_accepted:claim-node", "source_accepted:stake",
			"store_fault_submissions", "store_fault_then_resubmitted", "invariants_checked_after_store_fault", "invariants_checked_after_store_fault_resubmission", "small_cross_transfers_saved",
			"pool_proposals_dropped_by_recheck", "pool_budget_proposals_dropped_by_recheck", "budget_total_checked_after_recheck_drop", "pool_proposals_kept_across_block", "pool_proposals_mined"},
		Post: func(a *kit.Agg) {
			n := 0
			for k := range a.Counters {
				if strings.HasPrefix(k, "slot_exercised:") {
					n++
				}
			}
			nc := 0
			for k := range a.Counters {
				if strings.HasPrefix(k, "slot_conflict_rejected:") {
					nc++
				}
			}
			a.Counters["max:conflict_slots_with_pool_rejections"] = int64(nc)
			if nc < 4 {
				a.Inconclusive("submissions were refused for a pool conflict in only %d slots (want >= 4)", nc)
			}
			a.Counters["max:conflict_slots_exercised"] = int64(n)
			var names []string
			for k := range a.Counters {
				if strings.HasPrefix(k, "slot_exercised:") {
					names = append(names, strings.TrimPrefix(k, "slot_exercised:"))
				}
			}
			sort.Strings(names)
			a.Notes = append(a.Notes, fmt.Sprintf("conflict slots exercised (%d of 39): %s", n, strings.Join(names, " ")),
				"conflict slots NOT reachable with the kit's signed tx factory: SidechainTxHashes (WithdrawFromSideChain), SidechainReturnDepositTxHashes (ReturnSideChainDepositCoin), NFTDestroyFromSideChainHash, createnft + createnftstakeaddr (CreateNFT), RevertToDPOSHash (needs POW consensus); CRCAppropriationKey only holds a key between a committee change and the next block (no committee change is driven during the histories); ReserveCustomID / CustomIDProposalResult / ChangeProposalOwnerTargetProposalHash depend on the seed in the quick tier")
			if n < 22 {
				a.Inconclusive("only %d of the 39 conflict slots were exercised (want >= 22)", n)
			}
		},
		Assumptions: []string{"internal indexes are read through mempool.VerifSnapshot (build tag verif) under the pool's own lock",
			"invariants are judged only at quiescent points: after an API call returns and, for block connection, after CleanSubmittedTransactions+CheckAndCleanAllTransactions"},
	})
}

func c34CheckInvariants(c *kit.Ctx, nd *node.Node, stage string) {
	// In the DPoS eras the node itself appends transactions asynchronously
	// (go events.Notify -> AppendToTxPool). The snapshot is atomic (pool lock);
	// the comparison with the public view is only made on a pool that did not
	// change around the snapshot.
	s := nd.TxPool.VerifSnapshot()
	pubStable, n1 := false, 0
	for try := 0; try < 5 && !pubStable; try++ {
		n1 = nd.TxPool.GetTransactionCount()
		s = nd.TxPool.VerifSnapshot()
		pubStable = nd.TxPool.GetTransactionCount() == n1
	}
	c.Inc("invariant_checks")
	if len(s.Txs) > 0 {
		c.Inc("nonempty_pool_checks")
	}
	c.Max("max:pool_txs", int64(len(s.Txs)))
	v := func(sig, format string, a ...interface{}) {
		c.Violate(sig, stage+": "+fmt.Sprintf(format, a...), map[string]interface{}{"stage": stage})
	}
	// 1. no two held txs share an outpoint (recomputed from inputs)
	seen := map[string]common.Uint256{}
	for h, tx := range s.Txs {
		if tx.Hash() != h {
			v("txnlist-key-mismatch", "txnList key %s holds tx %s", h, tx.Hash())
		}
		for _, in := range tx.Inputs() {
			k := in.ReferKey()
			if o, ok := seen[k]; ok && o != h {
				v("two-txs-share-outpoint", "txs %s and %s both spend %s:%d", o, h, in.Previous.TxID, in.Previous.Index)
			}
			seen[k] = h
		}
	}
	// 2. fee list: same set, sorted by fee rate (descending), sizes and total agree, within bound
	inList := map[common.Uint256]int{}
	var total uint64
	for i, it := range s.FeeList {
		inList[it.Hash]++
		total += uint64(it.Size)
		tx, ok := s.Txs[it.Hash]
		if !ok {
			v("feelist-extra-entry", "fee list entry %s has no tx in the pool", it.Hash)
			continue
		}
		if uint32(tx.GetSize()) != it.Size {
			v("feelist-size-mismatch", "fee list size %d != tx size %d", it.Size, tx.GetSize())
		}
		want := float64(tx.Fee()) / float64(tx.GetSize())
		if math.Abs(want-it.FeeRate) > 1e-9*math.Max(1, math.Abs(want)) {
			v("feelist-rate-mismatch", "fee list rate %v != fee/size %v for %s", it.FeeRate, want, it.Hash)
		}
		if i > 0 && s.FeeList[i-1].FeeRate < it.FeeRate {
			v("feelist-not-sorted", "fee list not sorted by descending fee rate at index %d (%v < %v)", i, s.FeeList[i-1].FeeRate, it.FeeRate)
		}
	}
	for h := range s.Txs {
		if inList[h] == 0 {
			v("feelist-missing-entry", "pool tx %s has no fee list entry", h)
		} else if inList[h] > 1 {
			v("feelist-duplicate-entry", "pool tx %s has %d fee list entries", h, inList[h])
		}
	}
	if total != s.TotalSize {
		v("feelist-totalsize-mismatch", "totalSize %d != sum of entry sizes %d", s.TotalSize, total)
	}
	if s.TotalSize > s.MaxSize {
		v("pool-over-size-limit", "totalSize %d > maxSize %d", s.TotalSize, s.MaxSize)
	}
	// 3. slots: every key has a holder in the pool that derives this key; every held tx's keys are present and map to it
	for h, tx := range s.Txs {
		c34SeenTx[h] = tx
	}
	for name, m := range s.Slots {
		for k, holder := range m {
			tx, ok := s.Txs[holder]
			if !ok {
				// attribution: the pool removes an evicted tx slot by slot and stops at the
				// first key function that fails; if that is ANOTHER slot's function, the
				// leak is reported under the failing function (one defect, one signature)
				if old := c34SeenTx[holder]; old != nil {
					if _, err := nd.TxPool.VerifSlotKeys(old); err != nil {
						if m := c34KeyFuncRe.FindStringSubmatch(err.Error()); m != nil && m[1] != name {
							c.Inc("leaked_key_after_failed_keyfunc:" + m[1] + ":" + name)
							v("evicted-tx-keeps-slot-keys:keyfunc-failed:"+m[1], "slot %s key %s still refers to evicted %s tx %s: removal stopped at slot %s whose key function now fails (%v)", name, k, old.TxType().Name(), holder, m[1], err)
							continue
						}
					}
				}
				v("slot-key-without-holder:"+name, "slot %s key %s refers to tx %s which is not in the pool", name, k, holder)
				continue
			}
			keys, err := nd.TxPool.VerifSlotKeys(tx)
			if err != nil {
				continue
			}
			found := false
			for _, kk := range keys[name] {
				if kk == k {
					found = true
				}
			}
			if !found {
				v("slot-key-not-derived-by-holder:"+name, "slot %s key %s is held by %s which does not derive it", name, k, holder)
			}
		}
	}
	for h, tx := range s.Txs {
		keys, err := nd.TxPool.VerifSlotKeys(tx)
		if err != nil {
			continue
		}
		for name, ks := range keys {
			c.Inc("slot_exercised:" + name)
			for _, k := range ks {
				holder, ok := s.Slots[name][k]
				if _, expl := c34Explained[h]; expl && (!ok || holder != h) {
					c.Inc("explained_by:block-tx-strips-pool-tx-keys") // already reported once for this tx
					if ok && holder != h {
						c.Inc("second_claimant_admitted:" + name)
					}
					continue
				}
				if !ok {
					tip := ""
					for _, bt := range nd.TipBlock().Transactions[1:] {
						tip += fmt.Sprintf(" %s/%s", bt.TxType().Name(), bt.Hash().String()[:8])
					}
					v("held-tx-key-absent:"+name, "pool tx %s (%s) derives key %s of slot %s which is absent (tip block %d carries:%s)", h, tx.TxType().Name(), k, name, nd.Height(), tip)
				} else if holder != h {
					if _, expl := c34Explained[holder]; expl {
						c.Inc("explained_by:block-tx-strips-pool-tx-keys")
						continue
					}
					v("held-tx-key-other-holder:"+name, "pool tx %s derives key %s of slot %s held by %s", h, k, name, holder)
				}
			}
		}
	}
	// 3b. independent resource model (does not use the pool's key functions)
	if c34Resources != nil {
		claimed := map[string]common.Uint256{}
		hs := make([]common.Uint256, 0, len(s.Txs))
		for h := range s.Txs {
			hs = append(hs, h)
		}
		sort.Slice(hs, func(i, j int) bool { return hs[i].Compare(hs[j]) < 0 })
		for _, h := range hs {
			for _, res := range c34Resources(s.Txs[h]) {
				c.Inc("resource_claims_checked")
				if o, dup := claimed[res]; dup && o != h {
					_, e1 := c34Explained[h]
					_, e2 := c34Explained[o]
					if e1 || e2 {
						c.Inc("explained_by:block-tx-strips-pool-tx-keys")
						continue
					}
					kind := res
					if i := strings.Index(res, "="); i > 0 {
						kind = res[:i]
					}
					v("two-txs-claim-same-resource:"+kind, "pool txs %s (%s) and %s (%s) both claim %s", o, s.Txs[o].TxType().Name(), h, s.Txs[h].TxType().Name(), res)
				}
				claimed[res] = h
			}
		}
	}
	// 4. pending-proposal budget total
	var want common.Fixed64
	for _, tx := range s.Txs {
		if p, ok := tx.Payload().(*payload.CRCProposal); ok && tx.IsCRCProposalTx() {
			for _, b := range p.Budgets {
				want += b.Amount
			}
		}
	}
	if want != s.ProposalsUsedAmount {
		v("proposals-used-amount-mismatch", "proposalsUsedAmount %d != sum of held proposal budgets %d", s.ProposalsUsedAmount, want)
	}
	// 5. auxiliary maps refer to held txs
	for h := range s.TxReceivingHeights {
		if _, ok := s.Txs[h]; !ok {
			v("receiving-info-for-absent-tx", "txReceivingInfo has %s which is not in the pool", h)
		}
	}
	for h := range s.CrossChainHeights {
		if _, ok := s.Txs[h]; !ok {
			v("crosschain-height-for-absent-tx", "crossChainHeightList has %s which is not in the pool", h)
		}
	}
	// 6. public view agrees
	pub := nd.TxPool.GetTxsInPool()
	cnt := nd.TxPool.GetTransactionCount()
	if !pubStable || cnt != n1 { // a node-generated tx arrived between the reads
		c.Inc("public_view_check_skipped_pool_changed")
		return
	}
	if len(pub) != len(s.Txs) {
		v("public-view-differs", "GetTxsInPool has %d txs, snapshot %d", len(pub), len(s.Txs))
	}
	if cnt != len(s.Txs) {
		v("public-count-differs", "GetTransactionCount %d != %d", cnt, len(s.Txs))
	}
}

// after the post-block cleanup no pool tx may spend an outpoint spent on the active chain
func c34CheckAgainstChain(c *kit.Ctx, nd *node.Node, stage string) {
	l := nd.Replay()
	for _, tx := range nd.TxPool.GetTxsInPool() {
		for _, in := range tx.Inputs() {
			if at, ok := l.SpentAt[node.OutKey{TxID: in.Previous.TxID, Index: in.Previous.Index}]; ok {
				c.Violate("pool-tx-spends-chain-spent-output", fmt.Sprintf("%s: pool tx %s spends %s:%d which was spent on the active chain at height %d",
					stage, tx.Hash(), in.Previous.TxID, in.Previous.Index, at), nil)
			}
		}
		if _, ok := l.Txs[tx.Hash()]; ok {
			c.Violate("pool-holds-confirmed-tx", fmt.Sprintf("%s: pool still holds tx %s which is on the active chain", stage, tx.Hash()), nil)
		}
	}
}

func runC34(c *kit.Ctx) {
	r := c.Rand("c34")
	env := &c34Env{SourcePct: 8}
	if c34EnvOf != nil {
		if e := c34EnvOf(c.Shard); e != nil {
			env = e
		}
	}
	c.Inc("shards_env:" + env.Kind + "/" + env.Era)
	opts := node.Options{Dir: c.WorkDir, CoinbaseMaturity: 2}
	if env.Era != "" {
		opts.Tweak = func(cfg *config.Configuration) {
			node.EraTweak(env.Era)(cfg)
			if env.Tweak != nil {
				env.Tweak(cfg)
			}
		}
	}
	for _, tw := range c34Tweaks {
		tw(c.Shard)(&opts)
	}
	nd, err := node.Start(opts)
	if err != nil {
		c.Inconclusive("node start: %v", err)
		return
	}
	defer nd.Close()
	accts := []int{2, 3, 4, 5, 6}
	val := common.Fixed64(100 * 1e8)
	// mine: honest block on the tip + the node's post-block cleanup. In the DPoS
	// eras blocks carry the node-generated txs and a confirm (MineTipDPoS).
	mine := nd.MineTip
	var fund interfaces.Transaction
	var fundHeight uint32
	if env.Era == "" {
		if err := nd.MineN(3); err != nil {
			c.Inconclusive("mine: %v", err)
			return
		}
		// fund 5 accounts x 40 utxos
		g := nd.GenesisUTXO()
		var outs []node.Out
		for _, a := range accts {
			for k := 0; k < 40; k++ {
				outs = append(outs, node.Out{To: node.Key(a).ProgramHash, Value: val})
			}
		}
		outs = append(outs, node.Out{To: nd.Found.ProgramHash, Value: g.Value - val*common.Fixed64(len(outs)) - 10000})
		fund = node.Transfer([]node.UTXORef{g}, outs, common2.TxVersion09)
		if _, err := nd.MineTip(fund); err != nil {
			c.Inconclusive("fund: %v", err)
			return
		}
		nd.MineN(2)
	} else {
		defer nd.UnhookEvents()
		mine = nd.MineTipDPoS
		boot, err := nd.Bootstrap(env.Era, env.Boot)
		if err != nil {
			c.Inconclusive("bootstrap %s/%s: %v", env.Era, env.Kind, err)
			return
		}
		c34Boot = boot
		refs, err := nd.Fund(accts, 40, val)
		if err != nil {
			c.Inconclusive("fund (%s): %v", env.Era, err)
			return
		}
		for _, tx := range nd.TipBlock().Transactions {
			if tx.Hash() == refs[0][0].TxID {
				fund = tx
			}
		}
		if fund == nil {
			c.Inconclusive("fund (%s): funding tx not in the tip block", env.Era)
			return
		}
		if err := nd.MineNDPoS(2); err != nil {
			c.Inconclusive("mine: %v", err)
			return
		}
		c.Max("max:bootstrap_height:"+env.Kind, int64(nd.Height()))
		fundHeight = nd.Height() - 2
	}
	type utxo struct {
		ref     node.UTXORef
		state   int // 0 free, 1 in pool, 2 confirmed-spent
		spender interfaces.Transaction
	}
	var us []*utxo
	for i := 0; i < len(accts)*40; i++ {
		us = append(us, &utxo{ref: node.UTXORef{TxID: fund.Hash(), Index: uint16(i), Value: val, Owner: node.Key(accts[i/40])}})
	}
	var sources []*c34Source
	for _, mk := range c34Sources {
		s := mk()
		if s.Envs != nil {
			applies := false
			for _, k := range s.Envs {
				applies = applies || k == env.Kind
			}
			if !applies {
				continue
			}
		}
		if s.Setup != nil {
			if err := s.Setup(c, nd, r); err != nil {
				c.Note("source %s setup failed: %v", s.Name, err)
				c.Inc("source_setup_failed:" + s.Name)
				continue
			}
		}
		c.Inc("source_ready:" + s.Name)
		if s.Weight <= 0 {
			s.Weight = 1
		}
		sources = append(sources, s)
	}
	// step mix: the pow-era shards keep the original one; era shards trade plain
	// transfers for source steps (env.SourcePct) and some block steps
	tFresh, tConf, tSpent, tSrc, tRemove, tMaybe, tBlock, tReorg, tResize := 40, 52, 56, 64, 66, 70, 82, 90, 93
	if env.SourcePct > 8 {
		sp := env.SourcePct
		if sp > 60 {
			sp = 60
		}
		tFresh = (56 - (sp - 8)) * 40 / 56
		if tFresh < 6 {
			tFresh = 6
		}
		tConf = tFresh + 4
		tSpent = tConf + 2
		tSrc = tSpent + sp
		tRemove = tSrc + 1
		tMaybe = tRemove + 2
		tBlock = 88 // (reorg branches are connected without confirms: arbiters that "missed" them drift towards Inactive, so keep them rare)
		tReorg = 92
		tResize = 95
	}
	isSystem := func(tx interfaces.Transaction) bool {
		switch tx.TxType() {
		case common2.NextTurnDPOSInfo, common2.CRCAppropriation, common2.CRAssetsRectify, common2.ProposalResult,
			common2.CRCProposalRealWithdraw, common2.DposV2ClaimRewardRealWithdraw, common2.VotesRealWithdraw,
			common2.RevertToPOW, common2.RevertToDPOS, common2.InactiveArbitrators, common2.IllegalBlockEvidence,
			common2.IllegalProposalEvidence, common2.IllegalVoteEvidence, common2.IllegalSidechainEvidence, common2.UpdateVersion:
			return true
		}
		return false
	}
	unshrink := func(shrunk *bool) {
		// the node generates the txs the NEXT block must carry while it connects a
		// block: on era shards the bound is restored before blocks are processed
		if env.Era != "" && *shrunk {
			nd.TxPool.VerifSetMaxSize(20000000)
			*shrunk = false
		}
	}
	refresh := func() {
		// recompute utxo states from chain + pool
		l := nd.Replay()
		pool := map[string]interfaces.Transaction{}
		for _, tx := range nd.TxPool.GetTxsInPool() {
			for _, in := range tx.Inputs() {
				pool[in.ReferKey()] = tx
			}
		}
		for _, u := range us {
			k := node.OutKey{TxID: u.ref.TxID, Index: u.ref.Index}
			in := common2.Input{Previous: common2.OutPoint{TxID: u.ref.TxID, Index: u.ref.Index}}
			if _, ok := l.Unspent[k]; !ok {
				u.state, u.spender = 2, nil
			} else if tx, ok := pool[in.ReferKey()]; ok {
				u.state, u.spender = 1, tx
			} else {
				u.state, u.spender = 0, nil
			}
		}
	}
	pick := func(state int) *utxo {
		var cand []*utxo
		for _, u := range us {
			if u.state == state {
				cand = append(cand, u)
			}
		}
		if len(cand) == 0 {
			return nil
		}
		return cand[r.Intn(len(cand))]
	}
	mkTransfer := func(ins []*utxo, fee int64) interfaces.Transaction {
		var refs []node.UTXORef
		var tot common.Fixed64
		for _, u := range ins {
			refs = append(refs, u.ref)
			tot += u.ref.Value
		}
		n := 1 + r.Intn(3)
		var os []node.Out
		rem := tot - common.Fixed64(fee)
		for i := 0; i < n; i++ {
			vv := rem / common.Fixed64(n-i)
			os = append(os, node.Out{To: node.Key(accts[r.Intn(len(accts))]).ProgramHash, Value: vv})
			rem -= vv
		}
		return node.Transfer(refs, os, common2.TxVersion09)
	}
	steps := c.N(150, 1200)
	shrunk := false
	stuck := 0
	for i := 0; i < steps; i++ {
		if stuck >= 3 {
			// the workload drove the chain into a state where not even an empty block
			// connects (e.g. too few normal arbiters left to confirm): nothing more to learn here
			c.Inc("history_ended_chain_halted")
			c.Note("shard %d (%s): history ended at step %d of %d: the chain no longer advances at height %d", c.Shard, env.Kind, i, steps, nd.Height())
			break
		}
		refresh()
		k := r.Intn(100)
		kind := ""
		outcome := ""
		nonTrivial := nd.TxPool.GetTransactionCount() > 0
		switch {
		case k < tFresh: // fresh submission (1-2 inputs)
			kind = "submit-fresh"
			u := pick(0)
			if u == nil {
				continue
			}
			ins := []*utxo{u}
			if r.Intn(4) == 0 {
				if u2 := pick(0); u2 != nil && u2 != u && u2.ref.Owner == u.ref.Owner {
					ins = append(ins, u2)
				}
			}
			tx := mkTransfer(ins, int64(100+r.Intn(100000)))
			if e := nd.TxPool.AppendToTxPool(tx); e == nil {
				outcome = "accepted"
				c.Inc("submit_accepted")
			} else {
				outcome = "rejected"
				if shrunk {
					c.Inc("capacity_rejections")
				} else if env.Era != "" && nd.InPOWMode() {
					c.Inc("transfer_refused_in_pow_consensus") // the workload drove the arbiters out of office: plain transfers are not allowed in POW consensus
				} else {
					c.Violate("honest-transfer-rejected", fmt.Sprintf("fresh honest transfer rejected: %v", e), nil)
				}
			}
		case k < tConf: // conflicting with a pool tx
			kind = "submit-conflict"
			u := pick(1)
			if u == nil {
				continue
			}
			ins := []*utxo{u}
			if f := pick(0); f != nil && f.ref.Owner == u.ref.Owner && r.Intn(2) == 0 {
				ins = append(ins, f)
			}
			tx := mkTransfer(ins, int64(100+r.Intn(100000)))
			if e := nd.TxPool.AppendToTxPool(tx); e == nil {
				outcome = "accepted"
				c.Violate("conflicting-tx-admitted", "a tx spending an outpoint already claimed by a pool tx was admitted", nil)
			} else {
				outcome = "rejected"
				c.Inc("submit_rejected_conflict")
			}
		case k < tSpent: // spend of an output spent on chain
			kind = "submit-chain-spent"
			u := pick(2)
			if u == nil {
				continue
			}
			tx := mkTransfer([]*utxo{u}, 1000)
			if e := nd.TxPool.AppendToTxPool(tx); e == nil {
				c.Violate("chain-spent-output-admitted", "a tx spending an output already spent on the active chain was admitted", nil)
			} else {
				c.Inc("submit_rejected_spent")
			}
		case k < tSrc && len(sources) > 0:
			s := sources[0]
			tw := 0
			for _, x := range sources {
				tw += x.Weight
			}
			for pick := r.Intn(tw); ; {
				found := false
				for _, x := range sources {
					if pick < x.Weight {
						s, found = x, true
						break
					}
					pick -= x.Weight
				}
				if found {
					break
				}
			}
			kind = "source:" + s.Name
			tx := s.Next(c, nd, r)
			if tx == nil {
				continue
			}
			if e := nd.TxPool.AppendToTxPool(tx); e == nil {
				outcome = "accepted"
				c.Inc("source_accepted:" + s.Name)
			} else {
				outcome = "rejected"
				c.Inc("source_rejected:" + s.Name)
				c34NoteRejection(c, s.Name, tx, e)
			}
		case k < tRemove: // RemoveTransaction(parent): removes pool txs spending outputs of the given tx
			kind = "remove"
			nd.TxPool.RemoveTransaction(fund)
			c.Inc("removals")
			if nd.TxPool.GetTransactionCount() != 0 && len(sources) == 0 {
				c.Violate("remove-left-spenders", "RemoveTransaction(fund) left pool txs although every pool tx spends an output of fund", nil)
			}
		case k < tMaybe:
			kind = "maybe-accept"
			if u := pick(0); u != nil {
				tx := mkTransfer([]*utxo{u}, 500)
				nd.TxPool.MaybeAcceptTransaction(tx)
			}
		case k < tBlock: // block with some pool txs and possibly conflicting non-pool txs
			kind = "block"
			txs := nd.TxPool.GetTxsInPool()
			sort.Slice(txs, func(i, j int) bool { a, b := txs[i].Hash(), txs[j].Hash(); return a.Compare(b) < 0 })
			unshrink(&shrunk)
			if env.Era != "" {
				// node-generated txs arrive asynchronously (also while a refused branch
				// switch re-connects blocks); the kit miner packs every one it finds, the
				// node's own miner re-validates them: drop the stale ones as it would
				for _, tx := range txs {
					if isSystem(tx) && nd.CheckTx(tx, 0) != nil {
						c.Inc("stale_node_generated_tx_cleaned")
						nd.TxPool.CheckAndCleanAllTransactions()
						txs = nd.TxPool.GetTxsInPool()
						sort.Slice(txs, func(i, j int) bool { a, b := txs[i].Hash(), txs[j].Hash(); return a.Compare(b) < 0 })
						break
					}
				}
			}
			var sel []interfaces.Transaction
			for _, tx := range txs {
				if env.Era != "" && isSystem(tx) {
					continue // MineTipDPoS adds the node-generated txs itself
				}
				if r.Intn(2) == 0 && len(sel) < 10 {
					sel = append(sel, tx)
				}
			}
			used := map[string]bool{}
			for _, tx := range sel {
				for _, in := range tx.Inputs() {
					used[in.ReferKey()] = true
				}
			}
			conflicts := 0
			if r.Intn(2) == 0 {
				// a non-pool tx double-spending the input of a pool tx that is NOT selected
				for _, u := range us {
					if u.state != 1 {
						continue
					}
					in := common2.Input{Previous: common2.OutPoint{TxID: u.ref.TxID, Index: u.ref.Index}}
					if used[in.ReferKey()] {
						continue
					}
					// skip if the pool spender also spends an input we already use
					okc := true
					for _, pin := range u.spender.Inputs() {
						if used[pin.ReferKey()] {
							okc = false
						}
					}
					if !okc {
						continue
					}
					sel = append(sel, mkTransfer([]*utxo{u}, 2000+int64(r.Intn(1000))))
					used[in.ReferKey()] = true
					conflicts++
					if conflicts >= 2 {
						break
					}
				}
			}
			// non-pool txs colliding with pool txs on a non-outpoint resource, cancel/unregister txs
			nPool := len(sel)
			var extra []interfaces.Transaction
			for _, s := range sources {
				if s.BlockTxs != nil && r.Intn(2) == 0 {
					for _, tx := range s.BlockTxs(c, nd, r, sel) {
						if !nd.TxPool.HaveTransaction(tx.Hash()) {
							extra = append(extra, tx)
						}
					}
				}
			}
			if len(sel)+len(extra) == 0 {
				outcome = "empty"
			}
			all := append(append([]interfaces.Transaction{}, sel...), extra...)
			claims := c34BlockClaims(nd, all)
			// pending proposals before the block (to tell afterwards which ones the re-validation dropped)
			pendingProposals := map[common.Uint256]interfaces.Transaction{}
			for _, tx := range nd.TxPool.GetTxsInPool() {
				if tx.IsCRCProposalTx() {
					pendingProposals[tx.Hash()] = tx
				}
			}
			b, err := mine(all...)
			if err != nil && len(extra) > 0 {
				c.Inc("blocks_with_extra_txs_rejected")
				c.Inc("block_rejected_reason:" + c34Reason(err))
				if len(c34RejNotes) < 6 {
					c34RejNotes = append(c34RejNotes, err.Error())
					c.Note("block with %d pool + %d non-pool source txs rejected: %v", len(sel), len(extra), err)
				}
				extra = nil
				claims = c34BlockClaims(nd, sel)
				b, err = mine(sel...)
			}
			if err != nil && nPool > 0 && env.Era != "" {
				// pool txs that are valid one by one need not be valid together (e.g. two
				// proposals exhausting the budget): the chain must still advance
				c.Inc("blocks_with_pool_txs_rejected")
				c.Inc("block_rejected_reason:" + c34Reason(err))
				if len(c34RejNotes) < 6 {
					c34RejNotes = append(c34RejNotes, err.Error())
					c.Note("block with %d pool txs rejected: %v", len(sel), err)
				}
				sel, conflicts, claims = nil, 0, nil
				b, err = mine()
			}
			if err != nil {
				c.Note("block with %d txs rejected: %v", len(sel), err)
				c.Inc("empty_block_rejected_reason:" + c34Reason(err))
				outcome = "rejected"
				_ = b
				if env.Era != "" {
					stuck++
				}
			} else {
				stuck = 0
				if len(extra) > 0 {
					c.Inc("blocks_with_resource_conflicting_txs")
					outcome = "extra"
				}
				if len(sel)-conflicts > 0 {
					c.Inc("blocks_with_pool_txs")
				}
				if conflicts > 0 {
					c.Inc("blocks_with_conflicting_txs")
				}
				c34AfterBlockClaims(c, nd, fmt.Sprintf("step %d (block)", i), claims)
				c34ProposalsAfterBlock(c, nd, fmt.Sprintf("step %d (block)", i), b, pendingProposals)
				c34CheckAgainstChain(c, nd, fmt.Sprintf("step %d after block", i))
			}
		case k < tReorg: // reorg depth 1-2 with empty blocks
			kind = "reorg"
			if nd.Height() < 8 {
				continue
			}
			if env.Era != "" {
				// branch blocks carry no confirm, so every branch switch costs the arbiters
				// some "missed" blocks: let abnormal (inactive) arbiters recover first,
				// otherwise too few normal arbiters are left to confirm anything
				abnormal := false
				for _, a := range nd.Arbiters.GetArbitrators() {
					abnormal = abnormal || !a.IsNormal
				}
				if abnormal {
					c.Inc("reorg_skipped_abnormal_arbiter")
					continue
				}
			}
			unshrink(&shrunk)
			depth := 1 + r.Intn(2)
			base := nd.TipBlock()
			for d := 0; d < depth; d++ {
				pb, err := nd.Chain.GetBlockByHash(base.Previous)
				if err != nil {
					break
				}
				base = pb
			}
			if base.Height <= 6 || (fundHeight > 0 && base.Height < fundHeight+2) { // never detach the funding block
				continue
			}
			parent := base
			ok := true
			for d := 0; d <= depth; d++ {
				asm := nd.Assemble
				if env.Era != "" {
					asm = nd.AssembleOn // deterministic reward outputs / aux-pow; connected without a confirm (chain.ProcessBlock(b, nil))
				}
				b, err := asm(node.BlockSpec{Parent: parent, Nonce: uint64(r.Int63()) | 1})
				if err != nil {
					ok = false
					break
				}
				if _, _, err := nd.Process(b); err != nil {
					c.Inc("reorg_block_rejected")
					ok = false
					break
				}
				nd.PostBlock(b)
				if env.Era != "" {
					nd.Chain.UTXOCache.CleanTxCache() // as netsync does on ETBlockConnected
				}
				parent = b
			}
			if ok && env.Era != "" && !nd.Tip().IsEqual(parent.Hash()) {
				c.Inc("reorg_refused")
				ok = false
			}
			if env.Era != "" && !ok {
				// a refused / failed switch re-attaches the old branch: the node cleans the
				// pool on the ETBlockConnected / ETBlockProcessed events of those blocks
				tb := nd.TipBlock()
				claims := c34BlockClaims(nd, tb.Transactions[1:])
				nd.PostBlock(tb)
				c34AfterBlockClaims(c, nd, fmt.Sprintf("step %d (tip re-connected after a refused branch switch)", i), claims)
			}
			if ok {
				c.Inc("reorgs")
				c34CheckAgainstChain(c, nd, fmt.Sprintf("step %d after reorg", i))
			}
		case k < tResize: // shrink / restore the size bound
			kind = "resize"
			if !shrunk {
				s := nd.TxPool.VerifSnapshot()
				nd.TxPool.VerifSetMaxSize(s.TotalSize + uint64(r.Intn(300)))
				shrunk = true
			} else {
				nd.TxPool.VerifSetMaxSize(20000000)
				shrunk = false
			}
		default:
			kind = "snapshot"
			cp := nd.TxPool.Snapshot()
			if cp == nil {
				c.Violate("snapshot-failed", "TxPool.Snapshot returned nil", nil)
			}
			c.Inc("snapshots")
		}
		if env.Era != "" && nd.InPOWMode() {
			c.Inc("steps_in_pow_consensus")
		}
		c.Inc("steps")
		c.Inc("step:" + kind)
		c.Case(fmt.Sprintf("%d:%d:%s:%s", c.Shard, i, kind, outcome), nonTrivial)
		c34CheckInvariants(c, nd, fmt.Sprintf("step %d (%s)", i, kind))
		if c34AfterInvariants != nil {
			c34AfterInvariants(c, kind, outcome) // fault families count the checks that followed their faults
		}
		if i < 3 && c.Shard == 0 {
			c.Sample(map[string]interface{}{"step": i, "kind": kind, "outcome": outcome, "pool_txs": nd.TxPool.GetTransactionCount(), "height": nd.Height()})
		}
	}
	_ = mempool.TxPool{}
}

package props

import (
	"fmt"
	"math"
	"os"
	"strings"

	"github.com/elastos/Elastos.ELA/account"
	"github.com/elastos/Elastos.ELA/blockchain"
	"github.com/elastos/Elastos.ELA/common"
	"github.com/elastos/Elastos.ELA/core/types"
	common2 "github.com/elastos/Elastos.ELA/core/types/common"
	"github.com/elastos/Elastos.ELA/core/types/interfaces"
	"github.com/elastos/Elastos.ELA/core/types/payload"
	crstate "github.com/elastos/Elastos.ELA/cr/state"
	"github.com/elastos/Elastos.ELA/dpos/state"
	"github.com/elastos/Elastos.ELA/events"

	"verif/kit/node"
)

// ---------------------------------------------------------------------------
// Sub-process drivers: the builder script and the replayer (linear twin B /
// reorganising node A).
// ---------------------------------------------------------------------------

type l2Builder struct {
	p       *l2Params
	res     *l2Result
	nd      *node.Node
	w       *l2World
	e       *node.Era
	trf     *os.File
	rescued bool
	off     int    // producer index currently offline (-1 none)
	offT    uint32 // height at which it comes back at the latest
}

func (b *l2Builder) tracef(f string, a ...interface{}) {
	if b.trf != nil {
		fmt.Fprintf(b.trf, "[h=%d] "+f+"\n", append([]interface{}{b.nd.Height()}, a...)...)
	}
}

type l2Abort struct{ msg string }

func (b *l2Builder) fail(f string, a ...interface{}) { panic(l2Abort{fmt.Sprintf(f, a...)}) }

// step mines one canonical block: scripted txs already submitted + random extras.
func (b *l2Builder) step(extras bool) {
	w := b.w
	if extras && w.h() > b.e.VoteStart+1 && b.p.Long == 0 {
		n := []int{0, 0, 1, 1, 2, 3}[w.r.Intn(6)]
		w.randomOps(n, false)
	}
	b.offlineTick()
	m, err := w.mine()
	if err != nil {
		// the arbiters cannot reach a majority any more (too many inactive
		// members): the network's answer is RevertToPOW{NoBlock} after 12 hours
		if strings.Contains(err.Error(), "signers less than majority") && !b.nd.InPOWMode() && w.h() >= b.e.RevertToPOWStart && !b.rescued {
			b.rescued = true
			b.toPOW()
			w.inc("l2_canonical_rescue_revert_to_pow")
			return
		}
		b.fail("mining failed: %v", err)
	}
	h := m.b.Height
	if len(m.ops) > 0 {
		b.res.Ops[h] = m.ops
	}
	if b.nd.NeedsConfirm(h+1) || h >= b.nd.Cfg.CRCOnlyDPOSHeight {
		w.inc("l2_canonical_blocks_dpos_era")
	}
	st := b.nd.Chain.GetState()
	ms := ""
	for _, m := range b.nd.Committee.GetAllMembersCopy() {
		st := m.MemberState
		ms += fmt.Sprintf("%x:%s/ic=%d/key=%x ", m.Info.DID[:3], (&st).String(), m.InactiveCount, m.DPOSPublicKey[:min(4, len(m.DPOSPublicKey))])
	}
	b.tracef("members %s", ms)
	b.tracef("mined txs=%d ops=%v pow=%v arbs=%d duty=%d irr=%d offline=%v inactive=%v canceled=%v illegal=%v", len(m.b.Transactions), m.ops, b.nd.InPOWMode(),
		len(b.nd.Arbiters.GetArbitrators()), b.nd.Arbiters.GetDutyIndex(), st.GetLastIrreversibleHeight(), w.offline, w.producersIn(state.Inactive), w.producersIn(state.Canceled), w.producersIn(state.Illegal))
}

func (b *l2Builder) mineTo(h uint32) {
	for b.nd.Height() < h {
		b.step(true)
	}
}

func (b *l2Builder) mineN(n int) { b.mineTo(b.nd.Height() + uint32(n)) }

// offlineTick manages the arbiter that is currently abstaining: it comes back
// once it is Inactive (then asks for activation) or after its time is up; now
// and then another elected producer goes offline.
func (b *l2Builder) offlineTick() {
	w := b.w
	if b.off >= 0 {
		p := w.producer(b.off)
		back := p == nil || p.State() != state.Active || w.h() >= b.offT
		if back {
			if p != nil && p.State() == state.Inactive {
				w.inc("l2_canonical_producer_became_inactive")
			}
			w.setOffline(b.off, false)
			b.off = -1
		}
		return
	}
	if w.h() > b.e.PublicDPOS+1 && b.p.Long == 0 && !b.nd.InPOWMode() && w.r.Intn(14) == 0 {
		el := w.electedProducerArbiters()
		if i, ok := w.pick(el); ok && len(w.producersIn(state.Active)) > b.e.NormalArbiters+b.e.Candidates {
			b.off = i
			b.offT = w.h() + 10 + uint32(w.r.Intn(12))
			w.setOffline(i, true)
			w.inc("l2_canonical_offline_stretches")
		}
	}
}

func (b *l2Builder) must(ok bool, what string) {
	if !ok {
		b.fail("scripted transaction refused at height %d: %s", b.w.h(), what)
	}
}

func (b *l2Builder) script() {
	nd, e, w := b.nd, b.e, b.w
	r := w.r
	var idx []int
	for i := 0; i < l2Producers; i++ {
		idx = append(idx, node.KeyProducerOwner+i)
	}
	for i := 0; i < l2CRs; i++ {
		idx = append(idx, node.KeyCR+i)
	}
	for i := 0; i < l2Voters; i++ {
		idx = append(idx, node.KeyVoter+i)
	}
	if _, err := nd.Fund(idx, 10, node.ELA(6000)); err != nil {
		b.fail("fund: %v", err)
	}
	w.w = nd.Wallet()
	take := func(a *account.Account, min common.Fixed64) node.UTXORef {
		u, ok := w.take(a, min)
		if !ok {
			b.fail("no funds for %s at %d", a.Address, w.h())
		}
		return u
	}

	if b.p.Long != 0 {
		b.scriptLong()
		return
	}

	// ---- producers ----
	b.mineTo(e.VoteStart)
	nReg := 7 + r.Intn(3)
	for i := 0; i < nReg; i++ {
		in := take(l2Po(i), node.ELA(5000))
		b.must(w.submit("RegisterProducer", fmt.Sprint("p", i), node.RegisterProducer(in, l2Po(i), l2Pn(i), fmt.Sprintf("p%d", i), node.ELA(5000)), in), "RegisterProducer")
	}
	b.step(false)
	b.mineN(6)
	var pubs [][]byte
	for _, i := range w.producersIn(state.Active) {
		pubs = append(pubs, node.Pub(l2Po(i)))
	}
	in := take(l2Voter(0), node.ELA(3000))
	b.must(w.submit("Vote-Delegate-v0", "", node.VoteProducers(in, node.ELA(3000), pubs...), in), "vote")
	b.step(true)
	if nd.Height() >= e.PublicDPOS-e.PreConnectOffset-1 {
		b.fail("producers not voted in time")
	}

	// ---- H1, H2 ----
	b.mineTo(e.PublicDPOS + 1)
	if got := len(nd.Arbiters.GetArbitrators()); got != e.CRCArbiters+e.NormalArbiters {
		b.fail("%d arbiters after H2", got)
	}

	// ---- CR voting period ----
	b.mineTo(e.CRVotingStart)
	nCR := 5 + r.Intn(2)
	for i := 0; i < nCR; i++ {
		if w.crCandidate(i) != nil {
			continue
		}
		in := take(l2Cr(i), node.ELA(5000))
		b.must(w.submit("RegisterCR", fmt.Sprint("cr", i), node.RegisterCR(in, l2Cr(i), fmt.Sprintf("cr%d", i), node.ELA(5000)), in), "RegisterCR")
	}
	in = take(l2Voter(5), node.ELA(5000))
	b.must(w.submit("TransferAsset-to-CRAssets", "", node.BuildTx(node.TxSpec{Type: common2.TransferAsset, Payload: &payload.TransferAsset{}, Ins: []node.UTXORef{in},
		Outs: []*common2.Output{node.StdOut(*nd.Cfg.CRConfiguration.CRAssetsProgramHash, node.ELA(5000))}}), in), "fund CR assets")
	b.step(false)
	b.mineN(6)
	votes := map[common.Uint168]common.Fixed64{}
	for i := 0; i < nCR; i++ {
		votes[node.CIDOf(l2Cr(i))] = node.ELA(int64(1200 - 100*i))
	}
	votesM := map[common.Uint168]common.Fixed64{}
	var sum common.Fixed64
	for i := 0; i < int(nd.Cfg.CRConfiguration.MemberCount); i++ {
		votesM[node.CIDOf(l2Cr(i))] = votes[node.CIDOf(l2Cr(i))]
		sum += votes[node.CIDOf(l2Cr(i))]
	}
	in = take(l2Voter(0), sum)
	b.must(w.submit("Vote-CRC-v1", "", node.VoteCRs(in, sum, votesM), in), "VoteCRs")
	b.step(true)
	b.mineTo(e.CRCommitteeStart + 2)
	if !nd.Committee.IsInElectionPeriod() || len(w.members()) != e.CRCArbiters {
		cs := ""
		for i := 0; i < l2CRs; i++ {
			if c := w.crCandidate(i); c != nil {
				cs += fmt.Sprintf("cr%d:%s/votes=%d/reg=%d ", i, c.State.String(), int64(c.Votes)/1e8, c.RegisterHeight)
			}
		}
		b.fail("committee not elected (%d harness members; election=%v; candidates %s)", len(w.members()), nd.Committee.IsInElectionPeriod(), cs)
	}
	w.inc("l2_canonical_committee_elected")

	// ---- proposals (more come from the random mix) ----
	mem := w.members()
	owner := l2Voter(4)
	pv, rv, _ := w.proposalVersions()
	var phs []common.Uint256
	for k := 0; k < 2; k++ {
		in := take(owner, node.ELA(1))
		tx := node.CRCProposalNormal(in, owner, l2Cr(mem[k%len(mem)]), []byte(fmt.Sprintf("draft-scripted-%d", k)), l2Budgets, owner.ProgramHash, pv)
		if w.submit("CRCProposal-Normal", "", tx, in) {
			phs = append(phs, node.ProposalHash(tx))
		}
	}
	b.step(true)
	for _, i := range mem {
		for k, ph := range phs {
			in := take(l2Cr(i), node.ELA(1))
			w.submit("CRCProposalReview", fmt.Sprintf("rev%s%d", ph.String()[:8], i), node.CRCProposalReview(in, l2Cr(i), ph, payload.Approve, []byte(fmt.Sprintf("op%d%d", i, k)), rv), in)
		}
	}
	b.step(true)

	// ---- CR members claim DPoS nodes ----
	b.mineTo(e.CRClaimDPOSNodeStart)
	skip := -1
	if r.Intn(3) == 0 {
		skip = r.Intn(len(mem))
	}
	for k, i := range w.members() {
		if m := nd.Committee.GetMember(node.DIDOf(l2Cr(i))); k == skip || m == nil || len(m.DPOSPublicKey) != 0 {
			continue
		}
		in := take(l2Cr(i), node.ELA(1))
		w.submit("CRCouncilMemberClaimNode", fmt.Sprint("cr", i), node.CRCouncilMemberClaimNode(in, l2Cr(i), l2Crn(i), payload.CurrentCRClaimDPoSNodeVersion), in)
	}
	b.step(true)

	// ---- new-CR era ----
	b.mineTo(e.ChangeCommitteeNewCR + 8 + uint32(r.Intn(8)))
	if nd.InPOWMode() {
		b.mineTo(200 + uint32(r.Intn(20)))
		return
	}
	if e.DPoSV2Start == math.MaxUint32 {
		if r.Intn(2) == 0 && !b.rescued {
			b.revertCycle()
		}
		b.mineTo(200 + uint32(r.Intn(30)))
		return
	}

	// ---- DPoS v2 ----
	b.mineTo(e.DPoSV2Start)
	until := nd.Height() + 300000
	nV2 := e.NormalArbiters*3/2 + 2
	var v2 []int
	for i := 12; i < 12+nV2; i++ {
		if w.producer(i) != nil {
			continue
		}
		in := take(l2Po(i), node.ELA(2000))
		b.must(w.submit("RegisterProducer-v2", fmt.Sprint("p", i), node.RegisterProducerV2(in, l2Po(i), l2Pn(i), fmt.Sprintf("p%d-v2", i), node.ELA(2000), until), in), "register v2")
		v2 = append(v2, i)
	}
	for _, s := range w.stakers() {
		in := take(s, node.ELA(5000))
		b.must(w.submit("ExchangeVotes", "stake"+s.Address, node.ExchangeVotes(in, node.ELA(5000)), in), "stake")
	}
	// upgrade one or two v1 producers to v1v2
	for _, i := range w.producersIn(state.Active) {
		if i < 2 {
			p := w.producer(i)
			info := p.Info()
			nk := node.KeyByPub(info.NodePublicKey)
			in := take(l2Po(i), node.ELA(1))
			w.submit("UpdateProducer-to-v1v2", fmt.Sprint("p", i), node.UpdateProducer(in, l2Po(i), nk, info.NickName, "http://v1v2", until), in)
			v2 = append(v2, i)
		}
	}
	b.step(false)
	b.mineN(6)
	lock := nd.Height() + 1 + 10*e.V2VoteLock
	var vs []node.V2Vote
	for _, i := range v2 {
		if p := w.producer(i); p != nil && p.Info().StakeUntil != 0 {
			vs = append(vs, node.V2Vote{OwnerPub: node.Pub(l2Po(i)), Votes: node.ELA(4000 / int64(len(v2))), LockTime: lock})
		}
	}
	voted := false
	for _, s0 := range w.stakers() {
		in = take(s0, node.ELA(1))
		if voted = w.submit("Voting-DposV2", "stake"+s0.Address, node.Voting(in, node.V2Votes(vs...)), in); voted {
			break
		}
	}
	b.must(voted, "v2 voting")
	b.step(false)
	for j := 0; j < 60 && nd.Arbiters.GetDPoSV2ActiveHeight() == math.MaxUint32 && !nd.InPOWMode(); j++ {
		b.step(true)
	}
	act := nd.Arbiters.GetDPoSV2ActiveHeight()
	if act == math.MaxUint32 && nd.InPOWMode() {
		b.mineN(10)
		return
	}
	if act == math.MaxUint32 {
		b.fail("DPoS v2 not activated by %d (%d effective)", nd.Height(), len(nd.Chain.GetState().DposV2EffectedProducers))
	}
	b.res.V2Active = act
	w.inc("l2_canonical_dposv2_active")
	end := act + 22 + uint32(r.Intn(10))
	if end > 236 {
		end = 236
	}
	b.mineTo(end)
}

// scriptLong: a quiet chain across the checkpoint save height (720): the
// producer election, then empty confirmed blocks.
func (b *l2Builder) scriptLong() {
	nd, e, w := b.nd, b.e, b.w
	b.mineTo(e.VoteStart)
	for i := 0; i < 7; i++ {
		in, ok := w.take(l2Po(i), node.ELA(5000))
		b.must(ok && w.submit("RegisterProducer", fmt.Sprint("p", i), node.RegisterProducer(in, l2Po(i), l2Pn(i), fmt.Sprintf("p%d", i), node.ELA(5000)), in), "RegisterProducer")
	}
	b.step(false)
	b.mineN(6)
	var pubs [][]byte
	for i := 0; i < 7; i++ {
		pubs = append(pubs, node.Pub(l2Po(i)))
	}
	in, _ := w.take(l2Voter(0), node.ELA(3000))
	b.must(w.submit("Vote-Delegate-v0", "", node.VoteProducers(in, node.ELA(3000), pubs...), in), "vote")
	b.step(false)
	// keep some DPoS-relevant traffic around the save height
	for nd.Height() < b.p.Long {
		if h := w.h(); h+12 > 720 && h < 720+8 {
			w.randomOps(1+w.r.Intn(2), false)
		}
		b.step(false)
		if nd.InPOWMode() {
			b.fail("long chain reverted to POW at %d", nd.Height())
		}
	}
}

// toPOW mines the block carrying RevertToPOW{NoBlock}, 12 hours after its parent.
func (b *l2Builder) toPOW() {
	nd, w := b.nd, b.w
	tip := nd.TipBlock()
	rtx := node.RevertToPOWNoBlock(nd.Height() + 1)
	if !w.submit("RevertToPOW-NoBlock", "", rtx) {
		b.fail("RevertToPOW refused by the mempool at %d", w.h())
	}
	w.pend, w.ops, w.busy = nil, nil, map[string]bool{}
	ts := tip.Timestamp + uint32(nd.Cfg.DPoSConfiguration.RevertToPOWNoBlockTime) + 1
	if _, err := nd.MineTipAt(ts, rtx); err != nil {
		b.fail("RevertToPOW block rejected: %v", err)
	}
	b.res.Ops[nd.Height()] = []string{"RevertToPOW-NoBlock"}
	if !nd.InPOWMode() {
		b.fail("still DPOS after the RevertToPOW block")
	}
	w.inc("l2_canonical_switch_DPOS_to_POW")
}

// revertCycle: DPOS -> POW (RevertToPOW{NoBlock}) -> DPOS (RevertToDPOS).
func (b *l2Builder) revertCycle() {
	nd, w := b.nd, b.w
	if b.off >= 0 {
		w.setOffline(b.off, false)
		b.off = -1
	}
	b.toPOW()
	for i := 0; i < 3+w.r.Intn(4); i++ {
		b.step(true)
	}
	good, err := nd.RevertToDPOSTx(false)
	if err != nil {
		b.fail("RevertToDPOSTx: %v", err)
	}
	if !w.submit("RevertToDPOS", "", good) {
		b.fail("RevertToDPOS refused by the mempool")
	}
	b.step(false)
	for i := 0; i < 15 && nd.InPOWMode(); i++ {
		b.step(false)
	}
	if nd.InPOWMode() {
		b.fail("still POW 15 blocks after RevertToDPOS")
	}
	w.inc("l2_canonical_switch_POW_to_DPOS")
}

func l2RunBuild(p *l2Params, res *l2Result) {
	nd, err := l2StartNode(p)
	if err != nil {
		res.Err = "node start: " + err.Error()
		return
	}
	defer nd.Close()
	defer nd.UnhookEvents()
	obs, err := l2Attach(nd, p, res)
	if err != nil {
		res.Err = err.Error()
		return
	}
	defer obs.close()
	b := &l2Builder{p: p, res: res, nd: nd, e: node.EraOf(p.Era), off: -1}
	b.w = l2NewWorld(nd, p.Era, p.Seed, "c", res.Counters)
	if p.Long != 0 {
		b.w.profile = 2
	}
	if p.Trace != "" {
		b.trf, _ = os.Create(p.Trace)
		defer b.trf.Close()
		b.w.trace = b.tracef
	}
	func() {
		defer func() {
			if r := recover(); r != nil {
				if a, ok := r.(l2Abort); ok {
					res.Err = a.msg
					return
				}
				panic(r)
			}
		}()
		b.script()
	}()
	// record the main chain
	rec, err := l2NewRecorder(p.Record)
	if err != nil {
		res.Err = err.Error()
		return
	}
	for h := uint32(1); h <= nd.Height(); h++ {
		hash, err := nd.Chain.GetBlockHash(h)
		if err != nil {
			res.Err = fmt.Sprintf("record: block hash %d: %v", h, err)
			break
		}
		db, err := nd.Chain.GetDposBlockByHash(hash)
		if err != nil {
			res.Err = fmt.Sprintf("record: block %d: %v", h, err)
			break
		}
		if err := rec.add(db); err != nil {
			res.Err = err.Error()
			break
		}
		if db.HaveConfirm {
			res.Counters["l2_canonical_blocks_with_confirm"]++
		} else {
			res.Counters["l2_canonical_blocks_without_confirm"]++
		}
	}
	rec.close()
	res.Height = nd.Height()
	res.Tip = nd.Tip().String()
	if a := nd.Arbiters.GetDPoSV2ActiveHeight(); a != math.MaxUint32 {
		res.V2Active = a
	}
	res.Done = res.Err == ""
}

// ---------- replay ----------

type l2Replayer struct {
	p      *l2Params
	res    *l2Result
	nd     *node.Node
	obs    *l2Observer
	blocks []*types.DposBlock
}

func (rp *l2Replayer) canon(h uint32) common.Uint256 { return rp.blocks[h-1].Block.Hash() }

// feed hands one recorded block (+confirm) to the node exactly as netsync does.
func (rp *l2Replayer) feed(db *types.DposBlock) {
	nd := rp.nd
	b := db.Block
	var cf *payload.Confirm
	if db.HaveConfirm {
		cf = db.Confirm
	}
	if tip := nd.Tip(); b.Header.Previous.IsEqual(tip) && rp.p.Canary {
		// validation only (no database commit) under the canary
		prev, _ := nd.Chain.LookupNodeInIndex(&b.Header.Previous)
		rp.obs.bracket(b.Height, "block validation (CheckBlockSanity, CheckBlockContext, confirm checks)", func() {
			if err := nd.Chain.CheckBlockSanity(b); err != nil {
				rp.res.Counters["replay_prevalidation_errors"]++
			}
			if prev != nil {
				if err := nd.Chain.CheckBlockContext(b, prev); err != nil {
					rp.res.Counters["replay_prevalidation_errors"]++
				}
			}
			if cf != nil && nd.NeedsConfirm(b.Height) {
				if err := blockchain.ConfirmSanityCheck(cf); err != nil {
					rp.res.Counters["replay_prevalidation_errors"]++
				}
				if err := blockchain.ConfirmContextCheck(cf); err != nil {
					rp.res.Counters["replay_prevalidation_errors"]++
				}
			}
		})
	}
	nd.ProcessDpos(b, cf)
	if nd.Tip().IsEqual(b.Hash()) {
		nd.PostBlock(b)
		nd.Chain.UTXOCache.CleanTxCache()
		nd.BlockPool.CleanFinalConfirmedBlock(b.Height)
		rp.res.Counters["replay_blocks_connected"]++
	} else {
		rp.res.Counters["replay_blocks_parked_on_side_chain"]++
	}
}

func (rp *l2Replayer) eraName(h uint32) string {
	e := node.EraOf(rp.p.Era)
	a := rp.nd.Arbiters.GetDPoSV2ActiveHeight()
	switch {
	case rp.nd.InPOWMode():
		return "pow-mode"
	case h < e.CRCOnlyDPOS:
		return "pre-dpos"
	case h < e.PublicDPOS:
		return "crc-only"
	case h < e.CRClaimDPOSNodeStart:
		return "public-dpos"
	case h < e.ChangeCommitteeNewCR:
		return "cr-claim"
	case a != math.MaxUint32 && h > a:
		return "dposv2-active"
	case e.DPoSV2Start != math.MaxUint32 && h >= e.DPoSV2Start:
		return "dposv2-start"
	}
	return "new-cr"
}

// loseBranch mines node A's own branch on its current tip.
func (rp *l2Replayer) loseBranch(r l2Reorg) l2ReorgDone {
	nd := rp.nd
	done := l2ReorgDone{At: r.At, Want: r.Depth, Era: rp.eraName(r.At + 1)}
	lw := l2NewWorld(nd, rp.p.Era, r.Seed, fmt.Sprintf("L%d", r.At), rp.res.Counters)
	lw.profile = rp.p.Profile
	if rp.p.Long != 0 {
		lw.profile = 2
	}
	if r.Offline > 0 && !nd.InPOWMode() {
		el := lw.electedProducerArbiters()
		lw.r.Shuffle(len(el), func(a, b int) { el[a], el[b] = el[b], el[a] })
		for k := 0; k < r.Offline && k < len(el); k++ {
			lw.setOffline(el[k], true)
			done.Offline = append(done.Offline, fmt.Sprint("p", el[k]))
		}
	}
	for k := 0; k < r.Depth; k++ {
		lw.randomOps(2+lw.r.Intn(4), true)
		m, err := lw.mine()
		if err != nil {
			done.Stop = err.Error()
			rp.res.Counters["losing_branch_mining_stopped"]++
			break
		}
		done.Mined++
		done.Ops = append(done.Ops, fmt.Sprintf("L%d:%v", m.b.Height, m.ops))
		rp.res.Counters["losing_blocks_mined"]++
		rp.res.Counters["losing_txs_mined"] += int64(len(m.b.Transactions) - 1)
	}
	for i := range lw.offline {
		lw.setOffline(i, false)
	}
	return done
}

func l2RunReplay(p *l2Params, res *l2Result) {
	node.InitGlobals(p.Dir)
	blocks, err := l2ReadRecord(p.Record)
	if err != nil {
		res.Err = "record: " + err.Error()
		return
	}
	nd, err := l2StartNode(p)
	if err != nil {
		res.Err = "node start: " + err.Error()
		return
	}
	defer nd.Close()
	defer nd.UnhookEvents()
	nd.HookEvents()
	obs, err := l2Attach(nd, p, res)
	if err != nil {
		res.Err = err.Error()
		return
	}
	defer obs.close()
	if p.Evidence {
		events.Subscribe(func(e *events.Event) {
			if e.Type == events.ETIllegalBlockEvidence {
				if tx, ok := e.Data.(interfaces.Transaction); ok {
					res.Counters["evidence_txs_generated"]++
					if err := nd.TxPool.AppendToTxPool(tx); err == nil {
						res.Counters["evidence_txs_in_pool"]++
					}
				}
			}
		})
	}
	rp := &l2Replayer{p: p, res: res, nd: nd, obs: obs, blocks: blocks}
	reorgAt := map[uint32]l2Reorg{}
	for _, r := range p.Reorgs {
		reorgAt[r.At] = r
	}
	n := uint32(len(blocks))
	for nd.Height() < n {
		h := nd.Height()
		if r, ok := reorgAt[h]; ok {
			delete(reorgAt, h)
			if h+uint32(r.Depth)+1 <= n {
				d := rp.loseBranch(r)
				if d.Mined > 0 {
					for k := h + 1; k <= h+uint32(d.Mined)+1; k++ {
						rp.feed(blocks[k-1])
					}
					top := h + uint32(d.Mined) + 1
					d.Reorganized = nd.Height() == top && nd.Tip().IsEqual(rp.canon(top))
					res.Reorgs = append(res.Reorgs, d)
					if !d.Reorganized {
						// diagnosis: ask for the reorganisation directly to see its error
						tipBefore := nd.Height()
						irr := nd.Chain.GetState().IsIrreversible(nd.Height(), d.Mined)
						derr := nd.Chain.ReorganizeChain(blocks[top-1].Block)
						if derr == nil && nd.Tip().IsEqual(rp.canon(top)) {
							// the node followed only when asked explicitly: counted, scenario continues
							res.Counters["reorg_only_on_explicit_request"]++
							res.Notes = append(res.Notes, fmt.Sprintf("fork %d depth %d: the recorded chain became the best chain only after an explicit ReorganizeChain (tip height before: %d)", h, d.Mined, tipBefore))
							d.Reorganized = true
							res.Reorgs[len(res.Reorgs)-1] = d
							res.Counters["reorgs_done"]++
							nd.TxPool.CheckAndCleanAllTransactions()
							continue
						}
						res.Err = fmt.Sprintf("reorg-failed: node did not reorganise to the recorded chain after its own branch of %d blocks at fork height %d (tip height %d); IsIrreversible=%v lastIrreversible=%d; explicit ReorganizeChain: err=%s tipNowCanonical=%v",
							d.Mined, h, nd.Height(), irr, nd.LastIrreversible(), l2ErrChain(derr), nd.Tip().IsEqual(rp.canon(top)))
						res.Counters["reorg_refused"]++
						return
					}
					res.Counters["reorgs_done"]++
					res.Counters[fmt.Sprintf("reorg_depth_%d", d.Mined)]++
					res.Counters["reorg_in_era_"+d.Era]++
					nd.TxPool.CheckAndCleanAllTransactions()
					continue
				}
				res.Reorgs = append(res.Reorgs, d)
			}
		}
		rp.feed(blocks[h])
		if !nd.Tip().IsEqual(rp.canon(h + 1)) {
			db := blocks[h]
			var cf *payload.Confirm
			if db.HaveConfirm {
				cf = db.Confirm
			}
			_, _, derr := nd.Chain.ProcessBlock(db.Block, cf)
			res.Err = fmt.Sprintf("block-rejected: recorded block %d was not connected (tip height %d); direct ProcessBlock: %s", h+1, nd.Height(), l2ErrChain(derr))
			return
		}
	}
	res.Height = nd.Height()
	res.Tip = nd.Tip().String()
	if a := nd.Arbiters.GetDPoSV2ActiveHeight(); a != math.MaxUint32 {
		res.V2Active = a
	}
	res.Done = true
}

var _ = crstate.MemberElected

// l2ErrChain renders an error with its ELAError inner errors.
func l2ErrChain(err error) string {
	if err == nil {
		return "<nil>"
	}
	out := err.Error()
	for i := 0; i < 6; i++ {
		in, ok := err.(interface{ InnerError() error })
		if !ok || in.InnerError() == nil {
			break
		}
		err = in.InnerError()
		out += " <- " + err.Error()
	}
	return out
}

package props

import (
	"crypto/sha256"
	"encoding/binary"
	"encoding/hex"
	"fmt"
	"math/rand"
	"sort"
	"strings"
)

// C17 scenario generator and reference model.
//
// A scenario is a pure function of (seed, small): a list of "attempts", each of
// which is one write transaction storing 0..3 blocks and a metadata batch.
// Attempts are numbered 1..n; S_0 is the freshly created database and S_i the
// model state after attempt i (S_i == S_{i-1} for an attempt that is aborted by
// the caller or that failed at run time). The model is a plain nested map; it
// shares nothing with the ffldb code.

type c17Op struct {
	Kind string   // put | del | mkb | rmb
	Path []string // bucket path below the metadata root
	Key  string
	Val  string
}

type c17Block struct {
	Hash [32]byte
	Data []byte
}

type c17Attempt struct {
	Abort  bool // the caller rolls the transaction back itself
	Blocks []c17Block
	Ops    []c17Op
}

type c17Scenario struct {
	Seed     int64
	MaxFile  uint32 // tiny maxBlockFileSize
	Cache    uint64 // cache size for the small write-back configuration
	Attempts []c17Attempt
}

var c17BucketNames = []string{"a", "b", "c"}

func c17RandBytes(r *rand.Rand, n int) []byte {
	b := make([]byte, n)
	for i := range b {
		b[i] = byte(r.Intn(256))
	}
	return b
}

func c17BlockHash(seed int64, tag string, i, j int) [32]byte {
	return sha256.Sum256([]byte(fmt.Sprintf("c17/%d/%s/%d/%d", seed, tag, i, j)))
}

// c17BlockSize picks sizes that straddle the tiny file limit. A record is
// len+12 bytes and always fits into one (empty) block file, as in production
// (64 MiB files, blocks of at most a few MB): len = max-12 fills a file exactly,
// max/2-12 lets two records fill it exactly, max/2-11 makes the second one
// roll over, etc.
func c17BlockSize(r *rand.Rand, max uint32) int {
	m := int(max)
	switch r.Intn(10) {
	case 0:
		return 1
	case 1:
		return m - 12
	case 2:
		return m - 13
	case 3:
		return m/2 - 12
	case 4:
		return m/2 - 11
	case 5:
		return m/3 - 12
	case 6:
		return m/4 - 11
	default:
		return 20 + r.Intn(m/2)
	}
}

func c17GenAttempt(r *rand.Rand, seed int64, tag string, idx int, max uint32, allowAbort bool) c17Attempt {
	var at c17Attempt
	if allowAbort && r.Intn(10) == 0 {
		at.Abort = true
	}
	nb := r.Intn(4) // 0..3 blocks
	for j := 0; j < nb; j++ {
		at.Blocks = append(at.Blocks, c17Block{Hash: c17BlockHash(seed, tag, idx, j),
			Data: c17RandBytes(r, c17BlockSize(r, max))})
	}
	// every attempt stamps its index so that all S_i of committed attempts
	// are pairwise different
	at.Ops = append(at.Ops, c17Op{Kind: "put", Key: "seq", Val: fmt.Sprintf("%s-%d", tag, idx)})
	nops := 1 + r.Intn(6)
	for k := 0; k < nops; k++ {
		var path []string
		for d := r.Intn(3); d > 0; d-- {
			path = append(path, c17BucketNames[r.Intn(len(c17BucketNames))])
		}
		op := c17Op{Path: path}
		switch x := r.Intn(10); {
		case x < 4:
			op.Kind = "put"
			op.Key = fmt.Sprintf("k%d", r.Intn(8))
			op.Val = string(c17RandBytes(r, 1+r.Intn(40)))
		case x < 6:
			op.Kind = "del"
			op.Key = fmt.Sprintf("k%d", r.Intn(8))
		case x < 9:
			op.Kind = "mkb"
			op.Key = c17BucketNames[r.Intn(len(c17BucketNames))]
		default:
			op.Kind = "rmb"
			op.Key = c17BucketNames[r.Intn(len(c17BucketNames))]
		}
		at.Ops = append(at.Ops, op)
	}
	return at
}

func c17Gen(seed int64, small bool) *c17Scenario {
	r := rand.New(rand.NewSource(seed))
	sc := &c17Scenario{Seed: seed}
	sc.MaxFile = []uint32{400, 700, 1200, 2000}[r.Intn(4)]
	sc.Cache = []uint64{1500, 3000, 6000}[r.Intn(3)]
	if small {
		// few commits: every commit adds at least ~190 bytes to the cache
		// (sequence stamp + write-cursor row), so these sizes force a flush
		// every 2-4 commits
		sc.Cache = []uint64{400, 800}[r.Intn(2)]
	}
	n := 6 + r.Intn(25) // 6..30
	if small {
		n = 6 + r.Intn(4) // 6..9
	}
	// make the root buckets exist early so nested ops are not all skipped
	aborted := false
	for i := 1; i <= n; i++ {
		at := c17GenAttempt(r, seed, "s", i, sc.MaxFile, true)
		if small && at.Abort {
			// at most one caller-aborted transaction in a short scenario
			if aborted {
				at.Abort = false
			}
			aborted = true
		}
		if i == 1 {
			at.Abort = false
			for _, b := range c17BucketNames[:2] {
				at.Ops = append(at.Ops, c17Op{Kind: "mkb", Key: b})
			}
		}
		sc.Attempts = append(sc.Attempts, at)
	}
	// guarantee at least two attempts with blocks and one multi-block
	// attempt that crosses a file boundary
	hasMulti := false
	for _, at := range sc.Attempts {
		if !at.Abort && len(at.Blocks) >= 2 {
			hasMulti = true
		}
	}
	if !hasMulti {
		at := &sc.Attempts[len(sc.Attempts)/2]
		at.Abort = false
		at.Blocks = nil
		for j := 0; j < 3; j++ {
			at.Blocks = append(at.Blocks, c17Block{Hash: c17BlockHash(seed, "s", len(sc.Attempts)/2+1, j),
				Data: c17RandBytes(r, int(sc.MaxFile)/2-11)})
		}
	}
	return sc
}

// c17Extras are the commits performed after a reopen ("later commits continue
// to work"); they do not depend on which state was recovered.
func c17Extras(sc *c17Scenario, n int) []c17Attempt {
	r := rand.New(rand.NewSource(sc.Seed ^ 0x5eed17))
	var out []c17Attempt
	for i := 1; i <= n; i++ {
		at := c17GenAttempt(r, sc.Seed, "x", i, sc.MaxFile, false)
		if len(at.Blocks) == 0 {
			at.Blocks = append(at.Blocks, c17Block{Hash: c17BlockHash(sc.Seed, "x", i, 0),
				Data: c17RandBytes(r, c17BlockSize(r, sc.MaxFile))})
		}
		out = append(out, at)
	}
	return out
}

// ---- model ----

type c17Bucket struct {
	KV  map[string]string
	Sub map[string]*c17Bucket
}

func newC17Bucket() *c17Bucket {
	return &c17Bucket{KV: map[string]string{}, Sub: map[string]*c17Bucket{}}
}

func (b *c17Bucket) clone() *c17Bucket {
	n := newC17Bucket()
	for k, v := range b.KV {
		n.KV[k] = v
	}
	for k, v := range b.Sub {
		n.Sub[k] = v.clone()
	}
	return n
}

type c17State struct {
	Root   *c17Bucket
	Blocks map[[32]byte][]byte
}

func newC17State() *c17State {
	return &c17State{Root: newC17Bucket(), Blocks: map[[32]byte][]byte{}}
}

func (s *c17State) clone() *c17State {
	n := &c17State{Root: s.Root.clone(), Blocks: make(map[[32]byte][]byte, len(s.Blocks))}
	for k, v := range s.Blocks {
		n.Blocks[k] = v
	}
	return n
}

// apply defines the total semantics of an attempt: an op whose bucket path
// does not exist is skipped; mkb of an existing bucket and rmb/del of a missing
// one are no-ops. The driver (c17ApplyReal) mirrors exactly these rules.
func (s *c17State) apply(at *c17Attempt) {
	for _, b := range at.Blocks {
		s.Blocks[b.Hash] = b.Data
	}
	for _, op := range at.Ops {
		bk := s.Root
		for _, p := range op.Path {
			if bk = bk.Sub[p]; bk == nil {
				break
			}
		}
		if bk == nil {
			continue
		}
		switch op.Kind {
		case "put":
			bk.KV[op.Key] = op.Val
		case "del":
			delete(bk.KV, op.Key)
		case "mkb":
			if bk.Sub[op.Key] == nil {
				bk.Sub[op.Key] = newC17Bucket()
			}
		case "rmb":
			delete(bk.Sub, op.Key)
		}
	}
}

// dump is the canonical text form of the metadata tree.
func (b *c17Bucket) dump(sb *strings.Builder, indent string) {
	ks := make([]string, 0, len(b.KV))
	for k := range b.KV {
		ks = append(ks, k)
	}
	sort.Strings(ks)
	for _, k := range ks {
		fmt.Fprintf(sb, "%sK %s=%s\n", indent, hex.EncodeToString([]byte(k)), hex.EncodeToString([]byte(b.KV[k])))
	}
	bs := make([]string, 0, len(b.Sub))
	for k := range b.Sub {
		bs = append(bs, k)
	}
	sort.Strings(bs)
	for _, k := range bs {
		fmt.Fprintf(sb, "%sB %s {\n", indent, hex.EncodeToString([]byte(k)))
		b.Sub[k].dump(sb, indent+" ")
		fmt.Fprintf(sb, "%s}\n", indent)
	}
}

func (s *c17State) metaDump() string {
	var sb strings.Builder
	s.Root.dump(&sb, "")
	return sb.String()
}

// c17States returns S_0..S_n given the attempts that failed at run time.
func c17States(sc *c17Scenario, failed map[int]bool) []*c17State {
	cur := newC17State()
	out := []*c17State{cur.clone()}
	for i := range sc.Attempts {
		at := &sc.Attempts[i]
		if !at.Abort && !failed[i+1] {
			cur.apply(at)
		}
		out = append(out, cur.clone())
	}
	return out
}

func c17AllBlocks(sc *c17Scenario, extras []c17Attempt) []c17Block {
	var out []c17Block
	for _, at := range sc.Attempts {
		out = append(out, at.Blocks...)
	}
	for _, at := range extras {
		out = append(out, at.Blocks...)
	}
	return out
}

func c17ShortHash(h [32]byte) string { return hex.EncodeToString(h[:6]) }

func c17U32(b []byte) uint32 { return binary.LittleEndian.Uint32(b) }

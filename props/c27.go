package props

import (
	"encoding/hex"
	"fmt"
	"math/big"
	"math/rand"

	"github.com/elastos/Elastos.ELA/common"
	"github.com/elastos/Elastos.ELA/common/config"
	"github.com/elastos/Elastos.ELA/core/contract"
	"github.com/elastos/Elastos.ELA/core/types/payload"
	crstate "github.com/elastos/Elastos.ELA/cr/state"
	dstate "github.com/elastos/Elastos.ELA/dpos/state"

	"verif/kit"
	"verif/kit/node"
)

// C27 — DPoS reward distribution never pays out more than the pool.
//
// The real, unexported Arbiters.distributeDPOSReward (hook:
// dpos/state/verif_reward_export.go) runs on an Arbiters value whose exported
// fields are populated the way the node populates them: real crcArbiter /
// dposArbiter members (exported constructors), CurrentCRCArbitersMap,
// CurrentReward = {OwnerVotesInRound, TotalVotesInRound} where the total is the
// sum of the recorded votes exactly as snapshotVotesStates accumulates it.
//
// Oracle (math/big, exact): when no error is returned, 0 <= change <= reward,
// every entry of the round-reward map is >= 0, and the entries paid to real
// recipients (everything except the destroy address) sum to <= reward.
// Recorded, not judged: sum(map)+change versus reward.

func init() {
	kit.Register(&kit.Spec{
		ID:     "C27",
		Rule:   "case = (rule era V0..V3 selected through the configured height thresholds, POW/DPOS mode, configured CRC/normal arbiter counts, 0..36 current arbiters mixing CRC elected-claimed / elected-unclaimed / impeached and DPoS members, 0..72 candidates, vote vector class {all zero, all one, all equal, 1e8-scale, one dominant, 2^53+-1, one 2^62, mixed}, reward class {0, tiny, realistic, 2^53+-1, up to 2^62}). distinct = distinct full tuple; non-trivial = the proportional branch ran (no early destroy/CRC-only return, no error) with at least one voting participant",
		Shards: func(tier string) int { return 8 },
		Run:    runC27,
		Require: []string{"era_v0", "era_v1", "era_v2", "era_v3", "mode_pow", "mode_dpos", "proportional_branch", "early_return_branch", "error_returned",
			"crc_elected_claimed", "crc_elected_unclaimed", "crc_impeached", "dpos_arbiters", "candidates", "votes_class_all_zero", "votes_class_one_dominant",
			"votes_class_2p53", "votes_class_2p62", "reward_class_zero", "reward_class_realistic", "reward_class_2p53", "reward_class_huge", "reward_class_divisible", "proportional_cases_with_zero_change",
			"exact_sum_checked", "era_dispatch_as_expected", "sum_plus_change_eq_reward", "max:arbiters", "max:candidates"},
		Assumptions: []string{
			"votes are non-negative Fixed64 values whose exact sum fits int64 (the node accumulates the total in int64)",
			"each participant appears once (distinct owner program hashes), as the node's arbiter/candidate selection guarantees",
			"float64->int64 conversion of NaN/Inf behaves as on amd64/arm64 Go (implementation-defined by the Go spec)",
		},
	})
}

type c27Ident struct {
	pk   []byte
	hash common.Uint168
	code []byte
}

func c27Idents(n int) ([]c27Ident, error) {
	ids := make([]c27Ident, n)
	for i := range ids {
		acc := node.Key(1000 + i)
		pk, err := acc.PublicKey.EncodePoint(true)
		if err != nil {
			return nil, err
		}
		code, err := contract.CreateStandardRedeemScript(acc.PublicKey)
		if err != nil {
			return nil, err
		}
		h, err := contract.PublicKeyToStandardProgramHash(pk)
		if err != nil {
			return nil, err
		}
		ids[i] = c27Ident{pk: pk, hash: *h, code: code}
	}
	return ids, nil
}

const (
	c27H1 = 100000 // CRCommitteeStartHeight
	c27H2 = 200000 // CRClaimDPOSNodeStartHeight
	c27H3 = 300000 // ChangeCommitteeNewCRHeight
)

type c27Case struct {
	Era        int      `json:"era"`
	POW        bool     `json:"pow_mode"`
	CfgCRC     int      `json:"configured_crc_arbiters"`
	CfgNormal  int      `json:"configured_normal_arbiters"`
	Members    []string `json:"current_arbiters"` // kind per member, in order
	Candidates int      `json:"candidates"`
	VoteClass  string   `json:"vote_class"`
	Votes      []int64  `json:"votes"` // voting participants in order: dpos arbiters + (V3) unclaimed-CRC producers, then candidates
	Total      int64    `json:"total_votes_in_round"`
	RewardCls  string   `json:"reward_class"`
	Reward     int64    `json:"reward"`
	Height     uint32   `json:"height"`
}

func c27Votes(r *rand.Rand, n int) (string, []int64) {
	v := make([]int64, n)
	cls := ""
	switch r.Intn(9) {
	case 0:
		cls = "all_zero"
	case 1:
		cls = "all_one"
		for i := range v {
			v[i] = 1
		}
	case 2:
		cls = "all_equal"
		x := 1 + r.Int63n(1<<uint(1+r.Intn(50)))
		for i := range v {
			v[i] = x
		}
	case 3:
		cls = "scale_1e8"
		for i := range v {
			v[i] = int64(r.Intn(2000000)) * 100000000 / int64(1+r.Intn(1000))
		}
	case 4:
		cls = "one_dominant"
		for i := range v {
			v[i] = int64(r.Intn(3))
		}
		if n > 0 {
			v[r.Intn(n)] = 1 << uint(40+r.Intn(13))
		}
	case 5:
		cls = "2p53"
		for i := range v {
			v[i] = (1 << 53) + int64(r.Intn(3)-1)
		}
	case 6:
		cls = "2p62"
		for i := range v {
			v[i] = int64(r.Intn(100))
		}
		if n > 0 {
			v[r.Intn(n)] = 1 << 62
		}
	case 7:
		cls = "mixed"
		set := []int64{0, 1, 100000000, 1<<53 - 1, 1<<53 + 1, 7, 12345678912345}
		for i := range v {
			v[i] = set[r.Intn(len(set))]
		}
	default:
		cls = "random"
		for i := range v {
			v[i] = r.Int63n(1 << uint(1+r.Intn(52)))
		}
	}
	return cls, v
}

func c27Reward(r *rand.Rand) (string, int64) {
	switch r.Intn(8) {
	case 0:
		return "zero", 0
	case 1:
		return "tiny", int64(1 + r.Intn(200))
	case 2, 3:
		// a round's accumulated reward on the real chain: ~ n blocks x ~1.5 ELA x 35 %
		return "realistic", 10000000 + r.Int63n(20000000000)
	case 4:
		return "2p53", (1 << 53) + int64(r.Intn(3)-1)
	case 5:
		return "huge", 1 << 62
	case 6:
		return "huge", (1 << 53) + r.Int63n(1<<62-1<<53)
	default:
		return "random", r.Int63n(1 << uint(1+r.Intn(53)))
	}
}

// c27Pool: members are built once with the real constructors (each costs an
// EC point decompression) and reused across cases; they are immutable.
type c27Pool struct {
	dpos []dstate.ArbiterMember // 96 distinct producers
	// per CRC seat: [0] elected+claimed, [1] elected+unclaimed, [2] impeached
	crc     [][3]dstate.ArbiterMember
	crcNode []c27Ident // node key of the seat
	crcProd []c27Ident // producer lending its node key to the unclaimed variant (V3)
}

func c27BuildPool() (*c27Pool, error) {
	ids, err := c27Idents(2*96 + 3*12)
	if err != nil {
		return nil, err
	}
	p := &c27Pool{}
	for k := 0; k < 96; k++ {
		pr := &dstate.Producer{}
		pr.SetInfo(payload.ProducerInfo{OwnerKey: ids[2*k].pk, NodePublicKey: ids[2*k+1].pk})
		m, err := dstate.NewDPoSArbiter(pr)
		if err != nil {
			return nil, err
		}
		p.dpos = append(p.dpos, m)
	}
	for j := 0; j < 12; j++ {
		owner, nodeID, prod := ids[192+3*j], ids[192+3*j+1], ids[192+3*j+2]
		var seat [3]dstate.ArbiterMember
		for v := 0; v < 3; v++ {
			cr := &crstate.CRMember{Info: payload.CRInfo{Code: owner.code}, MemberState: crstate.MemberElected}
			switch v {
			case 0:
				cr.DPOSPublicKey = nodeID.pk
			case 2:
				cr.MemberState = crstate.MemberImpeached
				cr.DPOSPublicKey = nodeID.pk
			}
			m, err := dstate.NewCRCArbiter(nodeID.pk, owner.pk, cr, v != 2)
			if err != nil {
				return nil, err
			}
			seat[v] = m
		}
		p.crc = append(p.crc, seat)
		p.crcNode = append(p.crcNode, nodeID)
		p.crcProd = append(p.crcProd, prod)
	}
	return p, nil
}

func runC27(c *kit.Ctx) {
	node.InitGlobals(c.WorkDir)
	pool, err := c27BuildPool()
	if err != nil {
		c.Inconclusive("member pool: %v", err)
		return
	}
	r := c.Rand("c27")
	n := c.N(5000, 125000) // per shard; x8 = 40 k / 1 M
	for i := 0; i < n; i++ {
		c27One(c, r, pool, i)
	}
}

func c27One(c *kit.Ctx, r *rand.Rand, pool *c27Pool, idx int) {
	cs := &c27Case{Era: idx % 4, POW: r.Intn(6) == 0}
	cs.CfgCRC = []int{12, 12, 12, 0, 1, 5}[r.Intn(6)]
	cs.CfgNormal = []int{24, 24, 24, 0, 1, 12}[r.Intn(6)]
	nCRC := cs.CfgCRC
	nDPoS := cs.CfgNormal
	switch r.Intn(5) {
	case 0: // some members missing (abnormal)
		if nCRC > 0 {
			nCRC = r.Intn(nCRC + 1)
		}
		if nDPoS > 0 {
			nDPoS = r.Intn(nDPoS + 1)
		}
	case 1: // CRC only
		nDPoS = 0
	case 2: // empty
		if r.Intn(3) == 0 {
			nCRC, nDPoS = 0, 0
		}
	}
	cs.Candidates = r.Intn(73)
	if r.Intn(4) == 0 {
		cs.Candidates = 0
	}

	cfg := *config.GetDefaultParams()
	cfg.CRConfiguration.CRCommitteeStartHeight = c27H1
	cfg.CRConfiguration.CRClaimDPOSNodeStartHeight = c27H2
	cfg.CRConfiguration.ChangeCommitteeNewCRHeight = c27H3
	cfg.DPoSConfiguration.CRCArbiters = make([]string, cs.CfgCRC)
	cfg.DPoSConfiguration.NormalArbitratorsCount = cs.CfgNormal
	destroy := *cfg.DestroyELAProgramHash
	crcHash := *cfg.CRConfiguration.CRCProgramHash

	a := &dstate.Arbiters{State: &dstate.State{StateKeyFrame: dstate.NewStateKeyFrame()}, ChainParams: &cfg}
	a.CurrentCRCArbitersMap = map[common.Uint168]dstate.ArbiterMember{}
	a.CurrentReward = dstate.RewardData{OwnerVotesInRound: map[common.Uint168]common.Fixed64{}}
	if cs.POW {
		a.ConsensusAlgorithm = dstate.POW
		c.Inc("mode_pow")
	} else {
		a.ConsensusAlgorithm = dstate.DPOS
		c.Inc("mode_dpos")
	}

	var voters []common.Uint168 // owner hashes whose votes are recorded, in order
	// members
	type mem struct {
		kind string
		m    dstate.ArbiterMember
	}
	var mems []mem
	for i := 0; i < nCRC; i++ {
		kind, variant := "crc_elected_claimed", 0
		switch r.Intn(4) {
		case 0:
			kind, variant = "crc_impeached", 2
		case 1:
			kind, variant = "crc_elected_unclaimed", 1
			if cs.Era == 3 {
				// the node lends such a member a producer's node key; the
				// producer's votes are recorded under the producer's owner hash
				a.NodeOwnerKeys[hex.EncodeToString(pool.crcNode[i].pk)] = hex.EncodeToString(pool.crcProd[i].pk)
				voters = append(voters, pool.crcProd[i].hash)
			}
		}
		m := pool.crc[i][variant]
		a.CurrentCRCArbitersMap[m.GetOwnerProgramHash()] = m
		mems = append(mems, mem{kind, m})
		c.Inc(kind)
	}
	perm := r.Perm(len(pool.dpos))
	for i := 0; i < nDPoS; i++ {
		m := pool.dpos[perm[i]]
		mems = append(mems, mem{"dpos", m})
		voters = append(voters, m.GetOwnerProgramHash())
		c.Inc("dpos_arbiters")
	}
	r.Shuffle(len(mems), func(i, j int) { mems[i], mems[j] = mems[j], mems[i] })
	for _, m := range mems {
		a.CurrentArbitrators = append(a.CurrentArbitrators, m.m)
		cs.Members = append(cs.Members, m.kind)
	}
	for i := 0; i < cs.Candidates && nDPoS+i < len(perm); i++ {
		m := pool.dpos[perm[nDPoS+i]]
		a.CurrentCandidates = append(a.CurrentCandidates, m)
		voters = append(voters, m.GetOwnerProgramHash())
		c.Inc("candidates")
	}
	cs.Candidates = len(a.CurrentCandidates)
	c.Max("max:arbiters", int64(len(a.CurrentArbitrators)))
	c.Max("max:candidates", int64(len(a.CurrentCandidates)))

	// votes, total accumulated as the node does (Fixed64 +=)
	cs.VoteClass, cs.Votes = c27Votes(r, len(voters))
	exactTotal := new(big.Int)
	var total common.Fixed64
	for i, h := range voters {
		a.CurrentReward.OwnerVotesInRound[h] = common.Fixed64(cs.Votes[i])
		total += common.Fixed64(cs.Votes[i])
		exactTotal.Add(exactTotal, big.NewInt(cs.Votes[i]))
	}
	if !exactTotal.IsInt64() {
		c.Inc("skipped_vote_sum_overflow")
		return
	}
	a.CurrentReward.TotalVotesInRound = total
	cs.Total = int64(total)
	c.Inc("votes_class_" + cs.VoteClass)

	cs.RewardCls, cs.Reward = c27Reward(r)
	if r.Intn(8) == 0 {
		// everything divides: 0.25R/arbiters and 0.75R/total are integers, so the
		// exact payouts use the whole pool and any upward rounding would exceed it
		den := int64(1)
		if cnt := int64(len(a.CurrentArbitrators)); cs.Era < 2 && cnt > 0 {
			den = cnt
		} else if cnt := int64(cs.CfgCRC + cs.CfgNormal); cs.Era >= 2 && cnt > 0 {
			den = cnt
		}
		if exactTotal.Sign() > 0 && exactTotal.BitLen() < 40 {
			den *= exactTotal.Int64()
		}
		if den < 1<<50 {
			cs.RewardCls, cs.Reward = "divisible", 4*den*(1+r.Int63n(1<<50/den))
		}
	}
	c.Inc("reward_class_" + cs.RewardCls)

	// height selects the era: thresholds are shifted by 2*len(CurrentArbitrators)
	shift := 2 * uint32(len(a.CurrentArbitrators))
	extra := []uint32{0, 1, 1000}[r.Intn(3)]
	switch cs.Era {
	case 0:
		cs.Height = []uint32{1, c27H1 - 1, c27H1 + shift - 1}[r.Intn(3)]
	case 1:
		cs.Height = c27H1 + shift + extra
		if r.Intn(3) == 0 {
			cs.Height = c27H2 + shift - 1
		}
	case 2:
		cs.Height = c27H2 + shift + extra
		if r.Intn(3) == 0 {
			cs.Height = c27H3 + shift - 1
		}
	default:
		cs.Height = c27H3 + shift + extra
	}
	c.Inc(fmt.Sprintf("era_v%d", cs.Era))

	id := fmt.Sprintf("%+v", *cs)
	c.Begin("C27 %s", id)
	var rr map[common.Uint168]common.Fixed64
	var change common.Fixed64
	var derr error
	var rrRule map[common.Uint168]common.Fixed64
	var realRule common.Fixed64
	var ruleErr error
	panicked, pv, _ := kit.Guard(func() {
		rr, change, derr = a.VerifDistributeDPOSReward(cs.Height, common.Fixed64(cs.Reward))
		rrRule, realRule, ruleErr = a.VerifDistributeRule(cs.Era, cs.Height, common.Fixed64(cs.Reward))
	})
	if panicked {
		c.Violate(fmt.Sprintf("reward:panic:v%d", cs.Era), fmt.Sprintf("panic: %v", pv), cs)
		c.Case(id, false)
		return
	}
	// the entry point must have dispatched to the era we aimed at
	ruleFails := ruleErr != nil || common.Fixed64(cs.Reward)-realRule < 0
	same := (derr != nil) == ruleFails
	if same && derr == nil {
		same = len(rr) == len(rrRule)
		for k, v := range rr {
			if rrRule[k] != v {
				same = false
			}
		}
	}
	if same {
		c.Inc("era_dispatch_as_expected")
	} else {
		c.Inc("era_dispatch_differs")
		c.Note("era dispatch differs: era=%d height=%d arbiters=%d", cs.Era, cs.Height, len(a.CurrentArbitrators))
	}

	voting := len(voters) > 0
	zeroTotal := total == 0 && voting
	class := "rounding"
	if zeroTotal {
		class = "total-votes-zero"
	}
	reward := big.NewInt(cs.Reward)
	if derr != nil {
		c.Inc("error_returned")
		if ruleErr == nil && realRule > common.Fixed64(cs.Reward) {
			c.Inc("error_because_real_exceeds_reward")
			if cs.Reward < 1<<53 {
				c.Inc("error_real_exceeds_reward_with_reward_below_2p53")
				c.Note("real %d > reward %d (< 2^53): era=%d voters=%d total=%d", realRule, cs.Reward, cs.Era, len(voters), cs.Total)
			}
			c.Max("max:real_minus_reward_when_error", int64(realRule)-cs.Reward)
		}
		c.Case(id, false)
		return
	}
	early := false
	if len(rr) == 1 {
		if v, ok := rr[destroy]; ok && int64(v) == cs.Reward {
			early = true
		}
		if v, ok := rr[crcHash]; ok && int64(v) == cs.Reward {
			early = true
		}
	}
	if early {
		c.Inc("early_return_branch")
	} else {
		c.Inc("proportional_branch")
	}
	c.Case(id, !early && voting)

	// --- oracle ---
	if change < 0 {
		c.Violate("reward:change-negative-without-error", fmt.Sprintf("era V%d reward=%d change=%d", cs.Era, cs.Reward, change), cs)
	}
	if big.NewInt(int64(change)).Cmp(reward) > 0 {
		// paid = reward - change < 0
		c.Violate("reward:paid-amount-negative:"+class, fmt.Sprintf("era V%d reward=%d change=%d => amount attributed as paid = %d", cs.Era, cs.Reward, change, cs.Reward-int64(change)), cs)
	}
	sumAll := new(big.Int)
	sumPaid := new(big.Int)
	neg := 0
	var negExample int64
	for k, v := range rr {
		sumAll.Add(sumAll, big.NewInt(int64(v)))
		if k != destroy {
			sumPaid.Add(sumPaid, big.NewInt(int64(v)))
		}
		if v < 0 {
			neg++
			negExample = int64(v)
		}
	}
	if neg > 0 {
		c.Violate("reward:negative-payout:"+class, fmt.Sprintf("era V%d reward=%d totalVotes=%d voters=%d: %d negative entries in the round-reward map (e.g. %d), change=%d, no error",
			cs.Era, cs.Reward, cs.Total, len(voters), neg, negExample, change), cs)
	}
	c.Inc("exact_sum_checked")
	if neg == 0 && sumPaid.Cmp(reward) > 0 {
		c.Violate("reward:paid-exceeds-pool:"+class, fmt.Sprintf("era V%d reward=%d: entries paid to recipients sum to %s, change=%d, no error", cs.Era, cs.Reward, sumPaid, change), cs)
	}
	if change == 0 && !early {
		c.Inc("proportional_cases_with_zero_change")
	}
	// recorded, not judged
	tot := new(big.Int).Add(sumAll, big.NewInt(int64(change)))
	switch tot.Cmp(reward) {
	case 0:
		c.Inc("sum_plus_change_eq_reward")
	case -1:
		c.Inc("sum_plus_change_lt_reward")
	default:
		c.Inc("sum_plus_change_gt_reward")
		if neg == 0 && !early {
			c.Inc("sum_plus_change_gt_reward_nonneg")
			d := new(big.Int).Sub(tot, reward)
			if d.IsInt64() {
				c.Max("max:sum_plus_change_minus_reward", d.Int64())
			}
		}
	}
	if !early && voting && !zeroTotal && c.Shard == 0 {
		c.Sample(map[string]interface{}{"case": cs, "change": int64(change), "map_entries": len(rr), "sum_map": sumAll.String()})
	}
}

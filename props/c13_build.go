package props

// Shared builders for C13 / C33: controlled arbiter sets with known keys,
// cross-chain multisig / Schnorr program codes, side-chain withdrawal
// transactions (payload V0/V1/V2) and the other synthetic transaction kinds
// that own a save/rollback processor or touch an index.

import (
	"bytes"
	"crypto/elliptic"
	"math/big"
	"sort"

	"github.com/elastos/Elastos.ELA/account"
	"github.com/elastos/Elastos.ELA/common"
	"github.com/elastos/Elastos.ELA/core"
	pg "github.com/elastos/Elastos.ELA/core/contract/program"
	common2 "github.com/elastos/Elastos.ELA/core/types/common"
	"github.com/elastos/Elastos.ELA/core/types/functions"
	"github.com/elastos/Elastos.ELA/core/types/interfaces"
	"github.com/elastos/Elastos.ELA/core/types/outputpayload"
	"github.com/elastos/Elastos.ELA/core/types/payload"
	"github.com/elastos/Elastos.ELA/dpos/state"

	"verif/kit/node"
)

const (
	prefixX   = 0x4B // contract.PrefixCrossChain
	prefixStd = 0x21
	opPUSH1   = 0x51
	opCROSS   = 0xAF
)

// arbKey is one arbiter with a known private key.
type arbKey struct {
	Acct *account.Account
	Pub  []byte // 33-byte compressed node public key
}

// arbKeys returns n deterministic arbiters (keys node.Key(base+i)).
func arbKeys(base, n int) []arbKey {
	out := make([]arbKey, n)
	for i := range out {
		a := node.Key(base + i)
		pb, err := a.PublicKey.EncodePoint(true)
		if err != nil {
			panic(err)
		}
		out[i] = arbKey{Acct: a, Pub: pb}
	}
	return out
}

func originMembers(ks []arbKey) []state.ArbiterMember {
	var ms []state.ArbiterMember
	for _, k := range ks {
		m, err := state.NewOriginArbiter(k.Pub)
		if err != nil {
			panic(err)
		}
		ms = append(ms, m)
	}
	return ms
}

// xHash returns a cross-chain ("X") program hash derived from tag.
func xHash(tag string) common.Uint168 {
	h := common.Sha256D([]byte("x-addr/" + tag))
	var u common.Uint168
	u[0] = prefixX
	copy(u[1:], h[:20])
	return u
}

// ccScript builds the cross-chain arbiters' multi-sign code
// [m][0x21 key]*[n][CROSSCHAIN] with raw m / n opcodes (so m,n up to 36+ work
// exactly as crypto.ParseCrossChainScriptV1 reads them).
func ccScript(m, n int, keys [][]byte) []byte {
	buf := new(bytes.Buffer)
	buf.WriteByte(byte(opPUSH1 + m - 1))
	for _, k := range keys {
		buf.WriteByte(byte(len(k)))
		buf.Write(k)
	}
	buf.WriteByte(byte(opPUSH1 + n - 1))
	buf.WriteByte(opCROSS)
	return buf.Bytes()
}

// sumPoints adds the given points (with multiplicity) on P-256 using the
// standard library only. ok=false if the sum is the point at infinity.
func sumPoints(ks []arbKey) (x, y *big.Int, ok bool) {
	cv := elliptic.P256()
	for i, k := range ks {
		if i == 0 {
			x, y = new(big.Int).Set(k.Acct.PublicKey.X), new(big.Int).Set(k.Acct.PublicKey.Y)
			continue
		}
		if x.Sign() == 0 && y.Sign() == 0 {
			x, y = new(big.Int).Set(k.Acct.PublicKey.X), new(big.Int).Set(k.Acct.PublicKey.Y)
			continue
		}
		if x.Cmp(k.Acct.PublicKey.X) == 0 && y.Cmp(k.Acct.PublicKey.Y) == 0 {
			x, y = cv.Double(x, y)
		} else {
			x, y = cv.Add(x, y, k.Acct.PublicKey.X, k.Acct.PublicKey.Y)
		}
	}
	if x == nil || (x.Sign() == 0 && y.Sign() == 0) {
		return nil, nil, false
	}
	return x, y, true
}

// schnorrCode is the redeem script PUSH1 PUSHBYTES33 <compressed point>.
func schnorrCode(x, y *big.Int) []byte {
	c := make([]byte, 35)
	c[0] = opPUSH1
	c[1] = 33
	c[2] = 2 + byte(y.Bit(0))
	xb := x.Bytes()
	copy(c[3+32-len(xb):], xb)
	return c
}

// schnorrCodeFor aggregates the named signers (with multiplicity).
func schnorrCodeFor(arbs []arbKey, signers []uint8) ([]byte, bool) {
	var ks []arbKey
	for _, s := range signers {
		if int(s) >= len(arbs) {
			return nil, false
		}
		ks = append(ks, arbs[s])
	}
	if len(ks) == 0 {
		return nil, false
	}
	x, y, ok := sumPoints(ks)
	if !ok {
		return nil, false
	}
	return schnorrCode(x, y), true
}

// ---------- transactions ----------

func defOut(ph common.Uint168, v common.Fixed64) *common2.Output {
	return &common2.Output{AssetID: core.ELAAssetID, Value: v, ProgramHash: ph, Type: common2.OTNone, Payload: &outputpayload.DefaultOutput{}}
}

func wdOut(ph common.Uint168, v common.Fixed64, h common.Uint256) *common2.Output {
	return &common2.Output{AssetID: core.ELAAssetID, Value: v, ProgramHash: ph, Type: common2.OTWithdrawFromSideChain,
		Payload: &outputpayload.Withdraw{Version: 0, GenesisBlockAddress: "XKUh4GLhFJiqAMTF6HyWQrV9pK9HcGUdfJ", SideChainTransactionHash: h, TargetData: []byte("t")}}
}

func inputsOf(refs []node.UTXORef) []*common2.Input {
	var ins []*common2.Input
	for _, u := range refs {
		ins = append(ins, &common2.Input{Previous: common2.OutPoint{TxID: u.TxID, Index: u.Index}, Sequence: 0})
	}
	return ins
}

// withdrawTx builds a WithdrawFromSideChain transaction of the given payload
// version carrying the side-chain hashes (V0: payload list; V1/V2: one
// OTWithdrawFromSideChain output per hash).
func withdrawTx(ver byte, ins []*common2.Input, to common.Uint168, each common.Fixed64, hashes []common.Uint256,
	signers []uint8, programs []*pg.Program) interfaces.Transaction {
	pl := &payload.WithdrawFromSideChain{}
	var outs []*common2.Output
	txVer := common2.TxVersion09
	switch ver {
	case payload.WithdrawFromSideChainVersion:
		pl.BlockHeight = 7
		pl.GenesisBlockAddress = "XKUh4GLhFJiqAMTF6HyWQrV9pK9HcGUdfJ"
		pl.SideChainTransactionHashes = append([]common.Uint256{}, hashes...)
		for range hashes {
			outs = append(outs, defOut(to, each))
		}
		txVer = common2.TxVersionDefault
	default:
		for _, h := range hashes {
			outs = append(outs, wdOut(to, each, h))
		}
		if ver == payload.WithdrawFromSideChainVersionV2 {
			pl.Signers = append([]uint8{}, signers...)
		}
	}
	if programs == nil {
		programs = []*pg.Program{}
	}
	return functions.CreateTransaction(txVer, common2.WithdrawFromSideChain, ver, pl,
		[]*common2.Attribute{}, ins, outs, 0, programs)
}

// wdHashes lists the side-chain hashes a withdrawal claims, the way the
// property defines them (payload list for V0, output payloads for V1/V2).
func wdHashes(tx interfaces.Transaction) []common.Uint256 {
	var hs []common.Uint256
	if tx.PayloadVersion() == payload.WithdrawFromSideChainVersion {
		if p, ok := tx.Payload().(*payload.WithdrawFromSideChain); ok {
			hs = append(hs, p.SideChainTransactionHashes...)
		}
		return hs
	}
	for _, o := range tx.Outputs() {
		if o.Type != common2.OTWithdrawFromSideChain {
			continue
		}
		if w, ok := o.Payload.(*outputpayload.Withdraw); ok {
			hs = append(hs, w.SideChainTransactionHash)
		}
	}
	return hs
}

func hashOf(tag string) common.Uint256 { return common.Sha256D([]byte(tag)) }

func sortedU16(v []uint16) []uint16 {
	o := append([]uint16{}, v...)
	sort.Slice(o, func(i, j int) bool { return o[i] < o[j] })
	return o
}

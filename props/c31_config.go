package props

import (
	"bytes"
	"encoding/hex"
	"encoding/json"
	"fmt"
	"math"
	"math/rand"
	"os"
	"os/exec"
	"path/filepath"
	"strings"
	"syscall"
	"time"

	"github.com/elastos/Elastos.ELA/common"
	"github.com/elastos/Elastos.ELA/common/config"
	"github.com/elastos/Elastos.ELA/common/config/settings"

	"verif/kit"
	"verif/kit/node"
)

// Shared configuration part (B) of C31 and C32.
//
// settings.Settings.SetupConfig mutates process globals (config.DefaultParams,
// config.Parameters, pact.*), reads ./config.json from the working directory
// and is meant to run once per process. Every case therefore runs in a fresh
// SUB-process: the checker binary re-executes itself with VERIF_C31_ROLE set;
// the init-time dispatcher below runs the real SetupConfig(false,"","") with
// cwd = a temp dir that holds the generated config.json and prints what the
// node would run with as JSON.

const cfgRoleEnv = "VERIF_C31_ROLE"

// cfgObs is what the sub-process reports about the configuration the real
// SetupConfig produced.
type cfgObs struct {
	OK          bool        `json:"ok"`
	Panic       string      `json:"panic,omitempty"`
	ActiveNet   string      `json:"active_net"`
	Magic       uint32      `json:"magic"`
	DPoSMagic   uint32      `json:"dpos_magic"`
	GenesisHash string      `json:"genesis_hash"`
	Foundation  string      `json:"foundation"`
	Freeze      uint32      `json:"freeze"`
	Restriction uint32      `json:"restriction"`
	Frozen      []cfgFrozen `json:"frozen"`
	// the coordinated constants as compiled into the binary
	ConstFreeze      uint32      `json:"const_freeze"`
	ConstRestriction uint32      `json:"const_restriction"`
	ConstDisabled    uint32      `json:"const_disabled"`
	ConstFrozen      []cfgFrozen `json:"const_frozen"`
	// config.Parameters must be the returned configuration (what main.go uses)
	ParametersSame bool `json:"parameters_same"`
}

type cfgFrozen struct {
	Address string `json:"address"`
	Start   uint32 `json:"start"`
	Hash    string `json:"hash"` // hex of the resolved ProgramHash, "" if nil
}

func init() {
	if os.Getenv(cfgRoleEnv) != "setupconfig" {
		return
	}
	// ---- sub-process: run the REAL SetupConfig once and report ----
	obs := cfgObs{}
	func() {
		defer func() {
			if r := recover(); r != nil {
				obs.Panic = fmt.Sprint(r)
			}
		}()
		obs.ConstFreeze = config.MainNetCrossChainUTXOFreezeHeight
		obs.ConstRestriction = config.MainNetCrossChainUTXORestrictionHeight
		obs.ConstDisabled = config.DisabledCrossChainUTXORestrictionHeight
		for _, f := range config.MainNetFrozenAddresses() {
			obs.ConstFrozen = append(obs.ConstFrozen, cfgFrozen{Address: f.Address, Start: f.DisableStartHeight})
		}
		cfg := settings.NewSettings().SetupConfig(false, "", "")
		obs.ActiveNet = cfg.ActiveNet
		obs.Magic = cfg.Magic
		obs.DPoSMagic = cfg.DPoSConfiguration.Magic
		if cfg.GenesisBlock != nil {
			obs.GenesisHash = cfg.GenesisBlock.Hash().String()
		}
		if cfg.FoundationProgramHash != nil {
			obs.Foundation, _ = cfg.FoundationProgramHash.ToAddress()
		}
		obs.Freeze = cfg.CrossChainUTXOFreezeHeight
		obs.Restriction = cfg.CrossChainUTXORestrictionHeight
		for _, f := range cfg.FrozenAddresses {
			e := cfgFrozen{Address: f.Address, Start: f.DisableStartHeight}
			if f.ProgramHash != nil {
				e.Hash = hex.EncodeToString(f.ProgramHash.Bytes())
			}
			obs.Frozen = append(obs.Frozen, e)
		}
		obs.ParametersSame = config.Parameters == cfg
		obs.OK = true
	}()
	b, _ := json.Marshal(obs)
	os.Stdout.Write(append([]byte("C31OBS "), append(b, '\n')...))
	os.Exit(0)
}

// ---- the public identity of the ELA main network (network facts, not code) ----
const (
	mainNetMagic       uint32 = 2017001
	mainNetFoundation         = "8VYXVxKKSAxkmRrfmGpQR2Kc66XhG6m3ta"
	mainNetGenesisHash        = "8d7014f2f941caa1972c8033b2f0a860ec8d4938b12bae2c62512852a558f405"
)

// cfgCase is one generated configuration file.
type cfgCase struct {
	Name        string                 `json:"name"` // ActiveNet as written to the file
	NameClass   string                 `json:"name_class"`
	OmitName    bool                   `json:"omit_name"`
	Freeze      *uint32                `json:"freeze,omitempty"`
	Restriction *uint32                `json:"restriction,omitempty"`
	Frozen      []map[string]any       `json:"frozen,omitempty"`
	FrozenSet   bool                   `json:"frozen_set"`
	Identity    map[string]interface{} `json:"identity,omitempty"` // Magic / FoundationAddress overrides (observation only)
	LowerKeys   bool                   `json:"lower_keys"`
	// OwnMagic: an unrecognised ActiveNet name together with a Magic that is not the mainnet magic and
	// nothing else re-defined: a private network by every criterion the file controls (judged for C31).
	OwnMagic bool `json:"own_magic,omitempty"`
}

func (cc *cfgCase) id() string {
	b, _ := json.Marshal(cc)
	return "cfg:" + string(b)
}

func (cc *cfgCase) file() []byte {
	k := func(s string) string {
		if cc.LowerKeys {
			return strings.ToLower(s)
		}
		return s
	}
	inner := map[string]interface{}{}
	if !cc.OmitName {
		inner[k("ActiveNet")] = cc.Name
	}
	if cc.Freeze != nil {
		inner[k("CrossChainUTXOFreezeHeight")] = *cc.Freeze
	}
	if cc.Restriction != nil {
		inner[k("CrossChainUTXORestrictionHeight")] = *cc.Restriction
	}
	if cc.FrozenSet {
		fr := cc.Frozen
		if fr == nil {
			fr = []map[string]any{}
		}
		inner[k("FrozenAddresses")] = fr
	}
	for key, v := range cc.Identity {
		inner[k(key)] = v
	}
	b, _ := json.MarshalIndent(map[string]interface{}{k("Configuration"): inner}, "", "  ")
	return b
}

var cfgNames = []struct{ name, class string }{
	{"", "mainnet-alias"}, {"mainnet", "mainnet-alias"}, {"MainNet", "mainnet-alias"}, {"MAINNET", "mainnet-alias"}, {"main", "mainnet-alias"}, {"Main", "mainnet-alias"},
	{"testnet", "testnet-alias"}, {"TestNet", "testnet-alias"}, {"test", "testnet-alias"}, {"TEST", "testnet-alias"},
	{"regnet", "regnet-alias"}, {"RegNet", "regnet-alias"}, {"regtest", "regnet-alias"}, {"reg", "regnet-alias"}, {"REG", "regnet-alias"},
	{"mainnet ", "unknown"}, {" mainnet", "unknown"}, {"main net", "unknown"}, {"main-net", "unknown"}, {"mainet", "unknown"}, {"ela", "unknown"}, {"prod", "unknown"},
	{"testnet ", "unknown"}, {" test", "unknown"}, {"test-net", "unknown"}, {"tesnet", "unknown"}, {"regnet ", "unknown"}, {"reg\t", "unknown"}, {"regnet\n", "unknown"},
	{"private-net", "unknown"}, {"privnet", "unknown"}, {"devnet", "unknown"}, {"local", "unknown"}, {"0", "unknown"}, {"mainnet ", "unknown"}, {"ｍainnet", "unknown"},
}

func u32p(v uint32) *uint32 { return &v }

// cfgOverrideKinds enumerates how the file tries to move the policy.
func cfgOverride(kind int, r *rand.Rand, cc *cfgCase) string {
	frozenAlt := []string{node.Key(11).Address, node.Key(12).Address, "EJMzC16Eorq9CuFCGtyMrq4Jmgw9jYCHQR"}
	switch kind {
	case 0:
		return "none"
	case 1:
		cc.Freeze, cc.Restriction = u32p(0), u32p(0)
		return "heights-zero"
	case 2:
		cc.Freeze, cc.Restriction = u32p(math.MaxUint32), u32p(math.MaxUint32)
		return "heights-max"
	case 3:
		cc.Freeze = u32p(uint32(r.Intn(3000000)))
		return "freeze-only"
	case 4:
		cc.Restriction = u32p(uint32(r.Intn(3000000)))
		return "restriction-only"
	case 5:
		a := uint32(r.Intn(3000000))
		cc.Freeze, cc.Restriction = u32p(a+uint32(r.Intn(1000))), u32p(a) // inverted
		return "heights-inverted"
	case 6:
		cc.FrozenSet = true // empty list in the file
		return "frozen-empty"
	case 7:
		cc.FrozenSet = true
		cc.Frozen = []map[string]any{{"Address": frozenAlt[r.Intn(len(frozenAlt))], "DisableStartHeight": uint32(r.Intn(1000))}}
		return "frozen-replace-address"
	case 8:
		cc.FrozenSet = true
		cc.Frozen = []map[string]any{{"DisableStartHeight": uint32(math.MaxUint32)}}
		return "frozen-postpone-start"
	case 9:
		cc.FrozenSet = true
		cc.Frozen = []map[string]any{{"Address": "not-an-address"}}
		return "frozen-invalid-address"
	case 10:
		cc.FrozenSet = true
		cc.Frozen = []map[string]any{{"Address": ""}, {"Address": frozenAlt[r.Intn(len(frozenAlt))], "DisableStartHeight": 5}}
		cc.Freeze, cc.Restriction = u32p(1), u32p(2)
		return "all-three"
	default:
		cc.Freeze, cc.Restriction = u32p(uint32(r.Intn(100))), u32p(uint32(100+r.Intn(100)))
		cc.FrozenSet = true
		cc.Frozen = []map[string]any{{"Address": config.ExploitIntermediateFrozenAddress, "DisableStartHeight": uint32(math.MaxUint32)}}
		return "all-three-same-address-postponed"
	}
}

const cfgOverrideKinds = 12

// cfgCases builds this shard's deterministic case list.
func cfgCases(c *kit.Ctx, stream string, extra int) []*cfgCase {
	r := c.Rand(stream)
	var all []*cfgCase
	idx := 0
	phase := int(c.Seed%6+6) % 6
	for ni, nm := range cfgNames {
		for k := 0; k < cfgOverrideKinds; k++ {
			cc := &cfgCase{Name: nm.name, NameClass: nm.class}
			cfgOverride(k, r, cc)
			// quick: a sixth of the (name, override) grid, rotating with the
			// seed; thorough: the whole grid
			if c.Quick() && (ni+k)%6 != phase {
				continue
			}
			if nm.name == "" && k%2 == 1 {
				cc.OmitName = true
			}
			cc.LowerKeys = (ni+k)%5 == 4
			if idx%c.Shards == c.Shard {
				all = append(all, cc)
			}
			idx++
		}
	}
	// identity overrides: observation only (see Assumptions)
	hy := []*cfgCase{
		{Name: "", NameClass: "mainnet-alias", Identity: map[string]interface{}{"Magic": 7630401, "FoundationAddress": node.Key(0).Address}},
		{Name: "mainnet", NameClass: "mainnet-alias", Identity: map[string]interface{}{"Magic": 7630401}},
		{Name: "testnet", NameClass: "testnet-alias", Identity: map[string]interface{}{"Magic": mainNetMagic, "FoundationAddress": mainNetFoundation}},
		{Name: "regnet", NameClass: "regnet-alias", Identity: map[string]interface{}{"FoundationAddress": node.Key(0).Address}},
	}
	for i, cc := range hy {
		if i%c.Shards == c.Shard {
			all = append(all, cc)
		}
	}
	// private networks: unrecognised name + own magic, with every override kind over the sweep
	oi := 0
	for ni, nm := range cfgNames {
		if nm.class != "unknown" {
			continue
		}
		for k := 0; k < cfgOverrideKinds; k++ {
			magic := uint32(1 + r.Intn(1<<31))
			if magic == mainNetMagic {
				magic++
			}
			cc := &cfgCase{Name: nm.name, NameClass: nm.class, OwnMagic: true, Identity: map[string]interface{}{"Magic": magic}}
			cfgOverride(k, r, cc)
			if c.Quick() && (ni+k)%6 != phase {
				continue
			}
			if oi%c.Shards == c.Shard {
				all = append(all, cc)
			}
			oi++
		}
	}
	// seeded extras: random (known or mutated) names with random overrides
	for i := 0; i < extra; i++ {
		nm := cfgNames[r.Intn(len(cfgNames))]
		cc := &cfgCase{Name: nm.name, NameClass: nm.class}
		if r.Intn(3) == 0 {
			cc.Name, cc.NameClass = mutateName(r, nm.name)
		}
		cfgOverride(r.Intn(cfgOverrideKinds), r, cc)
		cc.LowerKeys = r.Intn(4) == 0
		all = append(all, cc)
	}
	return all
}

// mutateName derives a name that SetupConfig may or may not recognise; the
// class is only descriptive — the oracle never uses it.
func mutateName(r *rand.Rand, base string) (string, string) {
	switch r.Intn(6) {
	case 0:
		return base + " ", "mutated"
	case 1:
		return " " + base, "mutated"
	case 2:
		return strings.ToUpper(base), "mutated-case"
	case 3:
		if len(base) > 1 {
			i := r.Intn(len(base))
			return base[:i] + base[i+1:], "mutated"
		}
		return base + "x", "mutated"
	case 4:
		return base + "net", "mutated"
	default:
		b := []byte(base)
		for i := range b {
			if r.Intn(2) == 0 {
				b[i] = byte(strings.ToUpper(string(b[i]))[0])
			}
		}
		return string(b), "mutated-case"
	}
}

// runCfgCase executes one case in a fresh sub-process.
func runCfgCase(c *kit.Ctx, n int, cc *cfgCase) (*cfgObs, error) {
	dir := filepath.Join(c.WorkDir, fmt.Sprintf("cfg%04d", n))
	if err := os.MkdirAll(dir, 0755); err != nil {
		return nil, err
	}
	defer os.RemoveAll(dir)
	if err := os.WriteFile(filepath.Join(dir, "config.json"), cc.file(), 0644); err != nil {
		return nil, err
	}
	self, err := os.Executable()
	if err != nil {
		return nil, err
	}
	cmd := exec.Command(self)
	cmd.Dir = dir
	cmd.Env = append(os.Environ(), cfgRoleEnv+"=setupconfig")
	var out, errb bytes.Buffer
	cmd.Stdout, cmd.Stderr = &out, &errb
	cmd.SysProcAttr = &syscall.SysProcAttr{Setpgid: true}
	if err := cmd.Start(); err != nil {
		return nil, err
	}
	done := make(chan error, 1)
	go func() { done <- cmd.Wait() }()
	select {
	case err = <-done:
	case <-time.After(60 * time.Second): // watchdog: inconclusive only
		syscall.Kill(-cmd.Process.Pid, syscall.SIGKILL)
		<-done
		return nil, fmt.Errorf("sub-process watchdog")
	}
	for _, ln := range strings.Split(out.String(), "\n") {
		if strings.HasPrefix(ln, "C31OBS ") {
			var o cfgObs
			if e := json.Unmarshal([]byte(ln[len("C31OBS "):]), &o); e != nil {
				return nil, e
			}
			return &o, nil
		}
	}
	return nil, fmt.Errorf("no observation (exit %v): %s", err, tailOf(errb.String(), 400))
}

func tailOf(s string, n int) string {
	if len(s) > n {
		return s[len(s)-n:]
	}
	return s
}

// identity classifies the network the node would join, from what SetupConfig
// produced — never from the name string.
func (o *cfgObs) identity() string {
	m := o.Magic == mainNetMagic
	g := o.GenesisHash == mainNetGenesisHash && o.Foundation == mainNetFoundation
	switch {
	case m && g:
		return "mainnet"
	case !m && !g:
		return "other"
	default:
		return "mixed"
	}
}

// expectedFrozenHash resolves an address independently of Sterilize.
func expectedFrozenHash(addr string) string {
	ph, err := common.Uint168FromAddress(addr)
	if err != nil {
		return ""
	}
	return hex.EncodeToString(ph.Bytes())
}

// runConfigPart drives part B for property prop ("C31" or "C32").
func runConfigPart(c *kit.Ctx, prop string) {
	cases := cfgCases(c, "cfg", c.N(1, 10))
	sampled := map[string]bool{}
	for n, cc := range cases {
		c.Begin("config case %d %s", n, cc.id())
		o, err := runCfgCase(c, n, cc)
		if err != nil {
			c.Inc("B_subprocess_failed")
			c.Note("config sub-process failed: %v (%s)", err, cc.id())
			continue
		}
		if !o.OK {
			c.Inc("B_setupconfig_panicked")
			c.Note("SetupConfig panicked: %s (%s)", o.Panic, cc.id())
			continue
		}
		c.Inc("B_configs_run")
		c.Inc("B_name_class:" + cc.NameClass)
		ident := o.identity()
		c.Inc("B_identity:" + ident)
		overrides := cc.Freeze != nil || cc.Restriction != nil || cc.FrozenSet
		c.Case(cc.id(), overrides || cc.NameClass != "mainnet-alias")
		if !o.ParametersSame {
			c.Violate("config:parameters-global-differs", "config.Parameters is not the configuration returned by SetupConfig", cc)
		}
		sk := cc.NameClass + "/" + ident
		if !sampled[sk] && len(sampled) < 1 && (c.Shard%4 == 0 || ident == "mainnet" && !isMainAlias(cc)) {
			sampled[sk] = true
			c.Sample(map[string]interface{}{"kind": "config", "file": string(cc.file()), "identity": ident, "magic": o.Magic, "genesis": o.GenesisHash,
				"freeze": o.Freeze, "restriction": o.Restriction, "frozen": o.Frozen})
		}
		if cc.OwnMagic {
			if prop == "C31" {
				c.Inc("B_own_magic_unknown_name_checked")
				switch {
				case o.Magic == mainNetMagic:
					c.Inc("B_own_magic_not_taken_over") // the file's magic was not applied: nothing to judge
				case o.Freeze == o.ConstDisabled && o.Restriction == o.ConstDisabled:
					c.Inc("B_own_magic_disabled_held")
				default:
					c.Violate("config:private-network-policy-enabled", fmt.Sprintf("ActiveNet=%q with its own magic %d (not the mainnet magic): CrossChainUTXOFreezeHeight=%d RestrictionHeight=%d instead of disabled; file: %s",
						cc.Name, o.Magic, o.Freeze, o.Restriction, compact(cc.file())), cc)
				}
			}
			continue
		}
		if cc.Identity != nil {
			// the file re-defines the network identity itself: outside the
			// sweep, recorded only
			c.Inc("B_identity_override_observed")
			if ident != "mainnet" && o.Freeze != o.ConstDisabled {
				c.Inc("B_identity_override_nonmainnet_policy_enabled")
			}
			if ident == "mainnet" && o.Freeze != o.ConstFreeze {
				c.Inc("B_identity_override_mainnet_policy_changed")
			}
			continue
		}
		switch prop {
		case "C31":
			judgeC31Config(c, cc, o, ident)
		case "C32":
			judgeC32Config(c, cc, o, ident)
		}
	}
}

func judgeC31Config(c *kit.Ctx, cc *cfgCase, o *cfgObs, ident string) {
	switch ident {
	case "mainnet":
		c.Inc("B_mainnet_identity_checked")
		if cc.Freeze != nil || cc.Restriction != nil {
			c.Inc("B_mainnet_identity_with_height_override")
		}
		if o.Freeze == o.ConstFreeze && o.Restriction == o.ConstRestriction {
			c.Inc("B_mainnet_constants_held")
			return
		}
		detail := fmt.Sprintf("ActiveNet=%q: node has mainnet identity (magic %d, genesis %s) but CrossChainUTXOFreezeHeight=%d RestrictionHeight=%d (constants %d/%d); file: %s",
			cc.Name, o.Magic, o.GenesisHash[:16], o.Freeze, o.Restriction, o.ConstFreeze, o.ConstRestriction, compact(cc.file()))
		if isMainAlias(cc) {
			c.Violate("config:mainnet-heights-overridden", detail, cc)
		} else {
			c.Violate("config:unknown-activenet-mainnet-identity-policy-disabled", detail, cc)
		}
	case "other":
		c.Inc("B_other_identity_checked")
		if o.Freeze == o.ConstDisabled && o.Restriction == o.ConstDisabled {
			c.Inc("B_other_disabled_held")
			return
		}
		c.Violate("config:non-mainnet-policy-enabled", fmt.Sprintf("ActiveNet=%q: non-mainnet identity (magic %d) but CrossChainUTXOFreezeHeight=%d RestrictionHeight=%d; file: %s",
			cc.Name, o.Magic, o.Freeze, o.Restriction, compact(cc.file())), cc)
	default:
		c.Inc("B_mixed_identity_unjudged")
	}
}

func judgeC32Config(c *kit.Ctx, cc *cfgCase, o *cfgObs, ident string) {
	if ident != "mainnet" {
		// the property promises nothing about other networks' lists
		c.Inc("B_other_identity_observed")
		for _, f := range o.Frozen {
			if f.Address != "" && expectedFrozenHash(f.Address) != "" {
				c.Inc("B_frozen_entries_resolution_checked")
				if f.Hash != expectedFrozenHash(f.Address) {
					c.Violate("config:frozen-entry-unresolved", fmt.Sprintf("ActiveNet=%q: frozen entry %s has ProgramHash %q after SetupConfig", cc.Name, f.Address, f.Hash), cc)
				}
			}
		}
		return
	}
	c.Inc("B_mainnet_identity_checked")
	if cc.FrozenSet {
		c.Inc("B_mainnet_identity_with_frozen_override")
	}
	// multiset equality on (address, start) + every entry resolved
	want := map[string]int{}
	for _, f := range o.ConstFrozen {
		want[fmt.Sprintf("%s@%d", f.Address, f.Start)]++
	}
	got := map[string]int{}
	unresolved := ""
	for _, f := range o.Frozen {
		got[fmt.Sprintf("%s@%d", f.Address, f.Start)]++
		if f.Hash == "" || f.Hash != expectedFrozenHash(f.Address) {
			unresolved = f.Address
		}
	}
	same := len(want) == len(got)
	for k, v := range want {
		if got[k] != v {
			same = false
		}
	}
	if same && unresolved == "" {
		c.Inc("B_mainnet_frozen_list_held")
		return
	}
	detail := fmt.Sprintf("ActiveNet=%q: node has mainnet identity (magic %d, genesis %s) but FrozenAddresses=%v (coordinated %v); file: %s",
		cc.Name, o.Magic, o.GenesisHash[:16], o.Frozen, o.ConstFrozen, compact(cc.file()))
	switch {
	case same:
		c.Violate("config:mainnet-frozen-entry-unresolved", detail, cc)
	case isMainAlias(cc):
		c.Violate("config:mainnet-frozen-list-overridden", detail, cc)
	default:
		c.Violate("config:unknown-activenet-mainnet-identity-frozen-list-overridden", detail, cc)
	}
}

// isMainAlias only selects the violation SIGNATURE (which defect class a
// refuted case belongs to); whether a case is a violation never depends on it.
func isMainAlias(cc *cfgCase) bool {
	switch strings.ToLower(cc.Name) {
	case "", "mainnet", "main":
		return true
	}
	return false
}

func compact(b []byte) string {
	var out bytes.Buffer
	if json.Compact(&out, b) != nil {
		return string(b)
	}
	return out.String()
}

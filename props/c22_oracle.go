package props

// C22 oracle: canonical views of the CR committee state and field-level diffs.
//
// Two views of a *state.Committee are compared:
//   live — the three exported frames (KeyFrame, StateKeyFrame, ProposalKeyFrame)
//          read in memory, every exported field, maps as maps;
//   ser  — the same frames pushed through the package's own Checkpoint
//          Serialize/Deserialize and then read field by field.
// Nothing here models the committee: the reference state always comes from a
// second real instance that processed the blocks forward only.

import (
	"bytes"
	"encoding/hex"
	"fmt"
	"reflect"
	"sort"
	"strconv"

	crstate "github.com/elastos/Elastos.ELA/cr/state"
)

// ---------- canonical bytes (fast equality) ----------

// c22Canon writes a deterministic encoding of v: map entries sorted by key,
// nil and empty maps/slices identical, unexported fields skipped.
func c22Canon(w *bytes.Buffer, v reflect.Value) {
	switch v.Kind() {
	case reflect.Ptr, reflect.Interface:
		if v.IsNil() {
			w.WriteByte(0)
			return
		}
		w.WriteByte(1)
		c22Canon(w, v.Elem())
	case reflect.Struct:
		t := v.Type()
		for i := 0; i < v.NumField(); i++ {
			if t.Field(i).PkgPath != "" { // unexported
				continue
			}
			c22Canon(w, v.Field(i))
		}
	case reflect.Map:
		n := v.Len()
		c22CanonLen(w, n)
		if n == 0 {
			return
		}
		type kv struct {
			k string
			v reflect.Value
		}
		kvs := make([]kv, 0, n)
		it := v.MapRange()
		for it.Next() {
			kvs = append(kvs, kv{c22KeyString(it.Key()), it.Value()})
		}
		sort.Slice(kvs, func(i, j int) bool { return kvs[i].k < kvs[j].k })
		for _, e := range kvs {
			c22CanonLen(w, len(e.k))
			w.WriteString(e.k)
			c22Canon(w, e.v)
		}
	case reflect.Slice:
		n := v.Len()
		c22CanonLen(w, n)
		if v.Type().Elem().Kind() == reflect.Uint8 {
			if n > 0 {
				w.Write(v.Bytes())
			}
			return
		}
		for i := 0; i < n; i++ {
			c22Canon(w, v.Index(i))
		}
	case reflect.Array:
		n := v.Len()
		if v.Type().Elem().Kind() == reflect.Uint8 {
			for i := 0; i < n; i++ {
				w.WriteByte(byte(v.Index(i).Uint()))
			}
			return
		}
		for i := 0; i < n; i++ {
			c22Canon(w, v.Index(i))
		}
	case reflect.String:
		s := v.String()
		c22CanonLen(w, len(s))
		w.WriteString(s)
	case reflect.Bool:
		if v.Bool() {
			w.WriteByte(1)
		} else {
			w.WriteByte(0)
		}
	case reflect.Int, reflect.Int8, reflect.Int16, reflect.Int32, reflect.Int64:
		c22CanonU64(w, uint64(v.Int()))
	case reflect.Uint, reflect.Uint8, reflect.Uint16, reflect.Uint32, reflect.Uint64:
		c22CanonU64(w, v.Uint())
	case reflect.Float32, reflect.Float64:
		w.WriteString(strconv.FormatFloat(v.Float(), 'g', -1, 64))
		w.WriteByte(0)
	default:
		// funcs, chans: not part of the state
	}
}

func c22CanonLen(w *bytes.Buffer, n int) { c22CanonU64(w, uint64(n)) }
func c22CanonU64(w *bytes.Buffer, u uint64) {
	var b [8]byte
	for i := 0; i < 8; i++ {
		b[i] = byte(u >> (8 * uint(i)))
	}
	w.Write(b[:])
}

func c22KeyString(k reflect.Value) string {
	switch k.Kind() {
	case reflect.String:
		return k.String()
	case reflect.Array:
		if k.Type().Elem().Kind() == reflect.Uint8 {
			b := make([]byte, k.Len())
			for i := range b {
				b[i] = byte(k.Index(i).Uint())
			}
			return hex.EncodeToString(b)
		}
	case reflect.Int, reflect.Int8, reflect.Int16, reflect.Int32, reflect.Int64:
		return fmt.Sprintf("%020d", k.Int())
	case reflect.Uint, reflect.Uint8, reflect.Uint16, reflect.Uint32, reflect.Uint64:
		return fmt.Sprintf("%020d", k.Uint())
	}
	return fmt.Sprint(k.Interface())
}

// ---------- structural diff ----------

// c22Path is a lazily rendered path (nothing is formatted while values agree).
type c22Path struct {
	parent *c22Path
	seg    string
	key    reflect.Value // map key, rendered on demand
	idx    int           // slice index when seg == "" and key is invalid
}

func (p *c22Path) String() string {
	if p == nil {
		return ""
	}
	if p.seg != "" {
		return p.parent.String() + p.seg
	}
	if p.key.IsValid() {
		return p.parent.String() + "[" + c22KeyString(p.key) + "]"
	}
	return p.parent.String() + "[" + strconv.Itoa(p.idx) + "]"
}

func c22Scalar(v reflect.Value) string {
	switch v.Kind() {
	case reflect.String:
		return v.String()
	case reflect.Bool:
		return strconv.FormatBool(v.Bool())
	case reflect.Int, reflect.Int8, reflect.Int16, reflect.Int32, reflect.Int64:
		return strconv.FormatInt(v.Int(), 10)
	case reflect.Uint, reflect.Uint8, reflect.Uint16, reflect.Uint32, reflect.Uint64:
		return strconv.FormatUint(v.Uint(), 10)
	case reflect.Float32, reflect.Float64:
		return strconv.FormatFloat(v.Float(), 'g', -1, 64)
	}
	return "?"
}

func c22BytesOf(v reflect.Value) []byte {
	if v.Kind() == reflect.Slice {
		if v.Len() == 0 {
			return nil
		}
		return v.Bytes()
	}
	b := make([]byte, v.Len())
	for i := range b {
		b[i] = byte(v.Index(i).Uint())
	}
	return b
}

// c22DiffValues walks got and want together.  sig is "<innermost struct
// type>.<field>" of the field that (transitively) holds the value; a map or
// slice entry present on one side only is reported once, under the container's
// signature.  nil and empty maps/slices are the same state.
func c22DiffValues(out *[]c22DiffItem, got, want reflect.Value, path *c22Path, sig string) {
	switch got.Kind() {
	case reflect.Ptr, reflect.Interface:
		switch {
		case got.IsNil() && want.IsNil():
		case got.IsNil():
			*out = append(*out, c22DiffItem{Sig: sig, Path: path.String(), Got: "<nil>", Want: "present"})
		case want.IsNil():
			*out = append(*out, c22DiffItem{Sig: sig, Path: path.String(), Got: "present", Want: "<nil>"})
		default:
			c22DiffValues(out, got.Elem(), want.Elem(), path, sig)
		}
	case reflect.Struct:
		t := got.Type()
		for i := 0; i < got.NumField(); i++ {
			f := t.Field(i)
			if f.PkgPath != "" {
				continue
			}
			if f.Anonymous && f.Type.Kind() == reflect.Struct {
				c22DiffValues(out, got.Field(i), want.Field(i), path, sig)
				continue
			}
			c22DiffValues(out, got.Field(i), want.Field(i), &c22Path{parent: path, seg: "." + f.Name}, t.Name()+"."+f.Name)
		}
	case reflect.Map:
		if got.Len() == 0 && want.Len() == 0 {
			return
		}
		it := got.MapRange()
		for it.Next() {
			wv := reflect.Value{}
			if want.Len() > 0 {
				wv = want.MapIndex(it.Key())
			}
			p := &c22Path{parent: path, key: it.Key()}
			if !wv.IsValid() {
				*out = append(*out, c22DiffItem{Sig: sig, Path: p.String(), Got: "present", Want: "absent"})
				continue
			}
			c22DiffValues(out, it.Value(), wv, p, sig)
		}
		it = want.MapRange()
		for it.Next() {
			gv := reflect.Value{}
			if got.Len() > 0 {
				gv = got.MapIndex(it.Key())
			}
			if !gv.IsValid() {
				p := &c22Path{parent: path, key: it.Key()}
				*out = append(*out, c22DiffItem{Sig: sig, Path: p.String(), Got: "absent", Want: "present"})
			}
		}
	case reflect.Slice, reflect.Array:
		if got.Type().Elem().Kind() == reflect.Uint8 {
			gb, wb := c22BytesOf(got), c22BytesOf(want)
			if !bytes.Equal(gb, wb) {
				*out = append(*out, c22DiffItem{Sig: sig, Path: path.String(), Got: hex.EncodeToString(gb), Want: hex.EncodeToString(wb)})
			}
			return
		}
		n := got.Len()
		if want.Len() < n {
			n = want.Len()
		}
		for i := 0; i < n; i++ {
			c22DiffValues(out, got.Index(i), want.Index(i), &c22Path{parent: path, idx: i}, sig)
		}
		for i := n; i < got.Len(); i++ {
			*out = append(*out, c22DiffItem{Sig: sig, Path: (&c22Path{parent: path, idx: i}).String(), Got: "present", Want: "absent"})
		}
		for i := n; i < want.Len(); i++ {
			*out = append(*out, c22DiffItem{Sig: sig, Path: (&c22Path{parent: path, idx: i}).String(), Got: "absent", Want: "present"})
		}
	case reflect.String, reflect.Bool, reflect.Int, reflect.Int8, reflect.Int16, reflect.Int32, reflect.Int64,
		reflect.Uint, reflect.Uint8, reflect.Uint16, reflect.Uint32, reflect.Uint64, reflect.Float32, reflect.Float64:
		g, w := c22Scalar(got), c22Scalar(want)
		if g != w {
			*out = append(*out, c22DiffItem{Sig: sig, Path: path.String(), Got: g, Want: w})
		}
	}
}

// c22Frames is the full committee state as the package defines it.
type c22Frames struct {
	KeyFrame         *crstate.KeyFrame
	StateKeyFrame    *crstate.StateKeyFrame
	ProposalKeyFrame *crstate.ProposalKeyFrame
}

func c22LiveFrames(c *crstate.Committee) c22Frames {
	return c22Frames{&c.KeyFrame, &c.GetState().StateKeyFrame, &c.GetProposalManager().ProposalKeyFrame}
}

// c22SerBytes serialises the committee state with the package's own Checkpoint.
func c22SerBytes(c *crstate.Committee, height uint32) ([]byte, error) {
	cp := &crstate.Checkpoint{
		KeyFrame:         c.KeyFrame,
		StateKeyFrame:    c.GetState().StateKeyFrame,
		ProposalKeyFrame: c.GetProposalManager().ProposalKeyFrame,
		Height:           height,
	}
	buf := new(bytes.Buffer)
	if err := cp.Serialize(buf); err != nil {
		return nil, err
	}
	return buf.Bytes(), nil
}

func c22SerFrames(b []byte) (c22Frames, error) {
	cp := &crstate.Checkpoint{}
	if err := cp.Deserialize(bytes.NewReader(b)); err != nil {
		return c22Frames{}, err
	}
	return c22Frames{&cp.KeyFrame, &cp.StateKeyFrame, &cp.ProposalKeyFrame}, nil
}

func (f c22Frames) canon() []byte {
	w := new(bytes.Buffer)
	c22Canon(w, reflect.ValueOf(f.KeyFrame))
	c22Canon(w, reflect.ValueOf(f.StateKeyFrame))
	c22Canon(w, reflect.ValueOf(f.ProposalKeyFrame))
	return w.Bytes()
}

// c22DiffFrames gives the field-level differences between two frame sets.
func c22DiffFrames(got, want c22Frames) []c22DiffItem {
	var out []c22DiffItem
	c22DiffValues(&out, reflect.ValueOf(got.KeyFrame).Elem(), reflect.ValueOf(want.KeyFrame).Elem(), &c22Path{seg: "KeyFrame"}, "KeyFrame")
	c22DiffValues(&out, reflect.ValueOf(got.StateKeyFrame).Elem(), reflect.ValueOf(want.StateKeyFrame).Elem(), &c22Path{seg: "StateKeyFrame"}, "StateKeyFrame")
	c22DiffValues(&out, reflect.ValueOf(got.ProposalKeyFrame).Elem(), reflect.ValueOf(want.ProposalKeyFrame).Elem(), &c22Path{seg: "ProposalKeyFrame"}, "ProposalKeyFrame")
	sort.Slice(out, func(i, j int) bool { return out[i].Path < out[j].Path })
	return out
}

// c22Snap is the comparable summary of one committee instance at one height.
type c22Snap struct {
	live []byte // canonical bytes of the in-memory frames
	ser  []byte // canonical bytes of Deserialize(Serialize(frames))
	raw  []byte // the checkpoint bytes themselves (kept to decode the reference lazily)
}

func c22TakeSnap(c *crstate.Committee, height uint32) (c22Snap, error) {
	var s c22Snap
	s.live = c22LiveFrames(c).canon()
	raw, err := c22SerBytes(c, height)
	if err != nil {
		return s, err
	}
	s.raw = raw
	fr, err := c22SerFrames(raw)
	if err != nil {
		return s, err
	}
	s.ser = fr.canon()
	return s, nil
}

func (a c22Snap) equal(b c22Snap) bool {
	return bytes.Equal(a.live, b.live) && bytes.Equal(a.ser, b.ser)
}

// c22DiffItem is one field-level difference.
type c22DiffItem struct {
	Sig  string `json:"sig"`  // "<Type>.<Field>"
	Path string `json:"path"` // full path with map keys
	Got  string `json:"got"`  // instance under test
	Want string `json:"want"` // forward-only reference
	View string `json:"view"` // live | ser | live+ser
}

// c22DiffCommittee gives the field-level differences between the instance under
// test and the reference instance, over both views.
func c22DiffCommittee(got, want *crstate.Committee, height uint32) ([]c22DiffItem, error) {
	live := c22DiffFrames(c22LiveFrames(got), c22LiveFrames(want))
	for i := range live {
		live[i].View = "live"
	}
	gb, err := c22SerBytes(got, height)
	if err != nil {
		return live, err
	}
	wb, err := c22SerBytes(want, height)
	if err != nil {
		return live, err
	}
	gf, err := c22SerFrames(gb)
	if err != nil {
		return live, fmt.Errorf("decode checkpoint of instance under test: %v", err)
	}
	wf, err := c22SerFrames(wb)
	if err != nil {
		return live, fmt.Errorf("decode checkpoint of reference: %v", err)
	}
	ser := c22DiffFrames(gf, wf)
	idx := map[string]int{}
	for i, it := range live {
		idx[it.Path] = i
	}
	for _, it := range ser {
		if i, ok := idx[it.Path]; ok {
			live[i].View = "live+ser"
			continue
		}
		it.View = "ser"
		live = append(live, it)
	}
	sort.Slice(live, func(i, j int) bool { return live[i].Path < live[j].Path })
	return live, nil
}

// c22GroupBySig groups differences by signature, keeping a few examples each.
func c22GroupBySig(items []c22DiffItem) (sigs []string, by map[string][]c22DiffItem) {
	by = map[string][]c22DiffItem{}
	for _, it := range items {
		by[it.Sig] = append(by[it.Sig], it)
	}
	for s := range by {
		sigs = append(sigs, s)
	}
	sort.Strings(sigs)
	return
}

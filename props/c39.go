package props

import (
	"bytes"
	"fmt"
	"math"
	"math/rand"

	"github.com/elastos/Elastos.ELA/common"
	"github.com/elastos/Elastos.ELA/core"
	pg "github.com/elastos/Elastos.ELA/core/contract/program"
	common2 "github.com/elastos/Elastos.ELA/core/types/common"
	"github.com/elastos/Elastos.ELA/core/types/functions"
	"github.com/elastos/Elastos.ELA/core/types/interfaces"
	"github.com/elastos/Elastos.ELA/core/types/outputpayload"
	"github.com/elastos/Elastos.ELA/elanet/bloom"
	"github.com/elastos/Elastos.ELA/p2p/msg"

	"verif/kit"
	"verif/kit/node"
)

// C39 — bloom filters have no false negatives.
//
// A: set membership. Filters made by bloom.NewFilter and filters made by an
//    independent reference client (own murmur3 + BIP37 bit addressing), shipped
//    as a serialized FilterLoad through bloom.TxFilter.Load (the server path).
//    Everything added (bytes, hashes, outpoints; by either side) must match;
//    bit arrays of the real filter and the reference must be identical.
// B: transaction protocol. Chains A pays watched -> B spends A -> C spends B
//    (+ unrelated txs) through MatchTxAndUpdate, checked against ground truth
//    (what was watched) and against the bit-exact protocol model.
// L: lifecycle. Random interleavings of NewFilter / LoadFilter / Reload / Unload /
//    Add* / IsLoaded / Matches* / MatchTxAndUpdate on ONE Filter instance with the
//    model replayed alongside (blank -> Reload(populated), populated ->
//    Reload(blank) -> Reload(populated), Unload -> Reload, ...).
// O: order. One tx set presented in several orders and repeatedly (child before
//    parent, retests after the filter was updated by another tx's match, after
//    filteradd, after a new filterload) through bloom.TxFilter, the server's
//    filter.Filter for every filter type embedding it, and filter.NewMerkleBlock.
//    L and O live in c39_seq.go.

func init() {
	kit.Register(&kit.Spec{
		ID:               "C39",
		Rule:             "A: filters over element counts 0..5000, fp rates 1e-12..2 (log-uniform + edges), tweaks {0,1,2^31,2^32-1,random}, made by NewFilter or loaded from a reference-built FilterLoad with size in {0,1,2,..,36000} and hash count in {0,1,..,50}; elements of length 0..520, hashes, outpoints; B: tx chains with watched program hashes / txids / outpoints, output indexes up to 300, normal and side-chain (tweak 2^32-1, tx-type list) filters; L: call sequences (6..36 calls after the constructor, three scripted openings + random) on one bloom.Filter instance over messages built by the reference client (size 0..2000, k 0..20); O: a 10-tx family (parent/child/grand-child, unrelated, matching only after filteradd) presented in 7 scripted orders + a random tail of presentations, filteradds, re-loads and merkle blocks through 8 server-side filter objects; distinct (L, O) = digest of the call trace, non-trivial = at least one must-match answer was decided by set bits. distinct (A, B) = distinct (filter parameters, element set digest); non-trivial = the filter has a non-empty bit array and at least one hash function, i.e. membership is really decided by bits",
		Shards:           func(tier string) int { return 8 },
		Run:              runC39,
		FatalIsViolation: true,
		Require: []string{"A_filters_newfilter", "A_filters_loaded", "A_elements_added", "A_membership_checks", "A_true_negatives",
			"A_bitarrays_compared", "A_limit_size0", "A_limit_size1", "A_limit_sizemax", "A_limit_k0", "A_limit_k1", "A_limit_kmax",
			"A_tweak_zero", "A_tweak_max", "A_elemlen_0", "A_elemlen_520", "B_chains", "B_txs_matched", "B_txs_not_matched",
			"B_spender_matched_via_inserted_outpoint", "B_sidechain_filters", "B_sidechain_type_matches", "B_big_index_outputs",
			"lifecycle_sequences", "lifecycle_ops", "lifecycle_reload", "lifecycle_unload", "lifecycle_add", "lifecycle_isloaded", "lifecycle_matchtx", "lifecycle_matchtx_must_match",
			"lifecycle_reload_on_blank_instance", "lifecycle_reload_on_blank_instance:newfilter", "lifecycle_reload_on_blank_instance:loadfilter-blank",
			"lifecycle_reload_on_blank_instance:reload-blank", "lifecycle_reload_on_blank_instance:newfilter+unload", "lifecycle_unload_then_reload",
			"lifecycle_reload_populated_over_populated", "lifecycle_must_match_checks", "lifecycle_true_negatives",
			"order_sequences", "order_presentations", "order_must_match", "order_not_matched", "order_child_before_parent_then_retested",
			"order_child_before_parent_then_retested_must_match", "order_parent_before_child", "order_retest_after_filter_update",
			"order_must_match:retest-after-filter-update", "order_must_match:retest-after-filteradd", "order_must_match:retest-after-filterload",
			"order_must_match:retest-of-matched-tx", "order_class:retest-unchanged-filter", "order_filteradd", "order_filterload_again", "order_merkleblock_presentations",
			"order_via:bloom.TxFilter", "order_via:filter.Filter/FTBloom", "order_via:filter.Filter/FTDPOS", "order_via:filter.Filter/FTCustomID"},
		Assumptions: []string{"the reference client (MurmurHash3 x86_32 + BIP37 bit addressing re-stated in props/c39_model.go) is what SPV clients implement",
			"the filter protocol is the one ELA nodes implement: outpoints of matching outputs are always inserted (FilterLoad.Flags is ignored), side-chain filters (tweak 2^32-1) match by tx type or paid program hash only and are never updated"},
	})
}

func logUniform(r *rand.Rand, lo, hi float64) float64 {
	return math.Exp(math.Log(lo) + r.Float64()*(math.Log(hi)-math.Log(lo)))
}

var c39ElemLens = []int{0, 1, 2, 3, 4, 5, 7, 8, 20, 21, 31, 32, 33, 34, 63, 64, 65, 255, 256, 519, 520}

func c39Elem(r *rand.Rand) []byte {
	var n int
	if r.Intn(2) == 0 {
		n = c39ElemLens[r.Intn(len(c39ElemLens))]
	} else {
		n = r.Intn(521)
	}
	b := make([]byte, n)
	r.Read(b)
	return b
}

func c39Tweak(r *rand.Rand, i int) uint32 {
	switch i % 6 {
	case 0:
		return 0
	case 1:
		return math.MaxUint32
	case 2:
		return 1
	case 3:
		return 1 << 31
	default:
		return r.Uint32()
	}
}

// filterTx builds an unsigned transaction the way the filter sees it and its
// plain-bytes twin for the model.
func filterTx(t common2.TxType, ver common2.TransactionVersion, ins []common2.OutPoint, outs []common.Uint168, salt uint32) (interfaces.Transaction, *refTx) {
	pl, _ := interfaces.GetPayload(t, 0)
	var inputs []*common2.Input
	rt := &refTx{txType: byte(t)}
	for _, op := range ins {
		inputs = append(inputs, &common2.Input{Previous: op, Sequence: 0})
		rt.inputs = append(rt.inputs, refOutPoint(op.TxID, op.Index))
	}
	var outputs []*common2.Output
	for i, ph := range outs {
		outputs = append(outputs, &common2.Output{AssetID: core.ELAAssetID, Value: common.Fixed64(1000 + i), ProgramHash: ph,
			Type: common2.OTNone, Payload: &outputpayload.DefaultOutput{}})
		rt.outs = append(rt.outs, append([]byte(nil), ph[:]...))
	}
	tx := functions.CreateTransaction(ver, t, 0, pl, []*common2.Attribute{}, inputs, outputs, salt, []*pg.Program{})
	rt.hash = tx.Hash()
	return tx, rt
}

func randPH(r *rand.Rand) common.Uint168 {
	var p common.Uint168
	r.Read(p[:])
	p[0] = 0x21
	return p
}

func randOutPoint(r *rand.Rand) common2.OutPoint {
	var op common2.OutPoint
	r.Read(op.TxID[:])
	op.Index = uint16(r.Intn(4))
	if r.Intn(8) == 0 {
		op.Index = uint16(r.Intn(65536))
	}
	return op
}

// c39FilterTxTypes are tx types whose default payload serializes (so Hash works).
func c39FilterTxTypes() []common2.TxType {
	var ok []common2.TxType
	for _, t := range []common2.TxType{common2.CoinBase, common2.TransferAsset, common2.Record, common2.RegisterAsset, common2.SideChainPow,
		common2.WithdrawFromSideChain, common2.TransferCrossChainAsset, common2.ReturnDepositCoin, common2.NextTurnDPOSInfo} {
		t := t
		p, _, _ := kit.Guard(func() {
			tx, _ := filterTx(t, common2.TxVersion09, nil, []common.Uint168{{}}, 0)
			buf := new(bytes.Buffer)
			if err := tx.Serialize(buf); err != nil {
				panic(err)
			}
		})
		if !p {
			ok = append(ok, t)
		}
	}
	return ok
}

func runC39(c *kit.Ctx) {
	node.InitGlobals(c.WorkDir)
	r := c.Rand("c39")

	// ================= A: set membership =================
	nA := c.N(250, 6250) // per shard; x8 shards = 2k / 50k filters
	for i := 0; i < nA; i++ {
		tweak := c39Tweak(r, i)
		if tweak == 0 {
			c.Inc("A_tweak_zero")
		}
		if tweak == math.MaxUint32 {
			c.Inc("A_tweak_max")
		}
		// elements to insert
		var nElem int
		switch r.Intn(5) {
		case 0:
			nElem = 1 + r.Intn(5)
		case 1:
			nElem = 1 + r.Intn(100)
		case 2:
			nElem = 1 + r.Intn(1000)
		case 3:
			nElem = []int{1, 2, 47, 48, 49, 5000, 4999}[r.Intn(7)]
		default:
			nElem = 1 + r.Intn(5000)
		}
		if c.Quick() && nElem > 1500 && i%8 != 0 {
			nElem = 1 + nElem%1500
		}
		fromLoad := i%2 == 1
		var f *bloom.Filter // the real filter
		var ref *refBloom
		var id string
		if !fromLoad {
			// declared capacity: equal, smaller (overfilled) or larger than what is inserted; 0 is legal input too
			capN := uint32(nElem)
			switch r.Intn(6) {
			case 0:
				capN = uint32(1 + r.Intn(nElem))
			case 1:
				capN = uint32(nElem + r.Intn(5000))
			case 2:
				if r.Intn(4) == 0 {
					capN = 0
				}
			}
			var fp float64
			switch r.Intn(8) {
			case 0:
				fp = []float64{0, 1e-12, 1e-9, 0.99, 1, 2, 0.5, -1}[r.Intn(8)]
			default:
				fp = logUniform(r, 1e-9, 0.99)
			}
			c.Begin("A %d NewFilter(%d,%d,%g) nElem=%d", i, capN, tweak, fp, nElem)
			p, pv, _ := kit.Guard(func() { f = bloom.NewFilter(capN, tweak, fp) })
			if p {
				c.Violate("panic:bloom.NewFilter", fmt.Sprintf("NewFilter(%d,%d,%g) panicked: %v", capN, tweak, fp, pv), map[string]interface{}{"elements": capN, "tweak": tweak, "fprate": fp})
				continue
			}
			m := f.GetFilterLoadMsg()
			if len(m.Filter) > bloom.MaxFilterLoadFilterSize || m.HashFuncs > bloom.MaxFilterLoadHashFuncs {
				c.Violate("newfilter-exceeds-protocol-limits", fmt.Sprintf("NewFilter(%d,%d,%g) made size=%d k=%d", capN, tweak, fp, len(m.Filter), m.HashFuncs), nil)
			}
			ref = newRefBloom(len(m.Filter), m.HashFuncs, m.Tweak)
			c.Inc("A_filters_newfilter")
			id = fmt.Sprintf("A:new:%d:%d:%g:%d", capN, tweak, fp, nElem)
		} else {
			var size int
			switch r.Intn(10) {
			case 0:
				size = 0
			case 1:
				size = 1
			case 2:
				size = bloom.MaxFilterLoadFilterSize
			case 3:
				size = 2 + r.Intn(8)
			case 4, 5:
				size = 1 + r.Intn(bloom.MaxFilterLoadFilterSize)
			default:
				size = 1 + r.Intn(2000)
			}
			var k uint32
			switch r.Intn(6) {
			case 0:
				k = 0
			case 1:
				k = 1
			case 2:
				k = bloom.MaxFilterLoadHashFuncs
			default:
				k = uint32(1 + r.Intn(bloom.MaxFilterLoadHashFuncs))
			}
			ref = newRefBloom(size, k, tweak)
			id = fmt.Sprintf("A:load:%d:%d:%d:%d", size, k, tweak, nElem)
			c.Inc("A_filters_loaded")
		}
		switch len(ref.bits) {
		case 0:
			c.Inc("A_limit_size0")
		case 1:
			c.Inc("A_limit_size1")
		case bloom.MaxFilterLoadFilterSize:
			c.Inc("A_limit_sizemax")
		}
		switch ref.k {
		case 0:
			c.Inc("A_limit_k0")
		case 1:
			c.Inc("A_limit_k1")
		case bloom.MaxFilterLoadHashFuncs:
			c.Inc("A_limit_kmax")
		}
		nontrivial := len(ref.bits) > 0 && ref.k > 0
		// bound the hashing work of one case
		if work := nElem * int(ref.k+1); work > 60000 {
			nElem = 60000 / int(ref.k+1)
		}

		// element list; a prefix is inserted by the client (reference) before loading
		type elem struct {
			kind int // 0 bytes, 1 hash, 2 outpoint
			data []byte
			hash common.Uint256
			op   common2.OutPoint
		}
		elems := make([]elem, nElem)
		for j := range elems {
			e := &elems[j]
			e.kind = r.Intn(4) % 3
			switch e.kind {
			case 0:
				e.data = c39Elem(r)
				if len(e.data) == 0 {
					c.Inc("A_elemlen_0")
				}
				if len(e.data) == 520 {
					c.Inc("A_elemlen_520")
				}
			case 1:
				r.Read(e.hash[:])
				e.data = e.hash[:]
			default:
				e.op = randOutPoint(r)
				e.data = refOutPoint(e.op.TxID, e.op.Index)
			}
		}
		clientSide := 0
		if fromLoad {
			clientSide = nElem - r.Intn(nElem/2+1)
			for j := 0; j < clientSide; j++ {
				ref.add(elems[j].data)
			}
			fl := &msg.FilterLoad{Filter: append([]byte(nil), ref.bits...), HashFuncs: ref.k, Tweak: ref.tweak, Flags: uint8(r.Intn(3))}
			buf := new(bytes.Buffer)
			if err := fl.Serialize(buf); err != nil {
				c.Inconclusive("FilterLoad.Serialize: %v", err)
				return
			}
			// what bloom.TxFilter.Load does with the bytes of a filterload message
			var wire msg.FilterLoad
			if err := wire.Deserialize(bytes.NewReader(buf.Bytes())); err != nil {
				c.Violate("filterload-within-limits-rejected", fmt.Sprintf("FilterLoad.Deserialize rejected size=%d k=%d: %v", len(ref.bits), ref.k, err), nil)
				continue
			}
			f = bloom.LoadFilter(&wire)
		}
		matches := func(e *elem) bool {
			switch e.kind {
			case 2:
				return f.MatchesOutPoint(&e.op)
			default:
				return f.Matches(e.data)
			}
		}
		add := func(e *elem) {
			switch e.kind {
			case 1:
				f.AddHash(&e.hash)
			case 2:
				f.AddOutPoint(&e.op)
			default:
				f.Add(e.data)
			}
		}
		c.Begin("A %d %s", i, id)
		c.Case(id, nontrivial)
		dead := false
		// (1) what the client inserted must match on the node side
		for j := 0; j < clientSide && !dead; j++ {
			e := &elems[j]
			var ok bool
			p, pv, _ := kit.Guard(func() { ok = matches(e) })
			c.Inc("A_membership_checks")
			if p {
				c.Violate(c39PanicSig(ref, "Matches"), fmt.Sprintf("Matches panicked on a filter loaded from FilterLoad{size=%d, hashFuncs=%d, tweak=%d}: %v", len(ref.bits), ref.k, ref.tweak, pv),
					map[string]interface{}{"size": len(ref.bits), "hash_funcs": ref.k, "tweak": ref.tweak})
				dead = true // the filter mutex is left locked by the panic
				break
			}
			if !ok {
				c.Violate("false-negative:client-built-filter", fmt.Sprintf("element %x (len %d) inserted by the reference client into FilterLoad{size=%d,k=%d,tweak=%d} does not match on the node", trunc(e.data), len(e.data), len(ref.bits), ref.k, ref.tweak),
					map[string]interface{}{"size": len(ref.bits), "hash_funcs": ref.k, "tweak": ref.tweak, "element_hex": fmt.Sprintf("%x", e.data)})
			}
		}
		// (2) node-side inserts: immediately and finally matching
		for j := clientSide; j < nElem && !dead; j++ {
			e := &elems[j]
			var ok bool
			p, pv, _ := kit.Guard(func() { add(e); ok = matches(e) })
			c.Inc("A_elements_added")
			c.Inc("A_membership_checks")
			if p {
				c.Violate(c39PanicSig(ref, "Add"), fmt.Sprintf("Add/Matches panicked on filter{size=%d, hashFuncs=%d, tweak=%d}: %v", len(ref.bits), ref.k, ref.tweak, pv),
					map[string]interface{}{"size": len(ref.bits), "hash_funcs": ref.k, "tweak": ref.tweak})
				dead = true
				break
			}
			ref.add(e.data)
			if !ok {
				c.Violate("false-negative:after-add", fmt.Sprintf("Matches false right after Add (kind %d, len %d) on filter{size=%d,k=%d,tweak=%d}", e.kind, len(e.data), len(ref.bits), ref.k, ref.tweak),
					map[string]interface{}{"size": len(ref.bits), "hash_funcs": ref.k, "tweak": ref.tweak, "element_hex": fmt.Sprintf("%x", e.data)})
			}
		}
		if dead {
			continue
		}
		for j := range elems {
			c.Inc("A_membership_checks")
			if !matches(&elems[j]) {
				c.Violate("false-negative:final", fmt.Sprintf("element %d of %d no longer matches after later inserts, filter{size=%d,k=%d,tweak=%d}", j, nElem, len(ref.bits), ref.k, ref.tweak),
					map[string]interface{}{"size": len(ref.bits), "hash_funcs": ref.k, "tweak": ref.tweak})
				break
			}
		}
		// (3) bit-exact agreement with the reference client
		got := f.GetFilterLoadMsg().Filter
		c.Inc("A_bitarrays_compared")
		if !bytes.Equal(got, ref.bits) {
			// not a false negative by itself (the membership checks above decide that); recorded so that a
			// disagreement between node and reference client is visible in the evidence
			c.Inc("A_bitarray_differs_from_reference")
			c.Note("filter{size=%d,k=%d,tweak=%d} after %d inserts: node bit array != reference client bit array", len(ref.bits), ref.k, ref.tweak, nElem)
		}
		// (4) non-members: node and reference agree, and the filter discriminates
		for j := 0; j < 20; j++ {
			e := elem{data: c39Elem(r)}
			g := matches(&e)
			w := ref.contains(e.data)
			if !g {
				c.Inc("A_true_negatives")
			}
			if !g && w {
				// the reference client would count on a match here (all its bits are set): a false negative of the node's addressing
				c.Violate("false-negative:bits-set-but-no-match", fmt.Sprintf("filter{size=%d,k=%d,tweak=%d}: every bit the reference client computes for this element (len %d) is set, the node says no match", len(ref.bits), ref.k, ref.tweak, len(e.data)), nil)
			} else if g && !w {
				c.Inc("A_extra_positive_vs_reference")
			}
		}
		if i < 1 {
			c.Sample(map[string]interface{}{"kind": "A", "from_filterload": fromLoad, "size_bytes": len(ref.bits), "hash_funcs": ref.k, "tweak": ref.tweak, "elements": nElem, "client_side_inserts": clientSide})
		}
	}

	// ================= B: transaction protocol =================
	types := c39FilterTxTypes()
	c.Count("max:B_tx_types_usable", 0)
	c.Max("max:B_tx_types_usable", int64(len(types)))
	nB := c.N(150, 3000)
	for i := 0; i < nB; i++ {
		sidechain := i%4 == 3
		tweak := r.Uint32()
		if sidechain {
			tweak = math.MaxUint32
		} else if tweak == math.MaxUint32 {
			tweak = 7
		}
		if i%16 == 0 {
			tweak = 0
		}
		// filter geometry
		var size int
		var k uint32
		switch r.Intn(5) {
		case 0:
			size, k = 1+r.Intn(4), uint32(1+r.Intn(3)) // tiny: many false positives
		case 1:
			size, k = 16+r.Intn(64), uint32(1+r.Intn(8))
		default:
			size, k = 200+r.Intn(4000), uint32(3+r.Intn(20))
		}
		if sidechain && r.Intn(4) == 0 {
			size = 0 // types-only side-chain filter
		}
		ref := newRefBloom(size, k, tweak)
		var txTypes []common2.TxType
		var refTypes []byte
		if sidechain && r.Intn(3) != 0 {
			for _, t := range types {
				if r.Intn(3) == 0 {
					txTypes = append(txTypes, t)
					refTypes = append(refTypes, byte(t))
				}
			}
		}
		// watched items (ground truth)
		nW := 1 + r.Intn(4)
		watched := map[common.Uint168]bool{}
		var wl []common.Uint168
		for j := 0; j < nW; j++ {
			p := randPH(r)
			watched[p] = true
			wl = append(wl, p)
			ref.add(p[:])
		}
		pickOuts := func(n int, forceWatched int) []common.Uint168 {
			outs := make([]common.Uint168, n)
			for j := range outs {
				outs[j] = randPH(r)
			}
			if forceWatched >= 0 {
				outs[forceWatched] = wl[r.Intn(len(wl))]
			}
			return outs
		}
		ver := common2.TxVersion09
		if i%2 == 0 {
			ver = common2.TxVersionDefault
		}
		tt := func() common2.TxType { return types[r.Intn(len(types))] }

		type step struct {
			tx       interfaces.Transaction
			rt       *refTx
			must     bool // ground truth: the protocol requires a match
			why      string
			viaInput bool
		}
		var steps []step
		// A pays a watched program hash at index wi (sometimes a big index)
		nOutA := 1 + r.Intn(4)
		if i%10 == 0 {
			nOutA = 257 + r.Intn(44)
			c.Inc("B_big_index_outputs")
		}
		wi := r.Intn(nOutA)
		if nOutA > 256 {
			wi = 256 + r.Intn(nOutA-256)
		}
		txA, rtA := filterTx(tt(), ver, []common2.OutPoint{randOutPoint(r)}, pickOuts(nOutA, wi), r.Uint32())
		steps = append(steps, step{txA, rtA, true, "A pays a watched program hash", false})
		// unrelated tx
		txD, rtD := filterTx(tt(), ver, []common2.OutPoint{randOutPoint(r), randOutPoint(r)}, pickOuts(1+r.Intn(3), -1), r.Uint32())
		steps = append(steps, step{txD, rtD, false, "unrelated", false})
		// B spends A's watched output; pays watched again (change) in half of the cases
		bPaysWatched := r.Intn(2) == 0
		nOutB := 1 + r.Intn(3)
		bw := -1
		if bPaysWatched {
			bw = r.Intn(nOutB)
		}
		insB := []common2.OutPoint{randOutPoint(r), {TxID: txA.Hash(), Index: uint16(wi)}}
		r.Shuffle(len(insB), func(a, b int) { insB[a], insB[b] = insB[b], insB[a] })
		txB, rtB := filterTx(common2.TransferAsset, ver, insB, pickOuts(nOutB, bw), r.Uint32())
		steps = append(steps, step{txB, rtB, !sidechain || bPaysWatched, "B spends A's watched output", !bPaysWatched})
		// C spends one of B's outputs
		ci := r.Intn(nOutB)
		txC, rtC := filterTx(common2.TransferAsset, ver, []common2.OutPoint{{TxID: txB.Hash(), Index: uint16(ci)}}, pickOuts(1+r.Intn(2), -1), r.Uint32())
		steps = append(steps, step{txC, rtC, !sidechain && bPaysWatched && ci == bw, "C spends B's output that paid a watched program hash", true})
		// E: a watched txid, F: a watched outpoint (normal filters only)
		txE, rtE := filterTx(tt(), ver, []common2.OutPoint{randOutPoint(r)}, pickOuts(1, -1), r.Uint32())
		opF := randOutPoint(r)
		txF, rtF := filterTx(common2.TransferAsset, ver, []common2.OutPoint{randOutPoint(r), opF}, pickOuts(1, -1), r.Uint32())
		if !sidechain {
			hE := txE.Hash()
			ref.add(hE[:])
			ref.add(refOutPoint(opF.TxID, opF.Index))
		}
		steps = append(steps, step{txE, rtE, !sidechain, "watched txid", false}, step{txF, rtF, !sidechain, "spends a watched outpoint", true})
		if sidechain {
			// in side-chain mode a requested tx type is ground truth for a match
			for j := range steps {
				for _, t := range txTypes {
					if steps[j].tx.TxType() == t {
						steps[j].must = true
						steps[j].why = "tx type requested by the side-chain filter"
					}
				}
				if size == 0 {
					// nothing can be watched through an empty bit array
					steps[j].must = false
					for _, t := range txTypes {
						if steps[j].tx.TxType() == t {
							steps[j].must = true
						}
					}
				}
			}
			c.Inc("B_sidechain_filters")
		}

		fl := &msg.FilterLoad{Filter: append([]byte(nil), ref.bits...), HashFuncs: k, Tweak: tweak, TxTypes: txTypes}
		f := bloom.LoadFilter(fl)
		matchTx := f.MatchTxAndUpdate
		if i%3 == 0 { // through the wire + the server-side wrapper (filterload message handler path)
			buf := new(bytes.Buffer)
			fl.Serialize(buf)
			tf := &bloom.TxFilter{}
			if err := tf.Load(buf.Bytes()); err != nil {
				c.Violate("filterload-within-limits-rejected", fmt.Sprintf("TxFilter.Load: %v", err), nil)
				continue
			}
			f = nil
			matchTx = tf.MatchConfirmed
			if i%2 == 0 {
				matchTx = tf.MatchUnconfirmed
			}
			c.Inc("B_via_txfilter_wrapper")
		}
		id := fmt.Sprintf("B:%d:%d:%d:%v:%x", size, k, tweak, refTypes, rtA.hash[:8])
		c.Begin("B %d %s", i, id)
		c.Case(id, size > 0 && k > 0)
		c.Inc("B_chains")
		model := ref // the model filter evolves with the protocol
		for si := range steps {
			s := &steps[si]
			var got bool
			p, pv, _ := kit.Guard(func() { got = matchTx(s.tx) })
			if p {
				c.Violate(c39PanicSig(ref, "MatchTxAndUpdate"), fmt.Sprintf("MatchTxAndUpdate panicked, filter{size=%d,k=%d,tweak=%d,types=%v}: %v", size, k, tweak, refTypes, pv),
					map[string]interface{}{"size": size, "hash_funcs": k, "tweak": tweak})
				break
			}
			want := refMatchTx(model, refTypes, s.rt)
			if got {
				c.Inc("B_txs_matched")
			} else {
				c.Inc("B_txs_not_matched")
			}
			if s.must && !got {
				c.Violate("false-negative:tx:"+sigWord(s.why), fmt.Sprintf("%s but MatchTxAndUpdate returned false; filter{size=%d,k=%d,tweak=%d,types=%v} step %d", s.why, size, k, tweak, refTypes, si),
					map[string]interface{}{"size": size, "hash_funcs": k, "tweak": tweak, "step": si, "sidechain": sidechain})
			}
			if s.must && got && s.viaInput && !sidechain {
				c.Inc("B_spender_matched_via_inserted_outpoint")
			}
			if sidechain && got && s.must && len(txTypes) > 0 {
				c.Inc("B_sidechain_type_matches")
			}
			if !got && want {
				c.Violate("false-negative:tx:protocol-model-matches", fmt.Sprintf("step %d (%s): the protocol model matches this tx (watched item or set bits), the node does not; filter{size=%d,k=%d,tweak=%d,types=%v}", si, s.why, size, k, tweak, refTypes),
					map[string]interface{}{"size": size, "hash_funcs": k, "tweak": tweak, "step": si, "sidechain": sidechain})
			} else if got && !want {
				c.Inc("B_extra_positive_vs_model")
			}
		}
		if f != nil {
			c.Inc("B_final_bitarrays_compared")
			if !bytes.Equal(f.GetFilterLoadMsg().Filter, model.bits) {
				c.Inc("B_bitarray_differs_from_model")
				c.Note("bit array after the chain differs from the protocol model; filter{size=%d,k=%d,tweak=%d}", size, k, tweak)
			}
		}
		if i < 2 {
			c.Sample(map[string]interface{}{"kind": "B", "size_bytes": size, "hash_funcs": k, "tweak": tweak, "sidechain": sidechain, "tx_types": refTypes,
				"txA": fmt.Sprintf("%x", rtA.hash[:8]), "watched_output_index": wi, "B_pays_watched": bPaysWatched})
		}
	}

	// ================= L, O: sequences on one filter object (props/c39_seq.go) =================
	runC39Sequences(c, types)
}

func trunc(b []byte) []byte {
	if len(b) > 16 {
		return b[:16]
	}
	return b
}

func sigWord(s string) string {
	out := []byte{}
	for _, ch := range []byte(s) {
		switch {
		case ch >= 'a' && ch <= 'z', ch >= 'A' && ch <= 'Z', ch >= '0' && ch <= '9':
			out = append(out, ch)
		default:
			if len(out) > 0 && out[len(out)-1] != '-' {
				out = append(out, '-')
			}
		}
	}
	return string(out)
}

func c39PanicSig(ref *refBloom, op string) string {
	if len(ref.bits) == 0 {
		return "panic:bloom.Filter:empty-bit-array"
	}
	return "panic:bloom.Filter." + op
}

package props

import (
	"errors"
	"fmt"
	"os"
	"strings"

	"github.com/elastos/Elastos.ELA/database"
	"github.com/elastos/Elastos.ELA/database/ffldb"

	"verif/kit"
)

// ---------------------------------------------------------------------------
// C16 executor: runs a scripted op list against a real ffldb instance opened
// through the verif hook under one cache configuration.
// ---------------------------------------------------------------------------

// c16cfg is a cache configuration.
type c16cfg struct {
	Name      string `json:"name"`       // every-commit | never | seeded
	CacheSize uint64 `json:"cache_size"` // bytes
	FlushSecs uint32 `json:"flush_secs"`
	// seeded: force a flush at these (0-based) successful write commits
	FlushAt map[int]bool `json:"flush_at,omitempty"`
}

const (
	c16Huge     = uint64(1) << 40
	c16NeverSec = uint32(1000000)
)

var (
	errC16Sentinel = errors.New("c16 sentinel error returned by the callback")
	errC16Stop     = errors.New("c16 foreach stop")
)

type c16panicSentinel struct{}

// c16mismatch is the first divergence of a run.
type c16mismatch struct {
	Index int // flattened step index
	Step  *c16step
	Got   string
	Kind  string // cursor-read | other
}

type c16exec struct {
	c       *kit.Ctx
	dir     string
	cfg     c16cfg
	db      database.DB
	txs     [c16TxSlots]database.Tx
	curs    [c16CurSlots]database.Cursor
	curPath [c16CurSlots][]string
	poison  [c16CurSlots]bool
	commits int
	// observations
	got       []string // flattened results ("" for skipped)
	mism      []c16mismatch
	abandoned bool
	count     bool // update coverage counters (off while shrinking)
}

func (e *c16exec) inc(k string) {
	if e.count {
		e.c.Inc(k)
	}
}

func (e *c16exec) open(create bool) error {
	db, err := ffldb.VerifOpen(e.dir, c18Magic, create, 0, e.cfg.CacheSize, e.cfg.FlushSecs)
	if err != nil {
		return err
	}
	e.db = db
	return nil
}

func (e *c16exec) resolve(tx database.Tx, path []string) database.Bucket {
	b := tx.Metadata()
	for _, p := range path {
		if b == nil {
			return nil
		}
		b = b.Bucket([]byte(p))
	}
	return b
}

// beforeCommit / afterCommit implement the seeded flush schedule and verify
// that the configuration really took effect.
func (e *c16exec) beforeCommit() {
	if e.cfg.Name == "seeded" && e.cfg.FlushAt[e.commits] {
		ffldb.VerifSetFlush(e.db, c16Huge, 0)
	}
}
func (e *c16exec) afterCommit(ok bool) {
	if e.cfg.Name == "seeded" && e.cfg.FlushAt[e.commits] {
		ffldb.VerifSetFlush(e.db, e.cfg.CacheSize, e.cfg.FlushSecs)
		if ok {
			k, r, _, _ := ffldb.VerifCacheStats(e.db)
			if k+r == 0 {
				e.inc("cfg_seeded_forced_flushes")
			} else {
				e.inc("cfg_seeded_forced_flush_left_cache")
			}
		}
	}
	if !ok {
		return
	}
	e.commits++
	k, r, _, _ := ffldb.VerifCacheStats(e.db)
	switch e.cfg.Name {
	case "every-commit":
		if k+r != 0 {
			e.inc("cfg_every_commit_cache_not_empty")
		} else {
			e.inc("cfg_every_commit_flushed")
		}
	case "never":
		if k+r > 0 {
			e.inc("cfg_never_commits_held_in_cache")
		}
	case "seeded":
		if k+r > 0 {
			e.inc("cfg_seeded_commits_held_in_cache")
		} else {
			e.inc("cfg_seeded_cache_empty_after_commit")
		}
	}
}

func entryStrDB(path []string, k, v []byte) string {
	if v == nil {
		return fmt.Sprintf("B%q", k)
	}
	return rKV(path, string(k), v)
}

func (e *c16exec) dump(tx database.Tx, b database.Bucket, path []string, sb *strings.Builder) {
	fmt.Fprintf(sb, "[/%s keys:", strings.Join(path, "/"))
	err := b.ForEach(func(k, v []byte) error {
		sb.WriteString(rKV(path, string(k), v) + ",")
		return nil
	})
	if err != nil {
		sb.WriteString("ERR:" + dbCode(err))
	}
	sb.WriteString(" buckets:")
	var subs []string
	err = b.ForEachBucket(func(k []byte) error {
		fmt.Fprintf(sb, "%q,", k)
		subs = append(subs, string(k))
		return nil
	})
	if err != nil {
		sb.WriteString("ERR:" + dbCode(err))
	}
	sb.WriteString(" fwd:")
	c := b.Cursor()
	n := 0
	for ok := c.First(); ok && n < 1000; ok = c.Next() {
		sb.WriteString(entryStrDB(path, c.Key(), c.Value()) + ",")
		n++
	}
	sb.WriteString(" bwd:")
	c = b.Cursor()
	n = 0
	for ok := c.Last(); ok && n < 1000; ok = c.Prev() {
		sb.WriteString(entryStrDB(path, c.Key(), c.Value()) + ",")
		n++
	}
	sb.WriteString("]")
	for _, k := range subs {
		if len(path) == 0 && k == internalBucket {
			continue
		}
		nb := b.Bucket([]byte(k))
		np := append(append([]string{}, path...), k)
		if nb == nil {
			fmt.Fprintf(sb, "[/%s MISSING]", strings.Join(np, "/"))
			continue
		}
		e.dump(tx, nb, np, sb)
	}
}

func curOut(path []string, c database.Cursor, ok bool) string {
	k, v := c.Key(), c.Value()
	return rCur(path, ok, k, v)
}

// execOp executes one non-skipped step and returns the rendered result.
func (e *c16exec) execOp(st *c16step) string {
	op := st.Op
	switch op.Kind {
	case "begin":
		tx, err := e.db.Begin(op.RW)
		if err == nil {
			e.txs[op.Tx] = tx
		}
		e.inc("op_begin")
		return dbCode(err)
	case "commit":
		tx := e.txs[op.Tx]
		expectCommit := st.Ctx == "commit"
		if expectCommit {
			e.beforeCommit()
		}
		err := tx.Commit()
		if expectCommit {
			e.afterCommit(err == nil)
			e.inc("op_commit_rw")
		} else {
			e.inc("op_commit_other")
			tx.Rollback() // make sure a read-only tx is released whatever Commit did
		}
		return dbCode(err)
	case "rollback":
		e.inc("op_rollback")
		return dbCode(e.txs[op.Tx].Rollback())
	case "managed":
		return e.execManaged(st)
	case "reopen":
		e.inc("op_reopen")
		var parts []string
		parts = append(parts, "close="+dbCode(e.db.Close()))
		_, err := e.db.Begin(false)
		parts = append(parts, "begin="+dbCode(err))
		parts = append(parts, "close2="+dbCode(e.db.Close()))
		err = e.open(false)
		parts = append(parts, "open="+dbCode(err))
		for i := range e.txs {
			e.txs[i] = nil
		}
		for i := range e.curs {
			e.curs[i] = nil
			e.poison[i] = false
		}
		return strings.Join(parts, " ")
	case "audit":
		e.inc("op_audit")
		var sb strings.Builder
		err := e.db.View(func(tx database.Tx) error {
			e.dump(tx, tx.Metadata(), nil, &sb)
			return nil
		})
		if err != nil {
			return "ERR:" + dbCode(err)
		}
		return sb.String()
	}
	if strings.HasPrefix(op.Kind, "c") && op.Kind != "cursor" {
		return e.execCursor(st)
	}
	tx := e.txs[op.Tx]
	if st.Ctx == "use-after-close" {
		e.inc("op_use_after_close")
	}
	b := e.resolve(tx, op.Path)
	if b == nil {
		return "nobucket"
	}
	var val []byte
	if !op.NilV {
		val = op.Val
		if val == nil {
			val = []byte{}
		}
	}
	switch op.Kind {
	case "exists":
		e.inc("op_exists")
		return fmt.Sprintf("bucket writable=%v", b.Writable())
	case "get":
		e.inc("op_get")
		return rVal(b.Get([]byte(op.Key)))
	case "put":
		e.inc("op_put")
		return dbCode(b.Put([]byte(op.Key), val))
	case "del":
		e.inc("op_delete")
		return dbCode(b.Delete([]byte(op.Key)))
	case "mkb":
		e.inc("op_create_bucket")
		_, err := b.CreateBucket([]byte(op.Key))
		return dbCode(err)
	case "mkbine":
		e.inc("op_create_bucket_if_not_exists")
		nb, err := b.CreateBucketIfNotExists([]byte(op.Key))
		if err == nil && nb == nil {
			return "nil-bucket-without-error"
		}
		return dbCode(err)
	case "rmb":
		e.inc("op_delete_bucket")
		return dbCode(b.DeleteBucket([]byte(op.Key)))
	case "foreach":
		e.inc("op_foreach")
		var parts []string
		err := b.ForEach(func(k, v []byte) error {
			parts = append(parts, rKV(op.Path, string(k), v))
			return nil
		})
		if err != nil {
			return dbCode(err)
		}
		return "nil:" + strings.Join(parts, ",")
	case "foreachb":
		e.inc("op_foreach_bucket")
		var parts []string
		err := b.ForEachBucket(func(k []byte) error {
			parts = append(parts, fmt.Sprintf("%q", k))
			return nil
		})
		if err != nil {
			return dbCode(err)
		}
		return "nil:" + strings.Join(parts, ",")
	case "foreach-stop":
		e.inc("op_foreach_stop")
		calls := 0
		last := ""
		err := b.ForEach(func(k, v []byte) error {
			calls++
			last = rKV(op.Path, string(k), v)
			if calls == op.N+1 {
				return errC16Stop
			}
			return nil
		})
		switch {
		case err == errC16Stop:
			return fmt.Sprintf("stopped calls=%d last=%s", calls, last)
		case err == nil:
			return fmt.Sprintf("nil calls=%d", calls)
		}
		return dbCode(err)
	case "cursor":
		e.inc("op_cursor_new")
		e.curs[op.Cur] = b.Cursor()
		e.curPath[op.Cur] = op.Path
		e.poison[op.Cur] = false
		return "ok"
	}
	return "unknown-op"
}

func (e *c16exec) execCursor(st *c16step) string {
	op := st.Op
	c := e.curs[op.Cur]
	path := e.curPath[op.Cur]
	if st.Ctx == "use-after-close" {
		e.inc("op_use_after_close")
	}
	switch op.Kind {
	case "cfirst":
		e.inc("op_cursor_first")
		return curOut(path, c, c.First())
	case "clast":
		e.inc("op_cursor_last")
		return curOut(path, c, c.Last())
	case "cnext":
		e.inc("op_cursor_next")
		return curOut(path, c, c.Next())
	case "cprev":
		e.inc("op_cursor_prev")
		return curOut(path, c, c.Prev())
	case "cseek":
		e.inc("op_cursor_seek")
		return curOut(path, c, c.Seek([]byte(op.Key)))
	case "ckv":
		e.inc("op_cursor_keyvalue")
		k := c.Key()
		return rCur(path, k != nil, k, c.Value())
	case "cdel":
		e.inc("op_cursor_delete")
		return dbCode(c.Delete())
	}
	return "unknown-cursor-op"
}

func (e *c16exec) execManaged(st *c16step) (res string) {
	op := st.Op
	fn := func(tx database.Tx) error {
		e.txs[c16MSlot] = tx
		for _, ss := range st.Sub {
			e.runStep(ss)
			if e.abandoned {
				break
			}
		}
		switch op.Ret {
		case "err":
			return errC16Sentinel
		case "commit":
			err := tx.Commit()
			return fmt.Errorf("commit-in-managed-did-not-panic:%s", dbCode(err))
		case "rollback":
			err := tx.Rollback()
			return fmt.Errorf("rollback-in-managed-did-not-panic:%s", dbCode(err))
		case "panic":
			panic(c16panicSentinel{})
		}
		return nil
	}
	var err error
	willCommit := st.Ctx == "commit"
	if willCommit {
		e.beforeCommit()
	}
	panicked, pv, _ := kit.Guard(func() {
		if op.RW {
			e.inc("op_update")
			err = e.db.Update(fn)
		} else {
			e.inc("op_view")
			err = e.db.View(fn)
		}
	})
	if willCommit {
		e.afterCommit(!panicked && err == nil)
	}
	e.inc("managed_ret_" + op.Ret)
	switch {
	case panicked:
		if _, ok := pv.(c16panicSentinel); ok {
			return "panic:user"
		}
		return "panic"
	case err == errC16Sentinel:
		return "sentinel"
	case err == nil:
		return "nil"
	}
	if _, ok := err.(database.Error); ok {
		return dbCode(err)
	}
	return err.Error()
}

// runStep executes a step (and its sub-steps), records the result and the
// first-class divergences.
func (e *c16exec) runStep(st *c16step) {
	idx := len(e.got)
	e.got = append(e.got, "")
	if st.Skip || e.abandoned {
		return
	}
	op := st.Op
	isCursorRead := false
	switch op.Kind {
	case "cfirst", "clast", "cnext", "cprev", "cseek", "ckv":
		isCursorRead = true
	}
	if strings.HasPrefix(op.Kind, "c") && op.Kind != "cursor" && op.Kind != "commit" && e.poison[op.Cur] {
		if op.Kind == "cdel" && st.Exp == "nil" {
			// the model deleted through a cursor this run no longer trusts
			e.abandoned = true
			e.inc("runs_abandoned_after_violation")
		}
		return
	}
	var got string
	wasAbandoned := e.abandoned
	if panicked, pv, _ := kit.Guard(func() { got = e.execOp(st) }); panicked {
		got = fmt.Sprintf("PANIC-in-operation: %v", pv)
	}
	e.got[idx] = got
	if e.abandoned && !wasAbandoned {
		return // a sub-step of a managed transaction already diverged
	}
	if e.count {
		e.c.Inc("steps_compared")
	}
	if got == st.Exp {
		return
	}
	mm := c16mismatch{Index: idx, Step: st, Got: got, Kind: "other"}
	if isCursorRead {
		// a wrong cursor answer does not change database state: stop trusting
		// this cursor, keep checking the rest of the script
		mm.Kind = "cursor-read"
		e.poison[op.Cur] = true
		e.mism = append(e.mism, mm)
		return
	}
	e.mism = append(e.mism, mm)
	e.abandoned = true
	e.inc("runs_abandoned_after_violation")
}

// run executes the whole script in a fresh directory.
func (e *c16exec) run(steps []*c16step) error {
	os.RemoveAll(e.dir)
	if err := e.open(true); err != nil {
		return err
	}
	for _, st := range steps {
		e.runStep(st)
		if e.abandoned {
			break
		}
	}
	// release everything
	for i, tx := range e.txs {
		if tx != nil {
			kit.Guard(func() { tx.Rollback() })
			e.txs[i] = nil
		}
	}
	if e.db != nil {
		e.db.Close()
		e.db = nil
	}
	os.RemoveAll(e.dir)
	return nil
}

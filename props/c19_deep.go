package props

import (
	"bytes"
	"encoding/binary"
	"fmt"
	"math/rand"
	"sort"

	treap "github.com/elastos/Elastos.ELA/database/verifexport"

	"verif/kit"
)

// C19 deep family: a large, delete-heavy history. Random-order deletes make
// root-to-node paths far longer than the static parent-stack depth (the
// treap's delete rotation does not keep the heap shape that put maintains), so
// this is the only family that drives the parent stack's overflow storage, in
// put, delete, seek and iterator steps, on both treap kinds.
//
// Oracle: a presence bitmap + sorted key list (keys are 4-byte big-endian
// integers, value = key). Len is compared after every phase; Get/Has for a
// sample of keys; Seek+Next through an iterator for a sample of keys; one
// retained immutable version is re-checked at the end.
func runC19Deep(c *kit.Ctx) {
	r := c.Rand("c19-deep")
	numKeys := c.N(150000, 260000)
	rand.Seed(r.Int63())
	key := func(i int) []byte {
		var b [4]byte
		binary.BigEndian.PutUint32(b[:], uint32(i))
		return b[:]
	}
	step := "start"
	fail := func(sig, detail string) {
		c.Violate(sig, detail, map[string]interface{}{"keys": numKeys, "step": step})
	}
	p, pv, st := kit.Guard(func() {
		mut := treap.NewMutable()
		imm := treap.NewImmutable()
		present := make([]bool, numKeys)
		step = "put"
		for _, k := range r.Perm(numKeys) {
			mut.Put(key(k), key(k))
			imm = imm.Put(key(k), key(k))
			present[k] = true
		}
		c.Count("deep_puts", int64(2*numKeys))
		check := func(what string, get func([]byte) []byte, has func([]byte) bool, length int, it *treap.Iterator, pres []bool, samples int) bool {
			var live []int
			for k, p := range pres {
				if p {
					live = append(live, k)
				}
			}
			if length != len(live) {
				fail("deep:len", fmt.Sprintf("%s: Len=%d model=%d", what, length, len(live)))
				return false
			}
			for s := 0; s < samples; s++ {
				k := r.Intn(numKeys)
				if has(key(k)) != pres[k] {
					fail("deep:has", fmt.Sprintf("%s: Has(%d)=%v model=%v", what, k, !pres[k], pres[k]))
					return false
				}
				g := get(key(k))
				if pres[k] != (g != nil) || (pres[k] && !bytes.Equal(g, key(k))) {
					fail("deep:get", fmt.Sprintf("%s: Get(%d)=%x model present=%v", what, k, g, pres[k]))
					return false
				}
				idx := sort.SearchInts(live, k)
				ok := it.Seek(key(k))
				if idx == len(live) {
					if ok {
						fail("deep:seek", fmt.Sprintf("%s: Seek(%d) landed on %x, model: exhausted", what, k, it.Key()))
						return false
					}
					continue
				}
				if !ok || !bytes.Equal(it.Key(), key(live[idx])) {
					fail("deep:seek", fmt.Sprintf("%s: Seek(%d) -> ok=%v key=%x, model %d", what, k, ok, it.Key(), live[idx]))
					return false
				}
				for j := 1; j <= 3 && idx+j < len(live); j++ {
					if !it.Next() || !bytes.Equal(it.Key(), key(live[idx+j])) {
						fail("deep:next", fmt.Sprintf("%s: Next #%d after Seek(%d) -> %x, model %d", what, j, k, it.Key(), live[idx+j]))
						return false
					}
				}
				c.Inc("deep_samples_checked")
			}
			return true
		}
		samples := c.N(1500, 6000)
		step = "check-after-put"
		if !check("mutable after puts", mut.Get, mut.Has, mut.Len(), mut.Iterator(nil, nil), present, samples) ||
			!check("immutable after puts", imm.Get, imm.Has, imm.Len(), imm.Iterator(nil, nil), present, samples) {
			return
		}
		var midImm *treap.Immutable
		var midPresent []bool
		order := r.Perm(numKeys)
		del := numKeys * 9 / 10
		for i, k := range order[:del] {
			step = fmt.Sprintf("delete #%d", i)
			mut.Delete(key(k))
			imm = imm.Delete(key(k))
			present[k] = false
			if i == del/2 {
				midImm = imm
				midPresent = append([]bool(nil), present...)
			}
			if (i+1)%(del/4) == 0 {
				step = fmt.Sprintf("check-after-%d-deletes", i+1)
				if !check(step+" mutable", mut.Get, mut.Has, mut.Len(), mut.Iterator(nil, nil), present, samples) ||
					!check(step+" immutable", imm.Get, imm.Has, imm.Len(), imm.Iterator(nil, nil), present, samples) {
					return
				}
				c.Inc("deep_phase_checks")
			}
		}
		c.Count("deep_deletes", int64(2*del))
		step = "re-put"
		for _, k := range order[:del/10] {
			mut.Put(key(k), key(k))
			imm = imm.Put(key(k), key(k))
			present[k] = true
		}
		step = "final-check"
		if !check("mutable final", mut.Get, mut.Has, mut.Len(), mut.Iterator(nil, nil), present, samples) ||
			!check("immutable final", imm.Get, imm.Has, imm.Len(), imm.Iterator(nil, nil), present, samples) {
			return
		}
		step = "retained-version"
		if check("immutable version retained at half of the deletes", midImm.Get, midImm.Has, midImm.Len(), midImm.Iterator(nil, nil), midPresent, samples) {
			c.Inc("deep_retained_version_checked")
		}
		c.Inc("deep_histories")
	})
	if p {
		c.Violate("panic:treap:deep-history", fmt.Sprintf("treap operation panicked during %q of a %d-key delete-heavy history: %v\n%s", step, numKeys, pv, firstLines(st, 12)),
			map[string]interface{}{"keys": numKeys, "step": step})
	}
	c.Case(fmt.Sprintf("deep:%d:%d", numKeys, c.Seed), true)
}

package props

import (
	"bytes"
	"context"
	"encoding/binary"
	"encoding/hex"
	"encoding/json"
	"fmt"
	"io"
	"math/rand"
	"os"
	"os/exec"
	"path/filepath"
	"sort"
	"strings"
	"time"

	"github.com/elastos/Elastos.ELA/blockchain"
	"github.com/elastos/Elastos.ELA/common"
	"github.com/elastos/Elastos.ELA/core/types"
	common2 "github.com/elastos/Elastos.ELA/core/types/common"
	"github.com/elastos/Elastos.ELA/core/types/interfaces"

	"verif/kit"
	"verif/kit/node"
)

// C13 node level: a live node reorganises between branches of signed
// transfers. Decided observations, in this order per round:
//
//  1. branch A (k blocks) is mined; it is then disconnected through
//     ChainStore.RollbackBlock and the metadata dump is compared with the dump
//     taken at the fork point BEFORE anything else is offered to the node
//     ("disconnect exactly undoes connect"), then reconnected (redo compare);
//  2. the heavier branch B (k+1 blocks) is offered; if the node refuses it or
//     does not switch, a twin process that never saw branch A syncs the same
//     blocks: if the twin accepts them the refusal is a consequence of an
//     inexact disconnect ("reorg:honest-competing-branch-rejected-after-disconnect");
//  3. index queries are compared with the ledger replay of the active chain,
//     branch B is unwound at store level down to the fork point (dump compare)
//     and redone;
//  4. after the last round a twin syncs the final active chain linearly: its
//     metadata dump must equal the dump of the node that went through all the
//     reorganisations.

const (
	c13EnvRole   = "VERIF_C13_ROLE"
	c13EnvParams = "VERIF_C13_PARAMS"
)

type c13TwinParams struct {
	Dir    string `json:"dir"`
	Blocks string `json:"blocks"`
	Out    string `json:"out"`
}

type c13TwinResult struct {
	Done     bool                         `json:"done"`
	Err      string                       `json:"err,omitempty"`
	Accepted int                          `json:"accepted"`
	Errors   []string                     `json:"errors,omitempty"`
	Tip      string                       `json:"tip"`
	Height   uint32                       `json:"height"`
	Best     string                       `json:"best"`
	Dump     map[string]map[string]string `json:"dump"`
}

func init() {
	if os.Getenv(c13EnvRole) != "twin" {
		return
	}
	// This process is a C13 twin re-executed by the check; it never reaches main().
	var p c13TwinParams
	res := &c13TwinResult{}
	if err := json.Unmarshal([]byte(os.Getenv(c13EnvParams)), &p); err != nil {
		os.Exit(3)
	}
	func() {
		defer func() {
			if r := recover(); r != nil {
				res.Err = fmt.Sprint("panic: ", r)
			}
		}()
		c13RunTwin(&p, res)
	}()
	b, _ := json.Marshal(res)
	os.WriteFile(p.Out+".tmp", b, 0644)
	os.Rename(p.Out+".tmp", p.Out)
	os.Exit(0)
}

func c13RunTwin(p *c13TwinParams, res *c13TwinResult) {
	nd, err := node.Start(node.Options{Dir: p.Dir, CoinbaseMaturity: 1})
	if err != nil {
		res.Err = "node start: " + err.Error()
		return
	}
	defer nd.Close()
	raw, err := os.ReadFile(p.Blocks)
	if err != nil {
		res.Err = err.Error()
		return
	}
	rd := bytes.NewReader(raw)
	for rd.Len() > 0 {
		var l uint32
		if err := binary.Read(rd, binary.LittleEndian, &l); err != nil {
			res.Err = err.Error()
			return
		}
		buf := make([]byte, l)
		if _, err := io.ReadFull(rd, buf); err != nil {
			res.Err = err.Error()
			return
		}
		b := new(types.Block)
		if err := b.Deserialize(bytes.NewReader(buf)); err != nil {
			res.Err = "block decode: " + err.Error()
			return
		}
		if _, _, err := nd.Process(b); err != nil {
			res.Errors = append(res.Errors, fmt.Sprintf("height %d: %v", b.Height, err))
			continue
		}
		nd.PostBlock(b)
		res.Accepted++
	}
	res.Tip = nd.Tip().String()
	res.Height = nd.Height()
	d, err := takeDump(nd.Store.GetFFLDB())
	if err != nil {
		res.Err = "dump: " + err.Error()
		return
	}
	n, best := normalise(d)
	res.Best = best
	res.Dump = map[string]map[string]string{}
	for path, m := range n {
		mm := map[string]string{}
		for k, v := range m {
			mm[hex.EncodeToString([]byte(k))] = hex.EncodeToString(v)
		}
		res.Dump[path] = mm
	}
	res.Done = true
}

var c13TwinSeq int

// c13Twin syncs the given blocks on a fresh node in another process.
func c13Twin(c *kit.Ctx, blocks []*types.Block) (*c13TwinResult, error) {
	c13TwinSeq++
	dir := filepath.Join(c.WorkDir, fmt.Sprintf("c13-twin-%d", c13TwinSeq))
	if err := os.MkdirAll(dir, 0755); err != nil {
		return nil, err
	}
	defer os.RemoveAll(dir)
	buf := new(bytes.Buffer)
	for _, b := range blocks {
		bb := new(bytes.Buffer)
		if err := b.Serialize(bb); err != nil {
			return nil, err
		}
		binary.Write(buf, binary.LittleEndian, uint32(bb.Len()))
		buf.Write(bb.Bytes())
	}
	p := c13TwinParams{Dir: filepath.Join(dir, "node"), Blocks: filepath.Join(dir, "blocks.bin"), Out: filepath.Join(dir, "out.json")}
	os.MkdirAll(p.Dir, 0755)
	if err := os.WriteFile(p.Blocks, buf.Bytes(), 0644); err != nil {
		return nil, err
	}
	self, err := os.Executable()
	if err != nil {
		return nil, err
	}
	pb, _ := json.Marshal(&p)
	ctx, cancel := context.WithTimeout(context.Background(), 180*time.Second)
	defer cancel()
	cmd := exec.CommandContext(ctx, self)
	cmd.Env = append(os.Environ(), c13EnvRole+"=twin", c13EnvParams+"="+string(pb))
	out, err := cmd.CombinedOutput()
	if err != nil {
		return nil, fmt.Errorf("twin process: %v (%s)", err, c13Tail(string(out), 300))
	}
	rb, err := os.ReadFile(p.Out)
	if err != nil {
		return nil, err
	}
	var res c13TwinResult
	if err := json.Unmarshal(rb, &res); err != nil {
		return nil, err
	}
	if res.Err != "" || !res.Done {
		return &res, fmt.Errorf("twin: %s", res.Err)
	}
	return &res, nil
}

func c13Tail(s string, n int) string {
	if len(s) > n {
		return s[len(s)-n:]
	}
	return s
}

func (t *c13TwinResult) dump() mdump {
	d := mdump{}
	for path, m := range t.Dump {
		mm := map[string][]byte{}
		for k, v := range m {
			kb, _ := hex.DecodeString(k)
			vb, _ := hex.DecodeString(v)
			mm[string(kb)] = vb
		}
		d[path] = mm
	}
	return d
}

type nOut struct {
	ref  node.UTXORef
	used bool
}

type nPlan struct {
	tx  interfaces.Transaction
	ins []*nOut
}

func activeChain(nd *node.Node, upTo uint32) ([]*types.Block, error) {
	var bs []*types.Block
	for h := uint32(1); h <= upTo; h++ {
		b, err := nd.Chain.GetBlockByHeight(h)
		if err != nil {
			return nil, err
		}
		bs = append(bs, b)
	}
	return bs, nil
}

func c13NodeLevel(c *kit.Ctx, nd *node.Node, r *rand.Rand) {
	st := nd.Store
	// a set-up failure after a reported violation is a consequence, not a reason to be inconclusive
	fail := func(format string, a ...interface{}) {
		if c13Violated {
			c.Note("node level stopped (a violation was already reported in this shard): "+format, a...)
			c.Inc("N_stopped_after_violation")
		} else {
			c.Inconclusive("node level: "+format, a...)
		}
	}
	accts := []int{2, 3, 4, 5, 6, 7}
	ownerOf := func(ph common.Uint168) int {
		for _, a := range accts {
			if node.Key(a).ProgramHash == ph {
				return a
			}
		}
		return 0
	}
	g := nd.GenesisUTXO()
	var outs []node.Out
	per := common.Fixed64(500 * 1e8)
	nFund := 72
	for i := 0; i < nFund; i++ {
		outs = append(outs, node.Out{To: node.Key(accts[i%len(accts)]).ProgramHash, Value: per})
	}
	outs = append(outs, node.Out{To: nd.Found.ProgramHash, Value: g.Value - per*common.Fixed64(nFund) - 10000})
	fund := node.Transfer([]node.UTXORef{g}, outs, common2.TxVersion09)
	if _, err := nd.MineTip(fund); err != nil {
		fail("funding block rejected: %v", err)
		return
	}
	if err := nd.MineN(2); err != nil {
		fail("mining: %v", err)
		return
	}
	var pool []*nOut
	for i := 0; i < nFund; i++ {
		pool = append(pool, &nOut{ref: node.UTXORef{TxID: fund.Hash(), Index: uint16(i), Value: per, Owner: node.Key(accts[i%len(accts)])}})
	}
	fee := common.Fixed64(10000)
	mkTransfer := func(us []*nOut, salt int) interfaces.Transaction {
		a := node.Key(accts[(salt+1)%len(accts)]).ProgramHash
		b := node.Key(accts[(salt+3)%len(accts)]).ProgramHash
		var tot common.Fixed64
		var refs []node.UTXORef
		for _, u := range us {
			tot += u.ref.Value
			refs = append(refs, u.ref)
		}
		half := (tot - fee) / 2
		os := []node.Out{{To: a, Value: half}, {To: b, Value: tot - fee - half}}
		if salt%3 == 0 {
			os = append(os, node.Out{To: a, Value: 0}) // zero-value output
		}
		return node.Transfer(refs, os, common2.TxVersion09)
	}
	dumpNow := func() (mdump, string, bool) {
		raw, err := takeDump(st.GetFFLDB())
		if err != nil {
			fail("dump failed: %v", err)
			return nil, "", false
		}
		d, b := normalise(raw)
		return d, b, true
	}
	reportDiffs := func(prefix, what string, a, b mdump, seen map[string]bool) int {
		n := 0
		for _, d := range diffDumps(a, b) {
			if c13Inherited[d.Path+"|"+d.Key] {
				continue
			}
			n++
			sig := prefix + ":" + bucketClass(d.Path) + ":" + d.Kind
			if !seen[sig] {
				seen[sig] = true
				c13Viol(c, sig, fmt.Sprintf("%s: bucket %s key %s %s", what, d.Path, d.Key, d.Kind), map[string]interface{}{"bucket": d.Path, "key": d.Key, "kind": d.Kind})
			}
		}
		return n
	}
	rounds := c.N(3, 14)
	for rd := 0; rd < rounds; rd++ {
		F := nd.TipBlock()
		dF, bestF, ok := dumpNow()
		if !ok {
			return
		}
		k := 1 + r.Intn(3)
		var free []*nOut
		for _, u := range pool {
			if !u.used {
				free = append(free, u)
			}
		}
		if len(free) < 5*(k+1)+2 {
			break
		}
		r.Shuffle(len(free), func(i, j int) { free[i], free[j] = free[j], free[i] })
		taken := map[*nOut]bool{}
		next := func() *nOut {
			for _, u := range free {
				if !taken[u] {
					taken[u] = true
					return u
				}
			}
			return nil
		}
		// another free output of the same earlier transaction
		sibling := func(of *nOut) *nOut {
			for _, u := range free {
				if !taken[u] && u.ref.TxID == of.ref.TxID && u.ref.Index != of.ref.Index {
					taken[u] = true
					return u
				}
			}
			return nil
		}
		touchedTx := map[common.Uint256]bool{}
		touchedPH := map[common.Uint168]bool{}
		note := func(p nPlan) {
			touchedTx[p.tx.Hash()] = true
			for _, in := range p.ins {
				touchedTx[in.ref.TxID] = true
				touchedPH[in.ref.Owner.ProgramHash] = true
			}
			for _, o := range p.tx.Outputs() {
				touchedPH[o.ProgramHash] = true
			}
		}
		// ---- branch A
		var aPlans [][]nPlan
		var aBlocks []*types.Block
		twoOutBlocks := 0
		for i := 0; i < k; i++ {
			var ps []nPlan
			var txs []interfaces.Transaction
			nTx := 1 + r.Intn(3)
			for j := 0; j < nTx; j++ {
				u := next()
				if u == nil {
					break
				}
				ins := []*nOut{u}
				if j == 0 { // a consolidating spend: two outputs of one earlier transaction in one transaction
					if s2 := sibling(u); s2 != nil {
						ins = append(ins, s2)
					}
				}
				p := nPlan{mkTransfer(ins, rd*100+i*10+j), ins}
				ps = append(ps, p)
				txs = append(txs, p.tx)
				note(p)
			}
			perPrev := map[common.Uint256]map[uint16]bool{}
			for _, p := range ps {
				for _, in := range p.ins {
					if perPrev[in.ref.TxID] == nil {
						perPrev[in.ref.TxID] = map[uint16]bool{}
					}
					perPrev[in.ref.TxID][in.ref.Index] = true
				}
			}
			for _, m := range perPrev {
				if len(m) >= 2 {
					twoOutBlocks++
					break
				}
			}
			c.Begin("C13 node round %d mine A%d", rd, i)
			b, err := nd.MineTip(txs...)
			if err != nil {
				fail("honest branch A block rejected: %v", err)
				return
			}
			aPlans = append(aPlans, ps)
			aBlocks = append(aBlocks, b)
		}
		tipA := nd.Tip()
		dA, bestA, ok := dumpNow()
		if !ok {
			return
		}
		// ---- (1) undo branch A at store level and compare with the fork point, before anything else
		an := nd.Chain.BestChain
		var aNodes []*blockchain.BlockNode
		for i := 0; i < k; i++ {
			aNodes = append([]*blockchain.BlockNode{an}, aNodes...)
			an = an.Parent
		}
		seen := map[string]bool{}
		c.Begin("C13 node round %d undo A", rd)
		for i := k - 1; i >= 0; i-- {
			if err := st.RollbackBlock(aBlocks[i], aNodes[i], nil, blockchain.CalcPastMedianTime(aNodes[i].Parent)); err != nil {
				c13Viol(c, "rollback:error", fmt.Sprintf("node level: RollbackBlock of a connected block failed: %v", err), nil)
				return
			}
		}
		c.Count("N_disconnected_blocks_spending_two_outputs_of_one_tx", int64(twoOutBlocks))
		dU, bestU, ok := dumpNow()
		if !ok {
			return
		}
		c.Inc("N_branch_undo_dump_compares")
		if bestU != bestF {
			c13Viol(c, "rollback:best-state", fmt.Sprintf("node level: best state at fork point %s, after connect+disconnect of branch A %s", bestF, bestU), nil)
		}
		undoDiffs := reportDiffs("reorg:branch-undo-dump-differs",
			fmt.Sprintf("%d mined blocks of signed transfers (%d of them spend >= 2 outputs of one earlier transaction) were disconnected again through ChainStore.RollbackBlock; the dump differs from the one taken at the fork point", k, twoOutBlocks), dF, dU, seen)
		for i := 0; i < k; i++ {
			if err := st.SaveBlock(aBlocks[i], aNodes[i], nil, blockchain.CalcPastMedianTime(aNodes[i].Parent)); err != nil {
				if undoDiffs > 0 {
					c13Viol(c, "reorg:reconnect-refused-after-disconnect", fmt.Sprintf("after the inexact disconnect the very same blocks cannot be connected again: %v", err), nil)
				} else {
					fail("re-saving branch A failed: %v", err)
				}
				return
			}
		}
		dR, bestR, ok := dumpNow()
		if !ok {
			return
		}
		c.Inc("N_redo_dump_compares")
		if bestR != bestA {
			c13Viol(c, "reorg:redo-best-state", fmt.Sprintf("best state %s after redo, %s before", bestR, bestA), nil)
		}
		reportDiffs("reorg:redo-dump-differs", "disconnecting and reconnecting branch A does not reproduce the index state", dA, dR, seen)

		// ---- (2) the heavier branch B from F
		parent := F
		var bBlocks []*types.Block
		var bPlan []nPlan
		for i := 0; i < k+1; i++ {
			var txs []interfaces.Transaction
			if i < len(aPlans) {
				for j, p := range aPlans[i] {
					switch (rd + i + j) % 3 {
					case 0: // same transaction on the other branch
						txs = append(txs, p.tx)
						bPlan = append(bPlan, p)
					case 1: // conflicting spend of the same outputs
						q := nPlan{mkTransfer(p.ins, rd*100+i*10+j+50), p.ins}
						note(q)
						txs = append(txs, q.tx)
						bPlan = append(bPlan, q)
					}
					// case 2: the outputs stay unspent on B
				}
			}
			if u := next(); u != nil {
				q := nPlan{mkTransfer([]*nOut{u}, rd*100+i*10+77), []*nOut{u}}
				note(q)
				txs = append(txs, q.tx)
				bPlan = append(bPlan, q)
			}
			b, err := nd.Assemble(node.BlockSpec{Parent: parent, Txs: txs, Fees: fee * common.Fixed64(len(txs)), Nonce: 0xB000000 + uint64(rd*16+i)})
			if err != nil {
				fail("assemble: %v", err)
				return
			}
			bBlocks = append(bBlocks, b)
			parent = b
		}
		var procErr error
		for i, b := range bBlocks {
			c.Begin("C13 node round %d process B%d", rd, i)
			if _, _, err := nd.Process(b); err != nil {
				procErr = fmt.Errorf("block B%d: %v", i, err)
				break
			}
			nd.PostBlock(b)
		}
		if procErr != nil || nd.Tip() != bBlocks[k].Hash() {
			// who is right? a node that never had branch A decides
			base, err := activeChain(nd, F.Height)
			if err != nil {
				// the node's own chain is no longer readable up to the fork point
				base = nil
			}
			c.Inc("N_twin_adjudications")
			var tw *c13TwinResult
			if base != nil {
				tw, err = c13Twin(c, append(base, bBlocks...))
			}
			if tw != nil && err == nil && tw.Tip == bBlocks[k].Hash().String() && len(tw.Errors) == 0 {
				c13Viol(c, "reorg:honest-competing-branch-rejected-after-disconnect",
					fmt.Sprintf("a heavier branch of %d blocks of signed transfers is accepted by a twin node that never had the %d competing blocks, but the node that has to disconnect them first ends at tip %s (branch tip %s, old tip %s): %v", k+1, k, nd.Tip().String()[:16], bBlocks[k].Hash().String()[:16], tipA.String()[:16], procErr), map[string]interface{}{"fork_height": F.Height, "branch_A": k, "branch_B": k + 1})
			} else {
				fail("branch B not adopted (%v) and the twin does not adopt it either (%v, %+v)", procErr, err, tw)
			}
			return
		}
		c.Inc("N_reorgs")
		c.Count("N_blocks_disconnected_by_node", int64(k))
		c.Count("N_blocks_connected_in_reorg", int64(k+1))
		c.Case(fmt.Sprintf("N:%d:%d:%s", rd, k, nd.Tip().String()[:12]), true)
		// pool bookkeeping follows branch B
		for _, p := range bPlan {
			for _, in := range p.ins {
				in.used = true
			}
			for i, o := range p.tx.Outputs() {
				if o.Value == 0 {
					continue
				}
				pool = append(pool, &nOut{ref: node.UTXORef{TxID: p.tx.Hash(), Index: uint16(i), Value: o.Value, Owner: node.Key(ownerOf(o.ProgramHash))}})
			}
		}
		// ---- (3) queries against the replay model of the active chain
		l := nd.Replay()
		ff := st.GetFFLDB()
		c.Inc("N_model_query_compares")
		for id := range touchedTx {
			mh, on := l.Txs[id]
			tx, h, err := ff.GetTransaction(id)
			found := err == nil && tx != nil
			if found != on || (on && h != mh) {
				c13Viol(c, "reorg:GetTransaction-disagrees-with-active-chain", fmt.Sprintf("tx %s: on active chain=%v (height %d), index says found=%v height %d", id.String()[:16], on, mh, found, h), nil)
			}
			var want []uint16
			for ok := range l.Unspent {
				if ok.TxID == id {
					want = append(want, ok.Index)
				}
			}
			got, _ := ff.GetUnspent(id)
			if fmt.Sprint(sortedU16(want)) != fmt.Sprint(sortedU16(got)) {
				c13Viol(c, "reorg:GetUnspent-disagrees-with-active-chain", fmt.Sprintf("tx %s: model unspent %v, index %v", id.String()[:16], sortedU16(want), sortedU16(got)), nil)
			}
			c.Inc("N_tx_queries")
		}
		for ph := range touchedPH {
			ph := ph
			var want, got []string
			for ok, o := range l.Unspent {
				if o.Owner == ph && o.Value != 0 {
					want = append(want, fmt.Sprintf("%s:%d:%d", ok.TxID.String()[:16], ok.Index, int64(o.Value)))
				}
			}
			us, _ := ff.GetUTXO(&ph)
			for _, u := range us {
				got = append(got, fmt.Sprintf("%s:%d:%d", u.TxID.String()[:16], u.Index, int64(u.Value)))
			}
			sort.Strings(want)
			sort.Strings(got)
			if strings.Join(want, ",") != strings.Join(got, ",") {
				c13Viol(c, "reorg:GetUTXO-disagrees-with-active-chain", fmt.Sprintf("address %s: model has %d utxos, index %d", ph.String()[:12], len(want), len(got)), nil)
			}
			c.Inc("N_utxo_queries")
		}
		// unwind branch B at store level down to the fork point, then redo
		dB, bestB, ok := dumpNow()
		if !ok {
			return
		}
		bn := nd.Chain.BestChain
		var nodes []*blockchain.BlockNode
		for i := 0; i <= k; i++ {
			nodes = append([]*blockchain.BlockNode{bn}, nodes...)
			bn = bn.Parent
		}
		for i := k; i >= 0; i-- {
			if err := st.RollbackBlock(bBlocks[i], nodes[i], nil, blockchain.CalcPastMedianTime(nodes[i].Parent)); err != nil {
				c13Viol(c, "rollback:error", fmt.Sprintf("node level: RollbackBlock of connected block failed: %v", err), nil)
				return
			}
		}
		dU2, bestU2, ok := dumpNow()
		if !ok {
			return
		}
		c.Inc("N_forkpoint_dump_compares")
		if bestU2 != bestF {
			c13Viol(c, "rollback:best-state", fmt.Sprintf("node level: best state at fork point %s, after A/B connect+disconnect %s", bestF, bestU2), nil)
		}
		reportDiffs("reorg:forkpoint-dump-differs", fmt.Sprintf("fork point dump recorded before branches A (%d blocks, connected then disconnected by the node's reorganisation) and B (%d blocks, connected by the node, disconnected via ChainStore.RollbackBlock) differs", k, k+1), dF, dU2, seen)
		for i := 0; i <= k; i++ {
			if err := st.SaveBlock(bBlocks[i], nodes[i], nil, blockchain.CalcPastMedianTime(nodes[i].Parent)); err != nil {
				fail("re-saving branch B failed: %v", err)
				return
			}
		}
		dR2, bestR2, ok := dumpNow()
		if !ok {
			return
		}
		c.Inc("N_redo_dump_compares")
		if bestR2 != bestB {
			c13Viol(c, "reorg:redo-best-state", fmt.Sprintf("best state %s after redo, %s before", bestR2, bestB), nil)
		}
		reportDiffs("reorg:redo-dump-differs", "disconnecting and reconnecting branch B does not reproduce the index state", dB, dR2, seen)
		if c.Shard == 0 && rd == 0 {
			c.Sample(map[string]interface{}{"level": "node", "fork_height": F.Height, "branch_A_blocks": k, "branch_B_blocks": k + 1, "A_blocks_spending_two_outputs_of_one_tx": twoOutBlocks, "tip_after": nd.Tip().String(), "touched_txs": len(touchedTx)})
		}
	}
	// ---- (4) a twin that syncs the final active chain linearly must hold the same index state
	chain, err := activeChain(nd, nd.Height())
	if err != nil {
		fail("active chain unreadable: %v", err)
		return
	}
	tw, err := c13Twin(c, chain)
	if err != nil || tw.Tip != nd.Tip().String() || len(tw.Errors) > 0 {
		fail("twin linear sync failed: %v %+v", err, tw)
		return
	}
	dN, bestN, ok := dumpNow()
	if !ok {
		return
	}
	c.Inc("N_twin_linear_sync_compares")
	c.Max("max:N_twin_synced_height", int64(tw.Height))
	if tw.Best != bestN {
		c13Viol(c, "reorg:best-state-differs-from-linear-sync", fmt.Sprintf("node %s, twin %s", bestN, tw.Best), nil)
	}
	reportDiffs("reorg:index-state-differs-from-linear-sync", "a node that went through the reorganisations and a twin that synced the same active chain linearly hold different index state (twin -> node)", tw.dump(), dN, map[string]bool{})
}

package props

import (
	"bytes"
	"encoding/hex"
	"encoding/json"
	"fmt"
	"math/big"
	"os"
	"os/exec"
	"path/filepath"
	"sort"
	"strconv"
	"time"

	"github.com/elastos/Elastos.ELA/account"
	"github.com/elastos/Elastos.ELA/common"
	"github.com/elastos/Elastos.ELA/common/config"
	"github.com/elastos/Elastos.ELA/core/types"

	"verif/kit"
	"verif/kit/node"
)

// ---------------------------------------------------------------------------
// C12 harness-side model: the table of every block the harness ever built,
// with parent, height, validity by construction, cumulative work (own compact
// decoding, not the node's CalcWork), the harness-visible UTXO view after the
// block, and the delivery / connection state.
// ---------------------------------------------------------------------------

type c12Out struct {
	ref      node.UTXORef
	height   uint32
	coinbase bool
}

type c12Blk struct {
	id         int
	blk        *types.Block
	hash       common.Uint256
	parent     *c12Blk
	height     uint32
	work       *big.Int // cumulative, model arithmetic
	kind       string   // "" = context-valid by construction, else the injected fault
	chainValid bool     // this block and every ancestor valid
	firstBad   *c12Blk  // first invalid block on the path from genesis (nil when chainValid)
	view       map[node.OutKey]c12Out
	spent      []c12Out // outputs spent on this chain (bounded tail)
	tree       int
	delivered  bool
	connected  bool // delivered and every ancestor delivered
	wasOrphan  bool // delivered before its parent was connected
	honest     bool // produced by nd.MineTip / heal (never an injected fault)
	connSeq    int
	delivSeq   int  // arrival order (first delivery)
	dropped    int  // times the node rejected the block outright and forgot it
	lost       bool // stuck in the node's orphan pool for good (reported), excluded from the model
}

type c12Model struct {
	owner      map[common.Uint168]*account.Account
	byHash     map[common.Uint256]*c12Blk
	kids       map[*c12Blk][]*c12Blk
	all        []*c12Blk
	bestWork   *big.Int
	best       []*c12Blk // connected, chain-valid blocks of maximal work, in connection order
	connCount  int
	delivCount int
}

func newC12Model() *c12Model {
	m := &c12Model{owner: map[common.Uint168]*account.Account{}, byHash: map[common.Uint256]*c12Blk{},
		kids: map[*c12Blk][]*c12Blk{}, bestWork: new(big.Int)}
	for i := 0; i < 6; i++ {
		a := node.Key(i)
		m.owner[a.ProgramHash] = a
	}
	return m
}

var c12OneLsh256 = new(big.Int).Lsh(big.NewInt(1), 256)

// c12BlockWork is the reference work of one block: 2^256 / (target+1).
func c12BlockWork(bits uint32) *big.Int {
	t := refCompactToBig(bits)
	if t.Sign() <= 0 {
		return new(big.Int)
	}
	return new(big.Int).Div(c12OneLsh256, new(big.Int).Add(t, big.NewInt(1)))
}

// add registers a block built on parent p (nil for genesis). kind "" means
// context-valid by construction.
func (m *c12Model) add(p *c12Blk, b *types.Block, kind string, tree int) *c12Blk {
	t := &c12Blk{id: len(m.all), blk: b, hash: b.Hash(), parent: p, height: b.Height, kind: kind, tree: tree}
	w := c12BlockWork(b.Bits)
	if p != nil {
		t.work = new(big.Int).Add(p.work, w)
		t.chainValid = p.chainValid && kind == ""
		t.firstBad = p.firstBad
		if t.firstBad == nil && kind != "" {
			t.firstBad = t
		}
	} else {
		t.work = w
		t.chainValid = true
	}
	m.applyView(p, t)
	m.byHash[t.hash] = t
	if p != nil {
		m.kids[p] = append(m.kids[p], t)
	}
	m.all = append(m.all, t)
	return t
}

// applyView derives the UTXO view after t from the parent's view. Inputs that
// are not in the view (double spends in faulty blocks) are ignored.
func (m *c12Model) applyView(p, t *c12Blk) {
	view := map[node.OutKey]c12Out{}
	var spent []c12Out
	if p != nil {
		for k, v := range p.view {
			view[k] = v
		}
		spent = append(spent, p.spent...)
	}
	for ti, tx := range t.blk.Transactions {
		if ti > 0 {
			for _, in := range tx.Inputs() {
				k := node.OutKey{TxID: in.Previous.TxID, Index: in.Previous.Index}
				if o, ok := view[k]; ok {
					delete(view, k)
					spent = append(spent, o)
				}
			}
		}
		txid := tx.Hash()
		for i, o := range tx.Outputs() {
			a, ok := m.owner[o.ProgramHash]
			if !ok || o.Value <= 0 {
				continue
			}
			view[node.OutKey{TxID: txid, Index: uint16(i)}] = c12Out{
				ref:    node.UTXORef{TxID: txid, Index: uint16(i), Value: o.Value, Owner: a},
				height: t.height, coinbase: ti == 0 && tx.IsCoinBaseTx()}
		}
	}
	if len(spent) > 48 {
		spent = spent[len(spent)-48:]
	}
	t.view, t.spent = view, spent
}

// deliver marks t delivered and returns the blocks that became connected by
// this delivery (t itself and cascaded former orphans), in BFS order.
func (m *c12Model) deliver(t *c12Blk) []*c12Blk {
	if t.delivered {
		return nil
	}
	t.delivered = true
	m.delivCount++
	t.delivSeq = m.delivCount
	if t.parent != nil && !t.parent.connected {
		t.wasOrphan = true
		return nil
	}
	var out []*c12Blk
	q := []*c12Blk{t}
	for len(q) > 0 {
		x := q[0]
		q = q[1:]
		m.connect(x)
		out = append(out, x)
		q = append(q, m.waitingKids(x, false)...)
	}
	return out
}

// waitingKids lists the delivered children of x in arrival order, as the
// node's orphan index keeps them. connected=false: not yet connected ones.
func (m *c12Model) waitingKids(x *c12Blk, connected bool) []*c12Blk {
	var ks []*c12Blk
	for _, k := range m.kids[x] {
		if k.delivered && k.connected == connected && !k.lost {
			ks = append(ks, k)
		}
	}
	sort.Slice(ks, func(i, j int) bool { return ks[i].delivSeq < ks[j].delivSeq })
	return ks
}

func (m *c12Model) connect(x *c12Blk) {
	x.connected = true
	m.connCount++
	x.connSeq = m.connCount
	if !x.chainValid {
		return
	}
	switch x.work.Cmp(m.bestWork) {
	case 1:
		m.bestWork = x.work
		m.best = []*c12Blk{x}
	case 0:
		m.best = append(m.best, x)
	}
}

// forgive removes the subtree of b from the set of connected blocks (the node
// holds it in its orphan pool and, its parent being known already, will never
// connect it) and recomputes the admissible tips.
func (m *c12Model) forgive(b *c12Blk) {
	q := []*c12Blk{b}
	for len(q) > 0 {
		x := q[0]
		q = q[1:]
		x.connected = false
		x.lost = true
		q = append(q, m.kids[x]...)
	}
	m.bestWork = new(big.Int)
	m.best = nil
	var conn []*c12Blk
	for _, x := range m.all {
		if x.connected && x.chainValid {
			conn = append(conn, x)
		}
	}
	sort.Slice(conn, func(i, j int) bool { return conn[i].connSeq < conn[j].connSeq })
	for _, x := range conn {
		switch x.work.Cmp(m.bestWork) {
		case 1:
			m.bestWork = x.work
			m.best = []*c12Blk{x}
		case 0:
			m.best = append(m.best, x)
		}
	}
}

func (m *c12Model) admissible(t *c12Blk) bool {
	for _, b := range m.best {
		if b == t {
			return true
		}
	}
	return false
}

func (t *c12Blk) ancestorAt(h uint32) *c12Blk {
	x := t
	for x != nil && x.height > h {
		x = x.parent
	}
	return x
}

func (t *c12Blk) isAncestorOf(d *c12Blk) bool {
	return d.ancestorAt(t.height) == t
}

func c12Fork(a, b *c12Blk) *c12Blk {
	for a != nil && b != nil && a != b {
		if a.height >= b.height {
			a = a.parent
		} else {
			b = b.parent
		}
	}
	if a == nil {
		return b
	}
	return a
}

// pathFromGenesis returns blocks of height 1..t.height.
func (t *c12Blk) pathFromGenesis() []*c12Blk {
	var p []*c12Blk
	for x := t; x != nil && x.parent != nil; x = x.parent {
		p = append(p, x)
	}
	for i, j := 0, len(p)-1; i < j; i, j = i+1, j-1 {
		p[i], p[j] = p[j], p[i]
	}
	return p
}

// ---------------------------------------------------------------------------
// Twin: a fresh node in a sub-process that is fed ONE linear chain from
// height 1. It reports how many leading blocks were accepted as the new tip and
// the error of the first rejected block. This is the independent validity
// cross-check for the by-construction labels and for violation witnesses.
// ---------------------------------------------------------------------------

// c12Cfg is the part of the node configuration a C12 node, its twins and its
// era-boundary sub-runs must share.
type c12Cfg struct {
	Maturity  uint32 `json:"maturity"`
	VoteStart uint32 `json:"vote_start"`
	CRCOnly   uint32 `json:"crc_only"` // 0 = regnet default (211000); else CRCOnlyDPOSHeight
}

func (g c12Cfg) String() string {
	return fmt.Sprintf("maturity=%d voteStart=%d crcOnlyDPOSHeight=%d", g.Maturity, g.VoteStart, g.CRCOnly)
}

type c12TwinJob struct {
	Cfg    c12Cfg   `json:"cfg"`
	Blocks []string `json:"blocks"`
}

type c12TwinOut struct {
	Accepted int    `json:"accepted"`
	Err      string `json:"err"`
	Height   uint32 `json:"height"`
	Fail     string `json:"fail"` // structural failure of the twin itself
}

func c12Options(dir string, g c12Cfg) node.Options {
	return node.Options{Dir: dir, CoinbaseMaturity: g.Maturity, Tweak: func(cfg *config.Configuration) {
		if g.VoteStart != 0 {
			cfg.VoteStartHeight = g.VoteStart
		}
		if g.CRCOnly != 0 {
			cfg.CRCOnlyDPOSHeight = g.CRCOnly
		}
	}}
}

// runC12Twin runs inside the sub-process.
func runC12Twin(c *kit.Ctx, jobPath string) {
	out := c12TwinOut{}
	defer func() {
		b, _ := json.Marshal(&out)
		os.WriteFile(filepath.Join(c.WorkDir, "twin_out.json"), b, 0644)
	}()
	raw, err := os.ReadFile(jobPath)
	var job c12TwinJob
	if err == nil {
		err = json.Unmarshal(raw, &job)
	}
	if err != nil {
		out.Fail = "job: " + err.Error()
		return
	}
	nd, err := node.Start(c12Options(c.WorkDir, job.Cfg))
	if err != nil {
		out.Fail = "node start: " + err.Error()
		return
	}
	defer nd.Close()
	for _, hx := range job.Blocks {
		bs, err := hex.DecodeString(hx)
		if err != nil {
			out.Fail = "hex: " + err.Error()
			return
		}
		blk := &types.Block{}
		if err := blk.Deserialize(bytes.NewReader(bs)); err != nil {
			out.Fail = "deserialize: " + err.Error()
			return
		}
		_, _, perr := nd.Process(blk)
		if perr != nil || nd.Tip() != blk.Hash() {
			if perr != nil {
				out.Err = perr.Error()
			} else {
				out.Err = "not-tip"
			}
			break
		}
		out.Accepted++
	}
	out.Height = nd.Height()
}

// c12Twin replays chain (heights 1..n) on a fresh node in a sub-process.
func c12Twin(c *kit.Ctx, seq int, cfg c12Cfg, chain []*c12Blk) (c12TwinOut, error) {
	var out c12TwinOut
	dir := filepath.Join(c.WorkDir, fmt.Sprintf("twin%04d", seq))
	if err := os.MkdirAll(dir, 0755); err != nil {
		return out, err
	}
	defer os.RemoveAll(dir)
	job := c12TwinJob{Cfg: cfg}
	for _, b := range chain {
		buf := new(bytes.Buffer)
		if err := b.blk.Serialize(buf); err != nil {
			return out, err
		}
		job.Blocks = append(job.Blocks, hex.EncodeToString(buf.Bytes()))
	}
	jb, _ := json.Marshal(&job)
	jobPath := filepath.Join(dir, "job.json")
	if err := os.WriteFile(jobPath, jb, 0644); err != nil {
		return out, err
	}
	self, err := os.Executable()
	if err != nil {
		return out, err
	}
	cmd := exec.Command(self, "--child", c.Prop, c.Tier, strconv.FormatInt(c.Seed, 10),
		strconv.Itoa(c.Shard), strconv.Itoa(c.Shards), dir)
	cmd.Env = append(os.Environ(), "VERIF_C12_TWIN="+jobPath)
	if err := cmd.Start(); err != nil {
		return out, err
	}
	done := make(chan error, 1)
	go func() { done <- cmd.Wait() }()
	select {
	case err = <-done:
	case <-time.After(180 * time.Second): // watchdog: only ever makes the cross-check unavailable
		cmd.Process.Kill()
		<-done
		return out, fmt.Errorf("twin watchdog")
	}
	if err != nil {
		return out, fmt.Errorf("twin exit: %v", err)
	}
	raw, err := os.ReadFile(filepath.Join(dir, "twin_out.json"))
	if err != nil {
		return out, err
	}
	if err := json.Unmarshal(raw, &out); err != nil {
		return out, err
	}
	if out.Fail != "" {
		return out, fmt.Errorf("twin: %s", out.Fail)
	}
	return out, nil
}

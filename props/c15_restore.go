package props

import (
	"bytes"
	"encoding/binary"
	"fmt"
	"math/rand"
	"os"
	"path/filepath"

	"github.com/btcsuite/btcd/wire"
	"github.com/elastos/Elastos.ELA/blockchain/indexers"
	"github.com/elastos/Elastos.ELA/common"
	"github.com/elastos/Elastos.ELA/common/config"
	pg "github.com/elastos/Elastos.ELA/core/contract/program"
	"github.com/elastos/Elastos.ELA/core/types"
	common2 "github.com/elastos/Elastos.ELA/core/types/common"
	"github.com/elastos/Elastos.ELA/core/types/functions"
	"github.com/elastos/Elastos.ELA/core/types/interfaces"
	"github.com/elastos/Elastos.ELA/core/types/payload"
	"github.com/elastos/Elastos.ELA/database"

	"verif/kit"
	"verif/kit/node"
)

// Checkpoint-restore family of the indexed-transaction cache.
//
// indexers.Checkpoint (key "utx", *.txcp) serializes the TxCache; restoring it
// goes through TxCache.Deserialize. No production code registers this
// checkpoint with the checkpoint manager (only the exported constructor
// exists), so a node restart never reads such a file and the family is driven
// at index level, on a private ffldb per variant, through exported API only:
// TxIndex + UnspentIndex Create/ConnectBlock/DisconnectBlock as the index
// manager calls them, NewCheckpoint(idx).Serialize/Deserialize, FetchTx.
//
//   1. a writer index with the default profile connects blocks (coinbases,
//      transfers, fully spent txs, zero-output txs, a tx with more inputs than
//      MaxCacheInputsCountPerTransaction) and writes the checkpoint;
//   2. the checkpoint (plus one appended entry that exceeds the input cap, as a
//      file from a build with another cap would hold) is restored into a fresh
//      index under the default profile, under the memory-first profile
//      (NodeProfileStrategy: the cache is meant to stay empty), and - after a
//      memory-first run rewrote it - under the default profile again;
//   3. the restored index is then THE index of the database: blocks written
//      before the restore are disconnected, new ones connected, branches
//      replaced; after every step FetchTx of the restored index is compared
//      with FetchTx of an index whose cache is empty, for every known txid,
//      and the occupancy/admission bounds are read from the cache's own
//      serialization.

type c15cpEntry struct {
	height uint32
	nIn    int
}

type c15cpWorld struct {
	c       *kit.Ctx
	r       *rand.Rand
	profile string
	db      database.DB
	txi     *indexers.TxIndex
	idx     *indexers.UnspentIndex // the index that maintains the database
	unc     *indexers.UnspentIndex // never restored, memory-first: its cache is always empty
	vol     uint32

	chain   []*types.Block
	avail   []c15SU
	known   map[common.Uint256]interfaces.Transaction
	order   []common.Uint256
	onChain map[common.Uint256]uint32
	maxTxs  int
	big     interfaces.Transaction // connected tx with more inputs than the cap
	bigH    uint32
	after   bool // restored cache in use
}

var c15cpHashIdx = []byte("hashidx")

func c15cpParams(memFirst bool, vol uint32) *config.Configuration {
	p := config.GetDefaultParams()
	cp := *p
	cp.MemoryFirst = memFirst
	cp.TxCacheVolume = vol
	return &cp
}

func (w *c15cpWorld) learn(tx interfaces.Transaction) {
	id := tx.Hash()
	if _, ok := w.known[id]; !ok {
		w.known[id] = tx
		w.order = append(w.order, id)
	}
}

func (w *c15cpWorld) nonce() []*common2.Attribute {
	nb := make([]byte, 8)
	w.r.Read(nb)
	a := common2.NewAttribute(common2.Nonce, nb)
	return []*common2.Attribute{&a}
}

func (w *c15cpWorld) take(n int) []c15SU {
	var us []c15SU
	for i := 0; i < n && len(w.avail) > 0; i++ {
		j := w.r.Intn(len(w.avail))
		if w.r.Intn(2) == 0 {
			j = len(w.avail) - 1 - w.r.Intn(minInt(4, len(w.avail)))
		}
		us = append(us, w.avail[j])
		w.avail = append(w.avail[:j:j], w.avail[j+1:]...)
	}
	return us
}

func (w *c15cpWorld) mkTx(kind string) interfaces.Transaction {
	r := w.r
	dummy := []*pg.Program{{Code: []byte{1}, Parameter: []byte{1}}}
	ph := node.Key(c15Accts[r.Intn(len(c15Accts))]).ProgramHash
	mk := func(ins []*common2.Input, outs []*common2.Output) interfaces.Transaction {
		return functions.CreateTransaction(common2.TxVersion09, common2.TransferAsset, 0, &payload.TransferAsset{}, w.nonce(), ins, outs, 0, dummy)
	}
	switch kind {
	case "record":
		return functions.CreateTransaction(common2.TxVersion09, common2.Record, 0, &payload.Record{Type: "c15", Content: []byte{byte(r.Intn(256))}},
			w.nonce(), nil, nil, 0, []*pg.Program{})
	case "mint":
		var outs []*common2.Output
		for i := 0; i < 1+r.Intn(3); i++ {
			outs = append(outs, c15Out0(ph, common.Fixed64(1000+r.Intn(100000))))
		}
		return mk(nil, outs)
	case "fan": // many outputs, feeds the over-cap spender
		var outs []*common2.Output
		for i := 0; i < indexers.MaxCacheInputsCountPerTransaction+20; i++ {
			outs = append(outs, c15Out0(ph, 1000))
		}
		return mk(nil, outs)
	case "burn":
		us := w.take(1 + r.Intn(2))
		if len(us) == 0 {
			return w.mkTx("mint")
		}
		ins, _ := insOfSU(us)
		return mk(ins, nil)
	default:
		us := w.take(1 + r.Intn(2))
		if len(us) == 0 {
			return w.mkTx("mint")
		}
		ins, tot := insOfSU(us)
		n := 1 + r.Intn(3)
		var outs []*common2.Output
		for i := 0; i < n; i++ {
			outs = append(outs, c15Out0(ph, tot/common.Fixed64(n)))
		}
		return mk(ins, outs)
	}
}

func (w *c15cpWorld) mkBlock(txs []interfaces.Transaction) *types.Block {
	h := uint32(len(w.chain) + 1)
	var prev common.Uint256
	ts := uint32(1000)
	if len(w.chain) > 0 {
		prev = w.chain[len(w.chain)-1].Hash()
		ts = w.chain[len(w.chain)-1].Timestamp + 1
	}
	nb := make([]byte, 8)
	w.r.Read(nb)
	cb := functions.CreateTransaction(0, common2.CoinBase, 0, &payload.CoinBase{Content: nb}, []*common2.Attribute{}, nil,
		[]*common2.Output{c15Out0(node.Key(1).ProgramHash, 100), c15Out0(node.Key(0).ProgramHash, 200)}, h, []*pg.Program{})
	b := &types.Block{Header: common2.Header{Previous: prev, Timestamp: ts, Height: h, Nonce: w.r.Uint32()},
		Transactions: append([]interfaces.Transaction{cb}, txs...)}
	node.Seal(b, false)
	return b
}

func (w *c15cpWorld) randomTxs(reuse []interfaces.Transaction) []interfaces.Transaction {
	var txs []interfaces.Transaction
	used := map[common2.OutPoint]bool{}
	for _, tx := range reuse { // txs of a replaced branch, possibly at another height now
		ok := w.r.Intn(2) == 0
		for _, in := range tx.Inputs() {
			found := false
			for _, a := range w.avail {
				if a.op == in.Previous {
					found = true
				}
			}
			ok = ok && found && !used[in.Previous]
		}
		if _, on := w.onChain[tx.Hash()]; on || !ok {
			continue
		}
		for _, in := range tx.Inputs() {
			used[in.Previous] = true
			for j, a := range w.avail {
				if a.op == in.Previous {
					w.avail = append(w.avail[:j:j], w.avail[j+1:]...)
					break
				}
			}
		}
		txs = append(txs, tx)
	}
	kinds := []string{"transfer", "transfer", "burn", "record", "mint", "transfer"}
	for i, k := 0, w.r.Intn(4); i < k; i++ {
		txs = append(txs, w.mkTx(kinds[w.r.Intn(len(kinds))]))
	}
	return txs
}

func (w *c15cpWorld) connect(b *types.Block) bool {
	hash := b.Hash()
	err := w.db.Update(func(dbTx database.Tx) error {
		has, err := dbTx.HasBlock(hash)
		if err != nil {
			return err
		}
		if !has {
			buf := new(bytes.Buffer)
			if err := (&types.DposBlock{Block: b}).Serialize(buf); err != nil {
				return err
			}
			if err := dbTx.StoreBlock(hash, buf.Bytes()); err != nil {
				return err
			}
		}
		var hb [4]byte
		binary.LittleEndian.PutUint32(hb[:], b.Height)
		if err := dbTx.Metadata().Bucket(c15cpHashIdx).Put(hash[:], hb[:]); err != nil {
			return err
		}
		if err := w.txi.ConnectBlock(dbTx, b); err != nil {
			return err
		}
		return w.idx.ConnectBlock(dbTx, b)
	})
	if err != nil {
		w.c.Note("checkpoint family (%s): connect failed: %v", w.profile, err)
		w.c.Inc("cp_connect_errors")
		return false
	}
	for _, tx := range b.Transactions {
		w.learn(tx)
		w.onChain[tx.Hash()] = b.Height
	}
	w.chain = append(w.chain, b)
	w.rebuildAvail()
	if len(b.Transactions) > w.maxTxs {
		w.maxTxs = len(b.Transactions)
	}
	w.c.Inc("cp_blocks_connected")
	return true
}

func (w *c15cpWorld) disconnect() bool {
	b := w.chain[len(w.chain)-1]
	hash := b.Hash()
	err := w.db.Update(func(dbTx database.Tx) error {
		if err := w.txi.DisconnectBlock(dbTx, b); err != nil {
			return err
		}
		if err := w.idx.DisconnectBlock(dbTx, b); err != nil {
			return err
		}
		return dbTx.Metadata().Bucket(c15cpHashIdx).Delete(hash[:])
	})
	if err != nil {
		w.c.Inconclusive("checkpoint family (%s): disconnect failed: %v", w.profile, err)
		return false
	}
	for _, tx := range b.Transactions {
		delete(w.onChain, tx.Hash())
	}
	w.chain = w.chain[:len(w.chain)-1]
	w.rebuildAvail()
	w.c.Inc("cp_blocks_disconnected")
	if w.after {
		w.c.Inc("restored_cache_disconnects_checked")
	}
	return true
}

// rebuildAvail recomputes the unspent outputs of the connected chain.
func (w *c15cpWorld) rebuildAvail() {
	spent := map[common2.OutPoint]bool{}
	for _, b := range w.chain {
		for _, tx := range b.Transactions[1:] {
			for _, in := range tx.Inputs() {
				spent[in.Previous] = true
			}
		}
	}
	w.avail = w.avail[:0:0]
	for _, b := range w.chain {
		for _, tx := range b.Transactions {
			for i, o := range tx.Outputs() {
				op := common2.OutPoint{TxID: tx.Hash(), Index: uint16(i)}
				if !spent[op] {
					w.avail = append(w.avail, c15SU{op: op, val: o.Value, ph: o.ProgramHash})
				}
			}
		}
	}
}

// entries reads the cache content from its own serialization.
func c15cpEntries(idx *indexers.UnspentIndex) (map[common.Uint256]c15cpEntry, error) {
	buf := new(bytes.Buffer)
	if err := idx.TxCache.Serialize(buf); err != nil {
		return nil, err
	}
	r := bytes.NewReader(buf.Bytes())
	n, err := common.ReadVarUint(r, 0)
	if err != nil {
		return nil, err
	}
	m := map[common.Uint256]c15cpEntry{}
	for i := uint64(0); i < n; i++ {
		var ti indexers.TxInfo
		if err := ti.Deserialize(r); err != nil {
			return nil, err
		}
		m[ti.Txn.Hash()] = c15cpEntry{height: ti.BlockHeight, nIn: len(ti.Txn.Inputs())}
	}
	return m, nil
}

// compare: cached FetchTx vs FetchTx of an index with an empty cache, every known txid.
func (w *c15cpWorld) compare(stage string) {
	c := w.c
	ents, err := c15cpEntries(w.idx)
	if err != nil {
		c.Note("checkpoint family: cache serialization unreadable: %v", err)
		ents = nil
	}
	if w.after {
		c.Max("max:cp_restored_cache_entries_"+w.profile, int64(len(ents)))
	} else {
		c.Max("max:cp_writer_cache_entries", int64(len(ents)))
	}
	tag := ":writer"
	if w.after {
		tag = ":" + w.profile
		// bounds of the restored cache
		memFirst := w.profile == "memory-first"
		if memFirst && len(ents) > 0 {
			c.Violate("bound:txcache:checkpoint-restore:populated-under-memory-first",
				fmt.Sprintf("%s: the tx cache holds %d entries under the memory-first profile (setTxn/deleteTxn/trim are disabled there, nothing can evict them)", stage, len(ents)), nil)
		}
		if lim := int(w.vol) + indexers.TrimmingInterval + w.maxTxs; len(ents) > lim {
			c.Violate("bound:txcache:checkpoint-restore", fmt.Sprintf("%s: %d entries, limit %d", stage, len(ents), lim), nil)
		}
		for id, en := range ents {
			if en.nIn > indexers.MaxCacheInputsCountPerTransaction {
				c.Violate("bound:txcache:checkpoint-restore:entry-over-input-cap",
					fmt.Sprintf("%s (%s): cached tx %s has %d inputs, MaxCacheInputsCountPerTransaction=%d", stage, w.profile, id.String()[:16], en.nIn, indexers.MaxCacheInputsCountPerTransaction), nil)
			}
		}
	}
	for _, id := range w.order {
		_, hit := ents[id]
		gtx, gh, gerr := w.idx.FetchTx(id)
		utx, uh, uerr := w.unc.FetchTx(id)
		mh, on := w.onChain[id]
		if w.after {
			c.Inc("restored_cache_lookups")
			if hit {
				c.Inc("restored_cache_hits")
			}
			if !on {
				c.Inc("restored_cache_rolled_back_probes")
			}
		} else {
			c.Inc("cp_writer_lookups")
		}
		w.c.Case("cp:"+w.profile+":"+id.String()+fmt.Sprint(on, mh), true)
		if (uerr == nil) != on || (uerr == nil && uh != mh) {
			c.Inc("store_vs_model_disagreements")
			c.Note("checkpoint family: uncached index and model disagree on %s (err=%v h=%d, model on=%v h=%d)", id.String()[:16], uerr, uh, on, mh)
		}
		switch {
		case gerr == nil && uerr != nil:
			sig := "txcache:checkpoint-restore:answers-where-uncached-fails" + tag
			if !on {
				sig = "txcache:checkpoint-restore:serves-rolled-back-tx" + tag
			}
			c.Violate(sig, fmt.Sprintf("%s: FetchTx(%s) answers height %d from the cache (entry present=%v), the index with an empty cache says: %v", stage, id.String()[:16], gh, hit, uerr),
				map[string]interface{}{"profile": w.profile, "stage": stage})
		case gerr != nil && uerr == nil:
			c.Violate("txcache:checkpoint-restore:spurious-error"+tag, fmt.Sprintf("%s: FetchTx(%s): %v, uncached finds it at height %d", stage, id.String()[:16], gerr, uh), nil)
		case gerr == nil && gh != uh:
			c.Violate("txcache:checkpoint-restore:wrong-height"+tag, fmt.Sprintf("%s: FetchTx(%s) height %d (entry present=%v), uncached %d", stage, id.String()[:16], gh, hit, uh), nil)
		case gerr == nil && txAnswerEq(gtx, utx) == "differs":
			c.Violate("txcache:checkpoint-restore:differs-from-store"+tag, fmt.Sprintf("%s: FetchTx(%s) differs from the stored transaction", stage, id.String()[:16]), nil)
		default:
			if w.after {
				c.Inc("restored_cache_answers_equal")
			}
		}
	}
}

// checkpointBytes serializes the writer's checkpoint and appends one entry
// whose transaction exceeds the input cap.
func (w *c15cpWorld) checkpointBytes(src *indexers.UnspentIndex, addOverCap bool) ([]byte, int, error) {
	buf := new(bytes.Buffer)
	if err := indexers.NewCheckpoint(src).Serialize(buf); err != nil {
		return nil, 0, err
	}
	raw := buf.Bytes()
	r := bytes.NewReader(raw)
	h, err := common.ReadUint32(r)
	if err != nil {
		return nil, 0, err
	}
	n, err := common.ReadVarUint(r, 0)
	if err != nil {
		return nil, 0, err
	}
	if !addOverCap || w.big == nil {
		return raw, int(n), nil
	}
	rest := raw[len(raw)-r.Len():]
	out := new(bytes.Buffer)
	common.WriteUint32(out, h)
	common.WriteVarUint(out, n+1)
	out.Write(rest)
	(&indexers.TxInfo{BlockHeight: w.bigH, Txn: w.big}).Serialize(out)
	return out.Bytes(), int(n) + 1, nil
}

func (e *c15Env) checkpointRestore() {
	c := e.c
	for vi, profile := range []string{"default", "memory-first", "memfirst-then-default"} {
		dir := filepath.Join(c.WorkDir, "txcp-"+profile)
		os.MkdirAll(dir, 0755)
		db, err := database.Create("ffldb", dir, wire.MainNet)
		if err != nil {
			c.Inconclusive("checkpoint family: cannot create db: %v", err)
			return
		}
		func() {
			defer db.Close()
			r := c.Rand("c15-checkpoint") // same history for every profile
			vol := uint32(3 + r.Intn(20))
			w := &c15cpWorld{c: c, r: r, profile: profile, db: db, vol: vol, txi: indexers.NewTxIndex(db),
				known: map[common.Uint256]interfaces.Transaction{}, onChain: map[common.Uint256]uint32{}}
			w.idx = indexers.NewUnspentIndex(db, c15cpParams(false, vol)) // writer, default profile
			w.unc = indexers.NewUnspentIndex(db, c15cpParams(true, vol))
			err := db.Update(func(dbTx database.Tx) error {
				if err := w.txi.Create(dbTx); err != nil {
					return err
				}
				if err := w.idx.Create(dbTx); err != nil {
					return err
				}
				_, err := dbTx.Metadata().CreateBucket(c15cpHashIdx)
				return err
			})
			if err != nil {
				c.Inconclusive("checkpoint family: index buckets: %v", err)
				return
			}
			// 1. writer run
			nw := 6 + r.Intn(5)
			for i := 0; i < nw; i++ {
				var txs []interfaces.Transaction
				switch {
				case i == 1:
					txs = []interfaces.Transaction{w.mkTx("fan"), w.mkTx("mint")}
				case i == 2: // spender with more inputs than the cache admits
					var us []c15SU
					for j := 0; j < len(w.avail); j++ {
						if len(us) <= indexers.MaxCacheInputsCountPerTransaction && w.avail[j].val == 1000 {
							us = append(us, w.avail[j])
							w.avail = append(w.avail[:j:j], w.avail[j+1:]...)
							j--
						}
					}
					ins, tot := insOfSU(us)
					w.big = functions.CreateTransaction(common2.TxVersion09, common2.TransferAsset, 0, &payload.TransferAsset{}, w.nonce(), ins,
						[]*common2.Output{c15Out0(node.Key(2).ProgramHash, tot)}, 0, []*pg.Program{{Code: []byte{1}, Parameter: []byte{1}}})
					w.bigH = uint32(len(w.chain) + 1)
					txs = append([]interfaces.Transaction{w.big}, w.randomTxs(nil)...)
				default:
					txs = w.randomTxs(nil)
				}
				if !w.connect(w.mkBlock(txs)) {
					return
				}
				w.compare(fmt.Sprintf("writer block %d", i))
			}
			if w.big == nil || len(w.big.Inputs()) <= indexers.MaxCacheInputsCountPerTransaction {
				c.Inconclusive("checkpoint family: over-cap spender not built")
				return
			}
			wents, _ := c15cpEntries(w.idx)
			if _, in := wents[w.big.Hash()]; in {
				c.Violate("bound:txcache:entry-over-input-cap", fmt.Sprintf("the writer cached a tx with %d inputs", len(w.big.Inputs())), nil)
			}
			c.Count("cp_writer_cache_entries", int64(len(wents)))
			// 2. checkpoint -> restore
			cp, n, err := w.checkpointBytes(w.idx, true)
			if err != nil || n == 0 {
				c.Inconclusive("checkpoint family: empty or unreadable checkpoint (%v)", err)
				return
			}
			c.Count("cp_checkpoint_entries", int64(n))
			restore := func(memFirst bool, data []byte) *indexers.UnspentIndex {
				idx := indexers.NewUnspentIndex(db, c15cpParams(memFirst, vol))
				if err := indexers.NewCheckpoint(idx).Deserialize(bytes.NewReader(data)); err != nil {
					c.Inconclusive("checkpoint family: restore failed: %v", err)
					return nil
				}
				if memFirst {
					c.Inc("txcache_restored_memory_first")
				} else {
					c.Inc("txcache_restored_default_profile")
				}
				return idx
			}
			switch profile {
			case "default":
				w.idx = restore(false, cp)
			case "memory-first":
				w.idx = restore(true, cp)
			default:
				mid := restore(true, cp) // the memory-first run rewrites the checkpoint ...
				if mid == nil {
					return
				}
				cp2, _, err := w.checkpointBytes(mid, false)
				if err != nil {
					c.Inconclusive("checkpoint family: re-serialize: %v", err)
					return
				}
				w.idx = restore(false, cp2) // ... and a default-profile run restores that
			}
			if w.idx == nil {
				return
			}
			w.after = true
			rents, _ := c15cpEntries(w.idx)
			c.Count("cp_restored_cache_entries_"+profile, int64(len(rents)))
			w.compare("after restore")
			if vi == 0 && c.Shard == 0 {
				c.Sample(map[string]interface{}{"kind": "checkpoint restore", "profile": profile, "checkpoint_entries": n, "restored_entries": len(rents), "writer_blocks": nw})
			}
			// 3. the restored index maintains the database: first take blocks of
			// the writer run away, then a random walk of disconnect / connect / replace
			for k := 1 + r.Intn(3); k > 0 && len(w.chain) > 3; k-- {
				if !w.disconnect() {
					return
				}
				w.compare("disconnect of a pre-restore block")
			}
			steps := c.N(14, 120)
			for i := 0; i < steps; i++ {
				switch x := r.Intn(10); {
				case x < 4 || len(w.chain) <= 3:
					if !w.connect(w.mkBlock(w.randomTxs(nil))) {
						return
					}
					w.compare("connect")
				case x < 7:
					if !w.disconnect() {
						return
					}
					w.compare("disconnect")
				default: // replace the last d blocks by d+1 others, re-including some of their txs
					d := 1 + r.Intn(minInt(3, len(w.chain)-3))
					var old []interfaces.Transaction
					for j := 0; j < d; j++ {
						old = append(old, w.chain[len(w.chain)-1].Transactions[1:]...)
						if !w.disconnect() {
							return
						}
					}
					w.compare("branch detached")
					for j := 0; j <= d; j++ {
						if !w.connect(w.mkBlock(w.randomTxs(old))) {
							return
						}
					}
					c.Inc("cp_branches_replaced")
					w.compare("branch replaced")
				}
			}
		}()
		os.RemoveAll(dir)
	}
}

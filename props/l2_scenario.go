package props

import (
	"bytes"
	"fmt"
	"math"
	"math/rand"
	"sort"

	"github.com/elastos/Elastos.ELA/account"
	"github.com/elastos/Elastos.ELA/common"
	"github.com/elastos/Elastos.ELA/core/types"
	common2 "github.com/elastos/Elastos.ELA/core/types/common"
	"github.com/elastos/Elastos.ELA/core/types/interfaces"
	"github.com/elastos/Elastos.ELA/core/types/payload"
	crstate "github.com/elastos/Elastos.ELA/cr/state"
	"github.com/elastos/Elastos.ELA/dpos/state"

	"verif/kit/node"
)

// ---------------------------------------------------------------------------
// Level-2 scenario: the world (node + wallet + seeded stream) and the
// STATELESS operation generator used both by the builder (canonical chain) and
// by node A (losing branches). Every operation reads its preconditions from
// the live node state and the wallet's UTXO view, builds a signed transaction
// with the kit factory and hands it to the real mempool; whatever the mempool
// accepts is mined into the next block. Nothing is assumed valid by the
// harness: validity is decided by the node's own validation.
// ---------------------------------------------------------------------------

const (
	l2Producers = 18 // owner Key(200+i) / node Key(300+i); alt node keys Key(340+i)
	l2CRs       = 8
	l2Voters    = 8
)

func l2Po(i int) *account.Account    { return node.Key(node.KeyProducerOwner + i) }
func l2Pn(i int) *account.Account    { return node.Key(node.KeyProducerNode + i) }
func l2PnAlt(i int) *account.Account { return node.Key(node.KeyProducerNode + 40 + i) }
func l2Cr(i int) *account.Account    { return node.Key(node.KeyCR + i) }
func l2Crn(i int) *account.Account   { return node.Key(node.KeyCRNode + i) }
func l2CrnAlt(i int) *account.Account {
	return node.Key(node.KeyCRNode + 20 + i)
}
func l2Voter(i int) *account.Account { return node.Key(node.KeyVoter + i) }

type l2World struct {
	nd      *node.Node
	era     *node.Era
	r       *rand.Rand
	w       *node.Wallet
	cnt     map[string]int64
	pend    []interfaces.Transaction
	ops     []string
	tag     string // nickname salt: canonical vs losing branch
	nick    int
	busy    map[string]bool // one state-affecting tx per subject per block
	offline map[int]bool    // producer indices whose node abstains
	profile int             // 1 = committee-focused losing branches (no producer node-key switches, cancellations, offline arbiters)
	trace   func(string, ...interface{})
}

func l2NewWorld(nd *node.Node, eraName string, seed int64, tag string, cnt map[string]int64) *l2World {
	return &l2World{nd: nd, era: node.EraOf(eraName), r: rand.New(rand.NewSource(seed)), w: nd.Wallet(), cnt: cnt, tag: tag,
		busy: map[string]bool{}, offline: map[int]bool{}}
}

func (w *l2World) inc(k string)     { w.cnt[k]++ }
func (w *l2World) h() uint32        { return w.nd.Height() + 1 }
func (w *l2World) st() *state.State { return w.nd.Chain.GetState() }
func (w *l2World) v2Active() bool {
	a := w.nd.Arbiters.GetDPoSV2ActiveHeight()
	return a != math.MaxUint32 && w.h() > a
}
func (w *l2World) v2Started() bool {
	return w.h() >= w.era.DPoSV2Start && w.era.DPoSV2Start != math.MaxUint32
}

func (w *l2World) take(a *account.Account, min common.Fixed64) (node.UTXORef, bool) {
	return w.w.Take(a, min+node.DefaultFee)
}

// submit hands tx to the real mempool. subject: key of the entity the tx acts
// on (at most one such tx per block, like the mempool's own conflict slots).
func (w *l2World) submit(kind, subject string, tx interfaces.Transaction, ins ...node.UTXORef) bool {
	if subject != "" && w.busy[subject] {
		for _, u := range ins {
			w.w.Release(u)
		}
		return false
	}
	w.inc("l2_submitted:" + kind)
	if err := w.nd.TxPool.AppendToTxPool(tx); err != nil {
		w.inc("l2_pool_rejected:" + kind)
		if w.trace != nil {
			w.trace("REJECT %s: %v", kind, err)
		}
		for _, u := range ins {
			w.w.Release(u)
		}
		return false
	}
	if subject != "" {
		w.busy[subject] = true
	}
	w.pend = append(w.pend, tx)
	w.ops = append(w.ops, kind)
	w.inc("l2_pool_accepted:" + kind)
	return true
}

// mine mines the pending transactions (plus node-generated ones) into the next
// block on the tip and returns it.
func (w *l2World) mine() (*l2Mined, error) {
	pend := w.pend
	w.pend = nil
	ops := w.ops
	w.ops = nil
	w.busy = map[string]bool{}
	b, err := w.nd.MineTipDPoS(pend...)
	if err != nil {
		diag := ""
		if b != nil && !w.nd.Tip().IsEqual(b.Hash()) {
			cf, e1 := w.nd.ConfirmFor(b)
			_, _, e2 := w.nd.Chain.ProcessBlock(b, cf)
			arbs := ""
			for _, a := range w.nd.Arbiters.GetArbitrators() {
				arbs += fmt.Sprintf("%x/normal=%v/cr=%v/claimed=%v/key=%v ", a.NodePublicKey[:4], a.IsNormal, a.IsCRMember, a.ClaimedDPOSNode, node.KeyByPub(a.NodePublicKey) != nil)
			}
			nv := 0
			if cf != nil {
				nv = len(cf.Votes)
			}
			diag = fmt.Sprintf(" [diagnosis: confirm err=%v votes=%d, direct ProcessBlock err=%v; arbiters: %s]", e1, nv, e2, arbs)
		}
		return nil, fmt.Errorf("height %d ops %v: %v%s", w.nd.Height()+1, ops, err, diag)
	}
	for _, tx := range b.Transactions[1:] {
		w.inc("l2_mined:" + tx.TxType().Name())
	}
	return &l2Mined{b: b, ops: ops}, nil
}

func (w *l2World) setOffline(i int, off bool) {
	if off {
		w.offline[i] = true
		w.nd.SetOffline(false, l2Pn(i), l2PnAlt(i))
	} else {
		delete(w.offline, i)
		w.nd.SetOffline(true, l2Pn(i), l2PnAlt(i))
	}
}

func (w *l2World) newNick(base string) string {
	w.nick++
	return fmt.Sprintf("%s-%s%d", base, w.tag, w.nick)
}

// producer returns the registered producer of owner i (nil if none).
func (w *l2World) producer(i int) *state.Producer {
	return w.st().GetProducerByOwnerPublicKey(node.Pub(l2Po(i)))
}

func (w *l2World) producersIn(states ...state.ProducerState) []int {
	var out []int
	for i := 0; i < l2Producers; i++ {
		p := w.producer(i)
		if p == nil {
			continue
		}
		for _, s := range states {
			if p.State() == s {
				out = append(out, i)
				break
			}
		}
	}
	return out
}

func (w *l2World) pick(l []int) (int, bool) {
	if len(l) == 0 {
		return 0, false
	}
	return l[w.r.Intn(len(l))], true
}

// nodeKeyInUse: a node key may belong to one producer / CR member only.
func (w *l2World) nodeKeyFree(k *account.Account) bool {
	if w.st().GetProducer(node.Pub(k)) != nil {
		return false
	}
	return w.nd.Committee.GetMemberByNodePublicKey(node.Pub(k)) == nil
}

// ---------- DPoS operations ----------

func (w *l2World) opRegisterProducer(lo, hi int) bool {
	if w.h() < w.era.VoteStart {
		return false
	}
	var free []int
	for i := lo; i < hi; i++ {
		if w.producer(i) == nil && w.nodeKeyFree(l2Pn(i)) && !w.st().ExistProducerByDepositHash(node.DepositAddr(l2Po(i))) {
			free = append(free, i)
		}
	}
	i, ok := w.pick(free)
	if !ok {
		return false
	}
	if w.v2Started() {
		in, ok := w.take(l2Po(i), node.ELA(2000))
		if !ok {
			return false
		}
		until := w.h() + 100000 + uint32(w.r.Intn(50000))
		return w.submit("RegisterProducer-v2", fmt.Sprint("p", i), node.RegisterProducerV2(in, l2Po(i), l2Pn(i), w.newNick(fmt.Sprintf("p%d", i)), node.ELA(2000), until), in)
	}
	in, ok := w.take(l2Po(i), node.ELA(5000))
	if !ok {
		return false
	}
	return w.submit("RegisterProducer", fmt.Sprint("p", i), node.RegisterProducer(in, l2Po(i), l2Pn(i), w.newNick(fmt.Sprintf("p%d", i)), node.ELA(5000)), in)
}

func (w *l2World) opUpdateProducer(cands []int) bool {
	i, ok := w.pick(cands)
	if !ok {
		return false
	}
	p := w.producer(i)
	if p == nil {
		return false
	}
	in, ok := w.take(l2Po(i), node.ELA(1))
	if !ok {
		return false
	}
	info := p.Info()
	nk := node.KeyByPub(info.NodePublicKey)
	if nk == nil {
		nk = l2Pn(i)
	}
	kind := "UpdateProducer"
	if w.r.Intn(3) == 0 && w.profile == 0 { // switch the node key
		alt := l2PnAlt(i)
		if bytes.Equal(info.NodePublicKey, node.Pub(alt)) {
			alt = l2Pn(i)
		}
		if w.nodeKeyFree(alt) {
			nk = alt
			kind = "UpdateProducer-nodekey"
		}
	}
	if p.State() == state.Canceled {
		kind += "-of-canceled"
	}
	return w.submit(kind, fmt.Sprint("p", i), node.UpdateProducer(in, l2Po(i), nk, w.newNick(fmt.Sprintf("p%d", i)), "http://"+w.tag, info.StakeUntil), in)
}

func (w *l2World) opCancelProducer(cands []int) bool {
	i, ok := w.pick(cands)
	if !ok {
		return false
	}
	if p := w.producer(i); p == nil || p.Info().StakeUntil != 0 && p.Identity() == state.DPoSV2 {
		return false // a pure v2 producer cannot be canceled
	}
	in, ok := w.take(l2Po(i), node.ELA(1))
	if !ok {
		return false
	}
	return w.submit("CancelProducer", fmt.Sprint("p", i), node.CancelProducer(in, l2Po(i)), in)
}

func (w *l2World) opActivateProducer() bool {
	i, ok := w.pick(w.producersIn(state.Inactive, state.Illegal))
	if !ok {
		return false
	}
	p := w.producer(i)
	nk := node.KeyByPub(p.Info().NodePublicKey)
	if nk == nil || p.ActivateRequestHeight() != math.MaxUint32 {
		return false
	}
	return w.submit("ActivateProducer-"+p.State().String(), fmt.Sprint("p", i), node.ActivateProducer(nk))
}

// opActivateCRMember: an Inactive CR member with a claimed node asks for activation.
func (w *l2World) opActivateCRMember() bool {
	var l []int
	for i := 0; i < l2CRs; i++ {
		if m := w.nd.Committee.GetMember(node.DIDOf(l2Cr(i))); m != nil && m.MemberState == crstate.MemberInactive && len(m.DPOSPublicKey) != 0 && m.ActivateRequestHeight == math.MaxUint32 {
			l = append(l, i)
		}
	}
	i, ok := w.pick(l)
	if !ok {
		return false
	}
	m := w.nd.Committee.GetMember(node.DIDOf(l2Cr(i)))
	nk := node.KeyByPub(m.DPOSPublicKey)
	if nk == nil {
		return false
	}
	return w.submit("ActivateProducer-CRMember", fmt.Sprint("cr", i), node.ActivateProducer(nk))
}

func (w *l2World) votable() []int { return w.producersIn(state.Active) }

func (w *l2World) opVoteV1() bool {
	if w.v2Active() {
		return false
	}
	vt := w.votable()
	if len(vt) == 0 {
		return false
	}
	v := l2Voter(w.r.Intn(4))
	amt := node.ELA(int64(50 + w.r.Intn(1500)))
	in, ok := w.take(v, amt)
	if !ok {
		return false
	}
	w.r.Shuffle(len(vt), func(a, b int) { vt[a], vt[b] = vt[b], vt[a] })
	n := 1 + w.r.Intn(len(vt))
	if w.h() >= w.era.CRVotingStart && w.r.Intn(2) == 0 {
		m := map[string]common.Fixed64{}
		for _, i := range vt[:n] {
			m[node.PubHex(l2Po(i))] = common.Fixed64(1+w.r.Int63n(int64(amt/1e8))) * 1e8
		}
		return w.submit("Vote-Delegate-v1", "", node.VoteProducersV1(in, amt, m), in)
	}
	var pubs [][]byte
	for _, i := range vt[:n] {
		pubs = append(pubs, node.Pub(l2Po(i)))
	}
	return w.submit("Vote-Delegate-v0", "", node.VoteProducers(in, amt, pubs...), in)
}

// voteOutputs lists the unspent OTVote outputs of a voter (by looking the
// transactions up in the node's own store).
func (w *l2World) voteOutputs(v *account.Account) []node.UTXORef {
	var out []node.UTXORef
	for _, u := range w.w.UTXOs(v.ProgramHash) {
		tx, _, err := w.nd.Store.GetTransaction(u.TxID)
		if err != nil || int(u.Index) >= len(tx.Outputs()) {
			continue
		}
		if tx.Outputs()[u.Index].Type == common2.OTVote {
			u.Owner = v
			out = append(out, u)
		}
	}
	return out
}

func (w *l2World) opCancelVoteV1(losing bool) bool {
	vi := w.r.Intn(4)
	if !losing && vi == 0 {
		return false // the backbone votes of the canonical chain stay
	}
	v := l2Voter(vi)
	vo := w.voteOutputs(v)
	if len(vo) == 0 {
		return false
	}
	u := vo[w.r.Intn(len(vo))]
	key := fmt.Sprintf("vo%s%d", u.TxID.String()[:12], u.Index)
	if w.busy[key] {
		return false
	}
	return w.submit("CancelVote-by-spend", key, node.Transfer([]node.UTXORef{u}, []node.Out{{To: v.ProgramHash, Value: u.Value - node.DefaultFee}}, common2.TxVersion09))
}

func (w *l2World) opDepositTopup() bool {
	var reg []int
	for i := 0; i < l2Producers; i++ {
		if w.producer(i) != nil {
			reg = append(reg, i)
		}
	}
	i, ok := w.pick(reg)
	if !ok {
		return false
	}
	v := l2Voter(4 + w.r.Intn(2))
	amt := node.ELA(int64(1 + w.r.Intn(300)))
	in, ok := w.take(v, amt)
	if !ok {
		return false
	}
	tx := node.BuildTx(node.TxSpec{Type: common2.TransferAsset, Payload: &payload.TransferAsset{}, Ins: []node.UTXORef{in},
		Outs: []*common2.Output{node.StdOut(node.DepositAddr(l2Po(i)), amt)}})
	return w.submit("Deposit-topup", "", tx, in)
}

func (w *l2World) opReturnDeposit() bool {
	var ok2 []int
	for _, i := range w.producersIn(state.Canceled) {
		p := w.producer(i)
		if w.h() > p.CancelHeight()+w.era.DepositLockup && p.AvailableAmount() > node.DefaultFee*2 {
			ok2 = append(ok2, i)
		}
	}
	i, ok := w.pick(ok2)
	if !ok {
		return false
	}
	dep := w.w.UTXOs(node.DepositAddr(l2Po(i)))
	if len(dep) == 0 {
		return false
	}
	key := fmt.Sprint("p", i)
	if w.busy[key] {
		return false
	}
	p := w.producer(i)
	if w.r.Intn(2) == 0 && len(dep) == 1 && p.AvailableAmount() > node.ELA(20) {
		return w.submit("ReturnDepositCoin-partial", key, node.ReturnDepositCoinAmount(dep[:1], l2Po(i), node.ELA(10), 0))
	}
	var sum common.Fixed64
	for _, u := range dep {
		sum += u.Value
	}
	if sum > p.AvailableAmount() {
		// penalties: return what is available, the rest stays at the deposit address
		return w.submit("ReturnDepositCoin-available", key, node.ReturnDepositCoinAmount(dep, l2Po(i), p.AvailableAmount()-node.DefaultFee, 0))
	}
	return w.submit("ReturnDepositCoin", key, node.ReturnDepositCoin(dep, l2Po(i), 0))
}

// ---------- DPoS v2 operations ----------

func (w *l2World) stakers() []*account.Account { return []*account.Account{l2Voter(6), l2Voter(7)} }

func (w *l2World) opExchangeVotes() bool {
	if !w.v2Started() {
		return false
	}
	s := w.stakers()[w.r.Intn(2)]
	amt := node.ELA(int64(100 + w.r.Intn(2000)))
	in, ok := w.take(s, amt)
	if !ok {
		return false
	}
	return w.submit("ExchangeVotes", "stake"+s.Address, node.ExchangeVotes(in, amt), in)
}

func (w *l2World) v2Producers() []int {
	var out []int
	for _, i := range w.producersIn(state.Active, state.Inactive, state.Pending) {
		if w.producer(i).Info().StakeUntil != 0 {
			out = append(out, i)
		}
	}
	return out
}

func (w *l2World) opVotingV2() bool {
	if !w.v2Started() {
		return false
	}
	vp := w.v2Producers()
	if len(vp) == 0 {
		return false
	}
	s := w.stakers()[w.r.Intn(2)]
	if w.tag == "c" && !w.v2Active() {
		s = w.stakers()[1] // staker 0's rights are for the canonical chain's activation vote
	}
	in, ok := w.take(s, node.ELA(1))
	if !ok {
		return false
	}
	w.r.Shuffle(len(vp), func(a, b int) { vp[a], vp[b] = vp[b], vp[a] })
	n := 1 + w.r.Intn(len(vp))
	var vs []node.V2Vote
	for _, i := range vp[:n] {
		lock := w.h() + w.era.V2VoteLock*uint32(1+w.r.Intn(10)) + uint32(w.r.Intn(100))
		if su := w.producer(i).Info().StakeUntil; lock > su {
			lock = su
		}
		vs = append(vs, node.V2Vote{OwnerPub: node.Pub(l2Po(i)), Votes: node.ELA(int64(10 + w.r.Intn(400))), LockTime: lock})
	}
	return w.submit("Voting-DposV2", "stake"+s.Address, node.Voting(in, node.V2Votes(vs...)), in)
}

func (w *l2World) opVotingRenew() bool {
	if !w.v2Started() {
		return false
	}
	s := w.stakers()[w.r.Intn(2)]
	sa := node.StakeAddr(s)
	vp := w.v2Producers()
	w.r.Shuffle(len(vp), func(a, b int) { vp[a], vp[b] = vp[b], vp[a] })
	for _, i := range vp {
		m := w.producer(i).GetAllDetailedDPoSV2Votes()[sa]
		var keys []common.Uint256
		for k := range m {
			keys = append(keys, k)
		}
		if len(keys) == 0 {
			continue
		}
		sort.Slice(keys, func(a, b int) bool { return keys[a].Compare(keys[b]) < 0 })
		k := keys[w.r.Intn(len(keys))]
		nv := m[k].Info[0]
		nv.LockTime += uint32(50 + w.r.Intn(500))
		if su := w.producer(i).Info().StakeUntil; nv.LockTime > su {
			continue
		}
		in, ok := w.take(s, node.ELA(1))
		if !ok {
			return false
		}
		return w.submit("Voting-renew", "stake"+s.Address, node.VotingRenew(in, payload.RenewalVotesContent{ReferKey: k, VotesInfo: nv}), in)
	}
	return false
}

func (w *l2World) opReturnVotes() bool {
	if !w.v2Started() {
		return false
	}
	s := w.stakers()[w.r.Intn(2)]
	in, ok := w.take(s, node.ELA(1))
	if !ok {
		return false
	}
	return w.submit("ReturnVotes", "stake"+s.Address, node.ReturnVotes(in, node.ELA(int64(1+w.r.Intn(40)))), in)
}

func (w *l2World) opClaimReward() bool {
	if !w.v2Started() {
		return false
	}
	s := w.stakers()[w.r.Intn(2)]
	amt := w.st().DPoSV2RewardInfo[node.StakeAddrString(s)]
	if amt <= w.nd.Cfg.CRConfiguration.RealWithdrawSingleFee*3 {
		return false
	}
	in, ok := w.take(s, node.ELA(1))
	if !ok {
		return false
	}
	return w.submit("DposV2ClaimReward", "claim"+s.Address, node.DposV2ClaimReward(in, amt/2), in)
}

// ---------- CR operations ----------

func (w *l2World) crCandidate(i int) *crstate.Candidate {
	return w.nd.Committee.GetCandidate(node.CIDOf(l2Cr(i)))
}

func (w *l2World) opRegisterCR(lo, hi int) bool {
	if !w.nd.Committee.IsInVotingPeriod(w.h()) {
		return false
	}
	var free []int
	for i := lo; i < hi; i++ {
		if w.crCandidate(i) == nil && !w.nd.Committee.ExistCandidateByDepositHash(node.CRDepositAddr(l2Cr(i))) {
			free = append(free, i)
		}
	}
	i, ok := w.pick(free)
	if !ok {
		return false
	}
	in, ok := w.take(l2Cr(i), node.ELA(5000))
	if !ok {
		return false
	}
	return w.submit("RegisterCR", fmt.Sprint("cr", i), node.RegisterCR(in, l2Cr(i), w.newNick(fmt.Sprintf("cr%d", i)), node.ELA(5000)), in)
}

func (w *l2World) crCandidatesIn(states ...crstate.CandidateState) []int {
	var out []int
	for i := 0; i < l2CRs; i++ {
		c := w.crCandidate(i)
		if c == nil {
			continue
		}
		for _, s := range states {
			if c.State == s {
				out = append(out, i)
			}
		}
	}
	return out
}

func (w *l2World) opUpdateCR() bool {
	if !w.nd.Committee.IsInVotingPeriod(w.h()) {
		return false
	}
	i, ok := w.pick(w.crCandidatesIn(crstate.Pending, crstate.Active))
	if !ok {
		return false
	}
	in, ok := w.take(l2Cr(i), node.ELA(1))
	if !ok {
		return false
	}
	return w.submit("UpdateCR", fmt.Sprint("cr", i), node.UpdateCR(in, l2Cr(i), w.newNick(fmt.Sprintf("cr%d", i)), "http://"+w.tag), in)
}

func (w *l2World) opUnregisterCR(cands []int) bool {
	if !w.nd.Committee.IsInVotingPeriod(w.h()) {
		return false
	}
	var l []int
	for _, i := range w.crCandidatesIn(crstate.Pending, crstate.Active) {
		for _, c := range cands {
			if c == i {
				l = append(l, i)
			}
		}
	}
	i, ok := w.pick(l)
	if !ok {
		return false
	}
	in, ok := w.take(l2Cr(i), node.ELA(1))
	if !ok {
		return false
	}
	return w.submit("UnregisterCR", fmt.Sprint("cr", i), node.UnregisterCR(in, l2Cr(i)), in)
}

func (w *l2World) opVoteCR() bool {
	if !w.nd.Committee.IsInVotingPeriod(w.h()) {
		return false
	}
	act := w.crCandidatesIn(crstate.Active)
	if len(act) == 0 {
		return false
	}
	m := map[common.Uint168]common.Fixed64{}
	var sum common.Fixed64
	for _, i := range act {
		if w.r.Intn(3) != 0 {
			v := node.ELA(int64(10 + w.r.Intn(300)))
			m[node.CIDOf(l2Cr(i))] = v
			sum += v
		}
	}
	if len(m) == 0 || len(m) > int(w.nd.Cfg.CRConfiguration.MemberCount) {
		return false
	}
	if w.v2Active() {
		s := w.stakers()[w.r.Intn(2)]
		in, ok := w.take(s, node.ELA(1))
		if !ok {
			return false
		}
		return w.submit("Voting-CRC", "stake"+s.Address, node.Voting(in, node.CRVotes(m)), in)
	}
	v := l2Voter(w.r.Intn(4))
	in, ok := w.take(v, sum)
	if !ok {
		return false
	}
	return w.submit("Vote-CRC-v1", "", node.VoteCRs(in, sum, m), in)
}

func (w *l2World) opReturnCRDeposit() bool {
	var l []int
	for _, i := range w.crCandidatesIn(crstate.Canceled) {
		c := w.crCandidate(i)
		if w.h() > c.CancelHeight+w.era.DepositLockup {
			l = append(l, i)
		}
	}
	i, ok := w.pick(l)
	if !ok {
		return false
	}
	dep := w.w.UTXOs(node.CRDepositAddr(l2Cr(i)))
	if len(dep) == 0 {
		return false
	}
	return w.submit("ReturnCRDepositCoin", fmt.Sprint("cr", i), node.ReturnCRDepositCoin(dep, l2Cr(i), 0))
}

// members returns the indices of harness CR keys that are elected members.
func (w *l2World) members() []int {
	var out []int
	for i := 0; i < l2CRs; i++ {
		if m := w.nd.Committee.GetMember(node.DIDOf(l2Cr(i))); m != nil && m.MemberState == crstate.MemberElected {
			out = append(out, i)
		}
	}
	return out
}

func (w *l2World) proposalVersions() (byte, byte, byte) {
	if w.h() >= w.era.ProposalDraftDataStart {
		return payload.CRCProposalVersion01, payload.CRCProposalReviewVersion01, payload.CRCProposalTrackingVersion01
	}
	return payload.CRCProposalVersion, payload.CRCProposalReviewVersion, payload.CRCProposalTrackingVersion
}

var l2Budgets = []payload.Budget{{Type: payload.Imprest, Stage: 0, Amount: node.ELA(3)}, {Type: payload.NormalPayment, Stage: 1, Amount: node.ELA(5)}, {Type: payload.FinalPayment, Stage: 2, Amount: node.ELA(2)}}

func (w *l2World) propOwner() *account.Account { return l2Voter(4 + w.r.Intn(2)) }

func (w *l2World) opProposal() bool {
	if !w.nd.Committee.IsProposalAllowed(w.h()) {
		return false
	}
	mem := w.members()
	i, ok := w.pick(mem)
	if !ok {
		return false
	}
	owner := w.propOwner()
	in, ok := w.take(owner, node.ELA(1))
	if !ok {
		return false
	}
	pv, _, _ := w.proposalVersions()
	draft := []byte(w.newNick("draft"))
	sp := node.ProposalSpec{Type: payload.Normal, Owner: owner, CRMember: l2Cr(i), Draft: draft, Budgets: l2Budgets, Recipient: owner.ProgramHash}
	kind := "CRCProposal-Normal"
	if w.h() >= w.era.CRClaimDPOSNodeStart {
		switch w.r.Intn(6) {
		case 0:
			sp.Type, kind = payload.ELIP, "CRCProposal-ELIP"
		case 1:
			if ps := w.proposalsIn(crstate.VoterAgreed); len(ps) > 0 {
				sp = node.ProposalSpec{Type: payload.CloseProposal, Owner: owner, CRMember: l2Cr(i), Draft: draft, Target: ps[w.r.Intn(len(ps))]}
				kind = "CRCProposal-Close"
			}
		case 2:
			sp = node.ProposalSpec{Type: payload.SecretaryGeneral, Owner: owner, CRMember: l2Cr(i), Draft: draft, NewSecretary: node.Key(node.KeySecretary + 1 + w.r.Intn(3))}
			kind = "CRCProposal-SecretaryGeneral"
		}
	}
	return w.submit(kind, "", node.CRCProposalTx(in, sp, pv), in)
}

func (w *l2World) proposalsIn(st crstate.ProposalStatus) []common.Uint256 {
	var out []common.Uint256
	for h, p := range w.nd.Committee.GetAllProposals() {
		if p.Status == st {
			out = append(out, h)
		}
	}
	sort.Slice(out, func(a, b int) bool { return out[a].Compare(out[b]) < 0 })
	return out
}

func (w *l2World) opReview() bool {
	ps := w.proposalsIn(crstate.Registered)
	if len(ps) == 0 {
		return false
	}
	ph := ps[w.r.Intn(len(ps))]
	p := w.nd.Committee.GetProposal(ph)
	var l []int
	for _, i := range w.members() {
		if _, voted := p.CRVotes[node.DIDOf(l2Cr(i))]; !voted {
			l = append(l, i)
		}
	}
	i, ok := w.pick(l)
	if !ok {
		return false
	}
	in, ok := w.take(l2Cr(i), node.ELA(1))
	if !ok {
		return false
	}
	res := payload.Approve
	switch w.r.Intn(8) {
	case 0:
		res = payload.Reject
	case 1:
		res = payload.Abstain
	}
	_, rv, _ := w.proposalVersions()
	return w.submit("CRCProposalReview", fmt.Sprintf("rev%s%d", ph.String()[:8], i), node.CRCProposalReview(in, l2Cr(i), ph, res, []byte(w.newNick("opinion")), rv), in)
}

func (w *l2World) opRejectVote() bool {
	ps := w.proposalsIn(crstate.CRAgreed)
	if len(ps) == 0 {
		return false
	}
	ph := ps[w.r.Intn(len(ps))]
	if w.v2Active() {
		s := w.stakers()[w.r.Intn(2)]
		in, ok := w.take(s, node.ELA(1))
		if !ok {
			return false
		}
		return w.submit("Voting-CRCProposal", "stake"+s.Address, node.Voting(in, node.ProposalVotes(node.ELA(int64(1+w.r.Intn(50))), ph)), in)
	}
	v := l2Voter(w.r.Intn(4))
	amt := node.ELA(int64(10 + w.r.Intn(900)))
	in, ok := w.take(v, amt)
	if !ok {
		return false
	}
	return w.submit("Vote-CRCProposal-v1", "", node.VoteAgainstProposals(in, amt, ph), in)
}

func (w *l2World) opImpeach() bool {
	mem := w.members()
	i, ok := w.pick(mem)
	if !ok {
		return false
	}
	amt := node.ELA(int64(1 + w.r.Intn(60)))
	m := map[common.Uint168]common.Fixed64{node.CIDOf(l2Cr(i)): amt}
	if w.v2Active() {
		s := w.stakers()[w.r.Intn(2)]
		in, ok := w.take(s, node.ELA(1))
		if !ok {
			return false
		}
		return w.submit("Voting-CRCImpeachment", "stake"+s.Address, node.Voting(in, node.ImpeachVotes(m)), in)
	}
	v := l2Voter(w.r.Intn(4))
	in, ok := w.take(v, amt)
	if !ok {
		return false
	}
	return w.submit("Vote-CRCImpeachment-v1", "", node.VoteImpeach(in, amt, m), in)
}

func (w *l2World) ownerOf(p *crstate.ProposalState) *account.Account {
	return node.KeyByPub(p.ProposalOwner)
}

func (w *l2World) opTracking() bool {
	ps := w.proposalsIn(crstate.VoterAgreed)
	if len(ps) == 0 {
		return false
	}
	ph := ps[w.r.Intn(len(ps))]
	p := w.nd.Committee.GetProposal(ph)
	owner := w.ownerOf(p)
	if owner == nil || len(p.Proposal.Budgets) == 0 {
		return false
	}
	in, ok := w.take(owner, node.ELA(1))
	if !ok {
		return false
	}
	_, _, tv := w.proposalVersions()
	sec := node.Key(node.KeySecretary)
	if s := node.KeyByPub(l2hex(w.nd.Committee.GetProposalManager().SecretaryGeneralPublicKey)); s != nil {
		sec = s
	}
	ts := node.TrackingSpec{Proposal: ph, Message: []byte(w.newNick("msg")), Opinion: []byte("ok")}
	kind := ""
	switch w.r.Intn(5) {
	case 0, 1, 2:
		stage := uint8(1)
		for st, bs := range p.BudgetsStatus {
			_ = bs
			if st != 0 && st < uint8(len(p.Proposal.Budgets))-1 {
				stage = st
			}
		}
		ts.Type, ts.Stage, kind = payload.Progress, stage, "CRCProposalTracking-progress"
	case 3:
		ts.Type, ts.Stage, kind = payload.Finalized, uint8(len(p.Proposal.Budgets)-1), "CRCProposalTracking-finalized"
	case 4:
		ts.Type, kind = payload.Terminated, "CRCProposalTracking-terminated"
	}
	return w.submit(kind, "trk"+ph.String()[:8], node.CRCProposalTracking(in, owner, sec, ts, tv), in)
}

func l2hex(s string) []byte {
	b, _ := common.HexStringToBytes(s)
	return b
}

func (w *l2World) opWithdraw() bool {
	if w.h() < w.era.CRClaimDPOSNodeStart {
		return false
	}
	for _, st := range []crstate.ProposalStatus{crstate.VoterAgreed, crstate.Finished} {
		for _, ph := range w.proposalsIn(st) {
			amt := w.nd.Committee.AvailableWithdrawalAmount(ph)
			if amt <= 0 {
				continue
			}
			p := w.nd.Committee.GetProposal(ph)
			owner := w.ownerOf(p)
			if owner == nil {
				continue
			}
			in, ok := w.take(owner, node.ELA(1))
			if !ok {
				return false
			}
			return w.submit("CRCProposalWithdraw", "wd"+ph.String()[:8], node.CRCProposalWithdraw(in, owner, ph, p.Recipient, amt), in)
		}
	}
	return false
}

func (w *l2World) opClaimNode(losing bool) bool {
	if w.h() < w.era.CRClaimDPOSNodeStart {
		return false
	}
	var l []int
	for i := 0; i < l2CRs; i++ {
		if m := w.nd.Committee.GetMember(node.DIDOf(l2Cr(i))); m != nil && (losing && m.MemberState == crstate.MemberElected || len(m.DPOSPublicKey) == 0) {
			l = append(l, i)
		}
	}
	i, ok := w.pick(l)
	if !ok {
		return false
	}
	m := w.nd.Committee.GetMember(node.DIDOf(l2Cr(i)))
	nk := l2Crn(i)
	if bytes.Equal(m.DPOSPublicKey, node.Pub(nk)) {
		nk = l2CrnAlt(i)
	}
	if !w.nodeKeyFree(nk) {
		return false
	}
	in, ok := w.take(l2Cr(i), node.ELA(1))
	if !ok {
		return false
	}
	return w.submit("CRCouncilMemberClaimNode", fmt.Sprint("cr", i), node.CRCouncilMemberClaimNode(in, l2Cr(i), nk, payload.CurrentCRClaimDPoSNodeVersion), in)
}

func (w *l2World) opTransfer() bool {
	a, b := l2Voter(w.r.Intn(6)), l2Voter(w.r.Intn(6))
	in, ok := w.take(a, node.ELA(1))
	if !ok {
		return false
	}
	return w.submit("TransferAsset", "", node.Transfer([]node.UTXORef{in}, []node.Out{{To: b.ProgramHash, Value: in.Value - node.DefaultFee}}, common2.TxVersion09), in)
}

// ---------- operation mixes ----------

type l2Op struct {
	weight int
	f      func() bool
}

// randomOps submits up to n operations drawn from the mix for the given role.
// losing = aggressive (anything goes: the branch is going to be detached);
// canonical = keeps the backbone producers 0..5 and CR 0..3 registered.
func (w *l2World) randomOps(n int, losing bool) int {
	expProd := w.producersIn(state.Active, state.Inactive, state.Pending)
	var canc []int
	for _, i := range expProd {
		if losing || i >= 6 {
			canc = append(canc, i)
		}
	}
	updatable := w.producersIn(state.Active, state.Inactive, state.Pending, state.Canceled)
	crCanc := []int{4, 5, 6, 7}
	if losing {
		crCanc = []int{0, 1, 2, 3, 4, 5, 6, 7}
	}
	regHi := 12 // 12.. are the canonical chain's DPoS v2 producers
	if losing {
		regHi = l2Producers
	}
	mix := []l2Op{
		{6, func() bool { return w.opRegisterProducer(8, regHi) }},
		{8, func() bool { return w.opUpdateProducer(updatable) }},
		{5, func() bool { return w.profile != 1 && w.opCancelProducer(canc) }},
		{10, w.opActivateProducer},
		{10, w.opVoteV1},
		{6, func() bool { return w.opCancelVoteV1(losing) }},
		{8, w.opDepositTopup},
		{8, w.opReturnDeposit},
		{5, w.opExchangeVotes},
		{10, w.opVotingV2},
		{6, w.opVotingRenew},
		{4, w.opReturnVotes},
		{5, w.opClaimReward},
		{5, func() bool { return w.opRegisterCR(0, l2CRs) }},
		{4, w.opUpdateCR},
		{3, func() bool { return w.opUnregisterCR(crCanc) }},
		{6, w.opVoteCR},
		{4, w.opReturnCRDeposit},
		{6, w.opProposal},
		{10, w.opReview},
		{4, w.opRejectVote},
		{4, w.opImpeach},
		{5, w.opTracking},
		{5, w.opWithdraw},
		{3, func() bool { return w.opClaimNode(losing) }},
		{6, w.opActivateCRMember},
		{3, w.opTransfer},
	}
	if w.profile == 2 {
		// benign mix (checkpoint save-boundary scenario): the arbiter set must stay alive for 720+ blocks
		act := w.producersIn(state.Active)
		mix = []l2Op{
			{4, func() bool { return w.opRegisterProducer(8, 12) }},
			{6, func() bool { return w.opUpdateProducer(act) }},
			{10, w.opVoteV1},
			{6, func() bool { return w.opCancelVoteV1(losing) }},
			{8, w.opDepositTopup},
			{3, w.opTransfer},
		}
	}
	total := 0
	for _, o := range mix {
		total += o.weight
	}
	done := 0
	for try := 0; try < n*6 && done < n; try++ {
		x := w.r.Intn(total)
		for _, o := range mix {
			if x < o.weight {
				if o.f() {
					done++
				}
				break
			}
			x -= o.weight
		}
	}
	return done
}

// electedProducerArbiters: indices of harness producers whose node key is a
// current arbiter (they can be taken offline without stalling the CRC part).
func (w *l2World) electedProducerArbiters() []int {
	var out []int
	for _, a := range w.nd.Arbiters.GetArbitrators() {
		for i := 0; i < l2Producers; i++ {
			if bytes.Equal(a.NodePublicKey, node.Pub(l2Pn(i))) || bytes.Equal(a.NodePublicKey, node.Pub(l2PnAlt(i))) {
				out = append(out, i)
			}
		}
	}
	sort.Ints(out)
	return out
}

type l2Mined struct {
	b   *types.Block
	ops []string
}

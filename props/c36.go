package props

import (
	"bytes"
	"encoding/base64"
	"encoding/json"
	"fmt"
	"math/rand"
	"net"
	"net/http"
	"net/http/httptest"
	"os"
	"strings"
	"time"

	"github.com/elastos/Elastos.ELA/common/config"
	"github.com/elastos/Elastos.ELA/servers"
	"github.com/elastos/Elastos.ELA/servers/httpjsonrpc"
	htp "github.com/elastos/Elastos.ELA/utils/http"
	"github.com/elastos/Elastos.ELA/utils/http/jsonrpc"

	"verif/kit"
	"verif/kit/node"
)

// C36 — RPC access control and service levels are enforced.
//
// A (access control): generated requests straight into the node's
// httpjsonrpc.Handle and into the generic utils/http/jsonrpc server. The
// ground truth of each case (which address the RemoteAddr text denotes, whether
// the whitelist lists it, whether one Authorization value is exactly the
// configured credential) is known BY CONSTRUCTION: the generator builds texts
// from byte values, the model never parses anything. Oracle: served => address
// allowed AND credential ok. "Served" is observed twice: HTTP status is not one
// of the server's refusals, or a sentinel method registered in the live table
// was actually dispatched.
//
// B (service levels): see c36_levels.go.

func init() {
	kit.Register(&kit.Spec{
		ID: "C36",
		Rule: "A: a case is (server, RemoteAddr text built from a known 16-byte address in canonical / lenient / garbage spelling, whitelist built from entries whose denotation is known, user/pass, Authorization header variant, HTTP method, content type, body); distinct = distinct tuple; non-trivial = a POST with an accepted content type, so that only the address filter and the credential check decide whether it is served. " +
			"B: a case is (registered method enumerated from the live table, one of the 5 service levels, parameter set); non-trivial = the call went through Handle on the live node and returned a JSON-RPC reply (a handler panic is counted, not a case)",
		Shards:  func(tier string) int { return 4 },
		Run:     runC36,
		Require: []string{"A_requests", "A_served", "A_refused_ip", "A_refused_auth", "A_served_whitelisted_nonloopback", "A_served_with_credential", "A_must_refuse_cases", "A_sentinel_dispatches", "max:B_methods_enumerated", "B_calls", "B_level_refusals", "B_served_success", "B_forbidden_checks", "B_snapshots_compared", "B_queryonly_methods_monitored", "B_potent_loglevel", "B_potent_mempool", "B_potent_height", "B_potent_auxpool", "B_potent_miningflag", "B_potent_submitaux"},
		Assumptions: []string{
			"\"all registered methods\" is the method table of the build under test, enumerated at run time after the real StartRPCServer registration code ran (stopped before it listens); handlers are exercised with plausible parameters, not over all handler inputs",
			"service-level model: levels are ordered ConfigurationPermitted < MiningPermitted < TransactionPermitted < WalletPermitted < QueryOnly (config.go documentation); a level forbids every class that ranks below it (settings < mining < submit < wallet)",
			"an address whitelist entry \"0.0.0.0\" means every client is whitelisted (docs/config.json.md)",
			"a request with several Authorization values is accepted by the model if one value is exactly the credential (the oracle never demands more than the statement)",
			"net/http's RemoteAddr is the client address; proxies/X-Forwarded-For are out of scope",
			"served = HTTP status other than 401/403/405/415, or the sentinel method registered in the live table was dispatched; 405/415 (wrong verb / media type) are refusals that carry no RPC result",
			"unrecognised RPCServiceLevel strings are outside the quantifier (the node reads them as ConfigurationPermitted; counted as B_info_unrecognised_level_string_is_permissive)",
			"encoding/base64, net.IP.String and net/http/httptest are correct",
		},
		TimeoutS: func(tier string) int {
			if tier == "thorough" {
				return 1500
			}
			return 300
		},
	})
}

func runC36(c *kit.Ctx) {
	nd, err := node.Start(node.Options{Dir: c.WorkDir, CoinbaseMaturity: 2})
	if err != nil {
		c.Inconclusive("node start: %v", err)
		return
	}
	defer nd.Close()

	// populate the real method table without listening
	select {
	case <-httpjsonrpc.VerifInitMethods():
	case <-time.After(20 * time.Second):
		c.Inconclusive("method table hook httpjsonrpc.methods_registered never reached")
		return
	}
	if len(httpjsonrpc.VerifMethodNames()) == 0 {
		c.Inconclusive("method table empty after StartRPCServer registration")
		return
	}
	c36ServiceLevels(c, nd) // first: its cases stay below the per-shard distinct-tracking cap
	c36AccessControl(c)
}

// ---------------------------------------------------------------------------
// Workload A
// ---------------------------------------------------------------------------

type c36Addr struct {
	Text string `json:"remote_addr"`
	Kind string `json:"kind"`
	Form string `json:"form"` // canon | lenient | garbage
	val  [16]byte
	is4  bool
	loop bool
}

func c36v4(a, b, cc, d byte) (v [16]byte) {
	v[10], v[11] = 0xff, 0xff
	v[12], v[13], v[14], v[15] = a, b, cc, d
	return
}

func c36IsLoop(v [16]byte) bool {
	var z [16]byte
	if bytes.Equal(v[:10], z[:10]) && v[10] == 0xff && v[11] == 0xff {
		return v[12] == 127
	}
	z[15] = 1
	return v == z
}

func c36Is4(v [16]byte) bool {
	var z [10]byte
	return bytes.Equal(v[:10], z[:]) && v[10] == 0xff && v[11] == 0xff
}

func c36Expanded(v [16]byte, upper bool) string {
	var g []string
	for i := 0; i < 16; i += 2 {
		s := fmt.Sprintf("%02x%02x", v[i], v[i+1])
		if upper {
			s = strings.ToUpper(s)
		}
		g = append(g, s)
	}
	return strings.Join(g, ":")
}

func c36Dotted(v [16]byte) string {
	return fmt.Sprintf("%d.%d.%d.%d", v[12], v[13], v[14], v[15])
}

// canonical text of the address value as the standard library prints it.
func c36Canon(v [16]byte) string {
	if c36Is4(v) {
		return c36Dotted(v)
	}
	return net.IP(v[:]).String()
}

var c36V4Near = [][4]byte{{126, 255, 255, 255}, {128, 0, 0, 1}, {1, 0, 0, 127}, {0, 0, 0, 0}, {255, 255, 255, 255}, {10, 0, 0, 1},
	{192, 168, 1, 1}, {172, 16, 0, 9}, {169, 254, 1, 1}, {224, 0, 0, 1}, {0, 0, 0, 1}, {12, 7, 0, 1}, {27, 0, 0, 1}, {227, 0, 0, 1}, {8, 8, 8, 8}}

func c36V6Near() [][16]byte {
	mk := func(s string) (v [16]byte) { copy(v[:], net.ParseIP(s).To16()); return }
	var out [][16]byte
	for _, s := range []string{"::2", "::", "1::1", "::1:0", "::1:0:0:1", "fe80::1", "ff02::1", "2001:db8::1", "100::1", "::fffe:127.0.0.1", "::1:1", "8000::1", "::101"} {
		out = append(out, mk(s))
	}
	return out
}

func c36GenAddr(r *rand.Rand, v6near [][16]byte) c36Addr {
	var a c36Addr
	port := fmt.Sprint(1 + r.Intn(65535))
	// value
	switch k := r.Intn(100); {
	case k < 18:
		a.val = c36v4(127, byte(r.Intn(256)), byte(r.Intn(256)), byte(r.Intn(256)))
		if r.Intn(3) == 0 {
			a.val = c36v4(127, 0, 0, 1)
		}
		a.Kind = "v4-loopback"
	case k < 48:
		if r.Intn(2) == 0 {
			n := c36V4Near[r.Intn(len(c36V4Near))]
			a.val = c36v4(n[0], n[1], n[2], n[3])
		} else {
			f := byte(r.Intn(256))
			if f == 127 {
				f = 128
			}
			a.val = c36v4(f, byte(r.Intn(256)), byte(r.Intn(256)), byte(r.Intn(256)))
		}
		a.Kind = "v4"
	case k < 58:
		a.val[15] = 1
		a.Kind = "v6-loopback"
	case k < 80:
		if r.Intn(2) == 0 {
			a.val = v6near[r.Intn(len(v6near))]
		} else {
			r.Read(a.val[:])
			a.val[0] = 0x20 // never ::/96 or v4-mapped
		}
		a.Kind = "v6"
	default: // v4-compatible ::a.b.c.d (NOT the v4 address, NOT loopback)
		a.val = c36v4(127, 0, 0, byte(1+r.Intn(3)))
		a.val[10], a.val[11] = 0, 0
		a.Kind = "v6-v4compatible"
	}
	a.is4 = c36Is4(a.val)
	a.loop = c36IsLoop(a.val)
	// spelling
	d := c36Dotted(a.val)
	k := r.Intn(100)
	switch {
	case k < 50: // canonical
		a.Form = "canon"
		if a.is4 {
			switch r.Intn(5) {
			case 0:
				a.Text, a.Kind = "[::ffff:"+d+"]:"+port, a.Kind+"/mapped-dotted"
			case 1:
				a.Text, a.Kind = fmt.Sprintf("[::ffff:%02x%02x:%02x%02x]:%s", a.val[12], a.val[13], a.val[14], a.val[15], port), a.Kind+"/mapped-hex"
			case 2:
				a.Text, a.Kind = "[0:0:0:0:0:FFFF:"+d+"]:"+port, a.Kind+"/mapped-long"
			default:
				a.Text, a.Kind = d+":"+port, a.Kind+"/plain"
			}
		} else {
			switch r.Intn(3) {
			case 0:
				a.Text, a.Kind = "["+c36Expanded(a.val, r.Intn(2) == 0)+"]:"+port, a.Kind+"/expanded"
			default:
				a.Text, a.Kind = "["+c36Canon(a.val)+"]:"+port, a.Kind+"/compressed"
			}
		}
	case k < 82: // lenient spellings: some parsers would read the same address
		a.Form = "lenient"
		host := d
		if !a.is4 {
			host = c36Canon(a.val)
		}
		br := host
		if !a.is4 {
			br = "[" + host + "]"
		}
		opts := []struct{ t, k string }{
			{host, "noport"}, {br + ":", "emptyport"}, {" " + br + ":" + port, "leading-space"}, {br + " :" + port, "space-before-port"},
			{br + ":" + port + ":" + port, "two-ports"}, {br + ":http", "named-port"}, {br + ":999999", "huge-port"},
			{br + ":" + port + "\n", "trailing-newline"}, {strings.ToUpper(br) + ":" + port, "upper"},
		}
		if a.is4 {
			opts = append(opts,
				struct{ t, k string }{"[" + d + "]:" + port, "bracketed-v4"},
				struct{ t, k string }{d + "%eth0:" + port, "v4-zone"},
				struct{ t, k string }{"[::ffff:" + d + "%eth0]:" + port, "mapped-zone"},
				struct{ t, k string }{fmt.Sprintf("%03d.%03d.%03d.%03d:%s", a.val[12], a.val[13], a.val[14], a.val[15], port), "leading-zeros"},
				struct{ t, k string }{fmt.Sprintf("0x%x.%d.%d.%d:%s", a.val[12], a.val[13], a.val[14], a.val[15], port), "hex-octet"},
				struct{ t, k string }{fmt.Sprintf("%d:%s", uint32(a.val[12])<<24|uint32(a.val[13])<<16|uint32(a.val[14])<<8|uint32(a.val[15]), port), "integer"},
			)
			if a.val[13] == 0 && a.val[14] == 0 {
				opts = append(opts, struct{ t, k string }{fmt.Sprintf("%d.%d:%s", a.val[12], a.val[15], port), "short-form"})
			}
		} else {
			opts = append(opts,
				struct{ t, k string }{host + ":" + port, "v6-unbracketed"},
				struct{ t, k string }{"[" + host + "%lo0]:" + port, "v6-zone"},
				struct{ t, k string }{"[" + host + "]", "v6-noport"},
				struct{ t, k string }{"[[" + host + "]]:" + port, "double-bracket"},
			)
		}
		o := opts[r.Intn(len(opts))]
		a.Text, a.Kind = o.t, a.Kind+"/"+o.k
	default: // garbage: denotes no single IP address
		a.Form = "garbage"
		opts := []struct{ t, k string }{
			{"localhost:" + port, "hostname-localhost"}, {"example.com:" + port, "hostname"}, {"", "empty"}, {":" + port, "only-port"},
			{"[]:" + port, "empty-brackets"}, {"127.0.0.0/8:" + port, "cidr"}, {"256.0.0.1:" + port, "octet-overflow"},
			{"127.0.0.1.1:" + port, "five-octets"}, {"@:" + port, "junk"}, {"ip6-localhost:" + port, "hostname-ip6-localhost"},
			{"::g:" + port, "bad-hex"}, {"[:::1]:" + port, "triple-colon"}, {"loopback", "word"}, {"*:" + port, "star"},
		}
		o := opts[r.Intn(len(opts))]
		a.Text, a.Kind = o.t, "garbage/"+o.k
	}
	return a
}

type c36WL struct {
	List     []string `json:"list"`
	Kinds    []string `json:"kinds"`
	allowAll bool
	listed   bool // some entry is a full spelling of the remote address value
	exact    bool // some entry is the canonical spelling
}

func c36GenWhitelist(r *rand.Rand, a c36Addr) c36WL {
	var w c36WL
	add := func(t, k string) { w.List = append(w.List, t); w.Kinds = append(w.Kinds, k) }
	canon := c36Canon(a.val)
	d := c36Dotted(a.val)
	n := r.Intn(4)
	if r.Intn(6) == 0 {
		n = 0
	}
	for i := 0; i < n; i++ {
		switch k := r.Intn(100); {
		case k < 22:
			add(canon, "exact")
			w.listed, w.exact = true, true
		case k < 32:
			if a.is4 {
				add("::ffff:"+d, "alt-mapped")
			} else {
				add(c36Expanded(a.val, r.Intn(2) == 0), "alt-expanded")
			}
			w.listed = true
		case k < 42:
			add("0.0.0.0", "allow-all")
			w.allowAll = true
		case k < 80: // near misses of the remote address or of the allow-all token
			o := a.val
			o[15-r.Intn(4)] ^= 1 << uint(r.Intn(8))
			nm := []struct{ t, k string }{
				{c36Canon(o), "bitflip"}, {canon + "0", "suffix0"}, {canon[:len(canon)-1], "truncated"}, {canon + "/32", "cidr32"},
				{canon + "/0", "cidr0"}, {canon + ":80", "with-port"}, {" " + canon, "lead-space"}, {canon + " ", "trail-space"},
				{"0.0.0.0/0", "allow-all-cidr"}, {"0.0.0.00", "allow-all-00"}, {"00.0.0.0", "allow-all-lead0"}, {"0.0.0.0 ", "allow-all-space"},
				{"::", "v6-unspecified"}, {"*", "star"}, {"", "empty-entry"}, {"any", "any"}, {"localhost", "localhost"}, {"0.0.0", "allow-all-short"},
				{"127.0.0.1", "loopback-entry"}, {"::1", "loopback6-entry"}, {"[" + canon + "]", "bracketed"},
			}
			if a.is4 {
				nm = append(nm, struct{ t, k string }{fmt.Sprintf("%d.%d.%d.0/24", a.val[12], a.val[13], a.val[14]), "subnet24"},
					struct{ t, k string }{fmt.Sprintf("%d.%d.%d", a.val[12], a.val[13], a.val[14]), "prefix3"},
					struct{ t, k string }{"::" + d, "v4compatible-of-remote"})
			} else if a.val[10] == 0 && a.val[11] == 0 && a.val[12] == 127 && a.val[0] == 0 {
				nm = append(nm, struct{ t, k string }{d, "v4-of-v4compatible"})
			}
			x := nm[r.Intn(len(nm))]
			add(x.t, "near:"+x.k)
		default:
			var o [16]byte
			if r.Intn(2) == 0 {
				o = c36v4(byte(1+r.Intn(126)), byte(r.Intn(256)), byte(r.Intn(256)), byte(r.Intn(256)))
			} else {
				r.Read(o[:])
				o[0] = 0x20
			}
			if o == a.val {
				o[15] ^= 1
			}
			add(c36Canon(o), "other")
		}
	}
	// a near-miss text can coincide with the real thing (e.g. "::" for the
	// remote address "::"): the ground truth follows the texts.
	for _, t := range w.List {
		if t == "0.0.0.0" {
			w.allowAll = true
		}
		if t == canon {
			w.listed, w.exact = true, true
		}
	}
	return w
}

type c36Cred struct {
	User, Pass string
}

var c36Names = []string{"", "", "u", "ElaUser", "Ela123", "a:b", ":", "пароль", "x y", "p=", "Basic", strings.Repeat("k", 300), "\t", "0"}

type c36Hdr struct {
	Kind     string              `json:"kind"`
	Values   map[string][]string `json:"headers"`
	hasRight bool                // a value under the Authorization header is exactly the credential
}

func c36GenHeader(r *rand.Rand, cr c36Cred) c36Hdr {
	login := cr.User + ":" + cr.Pass
	b := base64.StdEncoding.EncodeToString([]byte(login))
	right := "Basic " + b
	h := c36Hdr{Values: map[string][]string{}}
	set := func(kind string, right bool, vals ...string) {
		h.Kind, h.hasRight = kind, right
		h.Values["Authorization"] = vals
	}
	other := func(s string) string {
		return "Basic " + base64.StdEncoding.EncodeToString([]byte(s))
	}
	switch k := r.Intn(100); {
	case k < 26:
		set("right", true, right)
	case k < 34:
		h.Kind = "missing"
	default:
		type v struct {
			k    string
			vals []string
		}
		cut := 1 + r.Intn(len(right)-1)
		vs := []v{
			{"scheme-lower", []string{"basic " + b}}, {"scheme-upper", []string{"BASIC " + b}}, {"scheme-bearer", []string{"Bearer " + b}},
			{"no-space", []string{"Basic" + b}}, {"two-spaces", []string{"Basic  " + b}}, {"tab-sep", []string{"Basic\t" + b}},
			{"lead-space", []string{" " + right}}, {"trail-space", []string{right + " "}}, {"trail-tab", []string{right + "\t"}}, {"trail-nul", []string{right + "\x00"}},
			{"no-padding", []string{"Basic " + strings.TrimRight(b, "=")}}, {"extra-padding", []string{right + "="}},
			{"url-alphabet", []string{"Basic " + base64.URLEncoding.EncodeToString([]byte(login))}},
			{"raw-encoding", []string{"Basic " + base64.RawStdEncoding.EncodeToString([]byte(login))}},
			{"prefix", []string{right[:cut]}}, {"suffix", []string{right[cut:]}}, {"appended", []string{right + "A"}}, {"doubled", []string{right + right}},
			{"wrong-pass", []string{other(cr.User + ":" + cr.Pass + "x")}}, {"wrong-user", []string{other("x" + cr.User + ":" + cr.Pass)}},
			{"user-only", []string{other(cr.User)}}, {"swapped", []string{other(cr.Pass + ":" + cr.User + "!")}},
			{"empty-cred", []string{"Basic Og=="}}, {"newline-in-login", []string{other(login + "\n")}}, {"case-changed", []string{other(strings.ToUpper(login) + "z")}},
			{"not-base64", []string{"Basic !!!!"}}, {"plaintext", []string{"Basic " + login + "#"}}, {"empty-value", []string{""}}, {"only-scheme", []string{"Basic "}},
			{"digest", []string{"Digest username=\"" + cr.User + "\""}},
			{"two-right-first", []string{right, other("nobody:nothing")}}, {"two-right-second", []string{other("nobody:nothing"), right}},
			{"two-wrong", []string{other("nobody:nothing"), "Basic Og=="}}, {"comma-joined", []string{right + ", " + other("nobody:nothing")}},
			{"base64-of-header", []string{"Basic " + base64.StdEncoding.EncodeToString([]byte(right))}},
		}
		x := vs[r.Intn(len(vs))]
		isRight := false
		for _, s := range x.vals {
			if s == right {
				isRight = true
			}
		}
		set(x.k, isRight, x.vals...)
		// credentials in the wrong place
		switch r.Intn(12) {
		case 0:
			h.Values["Proxy-Authorization"] = []string{right}
			h.Kind += "+proxy-auth-right"
		case 1:
			h.Values["X-Authorization"] = []string{right}
			h.Kind += "+x-auth-right"
		}
	}
	switch r.Intn(10) {
	case 0:
		h.Values["X-Forwarded-For"] = []string{"127.0.0.1"}
		h.Values["X-Real-Ip"] = []string{"127.0.0.1"}
		h.Values["Forwarded"] = []string{"for=127.0.0.1"}
	}
	return h
}

type c36Case struct {
	Target  string   `json:"target"`
	Addr    c36Addr  `json:"addr"`
	WL      c36WL    `json:"whitelist"`
	Cred    c36Cred  `json:"cred"`
	Hdr     c36Hdr   `json:"header"`
	Method  string   `json:"http_method"`
	CType   string   `json:"content_type"`
	Body    string   `json:"body"`
	Status  int      `json:"status,omitempty"`
	Hits    int      `json:"sentinel_hits"`
	Allowed bool     `json:"model_address_allowed"`
	AuthOK  bool     `json:"model_credential_ok"`
	Notes   []string `json:"notes,omitempty"`
}

const c36Sentinel = "verifsentinel"

// c36HdrClass maps a header variant to the defect class used in signatures.
func c36HdrClass(kind string) string {
	kind = strings.SplitN(kind, "+", 2)[0]
	switch kind {
	case "missing", "empty-value":
		return "no-credential"
	case "wrong-pass", "wrong-user", "user-only", "swapped", "empty-cred", "newline-in-login", "case-changed", "two-wrong", "base64-of-header", "digest", "not-base64", "plaintext", "only-scheme":
		return "other-credential"
	case "prefix", "suffix", "appended", "doubled", "comma-joined":
		return "partial-match"
	default: // scheme / spacing / padding / alphabet variants of the right credential
		return "inexact-spelling"
	}
}

func c36AccessControl(c *kit.Ctx) {
	r := c.Rand("c36-access")
	v6near := c36V6Near()
	hits := 0
	httpjsonrpc.VerifSetMethod(c36Sentinel, func(servers.Params) map[string]interface{} {
		hits++
		return servers.ResponsePack(0, "sentinel")
	})
	defer httpjsonrpc.VerifSetMethod(c36Sentinel, nil)
	// the generic server prints refusals to stdout
	if dn, err := os.OpenFile(os.DevNull, os.O_WRONLY, 0); err == nil {
		old := os.Stdout
		os.Stdout = dn
		defer func() { os.Stdout = old; dn.Close() }()
	}
	saved := config.Parameters.RpcConfiguration
	defer func() { config.Parameters.RpcConfiguration = saved }()

	total := c.N(20000, 300000) / c.Shards
	for i := 0; i < total; i++ {
		cs := c36Case{Target: "node"}
		if i%3 == 2 {
			cs.Target = "lib"
		}
		cs.Addr = c36GenAddr(r, v6near)
		cs.WL = c36GenWhitelist(r, cs.Addr)
		cs.Cred = c36Cred{c36Names[r.Intn(len(c36Names))], c36Names[r.Intn(len(c36Names))]}
		if r.Intn(4) == 0 {
			cs.Cred = c36Cred{}
		}
		configured := cs.Cred.User != "" || cs.Cred.Pass != ""
		cs.Hdr = c36GenHeader(r, cs.Cred)
		cs.Method, cs.CType = "POST", "application/json"
		switch r.Intn(14) {
		case 0:
			cs.Method = []string{"GET", "PUT", "post", "OPTIONS", "HEAD", "DELETE", "PATCH"}[r.Intn(7)]
		case 1:
			cs.CType = []string{"", "text/html", "application/xml", "application/jsonx", "multipart/form-data", ";"}[r.Intn(6)]
		case 2, 3:
			cs.CType = []string{"text/plain", "application/json; charset=utf-8", "APPLICATION/JSON", "text/plain;q=1"}[r.Intn(4)]
		}
		wellFormed := cs.Method == "POST" && (cs.CType == "application/json" || cs.CType == "text/plain" || cs.CType == "application/json; charset=utf-8" || cs.CType == "APPLICATION/JSON" || cs.CType == "text/plain;q=1")
		calls := 1
		switch r.Intn(10) {
		case 0:
			cs.Body = `[{"method":"` + c36Sentinel + `","id":1},{"method":"` + c36Sentinel + `","id":2}]`
			calls = 2
		case 1:
			cs.Body = `{"method":` // invalid JSON
			calls = 0
		case 2:
			cs.Body = `{"jsonrpc":"2.0","method":"nosuchmethod","params":[],"id":7}`
			calls = 0
		default:
			cs.Body = `{"jsonrpc":"2.0","method":"` + c36Sentinel + `","params":{},"id":"x"}`
		}

		// ---- model ----
		cs.Allowed = cs.WL.allowAll || (cs.Addr.Form != "garbage" && (cs.Addr.loop || cs.WL.listed))
		cs.AuthOK = !configured || cs.Hdr.hasRight
		mustServe := wellFormed && cs.AuthOK && (!configured || cs.Hdr.Kind == "right") &&
			cs.Addr.Form == "canon" && (cs.Addr.loop || cs.WL.exact || cs.WL.allowAll)

		// ---- real code ----
		req := httptest.NewRequest(cs.Method, "/", strings.NewReader(cs.Body))
		req.RemoteAddr = cs.Addr.Text
		if cs.CType != "" {
			req.Header.Set("Content-Type", cs.CType)
		}
		for k, vs := range cs.Hdr.Values {
			req.Header[http.CanonicalHeaderKey(k)] = vs
		}
		rec := httptest.NewRecorder()
		hits = 0
		var panicked bool
		var pv interface{}
		if cs.Target == "node" {
			config.Parameters.RpcConfiguration = config.RpcConfiguration{User: cs.Cred.User, Pass: cs.Cred.Pass, WhiteIPList: cs.WL.List}
			panicked, pv, _ = kit.Guard(func() { httpjsonrpc.Handle(rec, req) })
		} else {
			s := jsonrpc.NewServer(&jsonrpc.Config{User: cs.Cred.User, Pass: cs.Cred.Pass, WhiteList: cs.WL.List})
			s.RegisterAction(c36Sentinel, func(htp.Params) (interface{}, error) { hits++; return "sentinel", nil })
			panicked, pv, _ = kit.Guard(func() { s.ServeHTTP(rec, req) })
		}
		cs.Status, cs.Hits = rec.Code, hits
		c.Inc("A_requests")
		c.Inc("A_requests_" + cs.Target)
		id, _ := json.Marshal([]interface{}{cs.Target, cs.Addr.Text, cs.WL.List, cs.Cred, cs.Hdr.Values, cs.Method, cs.CType, cs.Body})
		c.CaseBytes(id, wellFormed)
		if i < 3 {
			c.Sample(cs)
		}
		if panicked {
			c.Inc("A_panics")
			c.Note("A: panic in %s handler: %v (RemoteAddr %q)", cs.Target, pv, cs.Addr.Text)
			continue
		}
		refusal := cs.Status == http.StatusForbidden || cs.Status == http.StatusUnauthorized ||
			cs.Status == http.StatusMethodNotAllowed || cs.Status == http.StatusUnsupportedMediaType
		served := !refusal || hits > 0
		switch {
		case cs.Status == http.StatusForbidden:
			c.Inc("A_refused_ip")
		case cs.Status == http.StatusUnauthorized:
			c.Inc("A_refused_auth")
		case refusal:
			c.Inc("A_refused_protocol")
		}
		if !cs.Allowed || !cs.AuthOK {
			c.Inc("A_must_refuse_cases")
			if !cs.Allowed {
				c.Inc("A_must_refuse_address_" + cs.Addr.Form)
			}
			if !cs.AuthOK {
				c.Inc("A_must_refuse_credential")
			}
		}
		if served {
			c.Inc("A_served")
			c.Count("A_sentinel_dispatches", int64(hits))
			if !cs.Addr.loop && !cs.WL.allowAll && cs.WL.listed {
				c.Inc("A_served_whitelisted_nonloopback")
			}
			if cs.WL.allowAll && !cs.Addr.loop {
				c.Inc("A_served_allow_all")
			}
			if configured && cs.Hdr.Kind == "right" {
				c.Inc("A_served_with_credential")
			}
			if configured && cs.Hdr.hasRight && strings.HasPrefix(cs.Hdr.Kind, "two-right-first") {
				c.Inc("A_served_two_values_first_right")
			}
			if !cs.Allowed {
				reason := "not-whitelisted"
				if cs.Addr.Form == "garbage" {
					reason = "not-an-address"
				}
				c.Violate("access:"+cs.Target+":served-unallowed-address:"+reason,
					fmt.Sprintf("%s server served (status %d, %d dispatches) RemoteAddr %q (%s) which is neither loopback nor whitelisted by %q", cs.Target, cs.Status, hits, cs.Addr.Text, cs.Addr.Kind, cs.WL.List), cs)
			}
			if !cs.AuthOK {
				c.Violate("access:"+cs.Target+":served-bad-credential:"+c36HdrClass(cs.Hdr.Kind),
					fmt.Sprintf("%s server served (status %d, %d dispatches) with user=%q pass=%q configured and Authorization %q (%s)", cs.Target, cs.Status, hits, cs.Cred.User, cs.Cred.Pass, cs.Hdr.Values["Authorization"], cs.Hdr.Kind), cs)
			}
			if hits != calls && cs.Status == 200 {
				c.Inc("A_dispatch_count_unexpected")
			}
		} else if mustServe {
			// not a violation of the (one-directional) property; it would make the check vacuous if common
			c.Inc("A_positive_control_refused")
			c.Note("A: positive control refused: %s status %d RemoteAddr %q whitelist %q", cs.Target, cs.Status, cs.Addr.Text, cs.WL.List)
		} else if cs.Allowed && cs.AuthOK && wellFormed {
			c.Inc("A_stricter_than_model") // lenient spellings etc. refused: fine
		}
		if mustServe && served {
			c.Inc("A_positive_control_served")
		}
	}
}

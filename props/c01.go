package props

import (
	"fmt"
	"math"
	"math/big"
	"math/rand"

	"github.com/elastos/Elastos.ELA/blockchain"
	"github.com/elastos/Elastos.ELA/common"
	"github.com/elastos/Elastos.ELA/core"
	pg "github.com/elastos/Elastos.ELA/core/contract/program"
	common2 "github.com/elastos/Elastos.ELA/core/types/common"
	"github.com/elastos/Elastos.ELA/core/types/functions"
	"github.com/elastos/Elastos.ELA/core/types/interfaces"
	"github.com/elastos/Elastos.ELA/core/types/outputpayload"

	"verif/kit"
	"verif/kit/node"
)

// C01 — no transaction creates value.
// A: arithmetic monitor on the fee check of every tx type (exact big.Int oracle).
// B: end-to-end: signed txs with wrapping output vectors through the mempool and
//    through blocks on a real node + conservation monitor over the node's chain.
// C: the "no-cost" forms whose context check ends before the fee check, on
//    DPoS-era nodes (c01_nocost.go).

func init() {
	kit.Register(&kit.Spec{
		ID:     "C01",
		Rule:   "A: per tx type, output/reference amount vectors (edge values, uniform, and vectors CONSTRUCTED so the int64-wrapped sum equals inputs-fee) fed to the type's own CheckTransactionFee, chain.CheckTransactionFee and GetTxFeeMap; B: signed TransferAsset (v0/v9) spending real mature UTXOs with such vectors submitted to AppendToTxPool and inside blocks via ProcessBlock, over-claiming coinbases, followed by an exact conservation replay of the node's chain. distinct = distinct (type, vector); non-trivial = every amount individually valid (>=0) and the fee check was reached; C (shards >= 8, compressed DPoS-era nodes): for each transaction form whose context check ends before the fee check (SideChainPow no-input form, IllegalProposalEvidence, ActivateProducer above NFTStartHeight, RecordSponsor, NextTurnDPOSInfo, RevertToPOW, RevertToDPOS) a valid instance plus shape variants (no inputs + valued outputs, honest form + extra valued outputs, valued marker, real input with outputs exceeding it) through AppendToTxPool and inside arbiter-confirmed blocks; accepted => exact sum(outputs) <= sum(spent)",
		Shards: func(tier string) int { return c01BaseShards + len(c01cScripts) },
		Run:    runC01,
		Require: append([]string{"A_fee_checks", "A_wrap_constructed", "A_accepted_honest", "B_pool_submissions", "B_block_submissions", "B_accepted_honest", "B_conservation_replays", "A_types_reached"},
			c01cRequire()...),
		Assumptions: []string{"math/big is correct", "regnet parameters with CheckRewardHeight=0 (coinbase amount errors are not discarded)"},
	})
}

var edgeAmounts = []int64{0, 1, 100, 1 << 31, 1<<53 - 1, 1<<53 + 1, 1<<62 - 1, 1 << 62, 1<<62 + 1, math.MaxInt64, math.MaxInt64 - 1}

func amountVec(r *rand.Rand, n int) []int64 {
	v := make([]int64, n)
	for i := range v {
		switch r.Intn(4) {
		case 0:
			v[i] = edgeAmounts[r.Intn(len(edgeAmounts))]
		case 1:
			v[i] = r.Int63()
		case 2:
			v[i] = r.Int63n(1 << 40)
		default:
			v[i] = r.Int63() >> uint(r.Intn(62))
		}
	}
	return v
}

// wrapVec constructs non-negative amounts whose int64-wrapped sum equals want
// (0 <= want) while the exact sum is want + k*2^64.
func wrapVec(r *rand.Rand, want int64, k int) []int64 {
	// exact total = want + k*2^64 ; split into 2k+1.. parts each <= MaxInt64
	total := new(big.Int).Lsh(big.NewInt(int64(k)), 64)
	total.Add(total, big.NewInt(want))
	var v []int64
	maxv := big.NewInt(math.MaxInt64)
	for total.Sign() > 0 {
		var part *big.Int
		if total.Cmp(maxv) > 0 {
			// random large part, keep remainder non-negative
			part = new(big.Int).Sub(maxv, big.NewInt(r.Int63n(1<<20)))
			if r.Intn(3) == 0 {
				part = new(big.Int).Rsh(part, uint(r.Intn(2)))
			}
		} else {
			part = new(big.Int).Set(total)
		}
		v = append(v, part.Int64())
		total.Sub(total, part)
	}
	r.Shuffle(len(v), func(i, j int) { v[i], v[j] = v[j], v[i] })
	return v
}

func sumBig(v []int64) *big.Int {
	s := new(big.Int)
	for _, x := range v {
		s.Add(s, big.NewInt(x))
	}
	return s
}

var allTxTypes = []common2.TxType{0x00, 0x01, 0x02, 0x03, 0x05, 0x07, 0x08, 0x09, 0x0a, 0x0b, 0x0c, 0x0d, 0x0e, 0x0f, 0x10, 0x11, 0x12, 0x13, 0x14, 0x15,
	0x21, 0x22, 0x23, 0x24, 0x25, 0x26, 0x27, 0x28, 0x29, 0x2a, 0x2b, 0x31, 0x41, 0x42, 0x51, 0x60, 0x61, 0x62, 0x63, 0x64, 0x65, 0x66, 0x71, 0x72}

func mkTx(t common2.TxType, outs []int64) interfaces.Transaction {
	pl, _ := interfaces.GetPayload(t, 0)
	var outputs []*common2.Output
	for _, v := range outs {
		outputs = append(outputs, &common2.Output{AssetID: core.ELAAssetID, Value: common.Fixed64(v), Type: common2.OTNone, Payload: &outputpayload.DefaultOutput{}})
	}
	return functions.CreateTransaction(common2.TxVersion09, t, 0, pl, []*common2.Attribute{}, nil, outputs, 0, []*pg.Program{})
}

func mkRefs(tx interfaces.Transaction, ins []int64) map[*common2.Input]common2.Output {
	refs := map[*common2.Input]common2.Output{}
	var inputs []*common2.Input
	for i, v := range ins {
		in := &common2.Input{Previous: common2.OutPoint{Index: uint16(i)}}
		inputs = append(inputs, in)
		refs[in] = common2.Output{AssetID: core.ELAAssetID, Value: common.Fixed64(v)}
	}
	tx.SetInputs(inputs)
	return refs
}

func runC01(c *kit.Ctx) {
	if c.Shard >= c01BaseShards {
		runC01NoCost(c) // part C, c01_nocost.go
		return
	}
	nd, err := node.Start(node.Options{Dir: c.WorkDir, CoinbaseMaturity: 2})
	if err != nil {
		c.Inconclusive("node start: %v", err)
		return
	}
	defer nd.Close()
	r := c.Rand("c01")
	minFee := int64(nd.Cfg.MinTransactionFee)

	// ---------- A: arithmetic on every tx type ----------
	typesReached := map[common2.TxType]bool{}
	nA := c.N(3000, 60000)
	for i := 0; i < nA; i++ {
		t := allTxTypes[(i+c.Shard)%len(allTxTypes)]
		var ins, outs []int64
		constructed := false
		switch i % 4 {
		case 0: // honest: out = in - fee
			ins = []int64{r.Int63n(1 << 50), r.Int63n(1 << 50)}
			tot := ins[0] + ins[1]
			fee := minFee + r.Int63n(1000)
			if t == common2.ActivateProducer {
				fee = 0
			}
			if tot < fee {
				ins[0] += fee
				tot += fee
			}
			a := r.Int63n(tot - fee + 1)
			outs = []int64{a, tot - fee - a}
		case 1, 2: // constructed wrap
			ins = amountVec(r, 1+r.Intn(3))
			for j := range ins {
				ins[j] >>= 2 // keep exact input sum below 2^63
			}
			inSum := sumBig(ins).Int64()
			fee := minFee + r.Int63n(1000)
			if t == common2.ActivateProducer {
				fee = 0
			}
			if inSum < fee {
				ins[0] += fee
				inSum += fee
			}
			outs = wrapVec(r, inSum-fee, 1+r.Intn(3))
			constructed = true
			c.Inc("A_wrap_constructed")
		default:
			ins = amountVec(r, 1+r.Intn(4))
			outs = amountVec(r, 1+r.Intn(8))
		}
		tx := mkTx(t, outs)
		refs := mkRefs(tx, ins)
		para := functions.GetTransactionParameters(tx, nd.Height()+1, 0, nd.Cfg, nd.Chain, 0)
		tx.SetParameters(para)
		var e1 error
		p, pv, st := kit.Guard(func() { e1 = tx.CheckTransactionFee(refs) })
		if p {
			c.Note("A: panic in CheckTransactionFee type %s: %v %s", t.Name(), pv, st[:200])
			continue
		}
		e2 := nd.Chain.CheckTransactionFee(tx, refs)
		inB, outB := sumBig(ins), sumBig(outs)
		c.Inc("A_fee_checks")
		typesReached[t] = true
		c.Case(fmt.Sprintf("A:%d:%v:%v", t, ins, outs), true)
		if i < 2 {
			c.Sample(map[string]interface{}{"kind": "A", "type": t.Name(), "inputs": ins, "outputs": outs, "constructed_wrap": constructed, "type_fee_check_ok": e1 == nil, "chain_fee_check_ok": e2 == nil})
		}
		creates := outB.Cmp(inB) > 0
		if e1 == nil && !creates && i%4 == 0 {
			c.Inc("A_accepted_honest")
		}
		if e1 == nil && creates {
			c.Violate("fee-check-wraps:type-check", fmt.Sprintf("type %s CheckTransactionFee accepted exact sum(out)=%s > sum(in)=%s (outs=%v ins=%v)", t.Name(), outB, inB, outs, ins),
				map[string]interface{}{"type": int(t), "ins": ins, "outs": outs})
		}
		if e2 == nil && creates {
			c.Violate("fee-check-wraps:chain-check", fmt.Sprintf("BlockChain.CheckTransactionFee accepted exact sum(out)=%s > sum(in)=%s (outs=%v ins=%v)", outB, inB, outs, ins),
				map[string]interface{}{"type": int(t), "ins": ins, "outs": outs})
		}
		// block-level fee aggregation helper
		fm, _ := blockchain.GetTxFeeMap(tx, refs)
		fee := fm[core.ELAAssetID]
		exact := new(big.Int).Sub(inB, outB)
		if e1 == nil && big.NewInt(int64(fee)).Cmp(exact) != 0 {
			c.Violate("fee-map-inexact", fmt.Sprintf("accepted tx: GetTxFeeMap fee=%d but exact in-out=%s", int64(fee), exact), map[string]interface{}{"ins": ins, "outs": outs})
		}
	}
	c.Count("A_types_reached", int64(len(typesReached)))

	// ---------- B: end to end ----------
	// fund 6 accounts from the genesis output
	if err := nd.MineN(int(nd.Cfg.PowConfiguration.CoinbaseMaturity) + 1); err != nil {
		c.Inconclusive("mining: %v", err)
		return
	}
	g := nd.GenesisUTXO()
	accts := []int{2, 3, 4, 5, 6, 7}
	var outs []node.Out
	per := common.Fixed64(1000 * 1e8)
	for _, a := range accts {
		for k := 0; k < 6; k++ {
			outs = append(outs, node.Out{To: node.Key(a).ProgramHash, Value: per})
		}
	}
	outs = append(outs, node.Out{To: nd.Found.ProgramHash, Value: g.Value - per*common.Fixed64(len(outs)) - 1000})
	fund := node.Transfer([]node.UTXORef{g}, outs, common2.TxVersion09)
	if err := nd.TxPool.AppendToTxPool(fund); err != nil {
		c.Inconclusive("funding tx rejected: %v", err)
		return
	}
	if _, err := nd.MineTip(fund); err != nil {
		c.Inconclusive("funding block rejected: %v", err)
		return
	}
	nd.MineN(3)
	type utx struct {
		ref  node.UTXORef
		used bool
	}
	var pool []*utx
	for i := 0; i < len(accts)*6; i++ {
		pool = append(pool, &utx{ref: node.UTXORef{TxID: fund.Hash(), Index: uint16(i), Value: per, Owner: node.Key(accts[i/6])}})
	}
	take := func() *utx {
		for _, u := range pool {
			if !u.used {
				return u
			}
		}
		return nil
	}
	check := func(stage string) {
		l := nd.Replay()
		c.Inc("B_conservation_replays")
		for _, is := range l.Issues {
			c.Violate("ledger:"+is.Kind, fmt.Sprintf("%s: height %d tx %s: %s", stage, is.Height, is.TxID, is.Detail), nil)
		}
		// exact conservation: total unspent == genesis + minted ; minted == schedule in the pow era
		want := new(big.Int).Add(l.Genesis, l.Minted)
		if l.Total().Cmp(want) != 0 {
			c.Violate("conservation-total", fmt.Sprintf("%s: sum(unspent)=%s != genesis+minted=%s", stage, l.Total(), want), nil)
		}
		if l.Minted.Cmp(l.Schedule) != 0 {
			c.Violate("issuance-differs", fmt.Sprintf("%s: minted=%s schedule=%s", stage, l.Minted, l.Schedule), nil)
		}
	}
	check("after funding")
	nB := c.N(28, 35)
	for i := 0; i < nB; i++ {
		u := take()
		if u == nil {
			break
		}
		inVal := int64(u.ref.Value)
		fee := minFee + r.Int63n(500)
		var vec []int64
		kind := ""
		dupIn := false
		switch i % 7 {
		case 6: // the same outpoint listed twice (different Sequence) and counted twice
			vec, kind = []int64{2*inVal - fee}, "dup-outpoint-diff-sequence"
			dupIn = true
		case 0:
			vec, kind = []int64{inVal - fee}, "honest"
		case 1:
			vec, kind = []int64{inVal + 1}, "plain-overspend"
		case 2:
			vec, kind = []int64{1 << 62, 1 << 62}, "double-wrap"
		case 3:
			vec, kind = wrapVec(r, inVal-fee, 1), "constructed-wrap-k1"
		case 4:
			vec, kind = wrapVec(r, inVal-fee, 2), "constructed-wrap-k2"
		default:
			vec, kind = []int64{-1, inVal - fee + 1}, "negative-output"
		}
		var os []node.Out
		for j, v := range vec {
			os = append(os, node.Out{To: node.Key(accts[(i+j)%len(accts)]).ProgramHash, Value: common.Fixed64(v)})
		}
		ver := common2.TxVersion09
		if i%2 == 1 {
			ver = common2.TxVersionDefault
		}
		tx := node.Transfer([]node.UTXORef{u.ref}, os, ver)
		if dupIn {
			ins := tx.Inputs()
			ins = append(ins, &common2.Input{Previous: ins[0].Previous, Sequence: ins[0].Sequence + 1})
			tx.SetInputs(ins)
			node.SignStd(tx, u.ref.Owner)
		}
		creates := sumBig(vec).Cmp(big.NewInt(inVal)) > 0
		neg := false
		for _, v := range vec {
			if v < 0 {
				neg = true
			}
		}
		viaBlock := (i/7)%2 == 1
		c.Begin("B case %d kind=%s viaBlock=%v vec=%v", i, kind, viaBlock, vec)
		c.Case(fmt.Sprintf("B:%s:%v:%v", kind, vec, viaBlock), !neg)
		accepted := false
		if !viaBlock {
			c.Inc("B_pool_submissions")
			if err := nd.TxPool.AppendToTxPool(tx); err == nil {
				accepted = true
				if _, err := nd.MineTip(tx); err != nil {
					c.Note("pool-accepted tx rejected in block (%s): %v", kind, err)
					nd.TxPool.RemoveTransaction(tx)
				}
			}
		} else {
			c.Inc("B_block_submissions")
			// fees claimed by the coinbase as the node's own (wrapping) arithmetic would compute them
			var wsum int64
			for _, v := range vec {
				wsum += v
			}
			b, err := nd.Assemble(node.BlockSpec{Txs: []interfaces.Transaction{tx}, Fees: common.Fixed64(func() int64 {
				if dupIn {
					return 2*inVal - wsum
				}
				return inVal - wsum
			}())})
			if err == nil {
				h0 := nd.Height()
				_, _, perr := nd.Process(b)
				if perr == nil && nd.Height() == h0+1 {
					accepted = true
					nd.PostBlock(b)
				}
			}
		}
		if i < 7 && c.Shard == 0 {
			c.Sample(map[string]interface{}{"kind": "B:" + kind, "spent_value": inVal, "outputs": vec, "via_block": viaBlock, "accepted": accepted})
		}
		if accepted {
			u.used = true
			if kind == "honest" {
				c.Inc("B_accepted_honest")
			}
			if creates || neg {
				path := "mempool"
				if viaBlock {
					path = "block"
				}
				c.Violate("value-created:"+path, fmt.Sprintf("%s accepted a signed TransferAsset (%s) spending %d with outputs %v (exact sum %s)", path, kind, inVal, vec, sumBig(vec)),
					map[string]interface{}{"kind": kind, "vec": vec, "spent": inVal})
			}
		} else if kind == "honest" {
			c.Violate("honest-rejected", fmt.Sprintf("honest transfer rejected (viaBlock=%v)", viaBlock), nil)
		}
		check(fmt.Sprintf("after case %d (%s)", i, kind))
	}
	// over-claiming coinbase: subsidy + delta must be rejected
	for _, d := range []int64{1, 100, 1 << 40} {
		b, err := nd.Assemble(node.BlockSpec{RewardSkew: d})
		if err != nil {
			continue
		}
		h0 := nd.Height()
		nd.Process(b)
		c.Inc("B_block_submissions")
		c.Case(fmt.Sprintf("B:coinbase-skew:%d", d), true)
		if nd.Height() != h0 {
			c.Violate("coinbase-overclaim-accepted", fmt.Sprintf("block whose coinbase claims subsidy+%d was accepted", d), nil)
		}
	}
	check("final")
}

package props

import (
	"fmt"

	"github.com/elastos/Elastos.ELA/common"
	"github.com/elastos/Elastos.ELA/core/types"
	"github.com/elastos/Elastos.ELA/core/types/interfaces"
	"github.com/elastos/Elastos.ELA/elanet/bloom"
	"github.com/elastos/Elastos.ELA/p2p/msg"

	"verif/kit"
)

// C08 soundness family "duplicated tail" (CVE-2012-2459 shape): when level h
// of the merkle tree has an odd number of nodes, the last node is paired with
// itself, so the transaction list with the leaves of that last node appended
// once more has the SAME root. A serving peer can therefore build a merkle
// block over N+k transactions that verifies against the honest header only if
// the verifier fails to refuse identical left/right children. The forged
// message is built by the node's own builder from the forged list (all
// transactions matched, so the duplicated tail is revealed), sent through the
// wire encoding and presented under the honest header: every verifier must
// refuse it.
func c08DupTail(c *kit.Ctx, b *c08Block, id string) {
	n := b.n
	for h := uint(0); (1 << h) < n; h++ {
		if n%(1<<h) != 0 {
			break // the last node of this level covers fewer than 2^h leaves: appending them would not align
		}
		width := n >> h
		if width%2 == 0 || width == 1 {
			continue
		}
		k := 1 << h
		forged := append(append([]interfaces.Transaction(nil), b.txs...), b.txs[n-k:]...)
		leaves := append(append([][32]byte(nil), b.leaves...), b.leaves[n-k:]...)
		if refMerkleRoot(leaves) != b.root {
			c.Inc("dup_tail_reference_root_differs") // the reference tree does not pair this way: nothing to forge
			continue
		}
		c.Inc("dup_tail_forgeries")
		c.Inc(fmt.Sprintf("dup_tail_forgeries_level_%d", h))
		all := &msg.FilterLoad{Filter: []byte{0xff, 0xff, 0xff, 0xff}, HashFuncs: 1, Tweak: 0}
		fblk := &types.Block{Header: b.blk.Header, Transactions: forged}
		var mb *msg.MerkleBlock
		var idx []uint32
		if p, pv, _ := kit.Guard(func() { mb, idx = bloom.NewMerkleBlock(fblk, bloom.LoadFilter(all)) }); p {
			c.Inc("dup_tail_builder_panicked")
			c.Note("dup-tail: builder panicked on the forged list (n=%d, level %d): %v", n, h, pv)
			continue
		}
		if len(idx) != len(forged) {
			c.Inc("dup_tail_not_all_matched")
		}
		w, err := c08Wire(mb)
		if err != nil {
			c.Inc("dup_tail_wire_failed")
			continue
		}
		cs := map[string]interface{}{"n": n, "level": h, "duplicated": k, "claimed_tx_count": w.Transactions}
		for _, ck := range c08Checkers {
			var hs []*common.Uint256
			var cerr error
			if p, pv, st := kit.Guard(func() { hs, cerr = ck.fn(c08Clone(w)) }); p {
				c.Violate("panic:CheckMerkleBlock:duplicated-tail", fmt.Sprintf("%s: %s.CheckMerkleBlock panicked on a duplicated-tail message (n=%d level %d): %v\n%s", id, ck.name, n, h, pv, firstLines(st, 10)), cs)
				continue
			}
			if cerr != nil {
				c.Inc("dup_tail_forgeries_rejected")
				continue
			}
			c.Violate("soundness:duplicated-tail-accepted", fmt.Sprintf("%s: %s.CheckMerkleBlock accepts a merkle block claiming %d transactions (the honest %d plus its last %d once more) under the honest header and returns %d txids",
				id, ck.name, w.Transactions, n, k, len(hs)), cs)
		}
		// branch extraction on the forged message: a branch for a duplicated txid must not be served
		txid := common.Uint256(b.leaves[n-1])
		var mbr *bloom.MerkleBranch
		var berr error
		if p, _, _ := kit.Guard(func() { mbr, berr = bloom.GetTxMerkleBranch(c08Clone(w), &txid) }); p {
			c.Inc("dup_tail_branch_panicked")
			continue
		}
		if berr != nil || mbr == nil {
			c.Inc("dup_tail_branch_refused")
			continue
		}
		c.Violate("soundness:duplicated-tail-branch-served", fmt.Sprintf("%s: GetTxMerkleBranch serves a branch (index %d, %d siblings) from a merkle block claiming %d transactions for a block of %d",
			id, mbr.Index, len(mbr.Branches), w.Transactions, n), cs)
	}
}

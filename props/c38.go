package props

import (
	"bytes"
	"crypto/aes"
	"crypto/cipher"
	"crypto/ecdsa"
	"crypto/elliptic"
	crand "crypto/rand"
	"crypto/sha256"
	"encoding/hex"
	"encoding/json"
	"fmt"
	"io"
	"math/big"
	mrand "math/rand"
	"os"
	"path/filepath"
	"time"

	"github.com/elastos/Elastos.ELA/account"
	"github.com/elastos/Elastos.ELA/crypto"

	"verif/kit"
)

// C38 — secret key material comes from a secure random source.
//
// Runtime formulation: crypto/rand.Reader is a package variable. The worker
// replaces it with a recording deterministic stream R and runs every
// key-material entry point G of the account and crypto packages under it:
//
//	(1) draw accounting  bytes read from R during G >= entropy of the material
//	(2) dependence       G repeated 16x under the SAME stream yields 1 value
//	                     (<= 2 for stdlib-ECDSA paths: randutil.MaybeReadByte
//	                     consumes 0 or 1 byte); a time- or PRNG-fed generator
//	                     yields many
//	(3) sensitivity      different streams yield different material (a
//	                     constant or fixed-seed generator does not)
//
// Material that passes all three is a function of what was read from the
// secure source (and of the caller's inputs) only. The monitors are validated
// in every run against known-good and deliberately weak generators.

func init() {
	kit.Register(&kit.Spec{
		ID:   "C38",
		Rule: "case = (entry point, stream seed): the entry point is run 16x under each of 8 (quick) / 32 (thorough) recording crypto/rand.Reader streams with per-shard fixed keys, messages and passwords; distinct = distinct (entry point, stream, shard inputs); non-trivial = the entry point returned key material without error in all repetitions. Entropy-fault family: every entry point additionally runs under crypto/rand.Reader replacements that always error, error for the first k calls, deliver T bytes and then error, or deliver in 1..3 byte pieces (case = entry point x fault reader; non-trivial = the entry point consulted the reader). Entry points: crypto.GenerateKeyPair, account.NewAccount, account.NewClient(create), account.Create, Client.CreateAccount, crypto.Sign, crypto.SignDigest, Account.Sign, crypto.AggregateSignatures (1..3 keys), crypto.Encrypt",
		Shards: func(tier string) int {
			if tier == "thorough" {
				return 8
			}
			return 3
		},
		Run: runC38,
		Require: []string{"selftest_good_passed", "selftest_weak_flagged", "entry_runs", "materials_checked",
			"materials_from_secure_source", "keystore_files_decrypted", "signatures_verified", "ecies_roundtrips",
			"entropy_fault_cases", "entropy_fault_no_secret", "entropy_fault_secret_traceable", "entropy_fault_benign_short_ok",
			"entropy_fault_selftest_flagged", "entropy_fault_selftest_clean",
			"entropy_fault_cases:crypto.GenerateKeyPair", "entropy_fault_cases:account.NewAccount", "entropy_fault_cases:account.NewClient",
			"entropy_fault_cases:account.Create", "entropy_fault_cases:Client.CreateAccount", "entropy_fault_cases:crypto.Sign",
			"entropy_fault_cases:crypto.SignDigest", "entropy_fault_cases:Account.Sign", "entropy_fault_cases:crypto.AggregateSignatures/1keys",
			"entropy_fault_cases:crypto.AggregateSignatures/2keys", "entropy_fault_cases:crypto.AggregateSignatures/3keys", "entropy_fault_cases:crypto.Encrypt"},
		Assumptions: []string{
			"go1.23.5: ecdsa.GenerateKey / ecdsa.Sign / elliptic.GenerateKey take their entropy from the io.Reader they are given (calibrated per run with a direct stdlib call; inconclusive otherwise)",
			"decides the enumerated public entry points, not 'all code paths' (no static claim); p2p version nonces / DPoS handshake challenge nonces are not secret key material and are out of scope",
			"keystore master key and IV are observed by reading the keystore file written under c.WorkDir and decrypting it with the known password using stdlib AES-CBC",
		},
	})
}

// ---------------------------------------------------------------- stream R

type c38Stream struct {
	r     *mrand.Rand
	n     int64
	reads int
}

func newC38Stream(seed int64) *c38Stream { return &c38Stream{r: mrand.New(mrand.NewSource(seed))} }

func (s *c38Stream) Read(p []byte) (int, error) {
	s.r.Read(p)
	s.n += int64(len(p))
	s.reads++
	return len(p), nil
}

// c38UnderReader runs f with crypto/rand.Reader replaced by rd. f may restore
// the healthy reader early through the returned-to-env afterG hook.
func c38UnderReader(rd io.Reader, f func()) {
	old := crand.Reader
	crand.Reader = rd
	defer func() { crand.Reader = old }()
	f()
}

// c38Produce runs one entry point with crypto/rand.Reader replaced by rd and
// returns the key material it produced.
func c38Produce(env *c38Env, ent *c38Entry, rd io.Reader, rep string) (vals map[string][]byte, err error) {
	if ent.name == "Client.CreateAccount" {
		// keystore prepared with the healthy reader, then one CreateAccount
		// on the reopened client under rd
		p := env.freshPath()
		if _, e := account.Create(p, append([]byte(nil), env.pass...)); e != nil {
			return nil, e
		}
		cl, e := account.Open(p, append([]byte(nil), env.pass...))
		if e != nil {
			return nil, e
		}
		c38UnderReader(rd, func() {
			var a *account.Account
			a, err = cl.CreateAccount()
			env.produced()
			if err == nil {
				vals = map[string][]byte{"privateKey": c38Pad32(a.PrivKey())}
			}
		})
		if err == nil {
			re, e := account.Open(p, append([]byte(nil), env.pass...))
			if e != nil || len(re.GetAccounts()) != 2 {
				return nil, fmt.Errorf("keystore does not hold the created account (%v)", e)
			}
		}
		return
	}
	c38UnderReader(rd, func() { vals, err = ent.gen(rep) })
	return
}

// c38Under runs f with crypto/rand.Reader replaced by a fresh stream of the
// given seed and returns the number of bytes f drew from it.
func c38Under(seed int64, f func()) int64 {
	s := newC38Stream(seed)
	old := crand.Reader
	crand.Reader = s
	defer func() { crand.Reader = old }()
	f()
	return s.n
}

// ---------------------------------------------------------------- entries

type c38Mat struct {
	name    string
	chain   []string // sites from this entry point's own down to the innermost delegate
	entropy int
	max     int // allowed distinct values under one stream (0 = the entry's maxDistinct)
}

// c38RawMaterial: material whose bytes are copied verbatim from the secure
// source (so they must occur in the log of bytes the source delivered).
var c38RawMaterial = map[string]bool{"account.NewClient.iv": true, "account.NewClient.masterKey": true,
	"account.Create.iv": true, "account.Create.masterKey": true, "crypto.Encrypt.iv": true}

type c38Entry struct {
	name        string
	maxDistinct int // allowed distinct values under one stream (default for its materials)
	mats        []c38Mat
	gen         func(rep string) (map[string][]byte, error)
}

type c38Env struct {
	c      *kit.Ctx
	priv   []byte
	pub    *crypto.PublicKey
	acct   *account.Account
	msg    []byte
	digest []byte
	pass   []byte
	sKeys  [][]*big.Int // schnorr key sets of size 1..3
	dirN   int
	// afterG, when set, runs right after the secret-producing call of an
	// entry point returned and before the functional controls (verify,
	// reopen, decrypt). The entropy-fault family restores the healthy
	// crypto/rand.Reader there so that only G itself sees the fault.
	afterG func()
}

func (e *c38Env) produced() {
	if e.afterG != nil {
		e.afterG()
	}
}

func (e *c38Env) freshPath() string {
	e.dirN++
	return filepath.Join(e.c.WorkDir, fmt.Sprintf("ks-%d.dat", e.dirN))
}

type c38KeyFile struct {
	IV        string
	MasterKey string
}

// c38ReadKeystore reads IV and master key out of a keystore file, decrypting
// with stdlib AES-256-CBC under sha256(sha256(password)).
func c38ReadKeystore(path string, password []byte) (iv, mk []byte, err error) {
	b, err := os.ReadFile(path)
	if err != nil {
		return nil, nil, err
	}
	var kf c38KeyFile
	if err = json.Unmarshal(b, &kf); err != nil {
		return nil, nil, err
	}
	if iv, err = hex.DecodeString(kf.IV); err != nil || len(iv) != 16 {
		return nil, nil, fmt.Errorf("bad IV %q", kf.IV)
	}
	enc, err := hex.DecodeString(kf.MasterKey)
	if err != nil || len(enc) == 0 || len(enc)%16 != 0 {
		return nil, nil, fmt.Errorf("bad MasterKey %q", kf.MasterKey)
	}
	h1 := sha256.Sum256(password)
	h2 := sha256.Sum256(h1[:])
	blk, err := aes.NewCipher(h2[:])
	if err != nil {
		return nil, nil, err
	}
	mk = make([]byte, len(enc))
	cipher.NewCBCDecrypter(blk, iv).CryptBlocks(mk, enc)
	return iv, mk, nil
}

func c38Pad32(b []byte) []byte {
	if len(b) >= 32 {
		return b
	}
	return append(make([]byte, 32-len(b)), b...)
}

func c38Entries(e *c38Env) []c38Entry {
	c := e.c
	pw := func() []byte { return append([]byte(nil), e.pass...) }
	gk := "crypto.GenerateKeyPair.privateKey"
	sg := "crypto.Sign.nonce"
	checkSig := func(sig, data []byte, digest bool) error {
		var err error
		if digest {
			err = crypto.VerifyDigest(*e.pub, data, sig)
		} else {
			err = crypto.Verify(*e.pub, data, sig)
		}
		if err == nil {
			c.Inc("signatures_verified")
		}
		return err
	}
	es := []c38Entry{
		{name: "crypto.GenerateKeyPair", maxDistinct: 2,
			mats: []c38Mat{{"privateKey", []string{gk}, 32, 0}},
			gen: func(string) (map[string][]byte, error) {
				priv, pub, err := crypto.GenerateKeyPair()
				e.produced()
				if err != nil {
					return nil, err
				}
				if x, y := elliptic.P256().ScalarBaseMult(priv); x.Cmp(pub.X) != 0 || y.Cmp(pub.Y) != 0 {
					return nil, fmt.Errorf("public key does not belong to private key")
				}
				return map[string][]byte{"privateKey": c38Pad32(priv)}, nil
			}},
		{name: "account.NewAccount", maxDistinct: 2,
			mats: []c38Mat{{"privateKey", []string{"account.NewAccount.privateKey", gk}, 32, 0}},
			gen: func(string) (map[string][]byte, error) {
				a, err := account.NewAccount()
				e.produced()
				if err != nil {
					return nil, err
				}
				return map[string][]byte{"privateKey": c38Pad32(a.PrivKey())}, nil
			}},
		{name: "account.NewClient", maxDistinct: 1,
			mats: []c38Mat{{"iv", []string{"account.NewClient.iv"}, 16, 0}, {"masterKey", []string{"account.NewClient.masterKey"}, 32, 0}},
			gen: func(string) (map[string][]byte, error) {
				p := e.freshPath()
				cl := account.NewClient(p, pw(), true)
				e.produced()
				if cl == nil {
					return nil, fmt.Errorf("NewClient returned nil")
				}
				iv, mk, err := c38ReadKeystore(p, e.pass)
				if err != nil {
					return nil, err
				}
				c.Inc("keystore_files_decrypted")
				return map[string][]byte{"iv": iv, "masterKey": mk}, nil
			}},
		{name: "account.Create", maxDistinct: 2,
			mats: []c38Mat{
				{"iv", []string{"account.Create.iv", "account.NewClient.iv"}, 16, 1},
				{"masterKey", []string{"account.Create.masterKey", "account.NewClient.masterKey"}, 32, 1},
				{"mainAccountKey", []string{"account.Create.mainAccountKey", "Client.CreateAccount.privateKey", "account.NewAccount.privateKey", gk}, 32, 2}},
			gen: func(string) (map[string][]byte, error) {
				p := e.freshPath()
				cl, err := account.Create(p, pw())
				e.produced()
				if err != nil {
					return nil, err
				}
				iv, mk, err := c38ReadKeystore(p, e.pass)
				if err != nil {
					return nil, err
				}
				c.Inc("keystore_files_decrypted")
				// the keystore must open again with the password and hold the same key
				re, err := account.Open(p, pw())
				if err != nil {
					return nil, fmt.Errorf("reopen: %v", err)
				}
				k := cl.GetMainAccount().PrivKey()
				if !bytes.Equal(c38Pad32(re.GetMainAccount().PrivKey()), c38Pad32(k)) { // D.Bytes() strips leading zeros, the keystore pads
					return nil, fmt.Errorf("reopened keystore holds a different key")
				}
				return map[string][]byte{"iv": iv, "masterKey": mk, "mainAccountKey": c38Pad32(k)}, nil
			}},
		{name: "Client.CreateAccount", maxDistinct: 2,
			mats: []c38Mat{{"privateKey", []string{"Client.CreateAccount.privateKey", "account.NewAccount.privateKey", gk}, 32, 0}},
			gen:  nil}, // needs a keystore prepared outside the recorded stream: see c38RunEntry
		{name: "crypto.Sign", maxDistinct: 2,
			mats: []c38Mat{{"nonce", []string{sg}, 32, 0}},
			gen: func(string) (map[string][]byte, error) {
				sig, err := crypto.Sign(e.priv, e.msg)
				e.produced()
				if err != nil {
					return nil, err
				}
				if err := checkSig(sig, e.msg, false); err != nil {
					return nil, err
				}
				return map[string][]byte{"nonce": sig[:32]}, nil // r = (k*G).x identifies the nonce k (up to sign)
			}},
		{name: "crypto.SignDigest", maxDistinct: 2,
			mats: []c38Mat{{"nonce", []string{"crypto.SignDigest.nonce"}, 32, 0}},
			gen: func(string) (map[string][]byte, error) {
				sig, err := crypto.SignDigest(e.priv, e.digest)
				e.produced()
				if err != nil {
					return nil, err
				}
				if err := checkSig(sig, e.digest, true); err != nil {
					return nil, err
				}
				return map[string][]byte{"nonce": sig[:32]}, nil
			}},
		{name: "Account.Sign", maxDistinct: 2,
			mats: []c38Mat{{"nonce", []string{"Account.Sign.nonce", sg}, 32, 0}},
			gen: func(string) (map[string][]byte, error) {
				sig, err := e.acct.Sign(e.msg)
				e.produced()
				if err != nil {
					return nil, err
				}
				if err := checkSig(sig, e.msg, false); err != nil {
					return nil, err
				}
				return map[string][]byte{"nonce": sig[:32]}, nil
			}},
	}
	for i, ks := range e.sKeys {
		ks := ks
		es = append(es, c38Entry{name: fmt.Sprintf("crypto.AggregateSignatures/%dkeys", i+1), maxDistinct: 1,
			mats: []c38Mat{{"nonce-salt", []string{"crypto.AggregateSignatures.nonce-salt"}, 32, 0}},
			gen: func(string) (map[string][]byte, error) {
				var m [32]byte
				copy(m[:], e.digest)
				sig, err := crypto.AggregateSignatures(ks, m)
				e.produced()
				if err != nil {
					return nil, err
				}
				var pks [][]byte
				for _, k := range ks {
					x, y := elliptic.P256().ScalarBaseMult(c38Pad32(k.Bytes()))
					pks = append(pks, crypto.Marshal(elliptic.P256(), x, y))
				}
				agg, err := crypto.AggregatePublickeys(pks)
				if err != nil {
					return nil, err
				}
				var pk33 [33]byte
				copy(pk33[:], agg)
				if ok, err := crypto.SchnorrVerify(pk33, m, sig); !ok || err != nil {
					return nil, fmt.Errorf("schnorr signature does not verify: %v", err)
				}
				c.Inc("signatures_verified")
				return map[string][]byte{"nonce-salt": sig[:32]}, nil // R.x identifies the aggregate nonce
			}})
	}
	es = append(es, c38Entry{name: "crypto.Encrypt", maxDistinct: 1,
		mats: []c38Mat{{"ephemeralKey", []string{"crypto.Encrypt.ephemeralKey"}, 32, 0}, {"iv", []string{"crypto.Encrypt.iv"}, 16, 0}},
		gen: func(string) (map[string][]byte, error) {
			ct, err := crypto.Encrypt(e.pub, e.msg)
			e.produced()
			if err != nil {
				return nil, err
			}
			if len(ct) < 65+16+16 {
				return nil, fmt.Errorf("ciphertext too short: %d", len(ct))
			}
			pt, err := crypto.Decrypt(e.priv, ct)
			if err != nil || !bytes.Equal(pt, e.msg) {
				return nil, fmt.Errorf("ECIES round trip failed: %v", err)
			}
			c.Inc("ecies_roundtrips")
			return map[string][]byte{"ephemeralKey": ct[:65], "iv": ct[65:81]}, nil // R || iv || ciphertext || tag
		}})
	return es
}

// ---------------------------------------------------------------- monitors

type c38MatResult struct {
	varies      bool // more than maxDistinct values under one identical stream
	constant    bool // a value shared by two different streams
	maxSameStrm int
	acrossStrms int
	example     [][]byte
}

type c38Result struct {
	ok        bool
	err       error
	minDrawn  int64
	maxDrawn  int64
	mats      map[string]*c38MatResult
	shortfall bool
}

const c38Reps = 16

// c38Evaluate runs gen c38Reps times under each stream and applies the three
// monitors. prep (optional) runs outside the recorded stream before each rep.
func (ent *c38Entry) maxOf(m c38Mat) int {
	if m.max > 0 {
		return m.max
	}
	return ent.maxDistinct
}

func c38Evaluate(ent *c38Entry, streams []int64, run func(streamSeed int64, rep int) (map[string][]byte, int64, error)) *c38Result {
	res := &c38Result{ok: true, minDrawn: 1 << 62, mats: map[string]*c38MatResult{}}
	need := 0
	for _, m := range ent.mats {
		res.mats[m.name] = &c38MatResult{}
		need += m.entropy
	}
	seenAcross := map[string]map[string]int{} // material -> value -> stream index
	for si, s := range streams {
		perStream := map[string]map[string]bool{}
		for rep := 0; rep < c38Reps; rep++ {
			vals, drawn, err := run(s, rep)
			if err != nil {
				res.ok, res.err = false, err
				return res
			}
			if drawn < res.minDrawn {
				res.minDrawn = drawn
			}
			if drawn > res.maxDrawn {
				res.maxDrawn = drawn
			}
			for _, m := range ent.mats {
				v, ok := vals[m.name]
				if !ok || len(v) == 0 {
					res.ok, res.err = false, fmt.Errorf("material %s not produced", m.name)
					return res
				}
				if perStream[m.name] == nil {
					perStream[m.name] = map[string]bool{}
				}
				perStream[m.name][string(v)] = true
			}
		}
		for _, m := range ent.mats {
			mr := res.mats[m.name]
			if n := len(perStream[m.name]); n > mr.maxSameStrm {
				mr.maxSameStrm = n
			}
			if len(perStream[m.name]) > ent.maxOf(m) {
				mr.varies = true
			}
			if seenAcross[m.name] == nil {
				seenAcross[m.name] = map[string]int{}
			}
			for v := range perStream[m.name] {
				if prev, dup := seenAcross[m.name][v]; dup && prev != si {
					mr.constant = true
				}
				seenAcross[m.name][v] = si
				if len(mr.example) < 3 {
					mr.example = append(mr.example, []byte(v))
				}
			}
			mr.acrossStrms = len(seenAcross[m.name])
		}
	}
	res.shortfall = res.minDrawn < int64(need)
	return res
}

// ---------------------------------------------------------------- run

func runC38(c *kit.Ctx) {
	r := c.Rand("c38/inputs")
	env := &c38Env{c: c}
	for {
		env.priv = make([]byte, 32)
		r.Read(env.priv)
		if k := new(big.Int).SetBytes(env.priv); k.Sign() > 0 && k.Cmp(elliptic.P256().Params().N) < 0 {
			break
		}
	}
	env.pub = crypto.NewPubKey(env.priv)
	acct, err := account.NewAccountWithPrivateKey(env.priv)
	if err != nil {
		c.Inconclusive("NewAccountWithPrivateKey: %v", err)
		return
	}
	env.acct = acct
	env.msg = make([]byte, 40+r.Intn(200))
	r.Read(env.msg)
	d := sha256.Sum256(env.msg)
	env.digest = d[:]
	env.pass = []byte(fmt.Sprintf("pw-%x", r.Uint64()))
	for n := 1; n <= 3; n++ {
		var ks []*big.Int
		for i := 0; i < n; i++ {
			b := make([]byte, 32)
			r.Read(b)
			b[0] &= 0x7f
			b[31] |= 1
			ks = append(ks, new(big.Int).SetBytes(b))
		}
		env.sKeys = append(env.sKeys, ks)
	}
	streams := make([]int64, c.N(8, 32))
	for i := range streams {
		streams[i] = r.Int63()
	}

	if !c38SelfTest(c, streams) {
		return
	}

	flagged := map[string]bool{} // sites already found to be fed by an insecure source
	for _, ent := range c38Entries(env) {
		ent := ent
		run := func(s int64, rep int) (vals map[string][]byte, drawn int64, err error) {
			c.Inc("entry_runs")
			c.Inc("entry_runs:" + ent.name)
			st := newC38Stream(s)
			vals, err = c38Produce(env, &ent, st, fmt.Sprint(rep))
			return vals, st.n, err
		}
		res := c38Evaluate(&ent, streams, run)
		for _, s := range streams {
			c.Case(fmt.Sprintf("%s/%d/%x", ent.name, s, env.priv[:4]), res.ok)
		}
		if !res.ok {
			c.Inconclusive("%s: entry point failed: %v", ent.name, res.err)
			continue
		}
		c.Count("drawn_bytes_min_sum:"+ent.name, res.minDrawn)
		need := 0
		for _, m := range ent.mats {
			need += m.entropy
		}
		anyFlag := false
		for _, m := range ent.mats {
			mr := res.mats[m.name]
			c.Inc("materials_checked")
			if !mr.varies && !mr.constant {
				c.Inc("materials_from_secure_source")
				c.Inc("secure:" + m.chain[0])
				continue
			}
			anyFlag = true
			// attribute to the innermost delegate already found insecure, else to this site
			site := m.chain[0]
			for i := len(m.chain) - 1; i > 0; i-- {
				if flagged[m.chain[i]] {
					site = m.chain[i]
					break
				}
			}
			flagged[m.chain[0]] = true
			flagged[site] = true
			c.Inc("insecure:" + site)
			why := ""
			if mr.varies {
				why = fmt.Sprintf("%d distinct values in %d runs under one and the same crypto/rand stream (allowed: %d) — the value is fed by something other than the secure source", mr.maxSameStrm, c38Reps, ent.maxOf(m))
			} else {
				why = fmt.Sprintf("the same value under different crypto/rand streams (%d distinct values over %d streams) — the value does not depend on the secure source", mr.acrossStrms, len(streams))
			}
			extra := c38Attribute(c, env, ent.name, m.name)
			c.Violate("insecure-rng:"+site,
				fmt.Sprintf("%s material %q (%d bytes of entropy required): %s; bytes drawn from crypto/rand.Reader during the call: min %d, max %d (needed >= %d for all material of this entry point). examples: %x %x%s",
					ent.name, m.name, m.entropy, why, res.minDrawn, res.maxDrawn, need, c38Ex(mr.example, 0), c38Ex(mr.example, 1), extra),
				map[string]interface{}{"entry_point": ent.name, "material": m.name, "site": site, "distinct_same_stream": mr.maxSameStrm,
					"distinct_across_streams": mr.acrossStrms, "drawn_min": res.minDrawn, "drawn_needed": need})
		}
		if res.shortfall && !anyFlag {
			c.Inc("insecure:" + ent.name + ".draw-shortfall")
			c.Violate("insecure-rng:"+ent.name+".draw-shortfall",
				fmt.Sprintf("%s drew only %d bytes from crypto/rand.Reader for material needing %d bytes of entropy (values are reproducible from the stream, so the rest is expanded deterministically)", ent.name, res.minDrawn, need),
				map[string]interface{}{"entry_point": ent.name, "drawn_min": res.minDrawn, "drawn_needed": need})
		}
		smp := map[string]interface{}{"entry_point": ent.name, "drawn_min": res.minDrawn, "drawn_max": res.maxDrawn, "needed": need}
		for _, m := range ent.mats {
			mr := res.mats[m.name]
			smp[m.name] = fmt.Sprintf("same-stream distinct=%d (allowed %d), values over %d streams=%d", mr.maxSameStrm, ent.maxOf(m), len(streams), mr.acrossStrms)
		}
		if c.Shard == 0 || anyFlag {
			c.Note("%v", smp)
		}
		if anyFlag {
			c.Sample(smp)
		}
	}
	c38EntropyFaults(c, env)
	c.Sample(map[string]interface{}{"streams": len(streams), "repetitions": c38Reps, "password": string(env.pass), "schnorr_key_sets": len(env.sKeys)})
}

func c38Ex(ex [][]byte, i int) []byte {
	if i < len(ex) {
		return ex[i]
	}
	return nil
}

// ---------------------------------------------------------------- self-test

// c38SelfTest validates the three monitors against generators whose source
// is known, including a direct stdlib ECDSA call (toolchain calibration).
func c38SelfTest(c *kit.Ctx, streams []int64) bool {
	type gen struct {
		name   string
		max    int
		insec  bool
		short  bool
		f      func() []byte
		direct bool
	}
	fixed := mrand.New(mrand.NewSource(12345))
	gens := []gen{
		{name: "good:crypto/rand.Read", max: 1, f: func() []byte { b := make([]byte, 32); crand.Read(b); return b }},
		{name: "good:stdlib ecdsa.GenerateKey", max: 2, f: func() []byte {
			k, err := ecdsa.GenerateKey(elliptic.P256(), crand.Reader)
			if err != nil {
				return nil
			}
			return c38Pad32(k.D.Bytes())
		}},
		{name: "good:stdlib ecdsa.Sign", max: 2, f: func() []byte {
			k := &ecdsa.PrivateKey{D: big.NewInt(0x1234567)}
			k.Curve = elliptic.P256()
			h := sha256.Sum256([]byte("x"))
			rr, _, err := ecdsa.Sign(crand.Reader, k, h[:])
			if err != nil {
				return nil
			}
			return c38Pad32(rr.Bytes())
		}},
		{name: "weak:time-seeded math/rand", max: 1, insec: true, f: func() []byte {
			b := make([]byte, 32)
			mrand.New(mrand.NewSource(time.Now().UnixNano())).Read(b) // the object under test, not a verdict input
			return b
		}},
		{name: "weak:global math/rand", max: 1, insec: true, f: func() []byte { b := make([]byte, 32); mrand.Read(b); return b }},
		{name: "weak:fixed-seed PRNG", max: 1, insec: true, f: func() []byte {
			fixed.Seed(12345)
			b := make([]byte, 32)
			fixed.Read(b)
			return b
		}},
		{name: "weak:4 secure bytes expanded by a PRNG", max: 1, short: true, f: func() []byte {
			var s [4]byte
			io.ReadFull(crand.Reader, s[:])
			b := make([]byte, 32)
			mrand.New(mrand.NewSource(int64(s[0]) | int64(s[1])<<8 | int64(s[2])<<16 | int64(s[3])<<24)).Read(b)
			return b
		}},
	}
	ok := true
	for _, g := range gens {
		g := g
		ent := &c38Entry{name: g.name, maxDistinct: g.max, mats: []c38Mat{{"m", []string{g.name}, 32, 0}}}
		res := c38Evaluate(ent, streams, func(s int64, rep int) (map[string][]byte, int64, error) {
			var v []byte
			n := c38Under(s, func() { v = g.f() })
			if v == nil {
				return nil, 0, fmt.Errorf("generator failed")
			}
			return map[string][]byte{"m": v}, n, nil
		})
		mr := res.mats["m"]
		bad := !res.ok || mr.varies || mr.constant || res.shortfall
		want := g.insec || g.short
		switch {
		case !res.ok:
			c.Inconclusive("self-test %s failed to run: %v", g.name, res.err)
			ok = false
		case bad != want:
			c.Inconclusive("self-test: monitors judged %q as insecure=%v (varies=%v constant=%v shortfall=%v, drawn %d..%d); on this toolchain the check cannot decide", g.name, bad, mr.varies, mr.constant, res.shortfall, res.minDrawn, res.maxDrawn)
			ok = false
		case want:
			c.Inc("selftest_weak_flagged")
		default:
			c.Inc("selftest_good_passed")
		}
	}
	return ok
}

// ---------------------------------------------------------------- attribution (witness enrichment only)

// c38Attribute demonstrates, for the two known weak constructions, what the
// insecure source makes possible. It never creates a violation; its text is
// appended to the witness of a violation the monitors already established.
func c38Attribute(c *kit.Ctx, e *c38Env, entry, material string) string {
	switch {
	case len(entry) >= 26 && entry[:26] == "crypto.AggregateSignatures":
		return c38SchnorrReuse(c, e)
	case entry == "account.NewClient" && material == "masterKey":
		return c38KeystorePredict(c, e)
	}
	return ""
}

// c38SchnorrReuse: reseeding the process-global math/rand source (which
// dpos/state getCandidateIndexAtRandom does with a block-hash value, and
// treap / p2p init do with the time) repeats the Schnorr nonce; two
// signatures with one nonce reveal the private key.
func c38SchnorrReuse(c *kit.Ctx, e *c38Env) string {
	N := elliptic.P256().Params().N
	d := e.sKeys[0][0]
	var m1, m2 [32]byte
	copy(m1[:], e.digest)
	m2 = sha256.Sum256(m1[:])
	const K = 20260921
	var s1, s2 [64]byte
	var err1, err2 error
	mrand.Seed(K)
	c38Under(1, func() { s1, err1 = crypto.AggregateSignatures([]*big.Int{d}, m1) })
	mrand.Seed(K)
	c38Under(2, func() { s2, err2 = crypto.AggregateSignatures([]*big.Int{d}, m2) })
	if err1 != nil || err2 != nil || !bytes.Equal(s1[:32], s2[:32]) {
		return ""
	}
	c.Inc("schnorr_nonce_repeats_after_global_reseed")
	// e_i = sha256(R.x || compressed(P) || m_i) mod N ; s_i = k + e_i*d  =>  d = (s1-s2)/(e1-e2)
	px, py := elliptic.P256().ScalarBaseMult(c38Pad32(d.Bytes()))
	comp := append([]byte{2 + byte(py.Bit(0))}, c38Pad32(px.Bytes())...)
	ev := func(m [32]byte) *big.Int {
		h := sha256.Sum256(append(append(append([]byte(nil), s1[:32]...), comp...), m[:]...))
		return new(big.Int).Mod(new(big.Int).SetBytes(h[:]), N)
	}
	de := new(big.Int).Sub(ev(m1), ev(m2))
	de.Mod(de, N)
	inv := new(big.Int).ModInverse(de, N)
	if inv == nil {
		return ""
	}
	ds := new(big.Int).Sub(new(big.Int).SetBytes(s1[32:]), new(big.Int).SetBytes(s2[32:]))
	rec := ds.Mul(ds, inv)
	rec.Mod(rec, N)
	if rec.Cmp(d) == 0 {
		c.Inc("schnorr_private_key_recovered")
		return fmt.Sprintf(". Source: the salt comes from the process-global math/rand (randomBytes): after math/rand.Seed(%d) two signatures over different messages carry the same R.x=%x although the crypto/rand streams differ, and the private key follows from them as (s1-s2)/(e1-e2) mod N — recovered key equals the signing key: true", K, s1[:8])
	}
	return fmt.Sprintf(". Source: process-global math/rand: after math/rand.Seed(%d) two signatures over different messages carry the same R.x", K)
}

// c38KeystorePredict: the keystore IV is stored in clear; it identifies the
// time seed, and the master key is the next 32 outputs of the same generator.
func c38KeystorePredict(c *kit.Ctx, e *c38Env) string {
	p := e.freshPath()
	t0 := time.Now().UnixNano() // witness enrichment only; no verdict depends on it
	if cl := account.NewClient(p, append([]byte(nil), e.pass...), true); cl == nil {
		return ""
	}
	t1 := time.Now().UnixNano()
	iv, mk, err := c38ReadKeystore(p, e.pass)
	if err != nil {
		return ""
	}
	if t1-t0 > 300000 {
		t1 = t0 + 300000
	}
	for s := t0; s <= t1; s++ {
		g := mrand.New(mrand.NewSource(s))
		hit := true
		for i := 0; i < 16; i++ {
			if byte(g.Intn(256)) != iv[i] {
				hit = false
				break
			}
		}
		if !hit {
			continue
		}
		pred := make([]byte, 32)
		for i := range pred {
			pred[i] = byte(g.Intn(256))
		}
		if bytes.Equal(pred, mk) {
			c.Inc("keystore_master_key_predicted_from_iv")
			return fmt.Sprintf(". Source: math/rand seeded with time.Now().UnixNano(): trying the nanosecond timestamps from the start of the call (window %d ns) as seeds, the one that reproduces the clear-text IV of the keystore file was found after %d candidates, and the next 32 outputs of that generator equal the master key (obtained here by decrypting with the password, predicted without it): true", t1-t0, s-t0+1)
		}
	}
	return ""
}

package props

import (
	"fmt"
	"sort"

	"github.com/elastos/Elastos.ELA/common"
	"github.com/elastos/Elastos.ELA/core/types/interfaces"

	"verif/kit"
	"verif/kit/node"
)

// C14 — queryable UTXO views agree with the ledger.
//
// Workload: props/hist_utxo.go. Oracle, after every step, against the replay of
// the blocks the node itself returns for heights 0..tip:
//   * GetUnspent(txid) for EVERY txid the harness ever built (active chain,
//     losing branches, rejected blocks, mempool-only, never mined);
//   * GetUTXO(programHash) and Ledger.GetAmount for every address that ever
//     appeared (+ one that never did): same multiset of (txid,index,value),
//     never a zero-value output;
//   * GetTransaction(txid) (chain store and ffldb): found, same tx, same height
//     iff the tx is on the active chain.

func init() {
	kit.Register(&kit.Spec{
		ID:   "C14",
		Rule: "same history generator as C06 (one seeded history per shard on a live node: transfers with zero-value outputs, >255 outputs per tx, repeated addresses, full spends emptying an index entry, competing branches spending the same outpoints differently, reorganisations back and forth with in-order/reversed/shuffled/deferred delivery, rejected adversarial blocks, mempool traffic). After every step ALL known txids and addresses are queried. distinct = (step kind, resulting tip); non-trivial = the step delivered a block or submitted a tx to the node",
		Shards: func(tier string) int {
			if tier == "thorough" {
				return 48
			}
			return 16
		},
		Run:     runC14,
		Require: []string{"steps", "replays", "reorgs", "q_unspent", "q_unspent_offchain_txid", "q_unspent_emptied_entry", "q_unspent_high_index_live", "q_utxo_addresses", "q_utxo_entries_compared", "q_zero_value_outputs_live", "q_tx_onchain", "q_tx_offchain", "q_balance", "tx_full_spend_of_entry", "tx_many_outputs_index_gt_255", "zero_value_outputs_spent", "high_index_outputs_spent", "same_tx_on_two_branches", "adv_blocks_rejected"},
		Assumptions: []string{
			"regnet parameters, pow era, InstantBlock difficulty, CoinbaseMaturity=3",
			"the replay model (kit/node/ledger.go) is correct; it is rebuilt from Chain.GetBlockHash/GetBlockByHash only and shares no code with the indexers",
			"views are compared at quiescent points (after ProcessBlock returned), never mid-update",
			"failed reorganisations (heavier branch with an invalid block) are not generated here (property C12)",
		},
		TimeoutS: func(tier string) int { return 1800 },
		Post: func(a *kit.Agg) {
			if a.Counters["model_desync"] > 0 {
				a.Inconclusive("the harness model and the node disagreed about the active chain in %d shard(s) (see notes); the history was stopped there", a.Counters["model_desync"])
			}
		},
	})
}

type c14Entry struct {
	id  common.Uint256
	idx uint16
	val common.Fixed64
}

func runC14(c *kit.Ctx) {
	h, err := newHist(c, "hist")
	if err != nil {
		c.Inconclusive("history bootstrap: %v", err)
		return
	}
	defer h.close()
	nd := h.nd
	ffl := nd.Store.GetFFLDB()
	addrs := map[common.Uint168]bool{}
	for _, a := range h.accts {
		addrs[a.ProgramHash] = true
	}
	addrs[node.Key(99).ProgramHash] = true // never used
	var ghost common.Uint256
	for i := range ghost {
		ghost[i] = byte(0xa0 + i)
	}

	sample := c.Rand("c14-sample")
	prevTxs := map[common.Uint256]uint32{}
	prevByTx := map[common.Uint256][]uint16{}
	h.onStep = func(kind string) {
		l := nd.Replay()
		c.Inc("replays")
		where := fmt.Sprintf("after step %d (%s, %s mode, height %d)", h.stepNo, kind, h.mode, l.Height)
		// model: unspent indexes per txid, entries per address
		byTx := map[common.Uint256][]uint16{}
		byAddr := map[common.Uint168][]c14Entry{}
		for k, o := range l.Unspent {
			byTx[k.TxID] = append(byTx[k.TxID], k.Index)
			addrs[o.Owner] = true
			if o.Value == 0 {
				c.Inc("q_zero_value_outputs_live")
				continue
			}
			byAddr[o.Owner] = append(byAddr[o.Owner], c14Entry{k.TxID, k.Index, o.Value})
		}
		// ---- per txid ----
		// Quick tier: every known txid after every step. Thorough tier (long
		// histories): a full sweep every 4th step and at the end; in between
		// every txid whose model state changed in this step, the 300 most
		// recently built ones and a random sample of 150 others.
		ids := append([]common.Uint256{ghost}, h.txOrder...)
		if c.Quick() || h.stepNo%4 == 0 || kind == "final-flush" || kind == "bootstrap" {
			c.Inc("q_full_sweeps")
		} else {
			c.Inc("q_partial_sweeps")
			sel := map[common.Uint256]bool{ghost: true}
			for id, hh := range l.Txs {
				if ph, ok := prevTxs[id]; !ok || ph != hh {
					sel[id] = true
				}
			}
			for id := range prevTxs {
				if _, ok := l.Txs[id]; !ok {
					sel[id] = true
				}
			}
			for id, idx := range byTx {
				if diffIdx(prevByTx[id], idx) != "" {
					sel[id] = true
				}
			}
			for id := range prevByTx {
				if _, ok := byTx[id]; !ok {
					sel[id] = true
				}
			}
			n := len(h.txOrder)
			for i := n - 300; i < n; i++ {
				if i >= 0 {
					sel[h.txOrder[i]] = true
				}
			}
			for i := 0; i < 150; i++ {
				sel[h.txOrder[sample.Intn(n)]] = true
			}
			ids = ids[:0]
			ids = append(ids, ghost)
			for _, id := range h.txOrder {
				if sel[id] {
					ids = append(ids, id)
				}
			}
		}
		prevTxs, prevByTx = l.Txs, byTx
		for _, id := range ids {
			want := byTx[id]
			_, onChain := l.Txs[id]
			got, err := ffl.GetUnspent(id)
			c.Inc("q_unspent")
			if !onChain {
				c.Inc("q_unspent_offchain_txid")
			} else if len(want) == 0 {
				c.Inc("q_unspent_emptied_entry")
			}
			for _, i := range want {
				if i > 255 {
					c.Inc("q_unspent_high_index_live")
					break
				}
			}
			if err != nil {
				c.Violate("unspent:query-error", fmt.Sprintf("%s: GetUnspent(%s): %v", where, id, err), nil)
			} else if d := diffIdx(want, got); d != "" {
				sig := "unspent:wrong-index-set"
				if !onChain {
					sig = "unspent:entry-for-tx-not-on-active-chain"
				}
				c.Violate(sig, fmt.Sprintf("%s: GetUnspent(%s) (on active chain: %v): %s", where, id, onChain, d), nil)
			}
			// transaction lookup
			wantH, _ := l.Txs[id]
			checkTx := func(path string, tx interfaces.Transaction, hh uint32, e error) {
				if onChain {
					c.Inc("q_tx_onchain")
					switch {
					case e != nil || tx == nil:
						c.Violate("txlookup:active-tx-not-found", fmt.Sprintf("%s: %s.GetTransaction(%s): %v, but the tx is on the active chain at height %d", where, path, id, e, wantH), nil)
					case tx.Hash() != id:
						c.Violate("txlookup:wrong-tx", fmt.Sprintf("%s: %s.GetTransaction(%s) returned tx %s", where, path, id, tx.Hash()), nil)
					case hh != wantH:
						c.Violate("txlookup:wrong-height", fmt.Sprintf("%s: %s.GetTransaction(%s) height %d, active chain has it at %d", where, path, id, hh, wantH), nil)
					}
				} else {
					c.Inc("q_tx_offchain")
					if e == nil && tx != nil {
						c.Violate("txlookup:found-tx-not-on-active-chain", fmt.Sprintf("%s: %s.GetTransaction(%s) returned a tx at height %d, but it is not on the active chain", where, path, id, hh), nil)
					}
				}
			}
			t1, h1, e1 := nd.Store.GetTransaction(id)
			checkTx("ChainStore", t1, h1, e1)
			t2, h2, e2 := ffl.GetTransaction(id)
			checkTx("FFLDB", t2, h2, e2)
		}
		// ---- per address ----
		var as []common.Uint168
		for a := range addrs {
			as = append(as, a)
		}
		sort.Slice(as, func(i, j int) bool { return as[i].String() < as[j].String() })
		for _, a := range as {
			a := a
			got, err := ffl.GetUTXO(&a)
			c.Inc("q_utxo_addresses")
			if err != nil {
				c.Violate("utxo:query-error", fmt.Sprintf("%s: GetUTXO(%s): %v", where, a, err), nil)
				continue
			}
			want := map[node.OutKey]common.Fixed64{}
			var sum common.Fixed64
			for _, e := range byAddr[a] {
				want[node.OutKey{TxID: e.id, Index: e.idx}] = e.val
				sum += e.val
			}
			c.Count("q_utxo_entries_compared", int64(len(want)))
			seen := map[node.OutKey]bool{}
			listOK := true
			for _, u := range got {
				k := node.OutKey{TxID: u.TxID, Index: u.Index}
				wv, ok := want[k]
				switch {
				case u.Value == 0:
					c.Violate("utxo:zero-value-output-listed", fmt.Sprintf("%s: GetUTXO(%s) lists zero-value output %s", where, a, k), nil)
					listOK = false
				case seen[k]:
					c.Violate("utxo:duplicate-entry", fmt.Sprintf("%s: GetUTXO(%s) lists %s twice", where, a, k), nil)
					listOK = false
				case !ok:
					why := "never an unspent output of this address on the active chain"
					if at, was := l.SpentAt[k]; was {
						why = fmt.Sprintf("spent on the active chain at height %d", at)
					} else if _, on := l.Txs[k.TxID]; !on {
						why = "its transaction is not on the active chain"
					}
					c.Violate("utxo:stale-entry", fmt.Sprintf("%s: GetUTXO(%s) lists %s (value %d): %s", where, a, k, int64(u.Value), why), nil)
					listOK = false
				case wv != u.Value:
					c.Violate("utxo:wrong-value", fmt.Sprintf("%s: GetUTXO(%s) lists %s with value %d, ledger says %d", where, a, k, int64(u.Value), int64(wv)), nil)
					listOK = false
				}
				seen[k] = true
			}
			for k, v := range want {
				if !seen[k] {
					c.Violate("utxo:missing-entry", fmt.Sprintf("%s: GetUTXO(%s) lacks unspent output %s (value %d, created at height %d)", where, a, k, int64(v), l.Unspent[k].Height), nil)
					listOK = false
					break
				}
			}
			amt, err := nd.Ledger.GetAmount(a)
			c.Inc("q_balance")
			if err != nil {
				c.Violate("balance:query-error", fmt.Sprintf("%s: GetAmount(%s): %v", where, a, err), nil)
			} else if listOK && amt != sum {
				c.Violate("balance:differs-from-ledger", fmt.Sprintf("%s: GetAmount(%s)=%d, ledger sum %d (list agreed)", where, a, int64(amt), int64(sum)), nil)
			}
		}
		h.chainAgrees(l)
		c.Case(fmt.Sprintf("%s|%s", kind, nd.Tip().String()), h.touched)
		if h.stepNo%25 == 3 && c.Shard < 2 {
			c.Sample(map[string]interface{}{"step": h.stepNo, "kind": kind, "mode": h.mode, "height": l.Height, "txids_queried": len(ids), "txids_on_active_chain": len(l.Txs), "addresses_queried": len(as), "model_unspent": len(l.Unspent)})
		}
	}
	h.run(c.N(110, 400))
}

// diffIdx compares index sets; "" = equal.
func diffIdx(want, got []uint16) string {
	w := map[uint16]bool{}
	for _, i := range want {
		w[i] = true
	}
	g := map[uint16]bool{}
	var extra, dup, missing []uint16
	for _, i := range got {
		if g[i] {
			dup = append(dup, i)
		}
		g[i] = true
		if !w[i] {
			extra = append(extra, i)
		}
	}
	for _, i := range want {
		if !g[i] {
			missing = append(missing, i)
		}
	}
	if len(extra)+len(dup)+len(missing) == 0 {
		return ""
	}
	short := func(x []uint16) []uint16 {
		sort.Slice(x, func(i, j int) bool { return x[i] < x[j] })
		if len(x) > 8 {
			return x[:8]
		}
		return x
	}
	return fmt.Sprintf("ledger has %d unspent, index has %d; reported-but-not-unspent=%v duplicated=%v unspent-but-missing=%v", len(want), len(got), short(extra), short(dup), short(missing))
}

package props

import (
	"bytes"
	"fmt"
	"sort"
	"strings"

	"github.com/elastos/Elastos.ELA/blockchain"
	"github.com/elastos/Elastos.ELA/common"
	"github.com/elastos/Elastos.ELA/core/types/interfaces"

	"verif/kit"
	"verif/kit/node"
)

// C14 — queryable UTXO views agree with the ledger.
//
// Workload: props/hist_utxo.go. Oracle, after every step, against the replay of
// the blocks the node itself returns for heights 0..tip:
//   * GetUnspent(txid) for EVERY txid the harness ever built (active chain,
//     losing branches, rejected blocks, mempool-only, never mined);
//   * GetUTXO(programHash) and Ledger.GetAmount for every address that ever
//     appeared (+ one that never did): same multiset of (txid,index,value),
//     never a zero-value output;
//   * GetTransaction(txid) (chain store and ffldb): found, same tx (hash AND
//     serialized bytes, i.e. including the witness data the hash does not
//     cover), same height iff the tx is on the active chain.
//
// Restarts (props/c14_restart.go): the history is interleaved with node
// restarts (close + re-open on the same data directory: the tx cache in front
// of the tx index is empty, every indexer re-initialises from the database),
// at random points and preferably right after reorganisations, including
// directed episodes "replace the last 1..5 blocks by a branch longer by 1..3,
// restart, mine blocks that spend outputs of the blocks around the fork". The
// same full comparison runs after every restart and after every later step, so
// every historic tx of the active chain is looked up through the database path.

func init() {
	kit.Register(&kit.Spec{
		ID:   "C14",
		Rule: "same history generator as C06 (one seeded history per shard on a live node: transfers with zero-value outputs, >255 outputs per tx, repeated addresses, full spends emptying an index entry, competing branches spending the same outpoints differently, reorganisations back and forth with in-order/reversed/shuffled/deferred delivery, rejected adversarial blocks, mempool traffic), interleaved with node restarts on the same data directory (random points, after reorganisations, directed reorg(depth 1..5, branch longer by 1..3)+restart+spend-old-outputs episodes, and one at the end). After every step and after every restart ALL known txids and addresses are queried. distinct = (step kind, resulting tip); non-trivial = the step delivered a block or submitted a tx to the node, or re-opened the node",
		Shards: func(tier string) int {
			if tier == "thorough" {
				return 48
			}
			return 16
		},
		Run: runC14,
		Require: []string{"steps", "replays", "reorgs", "q_unspent", "q_unspent_offchain_txid", "q_unspent_emptied_entry", "q_unspent_high_index_live", "q_utxo_addresses", "q_utxo_entries_compared", "q_zero_value_outputs_live", "q_tx_onchain", "q_tx_offchain", "q_balance", "tx_full_spend_of_entry", "tx_many_outputs_index_gt_255", "zero_value_outputs_spent", "high_index_outputs_spent", "same_tx_on_two_branches", "adv_blocks_rejected",
			"restarts", "restarts_after_reorg", "restarts_random_point", "restart_episodes", "restart_txcache_empty", "views_checked_after_restart", "historic_tx_lookups_after_restart", "q_tx_onchain_db_path", "q_tx_bytes_compared", "blocks_connected_after_restart", "reorgs_after_restart", "spends_after_restart_of_prerestart_outputs"},
		Assumptions: []string{
			"regnet parameters, pow era, InstantBlock difficulty, CoinbaseMaturity=3",
			"the replay model (kit/node/ledger.go) is correct; it is rebuilt from Chain.GetBlockHash/GetBlockByHash only and shares no code with the indexers",
			"views are compared at quiescent points (after ProcessBlock returned), never mid-update",
			"failed reorganisations (heavier branch with an invalid block) are not generated here (property C12)",
			"a restart is a clean close and an in-process re-open of the node on the same data directory (node.Start: new stores, caches, indexers, chain, pools); crash recovery is C17's subject. A node that does not come back on the chain it was closed with makes the run inconclusive (that is C23's subject), not a C14 violation",
			"netsync shards: the SyncManager of the closed node cannot be unsubscribed from the process-wide event bus; it keeps cleaning its own (dead) pool and never touches the re-opened node",
		},
		TimeoutS: func(tier string) int { return 1800 },
		Post: func(a *kit.Agg) {
			if a.Counters["model_desync"] > 0 {
				a.Inconclusive("the harness model and the node disagreed about the active chain in %d shard(s) (see notes); the history was stopped there", a.Counters["model_desync"])
			}
		},
	})
}

type c14Entry struct {
	id  common.Uint256
	idx uint16
	val common.Fixed64
}

func runC14(c *kit.Ctx) {
	h, err := newHist(c, "hist")
	if err != nil {
		c.Inconclusive("history bootstrap: %v", err)
		return
	}
	d := newC14Driver(c, h)
	defer func() { // h.nd changes with every restart
		if !d.panicked { // a panic inside the node may have left its locks held
			h.close()
		}
	}()
	addrs := map[common.Uint168]bool{}
	for _, a := range h.accts {
		addrs[a.ProgramHash] = true
	}
	addrs[node.Key(99).ProgramHash] = true // never used
	var ghost common.Uint256
	for i := range ghost {
		ghost[i] = byte(0xa0 + i)
	}

	sample := c.Rand("c14-sample")
	prevTxs := map[common.Uint256]uint32{}
	prevByTx := map[common.Uint256][]uint16{}
	wantBytes := map[common.Uint256][]byte{}           // txid -> bytes of the tx as it stands in its block
	wantBytesAt := map[common.Uint256]common.Uint256{} // txid -> hash of that block (same tx, other witness on another branch)
	h.onStep = func(kind string) {
		// the node (and with it every store, cache and indexer) is replaced by a restart
		nd := h.nd
		ffl := nd.Store.GetFFLDB()
		im := blockchain.VerifIndexManager(ffl)
		restarted := d.restarts > 0
		view := func() { // one view of the node compared with the model
			if restarted {
				c.Inc("views_checked_after_restart")
			}
		}
		l := nd.Replay()
		c.Inc("replays")
		where := fmt.Sprintf("after step %d (%s, %s mode, height %d, %d restarts so far)", h.stepNo, kind, h.mode, l.Height, d.restarts)
		// model: unspent indexes per txid, entries per address, tx bytes per txid
		byTx := map[common.Uint256][]uint16{}
		byAddr := map[common.Uint168][]c14Entry{}
		for k, o := range l.Unspent {
			byTx[k.TxID] = append(byTx[k.TxID], k.Index)
			addrs[o.Owner] = true
			if o.Value == 0 {
				c.Inc("q_zero_value_outputs_live")
				continue
			}
			byAddr[o.Owner] = append(byAddr[o.Owner], c14Entry{k.TxID, k.Index, o.Value})
		}
		chainTx := make(map[common.Uint256]interfaces.Transaction, len(l.Txs))
		for _, b := range l.Blocks {
			for _, tx := range b.Transactions {
				chainTx[tx.Hash()] = tx
				h.regTx(tx) // ALL txs of the active chain are queried, whoever built them
			}
		}
		// ---- per txid ----
		// Quick tier: every known txid after every step. Thorough tier (long
		// histories): a full sweep every 4th step, after every restart and at
		// the end; in between every txid whose model state changed in this
		// step, the 300 most recently built ones and a random sample of 150
		// others.
		ids := append([]common.Uint256{ghost}, h.txOrder...)
		if c.Quick() || h.stepNo%4 == 0 || kind == "final-flush" || kind == "bootstrap" || strings.HasPrefix(kind, "restart") {
			c.Inc("q_full_sweeps")
			if restarted {
				c.Inc("q_full_sweeps_after_restart")
			}
		} else {
			c.Inc("q_partial_sweeps")
			sel := map[common.Uint256]bool{ghost: true}
			for id, hh := range l.Txs {
				if ph, ok := prevTxs[id]; !ok || ph != hh {
					sel[id] = true
				}
			}
			for id := range prevTxs {
				if _, ok := l.Txs[id]; !ok {
					sel[id] = true
				}
			}
			for id, idx := range byTx {
				if diffIdx(prevByTx[id], idx) != "" {
					sel[id] = true
				}
			}
			for id := range prevByTx {
				if _, ok := byTx[id]; !ok {
					sel[id] = true
				}
			}
			n := len(h.txOrder)
			for i := n - 300; i < n; i++ {
				if i >= 0 {
					sel[h.txOrder[i]] = true
				}
			}
			for i := 0; i < 150; i++ {
				sel[h.txOrder[sample.Intn(n)]] = true
			}
			ids = ids[:0]
			ids = append(ids, ghost)
			for _, id := range h.txOrder {
				if sel[id] {
					ids = append(ids, id)
				}
			}
		}
		prevTxs, prevByTx = l.Txs, byTx
		for _, id := range ids {
			want := byTx[id]
			_, onChain := l.Txs[id]
			got, err := ffl.GetUnspent(id)
			c.Inc("q_unspent")
			view()
			if !onChain {
				c.Inc("q_unspent_offchain_txid")
			} else if len(want) == 0 {
				c.Inc("q_unspent_emptied_entry")
			}
			for _, i := range want {
				if i > 255 {
					c.Inc("q_unspent_high_index_live")
					break
				}
			}
			if err != nil {
				c.Violate("unspent:query-error", fmt.Sprintf("%s: GetUnspent(%s): %v", where, id, err), nil)
			} else if df := diffIdx(want, got); df != "" {
				sig := "unspent:wrong-index-set"
				if !onChain {
					sig = "unspent:entry-for-tx-not-on-active-chain"
				}
				c.Violate(sig, fmt.Sprintf("%s: GetUnspent(%s) (on active chain: %v): %s", where, id, onChain, df), nil)
			}
			// transaction lookup: through the tx cache in front of the index when
			// the cache holds the tx, through the database (tx index entry ->
			// block id -> block hash -> block region -> height) otherwise; after
			// a restart the cache is empty.
			wantH, _ := l.Txs[id]
			cached := im != nil && im.VerifTxCacheHas(id)
			checkTx := func(path string, tx interfaces.Transaction, hh uint32, e error) {
				view()
				if onChain {
					c.Inc("q_tx_onchain")
					if cached {
						c.Inc("q_tx_onchain_cache_hit")
					} else {
						c.Inc("q_tx_onchain_db_path")
						if restarted {
							c.Inc("historic_tx_lookups_after_restart")
						}
					}
					switch {
					case e != nil || tx == nil:
						c.Violate("txlookup:active-tx-not-found", fmt.Sprintf("%s: %s.GetTransaction(%s): %v, but the tx is on the active chain at height %d", where, path, id, e, wantH), nil)
					case tx.Hash() != id:
						other := "a tx that is not on the active chain"
						if oh, on := l.Txs[tx.Hash()]; on {
							other = fmt.Sprintf("a tx of the block at height %d of the active chain", oh)
						}
						c.Violate("txlookup:wrong-tx", fmt.Sprintf("%s: %s.GetTransaction(%s) returned tx %s with height %d (%s); the active chain has the requested tx at height %d (tx cache held it: %v)", where, path, id, tx.Hash(), hh, other, wantH, cached), nil)
					case hh != wantH:
						c.Violate("txlookup:wrong-height", fmt.Sprintf("%s: %s.GetTransaction(%s) height %d, active chain has it at %d", where, path, id, hh, wantH), nil)
					default:
						c.Inc("q_tx_bytes_compared")
						wb, ok := wantBytes[id] // immutable per (txid, block): serialized once
						if !ok || wantBytesAt[id] != l.Hashes[wantH] {
							wb = c14TxBytes(chainTx[id])
							wantBytes[id], wantBytesAt[id] = wb, l.Hashes[wantH]
						}
						if gb := c14TxBytes(tx); !bytes.Equal(gb, wb) {
							c.Violate("txlookup:wrong-bytes", fmt.Sprintf("%s: %s.GetTransaction(%s) has the right hash and height %d, but serializes to %d bytes that differ from the %d bytes of the tx in the block of the active chain", where, path, id, hh, len(gb), len(wb)), nil)
						}
					}
				} else {
					c.Inc("q_tx_offchain")
					if e == nil && tx != nil {
						c.Violate("txlookup:found-tx-not-on-active-chain", fmt.Sprintf("%s: %s.GetTransaction(%s) returned a tx at height %d, but it is not on the active chain", where, path, id, hh), nil)
					}
				}
			}
			t1, h1, e1 := nd.Store.GetTransaction(id)
			checkTx("ChainStore", t1, h1, e1)
			t2, h2, e2 := ffl.GetTransaction(id)
			checkTx("FFLDB", t2, h2, e2)
		}
		// ---- per address ----
		var as []common.Uint168
		for a := range addrs {
			as = append(as, a)
		}
		sort.Slice(as, func(i, j int) bool { return as[i].String() < as[j].String() })
		for _, a := range as {
			a := a
			got, err := ffl.GetUTXO(&a)
			c.Inc("q_utxo_addresses")
			view()
			if err != nil {
				c.Violate("utxo:query-error", fmt.Sprintf("%s: GetUTXO(%s): %v", where, a, err), nil)
				continue
			}
			want := map[node.OutKey]common.Fixed64{}
			var sum common.Fixed64
			for _, e := range byAddr[a] {
				want[node.OutKey{TxID: e.id, Index: e.idx}] = e.val
				sum += e.val
			}
			c.Count("q_utxo_entries_compared", int64(len(want)))
			seen := map[node.OutKey]bool{}
			listOK := true
			for _, u := range got {
				k := node.OutKey{TxID: u.TxID, Index: u.Index}
				wv, ok := want[k]
				switch {
				case u.Value == 0:
					c.Violate("utxo:zero-value-output-listed", fmt.Sprintf("%s: GetUTXO(%s) lists zero-value output %s", where, a, k), nil)
					listOK = false
				case seen[k]:
					c.Violate("utxo:duplicate-entry", fmt.Sprintf("%s: GetUTXO(%s) lists %s twice", where, a, k), nil)
					listOK = false
				case !ok:
					why := "never an unspent output of this address on the active chain"
					if at, was := l.SpentAt[k]; was {
						why = fmt.Sprintf("spent on the active chain at height %d", at)
					} else if _, on := l.Txs[k.TxID]; !on {
						why = "its transaction is not on the active chain"
					}
					c.Violate("utxo:stale-entry", fmt.Sprintf("%s: GetUTXO(%s) lists %s (value %d): %s", where, a, k, int64(u.Value), why), nil)
					listOK = false
				case wv != u.Value:
					c.Violate("utxo:wrong-value", fmt.Sprintf("%s: GetUTXO(%s) lists %s with value %d, ledger says %d", where, a, k, int64(u.Value), int64(wv)), nil)
					listOK = false
				}
				seen[k] = true
			}
			for k, v := range want {
				if !seen[k] {
					c.Violate("utxo:missing-entry", fmt.Sprintf("%s: GetUTXO(%s) lacks unspent output %s (value %d, created at height %d)", where, a, k, int64(v), l.Unspent[k].Height), nil)
					listOK = false
					break
				}
			}
			amt, err := nd.Ledger.GetAmount(a)
			c.Inc("q_balance")
			view()
			if err != nil {
				c.Violate("balance:query-error", fmt.Sprintf("%s: GetAmount(%s): %v", where, a, err), nil)
			} else if listOK && amt != sum {
				c.Violate("balance:differs-from-ledger", fmt.Sprintf("%s: GetAmount(%s)=%d, ledger sum %d (list agreed)", where, a, int64(amt), int64(sum)), nil)
			}
		}
		h.chainAgrees(l)
		c.Case(fmt.Sprintf("%s|%s", kind, nd.Tip().String()), h.touched)
		if (h.stepNo%25 == 3 || strings.HasPrefix(kind, "restart-after-reorg")) && c.Shard < 2 {
			c.Sample(map[string]interface{}{"step": h.stepNo, "kind": kind, "mode": h.mode, "height": l.Height, "restarts_so_far": d.restarts, "txids_queried": len(ids), "txids_on_active_chain": len(l.Txs), "addresses_queried": len(as), "model_unspent": len(l.Unspent)})
		}
	}
	// A panic of the node while it processes a block that is valid by
	// construction (or while it re-opens, or answers a query) would kill the
	// shard and with it everything the shard has observed so far.
	if p, val, stack := kit.Guard(func() { d.run(c.N(90, 400)) }); p {
		d.panicked = true
		c.Violate("panic:"+c14PanicSite(stack), fmt.Sprintf("step %d (%s mode, %d restarts so far): the node panicked: %v\n%s", h.stepNo, h.mode, d.restarts, val, stack), nil)
	}
}

// c14PanicSite names the repository function in which the (first) panic was
// raised: the first repository frame below the oldest panic() frame of the
// stack taken at recovery (the node re-panics from deferred rollbacks).
func c14PanicSite(stack string) string {
	const repo = "github.com/elastos/Elastos.ELA/"
	lines := strings.Split(stack, "\n")
	from := 0
	for i, l := range lines {
		if strings.HasPrefix(l, "panic(") {
			from = i
		}
	}
	for _, l := range lines[from:] {
		if strings.HasPrefix(l, repo) {
			l = strings.TrimPrefix(l, repo)
			if i := strings.LastIndex(l, "("); i > 0 {
				l = l[:i]
			}
			return l
		}
	}
	return "outside-repository"
}

func c14TxBytes(tx interfaces.Transaction) []byte {
	if tx == nil {
		return nil
	}
	buf := new(bytes.Buffer)
	if err := tx.Serialize(buf); err != nil {
		return []byte("serialize error: " + err.Error())
	}
	return buf.Bytes()
}

// diffIdx compares index sets; "" = equal.
func diffIdx(want, got []uint16) string {
	w := map[uint16]bool{}
	for _, i := range want {
		w[i] = true
	}
	g := map[uint16]bool{}
	var extra, dup, missing []uint16
	for _, i := range got {
		if g[i] {
			dup = append(dup, i)
		}
		g[i] = true
		if !w[i] {
			extra = append(extra, i)
		}
	}
	for _, i := range want {
		if !g[i] {
			missing = append(missing, i)
		}
	}
	if len(extra)+len(dup)+len(missing) == 0 {
		return ""
	}
	short := func(x []uint16) []uint16 {
		sort.Slice(x, func(i, j int) bool { return x[i] < x[j] })
		if len(x) > 8 {
			return x[:8]
		}
		return x
	}
	return fmt.Sprintf("ledger has %d unspent, index has %d; reported-but-not-unspent=%v duplicated=%v unspent-but-missing=%v", len(want), len(got), short(extra), short(dup), short(missing))
}

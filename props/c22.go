package props

// C22 — CR committee state after a rollback equals the state built directly.
//
// Level 1 (this file): the state-level driver on cr/state.Committee.  A seeded
// generator (c22_world.go, c22_ops.go) produces histories of CR-relevant
// blocks that real validation would accept; the oracle (c22_oracle.go) rolls a
// real Committee back to every height within history capacity and compares its
// full state, field by field and through the package's own checkpoint
// serialisation, with a second real instance that only ever went forward.
// Level 2 (full-node reorganisations) plugs into runC22 as a further workload.

import (
	"bytes"
	"crypto/sha256"
	"encoding/hex"
	"fmt"
	"strings"

	"github.com/elastos/Elastos.ELA/core/checkpoint"
	"github.com/elastos/Elastos.ELA/core/types/payload"
	crstate "github.com/elastos/Elastos.ELA/cr/state"

	"verif/kit"
	"verif/kit/node"
)

func init() {
	kit.Register(&kit.Spec{
		ID:     "C22",
		Rule:   "workload 1 (level 1, state-level driver on cr/state.Committee): seeded histories of 80-170 contiguous blocks over 6 CR candidates, 3 proposal owners, 4 voters, 3 secretary-general keys on a compressed schedule (voting period 10-17, duty period 25-60, proposal review 3-5 / public vote 2-4 blocks, 2-4 members), three eras (utxo votes only / DPoSV2StartHeight right after the first committee / DPoSV2StartHeight mid-history); an operation is generated only if the SpecialContextCheck/HeightVersionCheck of its transaction type would pass on the tip (3 of 4 histories also respect the mempool conflict slots). Per history: a second forward-only instance must agree at every height (else the history is dropped); rollback from the tip to EVERY height down to CRVotingStartHeight-1 (all within the 720-block history capacity) one block at a time as reorganizeChain does, full state compared at every step with the forward-only state (in-memory fields and Deserialize(Serialize(checkpoint))); then from the tip straight back to every height, re-processing to the tip and comparing with the direct state. workload 2 (checkpoint path): 721-725-block histories fed through checkpoint.Manager.OnBlockSaved with checkpoint saving on, a depth 2-6 reorganisation (Manager.OnRollbackTo, same blocks attached again) across the height where the CR checkpoint was saved. distinct = distinct operation sequence; non-trivial = a committee was elected, at least one proposal registered and at least 20 heights changed the state",
		Shards: func(tier string) int { return 8 },
		Run:    runC22,
		Require: []string{"l1_histories", "l1_blocks", "l1_rollback_states_compared", "l1_redo_states_compared",
			"l1_heights_state_changed", "l1_histories_with_committee", "l1_committee_changes", "l1_rollback_states_equal",
			"op:registerCR", "op:updateCR", "op:unregisterCR", "op:returnDeposit", "op:voteV1", "op:votingV2", "op:cancelVoteV1",
			"op:proposal:Normal", "op:proposal:ELIP", "op:proposal:CloseProposal", "op:proposal:ChangeProposalOwner",
			"op:proposal:SecretaryGeneral", "op:proposal:ReserveCustomID", "op:proposal:ReceiveCustomID", "op:proposal:RegisterSideChain",
			"op:review:approve", "op:review:reject", "op:review:abstain",
			"op:tracking:Progress", "op:tracking:Rejected", "op:tracking:Finalized", "op:tracking:Terminated", "op:tracking:ChangeOwner",
			"op:withdraw:v0", "op:withdraw:v1", "op:realWithdraw", "op:appropriation", "op:rectify",
			"op:claimNode:current", "op:claimNode:next", "op:proposalResult",
			"seen:proposal_VoterCanceled", "seen:proposal_CRCanceled", "seen:proposal_VoterAgreed", "seen:proposal_Finished",
			"seen:proposal_Terminated", "seen:member_Impeached", "seen:candidate_Returned",
			"l1_forward_twin_agreed", "ckp_histories", "ckp_saves_crossed", "ckp_forward_control_equal", "ckp_reorgs"},
		Assumptions: []string{
			"level 1 drives Committee.ProcessBlock/RollbackTo directly; transaction validation is mirrored by the generator's preconditions, not executed (signatures are placeholders) - a level-1 divergence is a defect only if the history is one validation accepts; the triage per signature is in known_findings.json",
			"callbacks: GetHeight returns the height of the block being processed (live-node behaviour), GetTxReference resolves every output ever created, CreateCRAppropriationTransaction is answered from the generator's utxo book once per height and replayed identically; DPoS v2 vote rights are the amount a voter moved to the stake pool (ExchangeVotes)",
			"member state changes pushed in from the DPoS side (TryUpdateCRMemberInactivity/Illegal, ActivateProducer for CR nodes, WithdrawFromSideChain monitoring) are not generated at level 1",
			"forward processing is deterministic for the history (checked: twin instance at every height, five more instances before any witness); histories where Go map order makes forward-only instances differ are dropped and counted (l1_nondeterministic_*)",
			"signature scheme: rollback-diff:<Type>.<Field> = undoing one ordinary block is wrong; rollback-diff:<Type>@committee-change = Candidate/CRMember/CRInfo/DepositInfo objects after undoing (or across) a block that changes the committee, ends a voting period or clears the member history; ...@depth>1 = needs a deeper rollback; redo-diff:/redo-panic: = rolled-back state right, re-processing wrong; ckp-path:* = workload 2",
		},
		TimeoutS: func(tier string) int {
			if tier == "thorough" {
				return 1500
			}
			return 400
		},
	})
}

func runC22(c *kit.Ctx) {
	node.InitGlobals(c.WorkDir)
	// (the checkpoint-path workload runs first: a shard keeps at most 40 witnesses)
	c22CheckpointPath(c)
	c22StateLevel(c)
	// level 2: reorganisations of a full node vs a linear twin (props/c22_l2.go)
	c22NodeLevel(c)
}

// ---------- level 1 ----------

type c22Witness struct {
	Replay                 string              `json:"replay"`
	Knobs                  c22Knobs            `json:"knobs"`
	Phase                  string              `json:"phase"`
	Tip                    uint32              `json:"tip"`
	RolledBackTo           uint32              `json:"rolled_back_to"`
	Depth                  uint32              `json:"depth"`
	Depth1                 string              `json:"depth_1_reproduction"`
	AfterReprocess         string              `json:"after_reprocessing_the_block"`
	Diffs                  []c22DiffItem       `json:"diffs"`
	OtherSigs              []string            `json:"other_signatures_in_same_comparison,omitempty"`
	MinimalDepth           uint32              `json:"minimal_depth,omitempty"`
	CommitteeChangesUndone []uint32            `json:"committee_change_or_voting_end_heights_undone,omitempty"`
	UndoneBlocks           map[string][]string `json:"operations_of_undone_blocks"`
	EarlierMentions        []string            `json:"earlier_operations_mentioning_the_entity,omitempty"`
}

type c22L1 struct {
	c          *kit.Ctx
	w          *c22World
	snaps      []c22Snap // snaps[h]: forward-only state after block h
	idx        int
	seen       map[string]int // per shard: witnesses already produced per signature
	detChecked map[uint32]bool
	marks      []c22Mark // marks[h]: committee bookkeeping after block h
}

// c22Mark is what tells a committee change / end of voting apart from an
// ordinary block (used only to label witnesses).
type c22Mark struct {
	session    uint64
	lastCommit uint32
	nextCount  int
	inElection bool
	histMem    int
	histCand   int
	members    int
	lastVoting uint32 // not compared: moves one block ahead of every voting period
}

func c22MarkOf(c *crstate.Committee) c22Mark {
	return c22Mark{c.GetState().CurrentSession, c.KeyFrame.LastCommitteeHeight, len(c.KeyFrame.NextMembers), c.KeyFrame.InElectionPeriod,
		len(c.KeyFrame.HistoryMembers), len(c.GetState().HistoryCandidates), len(c.KeyFrame.Members), c.KeyFrame.LastVotingStartHeight}
}

// machineryHeight says whether block h ran the committee machinery (end of a
// voting period, committee change, history cleanup, dissolution): either the
// bookkeeping moved, or h is one of the heights the schedule of the previous
// state names (a re-election may install the same members again).
func (l *c22L1) machineryHeight(h uint32) bool {
	a, b := l.marks[h-1], l.marks[h]
	a.lastVoting, b.lastVoting = 0, 0
	if a != b {
		return true
	}
	p := l.w.Cfg.CRConfiguration
	vs, lc := l.marks[h-1].lastVoting, l.marks[h-1].lastCommit
	if h >= l.w.Cfg.DPoSV2StartHeight {
		return h == vs+p.VotingPeriod || h == lc+p.DutyPeriod || h == vs+p.VotingPeriod+p.CRClaimPeriod
	}
	return (lc == 0 && h == p.CRCommitteeStartHeight) || (vs == 0 && h == lc+p.DutyPeriod) || h == vs+p.VotingPeriod
}

// changeHeights lists the heights in (from, to] at which the committee
// machinery ran.
func (l *c22L1) changeHeights(from, to uint32) []uint32 {
	var out []uint32
	for h := from + 1; h <= to && int(h) < len(l.marks); h++ {
		if l.machineryHeight(h) {
			out = append(out, h)
		}
	}
	return out
}

func (l *c22L1) build(tip uint32) (*crstate.Committee, *checkpoint.Manager) {
	T, mgr := l.w.NewInstance()
	for h := uint32(1); h <= tip; h++ {
		l.w.Feed(T, l.w.Blocks[h])
	}
	return T, mgr
}

// forwardDeterministic builds a few more forward-only instances up to height h
// and says whether all of them reach the recorded state.  Go map iteration
// order makes a few forward transitions order dependent (e.g. two side-chain
// registrations cancelled in one block); such a history says nothing about
// rollbacks and is dropped.
func (l *c22L1) forwardDeterministic(h uint32) bool {
	if v, ok := l.detChecked[h]; ok {
		return v
	}
	res := true
	for i := 0; i < 5 && res; i++ {
		X, m := l.build(h)
		if !bytes.Equal(c22LiveFrames(X).canon(), l.snaps[h].live) {
			res = false
		}
		m.Close()
	}
	if l.detChecked == nil {
		l.detChecked = map[uint32]bool{}
	}
	l.detChecked[h] = res
	if !res {
		l.c.Inc("l1_nondeterministic_forward_state_detected")
		l.c.Note("history %d (shard %d): forward-only instances do not agree at height %d; findings of this history at or above that height are dropped", l.idx, l.c.Shard, h)
	}
	return res
}

func (l *c22L1) replayID() string {
	return fmt.Sprintf("VERIF_SEED=%d ./check C22 %s ; shard %d history %d", l.c.Seed, l.c.Tier, l.c.Shard, l.idx)
}

func c22TopRepoFrame(stack string) string {
	lines := strings.Split(stack, "\n")
	for _, ln := range lines {
		ln = strings.TrimSpace(ln)
		if strings.HasPrefix(ln, "github.com/elastos/Elastos.ELA/") && !strings.Contains(ln, "verifhook") {
			f := strings.TrimPrefix(ln, "github.com/elastos/Elastos.ELA/")
			if i := strings.LastIndex(f, "("); i > 0 {
				f = f[:i]
			}
			return f
		}
	}
	return "unknown"
}

func c22StateLevel(c *kit.Ctx) {
	n := c.N(6, 120)
	seen := map[string]int{}
	for i := 0; i < n; i++ {
		c.Begin("C22 L1 shard %d history %d", c.Shard, i)
		l := &c22L1{c: c, idx: i, seen: seen}
		l.run()
	}
}

func (l *c22L1) run() {
	c := l.c
	r := c.Rand(fmt.Sprintf("c22-l1-%d", l.idx))
	k := c22DrawKnobs(r)
	w := c22NewWorld(r, k, c.Inc)
	l.w = w
	defer w.Close()

	take := func(T *crstate.Committee, h uint32) (c22Snap, bool) {
		s, err := c22TakeSnap(T, h)
		if err != nil {
			c.Violate("checkpoint-codec-error", fmt.Sprintf("serialising/deserialising the committee checkpoint at height %d failed: %v", h, err),
				map[string]interface{}{"replay": l.replayID(), "knobs": k, "height": h})
			return s, false
		}
		return s, true
	}

	// ---- forward: generate, feed D, snapshot every height
	l.snaps = make([]c22Snap, k.Length+1)
	l.marks = make([]c22Mark, k.Length+1)
	s1, ok := take(w.D, 1)
	if !ok {
		return
	}
	l.snaps[1] = s1
	l.marks[1] = c22MarkOf(w.D)
	opHash := sha256.New()
	sideEnd := c22SideChainEnds{}
	orderDep := uint32(0)
	for w.Height() < k.Length {
		panicked, val, stack := kit.Guard(func() { w.NextBlock() })
		if panicked {
			// not a C22 matter (the property speaks about rollbacks); recorded, history abandoned.
			c.Inc("l1_forward_panics")
			c.Note("forward panic in history %d at height %d: %v at %s", l.idx, w.Height()+1, val, c22TopRepoFrame(stack))
			return
		}
		h := w.Height()
		s, ok := take(w.D, h)
		if !ok {
			return
		}
		l.snaps[h] = s
		l.marks[h] = c22MarkOf(w.D)
		if !s.equal(l.snaps[h-1]) {
			c.Inc("l1_heights_state_changed")
		}
		for _, d := range w.Ops[h] {
			opHash.Write([]byte(d))
		}
		c.Inc("l1_blocks")
		l.observe(h)
		if orderDep == 0 && sideEnd.step(w.D) >= 2 {
			orderDep = h
		}
	}
	H := w.Height()
	if orderDep != 0 {
		// two side-chain registrations left the list in one block: the result
		// depends on Go's map iteration order even going forward, so only the
		// part of the history below that block can say anything about rollbacks
		c.Inc("l1_histories_truncated_at_order_dependent_block")
		H = orderDep - 1
	}
	lo := k.VotingStart - 1
	if H <= lo+2 {
		return
	}
	c.Inc("l1_histories")
	c.Max("max:l1_history_length", int64(H))
	st := w.D.GetState()
	if st.CurrentSession > 0 {
		c.Inc("l1_histories_with_committee")
	}
	c.Count("l1_committee_changes", int64(st.CurrentSession))
	c.Max("max:l1_sessions", int64(st.CurrentSession))
	nProps := len(w.D.GetAllProposals())
	c.Count("l1_proposals_registered", int64(nProps))
	changed := 0
	for h := uint32(2); h <= H; h++ {
		if !l.snaps[h].equal(l.snaps[h-1]) {
			changed++
		}
	}
	c.Case("c22/l1/"+hex.EncodeToString(opHash.Sum(nil)), st.CurrentSession > 0 && nProps > 0 && changed >= 20)
	if l.idx < 1 {
		c.Sample(map[string]interface{}{"replay": l.replayID(), "knobs": k, "sessions": st.CurrentSession, "proposals": nProps,
			"heights_that_changed_state": changed, "ops_of_blocks_20_to_30": c22OpsRange(w, 20, 30)})
	}

	// ---- positive control / determinism: a second forward-only instance agrees
	{
		D2, m2 := w.NewInstance()
		agree := true
		for h := uint32(1); h <= H && agree; h++ {
			w.Feed(D2, w.Blocks[h])
			{
				s, ok := take(D2, h)
				if !ok {
					m2.Close()
					return
				}
				if !s.equal(l.snaps[h]) {
					agree = false
					var sigs []string
					if refSer, err := c22SerFrames(l.snaps[h].raw); err == nil {
						if d2Ser, err := c22SerFrames(s.raw); err == nil {
							sigs, _ = c22GroupBySig(c22DiffFrames(d2Ser, refSer))
						}
					}
					for _, sg := range sigs {
						c.Inc("l1_nondeterministic_field:" + sg)
					}
					c.Inc("l1_nondeterministic_histories")
					c.Note("history %d: two forward-only instances differ at height %d in %v (history skipped)", l.idx, h, sigs)
				}
			}
		}
		m2.Close()
		if !agree {
			return
		}
		c.Inc("l1_forward_twin_agreed")
	}

	// ---- phase A: step back one block at a time (as reorganizeChain does)
	tip := H
	T, mgr := l.build(tip)
	for h := tip - 1; h >= lo && h > 0; h-- {
		var rerr error
		panicked, val, stack := kit.Guard(func() { rerr = T.RollbackTo(h) })
		if panicked {
			c.Violate("rollback-panic:"+c22TopRepoFrame(stack), fmt.Sprintf("Committee.RollbackTo(%d) from tip %d panicked: %v", h, tip, val),
				c22Witness{Replay: l.replayID(), Knobs: k, Phase: "rollback", Tip: tip, RolledBackTo: h, Depth: tip - h, UndoneBlocks: c22OpsMap(w, h+1, tip)})
			mgr.Close()
			tip = h
			T, mgr = l.build(tip)
			continue
		}
		if rerr != nil {
			c.Inc("l1_rollback_errors")
		}
		s, ok := take(T, h)
		if !ok {
			break
		}
		c.Inc("l1_rollback_states_compared")
		c.Max("max:l1_rollback_depth", int64(tip-h))
		if s.equal(l.snaps[h]) {
			c.Inc("l1_rollback_states_equal")
			continue
		}
		c.Inc("l1_rollback_states_different")
		next, nextMgr, nextTip := l.reportRollbackDiff(T, tip, h)
		mgr.Close()
		if next != nil {
			T, mgr, tip = next, nextMgr, nextTip
		} else {
			tip = h
			T, mgr = l.build(tip)
		}
	}
	mgr.Close()

	// ---- phase B: from the tip straight back to every h, then forward again
	redo := func(T *crstate.Committee, h uint32) (rolledOK, same, panicked bool, frame string, val interface{}) {
		var stack string
		panicked, val, stack = kit.Guard(func() {
			T.RollbackTo(h)
			// in-memory view only here: the serialised view of rolled-back states is compared in phase A
			rolledOK = bytes.Equal(c22LiveFrames(T).canon(), l.snaps[h].live)
			for j := h + 1; j <= H; j++ {
				w.Feed(T, w.Blocks[j])
			}
			if e, ok := take(T, H); ok {
				same = e.equal(l.snaps[H])
			}
		})
		if panicked {
			frame = c22TopRepoFrame(stack)
		}
		return
	}
	T, mgr = l.build(H)
	fresh := true // T has not been through a rollback yet
	for h := H - 1; h >= lo && h > 0; h-- {
		rolledOK, same, panicked, frame, val := redo(T, h)
		c.Inc("l1_redo_states_compared")
		if !panicked && same {
			// T is in the direct state again and is used for the next height as well
			fresh = false
			if rolledOK {
				c.Inc("l1_redo_states_equal")
			} else {
				c.Inc("l1_redo_equal_although_rollback_differed")
			}
			continue
		}
		if !rolledOK {
			// consequence of a rollback divergence reported in phase A
			if panicked {
				c.Inc("l1_redo_panics_after_rollback_differed")
				c.Inc("l1_redo_panic_after_rollback_differed:" + frame)
			} else {
				c.Inc("l1_redo_differs_after_rollback_differed")
			}
			mgr.Close()
			T, mgr = l.build(H)
			fresh = true
			continue
		}
		// the rolled-back state was right, yet re-processing diverges or panics
		if !l.forwardDeterministic(H) {
			mgr.Close()
			T, mgr = l.build(H)
			fresh = true
			continue
		}
		suffix := ""
		if !fresh {
			// make sure it is not an after-effect of the earlier rollbacks of this instance
			mgr.Close()
			T, mgr = l.build(H)
			rolledOK2, same2, panicked2, frame2, val2 := redo(T, h)
			if rolledOK2 && !panicked2 && same2 {
				suffix = "@after-earlier-rollbacks"
			} else {
				panicked, frame, val = panicked2, frame2, val2
			}
		}
		wit := c22Witness{Replay: l.replayID(), Knobs: k, Phase: "redo", Tip: H, RolledBackTo: h, Depth: H - h, UndoneBlocks: c22OpsMap(w, h+1, H)}
		if panicked {
			c.Violate("redo-panic:"+frame+suffix, fmt.Sprintf("the state after RollbackTo(%d) from tip %d equals the forward-only state, but re-processing blocks %d..%d panicked: %v", h, H, h+1, H, val), wit)
		} else {
			c.Inc("l1_redo_differs_after_correct_rollback")
			if suffix == "" {
				ref, rm := l.build(H)
				diffs, _ := c22DiffCommittee(T, ref, H)
				rm.Close()
				sigs, by := c22GroupBySig(diffs)
				for _, sg := range sigs {
					wit.Diffs, wit.OtherSigs = c22Cap(by[sg], 10), c22Others(sigs, sg)
					c.Violate("redo-diff:"+sg, fmt.Sprintf("after RollbackTo(%d) from tip %d the state equals the forward-only state at %d, but re-processing blocks %d..%d gives a state different from the direct state at %d: %s", h, H, h, h+1, H, H, c22DiffLine(by[sg])), wit)
				}
			} else {
				c.Violate("redo-diff"+suffix, fmt.Sprintf("an instance that had been rolled back and re-processed several times (each time ending in the direct state) diverged when re-processing blocks %d..%d after RollbackTo(%d); a fresh instance does not", h+1, H, h), wit)
			}
		}
		mgr.Close()
		T, mgr = l.build(H)
		fresh = true
	}
	mgr.Close()
}

// reportRollbackDiff produces the witnesses for a divergence seen after
// T.RollbackTo(h) (T had tip `tip` and was stepped back one block at a time).
// It may hand back a clean instance standing at height h (with its tip) for
// the scan to continue with.
//
// Signature: "rollback-diff:<Type>.<Field>" when undoing block h+1 alone (fresh
// instance, tip h+1) already shows it and block h+1 is an ordinary block;
// "rollback-diff:<Type>@committee-change" (one signature per type, the fields
// are in the witness) for Candidate / CRMember / CRInfo / DepositInfo objects -
// held by pointer in the maps a committee change swaps - when block h+1 itself
// changes the committee / ends a voting period / clears the member history, or
// when the divergence only shows with a deeper rollback whose undone blocks
// include such a block (the witness says which);
// "rollback-diff:<Type>.<Field>@depth>1" when it needs a deeper rollback
// otherwise.
func (l *c22L1) reportRollbackDiff(T *crstate.Committee, tip, h uint32) (*crstate.Committee, *checkpoint.Manager, uint32) {
	c, w := l.c, l.w
	// cheap first look through the serialised view (no instance needed)
	var base []string
	if refSer, err := c22SerFrames(l.snaps[h].raw); err == nil {
		if raw, err := c22SerBytes(T, h); err == nil {
			if tSer, err := c22SerFrames(raw); err == nil {
				base, _ = c22GroupBySig(c22DiffFrames(tSer, refSer))
			}
		}
	}
	depth1 := map[string]bool{}
	var T1 *crstate.Committee
	var m1 *checkpoint.Manager
	var t1Clean bool
	if tip == h+1 {
		for _, s := range base {
			depth1[s] = true
		}
	} else {
		// depth-1 run: fresh instance to h+1, one step back
		T1, m1 = l.build(h + 1)
		kit.Guard(func() {
			T1.RollbackTo(h)
			if s1, err := c22TakeSnap(T1, h); err == nil {
				if s1.equal(l.snaps[h]) {
					t1Clean = true
					return
				}
			}
			if refSer, err := c22SerFrames(l.snaps[h].raw); err == nil {
				if raw, err := c22SerBytes(T1, h); err == nil {
					if tSer, err := c22SerFrames(raw); err == nil {
						d1, _ := c22GroupBySig(c22DiffFrames(tSer, refSer))
						for _, s := range d1 {
							depth1[s] = true
						}
					}
				}
			}
		})
	}
	handBack := func() (*crstate.Committee, *checkpoint.Manager, uint32) {
		if T1 != nil && t1Clean {
			return T1, m1, h + 1
		}
		if m1 != nil {
			m1.Close()
		}
		return nil, nil, 0
	}
	changes := l.changeHeights(h, tip)
	blockIsChange := len(changes) > 0 && changes[0] == h+1
	full := func(sg string) string {
		// only objects held by pointer in the candidate / member maps are
		// re-instantiated when a committee change is undone
		byPointer := false
		typ := strings.SplitN(sg, ".", 2)[0]
		switch typ {
		case "Candidate", "CRMember", "CRInfo", "DepositInfo":
			byPointer = true
		}
		switch {
		case depth1[sg] && blockIsChange && byPointer:
			return typ + "@committee-change"
		case depth1[sg]:
			return sg
		case len(changes) > 0 && byPointer:
			return typ + "@committee-change"
		default:
			return sg + "@depth>1"
		}
	}
	need := len(base) == 0 // only the in-memory view differs: needs the full comparison
	for _, sg := range base {
		c.Inc("l1_divergences_by_signature")
		if depth1[sg] {
			c.Inc("l1_diffs_reproduced_at_depth_1")
		} else {
			c.Inc("l1_diffs_needing_depth_gt_1")
		}
		if l.seen[full(sg)] < 1 {
			need = true
		}
		if w.K.Strict {
			c.Inc("l1_sig:" + full(sg) + " [history respects mempool conflict slots]")
		} else {
			c.Inc("l1_sig:" + full(sg) + " [miner-assembled blocks]")
		}
	}
	if !need {
		return handBack()
	}
	if !l.forwardDeterministic(tip) || !l.forwardDeterministic(h) {
		return handBack()
	}
	ref, rm := l.build(h)
	defer rm.Close()
	diffs, err := c22DiffCommittee(T, ref, h)
	if err != nil {
		c.Note("diff error at height %d: %v", h, err)
	}
	sigs, by := c22GroupBySig(diffs)
	if len(sigs) == 0 {
		c.Note("history %d: canonical bytes differ at height %d but no field-level difference was found", l.idx, h)
		c.Inc("l1_unexplained_canonical_difference")
		return handBack()
	}
	if tip == h+1 {
		for _, s := range sigs {
			depth1[s] = true
		}
	} else if !t1Clean {
		// in-memory-only fields of the depth-1 run
		d1, _ := c22DiffCommittee(T1, ref, h)
		s1, _ := c22GroupBySig(d1)
		for _, s := range s1 {
			depth1[s] = true
		}
	}
	// does a depth-1 divergence survive re-processing the block?
	persist := map[string]bool{}
	persistChecked := false
	{
		Tp, mp := l.build(h + 1)
		kit.Guard(func() {
			Tp.RollbackTo(h)
			w.Feed(Tp, w.Blocks[h+1])
			ref1, rm1 := l.build(h + 1)
			d2, _ := c22DiffCommittee(Tp, ref1, h+1)
			rm1.Close()
			s2, _ := c22GroupBySig(d2)
			for _, s := range s2 {
				persist[s] = true
			}
			persistChecked = true
		})
		mp.Close()
	}
	// minimal tip for what does not show at depth 1 (searched up to depth 8)
	minTip := map[string]uint32{}
	pending := 0
	for _, sg := range sigs {
		if !depth1[sg] && l.seen[full(sg)] < 1 {
			pending++
		}
	}
	for t := h + 2; pending > 0 && t <= tip && t <= h+8; t++ {
		Tt, mt := l.build(t)
		kit.Guard(func() {
			for x := t - 1; x >= h; x-- {
				Tt.RollbackTo(x)
			}
			dt, _ := c22DiffCommittee(Tt, ref, h)
			st, _ := c22GroupBySig(dt)
			for _, s := range st {
				if !depth1[s] && minTip[s] == 0 {
					minTip[s] = t
					pending--
				}
			}
		})
		mt.Close()
	}
	// several field signatures may share one reported signature (committee-change class)
	agg := map[string][]c22DiffItem{}
	first := map[string]string{}
	var order []string
	for _, sg := range sigs {
		fs := full(sg)
		if _, ok := agg[fs]; !ok {
			order = append(order, fs)
			first[fs] = sg
		}
		agg[fs] = append(agg[fs], by[sg]...)
	}
	for _, fs := range order {
		if l.seen[fs] >= 1 {
			continue
		}
		l.seen[fs]++
		sg := first[fs]
		var others []string
		for _, o := range order {
			if o != fs {
				others = append(others, o)
			}
		}
		wit := c22Witness{Replay: l.replayID(), Knobs: w.K, Phase: "rollback", Tip: tip, RolledBackTo: h, Depth: tip - h,
			Diffs: c22Cap(agg[fs], 14), OtherSigs: others, UndoneBlocks: c22OpsMap(w, h+1, minU32(tip, h+4)),
			CommitteeChangesUndone: changes}
		if depth1[sg] {
			wit.Depth1 = fmt.Sprintf("reproduced: fresh instance, blocks 1..%d, RollbackTo(%d) shows the same difference", h+1, h)
			if persistChecked {
				if !persist[sg] {
					wit.AfterReprocess = fmt.Sprintf("re-processing block %d after the depth-1 rollback gives the direct value again", h+1)
				} else {
					wit.AfterReprocess = fmt.Sprintf("after re-processing block %d the state still differs from the direct state at %d in this field", h+1, h+1)
				}
			}
		} else {
			wit.Depth1 = "not reproduced at depth 1"
			if mt := minTip[sg]; mt != 0 {
				wit.MinimalDepth = mt - h
				wit.Depth1 += fmt.Sprintf("; smallest reproducing rollback: fresh instance, blocks 1..%d, stepped back to %d (depth %d)", mt, h, mt-h)
			} else {
				wit.Depth1 += "; not reproduced with a tip up to 8 blocks above either"
			}
		}
		wit.EarlierMentions = c22Mentions(w, agg[fs], h)
		c.Violate("rollback-diff:"+fs, fmt.Sprintf("Committee stepped back from %d to %d differs from a fresh Committee that processed blocks 1..%d: %s", tip, h, h, c22DiffLine(agg[fs])), wit)
	}
	return handBack()
}

// c22SideChainEnds counts, block by block, the RegisterSideChain proposals that
// leave the Registered/CRAgreed states by being cancelled or aborted.  Two of
// them in one block make ProposalManager.removeRegisterSideChainInfo run twice
// on the same captured slices, in map iteration order.
type c22SideChainEnds struct {
	prev map[string]crstate.ProposalStatus
}

func (e *c22SideChainEnds) step(D *crstate.Committee) int {
	if e.prev == nil {
		e.prev = map[string]crstate.ProposalStatus{}
	}
	n := 0
	for hs, p := range D.GetAllProposals() {
		if p.Proposal.ProposalType != payload.RegisterSideChain {
			continue
		}
		k := hs.String()
		was, ok := e.prev[k]
		if ok && (was == crstate.Registered || was == crstate.CRAgreed) &&
			(p.Status == crstate.CRCanceled || p.Status == crstate.VoterCanceled || p.Status == crstate.Aborted) {
			n++
		}
		e.prev[k] = p.Status
	}
	return n
}

// observe counts what the history reached (non-vacuity of the generator).
func (l *c22L1) observe(h uint32) {
	c, D := l.c, l.w.D
	if h%5 != 0 {
		return
	}
	for _, p := range D.GetAllProposals() {
		c.Inc("seen:proposal_" + p.Status.String())
	}
	for _, m := range D.GetAllMembersCopy() {
		st := m.MemberState
		c.Inc("seen:member_" + (&st).String())
	}
	for _, cd := range D.GetAllCandidates() {
		c.Inc("seen:candidate_" + cd.State.String())
	}
	if !D.IsInElectionPeriod() && D.GetState().CurrentSession > 0 {
		c.Inc("seen:election_period_ended")
	}
}

// ---------- witness helpers ----------

func minU32(a, b uint32) uint32 {
	if a < b {
		return a
	}
	return b
}

func c22Cap(d []c22DiffItem, n int) []c22DiffItem {
	if len(d) > n {
		return d[:n]
	}
	return d
}

func c22Others(sigs []string, me string) []string {
	var o []string
	for _, s := range sigs {
		if s != me {
			o = append(o, s)
		}
	}
	return o
}

func c22DiffLine(d []c22DiffItem) string {
	if len(d) == 0 {
		return ""
	}
	x := d[0]
	s := fmt.Sprintf("%s = %s, expected %s [%s]", x.Path, c22Short(x.Got), c22Short(x.Want), x.View)
	if len(d) > 1 {
		s += fmt.Sprintf(" (+%d more)", len(d)-1)
	}
	return s
}

func c22Short(s string) string {
	if len(s) > 48 {
		return s[:45] + "..."
	}
	return s
}

func c22OpsMap(w *c22World, from, to uint32) map[string][]string {
	m := map[string][]string{}
	n := 0
	for h := from; h <= to && int(h) < len(w.Ops); h++ {
		ops := w.Ops[h]
		if len(ops) == 0 {
			ops = []string{"(coinbase only)"}
		}
		m[fmt.Sprintf("%04d", h)] = ops
		n++
		if n >= 12 {
			m["..."] = []string{fmt.Sprintf("(%d more blocks up to %d)", to-h, to)}
			break
		}
	}
	return m
}

func c22OpsRange(w *c22World, from, to uint32) map[string][]string { return c22OpsMap(w, from, to) }

// c22Mentions lists earlier operations whose description mentions a key found
// in the differing paths (a proposal hash prefix, an actor name).
func c22Mentions(w *c22World, d []c22DiffItem, upTo uint32) []string {
	keys := map[string]bool{}
	for _, it := range d {
		p := it.Path
		for {
			i := strings.Index(p, "[")
			if i < 0 {
				break
			}
			j := strings.Index(p[i:], "]")
			if j < 0 {
				break
			}
			k := p[i+1 : i+j]
			if len(k) >= 16 {
				keys[k[:8]] = true
			}
			p = p[i+j+1:]
		}
	}
	// map cid/did hex to actor names
	for _, a := range w.cands {
		for k := range keys {
			if strings.HasPrefix(a.cid.String(), k) || strings.HasPrefix(a.did.String(), k) || strings.HasPrefix(a.deposit.String(), k) {
				keys[a.name+" "] = true
				keys[a.name+":"] = true
			}
		}
	}
	var out []string
	for h := uint32(1); h <= upTo+1 && int(h) < len(w.Ops); h++ {
		for _, op := range w.Ops[h] {
			for k := range keys {
				if strings.Contains(op+" ", k) {
					out = append(out, fmt.Sprintf("%04d %s", h, op))
					break
				}
			}
		}
	}
	if len(out) > 14 {
		out = out[len(out)-14:]
	}
	return out
}

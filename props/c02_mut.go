package props

import (
	"encoding/binary"
	"fmt"
	"math/rand"
)

// ---------------------------------------------------------------------------
// Structure-aware mutation of an honest serialisation, driven by the write
// log of the real encoder (one Write call = one wire field).
// ---------------------------------------------------------------------------

// field is one integer-looking wire field of a template.
type c02Field struct {
	off, n int  // byte range in the c02Template
	varint bool // discriminant + value (3/5/9 bytes) or a single byte < 0xfd
}

// c02IntFields extracts every position that can be a count/length/enum: single
// bytes, varints, and fixed 2/4/8 byte integers.
func c02IntFields(t *c02Template) []c02Field {
	var fs []c02Field
	segs := t.segs
	for i := 0; i < len(segs); i++ {
		s := segs[i]
		switch s.n {
		case 1:
			b := t.bytes[s.off]
			if b >= 0xfd && i+1 < len(segs) && segs[i+1].off == s.off+1 {
				want := map[byte]int{0xfd: 2, 0xfe: 4, 0xff: 8}[b]
				if segs[i+1].n == want {
					fs = append(fs, c02Field{s.off, 1 + want, true})
					i++
					continue
				}
			}
			fs = append(fs, c02Field{s.off, 1, true})
		case 2, 4, 8:
			fs = append(fs, c02Field{s.off, s.n, false})
		}
	}
	return fs
}

func c02EncVarint(v uint64) []byte {
	switch {
	case v < 0xfd:
		return []byte{byte(v)}
	case v <= 0xffff:
		b := []byte{0xfd, 0, 0}
		binary.LittleEndian.PutUint16(b[1:], uint16(v))
		return b
	case v <= 0xffffffff:
		b := []byte{0xfe, 0, 0, 0, 0}
		binary.LittleEndian.PutUint32(b[1:], uint32(v))
		return b
	default:
		b := []byte{0xff, 0, 0, 0, 0, 0, 0, 0, 0}
		binary.LittleEndian.PutUint64(b[1:], v)
		return b
	}
}

// boundary values by tier. Tier 2 ("huge") is only tried at a position when
// the moderate tier did not already expose an amplification there, so that a
// known amplifier is measured instead of killing the worker.
var (
	c02TierSmall = []uint64{0, 1, 2, 0xfc}
	// 10000 and 50000 are the protocol's own element limits (MaxTxPerBlock,
	// MaxInvPerMsg): trying them makes what happens at a limit independent of luck
	c02TierModerate = []uint64{0xfd, 10000, 50000, 0xffff, 1 << 16, 1 << 18, 1 << 20}
	c02TierHuge     = []uint64{1 << 31, 1<<32 - 1, 1 << 32, 1 << 63, 1<<64 - 1}
)

// c02WithField returns the template with field f replaced by value v; ok=false if
// v does not fit the fixed width of f.
func c02WithField(t *c02Template, f c02Field, v uint64) ([]byte, bool) {
	var enc []byte
	if f.varint {
		enc = c02EncVarint(v)
	} else {
		if f.n < 8 && v >= 1<<(8*uint(f.n)) {
			return nil, false
		}
		enc = make([]byte, f.n)
		switch f.n {
		case 2:
			binary.LittleEndian.PutUint16(enc, uint16(v))
		case 4:
			binary.LittleEndian.PutUint32(enc, uint32(v))
		case 8:
			binary.LittleEndian.PutUint64(enc, v)
		}
	}
	out := make([]byte, 0, len(t.bytes)-f.n+len(enc))
	out = append(out, t.bytes[:f.off]...)
	out = append(out, enc...)
	out = append(out, t.bytes[f.off+f.n:]...)
	return out, true
}

// fitHuge: the largest value of a fixed-width field is its own "huge".
func c02HugeFor(f c02Field) []uint64 {
	if f.varint || f.n == 8 {
		return c02TierHuge
	}
	if f.n == 4 {
		return []uint64{1 << 31, 1<<32 - 1}
	}
	return nil // 2-byte fields: 0xffff is in the moderate tier
}

func c02DescribeField(f c02Field, v uint64) string {
	k := "int"
	if f.varint {
		k = "varint"
	}
	return fmt.Sprintf("%s@%d+%d=%#x", k, f.off, f.n, v)
}

// grown byte fields ------------------------------------------------------------

// c02VarField is a length-prefixed byte field (WriteVarBytes / WriteVarString:
// a varint write followed by one data write of exactly that length) of a
// template, or a zero varint (an empty byte field or an empty list).
type c02VarField struct {
	off, n           int  // the length prefix
	dataOff, dataLen int  // the bytes it announces
	matched          bool // a data write of exactly the announced length follows
}

func c02VarFields(t *c02Template) []c02VarField {
	var out []c02VarField
	segs := t.segs
	for i := 0; i < len(segs); i++ {
		s := segs[i]
		if s.n != 1 {
			continue
		}
		b := t.bytes[s.off]
		var val uint64
		pn, next := 1, i+1
		if b >= 0xfd {
			want := map[byte]int{0xfd: 2, 0xfe: 4, 0xff: 8}[b]
			if i+1 >= len(segs) || segs[i+1].off != s.off+1 || segs[i+1].n != want {
				continue
			}
			raw := make([]byte, 8)
			copy(raw, t.bytes[s.off+1:s.off+1+want])
			val = binary.LittleEndian.Uint64(raw)
			pn, next = 1+want, i+2
		} else {
			val = uint64(b)
		}
		end := s.off + pn
		switch {
		case val == 0:
			out = append(out, c02VarField{off: s.off, n: pn, dataOff: end})
		case next < len(segs) && segs[next].off == end && uint64(segs[next].n) == val:
			out = append(out, c02VarField{off: s.off, n: pn, dataOff: end, dataLen: int(val), matched: true})
			i = next
		}
	}
	return out
}

// c02GrownCase is one (claimed length, supplied bytes) combination. chunk is
// the read granularity of the repository's growing reader (32 KiB): inputs that
// really carry more than one chunk of a field, announce far more, and end
// early are the ones a reader may wrongly start trusting.
type c02GrownCase struct {
	name     string
	claim    uint64 // 0 = the real length
	supplied int
	withTail bool // complete the value with the rest of the template (honest, grown)
}

const c02Chunk = 32 << 10

var c02GrownCases = []c02GrownCase{
	{"claim16MiB/chunk-1", 16 << 20, c02Chunk - 1, false},
	{"claim16MiB/chunk", 16 << 20, c02Chunk, false},
	{"claim16MiB/chunk+1", 16 << 20, c02Chunk + 1, false},
	{"claim16MiB/chunk+64", 16 << 20, c02Chunk + 64, false},
	{"claim8MiB/33KiB", 8 << 20, 33 << 10, false},
	{"claim12MiB/2chunks+1", 12 << 20, 2*c02Chunk + 1, false},
	{"claim1MiB/33KiB", 1 << 20, 33 << 10, false},
	{"claim-real/33KiB-1-missing", 33 << 10, 33<<10 - 1, false},
	{"real/100KiB", 0, 100 << 10, true},
}

// c02Grow builds the input: template up to the field, the claimed length, the
// supplied bytes, and (for the honest variant) the rest of the template.
func c02Grow(t *c02Template, f c02VarField, g c02GrownCase, filler []byte) []byte {
	claim := g.claim
	if claim == 0 {
		claim = uint64(g.supplied)
	}
	enc := c02EncVarint(claim)
	out := make([]byte, 0, f.off+len(enc)+g.supplied+len(t.bytes))
	out = append(out, t.bytes[:f.off]...)
	out = append(out, enc...)
	out = append(out, filler[:g.supplied]...)
	if g.withTail {
		out = append(out, t.bytes[f.dataOff+f.dataLen:]...)
	}
	return out
}

// cheap byte-level mutations -------------------------------------------------

func c02FlipBits(r *rand.Rand, b []byte) []byte {
	out := append([]byte(nil), b...)
	if len(out) == 0 {
		return out
	}
	for k := 1 + r.Intn(3); k > 0; k-- {
		i := r.Intn(len(out))
		out[i] ^= 1 << uint(r.Intn(8))
	}
	return out
}

func c02SetByte(b []byte, i int, v byte) []byte {
	out := append([]byte(nil), b...)
	out[i] = v
	return out
}

func c02Splice(r *rand.Rand, a, b *c02Template) []byte {
	ca, cb := 0, 0
	if len(a.segs) > 0 {
		ca = a.segs[r.Intn(len(a.segs))].off
	}
	if len(b.segs) > 0 {
		cb = b.segs[r.Intn(len(b.segs))].off
	}
	out := append([]byte(nil), a.bytes[:ca]...)
	return append(out, b.bytes[cb:]...)
}

func c02RandomBytes(r *rand.Rand) []byte {
	n := r.Intn(64)
	b := make([]byte, n)
	r.Read(b)
	// bias towards bytes that look like varint discriminants and small counts
	for i := range b {
		switch r.Intn(6) {
		case 0:
			b[i] = byte(0xfd + r.Intn(3))
		case 1:
			b[i] = byte(r.Intn(4))
		}
	}
	return b
}

func c02NewZeroRand() *rand.Rand { return rand.New(rand.NewSource(0)) }

package props

import (
	"fmt"
	"os"
	"sort"
	"strings"

	"github.com/elastos/Elastos.ELA/common"
	"github.com/elastos/Elastos.ELA/wallet"

	"verif/kit"
	"verif/kit/filler"
	"verif/kit/node"
)

// C23 — saved state checkpoints are lossless.
//
// Workload A (this file, c23RoundTrips): kit/filler populates every field of
// the DPoS, CR and wallet-coin checkpoints; the tx-pool checkpoint is filled
// with real, valid pool transactions on a live node (its Deserialize
// re-validates every transaction). Oracle: Deserialize(Serialize(c)) deep-
// equals c, field coverage (every leaf non-zero at least once) and field
// sensitivity (changing one leaf changes the bytes).
//
// Workload B (restart twin: restore at height h and replay == never
// restarted) is a second function to be called from runC23.

func init() {
	kit.Register(&kit.Spec{
		ID: "C23",
		Rule: "A: reflect-filler instances of dpos/state.CheckPoint, cr/state.Checkpoint, wallet.CoinsCheckPoint (every field populated; maps/slices 0..3 entries; sensitivity instances with <=1 entry per map so that bytes are deterministic) and tx-pool checkpoints of a live node holding 1..12 valid transactions. " +
			"distinct = distinct serialised bytes; non-trivial = decoded and had populated leaves. " +
			"B (shards 8..): per shard one seeded 1460-1485 block history (2200+, crossing the third save height, on half of the thorough-tier shards) on a NeedSave node in the compressed dposv2-era / dpos-era: proposals in every status, v1/v2 votes, stake changes, producer registrations/cancellations, impeachment, reward claims and pending real-withdraws placed before and across the checkpoint save heights 720/1440, a non-empty mempool throughout; " +
			"restore heights = save heights and +-1, +-5 around them plus seeded random ones, each as: feed the recorded blocks to a fresh node up to h, close (or die by SIGKILL), process exit, node.Start on the same directory in a new process, feed h+1..H. case = (history seed, restore height, exit mode); non-trivial = at least one cut was compared after the restart",
		Shards: func(tier string) int { return c23AShards + c23BShards(tier) },
		Run:    runC23,
		TimeoutS: func(tier string) int {
			if tier == "thorough" {
				return 2700
			}
			return 900
		},
		Require: []string{"dpos_roundtrips", "cr_roundtrips", "wallet_roundtrips", "txpool_roundtrips", "txpool_txs_roundtripped", "sensitivity_probes", "leaf_keys_carried",
			// workload B
			"b_histories", "b_determinism_control_ok", "b_feed_control_ok", "b_restore_points", "b_restores_from_dpos_file", "b_restores_by_full_replay", "b_killed_processes",
			"b_cuts_compared_at_restart", "b_cuts_compared_after_restart", "b_blocks_fed_after_restart", "b_pool_txs_restored_from_checkpoint",
			"b_control_pending_votes_withdraw_at_save_height", "b_control_pending_cr_withdraw_at_save_height", "b_control_pending_v2_reward_withdraw_at_save_height", "b_control_nonempty_pool_at_save_height",
			"b_restore_points_with_next_crc_differing"},
		Assumptions: []string{
			"platform-int fields (DutyIndex) hold values in [0,2^31) — they are written as uint32",
			"back pointers to the live Arbiters/Committee/TxPool objects, locks and callbacks are not checkpoint content",
			"the tx-pool checkpoint is restored by re-validating its transactions against the chain (by design); it is therefore compared on a node whose chain still accepts them",
			"B: the tx-pool file that is 'default' at a restart was written one block earlier (pool of cut h-2); transactions that entered the pool later were never checkpointed and are not demanded back; node-generated real-withdraw transactions are re-created by the node and only counted",
			"B: StateKeyFrame.DposV2EffectedProducers is compared by key set (the node never reads its values), StateKeyFrame.NeedRevertToDPOSTX (set by the network layer) and the checkpoint objects' own Height (save-schedule bookkeeping) are not compared; rollback histories are not compared (a restarted node starts with empty histories by design)",
			"B: the SIGKILL variant closes the block database first (its write-back cache is C17's subject) and waits for the asynchronous checkpoint writer to finish, so it differs from the clean variant only in never calling Manager.Close — which main.go never calls either",
		},
		Post: postC23,
	})
}

// Shards 0..c23AShards-1 run workload A (unchanged case lists), the remaining
// c23BShards shards run workload B (restart twin, c23_restart.go).
const c23AShards = 8

func c23BShards(tier string) int {
	if tier == "thorough" {
		return 8
	}
	return 4
}

func runC23(c *kit.Ctx) {
	node.InitGlobals(c.WorkDir)
	only := os.Getenv("C23_ONLY") // development aid: "A" or "B"
	if c.Shard < c23AShards {
		if only != "B" {
			c23RoundTrips(c)
		}
		return
	}
	if v := os.Getenv("C23B_ONLY_SHARD"); v != "" && v != fmt.Sprint(c.Shard-c23AShards) { // development aid
		return
	}
	if only != "A" {
		c23Restart(c, c.Shard-c23AShards, c.Shards-c23AShards)
	}
}

// fields that are deliberately not persisted; value = why a restarted node
// does not need them. Everything else that does not survive is a violation.
var c23NotPersisted = map[string]string{
	// CRMember.Info / Candidate.Info are written with CRInfo.SerializeUnsigned: the
	// registration signature is only ever verified on the transaction payload
	// (blockchain/txvalidator.go, core/transaction/*cr*.go); no code reads the
	// signature of a stored CRInfo.
	"payload.CRInfo.Signature": "only verified on the tx payload at registration; never read from state",
}

type c23Kind struct {
	name    string
	counter string
	fresh   func() common.Serializable
}

func c23RoundTrips(c *kit.Ctx) {
	cfg := filler.ELAState()
	cov := filler.NewCoverage()
	r := c.Rand("c23a")
	kinds := []c23Kind{
		{"dstate.CheckPoint", "dpos_roundtrips", func() common.Serializable { return filler.NewDPoSCheckPoint() }},
		{"crstate.Checkpoint", "cr_roundtrips", func() common.Serializable { return filler.NewCRCheckpoint() }},
		{"wallet.CoinsCheckPoint", "wallet_roundtrips", func() common.Serializable { return wallet.NewCoinCheckPoint() }},
	}
	total := c.N(200, 5000)
	per := (total + c23AShards - 1) / c23AShards
	sensN := c.N(3, 12)
	small := cfg.Clone()
	small.MaxMap, small.MaxSlice, small.MinEntries = 1, 1, 1 // exactly one entry everywhere: deterministic bytes, every field reached
	sampled := false
	for _, k := range kinds {
		k := k
		codec := serCodec(func(f *filler.Filler) interface{} {
			v := k.fresh()
			f.Fill(v)
			return v
		}, k.fresh)
		sensN := sensN
		if k.name == "wallet.CoinsCheckPoint" {
			sensN *= 16 // few leaves per instance; needs many to meet every output payload type
		}
		for i := 0; i < per+sensN; i++ {
			seed := r.Uint64()
			sens := i >= per
			use := cfg
			if sens {
				use = small
			}
			c.Begin("%s %d seed=%d", k.name, i, seed)
			o := filler.RoundTrip(use, seed, codec)
			cas := map[string]interface{}{"class": k.name, "filler_seed": fmt.Sprint(seed), "sensitivity_instance": sens}
			if o.EncErr != nil {
				c.Inconclusive("generator produced an unencodable %s: %v", k.name, o.EncErr)
				continue
			}
			cov.AddLeaves(o.Leaves)
			nz := 0
			for _, l := range o.Leaves {
				if l.NonZero {
					nz++
				}
			}
			c.Max("max:leaves_per_instance:"+k.name, int64(len(o.Leaves)))
			if o.DecErr != nil {
				c.Violate("decode-rejects:"+k.name, fmt.Sprintf("Deserialize rejected what Serialize wrote: %v", o.DecErr), cas)
				c.Case(string(o.Bytes), false)
				continue
			}
			c.Case(string(o.Bytes), nz > 0)
			c.Inc(k.counter)
			if o.Rest != 0 {
				c.Violate("decode-leaves-bytes:"+k.name, fmt.Sprintf("%d bytes left unread", o.Rest), cas)
			}
			if sens && o.ReEncDiffers && len(o.Diffs) == 0 { // only single-entry maps have deterministic bytes
				c.Violate("reencode-differs:"+k.name, "re-serialising the restored checkpoint gives different bytes", cas)
			}
			if !sampled && sens {
				sampled = true
				c.Sample(map[string]interface{}{"kind": k.name, "leaves": len(o.Leaves), "bytes_len": len(o.Bytes), "bytes_head": kit.Hex(clip(o.Bytes, 120))})
			}
			seen := map[string]bool{}
			for _, d := range o.Diffs {
				d.Key = strings.TrimSuffix(d.Key, "#key") // a missing map key is a loss of the map field
				if seen[d.Key] {
					continue
				}
				seen[d.Key] = true
				if why, ok := c23NotPersisted[d.Key]; ok {
					_ = why
					c.Inc("not_persisted_by_design:" + d.Key)
					continue
				}
				dc := map[string]interface{}{"class": k.name, "filler_seed": fmt.Sprint(seed), "path": d.Path, "want": d.A, "got": d.B}
				c.Violate("roundtrip:"+d.Key, fmt.Sprintf("%s: %s does not survive Serialize/Deserialize (%s: %s -> %s)", k.name, d.Key, d.Path, d.A, d.B), dc)
			}
			// independent cross-check of the differ (mutates both values; last use)
			if eq := filler.DeepEqualCanon(use, o.Value, o.Decoded); eq != (len(o.Diffs) == 0) {
				c.Inconclusive("%s: filler.Diff (%d diffs) and reflect.DeepEqual (%v) disagree", k.name, len(o.Diffs), eq)
			}
			if sens {
				if o.Unordered {
					c.Inconclusive("%s: sensitivity instance has non-deterministic bytes", k.name)
					continue
				}
				for li := range o.Leaves {
					car, ok, info := filler.LeafCarried(small, seed, codec, o.Bytes, li)
					if ok {
						c.Inc("sensitivity_probes")
						cov.AddSensitivity(info.Key, car)
					}
				}
			}
		}
	}

	c23TxPool(c)

	carried, tot := 0, 0
	for k, s := range cov.Keys {
		if strings.HasSuffix(k, "#key") {
			continue
		}
		tot++
		if s.Carried > 0 {
			carried++
		}
	}
	c.Max("max:leaf_keys_total", int64(tot))
	c.Count("leaf_keys_carried", int64(carried))
	c.Inc("shards_done")
	for _, k := range cov.NeverNonZero() {
		c.Inc("cov_zero_only:" + k)
	}
	for _, k := range cov.NeverCarried() {
		c.Inc("cov_uncarried_only:" + k)
	}
	for _, k := range cov.NeverPerturbed() {
		c.Inc("cov_unperturbed_only:" + k)
	}
}

func postC23(a *kit.Agg) {
	shards := a.Counters["shards_done"]
	if shards == 0 {
		return
	}
	var keys []string
	for k := range a.Counters {
		keys = append(keys, k)
	}
	sort.Strings(keys)
	for _, k := range keys {
		v := a.Counters[k]
		switch {
		case strings.HasPrefix(k, "cov_zero_only:") && v == shards:
			a.Inconclusive("field coverage: leaf %s was zero in every generated instance", strings.TrimPrefix(k, "cov_zero_only:"))
		case strings.HasPrefix(k, "cov_unperturbed_only:") && v == shards:
			a.Inconclusive("field sensitivity: leaf %s was never probed", strings.TrimPrefix(k, "cov_unperturbed_only:"))
		case strings.HasPrefix(k, "cov_uncarried_only:") && v == shards:
			key := strings.TrimPrefix(k, "cov_uncarried_only:")
			if _, ok := c23NotPersisted[key]; ok {
				continue
			}
			a.Violate("not-serialized:"+key, fmt.Sprintf("field sensitivity: changing %s never changes the checkpoint bytes — the field is missing from Serialize", key), nil)
		}
	}
}

package props

import (
	"bytes"
	"fmt"
	"math"
	"math/rand"
	"sort"
	"strings"

	"github.com/elastos/Elastos.ELA/account"
	"github.com/elastos/Elastos.ELA/common"
	"github.com/elastos/Elastos.ELA/common/config"
	"github.com/elastos/Elastos.ELA/core/contract"
	pg "github.com/elastos/Elastos.ELA/core/contract/program"
	"github.com/elastos/Elastos.ELA/core/transaction"
	"github.com/elastos/Elastos.ELA/core/types"
	common2 "github.com/elastos/Elastos.ELA/core/types/common"
	"github.com/elastos/Elastos.ELA/core/types/functions"
	"github.com/elastos/Elastos.ELA/core/types/interfaces"
	"github.com/elastos/Elastos.ELA/core/types/payload"
	crstate "github.com/elastos/Elastos.ELA/cr/state"
	"github.com/elastos/Elastos.ELA/crypto"

	"verif/kit"
	"verif/kit/node"
)

// C05, part X — transaction types whose validation path can reach acceptance
// WITHOUT checkTransactionSignature having looked at every input.
//
// Two mechanisms in core/transaction (read from the code, then confirmed at
// run time by c05xEnumerate on the real functions):
//
//  (B) checkTransactionSignature returns nil before GetTxProgramHashes /
//      RunPrograms for: CRCProposalWithdraw (payload v0), CRAssetsRectify,
//      CRCProposalRealWithdraw, NextTurnDPOSInfo, DposV2ClaimRewardRealWithdraw,
//      VotesRealWithdraw.
//  (A) DefaultChecker.ContextCheck returns right after SpecialContextCheck when
//      that returns end == true WITHOUT an error (fee, deposit and signature
//      checks are skipped): CoinBase (own ContextCheck), CRCAppropriation,
//      ProposalResult, Illegal{Proposal,Vote,Block,Sidechain}Evidence,
//      InactiveArbitrators, NextTurnDPOSInfo, NFTDestroyFromSideChain,
//      RecordSponsor, RevertToDPOS, RevertToPOW, UpdateVersion, SideChainPow
//      (new form), ActivateProducer (height <= NFTStartHeight: always; above it:
//      only on the branch "the node key belongs to an Inactive/Illegal CR
//      council member").
//
// Of these, the types that may carry inputs at all (CheckTransactionInput does
// not refuse a referenced UTXO) are the candidates this workload drives on a
// live node: VotesRealWithdraw, DposV2ClaimRewardRealWithdraw,
// CRCProposalRealWithdraw, CRCAppropriation, CRAssetsRectify, ActivateProducer
// (CR-member branch), CRCProposalWithdraw v0 (only valid below
// CRCProposalWithdrawPayloadV1Height; the "cr" script moves that height a few
// blocks up so that a voter-agreed proposal exists while v0 is still valid).
// RevertToDPOS carries no input but is authorised by an m-of-n arbiter program
// whose signatures the checker never verifies; it is driven as a separate case
// (second sentence of the property: an m-of-n program is accepted only if m
// distinct keys of the script signed).
//
// Protocol addresses a type is DESIGNED to spend without a program (no key
// exists for them; the node itself builds these transactions from them):
//   VotesRealWithdraw             config.StakePoolProgramHash                 (blockchain.CreateVotesRealWithdrawTransaction: getUTXOsFromAddress(StakePoolProgramHash))
//   DposV2ClaimRewardRealWithdraw DPoSConfiguration.DPoSV2RewardAccumulateProgramHash (blockchain.CreateDposV2RealWithdrawTransaction)
//   CRCProposalRealWithdraw       CRConfiguration.CRExpensesProgramHash       (blockchain.CreateCRRealWithdrawTransaction; SpecialContextCheck: "input does not from CR expenses address")
//   CRCAppropriation              CRConfiguration.CRAssetsProgramHash         (blockchain.CreateCRCAppropriationTransaction; SpecialContextCheck: "input does not from CR assets address")
//   CRAssetsRectify               CRConfiguration.CRAssetsProgramHash         (blockchain.CreateCRAssetsRectifyTransaction; SpecialContextCheck: "input does not from CRAssetsProgramHash")
//   ActivateProducer              none
//
// Oracle: a transaction of such a type that the mempool or a connected block
// accepted must, for every spent output NOT owned by the type's designated
// address, carry a program whose code hashes to the owner and whose signatures
// verify (mMatching of c05_model.go over the unsigned bytes). Owners of spent
// outputs come from the replay ledger rebuilt from the node's own blocks.
// Signature: unsigned-spend:<TxType>:<mempool|block>.
// RevertToDPOS: accepted => program[0] is m-of-n satisfied (mMultisigSigners);
// signature unverified-multisig:RevertToDPOS:<mempool|block>.

const c05BaseShards = 8

// blocks after CRClaimDPOSNodeStartHeight during which the v0 proposal withdraw stays valid in the "cr" script
const c05xV0Window = 13

var c05xScripts = []string{"v2", "cr", "activate", "revert"}

func c05ExemptShards(tier string) int {
	if tier == "thorough" {
		return 3 * len(c05xScripts)
	}
	return len(c05xScripts)
}

// counters the exempt workload must produce (appended to Spec.Require)
var c05xRequire = []string{
	"X_enum_types", "X_enum_sig_exempt", "X_enum_refuses_inputs", "X_enum_candidates",
	"X_honest_instance_accepted:mempool:VotesRealWithdraw", "X_honest_instance_accepted:block:VotesRealWithdraw",
	"X_honest_instance_accepted:mempool:DposV2ClaimRewardRealWithdraw", "X_honest_instance_accepted:block:DposV2ClaimRewardRealWithdraw",
	"X_honest_instance_accepted:mempool:CRCProposalRealWithdraw", "X_honest_instance_accepted:block:CRCProposalRealWithdraw",
	"X_honest_instance_accepted:mempool:CRCAppropriation", "X_honest_instance_accepted:block:CRCAppropriation",
	"X_honest_instance_accepted:mempool:CRAssetsRectify", "X_honest_instance_accepted:block:CRAssetsRectify",
	"X_honest_instance_accepted:mempool:CRCProposalWithdraw-v0", "X_honest_instance_accepted:block:CRCProposalWithdraw-v0",
	"X_hostile:mempool:CRCProposalWithdraw-v0", "X_hostile:block:CRCProposalWithdraw-v0",
	"X_honest_instance_accepted:block:ActivateProducer", "X_honest_instance_accepted:block:RevertToDPOS",
	"X_hostile:mempool:VotesRealWithdraw", "X_hostile:block:VotesRealWithdraw",
	"X_hostile:mempool:DposV2ClaimRewardRealWithdraw", "X_hostile:block:DposV2ClaimRewardRealWithdraw",
	"X_hostile:mempool:CRCProposalRealWithdraw", "X_hostile:block:CRCProposalRealWithdraw",
	"X_hostile:mempool:CRCAppropriation", "X_hostile:block:CRCAppropriation",
	"X_hostile:mempool:CRAssetsRectify", "X_hostile:block:CRAssetsRectify",
	"X_hostile:mempool:ActivateProducer", "X_hostile:block:ActivateProducer",
	"X_hostile:mempool:RevertToDPOS", "X_hostile:block:RevertToDPOS",
	"X_hostile:mempool:UpdateVersion", "X_hostile:block:UpdateVersion", "X_honest_instance_accepted:block:UpdateVersion",
	"X_control_unsigned_transfer_rejected",
}

type c05x struct {
	c        *kit.Ctx
	nd       *node.Node
	r        *rand.Rand
	w        *node.Wallet
	boot     *node.Boot
	era      *node.Era
	eraName  string
	script   string
	victims  []*account.Account
	attacker *account.Account
	fee      common.Fixed64 // RealWithdrawSingleFee
	fatal    bool
	sampled  int
	// (type, payload version) pairs checkTransactionSignature exempts although the workload does not know them (c05_probe.go)
	newExempt   []c05xFlag
	sigOverride string
}

func runC05Exempt(c *kit.Ctx) {
	x := &c05x{c: c, r: c.Rand("c05x"), script: c05xScripts[(c.Shard-c05BaseShards)%len(c05xScripts)], attacker: node.Key(630)}
	x.eraName = "dposv2-era"
	if x.script == "revert" || x.script == "cr" {
		x.eraName = "dpos-era"
	}
	nd, err := node.Start(node.Options{Dir: c.WorkDir, CoinbaseMaturity: 2, Tweak: func(cfg *config.Configuration) {
		node.EraTweak(x.eraName)(cfg)
		cfg.CRConfiguration.DutyPeriod = 400 // the first committee outlives the script
		if x.script == "cr" {
			// lets blockchain.CreateCRAssetsRectifyTransaction build the node's own rectify transaction from a handful of outputs
			cfg.CRConfiguration.MinCRAssetsAddressUTXOCount = 2
			// keeps the legacy v0 form of CRCProposalWithdraw (spends the CR expenses address directly, exempt from
			// the signature step) valid until the first proposals are voter-agreed
			cfg.CRConfiguration.CRCProposalWithdrawPayloadV1Height = node.EraOf(x.eraName).CRClaimDPOSNodeStart + c05xV0Window
		}
	}})
	if err != nil {
		c.Inconclusive("X %s: node start: %v", x.script, err)
		return
	}
	defer nd.Close()
	defer nd.UnhookEvents()
	x.nd = nd
	x.era = node.EraOf(x.eraName)
	x.fee = nd.Cfg.CRConfiguration.RealWithdrawSingleFee
	panicked, val, stack := kit.Guard(func() {
		switch x.script {
		case "v2":
			x.scriptV2()
		case "cr":
			x.scriptCR()
		case "activate":
			x.scriptActivate()
		case "revert":
			x.scriptRevert()
		}
	})
	if panicked {
		c.Inconclusive("X %s: script panicked at height %d: %v\n%s", x.script, nd.Height(), val, stack)
	}
	c.Max("max:X_height:"+x.script, int64(nd.Height()))
}

// ---------- run-time enumeration on the real functions ----------

// static knowledge the workload was written for
var (
	c05xSigExemptKnown = map[string]bool{"CRCProposalWithdraw/v0": true, "CRAssetsRectify": true, "CRCProposalRealWithdraw": true,
		"NextTurnDPOSInfo": true, "DposV2ClaimRewardRealWithdraw": true, "VotesRealWithdraw": true}
	// SpecialContextCheck can return (nil, true): read from core/transaction/*.go
	c05xEndTrue = map[common2.TxType]bool{common2.CoinBase: true, common2.CRCAppropriation: true, common2.ProposalResult: true,
		common2.IllegalProposalEvidence: true, common2.IllegalVoteEvidence: true, common2.IllegalBlockEvidence: true, common2.IllegalSidechainEvidence: true,
		common2.InactiveArbitrators: true, common2.NextTurnDPOSInfo: true, common2.NFTDestroyFromSideChain: true, common2.RecordSponsor: true,
		common2.RevertToDPOS: true, common2.RevertToPOW: true, common2.UpdateVersion: true, common2.SideChainPow: true, common2.ActivateProducer: true}
	// candidates (accept inputs AND can skip the signature step) the live scripts drive or justify
	c05xCandidatesKnown = map[string]bool{"VotesRealWithdraw": true, "DposV2ClaimRewardRealWithdraw": true, "CRCProposalRealWithdraw": true,
		"CRCAppropriation": true, "CRAssetsRectify": true, "ActivateProducer": true, "CRCProposalWithdraw": true,
		// old-form SideChainPow accepts inputs but its SpecialContextCheck ends with (nil, false): the signature step runs
		"SideChainPow": true}
)

// c05xEnumerate asks the real code, for every transaction type that
// GetTransaction knows: (1) does CheckTransactionInput refuse a transaction
// that references an ordinary UTXO, (2) does checkTransactionSignature return
// nil for such a transaction carrying no program at all. The answers must
// match the lists this workload was written for, otherwise the run is
// inconclusive (a new exempt type would not be covered).
func (x *c05x) enumerate(victim node.UTXORef) {
	c := x.c
	h := x.nd.Height() + 1
	var exempt, refuses, candidates, unknown []string
	x.newExempt = nil
	for t := 0; t < 256; t++ {
		tt := common2.TxType(t)
		if _, err := transaction.GetTransaction(tt); err != nil {
			continue
		}
		c.Inc("X_enum_types")
		name := tt.Name()
		in := &common2.Input{Previous: common2.OutPoint{TxID: victim.TxID, Index: victim.Index}, Sequence: math.MaxUint32}
		refs := map[*common2.Input]common2.Output{in: {Value: victim.Value, ProgramHash: victim.Owner.ProgramHash}}
		sigExempt, newly := false, false
		for ver := byte(0); ver < 4; ver++ {
			pl, err := interfaces.GetPayload(tt, ver)
			if err != nil {
				continue
			}
			tx := functions.CreateTransaction(common2.TxVersion09, tt, ver, pl, []*common2.Attribute{}, []*common2.Input{in},
				[]*common2.Output{node.StdOut(x.attacker.ProgramHash, victim.Value-node.DefaultFee)}, 0, []*pg.Program{})
			var serr error
			p, _, _ := kit.Guard(func() { serr = transaction.VerifCheckTransactionSignature(tx, refs) })
			if !p && serr == nil {
				sigExempt = true
				k := name
				if tt == common2.CRCProposalWithdraw {
					k = fmt.Sprintf("%s/v%d", name, ver)
				}
				if !c05xSigExemptKnown[k] {
					// not an exemption the scripts were written for: the probes of c05_probe.go decide (c05xPost: inconclusive only if none could be built)
					newly = true
					x.newExempt = append(x.newExempt, c05xFlag{tt, ver})
					c.Inc("X_newly_exempt_found:" + c05xKey(tt, ver))
					unknown = append(unknown, c05xKey(tt, ver))
				} else if len(exempt) == 0 || exempt[len(exempt)-1] != k {
					exempt = append(exempt, k)
				}
			}
		}
		pl, _ := interfaces.GetPayload(tt, 0)
		tx := functions.CreateTransaction(common2.TxVersion09, tt, 0, pl, []*common2.Attribute{}, []*common2.Input{in},
			[]*common2.Output{node.StdOut(x.attacker.ProgramHash, victim.Value-node.DefaultFee)}, 0, []*pg.Program{})
		tx.SetParameters(functions.GetTransactionParameters(tx, h, 0, x.nd.Cfg, x.nd.Chain, 0))
		var ierr error
		p, pv, _ := kit.Guard(func() { ierr = tx.CheckTransactionInput() })
		if p {
			c.Note("X enumerate: %s.CheckTransactionInput panicked: %v", name, pv)
		}
		if p || ierr != nil {
			refuses = append(refuses, name)
			c.Inc("X_enum_refuses_inputs")
			continue
		}
		if sigExempt || c05xEndTrue[tt] {
			candidates = append(candidates, name)
			c.Inc("X_enum_candidates")
			if !c05xCandidatesKnown[name] && !newly {
				c.Inconclusive("X enumerate: %s accepts inputs and can skip the signature step, but no script drives it", name)
			}
		}
	}
	for _, k := range exempt {
		c.Inc("X_enum_sig_exempt")
		c.Inc("X_enum_sig_exempt:" + k)
	}
	sort.Strings(exempt)
	for k := range c05xSigExemptKnown {
		found := false
		for _, e := range exempt {
			found = found || e == k
		}
		if !found {
			c.Inc("X_enum_no_longer_exempt:" + k)
		}
	}
	if c.Shard == c05BaseShards {
		c.Sample(map[string]interface{}{"part": "X-enumeration", "height": h, "checkTransactionSignature_returns_nil_without_program": exempt, "newly_exempt": unknown,
			"CheckTransactionInput_refuses_a_utxo_reference": refuses, "candidates_accept_inputs_and_may_skip_signature_step": candidates})
	}
}

// ---------- shared helpers ----------

func (x *c05x) take(a *account.Account, min common.Fixed64) node.UTXORef {
	return x.w.MustTake(a, min+node.DefaultFee)
}

// submitMine sends txs through the mempool and mines them honestly.
func (x *c05x) submitMine(kind string, txs ...interfaces.Transaction) bool {
	for _, tx := range txs {
		if err := x.nd.TxPool.AppendToTxPool(tx); err != nil {
			x.c.Note("X %s h=%d: mempool rejected honest %s %s: %v", x.script, x.nd.Height()+1, kind, tx.TxType().Name(), err)
			x.c.Inc("X_setup_rejected:" + kind)
			return false
		}
	}
	return x.mine(txs...)
}

func (x *c05x) mine(txs ...interfaces.Transaction) bool {
	if x.fatal {
		return false
	}
	if _, err := x.nd.MineTipDPoS(txs...); err != nil {
		x.c.Inconclusive("X %s: mining height %d failed: %v", x.script, x.nd.Height()+1, err)
		x.fatal = true
		return false
	}
	x.c.Inc("X_blocks")
	return true
}

func (x *c05x) mineTo(h uint32) bool {
	for x.nd.Height() < h {
		if !x.mine() {
			return false
		}
	}
	return true
}

// evict removes tx (and whatever spends the same outputs) from the mempool
// with the pool's own post-block clean-up, as if a block carrying tx had been connected.
func (x *c05x) evict(tx interfaces.Transaction) bool {
	x.nd.TxPool.CleanSubmittedTransactions(&types.Block{Transactions: []interfaces.Transaction{tx}})
	if x.nd.TxPool.HaveTransaction(tx.Hash()) {
		x.c.Inconclusive("X %s: could not evict %s from the mempool", x.script, tx.TxType().Name())
		x.fatal = true
		return false
	}
	return true
}

// tryBlock assembles the next block from the node's pending system
// transactions (minus those of type skip, when skipOn) plus txs, has it
// confirmed by the arbiters and processed. The tip tells the verdict.
func (x *c05x) tryBlock(skipOn bool, skip common2.TxType, txs ...interfaces.Transaction) (*types.Block, bool) {
	var all []interfaces.Transaction
	for _, tx := range x.nd.SystemTxs() {
		if skipOn && tx.TxType() == skip {
			continue
		}
		dup := false
		for _, t := range txs {
			dup = dup || t.Hash() == tx.Hash()
		}
		if !dup {
			all = append(all, tx)
		}
	}
	all = append(all, txs...)
	var fees common.Fixed64
	for _, tx := range all {
		if len(tx.Inputs()) == 0 {
			continue
		}
		refs, err := x.nd.Chain.UTXOCache.GetTxReference(tx)
		if err != nil {
			return nil, false
		}
		for _, o := range refs {
			fees += o.Value
		}
		for _, o := range tx.Outputs() {
			fees -= o.Value
		}
	}
	b, err := x.nd.AssembleOn(node.BlockSpec{Txs: all, Fees: fees})
	if err != nil {
		x.c.Note("X %s: assemble: %v", x.script, err)
		return nil, false
	}
	tip := x.nd.Tip()
	x.nd.ProcessConfirmed(b)
	if x.nd.Tip().IsEqual(tip) {
		x.nd.Chain.UTXOCache.CleanTxCache()
		return b, false
	}
	x.nd.PostBlock(b)
	x.nd.Chain.UTXOCache.CleanTxCache()
	x.nd.BlockPool.CleanFinalConfirmedBlock(b.Height)
	x.c.Inc("X_blocks")
	return b, true
}

func c05xHas(b *types.Block, h common.Uint256) bool {
	for _, tx := range b.Transactions {
		if tx.Hash() == h {
			return true
		}
	}
	return false
}

func c05xTxHex(tx interfaces.Transaction) string {
	buf := new(bytes.Buffer)
	tx.Serialize(buf)
	return kit.Hex(buf.Bytes())
}

func c05xAddr(h common.Uint168) string {
	s, err := h.ToAddress()
	if err != nil {
		return h.String()
	}
	return s
}

// judge applies the oracle to an ACCEPTED transaction. owners is the replay
// ledger taken before the acceptance.
func (x *c05x) judge(T, where, variant string, tx interfaces.Transaction, l *node.Ledger, designated map[common.Uint168]string) bool {
	var need [][21]byte
	var spent []map[string]interface{}
	for _, in := range tx.Inputs() {
		k := node.OutKey{TxID: in.Previous.TxID, Index: in.Previous.Index}
		o, ok := l.Unspent[k]
		if !ok {
			x.c.Inconclusive("X %s: accepted %s spends %s which the replay ledger does not know", x.script, T, k)
			return false
		}
		row := map[string]interface{}{"outpoint": k.String(), "owner": c05xAddr(o.Owner), "value": int64(o.Value)}
		if why, ok := designated[o.Owner]; ok {
			row["designated"] = why
			x.c.Inc("X_spent_designated:" + T)
		} else {
			need = append(need, [21]byte(o.Owner))
		}
		spent = append(spent, row)
	}
	if len(need) == 0 {
		return false
	}
	var ps []mProg
	for _, p := range tx.Programs() {
		ps = append(ps, mProg{Code: p.Code, Param: p.Parameter})
	}
	ok, failing := mMatching(need, ps, c05Serialize(tx))
	if ok {
		x.c.Inc("X_accepted_with_valid_signatures:" + T)
		return false
	}
	x.c.Inc("X_unsigned_accepts")
	x.c.Inc("X_unsigned_accepts:" + where + ":" + T)
	var outs []map[string]interface{}
	for _, o := range tx.Outputs() {
		outs = append(outs, map[string]interface{}{"to": c05xAddr(o.ProgramHash), "value": int64(o.Value)})
	}
	sig := "unsigned-spend:" + T + ":" + where
	if x.sigOverride != "" {
		sig = x.sigOverride
	}
	x.c.Violate(sig,
		fmt.Sprintf("height %d: the %s accepted a %s transaction (variant %s, %d programs) that spends outputs of an ordinary address without any valid witness of the owner (%s)",
			x.nd.Height(), where, T, variant, len(tx.Programs()), failing),
		map[string]interface{}{"type": T, "variant": variant, "where": where, "spent": spent, "outputs": outs, "programs": len(tx.Programs()), "tx": c05xTxHex(tx)})
	return true
}

// controlUnsignedTransfer: the same victim output spent by an ordinary
// TransferAsset without a valid witness must be refused.
func (x *c05x) controlUnsignedTransfer(v node.UTXORef, l *node.Ledger) {
	for _, mode := range []string{"no-program", "foreign-program"} {
		vv := v
		vv.Owner = nil
		tx := node.BuildTx(node.TxSpec{Type: common2.TransferAsset, Payload: &payload.TransferAsset{}, Ins: []node.UTXORef{vv},
			Outs: []*common2.Output{node.StdOut(x.attacker.ProgramHash, v.Value-node.DefaultFee)}, NoSign: true, NoChange: true})
		if mode == "foreign-program" {
			node.SignStd(tx, x.attacker)
		}
		if err := x.nd.TxPool.AppendToTxPool(tx); err != nil {
			x.c.Inc("X_control_unsigned_transfer_rejected")
			continue
		}
		x.judge("TransferAsset", "mempool", mode, tx, l, nil)
		x.evict(tx)
	}
}

func (x *c05x) pickVictims(k int) []node.UTXORef {
	var vs []node.UTXORef
	for i := 0; i < k; i++ {
		a := x.victims[x.r.Intn(len(x.victims))]
		if u, ok := x.w.Take(a, node.ELA(1)); ok {
			vs = append(vs, u)
		}
	}
	return vs
}

func (x *c05x) release(vs []node.UTXORef) {
	for _, v := range vs {
		x.w.Release(v)
	}
}

func c05xInputs(own interfaces.Transaction, vs []node.UTXORef, keepOwn bool, r *rand.Rand) []*common2.Input {
	var ins []*common2.Input
	if keepOwn && own != nil {
		for _, in := range own.Inputs() {
			c := *in
			ins = append(ins, &c)
		}
	}
	for _, v := range vs {
		ins = append(ins, &common2.Input{Previous: common2.OutPoint{TxID: v.TxID, Index: v.Index}, Sequence: math.MaxUint32})
	}
	r.Shuffle(len(ins), func(i, j int) { ins[i], ins[j] = ins[j], ins[i] })
	return ins
}

func c05xCloneOuts(os []*common2.Output) []*common2.Output {
	var r []*common2.Output
	for _, o := range os {
		c := *o
		r = append(r, &c)
	}
	return r
}

func c05xSum(vs []node.UTXORef) (s common.Fixed64) {
	for _, v := range vs {
		s += v.Value
	}
	return
}

type c05xVariant struct {
	name      string
	tx        interfaces.Transaction
	blockLast bool // only tried inside a block in the last round (it diverts the designated address's change)
	side      bool // spends designated inputs only (outside this property): mempool verdict is counted, never judged
}

// hostileRound runs the mempool phase and (when blockPhase) the block phase
// for one node-generated instance `own` of type T and its crafted variants,
// and ends with the honest block carrying `own` unless a crafted block was
// connected. It returns true when a crafted block was connected.
func (x *c05x) hostileRound(T string, typ common2.TxType, own interfaces.Transaction, variants []c05xVariant, designated map[common.Uint168]string,
	victims []node.UTXORef, blockPhase, last bool) bool {
	c := x.c
	l := x.nd.Replay()
	c.Begin("X %s %s round at height %d", x.script, T, x.nd.Height()+1)
	x.controlUnsignedTransfer(victims[0], l)

	// ---- mempool ----
	ownInPool := x.nd.TxPool.HaveTransaction(own.Hash())
	if ownInPool && !x.evict(own) {
		return false
	}
	for _, v := range variants {
		h := v.tx.Hash()
		if v.side {
			if err := x.nd.TxPool.AppendToTxPool(v.tx); err != nil {
				c.Inc("X_side:" + v.name + ":rejected:" + T)
			} else {
				c.Inc("X_side:" + v.name + ":ACCEPTED:" + T)
				c.Note("X %s (side observation, not this property): the mempool accepted a %s that spends only %s outputs but sends the change (%d sela) to an arbitrary address",
					x.script, T, "designated-address", int64(v.tx.Outputs()[len(v.tx.Outputs())-1].Value))
				if !x.evict(v.tx) {
					return false
				}
			}
			continue
		}
		c.Case(fmt.Sprintf("X:%s:%s:mempool:%s", T, v.name, h.String()), true)
		c.Inc("X_hostile:mempool:" + T)
		c.Inc("X_hostile_variant:" + v.name)
		err := x.nd.TxPool.AppendToTxPool(v.tx)
		if err != nil {
			c.Inc("X_hostile_rejected:mempool:" + T)
			c.Inc("X_reject_reason:" + T + ":" + c05xReason(err))
			x.sample(T, v.name, "mempool", false, err)
			continue
		}
		c.Inc("X_hostile_ACCEPTED:mempool:" + T)
		x.sample(T, v.name, "mempool", true, nil)
		x.judge(T, "mempool", v.name, v.tx, l, designated)
		if !x.evict(v.tx) {
			return false
		}
	}
	// positive control: the node's own unmodified instance
	if err := x.nd.TxPool.AppendToTxPool(own); err != nil {
		c.Note("X %s: the mempool refused the node's own %s: %v", x.script, T, err)
		c.Inc("X_honest_instance_REJECTED:mempool:" + T)
	} else {
		c.Inc("X_honest_instance_accepted:mempool:" + T)
		if x.judge(T, "mempool", "node-own", own, l, designated) {
			c.Note("X %s: the node's own %s spends a non-designated address", x.script, T)
		}
	}

	// ---- blocks ----
	if blockPhase {
		order := x.r.Perm(len(variants))
		for _, i := range order {
			v := variants[i]
			if v.side || (v.blockLast && !last) {
				continue
			}
			h := v.tx.Hash()
			c.Case(fmt.Sprintf("X:%s:%s:block:%s", T, v.name, h.String()), true)
			c.Inc("X_hostile:block:" + T)
			b, ok := x.tryBlock(true, typ, v.tx)
			if !ok {
				c.Inc("X_hostile_rejected:block:" + T)
				x.sample(T, v.name, "block", false, nil)
				continue
			}
			c.Inc("X_hostile_ACCEPTED:block:" + T)
			x.sample(T, v.name, "block", true, nil)
			if !c05xHas(b, h) {
				c.Inconclusive("X %s: connected block lacks the crafted %s", x.script, T)
			}
			x.judge(T, "block", v.name, v.tx, l, designated)
			return true
		}
	}
	// side observation (outside this property), last round only: designated inputs, change to an arbitrary address
	if blockPhase && last {
		for _, v := range variants {
			if !v.side {
				continue
			}
			if b, ok := x.tryBlock(true, typ, v.tx); ok && c05xHas(b, v.tx.Hash()) {
				c.Inc("X_side:" + v.name + ":ACCEPTED_in_block:" + T)
				c.Note("X %s (side observation, not this property): block %d carries a %s that spends only designated-address outputs and pays their change (%d sela) to an arbitrary address",
					x.script, b.Height, T, int64(v.tx.Outputs()[len(v.tx.Outputs())-1].Value))
				x.release(victims)
				return true
			}
			c.Inc("X_side:" + v.name + ":rejected_in_block:" + T)
		}
	}
	// honest block with the node's own instance
	b, ok := x.tryBlock(false, 0, own)
	if !ok {
		c.Inconclusive("X %s: honest block at height %d refused", x.script, x.nd.Height()+1)
		x.fatal = true
		return false
	}
	if c05xHas(b, own.Hash()) {
		c.Inc("X_honest_instance_accepted:block:" + T)
	} else {
		c.Note("X %s: honest block %d does not carry the node's own %s", x.script, b.Height, T)
	}
	x.release(victims)
	return false
}

func c05xReason(err error) string {
	s := err.Error()
	if i := strings.LastIndex(s, ":"); i >= 0 && i+1 < len(s) {
		s = s[i+1:]
	}
	var sb strings.Builder
	for _, r := range strings.TrimSpace(s) {
		switch {
		case r >= '0' && r <= '9', r == '.', r == ',':
		case r == ' ':
			sb.WriteByte('-')
		default:
			sb.WriteRune(r)
		}
	}
	s = sb.String()
	if len(s) > 56 {
		s = s[:56]
	}
	return s
}

func (x *c05x) sample(T, variant, where string, accepted bool, err error) {
	if x.sampled >= 4 {
		return
	}
	x.sampled++
	x.c.Sample(map[string]interface{}{"part": "X", "script": x.script, "type": T, "variant": variant, "where": where, "accepted": accepted, "error": fmt.Sprint(err), "height": x.nd.Height() + 1})
}

// realWithdrawVariants crafts the hostile variants of a node-generated
// real-withdraw transaction (outputs: one per settled request, then at most one change).
func (x *c05x) realWithdrawVariants(own interfaces.Transaction, n int, designated common.Uint168, lastMustBeDesignated bool, vs []node.UTXORef) []c05xVariant {
	rec := own.Outputs()[:n]
	var recSum, ownChange common.Fixed64
	for _, o := range rec {
		recSum += o.Value
	}
	for _, o := range own.Outputs()[n:] {
		ownChange += o.Value
	}
	feeTotal := x.fee * common.Fixed64(n)
	vSum := c05xSum(vs)
	mk := func(ins []*common2.Input, outs []*common2.Output, progs []*pg.Program) interfaces.Transaction {
		return functions.CreateTransaction(own.Version(), own.TxType(), own.PayloadVersion(), own.Payload(), []*common2.Attribute{}, ins, outs, own.LockTime(), progs)
	}
	thief := x.attacker.ProgramHash
	var out []c05xVariant
	if vSum > recSum+feeTotal {
		to := thief
		name := "substitute-victim-inputs:change-to-attacker"
		if lastMustBeDesignated {
			to = designated
			name = "substitute-victim-inputs:change-to-designated"
		}
		outs := append(c05xCloneOuts(rec), node.StdOut(to, vSum-recSum-feeTotal))
		out = append(out, c05xVariant{name: name, tx: mk(c05xInputs(own, vs, false, x.r), outs, []*pg.Program{})})
		// same, with a program of the attacker's own key (a valid signature, but not the owner's)
		tx := mk(c05xInputs(own, vs, false, x.r), c05xCloneOuts(outs), []*pg.Program{})
		node.SignStd(tx, x.attacker)
		out = append(out, c05xVariant{name: "substitute-victim-inputs:foreign-program", tx: tx})
	}
	outs := append(c05xCloneOuts(rec), node.StdOut(designated, ownChange+vSum))
	out = append(out, c05xVariant{name: "add-victim-input:surplus-to-designated", tx: mk(c05xInputs(own, vs, true, x.r), outs, []*pg.Program{})})
	if ownChange > 0 {
		outs := append(c05xCloneOuts(rec), node.StdOut(thief, ownChange))
		out = append(out, c05xVariant{name: "designated-change-diverted", tx: mk(c05xInputs(own, nil, true, x.r), outs, []*pg.Program{}), side: true})
	}
	if !lastMustBeDesignated {
		outs := append(c05xCloneOuts(rec), node.StdOut(thief, ownChange+vSum))
		out = append(out, c05xVariant{name: "add-victim-input:change-to-attacker", tx: mk(c05xInputs(own, vs, true, x.r), outs, []*pg.Program{}), blockLast: true})
	}
	return out
}

func (x *c05x) ownOfType(t common2.TxType) interfaces.Transaction {
	for _, tx := range x.nd.SystemTxs() {
		if tx.TxType() == t {
			return tx
		}
	}
	return nil
}

// ---------- script "v2": VotesRealWithdraw, DposV2ClaimRewardRealWithdraw ----------

func (x *c05x) bootstrap(until string) bool {
	b, err := x.nd.Bootstrap(x.eraName, node.BootOpts{Until: until, Voters: 10})
	if err != nil {
		x.c.Inconclusive("X %s: bootstrap(%s): %v", x.script, until, err)
		return false
	}
	x.boot = b
	x.w = b.Wallet
	x.victims = b.Voters[3:7] // funded, never used by the bootstrap, never sign anything here
	return true
}

func (x *c05x) scriptV2() {
	if !x.bootstrap("dposv2") {
		return
	}
	x.enumerate(x.pickVictimsKeep())
	x.probesAny()
	nR := x.c.N(3, 5)
	stake := *x.nd.Cfg.StakePoolProgramHash
	reward := *x.nd.Cfg.DPoSConfiguration.DPoSV2RewardAccumulateProgramHash
	staker := x.boot.Staker
	for i := 0; i < nR && !x.fatal; i++ {
		amt := node.ELA(int64(1+x.r.Intn(40))) + common.Fixed64(x.r.Intn(100000000))
		if !x.submitMine("ReturnVotes", node.ReturnVotes(x.take(staker, node.ELA(1)), amt)) {
			return
		}
		pend := x.nd.Chain.GetState().GetVotesWithdrawableTxInfo()
		own := x.ownOfType(common2.VotesRealWithdraw)
		if len(pend) == 0 || own == nil {
			x.c.Note("X v2: no VotesRealWithdraw generated at height %d (pending %d)", x.nd.Height(), len(pend))
			x.c.Inc("X_no_node_instance:VotesRealWithdraw")
			continue
		}
		n := len(own.Payload().(*payload.VotesRealWithdrawPayload).VotesRealWithdraw)
		vs := x.pickVictims(1 + x.r.Intn(2))
		x.hostileRound("VotesRealWithdraw", common2.VotesRealWithdraw, own, x.realWithdrawVariants(own, n, stake, false, vs),
			map[common.Uint168]string{stake: "stake pool (config.StakePoolProgramHash): CreateVotesRealWithdrawTransaction pays unstake requests from it"}, vs, i > 0, i == nR-1)
	}
	for i := 0; i < nR && !x.fatal; i++ {
		have := x.nd.Chain.GetState().DPoSV2RewardInfo[node.StakeAddrString(staker)]
		if have < 4*x.fee {
			x.c.Note("X v2: staker has only %d sela of DPoS v2 reward at height %d", int64(have), x.nd.Height())
			x.mine()
			continue
		}
		amt := have / common.Fixed64(2+x.r.Intn(3))
		if amt <= 2*x.fee {
			amt = 2*x.fee + 1
		}
		if !x.submitMine("DposV2ClaimReward", node.DposV2ClaimReward(x.take(staker, node.ELA(1)), amt)) {
			return
		}
		pend := x.nd.Chain.GetState().GetRealWithdrawTransactions()
		own := x.ownOfType(common2.DposV2ClaimRewardRealWithdraw)
		if len(pend) == 0 || own == nil {
			x.c.Note("X v2: no DposV2ClaimRewardRealWithdraw generated at height %d (pending %d)", x.nd.Height(), len(pend))
			x.c.Inc("X_no_node_instance:DposV2ClaimRewardRealWithdraw")
			continue
		}
		n := len(own.Payload().(*payload.DposV2ClaimRewardRealWithdraw).WithdrawTransactionHashes)
		vs := x.pickVictims(1 + x.r.Intn(2))
		x.hostileRound("DposV2ClaimRewardRealWithdraw", common2.DposV2ClaimRewardRealWithdraw, own, x.realWithdrawVariants(own, n, reward, false, vs),
			map[common.Uint168]string{reward: "DPoS v2 reward accumulate address (DPoSV2RewardAccumulateProgramHash): CreateDposV2RealWithdrawTransaction pays reward claims from it"}, vs, i > 0, i == nR-1)
	}
	x.probesStake()
}

// pickVictimsKeep returns one victim output without reserving it.
func (x *c05x) pickVictimsKeep() node.UTXORef {
	v := x.pickVictims(1)
	x.release(v)
	return v[0]
}

// ---------- script "cr": CRCAppropriation, CRAssetsRectify, CRCProposalRealWithdraw ----------

func (x *c05x) scriptCR() {
	nd, e := x.nd, x.era
	if !x.bootstrap("producers") {
		return
	}
	b := x.boot
	assets := *nd.Cfg.CRConfiguration.CRAssetsProgramHash
	expenses := *nd.Cfg.CRConfiguration.CRExpensesProgramHash
	// ---- CR election (as kit/node/boot.go, but the block after the election is assembled here) ----
	if !x.mineTo(e.CRVotingStart) {
		return
	}
	var txs []interfaces.Transaction
	for i, cr := range b.CRs {
		txs = append(txs, node.RegisterCR(x.take(cr, node.ELA(5000)), cr, fmt.Sprintf("cr-%d", i), node.ELA(5000)))
	}
	txs = append(txs, node.BuildTx(node.TxSpec{Type: common2.TransferAsset, Payload: &payload.TransferAsset{}, Ins: []node.UTXORef{x.take(b.Voters[2], node.ELA(5000))},
		Outs: []*common2.Output{node.StdOut(assets, node.ELA(5000))}}))
	if !x.submitMine("RegisterCR", txs...) {
		return
	}
	x.mineTo(nd.Height() + 6)
	votes := map[common.Uint168]common.Fixed64{}
	for i, cr := range b.CRs {
		votes[node.CIDOf(cr)] = node.ELA(int64(500 - 20*i))
	}
	if !x.submitMine("VoteCRs", node.VoteCRs(x.take(b.Voters[1], node.ELA(5500)), node.ELA(5500), votes)) {
		return
	}
	if !x.mineTo(e.CRCommitteeStart - 2) {
		return
	}
	// the block that elects the committee raises NeedAppropriation; the NEXT block must carry the CRCAppropriation
	for i := 0; i < 6 && !nd.Committee.IsAppropriationNeeded(); i++ {
		if !x.mine() {
			return
		}
	}
	if !nd.Committee.IsInElectionPeriod() || !nd.Committee.IsAppropriationNeeded() {
		x.c.Inconclusive("X cr: committee not elected / no appropriation needed at height %d (election=%v needed=%v members=%d assets-utxos=%d)", nd.Height(), nd.Committee.IsInElectionPeriod(), nd.Committee.IsAppropriationNeeded(), len(nd.Committee.GetAllMembersCopy()), len(x.w.UTXOs(assets)))
		return
	}
	x.enumerate(x.pickVictimsKeep())
	// ---- CRCAppropriation ----
	if own := x.ownOfType(common2.CRCAppropriation); own == nil {
		x.c.Inconclusive("X cr: the node generated no CRCAppropriation at height %d", nd.Height())
		return
	} else {
		vs := x.pickVictims(1 + x.r.Intn(2))
		vSum := c05xSum(vs)
		mk := func(ins []*common2.Input, outs []*common2.Output, progs []*pg.Program) interfaces.Transaction {
			return functions.CreateTransaction(own.Version(), own.TxType(), own.PayloadVersion(), own.Payload(), []*common2.Attribute{}, ins, outs, own.LockTime(), progs)
		}
		var vars []c05xVariant
		o := c05xCloneOuts(own.Outputs())
		o[1].Value += vSum
		vars = append(vars, c05xVariant{name: "add-victim-input:surplus-to-designated", tx: mk(c05xInputs(own, vs, true, x.r), o, []*pg.Program{})})
		if vSum > own.Outputs()[0].Value {
			o := c05xCloneOuts(own.Outputs())
			o[1].Value = vSum - o[0].Value
			vars = append(vars, c05xVariant{name: "substitute-victim-inputs:change-to-designated", tx: mk(c05xInputs(own, vs, false, x.r), o, []*pg.Program{})})
		}
		x.hostileRound("CRCAppropriation", common2.CRCAppropriation, own, vars,
			map[common.Uint168]string{assets: "CR assets address: CRCAppropriation SpecialContextCheck admits only inputs from it; CreateCRCAppropriationTransaction builds from it"}, vs, true, true)
	}
	if x.fatal {
		return
	}
	x.probesAny()
	x.probesProducer()
	for _, cr := range b.CRs {
		if nd.Committee.GetMember(node.DIDOf(cr)) != nil {
			b.Members = append(b.Members, cr)
		}
	}
	if len(b.Members) < int(e.CRAgreementCount) {
		x.c.Inconclusive("X cr: only %d harness members elected", len(b.Members))
		return
	}
	// ---- three proposals with an imprest stage each: one v0 withdraw, two v1 payout rounds ----
	owner := b.Voters[7]
	budgets := []payload.Budget{{Type: payload.Imprest, Stage: 0, Amount: node.ELA(3) + common.Fixed64(x.r.Intn(100000000))}, {Type: payload.FinalPayment, Stage: 1, Amount: node.ELA(2)}}
	var props []interfaces.Transaction
	var hashes []common.Uint256
	for i := 0; i < 4; i++ { // 0: v0 withdraw, 1-2: v1 payout rounds, 3: withdraw probe (c05_probe.go)
		p := node.CRCProposalNormal(x.take(owner, node.ELA(1)), owner, b.Members[i%len(b.Members)], []byte(fmt.Sprintf("c05x-draft-%d-%d", i, x.c.Shard)), budgets, owner.ProgramHash, payload.CRCProposalVersion)
		props = append(props, p)
		hashes = append(hashes, node.ProposalHash(p))
	}
	if !x.submitMine("CRCProposal", props...) {
		return
	}
	x.probesProposal(owner, b.Members[0])
	txs = nil
	for _, m := range b.Members {
		for _, ph := range hashes {
			txs = append(txs, node.CRCProposalReview(x.take(m, node.ELA(1)), m, ph, payload.Approve, []byte("ok"), payload.CRCProposalReviewVersion))
		}
	}
	if !x.submitMine("CRCProposalReview", txs...) {
		return
	}
	regH := nd.Height()
	// ---- members claim their DPoS nodes, CRAssetsRectify becomes valid ----
	if !x.mineTo(e.CRClaimDPOSNodeStart) {
		return
	}
	txs = nil
	for i, cr := range b.CRs {
		if nd.Committee.GetMember(node.DIDOf(cr)) != nil {
			txs = append(txs, node.CRCouncilMemberClaimNode(x.take(cr, node.ELA(1)), cr, b.CRNodes[i], payload.CurrentCRClaimDPoSNodeVersion))
		}
	}
	if !x.submitMine("CRCouncilMemberClaimNode", txs...) {
		return
	}
	// ---- CRAssetsRectify (the node's own builder; its trigger sleeps on the wall clock, so it is called directly) ----
	for round := 0; round < 2 && !x.fatal; round++ {
		own, err := nd.Chain.CreateCRAssetsRectifyTransaction()
		if err != nil || own == nil {
			if round == 0 {
				x.c.Inconclusive("X cr: CreateCRAssetsRectifyTransaction at height %d: %v", nd.Height(), err)
			} else {
				x.c.Note("X cr: second CreateCRAssetsRectifyTransaction at height %d: %v", nd.Height(), err)
			}
			break
		}
		vs := x.pickVictims(2)
		vSum := c05xSum(vs)
		mk := func(ins []*common2.Input, outs []*common2.Output) interfaces.Transaction {
			return functions.CreateTransaction(own.Version(), own.TxType(), own.PayloadVersion(), own.Payload(), []*common2.Attribute{}, ins, outs, own.LockTime(), []*pg.Program{})
		}
		var vars []c05xVariant
		o := c05xCloneOuts(own.Outputs())
		o[0].Value += vSum
		vars = append(vars, c05xVariant{name: "add-victim-input:surplus-to-designated", tx: mk(c05xInputs(own, vs, true, x.r), o)})
		o = c05xCloneOuts(own.Outputs())
		o[0].Value = vSum - nd.Cfg.CRConfiguration.RectifyTxFee
		vars = append(vars, c05xVariant{name: "substitute-victim-inputs:change-to-designated", tx: mk(c05xInputs(own, vs, false, x.r), o)})
		x.hostileRound("CRAssetsRectify", common2.CRAssetsRectify, own, vars,
			map[common.Uint168]string{assets: "CR assets address: CRAssetsRectify SpecialContextCheck admits only inputs from it; CreateCRAssetsRectifyTransaction builds from it"}, vs, round > 0, true)
		x.mineTo(nd.Height() + 3) // coinbase outputs paid to the CR assets address mature
	}
	if x.fatal {
		return
	}
	// ---- voter agreement, withdraw requests, CRCProposalRealWithdraw ----
	if !x.mineTo(regH + e.ProposalCRVotingPeriod + e.ProposalPublicVotingPeriod + 2) {
		return
	}
	x.withdrawV0Round(owner, hashes[0], expenses)
	if x.fatal {
		return
	}
	probeHash := hashes[3]
	hashes = hashes[1:3]
	if !x.mineTo(nd.Cfg.CRConfiguration.CRCProposalWithdrawPayloadV1Height) {
		return
	}
	for i, ph := range hashes {
		ps := nd.Committee.GetProposal(ph)
		if ps == nil || ps.Status != crstate.VoterAgreed {
			x.c.Note("X cr: proposal %d not VoterAgreed at height %d (%v)", i, nd.Height(), ps)
			continue
		}
		amt := nd.Committee.AvailableWithdrawalAmount(ph)
		if amt <= x.fee {
			continue
		}
		if !x.submitMine("CRCProposalWithdraw", node.CRCProposalWithdraw(x.take(owner, node.ELA(1)), owner, ph, owner.ProgramHash, amt)) {
			return
		}
		own := x.ownOfType(common2.CRCProposalRealWithdraw)
		if own == nil {
			x.c.Inc("X_no_node_instance:CRCProposalRealWithdraw")
			x.c.Note("X cr: no CRCProposalRealWithdraw generated at height %d", nd.Height())
			continue
		}
		n := len(own.Payload().(*payload.CRCProposalRealWithdraw).WithdrawTransactionHashes)
		vs := x.pickVictims(1 + x.r.Intn(2))
		vars := x.realWithdrawVariants(own, n, expenses, true, vs)
		// the form the type allowed before the input restriction: change to an arbitrary address is refused by the last-output rule; kept as a variant
		x.hostileRound("CRCProposalRealWithdraw", common2.CRCProposalRealWithdraw, own, vars,
			map[common.Uint168]string{expenses: "CR expenses address: CRCProposalRealWithdraw SpecialContextCheck admits only inputs from it; CreateCRRealWithdrawTransaction builds from it"}, vs, i > 0, i == len(hashes)-1)
		if x.fatal {
			return
		}
	}
	x.probesWithdraw(owner, probeHash)
}

// withdrawV0Round: the legacy CRCProposalWithdraw (payload v0) spends CR
// expenses outputs directly, without programs; checkTransactionSignature
// exempts it. The honest instance is what the proposal owner's wallet builds;
// the crafted ones bring a third party's outputs along.
func (x *c05x) withdrawV0Round(owner *account.Account, ph common.Uint256, expenses common.Uint168) {
	nd := x.nd
	T := "CRCProposalWithdraw-v0"
	ps := nd.Committee.GetProposal(ph)
	amt := nd.Committee.AvailableWithdrawalAmount(ph)
	if ps == nil || ps.Status != crstate.VoterAgreed || amt <= node.DefaultFee || nd.Height()+1 >= nd.Cfg.CRConfiguration.CRCProposalWithdrawPayloadV1Height {
		x.c.Note("X cr: v0 withdraw not possible at height %d (status %v, available %d)", nd.Height(), ps, int64(amt))
		return
	}
	pl := &payload.CRCProposalWithdraw{ProposalHash: ph, OwnerKey: node.Pub(owner)}
	buf := new(bytes.Buffer)
	pl.SerializeUnsigned(buf, payload.CRCProposalWithdrawDefault)
	pl.Signature = node.DetSign(owner, buf.Bytes())
	var ins []*common2.Input
	var inSum common.Fixed64
	for _, u := range x.w.UTXOs(expenses) {
		ins = append(ins, &common2.Input{Previous: common2.OutPoint{TxID: u.TxID, Index: u.Index}, Sequence: math.MaxUint32})
		inSum += u.Value
		if inSum >= amt {
			break
		}
	}
	if inSum < amt {
		x.c.Note("X cr: CR expenses hold only %d sela at height %d", int64(inSum), nd.Height())
		return
	}
	mk := func(ins []*common2.Input, outs []*common2.Output) interfaces.Transaction {
		return functions.CreateTransaction(common2.TxVersion09, common2.CRCProposalWithdraw, payload.CRCProposalWithdrawDefault, pl, []*common2.Attribute{}, ins, outs, 0, []*pg.Program{})
	}
	outs := []*common2.Output{node.StdOut(ps.Recipient, amt-node.DefaultFee)}
	if inSum > amt {
		outs = append(outs, node.StdOut(expenses, inSum-amt))
	}
	own := mk(ins, outs)
	vs := x.pickVictims(1 + x.r.Intn(2))
	vSum := c05xSum(vs)
	var vars []c05xVariant
	o := c05xCloneOuts(own.Outputs())
	if len(o) == 1 {
		o = append(o, node.StdOut(expenses, 0))
	}
	o[1].Value += vSum
	vars = append(vars, c05xVariant{name: "add-victim-input:surplus-to-designated", tx: mk(c05xInputs(own, vs, true, x.r), o)})
	if vSum > amt {
		o := []*common2.Output{node.StdOut(ps.Recipient, amt-node.DefaultFee), node.StdOut(expenses, vSum-amt)}
		vars = append(vars, c05xVariant{name: "substitute-victim-inputs:change-to-designated", tx: mk(c05xInputs(own, vs, false, x.r), o)})
	}
	x.hostileRound(T, common2.CRCProposalWithdraw, own, vars,
		map[common.Uint168]string{expenses: "CR expenses address: CRCProposalWithdraw v0 SpecialContextCheck admits only inputs from it (proposal budgets are paid from it)"}, vs, true, true)
}

// ---------- script "activate": ActivateProducer on the CR-member branch ----------

func (x *c05x) scriptActivate() {
	nd, e := x.nd, x.era
	if !x.bootstrap("claimed") {
		return
	}
	b := x.boot
	_ = e
	idxOf := func(a *account.Account) int {
		for i, cr := range b.CRs {
			if cr == a {
				return i
			}
		}
		return -1
	}
	// the DPoS nodes of two council members stop taking part in consensus; after
	// MaxInactiveRounds the members (node keys still claimed) are set Inactive.
	// Member A is re-activated honestly (positive control), member B's payload
	// rides on the crafted transactions.
	perm := x.r.Perm(len(b.Members))
	mA, mB := b.Members[perm[0]], b.Members[perm[1]]
	keyA, keyB := b.CRNodes[idxOf(mA)], b.CRNodes[idxOf(mB)]
	state := func(a *account.Account) crstate.MemberState {
		if m := nd.Committee.GetMember(node.DIDOf(a)); m != nil {
			return m.MemberState
		}
		return crstate.MemberState(255)
	}
	inactive := func() bool { return state(mA) == crstate.MemberInactive && state(mB) == crstate.MemberInactive }
	nd.SetOffline(false, keyA, keyB)
	for i := 0; i < 200 && !inactive(); i++ {
		if !x.mine() {
			return
		}
	}
	if !inactive() {
		x.c.Inconclusive("X activate: the members whose nodes are offline are %v / %v at height %d", state(mA), state(mB), nd.Height())
		return
	}
	x.c.Inc("X_cr_member_inactive")
	x.c.Max("max:X_member_inactive_at_height", int64(nd.Height()))
	nd.SetOffline(true, keyA, keyB)
	for _, k := range []*account.Account{keyA, keyB} {
		if m := nd.Committee.GetMemberByNodePublicKey(node.Pub(k)); m == nil || m.MemberState != crstate.MemberInactive {
			x.c.Inconclusive("X activate: an inactive member is not found by its node key (height %d)", nd.Height())
			return
		}
	}
	// ActivateProducer may carry inputs only above NFTStartHeight
	if !x.mineTo(nd.Cfg.DPoSConfiguration.NFTStartHeight) {
		return
	}
	if nd.InPOWMode() || !inactive() {
		x.c.Inconclusive("X activate: at height %d pow=%v member states %v / %v", nd.Height(), nd.InPOWMode(), state(mA), state(mB))
		return
	}
	x.enumerate(x.pickVictimsKeep())
	x.probesAny()
	T := "ActivateProducer"
	c := x.c
	// ---- positive control: the zero-cost honest form (cmd/wallet CreateActivateProducerTransaction) for member A ----
	honest := node.ActivateProducer(keyA)
	if err := nd.TxPool.AppendToTxPool(honest); err != nil {
		c.Note("X activate: honest ActivateProducer refused by the mempool: %v", err)
	} else {
		c.Inc("X_honest_instance_accepted:mempool:" + T)
	}
	if b, ok := x.tryBlock(false, 0, honest); ok && c05xHas(b, honest.Hash()) {
		c.Inc("X_honest_instance_accepted:block:" + T)
	} else {
		c.Note("X activate: honest ActivateProducer block refused at height %d", nd.Height()+1)
	}
	// ---- crafted: member B's valid payload, a third party's outputs as inputs ----
	pl := node.ActivateProducer(keyB).Payload()
	l := nd.Replay()
	vs := x.pickVictims(1 + x.r.Intn(2))
	vSum := c05xSum(vs)
	x.controlUnsignedTransfer(vs[0], l)
	mk := func(outs []*common2.Output, progs []*pg.Program) interfaces.Transaction {
		return functions.CreateTransaction(common2.TxVersion09, common2.ActivateProducer, payload.ActivateProducerVersion, pl, []*common2.Attribute{},
			c05xInputs(nil, vs, false, x.r), outs, 0, progs)
	}
	var vars []c05xVariant
	vars = append(vars, c05xVariant{name: "victim-inputs:all-to-attacker", tx: mk([]*common2.Output{node.StdOut(x.attacker.ProgramHash, vSum)}, []*pg.Program{})})
	vars = append(vars, c05xVariant{name: "victim-inputs:with-fee", tx: mk([]*common2.Output{node.StdOut(x.attacker.ProgramHash, vSum-node.DefaultFee-common.Fixed64(x.r.Intn(1000)))}, []*pg.Program{})})
	{
		tx := mk([]*common2.Output{node.StdOut(x.attacker.ProgramHash, vSum-node.DefaultFee)}, []*pg.Program{})
		node.SignStd(tx, x.attacker)
		vars = append(vars, c05xVariant{name: "victim-inputs:foreign-program", tx: tx})
	}
	// the skipped fee check also lets the outputs exceed the inputs (value creation is property C01's subject; counted here, judged as the unsigned spend it also is)
	vars = append(vars, c05xVariant{name: "victim-inputs:outputs-exceed-inputs", tx: mk([]*common2.Output{node.StdOut(x.attacker.ProgramHash, vSum+node.ELA(int64(1+x.r.Intn(1000))))}, []*pg.Program{})})
	for _, v := range vars {
		h := v.tx.Hash()
		c.Case(fmt.Sprintf("X:%s:%s:mempool:%s", T, v.name, h.String()), true)
		c.Inc("X_hostile:mempool:" + T)
		c.Inc("X_hostile_variant:" + v.name)
		if err := nd.TxPool.AppendToTxPool(v.tx); err != nil {
			c.Inc("X_hostile_rejected:mempool:" + T)
			c.Inc("X_reject_reason:" + T + ":" + c05xReason(err))
			x.sample(T, v.name, "mempool", false, err)
			continue
		}
		c.Inc("X_hostile_ACCEPTED:mempool:" + T)
		c.Inc("X_hostile_ACCEPTED_variant:" + v.name)
		x.sample(T, v.name, "mempool", true, nil)
		x.judge(T, "mempool", v.name, v.tx, l, nil)
		if !x.evict(v.tx) {
			return
		}
	}
	for _, i := range x.r.Perm(len(vars)) {
		v := vars[i]
		h := v.tx.Hash()
		c.Case(fmt.Sprintf("X:%s:%s:block:%s", T, v.name, h.String()), true)
		c.Inc("X_hostile:block:" + T)
		if _, ok := x.tryBlock(false, 0, v.tx); !ok {
			c.Inc("X_hostile_rejected:block:" + T)
			x.sample(T, v.name, "block", false, nil)
			continue
		}
		c.Inc("X_hostile_ACCEPTED:block:" + T)
		x.sample(T, v.name, "block", true, nil)
		x.judge(T, "block", v.name, v.tx, l, nil)
		break
	}
	x.mine()
}

// ---------- script "revert": RevertToDPOS (program signatures never verified) ----------

func (x *c05x) scriptRevert() {
	nd, e := x.nd, x.era
	if !x.bootstrap("claimed") {
		return
	}
	if !x.mineTo(e.ChangeCommitteeNewCR + 12) {
		return
	}
	x.enumerate(x.pickVictimsKeep())
	x.probesAny()
	x.updateVersionCases()
	for cycle := 0; cycle < 2 && !x.fatal; cycle++ {
		if nd.InPOWMode() {
			x.c.Inconclusive("X revert: node already in POW mode at height %d", nd.Height())
			return
		}
		tip := nd.TipBlock()
		rtx := node.RevertToPOWNoBlock(nd.Height() + 1)
		if err := nd.TxPool.AppendToTxPool(rtx); err != nil {
			x.c.Inconclusive("X revert: RevertToPOW refused by the mempool: %v", err)
			return
		}
		ts := tip.Timestamp + uint32(nd.Cfg.DPoSConfiguration.RevertToPOWNoBlockTime) + 1
		if _, err := nd.MineTipAt(ts, rtx); err != nil || !nd.InPOWMode() {
			x.c.Inconclusive("X revert: RevertToPOW block: %v (pow=%v)", err, nd.InPOWMode())
			return
		}
		x.c.Inc("X_switch:DPOS->POW")
		for i := 0; i < 3; i++ {
			x.mine()
		}
		T := "RevertToDPOS"
		hostile := cycle == 1
		tx, err := nd.RevertToDPOSTx(hostile)
		if err != nil {
			x.c.Inconclusive("X revert: RevertToDPOSTx: %v", err)
			return
		}
		ok, signers, need := c05xMultisigOK(tx)
		where := "mempool"
		x.c.Case(fmt.Sprintf("X:%s:%v:%s", T, hostile, tx.Hash().String()), true)
		accept := func(where string) {
			if hostile {
				x.c.Inc("X_hostile_ACCEPTED:" + where + ":" + T)
			}
			if !ok {
				x.c.Inc("X_unsigned_accepts")
				x.c.Violate("unverified-multisig:"+T+":"+where,
					fmt.Sprintf("height %d: the %s accepted a RevertToDPOS whose arbiter program needs %d signatures but carries %d valid ones over the unsigned transaction", nd.Height(), where, need, signers),
					map[string]interface{}{"type": T, "where": where, "m": need, "valid_signers": signers, "tx": c05xTxHex(tx)})
			}
		}
		if hostile {
			x.c.Inc("X_hostile:mempool:" + T)
		}
		if err := nd.TxPool.AppendToTxPool(tx); err != nil {
			if hostile {
				x.c.Inc("X_hostile_rejected:mempool:" + T)
				x.c.Inc("X_reject_reason:" + T + ":" + c05xReason(err))
			} else {
				x.c.Note("X revert: honest RevertToDPOS refused by the mempool: %v", err)
			}
		} else {
			if !hostile {
				x.c.Inc("X_honest_instance_accepted:mempool:" + T)
			}
			accept(where)
		}
		where = "block"
		if hostile {
			x.c.Inc("X_hostile:block:" + T)
		}
		b, okb := x.tryBlock(true, common2.RevertToDPOS, tx)
		if okb && c05xHas(b, tx.Hash()) {
			if !hostile {
				x.c.Inc("X_honest_instance_accepted:block:" + T)
			}
			accept(where)
		} else if hostile {
			x.c.Inc("X_hostile_rejected:block:" + T)
			// finish the cycle honestly
			good, err := nd.RevertToDPOSTx(false)
			if err == nil {
				if b, okb := x.tryBlock(true, common2.RevertToDPOS, good); okb && c05xHas(b, good.Hash()) {
					x.c.Inc("X_honest_instance_accepted:block:" + T)
				}
			}
		} else {
			x.c.Note("X revert: honest RevertToDPOS block refused at height %d", nd.Height()+1)
		}
		for i := 0; i < 20 && nd.InPOWMode(); i++ {
			x.mine()
		}
		if nd.InPOWMode() {
			x.c.Note("X revert: still in POW mode at height %d after cycle %d", nd.Height(), cycle)
			return
		}
		x.c.Inc("X_switch:POW->DPOS")
		x.mineTo(nd.Height() + 8)
	}
}

// updateVersionTx builds an UpdateVersion transaction authorised by the M-of-N
// multisig of the current CRC arbiters' node keys (M = N*2/3+1), with genuine
// signatures of the harness-held keys or with forged ones.
func (x *c05x) updateVersionTx(forged bool, start uint32) (interfaces.Transaction, error) {
	var pks []*crypto.PublicKey
	var accs []*account.Account
	for _, a := range x.nd.Arbiters.GetCRCArbiters() {
		pk, err := crypto.DecodePoint(a.NodePublicKey)
		if err != nil {
			return nil, err
		}
		pks = append(pks, pk)
		if acc := node.KeyByPub(a.NodePublicKey); acc != nil {
			accs = append(accs, acc)
		}
	}
	n := len(pks)
	m := int(float64(n)*2/3) + 1
	if n == 0 || len(accs) < m {
		return nil, fmt.Errorf("%d CRC arbiters, %d keys held, need %d", n, len(accs), m)
	}
	code, err := contract.CreateMultiSigRedeemScript(m, pks)
	if err != nil {
		return nil, err
	}
	nonce := make([]byte, 8)
	x.r.Read(nonce)
	tx := functions.CreateTransaction(common2.TxVersion09, common2.UpdateVersion, 0, &payload.UpdateVersion{StartHeight: start, EndHeight: start + 10 + uint32(x.r.Intn(50))},
		[]*common2.Attribute{{Usage: common2.Nonce, Data: nonce}}, []*common2.Input{}, []*common2.Output{}, 0, []*pg.Program{})
	data := c05Serialize(tx)
	var param []byte
	for i := 0; i < m; i++ {
		var sig []byte
		if forged {
			sig = make([]byte, 64)
			x.r.Read(sig)
		} else if sig, err = crypto.Sign(accs[i].PrivKey(), data); err != nil {
			return nil, err
		}
		param = append(param, byte(len(sig)))
		param = append(param, sig...)
	}
	tx.SetPrograms([]*pg.Program{{Code: code, Parameter: param}})
	return tx, nil
}

// updateVersionCases: like RevertToDPOS, UpdateVersion is authorised by an
// arbiter multisig program and ends its context check in SpecialContextCheck.
func (x *c05x) updateVersionCases() {
	nd, c := x.nd, x.c
	T := "UpdateVersion"
	for _, forged := range []bool{true, false} {
		tx, err := x.updateVersionTx(forged, nd.Height()+5)
		if err != nil {
			c.Note("X revert: UpdateVersion not built: %v", err)
			return
		}
		ok, signers, need := c05xMultisigOK(tx)
		if ok == forged {
			c.Inconclusive("X revert: model verdict %v for a forged=%v UpdateVersion program", ok, forged)
			return
		}
		h := tx.Hash()
		c.Case(fmt.Sprintf("X:%s:%v:%s", T, forged, h.String()), true)
		accept := func(where string) {
			if !forged {
				c.Inc("X_honest_instance_accepted:" + where + ":" + T)
				return
			}
			c.Inc("X_hostile_ACCEPTED:" + where + ":" + T)
			c.Inc("X_unsigned_accepts")
			c.Violate("unverified-multisig:"+T+":"+where,
				fmt.Sprintf("height %d: the %s accepted an UpdateVersion whose CRC arbiter program needs %d signatures but carries %d valid ones over the unsigned transaction", nd.Height(), where, need, signers),
				map[string]interface{}{"type": T, "where": where, "m": need, "valid_signers": signers, "tx": c05xTxHex(tx)})
		}
		if forged {
			c.Inc("X_hostile:mempool:" + T)
		}
		if err := nd.TxPool.AppendToTxPool(tx); err != nil {
			if forged {
				c.Inc("X_hostile_rejected:mempool:" + T)
				c.Inc("X_reject_reason:" + T + ":" + c05xReason(err))
			} else {
				c.Note("X revert: honest UpdateVersion refused by the mempool: %v", err)
			}
		} else {
			accept("mempool")
			if !x.evict(tx) {
				return
			}
		}
		if forged {
			c.Inc("X_hostile:block:" + T)
		}
		if b, okb := x.tryBlock(true, common2.UpdateVersion, tx); okb && c05xHas(b, h) {
			accept("block")
		} else if forged {
			c.Inc("X_hostile_rejected:block:" + T)
		} else {
			c.Note("X revert: honest UpdateVersion block refused at height %d", nd.Height()+1)
		}
	}
}

// c05xMultisigOK: does program[0] of tx carry signatures of at least m
// distinct script keys over the unsigned transaction (model verifier).
func c05xMultisigOK(tx interfaces.Transaction) (bool, int, int) {
	p := tx.Programs()[0]
	s, m, ok := mMultisigSigners(p.Code, p.Parameter, c05Serialize(tx), p.Code[len(p.Code)-1])
	return ok && m >= 1 && s >= m, s, m
}

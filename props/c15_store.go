package props

import (
	"bytes"
	"fmt"
	"math/big"
	"math/rand"
	"sort"

	"github.com/elastos/Elastos.ELA/blockchain"
	"github.com/elastos/Elastos.ELA/common"
	pg "github.com/elastos/Elastos.ELA/core/contract/program"
	"github.com/elastos/Elastos.ELA/core/types"
	common2 "github.com/elastos/Elastos.ELA/core/types/common"
	"github.com/elastos/Elastos.ELA/core/types/functions"
	"github.com/elastos/Elastos.ELA/core/types/interfaces"
	"github.com/elastos/Elastos.ELA/core/types/outputpayload"
	"github.com/elastos/Elastos.ELA/core/types/payload"

	"verif/kit/node"
)

// Store-level sub-workload. Transactions without outputs (payload-only types:
// record, activate producer, illegal evidence, next-turn info ...) or without
// inputs cannot be put into a block in the proof-of-work era through
// ProcessBlock (their context checks need DPoS/CR state). The caches in front
// of the tx index do not care about validity, so these shapes are driven
// through ChainStore.SaveBlock / RollbackBlock directly, exactly the calls
// connectBlock / disconnectBlock make, on top of the live node's tip and always
// unwound (LIFO). The UTXO cache is cleaned around every rollback as
// reorganizeChain does. After every push and pop the cached lookups (FetchTx
// via ChainStore.GetTransaction, UTXOCache.GetTransaction / GetTxReference,
// GetBlock) are compared with the uncached paths and the model.

type c15SU struct {
	op  common2.OutPoint
	val common.Fixed64
	ph  common.Uint168
}

type c15Frame struct {
	blk         *types.Block
	n           *blockchain.BlockNode
	cf          *payload.Confirm
	availBefore []c15SU
	zeroOut     int
	zeroIn      int
}

type c15StoreRun struct {
	e      *c15Env
	r      *rand.Rand
	base   []*types.Block
	tipN   *blockchain.BlockNode
	tipB   *types.Block
	avail  []c15SU
	frames []*c15Frame
	// zero-output txs that were connected before (re-used at other heights)
	poolZero []interfaces.Transaction
	touched  map[common.Uint256]bool // txids pushed/popped in the current walk
	order    []common.Uint256
}

func (s *c15StoreRun) nonceAttr() []*common2.Attribute {
	nb := make([]byte, 8)
	s.r.Read(nb)
	a := common2.NewAttribute(common2.Nonce, nb)
	return []*common2.Attribute{&a}
}

func c15Out0(ph common.Uint168, v common.Fixed64) *common2.Output {
	return &common2.Output{Value: v, ProgramHash: ph, Type: common2.OTNone, Payload: &outputpayload.DefaultOutput{}}
}

func (s *c15StoreRun) take(n int) []c15SU {
	var us []c15SU
	for i := 0; i < n && len(s.avail) > 0; i++ {
		j := s.r.Intn(len(s.avail))
		if s.r.Intn(2) == 0 { // prefer recent outputs
			j = len(s.avail) - 1 - s.r.Intn(minInt(4, len(s.avail)))
		}
		us = append(us, s.avail[j])
		s.avail = append(s.avail[:j:j], s.avail[j+1:]...)
	}
	return us
}

func insOfSU(us []c15SU) (ins []*common2.Input, tot common.Fixed64) {
	for _, u := range us {
		ins = append(ins, &common2.Input{Previous: u.op})
		tot += u.val
	}
	return
}

// mkTx builds one synthetic transaction of the given shape.
func (s *c15StoreRun) mkTx(kind string) interfaces.Transaction {
	r := s.r
	dummy := []*pg.Program{{Code: []byte{1}, Parameter: []byte{1}}}
	ph := node.Key(c15Accts[r.Intn(len(c15Accts))]).ProgramHash
	switch kind {
	case "record": // payload-only: no inputs, no outputs
		c := make([]byte, 1+r.Intn(12))
		r.Read(c)
		return functions.CreateTransaction(common2.TxVersion09, common2.Record, 0, &payload.Record{Type: "c15", Content: c},
			s.nonceAttr(), nil, nil, 0, []*pg.Program{})
	case "plain": // a transfer shell without inputs and outputs
		return functions.CreateTransaction(common2.TxVersionDefault, common2.TransferAsset, 0, &payload.TransferAsset{},
			[]*common2.Attribute{}, []*common2.Input{}, []*common2.Output{}, r.Uint32(), []*pg.Program{})
	case "burn": // inputs, no outputs
		us := s.take(1 + r.Intn(2))
		if len(us) == 0 {
			return s.mkTx("record")
		}
		ins, _ := insOfSU(us)
		return functions.CreateTransaction(common2.TxVersion09, common2.TransferAsset, 0, &payload.TransferAsset{},
			s.nonceAttr(), ins, nil, 0, dummy)
	case "reuse-zero": // a zero-output tx that was connected (and disconnected) before
		if len(s.poolZero) == 0 {
			return s.mkTx("plain")
		}
		return s.poolZero[r.Intn(len(s.poolZero))]
	case "mint": // outputs, no inputs
		var outs []*common2.Output
		for i := 0; i < 1+r.Intn(2); i++ {
			outs = append(outs, c15Out0(ph, common.Fixed64(1000+r.Intn(100000))))
		}
		return functions.CreateTransaction(common2.TxVersion09, common2.TransferAsset, 0, &payload.TransferAsset{},
			s.nonceAttr(), nil, outs, 0, dummy)
	default: // transfer
		us := s.take(1 + r.Intn(2))
		if len(us) == 0 {
			return s.mkTx("mint")
		}
		ins, tot := insOfSU(us)
		n := 1 + r.Intn(3)
		var outs []*common2.Output
		for i := 0; i < n; i++ {
			v := tot / common.Fixed64(n)
			if r.Intn(8) == 0 {
				v = 0
			}
			outs = append(outs, c15Out0(ph, v))
		}
		return functions.CreateTransaction(common2.TxVersion09, common2.TransferAsset, 0, &payload.TransferAsset{},
			s.nonceAttr(), ins, outs, 0, dummy)
	}
}

var c15StoreKinds = []string{"record", "plain", "burn", "reuse-zero", "mint", "transfer", "transfer", "record"}

func (s *c15StoreRun) setModel() {
	e := s.e
	chain := append([]*types.Block(nil), s.base...)
	for _, f := range s.frames {
		chain = append(chain, f.blk)
	}
	m := e.modelOf(chain)
	e.mu.Lock()
	e.m = m
	e.mu.Unlock()
}

func (s *c15StoreRun) touch(b *types.Block) {
	for _, tx := range b.Transactions {
		ids := []common.Uint256{tx.Hash()}
		if !tx.IsCoinBaseTx() {
			for _, in := range tx.Inputs() {
				ids = append(ids, in.Previous.TxID)
			}
		}
		for _, id := range ids {
			if !s.touched[id] {
				s.touched[id] = true
				s.order = append(s.order, id)
			}
		}
	}
}

func (s *c15StoreRun) push() bool {
	e, c, r := s.e, s.e.c, s.r
	f := &c15Frame{availBefore: append([]c15SU(nil), s.avail...)}
	h := s.tipB.Height + 1
	cb := e.nd.CoinbaseTx(e.nd.Miner.Address, h, r.Uint64()|1)
	cb.Outputs()[0].Value, cb.Outputs()[1].Value = 100, 200
	txs := []interfaces.Transaction{cb}
	seen := map[common.Uint256]bool{}
	label := ""
	for i, k := 0, 1+r.Intn(5); i < k; i++ {
		kind := c15StoreKinds[r.Intn(len(c15StoreKinds))]
		tx := s.mkTx(kind)
		if seen[tx.Hash()] {
			continue
		}
		if _, on := e.m.txH[tx.Hash()]; on { // already connected further down the stack
			continue
		}
		seen[tx.Hash()] = true
		txs = append(txs, tx)
		label += kind + " "
		if len(tx.Outputs()) == 0 {
			f.zeroOut++
		}
		if len(tx.Inputs()) == 0 {
			f.zeroIn++
		}
	}
	blk := &types.Block{Header: common2.Header{Previous: s.tipB.Hash(), Timestamp: s.tipB.Timestamp + 1,
		Bits: e.nd.Cfg.PowConfiguration.PowLimitBits, Height: h, Nonce: r.Uint32()}, Transactions: txs}
	if err := node.Seal(blk, false); err != nil {
		c.Note("store level: seal: %v", err)
		s.avail = f.availBefore
		return false
	}
	hash := blk.Hash()
	n := blockchain.NewBlockNode(&blk.Header, &hash)
	n.Parent = s.tipN
	n.WorkSum = new(big.Int).Add(s.tipN.WorkSum, n.WorkSum)
	if r.Intn(2) == 0 {
		f.cf = e.fabricateConfirm(blk)
	}
	f.blk, f.n = blk, n
	e.learnBlock(blk, f.cf)
	if len(txs) > e.maxBlockTxs {
		e.maxBlockTxs = len(txs)
	}
	c.Begin("C15 store push h=%d %s", h, label)
	if err := e.nd.Store.SaveBlock(blk, n, f.cf, blockchain.CalcPastMedianTime(n.Parent)); err != nil {
		c.Inc("s_save_errors")
		c.Note("store level: SaveBlock(%s) failed: %v", label, err)
		s.avail = f.availBefore
		return false
	}
	for _, tx := range txs {
		for i, o := range tx.Outputs() {
			s.avail = append(s.avail, c15SU{op: common2.OutPoint{TxID: tx.Hash(), Index: uint16(i)}, val: o.Value, ph: o.ProgramHash})
		}
	}
	s.frames = append(s.frames, f)
	s.tipN, s.tipB = n, blk
	s.touch(blk)
	s.setModel()
	c.Inc("s_pushes")
	c.Count("s_zero_output_txs_connected", int64(f.zeroOut))
	c.Count("s_zero_input_txs_connected", int64(f.zeroIn))
	return true
}

func (s *c15StoreRun) pop() bool {
	e, c := s.e, s.e.c
	f := s.frames[len(s.frames)-1]
	c.Begin("C15 store pop h=%d", f.blk.Height)
	// reorganizeChain cleans the UTXO cache around the disconnects
	e.uc.CleanCache()
	err := e.nd.Store.RollbackBlock(f.blk, f.n, f.cf, blockchain.CalcPastMedianTime(f.n.Parent))
	e.uc.CleanCache()
	if err != nil {
		c.Inconclusive("store level: RollbackBlock of a saved block failed: %v", err)
		return false
	}
	s.frames = s.frames[:len(s.frames)-1]
	s.tipN = f.n.Parent
	if len(s.frames) > 0 {
		s.tipB = s.frames[len(s.frames)-1].blk
	} else {
		s.tipB = s.base[len(s.base)-1]
	}
	s.avail = f.availBefore
	for _, tx := range f.blk.Transactions[1:] {
		if len(tx.Outputs()) == 0 && len(tx.Inputs()) == 0 { // (a burn cannot be connected twice: its inputs may be gone)
			s.poolZero = append(s.poolZero, tx)
		}
	}
	s.setModel()
	c.Inc("s_pops")
	c.Count("s_zero_output_txs_rolled_back", int64(f.zeroOut))
	c.Count("s_zero_input_txs_rolled_back", int64(f.zeroIn))
	return true
}

// check compares every cache with its uncached source for everything the
// current walk touched.
func (s *c15StoreRun) check(r *rand.Rand) {
	e := s.e
	for _, id := range s.order {
		e.mu.RLock()
		tx := e.txs[id]
		_, on := e.m.txH[id]
		e.mu.RUnlock()
		if tx != nil && !on {
			if len(tx.Outputs()) == 0 {
				e.c.Inc("s_zero_output_probes_after_rollback")
			}
			if len(tx.Inputs()) == 0 {
				e.c.Inc("s_zero_input_probes_after_rollback")
			}
		}
		e.lookupIdxTx(id, true)
		e.lookupUCTx(id, true)
		e.lookupIdxTx(id, true) // second read: whatever the first one cached
	}
	for i := 0; i < 4; i++ {
		e.lookupRef(e.genProbe(r, s.order), true)
	}
	e.mu.RLock()
	nb := len(e.blockIDs)
	var bids []common.Uint256
	for i := 0; i < 3 && i < nb; i++ {
		bids = append(bids, e.blockIDs[nb-1-i])
	}
	e.mu.RUnlock()
	for _, h := range bids {
		e.checkBlock(h, true)
		e.checkBlock(h, true)
	}
}

func (e *c15Env) storeLevel(r *rand.Rand) {
	c := e.c
	if !e.refreshModel() {
		return
	}
	s := &c15StoreRun{e: e, r: r, base: append([]*types.Block(nil), e.m.chain...), tipN: e.nd.Chain.BestChain, tipB: e.m.tip()}
	if s.tipN == nil || *s.tipN.Hash != s.tipB.Hash() {
		c.Inconclusive("store level: best chain node and model tip differ")
		return
	}
	type kv struct {
		k node.OutKey
		o c15Out
	}
	var all []kv
	for k, o := range e.m.unspent {
		if o.val > 0 && !o.coinbase {
			all = append(all, kv{k, o})
		}
	}
	sort.Slice(all, func(i, j int) bool {
		if all[i].o.height != all[j].o.height {
			return all[i].o.height < all[j].o.height
		}
		if c := bytes.Compare(all[i].k.TxID[:], all[j].k.TxID[:]); c != 0 {
			return c < 0
		}
		return all[i].k.Index < all[j].k.Index
	})
	for _, a := range all {
		s.avail = append(s.avail, c15SU{op: common2.OutPoint{TxID: a.k.TxID, Index: a.k.Index}, val: a.o.val})
	}
	walks := c.N(8, 60)
	for w := 0; w < walks; w++ {
		s.touched, s.order = map[common.Uint256]bool{}, nil
		maxDepth := 1 + r.Intn(4)
		ops := maxDepth + r.Intn(2*maxDepth+1)
		for o := 0; o < ops; o++ {
			if len(s.frames) < maxDepth && (len(s.frames) == 0 || r.Intn(3) != 0) {
				if !s.push() {
					continue
				}
			} else if len(s.frames) > 0 {
				if !s.pop() {
					return
				}
			}
			s.check(r)
		}
		for len(s.frames) > 0 { // always unwound
			if !s.pop() {
				return
			}
			s.check(r)
		}
		c.Case(fmt.Sprintf("s:walk:%d:%d", maxDepth, len(s.order)), len(s.order) > 0)
		c.Inc("s_walks")
	}
	e.refreshModel()
}

package props

import (
	"bytes"
	"crypto/sha256"
	"encoding/hex"
	"encoding/json"
	"fmt"
	"math/rand"
	"net/http/httptest"
	"path/filepath"
	"sort"
	"strings"
	"time"

	"github.com/elastos/Elastos.ELA/auxpow"
	"github.com/elastos/Elastos.ELA/blockchain"
	"github.com/elastos/Elastos.ELA/common"
	"github.com/elastos/Elastos.ELA/common/config"
	"github.com/elastos/Elastos.ELA/common/log"
	common2 "github.com/elastos/Elastos.ELA/core/types/common"
	"github.com/elastos/Elastos.ELA/elanet"
	"github.com/elastos/Elastos.ELA/elanet/pact"
	"github.com/elastos/Elastos.ELA/p2p/msg"
	svr "github.com/elastos/Elastos.ELA/p2p/server"
	"github.com/elastos/Elastos.ELA/servers"
	"github.com/elastos/Elastos.ELA/servers/httpjsonrpc"

	"verif/kit"
	"verif/kit/node"
)

// Workload B — service levels.
//
// Model (independent of servers.checkRPCServiceLevel): the five level names in
// their documented order; a privileged class K (settings 0, mining 1, submit 2,
// wallet 3) is forbidden at configured level index L iff K < L.
//
// Oracle (i): a method of the property's category table called at a level that
// forbids one of its classes must answer the server's service-level refusal,
// for every parameter set.
// Oracle (ii): black box, for EVERY registered method: at a level that forbids
// a class, the node state that class could change must be identical before and
// after the call (at QueryOnly: all monitored state).

var c36Levels = []string{"ConfigurationPermitted", "MiningPermitted", "TransactionPermitted", "WalletPermitted", "QueryOnly"}

const (
	c36Settings = 0
	c36Mining   = 1
	c36Submit   = 2
	c36Wallet   = 3
)

var c36ClassName = []string{"settings", "mining", "submit", "wallet"}

// category table from the property statement
var c36Category = map[string][]int{
	"createauxblock":             {c36Mining},
	"submitauxblock":             {c36Mining},
	"discretemining":             {c36Mining},
	"togglemining":               {c36Mining, c36Settings},
	"sendrawtransaction":         {c36Submit},
	"submitsidechainillegaldata": {c36Submit},
	"setloglevel":                {c36Settings},
	"getutxosbyamount":           {c36Wallet},
	"getamountbyinputs":          {c36Wallet},
	"listunspent":                {c36Wallet},
	"createrawtransaction":       {c36Wallet},
	"signrawtransactionwithkey":  {c36Wallet},
	"decoderawtransaction":       {c36Wallet},
}

// state components a class of privileged operation can change
var c36Effects = map[int][]string{
	c36Settings: {"loglevel", "config", "mining"},
	c36Mining:   {"height", "tip", "auxpool", "mining"},
	c36Submit:   {"mempool", "relay"},
	c36Wallet:   {},
}

func c36Forbids(level, class int) bool { return class < level }

// c36Net stands in for the p2p server main.go wires into servers.Server.
// Methods not listed here hit the embedded nil interface and panic (counted).
type c36Net struct {
	elanet.Server
	relays, ops int64
}

func (s *c36Net) ConnectedPeers() []svr.IPeer                      { return nil }
func (s *c36Net) PersistentPeers() []svr.IPeer                     { return nil }
func (s *c36Net) ConnectedCount() int32                            { return 0 }
func (s *c36Net) Services() pact.ServiceFlag                       { return pact.SFNodeNetwork }
func (s *c36Net) IsCurrent() bool                                  { return true }
func (s *c36Net) RelayInventory(iv *msg.InvVect, data interface{}) { s.relays++ }
func (s *c36Net) Start()                                           { s.ops++ }
func (s *c36Net) Stop() error                                      { s.ops++; return nil }
func (s *c36Net) ScheduleShutdown(time.Duration)                   { s.ops++ }
func (s *c36Net) Connect(string, bool) error                       { s.ops++; return nil }
func (s *c36Net) RemoveByID(uint64) error                          { s.ops++; return nil }
func (s *c36Net) RemoveByAddr(string) error                        { s.ops++; return nil }
func (s *c36Net) DisconnectByID(uint64) error                      { s.ops++; return nil }
func (s *c36Net) DisconnectByAddr(string) error                    { s.ops++; return nil }
func (s *c36Net) NewPeer(svr.IPeer) bool                           { s.ops++; return false }
func (s *c36Net) DonePeer(svr.IPeer)                               { s.ops++ }

type c36Env struct {
	c     *kit.Ctx
	nd    *node.Node
	lg    *log.Logger
	net   *c36Net
	r     *rand.Rand
	utxos []node.UTXORef
	next  int
	fund  common.Uint256
	sink  map[string]interface{}
}

type c36Reply struct {
	ID     interface{} `json:"id"`
	Result interface{} `json:"result"`
	Error  *struct {
		Code    int64       `json:"code"`
		Message interface{} `json:"message"`
	} `json:"error"`
}

func (rp *c36Reply) levelRefusal() bool {
	if rp.Error == nil {
		return false
	}
	m, _ := rp.Error.Message.(string)
	return rp.Error.Code == 42001 && strings.Contains(m, "service level")
}

// post sends one JSON-RPC body through the real Handle from loopback.
func (e *c36Env) post(body []byte) (status int, raw []byte, panicked bool, pv interface{}, stack string) {
	req := httptest.NewRequest("POST", "/", bytes.NewReader(body))
	req.RemoteAddr = "127.0.0.1:50000"
	req.Header.Set("Content-Type", "application/json")
	rec := httptest.NewRecorder()
	panicked, pv, stack = kit.Guard(func() { httpjsonrpc.Handle(rec, req) })
	return rec.Code, rec.Body.Bytes(), panicked, pv, stack
}

func (e *c36Env) snapshot() map[string]string {
	s := map[string]string{}
	s["height"] = fmt.Sprint(e.nd.Chain.GetHeight())
	s["tip"] = e.nd.Chain.GetCurrentBlockHash().String()
	var txs []string
	for _, tx := range e.nd.TxPool.GetTxsInPool() {
		txs = append(txs, tx.Hash().String())
	}
	sort.Strings(txs)
	s["mempool"] = strings.Join(txs, ",")
	s["loglevel"] = fmt.Sprint(uint8(e.lg.Level()))
	started, discrete, aux, cur := e.nd.Pow.VerifState()
	s["mining"] = fmt.Sprint(started, discrete)
	var hs []string
	for _, h := range aux {
		hs = append(hs, h.String())
	}
	sort.Strings(hs)
	s["auxpool"] = fmt.Sprint(cur, hs)
	cfg, err := json.Marshal(e.nd.Cfg)
	if err != nil {
		cfg = []byte("marshal error: " + err.Error())
	}
	sum := sha256.Sum256(cfg)
	s["config"] = hex.EncodeToString(sum[:8])
	s["relay"] = fmt.Sprint(e.net.relays)
	s["netops"] = fmt.Sprint(e.net.ops)
	return s
}

func c36Diff(a, b map[string]string, keys []string) []string {
	var d []string
	for _, k := range keys {
		if a[k] != b[k] {
			d = append(d, k)
		}
	}
	return d
}

var c36AllKeys = []string{"height", "tip", "mempool", "loglevel", "mining", "auxpool", "config", "relay", "netops"}

func c36Hex(b []byte) string { return hex.EncodeToString(b) }

// freshTx returns a new valid signed transfer that the mempool would accept.
func (e *c36Env) freshTx() (string, common.Uint256) {
	if e.next >= len(e.utxos) {
		return "", common.Uint256{}
	}
	u := e.utxos[e.next]
	e.next++
	fee := common.Fixed64(1000 + e.r.Intn(500))
	tx := node.Transfer([]node.UTXORef{u}, []node.Out{{To: node.Key(3 + e.r.Intn(4)).ProgramHash, Value: u.Value - fee}}, common2.TxVersion09)
	buf := new(bytes.Buffer)
	tx.Serialize(buf)
	return c36Hex(buf.Bytes()), tx.Hash()
}

// potentAux prepares (directly on the pow service, as a merge-mining pool
// that was served earlier would have) a block in the aux pool plus a valid
// aux-pow for it, so that submitauxblock WOULD extend the chain if it ran.
func (e *c36Env) potentAux() (hash, auxHex string, ok bool) {
	blk, err := e.nd.Pow.CreateAuxBlock(node.Key(1).Address)
	if err != nil || blk == nil {
		return "", "", false
	}
	h := blk.Hash()
	ap := auxpow.GenerateAuxPow(h)
	target := blockchain.CompactToBig(blk.Header.Bits)
	for i := uint32(0); i < 1<<26; i++ {
		ap.ParBlockHeader.Nonce = i
		ph := ap.ParBlockHeader.Hash()
		if blockchain.HashToBig(&ph).Cmp(target) <= 0 {
			buf := new(bytes.Buffer)
			if err := ap.Serialize(buf); err != nil {
				return "", "", false
			}
			return h.String(), c36Hex(buf.Bytes()), true
		}
	}
	return "", "", false
}

func (e *c36Env) buildSink(txHex string) map[string]interface{} {
	k2 := node.Key(2)
	addr := k2.Address
	tipRev := common.ToReversedString(e.nd.Chain.GetCurrentBlockHash())
	fundRev := common.ToReversedString(e.fund)
	pub, _ := k2.PublicKey.EncodePoint(true)
	inBuf := new(bytes.Buffer)
	common.WriteVarUint(inBuf, 1)
	(&common2.Input{Previous: common2.OutPoint{TxID: e.fund, Index: 0}}).Serialize(inBuf)
	junk := make([]byte, 40)
	e.r.Read(junk)
	return map[string]interface{}{
		"txid": fundRev, "hash": fundRev, "verbose": true, "level": float64(e.r.Intn(5)), "paytoaddress": node.Key(1).Address,
		"blockhash": tipRev, "auxpow": c36Hex(junk), "illegaldata": c36Hex(junk), "start": 0, "limit": 10, "stakeaddress": addr,
		"publickey": c36Hex(pub), "ownerpublickey": c36Hex(pub), "id": c36Hex(junk[:32]), "ids": []string{c36Hex(junk[:32])},
		"genesisblockhash": e.nd.Cfg.GenesisBlock.Hash().String(), "stakeaddresses": []string{addr}, "mining": true, "count": 1,
		"state": "all", "verbosity": 2, "data": txHex, "height": 1 + e.r.Intn(int(e.nd.Chain.GetHeight())), "addr": addr, "address": addr,
		"amount": "1", "utxotype": "mixed", "inputs": c36Hex(inBuf.Bytes()), "addresses": []string{addr, node.Key(0).Address},
		"outputs": fmt.Sprintf(`[{"address":"%s","amount":"1.5"}]`, addr), "locktime": 0,
		"codes": fmt.Sprintf(`["%s"]`, c36Hex(k2.RedeemScript)), "privkeys": fmt.Sprintf(`["%s"]`, c36Hex(k2.PrivKey())),
		"txs": []string{e.fund.String()}, "proposalhash": c36Hex(junk[:32]), "drafthash": c36Hex(junk[:32]), "confirmations": 1,
	}
}

// positional parameter layouts (JSON-RPC 1.0 style) for methods that support them
var c36Positional = map[string][]string{
	"createauxblock": {"paytoaddress"}, "submitauxblock": {"blockhash", "auxpow"}, "getblockhash": {"height"}, "getblock": {"blockhash", "verbosity"},
	"setloglevel": {"level"}, "getrawtransaction": {"txid", "verbose"}, "getarbitratorgroupbyheight": {"height"}, "togglemining": {"mining"},
	"discretemining": {"count"}, "sendrawtransaction": {"data"}, "listunspent": {"addresses"}, "getreceivedbyaddress": {"address"},
	"getblockbyheight": {"height"}, "estimatesmartfee": {"confirmations"}, "getrawmempool": {"state"},
}

type c36Call struct {
	Method string      `json:"method"`
	Level  string      `json:"level"`
	Set    string      `json:"param_set"`
	Params interface{} `json:"params"`
	Reply  string      `json:"reply,omitempty"`
}

// params builds the parameter object for (method, set); potent=true means the
// call would have its privileged effect if it were allowed to run.
func (e *c36Env) params(m, set string, sink map[string]interface{}) interface{} {
	p := map[string]interface{}{}
	for k, v := range sink {
		p[k] = v
	}
	switch m {
	case "createrawtransaction":
		p["inputs"] = fmt.Sprintf(`[{"txid":"%s","vout":1}]`, common.ToReversedString(e.fund))
	case "submitauxblock":
		if h, a, ok := e.potentAux(); ok {
			p["blockhash"], p["auxpow"] = h, a
		}
	case "sendrawtransaction":
		if set == "mutated" || set == "positional" { // the level's sink tx may already be pooled; use a fresh one
			if h, _ := e.freshTx(); h != "" {
				p["data"] = h
			}
		}
	}
	switch set {
	case "sink":
		return p
	case "empty":
		return map[string]interface{}{}
	case "none":
		return nil
	case "positional":
		fields := c36Positional[m]
		arr := []interface{}{}
		for _, f := range fields {
			arr = append(arr, p[f])
		}
		return arr
	default: // "mutated": random subset, some type confusion, numbers as strings
		q := map[string]interface{}{}
		for _, k := range c36SortedKeys(p) {
			v := p[k]
			switch e.r.Intn(8) {
			case 0:
				continue
			case 1:
				switch x := v.(type) {
				case int:
					v = fmt.Sprint(x)
				case float64:
					v = fmt.Sprint(int(x))
				case string:
					v = []string{x}
				case bool:
					// never flipped: togglemining(false) is `go Pow.Halt()`, whose
					// completion is unobservable and could race with a later
					// togglemining(true); the harness stops the miner itself
					_ = x
				}
			case 2:
				if _, ok := v.(int); ok {
					v = e.r.Intn(1000)
				}
			}
			q[k] = v
		}
		return q
	}
}

func c36SortedKeys(m map[string]interface{}) []string {
	ks := make([]string, 0, len(m))
	for k := range m {
		ks = append(ks, k)
	}
	sort.Strings(ks)
	return ks
}

func c36ServiceLevels(c *kit.Ctx, nd *node.Node) {
	e := &c36Env{c: c, nd: nd, net: &c36Net{}, r: c.Rand("c36-levels")}
	// sanity: the model's level names are the ones the configuration knows
	for i, n := range c36Levels {
		// (how the configured NAME is parsed is not a precondition: the sweep below configures every
		// level by its name and judges what the server then serves)
		if config.RPCServiceLevel(i).String() != n {
			c.Inconclusive("service level names changed: index %d is %q, model has %q", i, config.RPCServiceLevel(i).String(), n)
			return
		}
	}
	// own handle on the process logger so that the level is observable
	e.lg = log.NewDefault(filepath.Join(c.WorkDir, "logs-c36"), 5, 0, 0)

	// wire servers.* as main.go does
	servers.Compile = "verif"
	servers.ChainParams = nd.Cfg
	servers.Chain = nd.Chain
	servers.Store = nd.Store
	servers.TxMemPool = nd.TxPool
	servers.Server = e.net
	servers.Arbiters = nd.Arbiters
	servers.Pow = nd.Pow
	nd.Cfg.RpcConfiguration = config.RpcConfiguration{}
	savedLevel := nd.Cfg.RPCServiceLevel
	defer func() { nd.Cfg.RPCServiceLevel = savedLevel }()

	// fund spendable outputs
	if err := nd.MineN(int(nd.Cfg.PowConfiguration.CoinbaseMaturity) + 1); err != nil {
		c.Inconclusive("mining: %v", err)
		return
	}
	g := nd.GenesisUTXO()
	nOut := 200
	per := common.Fixed64(10 * 1e8)
	var outs []node.Out
	for i := 0; i < nOut; i++ {
		outs = append(outs, node.Out{To: node.Key(2).ProgramHash, Value: per})
	}
	outs = append(outs, node.Out{To: nd.Found.ProgramHash, Value: g.Value - per*common.Fixed64(nOut) - 10000})
	fund := node.Transfer([]node.UTXORef{g}, outs, common2.TxVersion09)
	if err := nd.TxPool.AppendToTxPool(fund); err != nil {
		c.Inconclusive("funding tx rejected: %v", err)
		return
	}
	if _, err := nd.MineTip(fund); err != nil {
		c.Inconclusive("funding block rejected: %v", err)
		return
	}
	nd.MineN(2)
	e.fund = fund.Hash()
	for i := 0; i < nOut; i++ {
		e.utxos = append(e.utxos, node.UTXORef{TxID: fund.Hash(), Index: uint16(i), Value: per, Owner: node.Key(2)})
	}

	methods := httpjsonrpc.VerifMethodNames()
	c.Max("max:B_methods_enumerated", int64(len(methods)))
	inTable := map[string]bool{}
	for _, m := range methods {
		inTable[m] = true
	}
	for m := range c36Category {
		if !inTable[m] {
			c.Inconclusive("privileged method %q of the property's category table is not registered in this build: the table must be revisited", m)
		}
	}

	rounds := c.N(1, 5)
	succeeded := map[string]bool{}
	panics := map[string]bool{}
	for round := 0; round < rounds; round++ {
		order := e.r.Perm(len(c36Levels))
		for _, L := range order {
			e.levelSweep(L, methods, round, succeeded, panics)
		}
	}
	var never []string
	for _, m := range methods {
		if !succeeded[m] {
			never = append(never, m)
		}
	}
	c.Count("B_methods_never_successful", int64(len(never)))
	if len(never) > 0 {
		c.Note("B: methods that never returned success with the generated parameters (gate/side-effect checks still applied): %v", never)
	}
	if len(panics) > 0 {
		var ps []string
		for m := range panics {
			ps = append(ps, m)
		}
		sort.Strings(ps)
		c.Note("B: handlers that panicked for some parameter set (not a C36 matter): %v", ps)
	}

	// observation only: an unknown level string is read as the most permissive level
	for _, s := range []string{"queryonly", "QueryOnly ", ""} {
		nd.Cfg.RPCServiceLevel = s
		_, raw, p, _, _ := e.post([]byte(`{"method":"getutxosbyamount","params":{},"id":1}`))
		var rp c36Reply
		if !p && json.Unmarshal(raw, &rp) == nil && !rp.levelRefusal() {
			c.Inc("B_info_unrecognised_level_string_is_permissive")
		}
	}
}

func (e *c36Env) levelSweep(L int, methods []string, round int, succeeded, panics map[string]bool) {
	c, nd := e.c, e.nd
	nd.Cfg.RPCServiceLevel = c36Levels[L]
	txHex, _ := e.freshTx()
	if txHex == "" {
		c.Note("B: ran out of funded outputs")
	}
	sink := e.buildSink(txHex)
	sets := []string{"sink", "empty", "mutated"}
	if !c.Quick() {
		sets = append(sets, "none", "mutated", "mutated", "mutated")
	}
	sweepStart := e.snapshot()
	_ = sweepStart
	var last map[string]string
	for _, m := range methods {
		msets := sets
		if _, ok := c36Positional[m]; ok {
			msets = append(append([]string{}, sets...), "positional")
		}
		classes, listed := c36Category[m]
		var forbiddenClass []string
		for _, k := range classes {
			if c36Forbids(L, k) {
				forbiddenClass = append(forbiddenClass, c36ClassName[k])
			}
		}
		// state no method may change at this level
		var frozen []string
		if L == len(c36Levels)-1 {
			frozen = c36AllKeys
		} else {
			seen := map[string]bool{}
			for k := 0; k < 4; k++ {
				if c36Forbids(L, k) {
					for _, key := range c36Effects[k] {
						if !seen[key] {
							seen[key] = true
							frozen = append(frozen, key)
						}
					}
				}
			}
		}
		for si, set := range msets {
			params := e.params(m, set, sink)
			req := map[string]interface{}{"jsonrpc": "2.0", "method": m, "id": si}
			if params != nil {
				req["params"] = params
			}
			body, _ := json.Marshal(req)
			call := c36Call{Method: m, Level: c36Levels[L], Set: set, Params: params}
			before := e.snapshot()
			c.Begin("B level=%s method=%s set=%s", c36Levels[L], m, set)
			status, raw, panicked, pv, stack := e.post(body)
			after := e.snapshot()
			last = after
			c.Inc("B_calls")
			c.Inc("B_calls_" + c36Levels[L])
			var rp c36Reply
			okReply := !panicked && status == 200 && json.Unmarshal(raw, &rp) == nil
			c.Case(fmt.Sprintf("B:%s:%s:%s:%d:%x", m, c36Levels[L], set, round, sha256.Sum256(body)), okReply)
			if len(raw) > 300 {
				call.Reply = string(raw[:300]) + "..."
			} else {
				call.Reply = string(raw)
			}
			if round == 0 && L == 0 && si == 0 && (m == "getblockcount" || m == "sendrawtransaction") {
				c.Sample(call)
			}
			refused := false
			switch {
			case panicked:
				c.Inc("B_handler_panics")
				if !panics[m] {
					panics[m] = true
					c.Note("B: %s panicked at level %s (%s params): %v | %s", m, c36Levels[L], set, pv, c36FirstRepoFrame(stack))
				}
			case !okReply:
				c.Inc("B_unparsed_replies")
			case rp.levelRefusal():
				refused = true
				c.Inc("B_level_refusals")
				c.Inc("B_level_refusals_" + c36Levels[L])
			case rp.Error == nil:
				c.Inc("B_served_success")
				succeeded[m] = true
			default:
				c.Inc("B_served_error")
			}

			// ---- oracle (i): category table ----
			if listed && len(forbiddenClass) > 0 {
				c.Inc("B_forbidden_checks")
				if !refused {
					what := "answered " + call.Reply
					if panicked {
						what = fmt.Sprintf("ran into a panic (%v)", pv)
					}
					c.Violate("level:ungated:"+m+":"+strings.Join(forbiddenClass, "+"),
						fmt.Sprintf("%s (%s) at level %s with %s params was not refused: %s", m, strings.Join(forbiddenClass, "+"), c36Levels[L], set, what), call)
				}
			}
			if listed && len(forbiddenClass) == 0 && refused {
				c.Inc("B_refused_though_permitted_by_model") // stricter than the model: allowed
			}
			// ---- oracle (ii): black-box side effects ----
			if len(frozen) > 0 {
				c.Inc("B_snapshots_compared")
				if L == len(c36Levels)-1 {
					c.Inc("B_queryonly_methods_monitored")
				}
				if d := c36Diff(before, after, frozen); len(d) > 0 {
					c.Violate("level:side-effect:"+m+":"+strings.Join(d, "+"),
						fmt.Sprintf("%s at level %s (%s params) changed %v although the level forbids it: before=%v after=%v", m, c36Levels[L], set, d, c36Pick(before, d), c36Pick(after, d)), call)
				}
			}

			// ---- potency bookkeeping (positive controls) + housekeeping ----
			if !refused && !panicked {
				d := c36Diff(before, after, c36AllKeys)
				has := func(k string) bool {
					for _, x := range d {
						if x == k {
							return true
						}
					}
					return false
				}
				switch m {
				case "setloglevel":
					if has("loglevel") {
						c.Inc("B_potent_loglevel")
					}
				case "sendrawtransaction":
					if has("mempool") && has("relay") {
						c.Inc("B_potent_mempool")
					}
				case "discretemining":
					if has("height") {
						c.Inc("B_potent_height")
					}
				case "createauxblock":
					if has("auxpool") || rp.Error == nil {
						c.Inc("B_potent_auxpool")
					}
				case "submitauxblock":
					if has("height") {
						c.Inc("B_potent_submitaux")
					}
				case "togglemining":
					if rp.Error == nil && strings.Contains(fmt.Sprint(rp.Result), "started") {
						// `go Pow.Start()`: wait for it so that it can be stopped again
						e.awaitMiner()
						c.Inc("B_potent_miningflag")
					}
				}
			}
			e.housekeeping()
		}
	}

	// batch request: every privileged method in one HTTP body
	var batch []map[string]interface{}
	var names []string
	for _, m := range methods {
		if _, ok := c36Category[m]; ok {
			batch = append(batch, map[string]interface{}{"jsonrpc": "2.0", "method": m, "id": m, "params": e.params(m, "sink", sink)})
			names = append(names, m)
		}
	}
	body, _ := json.Marshal(batch)
	before := e.snapshot()
	_, raw, panicked, _, _ := e.post(body)
	after := e.snapshot()
	var rps []c36Reply
	if !panicked && json.Unmarshal(raw, &rps) == nil && len(rps) == len(names) {
		c.Inc("B_batches")
		for i, m := range names {
			var fc []string
			for _, k := range c36Category[m] {
				if c36Forbids(L, k) {
					fc = append(fc, c36ClassName[k])
				}
			}
			if len(fc) > 0 {
				c.Inc("B_forbidden_checks")
				if !rps[i].levelRefusal() {
					c.Violate("level:ungated:"+m+":"+strings.Join(fc, "+"), fmt.Sprintf("%s inside a batch at level %s was not refused", m, c36Levels[L]), nil)
				} else {
					c.Inc("B_level_refusals")
				}
			}
		}
		if L == len(c36Levels)-1 {
			c.Inc("B_snapshots_compared")
			if d := c36Diff(before, after, c36AllKeys); len(d) > 0 {
				c.Violate("level:side-effect:batch:"+strings.Join(d, "+"), fmt.Sprintf("batch of privileged methods at QueryOnly changed %v", d), nil)
			}
		}
		for i, m := range names {
			if m == "togglemining" && rps[i].Error == nil && strings.Contains(fmt.Sprint(rps[i].Result), "started") {
				e.awaitMiner()
			}
		}
	} else {
		c.Inc("B_batch_failed")
		time.Sleep(200 * time.Millisecond)
	}
	e.housekeeping()
	last = e.snapshot()

	// deferred effects (a handler that started a goroutine): at QueryOnly nothing may move later either
	if L == len(c36Levels)-1 && last != nil {
		time.Sleep(150 * time.Millisecond)
		settled := e.snapshot()
		c.Inc("B_snapshots_compared")
		if d := c36Diff(last, settled, c36AllKeys); len(d) > 0 {
			c.Violate("level:side-effect:deferred:"+strings.Join(d, "+"),
				fmt.Sprintf("after the QueryOnly sweep the node state kept changing: %v before=%v after=%v", d, c36Pick(last, d), c36Pick(settled, d)), nil)
		}
	}
	// leave a clean mempool for the next level
	if len(nd.TxPool.GetTxsInPool()) > 0 {
		if nd.Pow != nil {
			nd.MineTip(nd.TxPool.GetTxsInPool()...)
		}
	}
	if len(nd.TxPool.GetTxsInPool()) > 0 {
		for _, tx := range nd.TxPool.GetTxsInPool() {
			nd.TxPool.RemoveTransaction(tx)
		}
	}
}

// awaitMiner waits for the `go Pow.Start()` of a served togglemining so that
// housekeeping can stop the miner again.
func (e *c36Env) awaitMiner() {
	for i := 0; i < 4000; i++ {
		if st, _, _, _ := e.nd.Pow.VerifState(); st {
			return
		}
		time.Sleep(5 * time.Millisecond)
	}
	e.c.Inconclusive("togglemining answered 'started' but the miner never came up; cannot restore a quiet node")
}

// housekeeping undoes, outside any observation window, what a permitted call
// legitimately did, so that later cases start from a quiet node.
func (e *c36Env) housekeeping() {
	if st, _, _, _ := e.nd.Pow.VerifState(); st {
		e.nd.Pow.Halt()
	}
	if e.lg.Level() != 5 {
		e.lg.SetLevel(5)
	}
	tip := e.nd.TipBlock()
	e.nd.PostBlock(tip)
}

func c36Pick(m map[string]string, keys []string) map[string]string {
	o := map[string]string{}
	for _, k := range keys {
		v := m[k]
		if len(v) > 160 {
			v = v[:160] + "..."
		}
		o[k] = v
	}
	return o
}

func c36FirstRepoFrame(stack string) string {
	lines := strings.Split(stack, "\n")
	for i, l := range lines {
		if strings.Contains(l, "Elastos.ELA/servers.") && i+1 < len(lines) {
			return strings.TrimSpace(l) + " " + strings.TrimSpace(lines[i+1])
		}
	}
	return ""
}

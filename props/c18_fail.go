package props

import (
	"crypto/sha256"
	"fmt"
	"os"
	"path/filepath"

	"github.com/elastos/Elastos.ELA/common"
	"github.com/elastos/Elastos.ELA/database"
	"github.com/elastos/Elastos.ELA/database/ffldb"
	"github.com/elastos/Elastos.ELA/utils/verifhook"
)

// C18, family "failed commit, process continues".
//
// A database with a small maximum block-file size is filled by a few commits.
// Then a commit is prepared whose blocks do not fit into the current flat file,
// so writeBlock rolls over to a new file (sometimes twice), and AFTER that
// rollover one writeData call of the commit is made to fail (short write +
// I/O error through verifhook.Partial, as a full disk would). The commit has
// to fail, blockStore.handleRollback runs with the write cursor on a newer file
// than the rollback point, and the process keeps using the same database
// object:
//   1. every block stored before must still read back byte-for-byte through
//      FetchBlock / FetchBlockHeader / FetchBlockRegion(s) (no reopen);
//      the blocks of the failed commit must be absent;
//   2. the same blocks are stored again and further commits (including another
//      rollover) are made; everything is read again;
//   3. close, reopen, everything is read again.
// The failing writeData call is enumerated: every call after the rollover
// (network / length / payload / checksum of every block from the rolling block
// on), with prefix lengths 0, 1, len-1 and len/2 rotating.

type c18inject struct {
	armed      bool
	rolled     bool // a rollover happened inside the armed commit
	calls      int  // writeData calls since the rollover
	failAt     int  // 1-based index among those calls; 0 = never
	mode       int  // prefix mode
	fired      bool
	firedLen   int
	rollovers  int
	deleted    int // files deleted by handleRollback
	rollbacks  int
	truncates  int
	hooksAfter []string
}

func (in *c18inject) install() {
	verifhook.Set(func(name string) {
		if !in.armed {
			return
		}
		switch name {
		case "ffldb.writeBlock.afterRollover":
			in.rolled = true
			in.rollovers++
		case "ffldb.rollback.begin":
			in.rollbacks++
		case "ffldb.rollback.deletedFile":
			in.deleted++
		case "ffldb.rollback.afterTruncate":
			in.truncates++
		}
		if in.fired && len(in.hooksAfter) < 32 {
			in.hooksAfter = append(in.hooksAfter, name)
		}
	})
	verifhook.SetPartial(func(name string, n int) (int, bool) {
		if !in.armed || !in.rolled || in.fired {
			return n, false
		}
		in.calls++
		if in.calls != in.failAt {
			return n, false
		}
		in.fired, in.firedLen = true, n
		pn := 0
		switch in.mode {
		case 1:
			pn = 1
		case 2:
			pn = n - 1
		case 3:
			pn = n / 2
		}
		if pn > n {
			pn = n
		}
		if pn < 0 {
			pn = 0
		}
		return pn, true
	})
}

func c18Uninstall() {
	verifhook.Set(nil)
	verifhook.SetPartial(nil)
}

func (x *c18run) sizedBlock(size int) *c18blk {
	if size < 1 {
		size = 1
	}
	d := make([]byte, size)
	x.r.Read(d)
	b := &c18blk{data: d, commit: -1}
	b.hash = common.Uint256(sha256.Sum256(d))
	for {
		if _, dup := x.byHash[b.hash]; !dup {
			break
		}
		b.hash[31]++
	}
	return b
}

// commitBlocks stores and commits the given blocks; ok=false on error.
func (x *c18run) commitBlocks(bs []*c18blk, commit int) error {
	tx, err := x.db.Begin(true)
	if err != nil {
		return err
	}
	for _, b := range bs {
		if err := tx.StoreBlock(b.hash, b.data); err != nil {
			tx.Rollback()
			return fmt.Errorf("StoreBlock: %v", err)
		}
	}
	if err := tx.Commit(); err != nil {
		return err
	}
	for _, b := range bs {
		b.commit = commit
		x.blocks = append(x.blocks, b)
		x.byHash[b.hash] = b
		x.c.Inc("blocks_committed")
		x.c.Inc("blocks_stored")
	}
	return nil
}

// readEverything reads back every committed block through every API and checks
// that the blocks of failed commits are absent.
func (x *c18run) readEverything(path string, counter string) {
	c := x.c
	err := x.db.View(func(tx database.Tx) error {
		before := x.nviol
		for _, b := range x.blocks {
			x.checkBlock(tx, b, path)
			c.Inc(counter)
		}
		// the bulk APIs fail as a whole when one block is unreadable; do not
		// pile their generic signatures on top of a per-block finding
		if x.nviol == before {
			x.bulkAcross(tx, x.blocks, path)
		}
		for _, g := range x.gone {
			x.absent(tx, g, "block of a failed commit ("+path+")")
		}
		return nil
	})
	if err != nil {
		x.viol("view-error", err.Error(), nil, nil)
	}
}

// failedCommitBase runs one database through `rounds` failed commits.
func (x *c18run) failedCommitBase(idx, rounds int) {
	c, r := x.c, x.r
	x.maxFile = []uint32{1500, 2048, 4096, 6000}[r.Intn(4)]
	switch r.Intn(3) {
	case 0:
		x.cache, x.flush = 0, 0
	case 1:
		x.cache, x.flush = 1<<40, 1000000
	default:
		x.cache, x.flush = uint64(500+r.Intn(4000)), 1000000
	}
	ffldb.VerifLdbWriteBuffer = 256 << 10
	x.scen = fmt.Sprintf("s%d/failed-commit%d", c.Shard, idx)
	x.dir = filepath.Join(c.WorkDir, fmt.Sprintf("c18-fail-%d", idx))
	x.blocks, x.gone, x.byHash, x.reopened, x.lastFile = nil, nil, map[common.Uint256]*c18blk{}, false, 0
	defer os.RemoveAll(x.dir)
	if !x.open(true) {
		return
	}
	defer func() {
		c18Uninstall()
		if x.db != nil {
			x.db.Close()
			x.db = nil
		}
	}()
	mf := int(x.maxFile)
	small := func() int { return 90 + r.Intn(mf/4) }
	commit := 0
	good := func(n int) bool {
		var bs []*c18blk
		for i := 0; i < n; i++ {
			bs = append(bs, x.sizedBlock(small()))
		}
		if err := x.commitBlocks(bs, commit); err != nil {
			x.viol("commit-error", fmt.Sprintf("Commit with %d pending blocks: %v", len(bs), err), nil, nil)
			return false
		}
		commit++
		return true
	}
	// phase A: a few files, several blocks in the current one
	for i := 0; i < 2+r.Intn(3); i++ {
		if !good(1 + r.Intn(3)) {
			return
		}
	}
	for round := 0; round < rounds; round++ {
		c.Begin("scenario %s round %d", x.scen, round)
		// make sure the current file holds at least one committed block and
		// is not nearly full, so that blocks "stored earlier in file N" exist
		_, _, fn, off := ffldb.VerifCacheStats(x.db)
		if int(off) > mf*3/4 || off == 0 {
			if !good(1) {
				return
			}
			_, _, fn, off = ffldb.VerifCacheStats(x.db)
		}
		// the failing commit: [optional block that still fits] + a block that
		// does not fit (rollover) + 0..2 more blocks; every second round the
		// later blocks are large enough to roll over a second time
		var pend []*c18blk
		room := mf - int(off)
		if r.Intn(2) == 0 && room > 140 {
			pend = append(pend, x.sizedBlock(90+r.Intn(room-12-90-20)))
			room -= len(pend[0].data) + 12
		}
		// rolling block: record does not fit into `room` but fits a file
		lo := room - 12 + 1
		if lo < 90 {
			lo = 90
		}
		hi := mf - 12
		if lo > hi {
			lo = hi
		}
		rollIdx := len(pend)
		pend = append(pend, x.sizedBlock(lo+r.Intn(hi-lo+1)))
		after := r.Intn(3)
		for i := 0; i < after; i++ {
			sz := small()
			if round%2 == 1 {
				sz = mf/2 + r.Intn(mf/2-12) // forces another rollover
			}
			pend = append(pend, x.sizedBlock(sz))
		}
		nCalls := 4 * (len(pend) - rollIdx)
		in := &c18inject{failAt: 1 + (round+idx)%nCalls, mode: (round + idx/2) % 4}
		if r.Intn(4) == 0 {
			in.failAt = 1 + r.Intn(nCalls)
		}
		in.install()
		tx, err := x.db.Begin(true)
		if err != nil {
			c.Inconclusive("C18: Begin: %v", err)
			return
		}
		for _, b := range pend {
			if err := tx.StoreBlock(b.hash, b.data); err != nil {
				x.viol("storeblock-error", fmt.Sprintf("StoreBlock of a new %d-byte block: %v", len(b.data), err), b, nil)
			}
		}
		in.armed = true
		cerr := tx.Commit()
		in.armed = false
		c18Uninstall()
		extra := map[string]interface{}{"round": round, "cursor_before": []uint32{fn, off}, "pending_block_lens": c18Lens(pend),
			"rolling_block_index": rollIdx, "failed_writeData_call_after_rollover": in.failAt, "prefix_mode": in.mode,
			"cut_write_len": in.firedLen, "rollovers_in_commit": in.rollovers, "files_deleted_by_rollback": in.deleted,
			"hooks_after_failure": in.hooksAfter}
		if !in.fired || !in.rolled {
			// structural: the commit did not roll over / had fewer writes than planned
			c.Inc("failed_commit_injection_not_reached")
			if cerr == nil {
				for _, b := range pend {
					b.commit = commit
					x.blocks = append(x.blocks, b)
					x.byHash[b.hash] = b
				}
				commit++
			}
			continue
		}
		c.Inc("failed_commit_after_rollover_cases")
		c.Inc(fmt.Sprintf("failed_commit_prefix_mode_%d", in.mode))
		c.Inc(fmt.Sprintf("failed_commit_at_field_%s", []string{"checksum", "network", "length", "payload"}[in.failAt%4]))
		c.Count("failed_commit_files_deleted_by_rollback", int64(in.deleted))
		if in.rollovers >= 2 {
			c.Inc("failed_commit_after_two_rollovers_cases")
		}
		if rollIdx > 0 {
			c.Inc("failed_commit_with_block_in_old_file_cases")
		}
		if in.rollbacks == 0 || in.deleted == 0 {
			c.Inc("failed_commit_without_file_deletion")
		}
		if cerr == nil {
			x.viol("commit-ok-despite-write-error", "Commit returned nil although a block-file write reported an I/O error", nil, extra)
			for _, b := range pend {
				b.commit = commit
				x.blocks = append(x.blocks, b)
				x.byHash[b.hash] = b
			}
			commit++
		} else {
			x.gone = append(x.gone, pend...)
			if len(x.gone) > 8 {
				x.gone = x.gone[len(x.gone)-8:]
			}
		}
		c.Case(fmt.Sprintf("%s/round%d/call%d/mode%d", x.scen, round, in.failAt, in.mode), true)
		if c.Shard == 0 && idx == 0 && round < 2 {
			c.Sample(map[string]interface{}{"scenario": x.scen, "max_file_size": x.maxFile, "failed_commit": extra, "commit_error": fmt.Sprint(cerr), "blocks_before": len(x.blocks)})
		}
		x.failCtx = extra

		// 1. same database object, no reopen: everything stored before
		x.readEverything("after-failed-commit", "blocks_reread_after_failed_commit")

		// 2. store the same blocks again (a node retries), then more commits
		// including another rollover
		if cerr != nil {
			x.gone = x.gone[:len(x.gone)-len(pend)]
			if err := x.commitBlocks(pend, commit); err != nil {
				x.viol("commit-error:after-failed-commit", fmt.Sprintf("retry of the failed commit (%d blocks): %v", len(pend), err), nil, extra)
				return
			}
			commit++
			c.Inc("commits_after_failed_commit")
		}
		_, _, fn0, _ := ffldb.VerifCacheStats(x.db)
		for i := 0; i < 6; i++ {
			bs := []*c18blk{x.sizedBlock(small())}
			if i == 0 {
				bs = append(bs, x.sizedBlock(mf/2+r.Intn(mf/2-12)))
			}
			if err := x.commitBlocks(bs, commit); err != nil {
				x.viol("commit-error:after-failed-commit", fmt.Sprintf("commit %d after a failed commit: %v", i+1, err), nil, extra)
				return
			}
			commit++
			c.Inc("commits_after_failed_commit")
			if _, _, fn1, _ := ffldb.VerifCacheStats(x.db); fn1 > fn0 && i >= 1 {
				break
			}
		}
		if _, _, fn1, _ := ffldb.VerifCacheStats(x.db); fn1 > fn0 {
			c.Count("rollovers_after_failed_commit", int64(fn1-fn0))
			c.Count("file_rollovers", int64(fn1-fn0))
		}
		x.readEverything("after-failed-commit+commits", "blocks_reread_after_failed_commit")

		// 3. close, reopen, everything again
		if round%2 == 1 || round == rounds-1 {
			if err := x.db.Close(); err != nil {
				x.viol("close-error", err.Error(), nil, extra)
			}
			x.db = nil
			if !x.open(false) {
				return
			}
			c.Inc("reopens")
			c.Inc("reopens_after_failed_commit")
			x.reopened = true
			x.readEverything("after-failed-commit+reopen", "blocks_reread_after_failed_commit_and_reopen")
			x.reopened = false
		}
		x.failCtx = nil
	}
}

func c18Lens(bs []*c18blk) []int {
	var out []int
	for _, b := range bs {
		out = append(out, len(b.data))
	}
	return out
}

package props

import (
	"bytes"
	"encoding/binary"
	"encoding/hex"
	"fmt"
	"math/big"
	"math/rand"
	"sort"
	"strings"

	"github.com/elastos/Elastos.ELA/blockchain"
	"github.com/elastos/Elastos.ELA/common"
	pg "github.com/elastos/Elastos.ELA/core/contract/program"
	"github.com/elastos/Elastos.ELA/core/types"
	common2 "github.com/elastos/Elastos.ELA/core/types/common"
	"github.com/elastos/Elastos.ELA/core/types/functions"
	"github.com/elastos/Elastos.ELA/core/types/interfaces"
	"github.com/elastos/Elastos.ELA/core/types/outputpayload"
	"github.com/elastos/Elastos.ELA/core/types/payload"
	"github.com/elastos/Elastos.ELA/database"
	"github.com/elastos/Elastos.ELA/dpos/state"

	"verif/kit"
	"verif/kit/node"
)

// C13 — disconnecting a block exactly undoes connecting it.
//
// Store level: ChainStore.SaveBlock / RollbackBlock (the calls connectBlock /
// disconnectBlock make; they collect the per-transaction save / rollback
// processors and run ChainStoreFFLDB.SaveBlock / RollbackBlock including the
// index manager) are driven with stacks of synthetic blocks mixing every
// transaction kind that owns a processor or touches an index. Oracle: the
// full dump of every metadata bucket before the connect must equal the dump
// after the disconnect, and every public query about the touched keys must
// answer as before.
// Node level: a live node reorganises between branches of signed transfers;
// afterwards the winning branch is unwound at store level down to the fork
// point, whose dump had been recorded before either branch existed.

func init() {
	kit.Register(&kit.Spec{
		ID:      "C13",
		Rule:    "store level: random push/pop walks (depth 1..5, always unwound, LIFO) of synthetic blocks over a funded base; each block mixes transfers (incl. zero-value outputs, X addresses), WithdrawFromSideChain V0/V1/V2, ReturnSideChainDepositCoin, CRCProposal/Review/Tracking with draft data (review/tracking texts drawn from a small pool, so equal texts recur), NFTDestroyFromSideChain, Record, TransferCrossChainAsset; dedicated shapes: one transaction / several transactions of a block spending different outputs of ONE earlier transaction, ReturnSideChainDepositCoin output lists R, RR, CR, RCR, RC, CRR, RRC, CRCR (R return output with its own deposit hash, C plain change output); popped side-chain and deposit hashes are re-used by later blocks. node level (after the store level has unwound everything): rounds of branch A (k blocks, each with a two-input spend of one earlier transaction) which is first disconnected/reconnected through the store and compared with the fork point, then the heavier branch B (k+1 blocks) of signed transfers; a refused branch B is adjudicated by a twin process that never saw A; B is unwound/redone at store level; finally a twin syncs the active chain linearly and its dump is compared. distinct = distinct block content (tx hashes) per walk position; non-trivial = the block changed at least one index besides the block/tx index (observed by query difference after connect)",
		Shards:  func(tier string) int { return 8 },
		Run:     runC13,
		Require: []string{"S_pushes", "S_pops", "S_dump_compares", "S_query_compares", "S_pops_clean", "S_tx:transfer", "S_tx:withdrawV0", "S_tx:withdrawV1", "S_tx:withdrawV2", "S_tx:returnDeposit", "S_tx:proposal", "S_tx:review", "S_tx:tracking", "S_tx:nftDestroy", "S_effect:tx3", "S_effect:draft", "S_effect:retdeposit", "S_effect:utxo", "S_effect:unspent", "S_reincluded_after_pop", "S_gate_accept_after_pop", "disconnected_blocks_spending_two_outputs_of_one_tx", "disconnected_blocks_one_tx_spending_two_outputs_of_a_tx", "disconnected_blocks_two_txs_spending_outputs_of_one_tx", "disconnected_return_deposit_with_change_first", "disconnected_return_deposit_with_change_between_returns", "N_disconnected_blocks_spending_two_outputs_of_one_tx", "N_branch_undo_dump_compares", "N_twin_linear_sync_compares", "N_reorgs", "N_blocks_disconnected_by_node", "N_forkpoint_dump_compares", "N_redo_dump_compares", "N_model_query_compares"},
		Assumptions: []string{
			"ffldb metadata is read through database.Tx bucket iteration (ForEach/ForEachBucket) inside one View transaction",
			"byte equality is demanded for every metadata bucket except: block storage (ffldb block index / write cursor, block-node bucket) which is append-only by design, the best-state row (hash and height compared, work sum reported), order inside an unspent/UTXO list and empty lists/empty buckets (set semantics; residue of this kind is counted, not flagged)",
			"synthetic blocks are unsigned; save/rollback processors and indexers do not look at signatures",
		},
	})
}

// ---------------------------------------------------------------- dump

type mdump map[string]map[string][]byte // bucket path -> key -> value

func takeDump(st blockchain.IFFLDBChainStore) (mdump, error) {
	d := mdump{}
	var walk func(b database.Bucket, path string) error
	walk = func(b database.Bucket, path string) error {
		m := map[string][]byte{}
		d[path] = m
		if err := b.ForEach(func(k, v []byte) error {
			m[string(k)] = append([]byte{}, v...)
			return nil
		}); err != nil {
			return err
		}
		var subs [][]byte
		if err := b.ForEachBucket(func(k []byte) error {
			subs = append(subs, append([]byte{}, k...))
			return nil
		}); err != nil {
			return err
		}
		for _, k := range subs {
			sb := b.Bucket(k)
			if sb == nil {
				continue
			}
			if err := walk(sb, path+"/"+pathName(k)); err != nil {
				return err
			}
		}
		return nil
	}
	err := st.View(func(tx database.Tx) error { return walk(tx.Metadata(), "") })
	return d, err
}

func pathName(k []byte) string {
	for _, c := range k {
		if c < 0x20 || c > 0x7e || c == '/' {
			return "0x" + hex.EncodeToString(k)
		}
	}
	return string(k)
}

const (
	bktUnspent = "/unspentbyhashidx"
	bktUTXO    = "/utxobyhashidx"
	bktTx3     = "/tx3hash"
	bktDraft   = "/proposaldraftdata"
	bktRetDep  = "/returnDeposithash"
)

// normalise returns the comparable view of a dump (see Assumptions) and the
// decoded best-state row.
func normalise(d mdump) (mdump, string) {
	n := mdump{}
	best := ""
	for path, m := range d {
		if path == "/ffldb-blockidx" || path == "/blockheaderidx" {
			continue
		}
		out := map[string][]byte{}
		for k, v := range m {
			switch {
			case path == "" && k == "ffldb-writeloc":
				continue
			case path == "" && k == "chainstate":
				if len(v) >= 36 {
					best = fmt.Sprintf("%s@%d", hex.EncodeToString(v[:32]), binary.LittleEndian.Uint32(v[32:36]))
				}
				continue
			case path == bktUnspent:
				out[k] = sortRecords(v, 2)
			case strings.HasPrefix(path, bktUTXO+"/"):
				cnt, recs := splitVarCount(v)
				if cnt == 0 {
					continue
				}
				out[k] = recs
			default:
				out[k] = v
			}
		}
		if len(out) == 0 && (path == bktTx3 || path == bktDraft || strings.HasPrefix(path, bktUTXO+"/")) {
			continue
		}
		n[path] = out
	}
	return n, best
}

func sortRecords(v []byte, sz int) []byte {
	if sz <= 0 || len(v)%sz != 0 {
		return v
	}
	var rs [][]byte
	for i := 0; i < len(v); i += sz {
		rs = append(rs, v[i:i+sz])
	}
	sort.Slice(rs, func(i, j int) bool { return bytes.Compare(rs[i], rs[j]) < 0 })
	return bytes.Join(rs, nil)
}

// splitVarCount decodes <varuint count><count equal-size records> and returns
// the records sorted (multiset view).
func splitVarCount(v []byte) (uint64, []byte) {
	if len(v) == 0 {
		return 0, nil
	}
	var cnt uint64
	off := 1
	switch v[0] {
	case 0xfd:
		if len(v) < 3 {
			return 1, v
		}
		cnt, off = uint64(binary.LittleEndian.Uint16(v[1:])), 3
	case 0xfe:
		if len(v) < 5 {
			return 1, v
		}
		cnt, off = uint64(binary.LittleEndian.Uint32(v[1:])), 5
	case 0xff:
		if len(v) < 9 {
			return 1, v
		}
		cnt, off = binary.LittleEndian.Uint64(v[1:]), 9
	default:
		cnt = uint64(v[0])
	}
	if cnt == 0 {
		return 0, nil
	}
	rest := v[off:]
	if uint64(len(rest))%cnt != 0 {
		return cnt, v
	}
	return cnt, sortRecords(rest, len(rest)/int(cnt))
}

type ddiff struct {
	Path, Key, Kind string // Kind: added | removed | changed | bucket-added | bucket-removed
}

func diffDumps(a, b mdump) []ddiff {
	var out []ddiff
	for path, am := range a {
		bm := b[path] // a missing bucket compares like an empty one (its existence is checked separately)
		for k, av := range am {
			bv, ok := bm[k]
			if !ok {
				out = append(out, ddiff{path, hex.EncodeToString([]byte(k)), "removed"})
			} else if !bytes.Equal(av, bv) {
				out = append(out, ddiff{path, hex.EncodeToString([]byte(k)), "changed"})
			}
		}
		for k := range bm {
			if _, ok := am[k]; !ok {
				out = append(out, ddiff{path, hex.EncodeToString([]byte(k)), "added"})
			}
		}
	}
	for path, bm := range b {
		if _, ok := a[path]; ok {
			continue
		}
		for k := range bm {
			out = append(out, ddiff{path, hex.EncodeToString([]byte(k)), "added"})
		}
		if len(bm) == 0 {
			out = append(out, ddiff{path, "", "bucket-added"})
		}
	}
	for path, am := range a {
		if _, ok := b[path]; !ok && len(am) == 0 {
			out = append(out, ddiff{path, "", "bucket-removed"})
		}
	}
	sort.Slice(out, func(i, j int) bool {
		if out[i].Path != out[j].Path {
			return out[i].Path < out[j].Path
		}
		if out[i].Key != out[j].Key {
			return out[i].Key < out[j].Key
		}
		return out[i].Kind < out[j].Kind
	})
	return out
}

func bucketClass(path string) string {
	if strings.HasPrefix(path, bktUTXO) {
		return "utxo"
	}
	if path == "" {
		return "root"
	}
	return strings.TrimPrefix(path, "/")
}

// ---------------------------------------------------------------- queries

// qkeys is what a block touches.
type qkeys struct {
	txids  []common.Uint256
	phs    []common.Uint168
	tx3    []common.Uint256
	retdep []common.Uint256
	drafts []common.Uint256
}

func (q *qkeys) addTx(h common.Uint256) {
	for _, x := range q.txids {
		if x == h {
			return
		}
	}
	q.txids = append(q.txids, h)
}
func (q *qkeys) addPH(h common.Uint168) {
	for _, x := range q.phs {
		if x == h {
			return
		}
	}
	q.phs = append(q.phs, h)
}

func runQueries(st blockchain.IChainStore, q *qkeys) map[string]string {
	ff := st.GetFFLDB()
	r := map[string]string{}
	for _, id := range q.txids {
		tx, h, err := ff.GetTransaction(id)
		if err != nil || tx == nil {
			r["GetTransaction:"+id.String()] = "absent"
		} else {
			r["GetTransaction:"+id.String()] = fmt.Sprintf("height=%d hashok=%v", h, tx.Hash() == id)
		}
		us, err := ff.GetUnspent(id)
		if err != nil {
			r["GetUnspent:"+id.String()] = "err"
		} else {
			r["GetUnspent:"+id.String()] = fmt.Sprint(sortedU16(us))
		}
	}
	for _, ph := range q.phs {
		ph := ph
		us, err := ff.GetUTXO(&ph)
		if err != nil {
			r["GetUTXO:"+ph.String()] = "err"
			continue
		}
		var ss []string
		for _, u := range us {
			ss = append(ss, fmt.Sprintf("%s:%d:%d", u.TxID.String()[:16], u.Index, int64(u.Value)))
		}
		sort.Strings(ss)
		r["GetUTXO:"+ph.String()] = strings.Join(ss, ",")
	}
	for _, h := range q.tx3 {
		h := h
		r["IsTx3Exist:"+h.String()] = fmt.Sprint(ff.IsTx3Exist(&h), st.IsSidechainTxHashDuplicate(h))
	}
	for _, h := range q.retdep {
		h := h
		r["IsSideChainReturnDepositExist:"+h.String()] = fmt.Sprint(ff.IsSideChainReturnDepositExist(&h))
	}
	for _, h := range q.drafts {
		h := h
		data, err := ff.GetProposalDraftDataByDraftHash(&h)
		if err != nil {
			r["GetProposalDraftDataByDraftHash:"+h.String()] = "absent"
		} else {
			r["GetProposalDraftDataByDraftHash:"+h.String()] = "data:" + kit.HashID(data)
		}
	}
	return r
}

// ---------------------------------------------------------------- synthetic chain

type sUTXO struct {
	op  common2.OutPoint
	ph  common.Uint168
	val common.Fixed64
}

type sFrame struct {
	blk     *types.Block
	nd      *blockchain.BlockNode
	pre     mdump
	preBest string
	preRaw  mdump
	keys    *qkeys
	preQ    map[string]string
	avail   []sUTXO // model before the block
	wds     []interfaces.Transaction
	wdRefs  []map[*common2.Input]common2.Output
	tx3Ver  map[common.Uint256]byte
	drafts  map[common.Uint256]bool // draft hashes referenced -> present before connect
	tx3Was  map[common.Uint256]bool
	label   string
	// shapes the block exercises when it is disconnected
	twoOutsOneTx    bool // one transaction spends >= 2 different outputs of one earlier transaction
	twoOutsSiblings bool // several transactions of the block spend different outputs of one earlier transaction
	retChangeFirst  bool // return-deposit tx whose output list starts with a plain (change) output
	retChangeMiddle bool // ... with a plain output between two return outputs
	retMulti        bool // ... with more than one return output
}

type sChain struct {
	c      *kit.Ctx
	nd     *node.Node
	r      *rand.Rand
	avail  []sUTXO
	frames []*sFrame
	tipN   *blockchain.BlockNode
	tipB   *types.Block
	baseB  *types.Block
	nonce  uint64
	seq    int

	arbs    []arbKey
	freeTx3 []common.Uint256 // side-chain hashes not currently recorded
	freeDep []common.Uint256
	popped  map[common.Uint256]bool // hashes that were recorded once and rolled back
	stdPH   []common.Uint168
	xPH     []common.Uint168
	cfgGate interface{}
	gateH   uint32
	// differences already attributed to an inner pop (an outer frame's
	// comparison would see them again)
	attributed map[string]bool
	// input selection overrides of the next generated transaction
	preferTx *common.Uint256
	forceN   int
}

func (s *sChain) take(n int, wantX int) []sUTXO {
	// wantX: 1 only X-owned, 0 only non-X, -1 any
	var got []sUTXO
	idx := s.r.Perm(len(s.avail))
	if s.preferTx != nil {
		var first, rest []int
		for _, i := range idx {
			if s.avail[i].op.TxID == *s.preferTx {
				first = append(first, i)
			} else {
				rest = append(rest, i)
			}
		}
		idx = append(first, rest...)
	}
	used := map[int]bool{}
	for _, i := range idx {
		if len(got) == n {
			break
		}
		u := s.avail[i]
		isX := u.ph[0] == prefixX
		if (wantX == 1 && !isX) || (wantX == 0 && isX) {
			continue
		}
		got = append(got, u)
		used[i] = true
	}
	var rest []sUTXO
	for i, u := range s.avail {
		if !used[i] {
			rest = append(rest, u)
		}
	}
	s.avail = rest
	return got
}

// txWithOutputs picks an earlier transaction that still has >= min non-X
// outputs available and reports how many.
func (s *sChain) txWithOutputs(min int) (common.Uint256, int) {
	cnt := map[common.Uint256]int{}
	var order []common.Uint256
	for _, u := range s.avail {
		if cnt[u.op.TxID] == 0 {
			order = append(order, u.op.TxID)
		}
		cnt[u.op.TxID]++
	}
	var cands []common.Uint256
	for _, id := range order {
		if cnt[id] >= min {
			cands = append(cands, id)
		}
	}
	if len(cands) == 0 {
		return common.Uint256{}, 0
	}
	id := cands[s.r.Intn(len(cands))]
	return id, cnt[id]
}

func insOf(us []sUTXO) ([]*common2.Input, map[*common2.Input]common2.Output, common.Fixed64) {
	var ins []*common2.Input
	refs := map[*common2.Input]common2.Output{}
	var tot common.Fixed64
	for _, u := range us {
		in := &common2.Input{Previous: u.op, Sequence: 0}
		ins = append(ins, in)
		refs[in] = *defOut(u.ph, u.val)
		tot += u.val
	}
	return ins, refs, tot
}

func (s *sChain) anyPH() common.Uint168 {
	if s.r.Intn(3) == 0 {
		return s.xPH[s.r.Intn(len(s.xPH))]
	}
	return s.stdPH[s.r.Intn(len(s.stdPH))]
}

var opinionPool = []string{"ok", "approved", "I agree with this proposal.", "rejected: budget too high", "", "milestone reached", "see attached report"}

func (s *sChain) freshTx3(n int) []common.Uint256 {
	var hs []common.Uint256
	for i := 0; i < n; i++ {
		if len(s.freeTx3) > 0 && s.r.Intn(3) != 0 {
			j := s.r.Intn(len(s.freeTx3))
			hs = append(hs, s.freeTx3[j])
			s.freeTx3 = append(s.freeTx3[:j], s.freeTx3[j+1:]...)
		} else {
			s.seq++
			hs = append(hs, hashOf(fmt.Sprintf("sidechain-tx/%d/%d", s.c.Shard, s.seq)))
		}
	}
	return hs
}

// genTx builds one synthetic transaction of the given kind from the model's
// available outputs; nil if the model has no suitable inputs.
func (s *sChain) genTx(kind string, f *sFrame) interfaces.Transaction {
	r := s.r
	mkOuts := func(tot common.Fixed64, n int, typ func(i int, ph common.Uint168, v common.Fixed64) *common2.Output) []*common2.Output {
		var outs []*common2.Output
		left := tot
		for i := 0; i < n; i++ {
			v := common.Fixed64(0)
			if i == n-1 {
				v = left
			} else if left > 0 && r.Intn(4) != 0 { // 1 in 4 is a zero-value output
				v = common.Fixed64(r.Int63n(int64(left) + 1))
			}
			left -= v
			outs = append(outs, typ(i, s.anyPH(), v))
		}
		return outs
	}
	plain := func(i int, ph common.Uint168, v common.Fixed64) *common2.Output { return defOut(ph, v) }
	prog := []*pg.Program{{Code: []byte{0x21, 1, 2, 3, 0xac}, Parameter: []byte{1, 2, 3}}}
	generic := func(t common2.TxType, pver byte, pl interfaces.Payload, wantX int) interfaces.Transaction {
		nIn := 1 + r.Intn(2)
		if s.forceN > 0 {
			nIn = s.forceN
		}
		us := s.take(nIn, wantX)
		if len(us) == 0 {
			return nil
		}
		ins, _, tot := insOf(us)
		return functions.CreateTransaction(common2.TxVersion09, t, pver, pl, []*common2.Attribute{}, ins,
			mkOuts(tot, 1+r.Intn(3), plain), 0, prog)
	}
	switch kind {
	case "transfer":
		return generic(common2.TransferAsset, 0, &payload.TransferAsset{}, -1)
	case "withdrawV0", "withdrawV1", "withdrawV2":
		us := s.take(1+r.Intn(2), 1)
		if len(us) == 0 {
			return nil
		}
		ins, refs, tot := insOf(us)
		hs := s.freshTx3(1 + r.Intn(3))
		each := tot / common.Fixed64(len(hs))
		var ver byte
		var programs []*pg.Program
		var signers []uint8
		n := len(s.arbs)
		var keys [][]byte
		for _, a := range s.arbs {
			keys = append(keys, a.Pub)
		}
		switch kind {
		case "withdrawV0":
			ver = payload.WithdrawFromSideChainVersion
			programs = []*pg.Program{{Code: ccScript(n*2/3+1, n, keys), Parameter: []byte{}}}
		case "withdrawV1":
			ver = payload.WithdrawFromSideChainVersionV1
			programs = []*pg.Program{{Code: ccScript(n*2/3+1, n, keys), Parameter: []byte{}}}
		default:
			ver = payload.WithdrawFromSideChainVersionV2
			for _, i := range r.Perm(n)[:n*2/3+1] {
				signers = append(signers, uint8(i))
			}
			code, _ := schnorrCodeFor(s.arbs, signers)
			programs = []*pg.Program{{Code: code, Parameter: make([]byte, 64)}}
		}
		tx := withdrawTx(ver, ins, s.stdPH[r.Intn(len(s.stdPH))], each, hs, signers, programs)
		f.wds = append(f.wds, tx)
		f.wdRefs = append(f.wdRefs, refs)
		for _, h := range hs {
			f.tx3Ver[h] = ver
			f.keys.tx3 = append(f.keys.tx3, h)
		}
		return tx
	case "returnDeposit":
		us := s.take(1, 1)
		if len(us) == 0 {
			return nil
		}
		ins, _, tot := insOf(us)
		newDep := func() common.Uint256 {
			var dh common.Uint256
			if len(s.freeDep) > 0 && r.Intn(2) == 0 {
				j := r.Intn(len(s.freeDep))
				dh = s.freeDep[j]
				s.freeDep = append(s.freeDep[:j], s.freeDep[j+1:]...)
			} else {
				s.seq++
				dh = hashOf(fmt.Sprintf("deposit-tx/%d/%d", s.c.Shard, s.seq))
			}
			f.keys.retdep = append(f.keys.retdep, dh)
			return dh
		}
		// output list shapes: R = return output (own deposit hash), C = plain change output
		shapes := []string{"R", "RR", "CR", "RCR", "RC", "CRR", "RRC", "CRCR"}
		shape := shapes[r.Intn(len(shapes))]
		pver := byte(r.Intn(2))
		var outs []*common2.Output
		left := tot
		seenR := false
		for i, ch := range shape {
			v := left / common.Fixed64(len(shape)-i)
			left -= v
			if ch == 'R' {
				outs = append(outs, &common2.Output{AssetID: defOut(us[0].ph, 0).AssetID, Value: v, ProgramHash: s.stdPH[r.Intn(len(s.stdPH))],
					Type: common2.OTReturnSideChainDepositCoin, Payload: &outputpayload.ReturnSideChainDeposit{Version: 0, GenesisBlockAddress: "XKUh4GLhFJiqAMTF6HyWQrV9pK9HcGUdfJ", DepositTransactionHash: newDep()}})
				seenR = true
			} else {
				outs = append(outs, defOut(us[0].ph, v))
				if !seenR {
					f.retChangeFirst = true
				} else if strings.Contains(shape[i:], "R") {
					f.retChangeMiddle = true
				}
			}
		}
		if strings.Count(shape, "R") > 1 {
			f.retMulti = true
		}
		return functions.CreateTransaction(common2.TxVersion09, common2.ReturnSideChainDepositCoin, pver,
			&payload.ReturnSideChainDepositCoin{Signers: []uint8{0, 1, 2}}, []*common2.Attribute{}, ins, outs, 0, prog)
	case "proposal":
		s.seq++
		data := []byte(fmt.Sprintf("draft %d of shard %d: %x", s.seq, s.c.Shard, r.Int63()))
		pl := &payload.CRCProposal{ProposalType: payload.Normal, CategoryData: "c", OwnerKey: s.arbs[0].Pub,
			DraftHash: common.Hash(data), DraftData: data, Budgets: []payload.Budget{{Type: payload.Imprest, Stage: 0, Amount: 100}},
			Recipient: s.stdPH[0], Signature: []byte{1}, CRCouncilMemberDID: s.stdPH[1], CRCouncilMemberSignature: []byte{2}}
		f.keys.drafts = append(f.keys.drafts, pl.DraftHash)
		f.drafts[pl.DraftHash] = false
		return generic(common2.CRCProposal, payload.CRCProposalVersion01, pl, 0)
	case "review":
		data := []byte(opinionPool[r.Intn(len(opinionPool))])
		s.seq++
		pl := &payload.CRCProposalReview{ProposalHash: hashOf(fmt.Sprintf("proposal/%d", s.seq)), VoteResult: payload.Approve,
			OpinionHash: common.Hash(data), OpinionData: data, DID: s.stdPH[r.Intn(len(s.stdPH))], Signature: []byte{3}}
		f.keys.drafts = append(f.keys.drafts, pl.OpinionHash)
		f.drafts[pl.OpinionHash] = false
		return generic(common2.CRCProposalReview, payload.CRCProposalReviewVersion01, pl, 0)
	case "tracking":
		msg := []byte(opinionPool[r.Intn(len(opinionPool))])
		op := []byte(opinionPool[r.Intn(len(opinionPool))])
		s.seq++
		pl := &payload.CRCProposalTracking{ProposalHash: hashOf(fmt.Sprintf("proposal/%d", s.seq)), MessageHash: common.Hash(msg), MessageData: msg,
			Stage: 1, OwnerKey: s.arbs[0].Pub, OwnerSignature: []byte{4}, ProposalTrackingType: payload.Progress,
			SecretaryGeneralOpinionHash: common.Hash(op), SecretaryGeneralOpinionData: op, SecretaryGeneralSignature: []byte{5}}
		f.keys.drafts = append(f.keys.drafts, pl.MessageHash, pl.SecretaryGeneralOpinionHash)
		f.drafts[pl.MessageHash] = false
		f.drafts[pl.SecretaryGeneralOpinionHash] = false
		return generic(common2.CRCProposalTracking, payload.CRCProposalTrackingVersion01, pl, 0)
	case "nftDestroy":
		s.seq++
		pl := &payload.NFTDestroyFromSideChain{IDs: []common.Uint256{hashOf(fmt.Sprintf("nft/%d", s.seq))},
			OwnerStakeAddresses: []common.Uint168{s.stdPH[0]}, GenesisBlockHash: hashOf("side-genesis")}
		return generic(common2.NFTDestroyFromSideChain, payload.NFTDestroyFromSideChainVersion, pl, 0)
	case "record":
		return generic(common2.Record, 0, &payload.Record{Type: "t", Content: []byte{1, 2, 3}}, 0)
	case "crossTransfer":
		pl := &payload.TransferCrossChainAsset{CrossChainAddresses: []string{"EJ"}, OutputIndexes: []uint64{0}, CrossChainAmounts: []common.Fixed64{1}}
		return generic(common2.TransferCrossChainAsset, 0, pl, 0)
	}
	return nil
}

var sKinds = []string{"consolidate", "siblings", "returnDeposit", "transfer", "transfer", "withdrawV0", "withdrawV1", "withdrawV2", "withdrawV2", "returnDeposit", "proposal", "review", "review", "tracking", "nftDestroy", "record", "crossTransfer"}

// buildBlock assembles a synthetic block on the current synthetic tip.
func (s *sChain) buildBlock(kinds []string) *sFrame {
	f := &sFrame{keys: &qkeys{}, tx3Ver: map[common.Uint256]byte{}, drafts: map[common.Uint256]bool{}, tx3Was: map[common.Uint256]bool{}}
	f.avail = append([]sUTXO{}, s.avail...)
	h := s.tipB.Height + 1
	s.nonce++
	cb := s.nd.CoinbaseTx(s.nd.Miner.Address, h, 0xC13<<40|uint64(s.c.Shard)<<32|s.nonce)
	cb.Outputs()[0].Value = 100
	cb.Outputs()[1].Value = common.Fixed64(200 + s.r.Intn(3)) // sometimes differs: same-content blocks get distinct hashes anyway via nonce
	txs := []interfaces.Transaction{cb}
	var used []string
	for _, k := range kinds {
		switch k {
		case "consolidate", "siblings":
			// several different outputs of ONE earlier transaction are spent in this block
			id, n := s.txWithOutputs(2)
			if n < 2 {
				continue
			}
			s.preferTx = &id
			if k == "consolidate" {
				s.forceN = 2 + s.r.Intn(c13min(n, 3)-1)
				if tx := s.genTx("transfer", f); tx != nil {
					txs = append(txs, tx)
					used = append(used, k)
				}
			} else {
				s.forceN = 1
				for j := 0; j < c13min(n, 2+s.r.Intn(2)); j++ {
					if tx := s.genTx("transfer", f); tx != nil {
						txs = append(txs, tx)
					}
				}
				used = append(used, k)
			}
			s.preferTx, s.forceN = nil, 0
			continue
		}
		tx := s.genTx(k, f)
		if tx == nil {
			continue
		}
		txs = append(txs, tx)
		used = append(used, k)
	}
	// which disconnect shapes does the block carry?
	perPrev := map[common.Uint256]map[uint16]int{} // prev tx -> output index -> spending tx number
	for ti, tx := range txs[1:] {
		inTx := map[common.Uint256]map[uint16]bool{}
		for _, in := range tx.Inputs() {
			id := in.Previous.TxID
			if perPrev[id] == nil {
				perPrev[id] = map[uint16]int{}
			}
			perPrev[id][in.Previous.Index] = ti
			if inTx[id] == nil {
				inTx[id] = map[uint16]bool{}
			}
			inTx[id][in.Previous.Index] = true
			if len(inTx[id]) >= 2 {
				f.twoOutsOneTx = true
			}
		}
	}
	for _, m := range perPrev {
		spenders := map[int]bool{}
		for _, ti := range m {
			spenders[ti] = true
		}
		if len(m) >= 2 && len(spenders) >= 2 {
			f.twoOutsSiblings = true
		}
	}
	blk := &types.Block{Header: common2.Header{Version: 0, Previous: s.tipB.Hash(), Timestamp: s.tipB.Timestamp + 1,
		Bits: s.nd.Cfg.PowConfiguration.PowLimitBits, Height: h}, Transactions: txs}
	if err := node.Seal(blk, false); err != nil {
		panic(err)
	}
	f.blk = blk
	f.label = strings.Join(used, "+")
	// model: spend inputs (already taken out of avail by genTx), add outputs
	for _, tx := range txs {
		id := tx.Hash()
		f.keys.addTx(id)
		for _, in := range tx.Inputs() {
			if !tx.IsCoinBaseTx() {
				f.keys.addTx(in.Previous.TxID)
			}
		}
		for i, o := range tx.Outputs() {
			f.keys.addPH(o.ProgramHash)
			s.avail = append(s.avail, sUTXO{op: common2.OutPoint{TxID: id, Index: uint16(i)}, ph: o.ProgramHash, val: o.Value})
		}
	}
	for _, u := range f.avail {
		// program hashes of spent outputs
		for _, tx := range txs[1:] {
			for _, in := range tx.Inputs() {
				if in.Previous == u.op {
					f.keys.addPH(u.ph)
				}
			}
		}
	}
	hash := blk.Hash()
	n := blockchain.NewBlockNode(&blk.Header, &hash)
	n.Parent = s.tipN
	n.WorkSum = new(big.Int).Add(s.tipN.WorkSum, n.WorkSum)
	f.nd = n
	return f
}

// gate runs the real context check of a withdrawal (controlled arbiter mock,
// references from the model) and reports acceptance.
func (s *sChain) gate(tx interfaces.Transaction, refs map[*common2.Input]common2.Output) (bool, string) {
	para := functions.GetTransactionParameters(tx, s.gateH, 0, s.cfgGate, s.nd.Chain, 0)
	tx.SetParameters(para)
	tx.SetReferences(refs)
	var errS string
	ok := false
	p, pv, _ := kit.Guard(func() {
		e, _ := tx.SpecialContextCheck()
		if e == nil {
			ok = true
		} else {
			errS = e.Error()
		}
	})
	if p {
		return false, fmt.Sprint("panic: ", pv)
	}
	return ok, errS
}

func (s *sChain) push(f *sFrame) bool {
	c := s.c
	st := s.nd.Store
	raw, err := takeDump(st.GetFFLDB())
	if err != nil {
		c.Inconclusive("dump failed: %v", err)
		return false
	}
	f.preRaw = raw
	f.pre, f.preBest = normalise(raw)
	f.preQ = runQueries(st, f.keys)
	for h := range f.drafts {
		f.drafts[h] = f.preQ["GetProposalDraftDataByDraftHash:"+h.String()] != "absent"
	}
	for h := range f.tx3Ver {
		f.tx3Was[h] = strings.HasPrefix(f.preQ["IsTx3Exist:"+h.String()], "true")
	}
	for i, tx := range f.wds {
		if ok, why := s.gate(tx, f.wdRefs[i]); ok {
			c.Inc("S_gate_accept_before_push")
		} else {
			c.Inc("S_gate_reject_before_push")
			c.Note("harness: withdrawal V%d not accepted by the context check before connect: %s", tx.PayloadVersion(), why)
		}
	}
	c.Begin("C13 store push h=%d %s", f.blk.Height, f.label)
	if err := st.SaveBlock(f.blk, f.nd, nil, blockchain.CalcPastMedianTime(f.nd.Parent)); err != nil {
		c.Inc("S_save_errors")
		c.Note("SaveBlock(%s) failed: %v", f.label, err)
		s.avail = f.avail
		return false
	}
	c.Inc("S_pushes")
	s.frames = append(s.frames, f)
	s.tipB, s.tipN = f.blk, f.nd
	c.Max("max:S_depth", int64(len(s.frames)))
	// what did the connect change (non-vacuity)?
	postQ := runQueries(st, f.keys)
	eff := map[string]bool{}
	for k, v := range postQ {
		if f.preQ[k] != v {
			eff[strings.SplitN(k, ":", 2)[0]] = true
		}
	}
	nontrivial := false
	for k, name := range map[string]string{"IsTx3Exist": "tx3", "GetProposalDraftDataByDraftHash": "draft", "IsSideChainReturnDepositExist": "retdeposit", "GetUTXO": "utxo", "GetUnspent": "unspent", "GetTransaction": "txindex"} {
		if eff[k] {
			c.Inc("S_effect:" + name)
			if name != "txindex" {
				nontrivial = true
			}
		}
	}
	var ids []string
	for _, tx := range f.blk.Transactions[1:] {
		ids = append(ids, tx.Hash().String()[:12])
	}
	c.Case(fmt.Sprintf("S:%d:%s:%s", len(s.frames), f.label, strings.Join(ids, ",")), nontrivial)
	for _, k := range strings.Split(f.label, "+") {
		if k != "" {
			c.Inc("S_tx:" + k)
		}
	}
	for _, tx := range f.wds {
		for _, h := range wdHashes(tx) {
			if s.popped[h] {
				c.Inc("S_reincluded_after_pop")
			}
		}
	}
	for i, tx := range f.wds {
		ok, _ := s.gate(tx, f.wdRefs[i])
		if ok {
			c.Inc(fmt.Sprintf("S_gate_accept_while_recorded:V%d", tx.PayloadVersion()))
		} else {
			c.Inc(fmt.Sprintf("S_gate_reject_while_recorded:V%d", tx.PayloadVersion()))
		}
	}
	if len(s.frames) <= 2 && c.Shard == 0 {
		c.Sample(map[string]interface{}{"level": "store", "op": "push", "height": f.blk.Height, "txs": f.label, "changed_queries": len(eff)})
	}
	return true
}

func (s *sChain) pop() {
	c := s.c
	st := s.nd.Store
	f := s.frames[len(s.frames)-1]
	c.Begin("C13 store pop h=%d %s", f.blk.Height, f.label)
	if err := st.RollbackBlock(f.blk, f.nd, nil, blockchain.CalcPastMedianTime(f.nd.Parent)); err != nil {
		c13Viol(c, "rollback:error", fmt.Sprintf("RollbackBlock of a block that was saved fails: %v (block: %s)", err, f.label), map[string]interface{}{"txs": f.label})
		// the store is in an unknown state now
		s.frames = nil
		return
	}
	c.Inc("S_pops")
	for name, on := range map[string]bool{
		"disconnected_blocks_spending_two_outputs_of_one_tx":      f.twoOutsOneTx || f.twoOutsSiblings,
		"disconnected_blocks_one_tx_spending_two_outputs_of_a_tx": f.twoOutsOneTx,
		"disconnected_blocks_two_txs_spending_outputs_of_one_tx":  f.twoOutsSiblings,
		"disconnected_return_deposit_with_change_first":           f.retChangeFirst,
		"disconnected_return_deposit_with_change_between_returns": f.retChangeMiddle,
		"disconnected_return_deposit_with_several_return_outputs": f.retMulti,
	} {
		if on {
			c.Inc(name)
		}
	}
	s.frames = s.frames[:len(s.frames)-1]
	s.tipN = f.nd.Parent
	if len(s.frames) > 0 {
		s.tipB = s.frames[len(s.frames)-1].blk
	} else {
		s.tipB = s.baseB
	}
	s.avail = f.avail
	raw, err := takeDump(st.GetFFLDB())
	if err != nil {
		c.Inconclusive("dump failed: %v", err)
		return
	}
	post, postBest := normalise(raw)
	clean := true
	c.Inc("S_dump_compares")
	if postBest != f.preBest {
		clean = false
		c13Viol(c, "rollback:best-state", fmt.Sprintf("best state after disconnect %s, before connect %s", postBest, f.preBest), nil)
	}
	diffs := diffDumps(f.pre, post)
	seen := map[string]bool{}
	for _, d := range diffs {
		if s.attributed[d.Path+"|"+d.Key] {
			continue
		}
		s.attributed[d.Path+"|"+d.Key] = true
		clean = false
		sig, detail := s.classify(f, d)
		if seen[sig] {
			continue
		}
		seen[sig] = true
		c13Viol(c, sig, detail, map[string]interface{}{"block_txs": f.label, "bucket": d.Path, "key": d.Key, "kind": d.Kind, "depth": len(s.frames) + 1})
	}
	// raw-only residue (order inside lists, empty lists/buckets, work sum): counted, not flagged
	for _, d := range diffDumps(stripBlockStorage(f.preRaw), stripBlockStorage(raw)) {
		isNorm := false
		for _, nd := range diffs {
			if nd.Path == d.Path && nd.Key == d.Key {
				isNorm = true
			}
		}
		if !isNorm {
			c.Inc("S_residue_not_flagged:" + bucketClass(d.Path) + ":" + d.Kind)
		}
	}
	// queries
	postQ := runQueries(st, f.keys)
	c.Inc("S_query_compares")
	qseen := map[string]bool{}
	for k, v := range f.preQ {
		if postQ[k] == v {
			continue
		}
		clean = false
		name := strings.SplitN(k, ":", 2)
		sig := "rollback:query-differs:" + name[0]
		detail := fmt.Sprintf("%s answered %q before the connect and %q after the disconnect (block: %s)", k, v, postQ[k], f.label)
		if name[0] == "IsTx3Exist" {
			var h common.Uint256
			for hh := range f.tx3Ver {
				if hh.String() == name[1] {
					h = hh
				}
			}
			sig = fmt.Sprintf("rollback:WithdrawFromSideChain.V%d-tx3-not-removed", f.tx3Ver[h])
		}
		if name[0] == "GetProposalDraftDataByDraftHash" && v != "absent" && postQ[k] == "absent" {
			sig = "rollback:proposal-draft-shared-hash-removed"
			detail += " — the data had been stored by an earlier transaction that is still on the chain"
		}
		if qseen[sig] {
			continue
		}
		qseen[sig] = true
		c13Viol(c, sig, detail, map[string]interface{}{"block_txs": f.label, "query": name[0]})
	}
	// re-inclusion gate: the rolled-back withdrawal must pass the context check again
	for i, tx := range f.wds {
		ok, why := s.gate(tx, f.wdRefs[i])
		if ok {
			c.Inc("S_gate_accept_after_pop")
		} else {
			clean = false
			c13Viol(c, fmt.Sprintf("rollback:withdrawal-not-reincludable:V%d", tx.PayloadVersion()),
				fmt.Sprintf("a V%d withdrawal accepted before the connect is rejected after its block was disconnected: %s", tx.PayloadVersion(), why), nil)
		}
		for _, h := range wdHashes(tx) {
			// recycle the hash for a later block unless it is (wrongly) still recorded
			if strings.HasPrefix(postQ["IsTx3Exist:"+h.String()], "false") {
				s.freeTx3 = append(s.freeTx3, h)
				s.popped[h] = true
			}
		}
	}
	for _, h := range f.keys.retdep {
		if postQ["IsSideChainReturnDepositExist:"+h.String()] == "false" {
			s.freeDep = append(s.freeDep, h)
		}
	}
	if clean {
		c.Inc("S_pops_clean")
	}
}

func stripBlockStorage(d mdump) mdump {
	o := mdump{}
	for p, m := range d {
		if p == "/ffldb-blockidx" || p == "/blockheaderidx" {
			continue
		}
		mm := map[string][]byte{}
		for k, v := range m {
			if p == "" && k == "ffldb-writeloc" {
				continue
			}
			mm[k] = v
		}
		o[p] = mm
	}
	return o
}

// classify maps one dump difference to a stable signature.
func (s *sChain) classify(f *sFrame, d ddiff) (string, string) {
	cls := bucketClass(d.Path)
	base := fmt.Sprintf("bucket %s key %s %s after connect+disconnect of a block with [%s]", d.Path, d.Key, d.Kind, f.label)
	if d.Path == bktTx3 && d.Kind == "added" {
		for h, v := range f.tx3Ver {
			if hex.EncodeToString(h[:]) == d.Key {
				return fmt.Sprintf("rollback:WithdrawFromSideChain.V%d-tx3-not-removed", v),
					fmt.Sprintf("side-chain tx hash %s recorded by a payload-V%d withdrawal is still in the Tx3 index after its block was disconnected (IsTx3Exist stays true). %s", h.String(), v, base)
			}
		}
	}
	if d.Path == bktDraft && d.Kind == "removed" {
		for h, was := range f.drafts {
			if hex.EncodeToString(h[:]) == d.Key && was {
				return "rollback:proposal-draft-shared-hash-removed",
					fmt.Sprintf("draft/opinion data %s was stored by an earlier block (still connected); a later block referencing the same hash was connected and disconnected, and the data is gone. %s", h.String(), base)
			}
		}
	}
	return "rollback:index-diff:" + cls + ":" + d.Kind, base
}

// ---------------------------------------------------------------- run

// c13Violated: this shard has already reported a violation (later set-up
// failures are then consequences, not reasons to call the run inconclusive).
var c13Violated bool

// c13Inherited: differences the store level left behind (already reported there).
var c13Inherited = map[string]bool{}

func c13Viol(c *kit.Ctx, sig, detail string, cas interface{}) {
	// (the content-addressed draft data finding does not damage the store once everything is unwound)
	if sig != "rollback:proposal-draft-shared-hash-removed" {
		c13Violated = true
	}
	c.Violate(sig, detail, cas)
}

func runC13(c *kit.Ctx) {
	nd, err := node.Start(node.Options{Dir: c.WorkDir, CoinbaseMaturity: 1})
	if err != nil {
		c.Inconclusive("node start: %v", err)
		return
	}
	defer nd.Close()
	r := c.Rand("c13")
	if err := nd.MineN(3); err != nil {
		c.Inconclusive("mining: %v", err)
		return
	}
	// store level first: it leaves the store exactly as it found it (everything
	// is unwound) unless a disconnect is not exact, which it then reports
	c13StoreLevel(c, nd, r)
	c13NodeLevel(c, nd, c.Rand("c13/node"))
}

func c13StoreLevel(c *kit.Ctx, nd *node.Node, r *rand.Rand) {
	st := nd.Store
	s := &sChain{c: c, nd: nd, r: r, popped: map[common.Uint256]bool{}, attributed: map[string]bool{}}
	s.tipN = nd.Chain.BestChain
	s.tipB = nd.TipBlock()
	baseN, baseB := s.tipN, s.tipB
	s.baseB = baseB
	for i := 0; i < 6; i++ {
		s.stdPH = append(s.stdPH, node.Key(20+i).ProgramHash)
		s.xPH = append(s.xPH, xHash(fmt.Sprint("c13/", i)))
	}
	// controlled arbiters for the re-inclusion gate
	s.arbs = arbKeys(300, 12)
	mock := state.NewArbitratorsMock(originMembers(s.arbs), 0, 8)
	mock.CRCArbitrators = originMembers(s.arbs)
	realArb := blockchain.DefaultLedger.Arbitrators
	blockchain.DefaultLedger.Arbitrators = mock
	defer func() { blockchain.DefaultLedger.Arbitrators = realArb }()
	cfg := *nd.Cfg
	cfg.SchnorrStartHeight = 1 << 30
	cfg.CRConfiguration.CRClaimDPOSNodeStartHeight = 10
	cfg.DPoSConfiguration.DPOSNodeCrossChainHeight = 1 << 30
	cfg.CrossChainUTXORestrictionHeight = 20
	cfg.CRConfiguration.MemberCount = 12
	cfg.CRConfiguration.CRAgreementCount = 8
	s.cfgGate = &cfg
	s.gateH = 1000

	raw0, err := takeDump(st.GetFFLDB())
	if err != nil {
		c.Inconclusive("dump failed: %v", err)
		return
	}
	d0, best0 := normalise(raw0)
	var buckets []string
	for p, m := range raw0 {
		buckets = append(buckets, fmt.Sprintf("%s(%d)", p, len(m)))
	}
	sort.Strings(buckets)
	if c.Shard == 0 {
		c.Sample(map[string]interface{}{"level": "store", "metadata_buckets_at_start": buckets})
	}
	c.Max("max:S_buckets_dumped", int64(len(raw0)))

	// base: a funding block (never popped until the very end) that spreads a
	// real mature coinbase over standard and X addresses, incl. zero values.
	var baseIn []sUTXO
	for h := uint32(1); h <= 2; h++ {
		b, err := nd.Chain.GetBlockByHeight(h)
		if err != nil {
			c.Inconclusive("base block: %v", err)
			return
		}
		cb := b.Transactions[0]
		for i, o := range cb.Outputs() {
			baseIn = append(baseIn, sUTXO{op: common2.OutPoint{TxID: cb.Hash(), Index: uint16(i)}, ph: o.ProgramHash, val: o.Value})
		}
	}
	s.avail = baseIn
	fund := func() *sFrame {
		f := &sFrame{keys: &qkeys{}, tx3Ver: map[common.Uint256]byte{}, drafts: map[common.Uint256]bool{}, tx3Was: map[common.Uint256]bool{}}
		f.avail = append([]sUTXO{}, s.avail...)
		us := s.take(len(s.avail), -1)
		ins, _, tot := insOf(us)
		var outs []*common2.Output
		nOut := 60
		per := tot / common.Fixed64(nOut)
		for i := 0; i < nOut; i++ {
			ph := s.stdPH[i%len(s.stdPH)]
			if i%2 == 1 {
				ph = s.xPH[(i/2)%len(s.xPH)]
			}
			v := per
			if i%10 == 9 {
				v = 0
			}
			outs = append(outs, defOut(ph, v))
		}
		tx := functions.CreateTransaction(common2.TxVersion09, common2.TransferAsset, 0, &payload.TransferAsset{}, []*common2.Attribute{}, ins, outs, 0,
			[]*pg.Program{{Code: []byte{1}, Parameter: []byte{1}}})
		h := s.tipB.Height + 1
		cb := nd.CoinbaseTx(nd.Miner.Address, h, 0xC13F<<32|uint64(c.Shard))
		cb.Outputs()[0].Value, cb.Outputs()[1].Value = 100, 200
		blk := &types.Block{Header: common2.Header{Previous: s.tipB.Hash(), Timestamp: s.tipB.Timestamp + 1, Bits: nd.Cfg.PowConfiguration.PowLimitBits, Height: h},
			Transactions: []interfaces.Transaction{cb, tx}}
		node.Seal(blk, false)
		f.blk, f.label = blk, "funding-transfer"
		for _, t := range blk.Transactions {
			f.keys.addTx(t.Hash())
			for i, o := range t.Outputs() {
				f.keys.addPH(o.ProgramHash)
				s.avail = append(s.avail, sUTXO{op: common2.OutPoint{TxID: t.Hash(), Index: uint16(i)}, ph: o.ProgramHash, val: o.Value})
			}
		}
		for _, u := range us {
			f.keys.addTx(u.op.TxID)
			f.keys.addPH(u.ph)
		}
		hash := blk.Hash()
		n := blockchain.NewBlockNode(&blk.Header, &hash)
		n.Parent = s.tipN
		n.WorkSum = new(big.Int).Add(s.tipN.WorkSum, n.WorkSum)
		f.nd = n
		return f
	}
	if !s.push(fund()) {
		c.Inconclusive("funding block could not be saved")
		return
	}
	baseDepth := 1

	walks := c.N(36, 720) // x 8 shards ≈ 300 / 6000 stacks
	for w := 0; w < walks && len(s.frames) >= baseDepth; w++ {
		maxDepth := 1 + r.Intn(5)
		ops := maxDepth + r.Intn(2*maxDepth+1)
		for o := 0; o < ops; o++ {
			depth := len(s.frames) - baseDepth
			if depth < maxDepth && (depth == 0 || r.Intn(3) != 0) {
				nk := 1 + r.Intn(5)
				var kinds []string
				for i := 0; i < nk; i++ {
					kinds = append(kinds, sKinds[r.Intn(len(sKinds))])
				}
				if w%9 == 0 && depth == 0 { // each kind regularly on its own
					kinds = []string{sKinds[(w/9+c.Shard)%len(sKinds)]}
				}
				s.push(s.buildBlock(kinds))
			} else if depth > 0 {
				s.pop()
			}
			if len(s.frames) < baseDepth {
				break
			}
		}
		for len(s.frames) > baseDepth {
			s.pop()
		}
		c.Inc("S_walks")
		// every 12th walk leaves one more permanent block (a richer base state)
		if w%12 == 11 && baseDepth < 6 && len(s.frames) == baseDepth {
			if s.push(s.buildBlock([]string{"transfer", "review", "tracking", "withdrawV1", "returnDeposit", "proposal"})) {
				baseDepth++
				c.Inc("S_base_extensions")
			}
		}
	}
	// unwind the base as well and compare with the very first dump
	for len(s.frames) > 0 {
		s.pop()
	}
	if s.tipN != baseN {
		return // a rollback error was reported
	}
	s.tipB = baseB
	rawE, err := takeDump(st.GetFFLDB())
	if err == nil {
		dE, bestE := normalise(rawE)
		c.Inc("S_full_unwind_compares")
		if df := diffDumps(d0, dE); len(df) > 0 || bestE != best0 {
			// individual pops already reported their part; this is the sum.
			// The node level must not report it once more.
			c.Inc("S_full_unwind_differs")
			for _, d := range df {
				c13Inherited[d.Path+"|"+d.Key] = true
			}
		}
	}
}

func c13min(a, b int) int {
	if a < b {
		return a
	}
	return b
}

package props

import (
	"bufio"
	"bytes"
	"encoding/json"
	"errors"
	"fmt"
	"os"
	"path/filepath"
	"sync/atomic"
	"syscall"
	"time"

	"github.com/btcsuite/btcd/wire"
	"github.com/elastos/Elastos.ELA/common"
	"github.com/elastos/Elastos.ELA/database"
	"github.com/elastos/Elastos.ELA/database/ffldb"
	"github.com/elastos/Elastos.ELA/utils/verifhook"
)

// C17 sub-process side: the scenario runner (which gets SIGKILLed at a chosen
// hook hit) and the verifier (reopen in a fresh process, compare with the
// model, commit some more, close, reopen, compare again).

const (
	c17EnvRole   = "VERIF_C17_ROLE"
	c17EnvParams = "VERIF_C17_PARAMS"
)

type c17Params struct {
	Role  string `json:"role"` // scenario | verify
	Dir   string `json:"dir"`
	Log   string `json:"log"`
	Out   string `json:"out"`
	Seed  int64  `json:"seed"`
	Small bool   `json:"small"`
	Cfg   string `json:"cfg"` // flush | wbsmall | wbdefault

	// scenario: count | kill | short | live | livekill
	// verify:   check | killopen
	Mode   string `json:"mode"`
	K      int    `json:"k"`      // kill at the K-th At hit (1-based); livekill: K-th hit after the injected failure
	W      int    `json:"w"`      // index (1-based) of the writeData call that is cut
	Prefix int    `json:"prefix"` // 0: nothing written, 1: one byte, 2: len-1 bytes, 3: half

	// verify
	Lo     int   `json:"lo"`
	Hi     int   `json:"hi"`
	Failed []int `json:"failed"`
	Extra  int   `json:"extra"`
}

type c17Problem struct {
	Symptom string `json:"symptom"`
	Detail  string `json:"detail"`
}

type c17ScenResult struct {
	Done          bool           `json:"done"`
	Err           string         `json:"err,omitempty"` // structural problem of the harness
	Hits          int            `json:"hits"`
	Names         map[string]int `json:"names"`
	Seq           []string       `json:"seq,omitempty"` // hook name per hit (count mode)
	PartialCalls  int            `json:"partial_calls"`
	PartialLens   []int          `json:"partial_lens,omitempty"`
	Rollovers     int            `json:"rollovers"`
	Injected      int            `json:"injected"` // attempt in which the write failure was injected
	HitsAfterFail int            `json:"hits_after_fail"`
	Problems      []c17Problem   `json:"problems,omitempty"`
	Commits       int            `json:"commits"`
	Blocks        int            `json:"blocks"`
	FinalFile     uint32         `json:"final_file"`
}

type c17VerifyResult struct {
	Done        bool           `json:"done"`
	Err         string         `json:"err,omitempty"`
	J           int            `json:"j"`
	OpenHits    int            `json:"open_hits"`
	OpenNames   map[string]int `json:"open_names,omitempty"`
	Problems    []c17Problem   `json:"problems,omitempty"`
	BlocksRead  int            `json:"blocks_read"`
	BlocksAbs   int            `json:"blocks_absent"`
	ExtraOK     int            `json:"extra_ok"`
	FilesBefore int            `json:"files_before"`
	FilesAfter  int            `json:"files_after"`
}

func init() {
	role := os.Getenv(c17EnvRole)
	if role == "" {
		return
	}
	// This process is a C17 scenario/verify sub-process re-executed by the
	// check's Run function; it never reaches main().
	var p c17Params
	if err := json.Unmarshal([]byte(os.Getenv(c17EnvParams)), &p); err != nil {
		fmt.Fprintln(os.Stderr, "c17 sub: bad params:", err)
		os.Exit(3)
	}
	switch role {
	case "scenario":
		c17WriteJSON(p.Out, c17RunScenario(&p))
	case "verify":
		c17WriteJSON(p.Out, c17RunVerify(&p))
	case "verifyd":
		c17VerifyServer()
	default:
		os.Exit(3)
	}
	os.Exit(0)
}

// c17VerifyServer answers verify requests (one JSON object per line on stdin,
// one JSON result per line on stdout), one at a time. It saves a process start
// per reopen; every request opens the directory with a brand-new DB object in
// a process that is not the one that crashed.
func c17VerifyServer() {
	in := bufio.NewReaderSize(os.Stdin, 1<<20)
	out := bufio.NewWriter(os.Stdout)
	for {
		line, err := in.ReadBytes('\n')
		if len(line) > 1 {
			var p c17Params
			var res *c17VerifyResult
			if jerr := json.Unmarshal(line, &p); jerr != nil {
				res = &c17VerifyResult{J: -1, Err: "bad request: " + jerr.Error()}
			} else {
				res = c17RunVerify(&p)
			}
			b, _ := json.Marshal(res)
			out.Write(b)
			out.WriteByte('\n')
			out.Flush()
		}
		if err != nil {
			return
		}
	}
}

func c17WriteJSON(path string, v interface{}) {
	b, _ := json.Marshal(v)
	tmp := path + ".tmp"
	os.WriteFile(tmp, b, 0644)
	os.Rename(tmp, path)
}

func c17Open(p *c17Params, sc *c17Scenario, create bool) (database.DB, error) {
	o := ffldb.VerifCrashOptions{MaxBlockFileSize: sc.MaxFile}
	switch p.Cfg {
	case "flush":
		// a negative interval makes needsFlush true on every commit
		o.SetCache, o.CacheSize, o.FlushInterval = true, 20<<20, -1
	case "wbsmall":
		o.SetCache, o.CacheSize, o.FlushInterval = true, sc.Cache, 300*time.Second
	case "wbdefault":
	}
	return ffldb.VerifOpenCrash(p.Dir, wire.MainNet, create, o)
}

func c17KillSelf() {
	syscall.Kill(os.Getpid(), syscall.SIGKILL)
	select {}
}

var errC17Abort = errors.New("c17: caller aborts the transaction")

// c17ApplyReal drives one attempt against a write transaction, mirroring
// c17State.apply.
func c17ApplyReal(tx database.Tx, at *c17Attempt) error {
	for i := range at.Blocks {
		b := &at.Blocks[i]
		if err := tx.StoreBlock(common.Uint256(b.Hash), b.Data); err != nil {
			return fmt.Errorf("StoreBlock: %v", err)
		}
	}
	for _, op := range at.Ops {
		bk := tx.Metadata()
		for _, pth := range op.Path {
			if bk = bk.Bucket([]byte(pth)); bk == nil {
				break
			}
		}
		if bk == nil {
			continue
		}
		var err error
		switch op.Kind {
		case "put":
			err = bk.Put([]byte(op.Key), []byte(op.Val))
		case "del":
			err = bk.Delete([]byte(op.Key))
		case "mkb":
			_, err = bk.CreateBucketIfNotExists([]byte(op.Key))
		case "rmb":
			if bk.Bucket([]byte(op.Key)) != nil {
				err = bk.DeleteBucket([]byte(op.Key))
			}
		}
		if err != nil {
			return fmt.Errorf("%s %v/%s: %v", op.Kind, op.Path, op.Key, err)
		}
	}
	return nil
}

// c17DumpBucket renders what the database shows, in the model's canonical
// form. The two ffldb-internal entries of the root bucket are not user data.
func c17DumpBucket(b database.Bucket, root bool, m *c17Bucket) error {
	err := b.ForEach(func(k, v []byte) error {
		if root && string(k) == "ffldb-writeloc" {
			return nil
		}
		m.KV[string(k)] = string(v)
		return nil
	})
	if err != nil {
		return err
	}
	var names []string
	err = b.ForEachBucket(func(k []byte) error {
		if root && string(k) == "ffldb-blockidx" {
			return nil
		}
		names = append(names, string(k))
		return nil
	})
	if err != nil {
		return err
	}
	for _, n := range names {
		sub := b.Bucket([]byte(n))
		if sub == nil {
			return fmt.Errorf("bucket %q listed by ForEachBucket but Bucket() returns nil", n)
		}
		sm := newC17Bucket()
		m.Sub[n] = sm
		if err := c17DumpBucket(sub, false, sm); err != nil {
			return err
		}
	}
	return nil
}

// c17Observe reads everything the property talks about from an open database:
// the metadata tree and, for every block the scenario ever tried to store,
// whether it is reported present and what FetchBlock returns.
type c17Obs struct {
	Meta     string
	Has      map[[32]byte]bool
	Data     map[[32]byte][]byte
	FetchErr map[[32]byte]string
	IdxCount int
}

func c17Observe(db database.DB, all []c17Block) (*c17Obs, error) {
	o := &c17Obs{Has: map[[32]byte]bool{}, Data: map[[32]byte][]byte{}, FetchErr: map[[32]byte]string{}, IdxCount: -1}
	err := db.View(func(tx database.Tx) error {
		m := newC17Bucket()
		if err := c17DumpBucket(tx.Metadata(), true, m); err != nil {
			return err
		}
		st := &c17State{Root: m}
		o.Meta = st.metaDump()
		if idx := tx.Metadata().Bucket([]byte("ffldb-blockidx")); idx != nil {
			o.IdxCount = 0
			idx.ForEach(func(k, v []byte) error { o.IdxCount++; return nil })
		}
		for i := range all {
			h := common.Uint256(all[i].Hash)
			has, err := tx.HasBlock(h)
			if err != nil {
				return fmt.Errorf("HasBlock: %v", err)
			}
			o.Has[all[i].Hash] = has
			d, err := tx.FetchBlock(&h)
			if err != nil {
				o.FetchErr[all[i].Hash] = err.Error()
			} else {
				o.Data[all[i].Hash] = append([]byte(nil), d...)
			}
		}
		return nil
	})
	return o, err
}

// c17Match compares an observation with one model state; "" means equal.
func c17Match(o *c17Obs, st *c17State, all []c17Block) (symptom, detail string) {
	if o.Meta != st.metaDump() {
		return "metadata-differs", ""
	}
	for i := range all {
		h := all[i].Hash
		want, in := st.Blocks[h]
		switch {
		case in && !o.Has[h]:
			return "committed-block-missing", "HasBlock=false for block " + c17ShortHash(h)
		case in && o.FetchErr[h] != "":
			return "committed-block-unreadable", "block " + c17ShortHash(h) + ": " + o.FetchErr[h]
		case in && !bytes.Equal(o.Data[h], want):
			return "committed-block-bytes-differ", fmt.Sprintf("block %s: got %d bytes, want %d", c17ShortHash(h), len(o.Data[h]), len(want))
		case !in && o.Has[h]:
			return "uncommitted-block-present", "HasBlock=true for block " + c17ShortHash(h)
		case !in && o.FetchErr[h] == "":
			return "uncommitted-block-readable", "FetchBlock succeeded for block " + c17ShortHash(h)
		}
	}
	if o.IdxCount >= 0 && o.IdxCount != len(st.Blocks) {
		return "block-index-count", fmt.Sprintf("block index holds %d entries, state has %d blocks", o.IdxCount, len(st.Blocks))
	}
	return "", ""
}

func c17CountBlockFiles(dir string) int {
	m, _ := filepath.Glob(filepath.Join(dir, "*.fdb"))
	return len(m)
}

// ---------------------------------------------------------------- scenario

func c17RunScenario(p *c17Params) *c17ScenResult {
	res := &c17ScenResult{Names: map[string]int{}}
	sc := c17Gen(p.Seed, p.Small)
	logf, err := os.OpenFile(p.Log, os.O_CREATE|os.O_WRONLY|os.O_APPEND, 0644)
	if err != nil {
		res.Err = "log: " + err.Error()
		return res
	}
	logLine := func(format string, a ...interface{}) { fmt.Fprintf(logf, format+"\n", a...) }

	var cur, lastDone int    // attempt in progress / last completed attempt
	var hits, partials int64 // At hits, Partial calls
	var failedAt int64 = -1  // hits value at the moment of the injected failure
	var inClose bool
	verifhook.Set(func(name string) {
		n := atomic.AddInt64(&hits, 1)
		res.Names[name]++
		if p.Mode == "count" {
			res.Seq = append(res.Seq, name)
		}
		switch name {
		case "ffldb.writeBlock.afterRollover":
			res.Rollovers++
			logLine("rollover %d", cur)
		case "ffldb.flush.afterCommitTreaps":
			// the cache (all completed attempts) has just been made durable
			logLine("flushed %d", lastDone)
		case "ffldb.commitTx.afterDirectCommit":
			// the attempt in progress has been written through
			logLine("flushed %d", cur)
		}
		switch p.Mode {
		case "kill":
			if int(n) == p.K {
				logLine("kill %s", name)
				c17KillSelf()
			}
		case "short":
			if name == "ffldb.writeData.short" {
				logLine("kill %s", name)
				c17KillSelf()
			}
		case "livekill":
			if failedAt >= 0 && int(n-failedAt) == p.K {
				logLine("kill %s", name)
				c17KillSelf()
			}
		}
		_ = inClose
	})
	verifhook.SetPartial(func(name string, n int) (int, bool) {
		w := atomic.AddInt64(&partials, 1)
		if p.Mode == "count" {
			res.PartialLens = append(res.PartialLens, n)
		}
		if (p.Mode == "short" || p.Mode == "live" || p.Mode == "livekill") && int(w) == p.W {
			pn := 0
			switch p.Prefix {
			case 1:
				pn = 1
			case 2:
				pn = n - 1
			case 3:
				pn = n / 2
			}
			if pn > n {
				pn = n
			}
			if pn < 0 {
				pn = 0
			}
			res.Injected = cur
			failedAt = atomic.LoadInt64(&hits)
			logLine("injected %d", cur)
			return pn, true
		}
		return n, false
	})

	db, err := c17Open(p, sc, true)
	if err != nil {
		res.Err = "create: " + err.Error()
		return res
	}
	all := c17AllBlocks(sc, nil)
	model := newC17State()
	live := p.Mode == "live"
	check := func(where string) {
		o, err := c17Observe(db, all)
		if err != nil {
			res.Problems = append(res.Problems, c17Problem{"read-failed-" + where, err.Error()})
			return
		}
		if s, d := c17Match(o, model, all); s != "" {
			res.Problems = append(res.Problems, c17Problem{s + "-" + where, d})
		}
	}
	for i := range sc.Attempts {
		at := &sc.Attempts[i]
		cur = i + 1
		logLine("begin %d", cur)
		var opErr error
		err := db.Update(func(tx database.Tx) error {
			if opErr = c17ApplyReal(tx, at); opErr != nil {
				return opErr
			}
			if at.Abort {
				return errC17Abort
			}
			return nil
		})
		switch {
		case opErr != nil:
			res.Err = fmt.Sprintf("attempt %d: %v", cur, opErr)
			return res
		case at.Abort && err == errC17Abort:
			logLine("abort %d", cur)
		case err != nil:
			logLine("fail %d", cur)
			if res.Injected == cur {
				res.HitsAfterFail = int(atomic.LoadInt64(&hits) - failedAt)
				if live {
					check("after-failed-commit")
				}
			} else if res.Injected > 0 {
				res.Problems = append(res.Problems, c17Problem{"later-commit-failed", fmt.Sprintf("attempt %d after injected failure in %d: %v", cur, res.Injected, err)})
			} else {
				res.Err = fmt.Sprintf("attempt %d failed without injection: %v", cur, err)
				return res
			}
		default:
			if res.Injected == cur {
				res.Problems = append(res.Problems, c17Problem{"commit-ok-despite-write-error", fmt.Sprintf("attempt %d", cur)})
			}
			model.apply(at)
			res.Commits++
			res.Blocks += len(at.Blocks)
			logLine("done %d", cur)
			if live && res.Injected > 0 && cur == res.Injected+1 {
				check("after-next-commit")
			}
		}
		lastDone = cur
	}
	if live {
		check("before-close")
	}
	res.FinalFile, _ = ffldb.VerifWriteCursor(db)
	logLine("closing")
	inClose = true
	if err := db.Close(); err != nil {
		res.Err = "close: " + err.Error()
		return res
	}
	logLine("closed")
	res.Hits = int(atomic.LoadInt64(&hits))
	res.PartialCalls = int(atomic.LoadInt64(&partials))
	res.Done = true
	return res
}

// ---------------------------------------------------------------- verify

func c17RunVerify(p *c17Params) *c17VerifyResult {
	res := &c17VerifyResult{J: -1, OpenNames: map[string]int{}}
	sc := c17Gen(p.Seed, p.Small)
	failed := map[int]bool{}
	for _, f := range p.Failed {
		failed[f] = true
	}
	states := c17States(sc, failed)
	extras := c17Extras(sc, p.Extra)
	all := c17AllBlocks(sc, extras)
	var hits int64
	verifhook.Set(func(name string) {
		n := atomic.AddInt64(&hits, 1)
		res.OpenNames[name]++
		if p.Mode == "killopen" && int(n) == p.K {
			os.WriteFile(p.Out+".kill", []byte(name), 0644)
			c17KillSelf()
		}
	})
	res.FilesBefore = c17CountBlockFiles(p.Dir)
	db, err := c17Open(p, sc, false)
	res.OpenHits = int(atomic.LoadInt64(&hits))
	verifhook.Set(nil)
	if err != nil {
		res.Problems = append(res.Problems, c17Problem{"reopen-failed", err.Error()})
		res.Done = true
		return res
	}
	res.FilesAfter = c17CountBlockFiles(p.Dir)
	if p.Mode == "killopen" {
		// the kill position was beyond the hooks hit while opening
		res.Err = "killopen: not killed"
		db.Close()
		return res
	}
	o, err := c17Observe(db, all)
	if err != nil {
		res.Problems = append(res.Problems, c17Problem{"read-after-reopen-failed", err.Error()})
		res.Done = true
		db.Close()
		return res
	}
	// which S_j is this? Prefer the newest state inside the allowed window.
	firstSym, firstDet := "", ""
	for j := p.Hi; j >= p.Lo; j-- {
		s, d := c17Match(o, states[j], all)
		if s == "" {
			res.J = j
			break
		}
		if firstSym == "" || s != "metadata-differs" && firstSym == "metadata-differs" {
			firstSym, firstDet = s, fmt.Sprintf("vs S_%d: %s", j, d)
		}
	}
	if res.J < 0 {
		// diagnose: some other commit boundary, or no boundary at all
		other := -1
		for j := len(states) - 1; j >= 0; j-- {
			if s, _ := c17Match(o, states[j], all); s == "" {
				other = j
				break
			}
		}
		metaJ := -1
		for j := len(states) - 1; j >= 0; j-- {
			if o.Meta == states[j].metaDump() {
				metaJ = j
				break
			}
		}
		switch {
		case other >= 0 && other < p.Lo:
			res.Problems = append(res.Problems, c17Problem{"durable-commit-lost",
				fmt.Sprintf("database shows S_%d, allowed window [S_%d,S_%d]", other, p.Lo, p.Hi)})
		case other >= 0:
			res.Problems = append(res.Problems, c17Problem{"state-ahead-of-history",
				fmt.Sprintf("database shows S_%d, allowed window [S_%d,S_%d]", other, p.Lo, p.Hi)})
		case metaJ >= 0:
			s, d := c17Match(o, states[metaJ], all)
			res.Problems = append(res.Problems, c17Problem{"mixture-" + s,
				fmt.Sprintf("metadata is S_%d (window [S_%d,S_%d]) but blocks are not: %s", metaJ, p.Lo, p.Hi, d)})
		default:
			res.Problems = append(res.Problems, c17Problem{"mixture-metadata-not-a-commit-state",
				fmt.Sprintf("metadata equals no S_j; window [S_%d,S_%d]; first difference %s %s", p.Lo, p.Hi, firstSym, firstDet)})
		}
		res.Done = true
		db.Close()
		return res
	}
	for h := range states[res.J].Blocks {
		_ = h
		res.BlocksRead++
	}
	res.BlocksAbs = len(all) - res.BlocksRead

	// later commits continue to work: first retry the attempt that follows
	// the recovered state (what a node does after a crash), then fresh ones.
	model := states[res.J].clone()
	var todo []c17Attempt
	if res.J < len(sc.Attempts) {
		retry := sc.Attempts[res.J]
		retry.Abort = false
		todo = append(todo, retry)
	}
	todo = append(todo, extras...)
	for i := range todo {
		at := &todo[i]
		var opErr error
		err := db.Update(func(tx database.Tx) error {
			opErr = c17ApplyReal(tx, at)
			return opErr
		})
		if err != nil {
			res.Problems = append(res.Problems, c17Problem{"later-commit-failed",
				fmt.Sprintf("commit %d after recovery to S_%d: %v", i+1, res.J, err)})
			res.Done = true
			db.Close()
			return res
		}
		model.apply(at)
		res.ExtraOK++
	}
	o, err = c17Observe(db, all)
	if err != nil {
		res.Problems = append(res.Problems, c17Problem{"read-after-later-commits-failed", err.Error()})
	} else if s, d := c17Match(o, model, all); s != "" {
		res.Problems = append(res.Problems, c17Problem{"after-later-commits-" + s, d})
	}
	if err := db.Close(); err != nil {
		res.Problems = append(res.Problems, c17Problem{"close-failed", err.Error()})
		res.Done = true
		return res
	}
	// a clean Close must preserve exactly the last completed commit
	db, err = c17Open(p, sc, false)
	if err != nil {
		res.Problems = append(res.Problems, c17Problem{"second-reopen-failed", err.Error()})
		res.Done = true
		return res
	}
	o, err = c17Observe(db, all)
	if err != nil {
		res.Problems = append(res.Problems, c17Problem{"read-after-second-reopen-failed", err.Error()})
	} else if s, d := c17Match(o, model, all); s != "" {
		res.Problems = append(res.Problems, c17Problem{"after-clean-close-" + s, d})
	}
	db.Close()
	res.Done = true
	return res
}

package props

import (
	"bytes"
	"fmt"
	"io"
	"os"
	"path/filepath"
	"sync"

	"github.com/elastos/Elastos.ELA/blockchain/indexers"
	"github.com/elastos/Elastos.ELA/common"
	"github.com/elastos/Elastos.ELA/common/config"
	"github.com/elastos/Elastos.ELA/core/types/payload"
	crstate "github.com/elastos/Elastos.ELA/cr/state"
	"github.com/elastos/Elastos.ELA/dpos/state"
	"github.com/elastos/Elastos.ELA/mempool"

	"verif/kit/node"
)

// On-disk decoders: state checkpoints and caches the node reads back at start.
// Honest templates of the DPoS / CR checkpoints come from a real in-process
// node (started lazily inside the worker of that decoder).

var (
	c02NodeOnce sync.Once
	c02Node     *node.Node
	c02NodeErr  error
)

func c02LiveNode() (*node.Node, error) {
	c02NodeOnce.Do(func() {
		dir, err := os.MkdirTemp(os.Getenv("VERIF_C02_NODE_DIR"), "c02node")
		if err != nil {
			c02NodeErr = err
			return
		}
		c02Node, c02NodeErr = node.Start(node.Options{Dir: filepath.Join(dir, "n"), CoinbaseMaturity: 2})
		if c02NodeErr == nil {
			c02Node.MineN(3)
		}
	})
	return c02Node, c02NodeErr
}

func c02ExtraDecoders() []*c02Decoder {
	fam := "disk"
	params := config.GetDefaultParams()
	return []*c02Decoder{
		// stored inside the DPoS state key frame (votes of DPoS 2.0 stakers)
		c02SerDec(fam, "disk.payload.DetailedVoteInfo", func() c02Serializable { return &payload.DetailedVoteInfo{} }, nil),
		{
			name: "disk.mempool.txFeeOrderedList", family: fam,
			decode: func(b []byte, _ byte) error { return mempool.VerifNewTxFeeList().Deserialize(bytes.NewReader(b)) },
			gen: func(f *c02Filler, w io.Writer) (byte, error) {
				l := mempool.VerifNewTxFeeList()
				for i := f.r.Intn(f.maxSlice + 1); i > 0; i-- {
					var h common.Uint256
					f.r.Read(h[:])
					l.Add(h, f.r.Float64()*1000, uint32(f.r.Intn(100000)))
				}
				return 0, l.Serialize(w)
			},
		},
		{
			name: "disk.indexers.TxCache", family: fam,
			decode: func(b []byte, _ byte) error { return indexers.NewTxCache(params).Deserialize(bytes.NewReader(b)) },
			gen: func(f *c02Filler, w io.Writer) (byte, error) {
				// fill a cache through its own decoder from hand-assembled
				// entries, then let the real encoder produce the template
				var buf bytes.Buffer
				n := f.r.Intn(f.maxSlice + 1)
				common.WriteVarUint(&buf, uint64(n))
				tts := c02AllTxTypes()
				for i := 0; i < n; i++ {
					common.WriteUint32(&buf, f.r.Uint32())
					tx, err := c02GenTx(f, tts[f.r.Intn(len(tts))], c02GenVersions[f.r.Intn(len(c02GenVersions))])
					if err != nil {
						return 0, err
					}
					if err := tx.Serialize(&buf); err != nil {
						return 0, err
					}
				}
				tc := indexers.NewTxCache(params)
				if err := tc.Deserialize(bytes.NewReader(buf.Bytes())); err != nil {
					return 0, err
				}
				return 0, tc.Serialize(w)
			},
		},
		{
			name: "disk.dpos.CheckPoint", family: fam,
			decode: func(b []byte, _ byte) error { return (&state.CheckPoint{}).Deserialize(bytes.NewReader(b)) },
			gen: func(f *c02Filler, w io.Writer) (byte, error) {
				nd, err := c02LiveNode()
				if err != nil {
					return 0, fmt.Errorf("node: %v", err)
				}
				nd.MineN(1)
				return 0, state.NewCheckpoint(nd.Arbiters).Serialize(w)
			},
		},
		{
			name: "disk.cr.Checkpoint", family: fam,
			decode: func(b []byte, _ byte) error { return (&crstate.Checkpoint{}).Deserialize(bytes.NewReader(b)) },
			gen: func(f *c02Filler, w io.Writer) (byte, error) {
				nd, err := c02LiveNode()
				if err != nil {
					return 0, fmt.Errorf("node: %v", err)
				}
				nd.MineN(1)
				return 0, crstate.NewCheckpoint(nd.Committee).Serialize(w)
			},
		},
	}
}

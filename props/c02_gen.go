package props

import (
	"math/rand"
	"reflect"
	"strings"
	"time"
)

// ---------------------------------------------------------------------------
// Reflect filler: builds well-formed values of the repository's wire types so
// that their own Serialize produces the honest corpus of C02/C35. It only
// chooses field values; the bytes are always produced by the real encoder.
// ---------------------------------------------------------------------------

// c02RecWriter records the boundaries of every Write call of an encoder. One
// Write is one wire field (or a piece of one): common.WriteVarUint emits the
// discriminant and the value as separate writes, fixed ints are one write of
// 1/2/4/8 bytes, byte strings one write.
type c02RecWriter struct {
	buf  []byte
	segs []c02Seg
}

type c02Seg struct{ off, n int }

func (w *c02RecWriter) Write(p []byte) (int, error) {
	if len(p) > 0 {
		w.segs = append(w.segs, c02Seg{len(w.buf), len(p)})
	}
	w.buf = append(w.buf, p...)
	return len(p), nil
}

// template is one honest serialisation plus its field map.
type c02Template struct {
	bytes []byte
	segs  []c02Seg
	ver   byte   // payload version it was produced with (payload decoders)
	label string // what it is (for samples)
}

type c02Filler struct {
	r *rand.Rand
	// maxSlice bounds slice lengths of generated values.
	maxSlice int
	depth    int
}

func c02NewFiller(r *rand.Rand) *c02Filler { return &c02Filler{r: r, maxSlice: 3} }

var (
	c02TimeType = reflect.TypeOf(time.Time{})
)

func (f *c02Filler) bytesFor(name string) []byte {
	n := 0
	ln := strings.ToLower(name)
	switch {
	case strings.Contains(ln, "publickey") || strings.Contains(ln, "ownerkey") || strings.Contains(ln, "sponsor") ||
		strings.Contains(ln, "signer") || strings.Contains(ln, "arbitrator") || ln == "pid" || strings.Contains(ln, "nodekey"):
		n = 33
	case strings.Contains(ln, "sign"):
		n = 64
	case strings.Contains(ln, "code"):
		// standard single-signature redeem script: PUSH33 <pubkey> CHECKSIG
		b := make([]byte, 35)
		f.r.Read(b)
		b[0] = 33
		b[1] = 2 + byte(f.r.Intn(2))
		b[34] = 0xac
		return b
	default:
		switch f.r.Intn(6) {
		case 0:
			n = 0
		case 1:
			n = 1
		case 2:
			n = 33
		default:
			n = f.r.Intn(48)
		}
	}
	b := make([]byte, n)
	f.r.Read(b)
	if n == 33 {
		b[0] = 2 + byte(f.r.Intn(2))
	}
	return b
}

func (f *c02Filler) str() string {
	const al = "abcdefghijklmnopqrstuvwxyz0123456789.-/:"
	n := f.r.Intn(20)
	b := make([]byte, n)
	for i := range b {
		b[i] = al[f.r.Intn(len(al))]
	}
	return string(b)
}

// smallInt: mostly tiny values (enums, versions, counts), sometimes anything.
func (f *c02Filler) uintN(bits int) uint64 {
	switch f.r.Intn(8) {
	case 0:
		return 0
	case 1, 2, 3:
		return uint64(f.r.Intn(4))
	case 4:
		return uint64(f.r.Intn(16))
	case 5:
		return uint64(f.r.Intn(1 << 10))
	default:
		v := f.r.Uint64()
		if bits < 64 {
			v &= (1 << uint(bits)) - 1
		}
		return v
	}
}

// Fill sets every exported field reachable from v (a pointer) to a generated
// value. fieldName is used for byte-slice length hints.
func (f *c02Filler) Fill(v reflect.Value, fieldName string) {
	f.depth++
	defer func() { f.depth-- }()
	switch v.Kind() {
	case reflect.Ptr:
		if v.IsNil() {
			if !v.CanSet() {
				return
			}
			v.Set(reflect.New(v.Type().Elem()))
		}
		f.Fill(v.Elem(), fieldName)
	case reflect.Struct:
		if v.Type() == c02TimeType {
			if v.CanSet() {
				v.Set(reflect.ValueOf(time.Unix(int64(f.r.Intn(1<<30)), 0)))
			}
			return
		}
		for i := 0; i < v.NumField(); i++ {
			sf := v.Type().Field(i)
			if sf.PkgPath != "" && !sf.Anonymous { // unexported
				continue
			}
			f.Fill(v.Field(i), sf.Name)
		}
	case reflect.Slice:
		if !v.CanSet() {
			return
		}
		if v.Type().Elem().Kind() == reflect.Uint8 {
			b := f.bytesFor(fieldName)
			nv := reflect.MakeSlice(v.Type(), len(b), len(b))
			for i := range b { // element type may be a named byte type
				nv.Index(i).SetUint(uint64(b[i]))
			}
			v.Set(nv)
			return
		}
		n := f.r.Intn(f.maxSlice + 1)
		if f.depth > 6 {
			n = 0
		}
		nv := reflect.MakeSlice(v.Type(), n, n)
		for i := 0; i < n; i++ {
			f.Fill(nv.Index(i), fieldName)
		}
		v.Set(nv)
	case reflect.Array:
		for i := 0; i < v.Len(); i++ {
			if v.Type().Elem().Kind() == reflect.Uint8 {
				if v.Index(i).CanSet() {
					v.Index(i).SetUint(uint64(f.r.Intn(256)))
				}
			} else {
				f.Fill(v.Index(i), fieldName)
			}
		}
	case reflect.Map:
		if !v.CanSet() {
			return
		}
		n := f.r.Intn(f.maxSlice + 1)
		if f.depth > 6 {
			n = 0
		}
		m := reflect.MakeMap(v.Type())
		for i := 0; i < n; i++ {
			k := reflect.New(v.Type().Key()).Elem()
			f.Fill(k, fieldName)
			e := reflect.New(v.Type().Elem()).Elem()
			f.Fill(e, fieldName)
			m.SetMapIndex(k, e)
		}
		v.Set(m)
	case reflect.String:
		if v.CanSet() {
			v.SetString(f.str())
		}
	case reflect.Bool:
		if v.CanSet() {
			v.SetBool(f.r.Intn(2) == 0)
		}
	case reflect.Uint8, reflect.Uint16, reflect.Uint32, reflect.Uint64, reflect.Uint:
		if v.CanSet() {
			v.SetUint(f.uintN(v.Type().Bits()))
		}
	case reflect.Int8, reflect.Int16, reflect.Int32, reflect.Int64, reflect.Int:
		if v.CanSet() {
			x := int64(f.uintN(v.Type().Bits() - 1))
			v.SetInt(x)
		}
	case reflect.Interface:
		// left nil; callers that need interface fields set them explicitly
	}
}

package props

import (
	"fmt"
	"math"
	"sort"

	"github.com/elastos/Elastos.ELA/account"
	"github.com/elastos/Elastos.ELA/common"
	common2 "github.com/elastos/Elastos.ELA/core/types/common"
	"github.com/elastos/Elastos.ELA/core/types/interfaces"
	"github.com/elastos/Elastos.ELA/core/types/payload"
	"github.com/elastos/Elastos.ELA/dpos/state"

	"verif/kit/node"
)

// c28_ops.go — the subjects of a C28 history: what they may do in the next
// block and the over-draw variant of every operation.

type c28Prod struct {
	name           string
	owner, nodeKey *account.Account
	ownerHex       string
	addr           common.Uint168
	registered     bool
	wantV2         bool // registers as a DPoS v2 producer with a short StakeUntil
	penalised      bool
	busy           bool
	cancelAt       uint32 // scheduled explicit cancel height (0 = random)
	role           string // dposv2-era: "upgrade-v1v2" | "cancel-at-activation" | "v1-until-activation" ("" = free)
	done           map[string]int
}

type c28CR struct {
	name       string
	acc        *account.Account
	cid        common.Uint168
	cidHex     string
	addr       common.Uint168
	registered bool
	lost       bool
	busy       bool
	done       map[string]int
}

type c28Staker struct {
	name string
	acc  *account.Account
	addr common.Uint168
	busy bool
	done map[string]int
}

func c28Did(m *map[string]int, k string) int {
	if *m == nil {
		*m = map[string]int{}
	}
	(*m)[k]++
	return (*m)[k]
}

func (k *c28) actSubjects() {
	for _, p := range k.prods {
		force := false
		if d := k.m.prods[p.ownerHex]; d != nil && !d.canceled {
			act := k.nd.Arbiters.GetDPoSV2ActiveHeight()
			switch {
			case p.role == "cancel-when-activating" && p.cancelAt == 0:
				p.cancelAt = d.regH + 5
			case p.role == "cancel-at-activation" && p.cancelAt == 0 && act != math.MaxUint32 && k.nd.Height()+1 <= act:
				p.cancelAt = act
			}
			force = p.cancelAt == k.nd.Height()+1
		}
		if !p.busy && (force || k.r.Intn(100) < 40) {
			k.actProducer(p)
		}
		if k.fatal {
			return
		}
	}
	for _, c := range k.crs {
		if !c.busy && k.r.Intn(100) < 55 {
			k.actCR(c)
		}
		if k.fatal {
			return
		}
	}
	if k.v2 && k.nd.Height()+1 >= k.era.DPoSV2Start {
		for _, s := range k.stakers {
			if !s.busy && k.r.Intn(100) < 70 {
				k.actStaker(s)
			}
			if k.fatal {
				return
			}
		}
	}
}

// ---------- deposit returns (shared by producers and CR candidates) ----------

type c28Ret struct {
	nodeAvail int64  // the node's own available amount (planning only)
	fam       string // "return-deposit" | "return-cr-deposit"
	honest    string // counter kind of the honest tx
	subj      string
	taint     string
	owner     *account.Account
	addr      common.Uint168
	dep       *c28Dep
	build     func(ins []node.UTXORef, amount common.Fixed64) interfaces.Transaction
	buildAll  func(ins []node.UTXORef) interfaces.Transaction
	txType    common2.TxType
}

// ---------- output shapes of a deposit return ----------
//
// Besides "amount to the owner's plain address + change to the own deposit
// address" a return may pay to FOREIGN deposit addresses (another registered
// producer, a CR candidate, a deposit address nobody registered) or to a
// mixture. Only outputs to the spender's OWN deposit address stay locked;
// everything else leaves the deposit and must fit into the available amount.

type c28Dest struct {
	addr common.Uint168
	what string // "producer" | "cr" | "unregistered"
}

func (k *c28) foreignDests(own common.Uint168) map[string][]c28Dest {
	m := map[string][]c28Dest{}
	for _, p := range k.m.sortedProds() {
		if !p.addr.IsEqual(own) && !k.tainted["producer:"+p.id] {
			m["producer"] = append(m["producer"], c28Dest{p.addr, "producer"})
		}
	}
	for _, c := range k.m.sortedCRs() {
		if !c.addr.IsEqual(own) && !k.tainted["cr:"+c.id] {
			m["cr"] = append(m["cr"], c28Dest{c.addr, "cr"})
		}
	}
	m["unregistered"] = []c28Dest{{node.DepositAddr(node.Key(node.KeyVoter + 60)), "unregistered"}}
	return m
}

func (k *c28) pickDest(own common.Uint168) c28Dest {
	m := k.foreignDests(own)
	var cats []string
	for _, c := range []string{"producer", "cr", "unregistered"} {
		if len(m[c]) > 0 {
			cats = append(cats, c)
		}
	}
	l := m[cats[k.r.Intn(len(cats))]]
	return l[k.r.Intn(len(l))]
}

// shapedReturn builds a return that moves `amount` (+fee) out of the own
// deposit address: shape "foreign" = everything to one foreign deposit
// address; "mixed" = a plain part of at most plainMax to the owner plus one or
// two foreign deposit outputs. The rest of the inputs goes back to the own
// deposit address as change.
func (k *c28) shapedReturn(r *c28Ret, ins []node.UTXORef, amount, plainMax int64, shape string) (interfaces.Transaction, []string) {
	var outs []*common2.Output
	var dests []string
	left := amount
	if shape == "mixed" && plainMax >= 1 && left >= 2 {
		hi := plainMax
		if hi > left-1 {
			hi = left - 1
		}
		p := 1 + k.r.Int63n(hi)
		outs = append(outs, node.StdOut(r.owner.ProgramHash, common.Fixed64(p)))
		dests = append(dests, "plain")
		left -= p
	}
	n := 1
	if shape == "mixed" && left >= 2 && k.r.Intn(2) == 0 {
		n = 2
	}
	for i := 0; i < n; i++ {
		v := left
		if i < n-1 {
			v = 1 + k.r.Int63n(left-1)
		}
		left -= v
		d := k.pickDest(r.addr)
		outs = append(outs, node.StdOut(d.addr, common.Fixed64(v)))
		dests = append(dests, d.what)
	}
	for i := range ins {
		ins[i].Owner = r.owner
	}
	own := r.addr
	tx := node.BuildTx(node.TxSpec{Type: r.txType, Payload: &payload.ReturnDepositCoin{}, Ins: ins, Outs: outs, ChangeTo: &own})
	return tx, dests
}

func (k *c28) countForeign(dests []string) {
	k.c.Inc("return_deposit_to_foreign_deposit_address_cases")
	for _, d := range dests {
		if d != "plain" {
			k.c.Inc("return_deposit_to_foreign_deposit_address_dest:" + d)
		}
	}
	if len(dests) > 1 {
		k.c.Inc("return_deposit_to_foreign_deposit_address_mixed_outputs")
	}
}

// pickIns chooses deposit UTXOs (random order) covering need; nil if impossible.
func (k *c28) pickIns(addr common.Uint168, need int64, exclude map[node.OutKey]bool) ([]node.UTXORef, int64) {
	all := k.w.UTXOs(addr)
	k.r.Shuffle(len(all), func(i, j int) { all[i], all[j] = all[j], all[i] })
	var ins []node.UTXORef
	var sum int64
	for _, u := range all {
		if exclude[node.OutKey{TxID: u.TxID, Index: u.Index}] {
			continue
		}
		ins = append(ins, u)
		sum += int64(u.Value)
		if sum >= need {
			return ins, sum
		}
	}
	return nil, sum
}

// honestReturn returns part (or all) of the available amount. true if a tx was submitted.
func (k *c28) honestReturn(r *c28Ret) bool {
	fee := int64(node.DefaultFee)
	avail := r.dep.avail(k.m)
	if r.nodeAvail < avail {
		avail = r.nodeAvail // the node is stricter than the model (counted as conservative_diff): plan with the node's figure
	}
	bal := r.dep.total(k.m)
	if avail <= fee+1 {
		return false
	}
	if avail == bal && k.r.Intn(3) == 0 {
		// everything is free: spend all UTXOs, no change
		ins := k.w.UTXOs(r.addr)
		if len(ins) == 0 {
			return false
		}
		if k.submitHonest(r.honest, r.buildAll(ins), r.subj) {
			k.c.Inc("accepted:" + r.honest + ":full")
			return true
		}
		return false
	}
	net := avail // amount + fee
	mode := "exact-available"
	if k.r.Intn(3) != 0 {
		net = fee + 1 + k.r.Int63n(avail-fee)
		mode = "partial"
	}
	ins, sum := k.pickIns(r.addr, net, nil)
	if ins == nil {
		return false
	}
	tx := r.build(ins, common.Fixed64(net-fee))
	var dests []string
	if sh := k.r.Intn(10); sh < 3 && net-fee >= 2 {
		// the returned amount goes (partly) to a foreign deposit address; it still leaves the own deposit
		shape := "foreign"
		if sh == 0 {
			shape = "mixed"
		}
		tx, dests = k.shapedReturn(r, ins, net-fee, net-fee-1, shape)
		k.countForeign(dests)
	}
	if k.submitHonest(r.honest, tx, r.subj) {
		if dests != nil {
			k.c.Inc("return_deposit_to_foreign_deposit_address_honest_accepted")
			k.c.Inc("accepted:" + r.honest + ":to-foreign-deposit-address")
		}
		k.c.Inc("accepted:" + r.honest + ":" + mode)
		if sum > net {
			k.c.Inc("accepted:" + r.honest + ":with-change")
		}
		if r.dep.penalty > 0 {
			k.c.Inc("accepted:" + r.honest + ":penalised")
		}
		return true
	}
	return false
}

// overdrawReturn tries to take out more than the available amount.
func (k *c28) overdrawReturn(r *c28Ret) bool {
	fee := int64(node.DefaultFee)
	avail := r.dep.avail(k.m)
	if r.nodeAvail > avail {
		avail = r.nodeAvail // go beyond what BOTH the model and the node allow
	}
	bal := r.dep.total(k.m)
	if bal-avail <= 0 || bal <= fee+1 {
		return false // nothing is locked: the UTXO set itself bounds the return
	}
	kind := "beyond-topup"
	switch {
	case r.dep.penalty > 0 && r.dep.lock == 0:
		kind = "beyond-penalty"
	case avail <= 0:
		kind = "locked"
	}
	base := avail
	if base < 0 {
		base = 0
	}
	room := bal - base // how far beyond we can go
	var x int64
	switch k.r.Intn(3) {
	case 0:
		x = 1
	case 1:
		x = room
	default:
		x = 1 + k.r.Int63n(room)
	}
	net := base + x
	if net <= fee {
		net = fee + 1
		if net > bal {
			return false
		}
	}
	ins, _ := k.pickIns(r.addr, net, nil)
	if ins == nil {
		return false
	}
	var tx interfaces.Transaction
	if net == bal {
		ins = k.w.UTXOs(r.addr)
		tx = r.buildAll(ins)
	} else {
		tx = r.build(ins, common.Fixed64(net-fee))
	}
	cas := map[string]interface{}{"available": avail, "deposit_address_balance": bal, "lock": r.dep.lock, "penalty": r.dep.penalty, "net_out": net}
	if sh := k.r.Intn(10); sh < 5 && net-fee >= 2 {
		// the excess is paid to FOREIGN deposit addresses (it looks like "deposit stays deposit", but it leaves
		// the spender's own lock); a plain part, if any, stays below the available amount
		shape := "foreign"
		if sh < 2 {
			shape = "mixed"
		}
		var dests []string
		tx, dests = k.shapedReturn(r, ins, net-fee, avail-fee-1, shape)
		k.countForeign(dests)
		k.c.Inc("return_deposit_to_foreign_deposit_address_overdraw_cases")
		if avail >= fee {
			k.c.Inc("return_deposit_to_foreign_deposit_address_overdraw_with_positive_available")
		}
		cas["state_kind"], cas["output_shape"], cas["outputs"] = kind, shape, dests
		kind = "foreign-deposit-output"
	}
	k.expectReject(r.fam+":"+kind, r.subj, r.taint, tx, cas)
	return true
}

// sameBlockReturns: two returns that are each within the available amount but together exceed it.
func (k *c28) sameBlockReturns(r *c28Ret) bool {
	fee := int64(node.DefaultFee)
	avail := r.dep.avail(k.m)
	if r.nodeAvail != avail {
		return false
	}
	bal := r.dep.total(k.m)
	if avail <= 2*fee+2 || bal-avail <= 0 {
		return false
	}
	utx := k.w.UTXOs(r.addr)
	if len(utx) < 2 {
		return false
	}
	// tx1 takes `avail` out of a first set of UTXOs, tx2 takes up to `avail` out of the rest
	ins1, _ := k.pickIns(r.addr, avail, nil)
	if ins1 == nil {
		return false
	}
	ex := map[node.OutKey]bool{}
	for _, u := range ins1 {
		ex[node.OutKey{TxID: u.TxID, Index: u.Index}] = true
	}
	var rest int64
	for _, u := range utx {
		if !ex[node.OutKey{TxID: u.TxID, Index: u.Index}] {
			rest += int64(u.Value)
		}
	}
	net2 := avail
	if rest < net2 {
		net2 = rest
	}
	if net2 <= fee+1 {
		return false
	}
	ins2, _ := k.pickIns(r.addr, net2, ex)
	if ins2 == nil {
		return false
	}
	tx1 := r.build(ins1, common.Fixed64(avail-fee))
	tx2 := r.build(ins2, common.Fixed64(net2-fee))
	kind := r.fam + ":same-block-double"
	k.c.Inc("same_block_attempts")
	k.c.Inc("same_block_attempts:" + kind)
	k.c.Inc("overdraw_attempts:" + r.fam)
	e1, e2 := k.nd.CheckTx(tx1, 0), k.nd.CheckTx(tx2, 0)
	if e1 != nil || e2 != nil {
		k.c.Inc("same_block_not_individually_valid:" + kind)
		k.c.Note("%s h=%d %s: same-block returns not individually valid: %v / %v", k.eraName, k.nd.Height()+1, r.subj, e1, e2)
		return false
	}
	k.c.Case(fmt.Sprintf("%d:%s:%s:%s:%d:overdraw", k.c.Shard, k.eraName, r.subj, kind, k.nd.Height()), true)
	cas := map[string]interface{}{"era": k.eraName, "kind": kind, "subject": r.subj, "height": k.nd.Height() + 1, "available": avail, "deposit_address_balance": bal,
		"lock": r.dep.lock, "penalty": r.dep.penalty, "net_out_tx1": avail, "net_out_tx2": net2}
	// mempool: the first is fine (honest), the second must be refused while the first is pending
	if err := k.nd.TxPool.AppendToTxPool(tx1); err != nil {
		k.c.Inc("honest_rejected:" + r.honest)
		return false
	}
	if err := k.nd.TxPool.AppendToTxPool(tx2); err == nil {
		k.violate("overdraw:"+kind+"-accepted:mempool", fmt.Sprintf("%s h=%d %s: mempool holds two returns that together exceed the available amount", k.eraName, k.nd.Height()+1, r.subj), cas)
	} else {
		k.c.Inc("overdraw_rejected_mempool:" + r.fam)
	}
	if !k.blockAttempt(kind, r.subj, r.taint, cas, tx1, tx2) {
		// honest continuation: tx1 alone is mined with the next block
		k.pend = append(k.pend, tx1)
		k.c.Inc("accepted:" + r.honest)
		k.c.Inc("accepted:" + r.honest + ":exact-available")
	}
	return true
}

// ---------- producers ----------

func (k *c28) prodRet(p *c28Prod, d *c28Dep) *c28Ret {
	return &c28Ret{txType: common2.ReturnDepositCoin, fam: "return-deposit", honest: "ReturnDepositCoin", subj: p.name, taint: "producer:" + p.ownerHex, owner: p.owner, addr: p.addr, dep: d,
		build: func(ins []node.UTXORef, amount common.Fixed64) interfaces.Transaction {
			return node.ReturnDepositCoinAmount(ins, p.owner, amount, 0)
		},
		buildAll: func(ins []node.UTXORef) interfaces.Transaction { return node.ReturnDepositCoin(ins, p.owner, 0) }}
}

func (k *c28) actProducer(p *c28Prod) {
	nd := k.nd
	bh := nd.Height() + 1 // height of the block the tx would be mined in
	act := nd.Arbiters.GetDPoSV2ActiveHeight()
	d := k.m.prods[p.ownerHex]
	if k.tainted["producer:"+p.ownerHex] {
		return
	}
	if d == nil {
		if p.registered {
			return // registration pending
		}
		// ---- register ----
		if p.wantV2 {
			if !k.v2 || bh < k.era.DPoSV2Start+1 || k.r.Intn(3) != 0 {
				return
			}
			dep := node.ELA(2000) + k.ela(0, 300)*common.Fixed64(k.r.Intn(2))
			in, ok := k.feeIn(p.owner, dep)
			if !ok {
				return
			}
			su := bh + k.era.V2DepositMinLock + 1 + uint32(k.r.Intn(35))
			if k.submitHonest("RegisterProducer-v2", node.RegisterProducerV2(in, p.owner, p.nodeKey, "subject-"+p.name, dep, su), p.name) {
				p.registered, p.busy = true, true
			}
			return
		}
		if bh <= k.era.VoteStart || bh >= act || k.r.Intn(4) != 0 {
			return
		}
		if k.v2 && bh > k.era.DPoSV2Start+10 {
			return
		}
		dep := node.ELA(5000) + k.ela(0, 500)*common.Fixed64(k.r.Intn(2))
		in, ok := k.feeIn(p.owner, dep)
		if !ok {
			return
		}
		if k.submitHonest("RegisterProducer-v1", node.RegisterProducer(in, p.owner, p.nodeKey, "subject-"+p.name, dep), p.name) {
			p.registered, p.busy = true, true
		}
		return
	}
	np := nd.Chain.GetState().GetProducer(node.Pub(p.owner))
	if np == nil {
		return
	}
	if p.role == "cancel-when-activating" && p.cancelAt == 0 && !d.canceled {
		p.cancelAt = d.regH + 5
	}
	ret := k.prodRet(p, d)
	ret.nodeAvail = int64(np.AvailableAmount())
	avail, bal := d.avail(k.m), d.total(k.m)
	if ret.nodeAvail < avail {
		avail = ret.nodeAvail
	}
	locked := bal-avail > 0
	// scheduled cancel (aimed at the DPoS v2 activation block)
	if p.cancelAt != 0 && bh == p.cancelAt && !d.canceled {
		if in, ok := k.feeIn(p.owner, node.ELA(1)); ok {
			if k.submitHonest("CancelProducer", node.CancelProducer(in, p.owner), p.name) {
				if p.role == "cancel-when-activating" {
					k.c.Inc("accepted:CancelProducer:in-the-block-of-the-6th-confirmation")
				} else {
					k.c.Inc("accepted:CancelProducer:at-v2-activation")
				}
				p.busy = true
			}
		}
		return
	}
	type op struct {
		name string
		w    int
	}
	var ops []op
	add := func(n string, w int) { ops = append(ops, op{n, w}) }
	if np.State() != state.Returned && bal > 0 {
		add("topup", 3)
	}
	keep := k.v2 && p.role != "" && bh <= k.era.DPoSV2Start+1
	if p.role == "cancel-when-activating" {
		keep = !d.canceled && bh <= d.regH+5
	}
	if p.role == "v1-until-activation" || (p.role == "cancel-at-activation" && p.cancelAt == 0 && act == math.MaxUint32) {
		keep = true
	}
	if p.role == "cancel-at-activation" && p.cancelAt == 0 && act != math.MaxUint32 && bh < act {
		p.cancelAt = act
	}
	if !keep && p.cancelAt == 0 && !d.canceled && np.State() != state.Illegal && (d.ident == 1 || (d.ident == 12 && bh > d.stakeUntil)) {
		w := 2
		if p.penalised && np.State() == state.Inactive {
			w = 4
		}
		add("cancel", w)
	}
	if k.v2 && d.ident == 1 && !d.canceled && bh >= k.era.DPoSV2Start+1 && bh < act && np.State() == state.Active && p.cancelAt == 0 && p.role != "v1-until-activation" && p.role != "cancel-at-activation" {
		w := 2
		if p.role == "upgrade-v1v2" {
			w = 12
		}
		add("upgrade-v1v2", w)
	}
	if avail > int64(node.DefaultFee)+1 {
		add("return", 6)
	}
	if locked && bal > int64(node.DefaultFee)+1 {
		w := 2
		if c28Did(&p.done, "probe") < 2 {
			w = 8
		}
		add("overdraw", w)
	}
	if locked && avail > 2*int64(node.DefaultFee)+2 && len(k.w.UTXOs(p.addr)) >= 2 && p.role == "" && !p.penalised && k.sameBudget["return-deposit"] < 2 {
		add("same-block-double", 5)
	}
	if (np.State() == state.Inactive || (np.State() == state.Illegal && bh >= k.era.EnableActivateIllegal)) && np.ActivateRequestHeight() == math.MaxUint32 {
		add("activate", 4)
	}
	if len(ops) == 0 {
		return
	}
	tw := 0
	for _, o := range ops {
		tw += o.w
	}
	pick := k.r.Intn(tw)
	var choice string
	for _, o := range ops {
		if pick < o.w {
			choice = o.name
			break
		}
		pick -= o.w
	}
	switch choice {
	case "topup":
		amt := k.ela(1, 400)
		in, ok := k.feeIn(p.owner, amt)
		if !ok {
			return
		}
		tx := node.BuildTx(node.TxSpec{Type: common2.TransferAsset, Payload: &payload.TransferAsset{}, Ins: []node.UTXORef{in}, Outs: []*common2.Output{node.StdOut(p.addr, amt)}})
		if k.submitHonest("TopUp-producer", tx, p.name) {
			p.busy = true
		}
	case "cancel":
		in, ok := k.feeIn(p.owner, node.ELA(1))
		if !ok {
			return
		}
		if k.submitHonest("CancelProducer", node.CancelProducer(in, p.owner), p.name) {
			p.busy = true
			if d.ident == 12 {
				k.c.Inc("accepted:CancelProducer:v1v2-after-stake-until")
			}
		}
	case "upgrade-v1v2":
		in, ok := k.feeIn(p.owner, node.ELA(1))
		if !ok {
			return
		}
		su := bh + k.era.V2DepositMinLock + 1 + uint32(k.r.Intn(40))
		info := np.Info()
		if k.submitHonest("UpdateProducer-to-v1v2", node.UpdateProducer(in, p.owner, p.nodeKey, info.NickName, info.Url, su), p.name) {
			p.busy = true
		}
	case "return":
		if k.honestReturn(ret) {
			p.busy = true
		}
	case "overdraw":
		if k.overdrawReturn(ret) {
			p.busy = true
		}
	case "same-block-double":
		if k.sameBlockReturns(ret) {
			k.sameBudget["return-deposit"]++
			p.busy = true
		}
	case "activate":
		minAmt := int64(5000 * 100000000)
		if d.ident == 2 || (d.ident == 12 && bh >= act) {
			minAmt = 2000 * 100000000
		}
		if bal-d.penalty < minAmt {
			// top up first so that the activation is allowed
			amt := common.Fixed64(minAmt-(bal-d.penalty)) + k.ela(0, 20)
			in, ok := k.feeIn(p.owner, amt)
			if !ok {
				return
			}
			tx := node.BuildTx(node.TxSpec{Type: common2.TransferAsset, Payload: &payload.TransferAsset{}, Ins: []node.UTXORef{in}, Outs: []*common2.Output{node.StdOut(p.addr, amt)}})
			if k.submitHonest("TopUp-producer", tx, p.name) {
				k.c.Inc("accepted:TopUp-producer:to-cover-penalty")
				p.busy = true
			}
			return
		}
		if k.submitHonest("ActivateProducer", node.ActivateProducer(p.nodeKey), p.name) {
			p.busy = true
		}
	}
}

// ---------- CR candidates ----------

func (k *c28) crRet(c *c28CR, d *c28Dep) *c28Ret {
	return &c28Ret{txType: common2.ReturnCRDepositCoin, fam: "return-cr-deposit", honest: "ReturnCRDepositCoin", subj: c.name, taint: "cr:" + c.cidHex, owner: c.acc, addr: c.addr, dep: d,
		build: func(ins []node.UTXORef, amount common.Fixed64) interfaces.Transaction {
			return node.ReturnCRDepositCoinAmount(ins, c.acc, amount, 0)
		},
		buildAll: func(ins []node.UTXORef) interfaces.Transaction { return node.ReturnCRDepositCoin(ins, c.acc, 0) }}
}

func (k *c28) actCR(c *c28CR) {
	nd := k.nd
	bh := nd.Height() + 1
	if bh < k.era.CRVotingStart+1 || k.tainted["cr:"+c.cidHex] {
		return
	}
	d := k.m.crs[c.cidHex]
	voting := nd.Committee.IsInVotingPeriod(bh)
	if d == nil {
		if c.registered || !voting || k.r.Intn(3) != 0 {
			return
		}
		if bh > k.era.CRCommitteeStart-4 {
			return
		}
		dep := node.ELA(5000) + k.ela(0, 500)*common.Fixed64(k.r.Intn(2))
		in, ok := k.feeIn(c.acc, dep)
		if !ok {
			return
		}
		if k.submitHonest("RegisterCR", node.RegisterCR(in, c.acc, "subject-"+c.name, dep), c.name) {
			c.registered, c.busy = true, true
		}
		return
	}
	ret := k.crRet(c, d)
	ret.nodeAvail = int64(nd.Committee.GetAvailableDepositAmount(c.cid))
	avail, bal := d.avail(k.m), d.total(k.m)
	if ret.nodeAvail < avail {
		avail = ret.nodeAvail
	}
	locked := bal-avail > 0
	type op struct {
		name string
		w    int
	}
	var ops []op
	add := func(n string, w int) { ops = append(ops, op{n, w}) }
	if bal > 0 {
		add("topup", 3)
	}
	cand := nd.Committee.GetCandidate(c.cid)
	if voting && cand != nil && d.cancelH == 0 && !c.lost {
		add("unregister", 2)
	}
	if avail > int64(node.DefaultFee)+1 {
		add("return", 6)
	}
	if locked && bal > int64(node.DefaultFee)+1 {
		w := 3
		if c28Did(&c.done, "probe") < 2 {
			w = 8
		}
		add("overdraw", w)
	}
	if locked && avail > 2*int64(node.DefaultFee)+2 && len(k.w.UTXOs(c.addr)) >= 2 && k.sameBudget["return-cr-deposit"] < 2 {
		add("same-block-double", 5)
	}
	if len(ops) == 0 {
		return
	}
	tw := 0
	for _, o := range ops {
		tw += o.w
	}
	pick := k.r.Intn(tw)
	var choice string
	for _, o := range ops {
		if pick < o.w {
			choice = o.name
			break
		}
		pick -= o.w
	}
	switch choice {
	case "topup":
		amt := k.ela(1, 400)
		in, ok := k.feeIn(c.acc, amt)
		if !ok {
			return
		}
		tx := node.BuildTx(node.TxSpec{Type: common2.TransferAsset, Payload: &payload.TransferAsset{}, Ins: []node.UTXORef{in}, Outs: []*common2.Output{node.StdOut(c.addr, amt)}})
		if k.submitHonest("TopUp-cr", tx, c.name) {
			c.busy = true
		}
	case "unregister":
		in, ok := k.feeIn(c.acc, node.ELA(1))
		if !ok {
			return
		}
		if k.submitHonest("UnregisterCR", node.UnregisterCR(in, c.acc), c.name) {
			c.busy = true
		}
	case "return":
		if k.honestReturn(ret) {
			c.busy = true
		}
	case "overdraw":
		if k.overdrawReturn(ret) {
			c.busy = true
		}
	case "same-block-double":
		if k.sameBlockReturns(ret) {
			k.sameBudget["return-cr-deposit"]++
			c.busy = true
		}
	}
}

// ---------- stake addresses ----------

type c28Cand struct {
	pub        []byte
	stakeUntil uint32
}

func (k *c28) v2Candidates(bh uint32) []c28Cand {
	var l []c28Cand
	st := k.nd.Chain.GetState()
	try := func(a *account.Account) {
		if p := st.GetProducer(node.Pub(a)); p != nil && p.State() == state.Active && p.Info().StakeUntil != 0 &&
			p.Info().StakeUntil >= bh+k.era.V2VoteMinLock+1 {
			l = append(l, c28Cand{node.Pub(a), p.Info().StakeUntil})
		}
	}
	for _, p := range k.prods {
		try(p.owner)
	}
	for _, a := range k.v2Owners {
		try(a)
	}
	return l
}

// mkVotes splits total into 1..3 DPoS v2 votes with short lock times.
func (k *c28) mkVotes(bh uint32, total int64, cands []c28Cand) []node.V2Vote {
	n := 1 + k.r.Intn(3)
	if n > len(cands) {
		n = len(cands)
	}
	if int64(n) > total {
		n = 1
	}
	k.r.Shuffle(len(cands), func(i, j int) { cands[i], cands[j] = cands[j], cands[i] })
	var vs []node.V2Vote
	left := total
	for i := 0; i < n; i++ {
		amt := left
		if i < n-1 {
			amt = 1 + k.r.Int63n(left-int64(n-1-i))
		}
		left -= amt
		lo := bh + k.era.V2VoteMinLock + 1
		hi := lo + 25
		if cands[i].stakeUntil < hi {
			hi = cands[i].stakeUntil
		}
		lock := lo
		if hi > lo {
			lock = lo + uint32(k.r.Intn(int(hi-lo)+1))
		}
		vs = append(vs, node.V2Vote{OwnerPub: cands[i].pub, Votes: common.Fixed64(amt), LockTime: lock})
	}
	return vs
}

func (k *c28) actStaker(s *c28Staker) {
	nd := k.nd
	bh := nd.Height() + 1
	ad, _ := s.addr.ToAddress()
	taint := "stake:" + ad
	if k.tainted[taint] {
		return
	}
	ms := k.m.stakes[s.addr]
	var rights, used int64
	if ms != nil {
		rights, used = ms.rights, ms.used
	}
	unused := rights - used
	minRet := int64(nd.Cfg.CRConfiguration.RealWithdrawSingleFee) + 1
	cands := k.v2Candidates(bh)
	type op struct {
		name string
		w    int
	}
	var ops []op
	add := func(n string, w int) { ops = append(ops, op{n, w}) }
	if rights < 200*100000000 {
		w := 3
		if rights == 0 {
			w = 10
		}
		add("stake", w)
	}
	if rights == 0 && len(cands) > 0 && c28Did(&s.done, "novote") < 2 {
		add("vote-without-rights", 3)
	}
	if unused > 0 && len(cands) > 0 {
		add("vote", 6)
	}
	if rights > 0 && len(cands) > 0 {
		add("vote-overdraw", 4)
	}
	if ms != nil && len(ms.votes) > 0 {
		add("renew", 3)
	}
	if unused >= minRet {
		add("return-votes", 3)
	}
	if rights > 0 {
		add("return-votes-overdraw", 4)
	}
	if unused >= 2*minRet+2 && len(cands) > 0 {
		for _, sb := range []string{"same-block:vote+return", "same-block:vote+vote", "same-block:return+return"} {
			if k.sameBudget[sb] < 1 {
				add(sb, 3)
			}
		}
	}
	if len(ops) == 0 {
		return
	}
	tw := 0
	for _, o := range ops {
		tw += o.w
	}
	pick := k.r.Intn(tw)
	var choice string
	for _, o := range ops {
		if pick < o.w {
			choice = o.name
			break
		}
		pick -= o.w
	}
	// stakers only spend large UTXOs (funding outputs and their change): the outputs of the node-generated
	// VotesRealWithdraw transactions have run-dependent ids (map-ordered outputs, asynchronous creation)
	fee := func() (node.UTXORef, bool) { return k.feeIn(s.acc, node.ELA(1000)) }
	cas := func() map[string]interface{} {
		return map[string]interface{}{"stake": ad, "rights": rights, "used": used}
	}
	switch choice {
	case "stake":
		amt := k.ela(5, 60)
		in, ok := k.feeIn(s.acc, node.ELA(1000))
		if !ok {
			return
		}
		if k.submitHonest("ExchangeVotes", node.ExchangeVotes(in, amt), s.name) {
			s.busy = true
		}
	case "vote-without-rights":
		in, ok := fee()
		if !ok {
			return
		}
		k.expectReject("voting:no-rights", s.name, taint, node.Voting(in, node.V2Votes(k.mkVotes(bh, 100000000, cands)...)), cas())
		k.w.Release(in)
		s.busy = true
	case "vote":
		total := unused
		mode := "all-unused"
		if k.r.Intn(2) == 0 {
			total = 1 + k.r.Int63n(unused)
			mode = "partial"
		}
		in, ok := fee()
		if !ok {
			return
		}
		if k.submitHonest("Voting", node.Voting(in, node.V2Votes(k.mkVotes(bh, total, cands)...)), s.name) {
			k.c.Inc("accepted:Voting:" + mode)
			s.busy = true
		} else {
			k.w.Release(in)
		}
	case "vote-overdraw":
		x := int64(1)
		if k.r.Intn(2) == 0 {
			x = 1 + k.r.Int63n(rights)
		}
		base := unused
		if base < 0 {
			base = 0
		}
		in, ok := fee()
		if !ok {
			return
		}
		c := cas()
		c["votes"] = base + x
		k.expectReject("voting:beyond-rights", s.name, taint, node.Voting(in, node.V2Votes(k.mkVotes(bh, base+x, cands)...)), c)
		k.w.Release(in)
		s.busy = true
	case "renew":
		st := nd.Chain.GetState()
		var rcs []payload.RenewalVotesContent
		dvs := st.GetDetailedDPoSV2Votes(&s.addr)
		sort.Slice(dvs, func(i, j int) bool { return dvs[i].ReferKey().Compare(dvs[j].ReferKey()) < 0 })
		k.r.Shuffle(len(dvs), func(i, j int) { dvs[i], dvs[j] = dvs[j], dvs[i] })
		for _, dv := range dvs {
			dv := dv
			if len(dv.Info) != 1 {
				continue
			}
			p := st.GetProducer(dv.Info[0].Candidate)
			if p == nil {
				continue
			}
			nl := dv.Info[0].LockTime + 1 + uint32(k.r.Intn(15))
			if nl > p.Info().StakeUntil || nl <= bh {
				continue
			}
			vi := dv.Info[0]
			vi.LockTime = nl
			rcs = append(rcs, payload.RenewalVotesContent{ReferKey: dv.ReferKey(), VotesInfo: vi})
			if len(rcs) >= 2 {
				break
			}
		}
		if len(rcs) == 0 {
			return
		}
		in, ok := fee()
		if !ok {
			return
		}
		if k.submitHonest("VotingRenew", node.VotingRenew(in, rcs...), s.name) {
			s.busy = true
		} else {
			k.w.Release(in)
		}
	case "return-votes":
		amt := unused
		mode := "all-unused"
		if k.r.Intn(2) == 0 && unused > minRet {
			amt = minRet + k.r.Int63n(unused-minRet+1)
			mode = "partial"
		}
		in, ok := fee()
		if !ok {
			return
		}
		if k.submitHonest("ReturnVotes", node.ReturnVotes(in, common.Fixed64(amt)), s.name) {
			k.c.Inc("accepted:ReturnVotes:" + mode)
			if used > 0 {
				k.c.Inc("accepted:ReturnVotes:while-votes-in-use")
			}
			s.busy = true
		} else {
			k.w.Release(in)
		}
	case "return-votes-overdraw":
		base := unused
		if base < 0 {
			base = 0
		}
		x := int64(1)
		if k.r.Intn(2) == 0 {
			x = 1 + k.r.Int63n(rights)
		}
		amt := base + x
		if amt < minRet {
			amt = minRet + base
		}
		kind := "return-votes:beyond-unused"
		if used > 0 && amt <= rights {
			kind = "return-votes:in-use"
		}
		in, ok := fee()
		if !ok {
			return
		}
		c := cas()
		c["value"] = amt
		k.expectReject(kind, s.name, taint, node.ReturnVotes(in, common.Fixed64(amt)), c)
		k.w.Release(in)
		s.busy = true
	case "same-block:vote+return", "same-block:vote+vote", "same-block:return+return":
		in1, ok1 := fee()
		in2, ok2 := fee()
		if !ok1 || !ok2 {
			return
		}
		// each of the two uses more than half of the unused rights
		half := unused/2 + 1
		a1 := half + k.r.Int63n(unused-half+1)
		a2 := half + k.r.Int63n(unused-half+1)
		if a1 < minRet {
			a1 = minRet
		}
		if a2 < minRet {
			a2 = minRet
		}
		var tx1, tx2 interfaces.Transaction
		fam := "voting"
		switch choice {
		case "same-block:vote+return":
			tx1 = node.Voting(in1, node.V2Votes(k.mkVotes(bh, a1, cands)...))
			tx2 = node.ReturnVotes(in2, common.Fixed64(a2))
		case "same-block:vote+vote":
			tx1 = node.Voting(in1, node.V2Votes(k.mkVotes(bh, a1, cands)...))
			tx2 = node.Voting(in2, node.V2Votes(k.mkVotes(bh, a2, cands)...))
		default:
			fam = "return-votes"
			tx1 = node.ReturnVotes(in1, common.Fixed64(a1))
			tx2 = node.ReturnVotes(in2, common.Fixed64(a2))
		}
		kind := fam + ":" + choice
		k.sameBudget[choice]++
		k.c.Inc("same_block_attempts")
		k.c.Inc("same_block_attempts:" + kind)
		k.c.Inc("overdraw_attempts:" + fam)
		e1, e2 := nd.CheckTx(tx1, 0), nd.CheckTx(tx2, 0)
		if e1 != nil || e2 != nil {
			k.c.Inc("same_block_not_individually_valid:" + kind)
			k.c.Note("%s h=%d %s: %s txs not individually valid: %v / %v", k.eraName, bh, s.name, choice, e1, e2)
			k.w.Release(in1)
			k.w.Release(in2)
			return
		}
		k.c.Case(fmt.Sprintf("%d:%s:%s:%s:%d:overdraw", k.c.Shard, k.eraName, s.name, kind, nd.Height()), true)
		c := cas()
		c["era"], c["kind"], c["subject"], c["height"], c["amount_tx1"], c["amount_tx2"] = k.eraName, kind, s.name, bh, a1, a2
		if err := nd.TxPool.AppendToTxPool(tx1); err != nil {
			k.c.Inc("honest_rejected:same-block-first")
			k.w.Release(in1)
			k.w.Release(in2)
			return
		}
		if err := nd.TxPool.AppendToTxPool(tx2); err == nil {
			k.violate("overdraw:"+kind+"-accepted:mempool", fmt.Sprintf("%s h=%d %s: mempool holds two stake transactions that together exceed the unused vote rights", k.eraName, bh, s.name), c)
		} else {
			k.c.Inc("overdraw_rejected_mempool:" + fam)
		}
		s.busy = true
		if !k.blockAttempt(kind, s.name, taint, c, tx1, tx2) {
			k.pend = append(k.pend, tx1)
			k.w.Release(in2)
			if tx1.TxType() == common2.Voting {
				k.c.Inc("accepted:Voting")
			} else {
				k.c.Inc("accepted:ReturnVotes")
			}
		}
	}
}

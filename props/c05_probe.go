package props

import (
	"bytes"
	"fmt"
	"sort"
	"strings"

	"github.com/elastos/Elastos.ELA/account"
	"github.com/elastos/Elastos.ELA/common"
	pg "github.com/elastos/Elastos.ELA/core/contract/program"
	common2 "github.com/elastos/Elastos.ELA/core/types/common"
	"github.com/elastos/Elastos.ELA/core/types/interfaces"
	"github.com/elastos/Elastos.ELA/core/types/payload"
	crstate "github.com/elastos/Elastos.ELA/cr/state"

	"verif/kit"
	"verif/kit/node"
)

// C05, part X — probes of user-built transaction types.
//
// The run-time enumeration (c05xEnumerate) tells which (type, payload version)
// pairs checkTransactionSignature lets through without looking at a program.
// For the pairs the scripts were written for, the scripts decide. For any
// OTHER pair ("newly exempt") the verdict is made here: the most plausible
// instance of that type — one that passes the type's own payload / special
// checks in the current chain state, built by the harness' honest builders for
// an account the attacker controls — is funded with a THIRD PARTY's ordinary
// UTXO and presented with (a) no program, (b) a correctly signed program of the
// attacker's own address, (c) the owner's script with a garbage signature,
// through AppendToTxPool and inside an arbiter-confirmed block. Accepted without
// a valid witness of the owner => violation
//   unsigned-spend:newly-exempt:<Type>/v<payload version>      (pair flagged by the enumeration)
//   unsigned-spend:<Type>/v<payload version>                    (pair not flagged: the signature step was skipped some other way)
// The probes run for every type a builder exists for, flagged or not (on an
// unchanged tree they are negative controls that end at the signature step).
// A flagged pair no script could build a probe for leaves the run inconclusive
// (decided in the parent: c05xPost).

var c05xProbeRequire = []string{"newly_exempt_probes", "X_probe_cases", "X_probe_rejected", "X_probe_rejected_at_signature_step",
	"X_probe_type:TransferAsset/v0", "X_probe_type:Record/v0", "X_probe_type:RegisterProducer/v0", "X_probe_type:CRCProposal/v0",
	"X_probe_type:CRCProposalWithdraw/v1", "X_probe_type:ExchangeVotes/v0", "X_probe_type:ReturnVotes/v0"}

type c05xFlag struct {
	typ common2.TxType
	ver byte
}

func c05xKey(t common2.TxType, ver byte) string { return fmt.Sprintf("%s/v%d", t.Name(), ver) }

// flagged reports whether the enumeration found (t, ver) exempt although the workload does not know it.
func (x *c05x) flagged(t common2.TxType, ver byte) bool {
	for _, f := range x.newExempt {
		if f.typ == t && f.ver == ver {
			return true
		}
	}
	return false
}

// probe drives one built instance (funded by the victim output v, signed by
// role = the attacker-controlled account the builder used) through both entry points.
func (x *c05x) probe(tx interfaces.Transaction, v node.UTXORef, role *account.Account) {
	c := x.c
	t, ver := tx.TxType(), tx.PayloadVersion()
	key := c05xKey(t, ver)
	flagged := x.flagged(t, ver)
	c.Inc("newly_exempt_probes")
	c.Inc("X_probe_type:" + key)
	if flagged {
		c.Inc("newly_exempt_probes_flagged")
		c.Inc("X_newly_exempt_probed:" + t.Name())
		c.Inc("X_newly_exempt_probed_key:" + key)
	}
	sig := "unsigned-spend:" + key
	if flagged {
		sig = "unsigned-spend:newly-exempt:" + key
	}
	l := x.nd.Replay()
	foreign := tx.Programs()
	garbage := make([]byte, 64)
	x.r.Read(garbage)
	var ownerCode []byte
	for _, a := range x.victims {
		if o, ok := l.Unspent[node.OutKey{TxID: v.TxID, Index: v.Index}]; ok && o.Owner.IsEqual(a.ProgramHash) {
			ownerCode = a.RedeemScript
		}
	}
	variants := []struct {
		name  string
		progs []*pg.Program
	}{
		{"no-program", []*pg.Program{}},
		{"foreign-program", foreign},
	}
	if ownerCode != nil {
		variants = append(variants, struct {
			name  string
			progs []*pg.Program
		}{"garbage-signature", []*pg.Program{{Code: ownerCode, Parameter: append([]byte{0x40}, garbage...)}}})
	}
	x.sigOverride = sig
	defer func() { x.sigOverride = "" }()
	spentInBlock := false
	for _, va := range variants {
		tx.SetPrograms(va.progs)
		h := tx.Hash()
		for _, where := range []string{"mempool", "block"} {
			if spentInBlock {
				break
			}
			c.Begin("X probe %s %s %s", key, va.name, where)
			c.Case(fmt.Sprintf("X:probe:%s:%s:%s:%s", key, va.name, where, h.String()), true)
			c.Inc("X_probe_cases")
			accepted := false
			if where == "mempool" {
				err := x.nd.TxPool.AppendToTxPool(tx)
				accepted = err == nil
				if err != nil {
					if strings.Contains(err.Error(), "signature") || strings.Contains(err.Error(), "program") {
						c.Inc("X_probe_rejected_at_signature_step")
					} else {
						c.Inc("X_probe_rejected_elsewhere:" + key + ":" + c05xReason(err))
					}
				}
			} else {
				b, ok := x.tryBlock(false, 0, tx)
				accepted = ok && c05xHas(b, h)
			}
			if !accepted {
				c.Inc("X_probe_rejected")
				continue
			}
			c.Inc("X_probe_ACCEPTED:" + key + ":" + where)
			x.judge(t.Name(), where, va.name, tx, l, nil)
			if where == "mempool" {
				if !x.evict(tx) {
					return
				}
			} else {
				spentInBlock = true
			}
		}
	}
	if !spentInBlock {
		x.release([]node.UTXORef{v})
	}
}

// victimFor returns a victim output presented to a builder as if it belonged to role.
func (x *c05x) victimFor(role *account.Account) (node.UTXORef, bool) {
	vs := x.pickVictims(1)
	if len(vs) == 0 {
		return node.UTXORef{}, false
	}
	v := vs[0]
	v.Owner = role
	return v, true
}

func (x *c05x) guardedProbe(name string, role *account.Account, build func(in node.UTXORef) interfaces.Transaction) {
	if x.fatal {
		return
	}
	v, ok := x.victimFor(role)
	if !ok {
		x.c.Note("X probe %s: no victim output left", name)
		return
	}
	var tx interfaces.Transaction
	if p, pv, _ := kit.Guard(func() { tx = build(v) }); p || tx == nil {
		x.c.Note("X probe %s: builder failed: %v", name, pv)
		x.c.Inc("X_probe_builder_failed:" + name)
		x.release([]node.UTXORef{v})
		return
	}
	x.probe(tx, v, role)
}

// probesAny: types that can be built in any DPoS-era state.
func (x *c05x) probesAny() {
	role := x.attacker
	x.guardedProbe("TransferAsset", role, func(in node.UTXORef) interfaces.Transaction {
		return node.BuildTx(node.TxSpec{Type: common2.TransferAsset, Payload: &payload.TransferAsset{}, Ins: []node.UTXORef{in},
			Outs: []*common2.Output{node.StdOut(role.ProgramHash, in.Value/2)}})
	})
	if !x.nd.InPOWMode() {
		x.guardedProbe("Record", role, func(in node.UTXORef) interfaces.Transaction {
			return node.BuildTx(node.TxSpec{Type: common2.Record, Payload: &payload.Record{Type: "c05x", Content: []byte("probe")}, Ins: []node.UTXORef{in}})
		})
	}
}

// probesProducer: a fresh producer registration paid (deposit and fee) by the victim.
func (x *c05x) probesProducer() {
	owner, nodeKey := node.Key(610+x.c.Shard%8), node.Key(620+x.c.Shard%8)
	x.guardedProbe("RegisterProducer", owner, func(in node.UTXORef) interfaces.Transaction {
		return node.RegisterProducer(in, owner, nodeKey, fmt.Sprintf("c05x-probe-%d", x.c.Shard), node.ELA(5000))
	})
}

// probesStake: DPoS v2 stake operations of the staker, paid by the victim.
func (x *c05x) probesStake() {
	staker := x.boot.Staker
	x.guardedProbe("ExchangeVotes", staker, func(in node.UTXORef) interfaces.Transaction {
		return node.ExchangeVotes(in, node.ELA(int64(10+x.r.Intn(100))))
	})
	x.guardedProbe("ReturnVotes", staker, func(in node.UTXORef) interfaces.Transaction {
		return node.ReturnVotes(in, node.ELA(1))
	})
	if have := x.nd.Chain.GetState().DPoSV2RewardInfo[node.StakeAddrString(staker)]; have > 4*x.fee {
		x.guardedProbe("DposV2ClaimReward", staker, func(in node.UTXORef) interfaces.Transaction {
			return node.DposV2ClaimReward(in, have/2)
		})
	}
}

// probesProposal: a new proposal of the attacker paid by the victim.
func (x *c05x) probesProposal(owner, member *account.Account) {
	budgets := []payload.Budget{{Type: payload.Imprest, Stage: 0, Amount: node.ELA(1)}, {Type: payload.FinalPayment, Stage: 1, Amount: node.ELA(1)}}
	x.guardedProbe("CRCProposal", owner, func(in node.UTXORef) interfaces.Transaction {
		return node.CRCProposalNormal(in, owner, member, []byte(fmt.Sprintf("c05x-probe-draft-%d", x.c.Shard)), budgets, owner.ProgramHash, payload.CRCProposalVersion)
	})
}

// c05xWithdrawTx: CRCProposalWithdraw of any payload version (v0 and v2+ carry no recipient/amount).
func c05xWithdrawTx(in node.UTXORef, owner *account.Account, ph common.Uint256, recipient common.Uint168, amt common.Fixed64, ver byte) interfaces.Transaction {
	p := &payload.CRCProposalWithdraw{ProposalHash: ph, OwnerKey: node.Pub(owner), Recipient: recipient, Amount: amt}
	buf := new(bytes.Buffer)
	p.SerializeUnsigned(buf, ver)
	p.Signature = node.DetSign(owner, buf.Bytes())
	return node.BuildTx(node.TxSpec{Type: common2.CRCProposalWithdraw, PayloadVersion: ver, Payload: p, Ins: []node.UTXORef{in}})
}

// probesWithdraw: the owner of a voter-agreed proposal requests its
// withdrawable amount (payload v1; further versions when the enumeration
// flagged them) and lets a third party's output pay the fee.
func (x *c05x) probesWithdraw(owner *account.Account, ph common.Uint256) {
	ps := x.nd.Committee.GetProposal(ph)
	amt := x.nd.Committee.AvailableWithdrawalAmount(ph)
	if ps == nil || ps.Status != crstate.VoterAgreed || amt <= x.fee {
		x.c.Note("X probe CRCProposalWithdraw: proposal not withdrawable at height %d (%v, %d)", x.nd.Height(), ps, int64(amt))
		return
	}
	vers := []byte{payload.CRCProposalWithdrawVersion01}
	for v := byte(2); v < 4; v++ {
		if x.flagged(common2.CRCProposalWithdraw, v) {
			vers = append(vers, v)
		}
	}
	for _, ver := range vers {
		ver := ver
		if x.nd.Committee.AvailableWithdrawalAmount(ph) <= x.fee {
			break // an earlier probe was connected in a block
		}
		x.guardedProbe(c05xKey(common2.CRCProposalWithdraw, ver), owner, func(in node.UTXORef) interfaces.Transaction {
			return c05xWithdrawTx(in, owner, ph, ps.Recipient, amt, ver)
		})
	}
}

// c05xPost (parent side): a newly exempt pair that no shard probed leaves the run inconclusive.
func c05xPost(a *kit.Agg) {
	var found []string
	for k, v := range a.Counters {
		if strings.HasPrefix(k, "X_newly_exempt_found:") && v > 0 {
			found = append(found, strings.TrimPrefix(k, "X_newly_exempt_found:"))
		}
	}
	sort.Strings(found)
	for _, key := range found {
		typ := key
		if i := strings.Index(key, "/"); i > 0 {
			typ = key[:i]
		}
		switch {
		case a.Counters["X_newly_exempt_probed_key:"+key] > 0:
		case a.Counters["X_newly_exempt_probed:"+typ] > 0:
			a.Notes = append(a.Notes, fmt.Sprintf("checkTransactionSignature newly exempts %s; the probe was driven for another payload version of %s only", key, typ))
		default:
			a.Inconclusive("X enumerate: checkTransactionSignature exempts %s, which this workload does not know, and no script could build a probe for it", key)
		}
	}
}

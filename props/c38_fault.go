package props

import (
	"bytes"
	crand "crypto/rand"
	"errors"
	"fmt"
	"io"
	mrand "math/rand"
	"strings"
	"time"

	"verif/kit"
)

// C38 entropy-fault family.
//
// With a healthy entropy source an implementation that falls back to a
// seeded / time-derived generator "when crypto/rand fails" is byte-identical
// to a correct one. The family therefore injects the fault: every entry point
// of c38Entries runs with crypto/rand.Reader replaced by a reader that
//
//	always-error      never delivers a byte
//	fail-first-k      errors on its first k Read calls, healthy afterwards
//	deliver-T-then-error   hands out T bytes in total, then errors
//	short-pieces      never errors but returns 1..3 bytes per call (benign)
//
// and records exactly which bytes it delivered. Oracle, per run that returned
// key material without error / panic:
//
//	F1 accounting      bytes delivered by the reader >= entropy of all the
//	                   material produced (secret bytes that exist although
//	                   the source delivered nothing are a violation)
//	F2 reproducible    the same fault reader again yields the same value(s)
//	                   (<= 2 on stdlib-ECDSA paths) — a time-seeded fallback does not
//	F3 verbatim        material copied verbatim from the source (keystore IV /
//	                   master key, ECIES IV) occurs in the delivered-byte log
//
// An error, a nil result or a panic is "no secret produced" and is fine.
// Only the secret-producing call itself sees the fault: the functional
// controls of an entry (verify, reopen, decrypt) run with the healthy reader.

const c38FaultCallBudget = 4000

type c38BudgetExceeded struct{}

// c38FaultReader is a deterministic crypto/rand.Reader replacement with a
// programmable fault and a log of every byte it really delivered.
type c38FaultReader struct {
	name      string
	src       *mrand.Rand
	failFirst int // error on the first failFirst calls (-1: always)
	total     int // deliver at most total bytes, then error (-1: unlimited)
	piece     int // deliver at most piece bytes per call, chosen 1..piece (0: as many as asked)
	calls     int
	errs      int
	log       []byte
}

var errC38Entropy = errors.New("entropy source unavailable (injected)")

func (r *c38FaultReader) Read(p []byte) (int, error) {
	r.calls++
	if r.calls > c38FaultCallBudget {
		// bounded retry: code that loops on a failing source is stopped here;
		// kit.Guard turns it into "no secret produced"
		panic(c38BudgetExceeded{})
	}
	if r.failFirst < 0 || r.calls <= r.failFirst {
		r.errs++
		return 0, errC38Entropy
	}
	n := len(p)
	if r.piece > 0 && n > 0 {
		if k := 1 + r.src.Intn(r.piece); k < n {
			n = k
		}
	}
	if r.total >= 0 {
		if left := r.total - len(r.log); left <= 0 {
			r.errs++
			return 0, errC38Entropy
		} else if n > left {
			n = left
		}
	}
	r.src.Read(p[:n])
	r.log = append(r.log, p[:n]...)
	return n, nil
}

type c38FaultSpec struct {
	name      string
	failFirst int
	total     int
	piece     int
	benign    bool // never errors: every entry point must still succeed
}

func c38FaultSpecs() []c38FaultSpec {
	fs := []c38FaultSpec{{name: "always-error", failFirst: -1, total: -1}}
	for _, k := range []int{1, 2, 3, 4, 6, 9} {
		fs = append(fs, c38FaultSpec{name: fmt.Sprintf("fail-first-%d", k), failFirst: k, total: -1})
	}
	for _, t := range []int{1, 8, 15, 16, 31, 40, 47} {
		fs = append(fs, c38FaultSpec{name: fmt.Sprintf("deliver-%d-then-error", t), total: t})
	}
	fs = append(fs, c38FaultSpec{name: "deliver-20-in-pieces-then-error", total: 20, piece: 3})
	fs = append(fs, c38FaultSpec{name: "short-pieces", total: -1, piece: 3, benign: true})
	return fs
}

func (f c38FaultSpec) reader(seed int64) *c38FaultReader {
	return &c38FaultReader{name: f.name, src: mrand.New(mrand.NewSource(seed)), failFirst: f.failFirst, total: f.total, piece: f.piece}
}

type c38FaultOutcome struct {
	vals      map[string][]byte
	err       error
	panicked  bool
	panicVal  interface{}
	delivered []byte
	calls     int
	errs      int
}

// c38FaultRun runs one entry point once under a fresh fault reader.
func c38FaultRun(env *c38Env, ent *c38Entry, spec c38FaultSpec, seed int64, rep string) c38FaultOutcome {
	rd := spec.reader(seed)
	healthy := crand.Reader
	env.afterG = func() { crand.Reader = healthy }
	defer func() { env.afterG = nil; crand.Reader = healthy }()
	var out c38FaultOutcome
	out.panicked, out.panicVal, _ = kit.Guard(func() {
		out.vals, out.err = c38Produce(env, ent, rd, rep)
	})
	crand.Reader = healthy
	out.delivered, out.calls, out.errs = rd.log, rd.calls, rd.errs
	if out.panicked || out.err != nil {
		out.vals = nil
	}
	return out
}

const c38FaultSuffix = ":fallback-on-entropy-failure"

// entry-point part of a material site ("account.NewClient.iv" -> "account.NewClient").
func c38SiteEntry(site string) string {
	if i := strings.LastIndex(site, "."); i > 0 {
		return site[:i]
	}
	return site
}

func c38EntropyFaults(c *kit.Ctx, env *c38Env) {
	if !c38FaultSelfTest(c) {
		return
	}
	r := c.Rand("c38/faults")
	specs := c38FaultSpecs()
	flagged := map[string]bool{} // entry sites already found to fall back
	const reps = 3
	for _, ent := range c38Entries(env) {
		ent := ent
		for _, spec := range specs {
			seed := r.Int63()
			id := fmt.Sprintf("fault/%s/%s/%x", ent.name, spec.name, env.priv[:4])
			c.Begin("C38 %s", id)
			var outs []c38FaultOutcome
			for rep := 0; rep < reps; rep++ {
				outs = append(outs, c38FaultRun(env, &ent, spec, seed, fmt.Sprintf("f%d", rep)))
			}
			c.Inc("entropy_fault_cases")
			c.Inc("entropy_fault_cases:" + ent.name)
			c.Inc("entropy_fault_reader:" + spec.name)
			consulted := false
			produced := 0
			for _, o := range outs {
				if o.calls > 0 {
					consulted = true
				}
				switch {
				case o.panicked:
					if _, ok := o.panicVal.(c38BudgetExceeded); ok {
						c.Inc("entropy_fault_retry_budget_stopped")
					}
					c.Inc("entropy_fault_no_secret")
					c.Inc("entropy_fault_no_secret_panic")
					c.Inc("entropy_fault_panic:" + ent.name)
				case o.vals == nil:
					c.Inc("entropy_fault_no_secret")
					c.Inc("entropy_fault_no_secret_error")
				default:
					produced++
				}
			}
			c.Case(id, consulted)
			if spec.benign {
				if produced == reps {
					c.Inc("entropy_fault_benign_short_ok")
				} else {
					// a reader that never errors is a legal io.Reader; failing on it
					// is not a C38 matter, but the family would be vacuous for it
					c.Note("%s: entry point did not produce material under a reader that delivers 1..3 bytes per call and never errors (%v)", id, outs[0].err)
					c.Inc("entropy_fault_benign_short_failed")
				}
			}
			if produced == 0 {
				continue
			}
			// ---- oracle over the runs that produced key material ----
			type bad struct {
				mat c38Mat
				why string
			}
			var bads []bad
			seen := map[string]bool{}
			add := func(m c38Mat, why string) {
				if !seen[m.name] {
					seen[m.name] = true
					bads = append(bads, bad{m, why})
				}
			}
			values := map[string]map[string]bool{}
			for _, o := range outs {
				if o.vals == nil {
					continue
				}
				need := 0
				for _, m := range ent.mats {
					if len(o.vals[m.name]) > 0 {
						need += m.entropy
					}
				}
				for _, m := range ent.mats {
					v := o.vals[m.name]
					if len(v) == 0 {
						continue
					}
					if values[m.name] == nil {
						values[m.name] = map[string]bool{}
					}
					values[m.name][string(v)] = true
					if len(o.delivered) < need { // F1
						add(m, fmt.Sprintf("%d-byte %s %x was produced although the substituted crypto/rand.Reader delivered only %d bytes in total (%d Read calls, %d of them errors; all material of this call needs >= %d)",
							len(v), m.name, v, len(o.delivered), o.calls, o.errs, need))
					} else if c38RawMaterial[m.chain[0]] && !bytes.Contains(o.delivered, v) { // F3
						add(m, fmt.Sprintf("%s %x does not occur in the %d bytes the substituted crypto/rand.Reader delivered (%d Read calls, %d errors): it was not taken from the secure source",
							m.name, v, len(o.delivered), o.calls, o.errs))
					}
				}
			}
			for _, m := range ent.mats { // F2
				if n := len(values[m.name]); n > ent.maxOf(m) {
					add(m, fmt.Sprintf("%s takes %d different values in %d runs under one and the same fault reader (allowed %d): it is fed by something other than the secure source", m.name, n, produced, ent.maxOf(m)))
				}
			}
			if len(bads) == 0 {
				c.Inc("entropy_fault_secret_traceable")
				c.Inc("entropy_fault_secret_traceable:" + ent.name)
				continue
			}
			// one defect, one signature: attribute to the innermost delegate
			// entry point already found to fall back, else to this one
			b := bads[0]
			site := c38SiteEntry(b.mat.chain[0])
			for i := len(b.mat.chain) - 1; i > 0; i-- {
				if e := c38SiteEntry(b.mat.chain[i]); flagged[e] {
					site = e
					break
				}
			}
			flagged[c38SiteEntry(b.mat.chain[0])] = true
			flagged[site] = true
			var mats, whys []string
			for _, x := range bads {
				mats = append(mats, x.mat.name)
				whys = append(whys, x.why)
			}
			c.Inc("entropy_fault_fallback:" + site)
			cas := map[string]interface{}{"entry_point": ent.name, "fault_reader": spec.name, "materials": mats, "site": site}
			c.Sample(cas)
			c.Violate("insecure-rng:"+site+c38FaultSuffix,
				fmt.Sprintf("%s with crypto/rand.Reader replaced by the %q reader returned key material instead of failing: %s", ent.name, spec.name, strings.Join(whys, "; ")),
				cas)
		}
	}
}

// c38FaultSelfTest validates the fault oracle with two generators of known
// behaviour: one gives up when the source errors, one falls back to a
// time-seeded generator (the pattern the family exists to catch).
func c38FaultSelfTest(c *kit.Ctx) bool {
	env := &c38Env{c: c}
	mk := func(name string, f func() ([]byte, error)) *c38Entry {
		return &c38Entry{name: name, maxDistinct: 1, mats: []c38Mat{{"m", []string{"account.NewClient.iv"}, 16, 0}},
			gen: func(string) (map[string][]byte, error) {
				b, err := f()
				if err != nil {
					return nil, err
				}
				return map[string][]byte{"m": b}, nil
			}}
	}
	strict := mk("selftest:strict", func() ([]byte, error) {
		b := make([]byte, 16)
		_, err := crand.Read(b)
		return b, err
	})
	fallback := mk("selftest:fallback", func() ([]byte, error) {
		b := make([]byte, 16)
		for i := 0; i < 3; i++ {
			if _, err := crand.Read(b); err == nil {
				return b, nil
			}
		}
		mrand.New(mrand.NewSource(time.Now().UnixNano())).Read(b) // the object under test
		return b, nil
	})
	judge := func(ent *c38Entry, spec c38FaultSpec) (producedUntraceable bool) {
		o := c38FaultRun(env, ent, spec, 99, "st")
		if o.vals == nil {
			return false
		}
		v := o.vals["m"]
		return len(o.delivered) < 16 || !bytes.Contains(o.delivered, v)
	}
	ok := true
	for _, spec := range c38FaultSpecs() {
		if judge(strict, spec) {
			c.Inconclusive("entropy-fault self-test: strict generator judged as falling back under %s", spec.name)
			ok = false
		} else {
			c.Inc("entropy_fault_selftest_clean")
		}
		fb := judge(fallback, spec)
		// the fallback generator must be caught whenever the source fails 3 reads in a row
		mustCatch := spec.failFirst < 0 || spec.failFirst >= 3 || (spec.total >= 0 && spec.total < 16)
		if mustCatch && !fb {
			c.Inconclusive("entropy-fault self-test: fallback generator not caught under %s", spec.name)
			ok = false
		} else if fb {
			c.Inc("entropy_fault_selftest_flagged")
		}
	}
	return ok
}

var _ io.Reader = (*c38FaultReader)(nil)

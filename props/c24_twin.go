package props

import (
	"fmt"
	"os"
	"path/filepath"
	"strings"
	"time"

	"verif/kit"
)

// C24 monitor 3: twin determinism through the full node.
//
// One level-2 scenario (l2_scenario.go: a seeded history crossing the DPoS v1,
// CR-claim, new-CR and DPoS v2 eras, with arbiters going offline, producer and
// vote churn) is built and recorded by one process; the recorded blocks +
// confirms are then synced linearly by TWO more processes that differ in
// everything process-local:
//
//	run 1: rand.Seed(s1), GOMAXPROCS 1
//	run 2: rand.Seed(s2), GOMAXPROCS 16, started >= 1.2 s later (other wall clock second,
//	       other time-seeded values); the builder itself is a third environment
//	       (GOMAXPROCS 3, global source seeded from the clock by the treap package).
//
// After every block each process renders its consensus decisions (current and
// next arbiters in on-duty order, current and next candidates, duty index and
// on-duty arbiter, random-candidate bookkeeping, consensus mode, DPoS v2 active
// height, last irreversible height); the lines must be identical per height:
// "nondeterminism:twin-<what>".
//
// Every consensus-state step of the replays is bracketed with the global-source
// canary (c24_canary.go): the checkpoint manager's OnBlockSaved chain
// (committee + DPoS state + tx-pool checkpoints) via two probe checkpoints, and
// the block validation calls (CheckBlockSanity, CheckBlockContext, confirm
// checks) before the block is handed over. Database commits (treap inserts draw
// from the global source) and block assembly are outside the brackets. A moved
// canary names the step: "nondeterminism:twin-global-rand:<step>".
func c24Twin(c *kit.Ctx) {
	r := c.Rand("c24/twin")
	seed := r.Int63()
	era := []string{"dposv2-era", "dpos-era"}[c.Shard%2]
	if c.Shard >= 2 && c.Quick() {
		// quick tier: two scenarios (one per era) are enough; the other shards skip
		return
	}
	dir := filepath.Join(c.WorkDir, "c24-twin")
	os.MkdirAll(dir, 0755)
	defer os.RemoveAll(dir)
	timeout := 300 * time.Second
	base := l2Params{Era: era, Seed: seed, Record: filepath.Join(dir, "chain.rec"), Decisions: true}
	mk := func(role, name string) *l2Params {
		p := base
		p.Role, p.Name = role, name
		p.Dir = filepath.Join(dir, name)
		p.Out = filepath.Join(dir, name+".json")
		p.Snap = filepath.Join(dir, name+".snap")
		return &p
	}
	c.Begin("c24 twin scenario shard=%d era=%s seed=%d", c.Shard, era, seed)
	pb := mk("build", "builder")
	pb.MaxProcs = 3
	rb, err := l2Spawn(pb, timeout)()
	if err != nil || !rb.Done {
		msg := fmt.Sprint(err)
		if rb != nil {
			msg = rb.Err
		}
		c.Inc("twin_scenarios_failed")
		c.Note("c24 twin: builder failed (era=%s seed=%d): %s", era, seed, msg)
		return
	}
	os.RemoveAll(pb.Dir)
	p1, p2 := mk("replay", "run1"), mk("replay", "run2")
	p1.RandSeed, p1.MaxProcs, p1.Canary = r.Int63()|1, 1, true
	p2.RandSeed, p2.MaxProcs, p2.Canary, p2.DelayMs = r.Int63()|1, 16, true, 2500
	w1, w2 := l2Spawn(p1, timeout), l2Spawn(p2, timeout)
	r1, e1 := w1()
	r2, e2 := w2()
	for i, e := range []error{e1, e2} {
		if e != nil {
			c.Inc("twin_scenarios_failed")
			c.Note("c24 twin: run %d failed: %v", i+1, e)
			return
		}
	}
	partial := false
	for i, rr := range []*l2Result{r1, r2} {
		if rr.Done {
			continue
		}
		if strings.HasPrefix(rr.Err, "block-rejected:") {
			// an honest node refuses a block that the node which produced the chain
			// (and possibly the other run) validated and connected: the verdict on the
			// same chain data differs between processes
			partial = true
			reason := rr.Err
			if j := strings.LastIndex(reason, " <- "); j >= 0 {
				reason = reason[j+4:]
			}
			c.Violate("nondeterminism:twin-recorded-block-rejected:"+l2Slug(reason),
				fmt.Sprintf("linear run %d (era %s) refuses a block of the recorded chain that the builder process produced, validated and connected: %s", i+1, era, rr.Err),
				map[string]interface{}{"scenario_seed": fmt.Sprint(seed), "era": era, "monitor": "twin determinism"})
			continue
		}
		c.Inconclusive("c24 twin: linear run %d did not sync the recorded chain (era=%s seed=%d): %s", i+1, era, seed, rr.Err)
		return
	}
	c.Inc("twin_scenarios")
	c.Inc("twin_scenarios_" + era)
	if rb.V2Active != 0 {
		c.Inc("twin_scenarios_dposv2_active")
	}
	if r1.MaxProcs == 1 && r2.MaxProcs == 16 {
		c.Inc("twin_gomaxprocs_1_vs_16")
	}
	if d := r2.StartNano - r1.StartNano; d > int64(time.Second) {
		c.Inc("twin_start_times_differ_by_more_than_1s")
	}
	// ---- canary ----
	for i, rr := range []*l2Result{r1, r2} {
		c.Count("twin_canary_brackets", rr.CanaryArmed)
		c.Count("twin_canary_unmoved", rr.Counters["canary_unmoved"])
		c.Count("twin_canary_moved_reseeded", rr.Counters["canary_moved_reseeded"])
		c.Count("twin_canary_moved_drew_only", rr.Counters["canary_moved_drew"])
		c.Count("twin_canary_global_draws_observed", rr.Counters["canary_global_draws"])
		c.Count("twin_prevalidation_errors", rr.Counters["replay_prevalidation_errors"])
		seen := map[string]bool{}
		var drew []string
		for _, h := range rr.Canary {
			if h.Kind != "reseeded" {
				// Draws without a reseed. Observed source: goleveldb's db_iter.go draws
				// rand.Intn(2*IteratorSamplingRate) from the global source for every
				// database iterator; the node creates its own transactions
				// (CRCAppropriation, real-withdraw txs) inside / right after the state
				// update and lists UTXOs with an iterator. The drawn number steers
				// leveldb's read-sampling only. A consensus VALUE taken from the global
				// source without seeding it would differ between the two runs (their
				// global streams differ at every step) and is caught by the decision
				// comparison below. Counted and listed, not a violation.
				c.Inc("twin_canary_drew_at:" + l2Slug(h.Step))
				if len(drew) < 12 {
					drew = append(drew, fmt.Sprintf("%d:%v", h.Height, rb.Ops[h.Height]))
				}
				continue
			}
			step := h.Step
			if seen[step] {
				continue
			}
			seen[step] = true
			c.Violate("nondeterminism:twin-global-rand-reseeded:"+l2Slug(step),
				fmt.Sprintf("full node, linear sync (run %d, era %s): rand.Seed(K) before the step; after \"%s\" for the block at height %d the next draw from the process-global math/rand source is no value of the stream of K: the step RESEEDED the global source, so every later global draw in the process (treap priorities, p2p address selection, coinbase nonces) is a function of whatever it was seeded with",
					i+1, era, step, h.Height),
				map[string]interface{}{"scenario_seed": fmt.Sprint(seed), "era": era, "height": h.Height, "step": step, "ops_at_height": rb.Ops[h.Height], "monitor": "twin canary"})
		}
		if len(drew) > 0 && i == 0 {
			c.Note("c24 twin (era %s seed %d): global-source draws WITHOUT reseed inside consensus-state steps at heights (ops): %v", era, seed, drew)
		}
	}
	// ---- decisions ----
	sb, errb := l2ReadSnaps(pb.Snap)
	s1, err1 := l2ReadSnaps(p1.Snap)
	s2, err2 := l2ReadSnaps(p2.Snap)
	if errb != nil || err1 != nil || err2 != nil {
		c.Inconclusive("c24 twin: reading decision streams: %v %v %v", errb, err1, err2)
		return
	}
	ib, i1, i2 := l2LinearIndex(sb), l2LinearIndex(s1), l2LinearIndex(s2)
	prev := map[string]string{}
	reported := map[string]bool{}
	for h := uint32(1); h <= rb.Height; h++ {
		a, b, bb := i1[h], i2[h], ib[h]
		if partial && (a == nil || b == nil) {
			break
		}
		if a == nil || b == nil || bb == nil {
			c.Inconclusive("c24 twin: no decisions recorded at height %d", h)
			return
		}
		fa, fb, fbb := c24Fields(string(a.Dec)), c24Fields(string(b.Dec)), c24Fields(string(bb.Dec))
		changed := false
		for _, k := range c24FieldOrder {
			if prev[k] != fa[k] && k != "duty" && k != "onduty" && k != "irr" {
				if prev[k] != "" {
					c.Inc("twin_changes_of_" + k)
				}
				changed = true
			}
			prev[k] = fa[k]
		}
		c.Case(fmt.Sprintf("twin/%d/%d", seed, h), changed)
		c.Inc("twin_heights_compared")
		if rb.V2Active != 0 && h > rb.V2Active {
			c.Inc("twin_heights_compared_dposv2_active")
		}
		equal := true
		for _, k := range c24FieldOrder {
			if fa[k] == fb[k] && fa[k] == fbb[k] {
				continue
			}
			equal = false
			sig := "nondeterminism:twin-" + c24FieldName[k]
			c.Inc("seen|" + sig)
			if reported[sig] {
				continue
			}
			reported[sig] = true
			c.Violate(sig, fmt.Sprintf("the same recorded chain (era %s), height %d: %s differs between processes: run1(GOMAXPROCS 1)=%q run2(GOMAXPROCS 16)=%q builder=%q", era, h, c24FieldName[k], fa[k], fb[k], fbb[k]),
				map[string]interface{}{"scenario_seed": fmt.Sprint(seed), "era": era, "height": h, "field": k, "ops_at_height": rb.Ops[h], "monitor": "twin determinism"})
		}
		if equal {
			c.Inc("twin_heights_equal")
		}
	}
	if partial {
		return
	}
	if r1.Tip != r2.Tip || r1.Tip != rb.Tip {
		c.Inconclusive("c24 twin: the runs ended on different tips")
	}
	c.Sample(map[string]interface{}{"monitor": "twin", "era": era, "scenario_seed": fmt.Sprint(seed), "height": rb.Height, "v2_active_height": rb.V2Active,
		"last_decisions": string(i1[rb.Height].Dec)})
}

var c24FieldOrder = []string{"cur", "next", "cand", "nextcand", "duty", "onduty", "rnd", "algo", "v2active", "irr"}

var c24FieldName = map[string]string{"cur": "current-arbiters", "next": "next-arbiters", "cand": "candidates", "nextcand": "next-candidates",
	"duty": "duty-index", "onduty": "on-duty-arbiter", "rnd": "random-candidate", "algo": "consensus-algorithm", "v2active": "dposv2-active-height", "irr": "last-irreversible-height"}

// c24Fields splits a decisions line "k=v k=v ..." (values contain no spaces).
func c24Fields(s string) map[string]string {
	m := map[string]string{}
	for _, f := range strings.Fields(s) {
		if i := strings.IndexByte(f, '='); i > 0 {
			m[f[:i]] = f[i+1:]
		}
	}
	return m
}
